/-
  Proofs/C18Pack.lean — helper lemmas for Props/C18_Pack.lean.
-/
import BitstringModel.Model.C18
import BitstringModel.Proofs.C18
import BitstringModel.Props.C18

namespace BM.C18
open BM


/-! ### facts about the generated tables, for all prefixes × codes at once -/

def tokenOK (e c : Char) : Bool :=
  match (replacements e).lookup c, structSpec e c with
  | some (name, len), some s =>
    (match mkDtype name len with
      | .ok d => decide (d = nativeDtype s)
      | .error _ => false) &&
    decide (0 < s.size) && decide (len = 8 * s.size) &&
    decide (s.kind = .float → (s.size = 2 ∨ s.size = 4 ∨ s.size = 8)) &&
    decide (((structKindSize c).map (·.2)).getD 0 = s.size)
  | _, _ => false

theorem tokenOK_all : ∀ e ∈ specEndians, ∀ c ∈ specCodes, tokenOK e c = true := by decide

/-- What the code's table gives for a prefix and a code, against the struct documentation. -/
theorem token_info (e c : Char) (he : e ∈ specEndians) (hc : c ∈ specCodes) :
    ∃ name len s, (replacements e).lookup c = some (name, len) ∧ structSpec e c = some s ∧
      mkDtype name len = .ok (nativeDtype s) ∧ 0 < s.size ∧ len = 8 * s.size ∧
      (s.kind = .float → (s.size = 2 ∨ s.size = 4 ∨ s.size = 8)) ∧
      ((structKindSize c).map (·.2)).getD 0 = s.size := by
  have h := tokenOK_all e he c hc
  unfold tokenOK at h
  split at h
  · rename_i name len s h1 h2
    refine ⟨name, len, s, h1, h2, ?_⟩
    simp only [Bool.and_eq_true, decide_eq_true_eq] at h
    obtain ⟨⟨⟨⟨ha, hb⟩, hc'⟩, hd⟩, he'⟩ := h
    refine ⟨?_, hb, hc', hd, he'⟩
    split at ha
    · rename_i d hd'
      simp only [decide_eq_true_eq] at ha
      rw [hd', ha]
    · cases ha
  · cases h


theorem leBytes_one (v : Nat) : leBytes 1 v = [v % 256] := rfl

theorem packInt_one (o : Order) (signed : Bool) (v : Int) :
    Struct.packInt 1 o signed v = Struct.packInt 1 .big signed v := by
  cases o <;> simp [Struct.packInt, orderBytes, leBytes_one]

theorem toOption_map_congr {α β} (f : α → β) (a b : Except Err α) (h : a = b) :
    (a.map f).toOption = (b.map f).toOption := by rw [h]

/-- Building a value with the dtype that denotes a struct layout gives `struct.pack`'s bytes for that item. -/
theorem build_nativeDtype (s : Spec) (hs : 0 < s.size)
    (hf : s.kind = .float → (s.size = 2 ∨ s.size = 4 ∨ s.size = 8)) (v : Val) :
    (build (nativeDtype s) v).toOption = ((Struct.pack1 s v).map bitsOfBytes).toOption := by
  obtain ⟨k, n, o⟩ := s
  simp only at hs hf
  have h0 : 8 * n ≠ 0 := by omega
  have h8 : ¬ (8 * n % 8 ≠ 0) := by omega
  cases k
  · -- signed
    cases v with
    | int i =>
      by_cases h1 : n = 1
      · subst h1
        simp only [nativeDtype, if_true, build, h0, if_false, Struct.pack1]
        rw [int2bitstore_eq_to_bytes' 1 hs true i, packInt_one o true i]
      · cases o
        · simp only [nativeDtype, h1, if_false, if_true, build, h0, h8, Struct.pack1]
          rw [intle2bitstore_eq_to_bytes' n hs true i]
        · simp only [nativeDtype, h1, if_false, build, h0, h8, Struct.pack1, reduceCtorEq]
          rw [int2bitstore_eq_to_bytes' n hs true i]
    | flt p => by_cases h1 : n = 1 <;> cases o <;> simp [nativeDtype, h1, build, Struct.pack1, Except.map, Except.toOption]
    | nan => by_cases h1 : n = 1 <;> cases o <;> simp [nativeDtype, h1, build, Struct.pack1, Except.map, Except.toOption]
  · -- unsigned
    cases v with
    | int i =>
      by_cases h1 : n = 1
      · subst h1
        simp only [nativeDtype, if_true, build, h0, if_false, Struct.pack1]
        rw [int2bitstore_eq_to_bytes' 1 hs false i, packInt_one o false i]
      · cases o
        · simp only [nativeDtype, h1, if_false, if_true, build, h0, h8, Struct.pack1]
          rw [intle2bitstore_eq_to_bytes' n hs false i]
        · simp only [nativeDtype, h1, if_false, build, h0, h8, Struct.pack1, reduceCtorEq]
          rw [int2bitstore_eq_to_bytes' n hs false i]
    | flt p => by_cases h1 : n = 1 <;> cases o <;> simp [nativeDtype, h1, build, Struct.pack1, Except.map, Except.toOption]
    | nan => by_cases h1 : n = 1 <;> cases o <;> simp [nativeDtype, h1, build, Struct.pack1, Except.map, Except.toOption]
  · -- float
    have hl : 8 * n = 16 ∨ 8 * n = 32 ∨ 8 * n = 64 := by have := hf rfl; omega
    have hd : 8 * n / 8 = n := by omega
    cases v with
    | flt p =>
      cases o <;>
      · simp only [nativeDtype, build, hl, if_true, Struct.pack1]
        by_cases hp : p < 2 ^ (8 * n)
        · simp [hp, float2bitstore, structPackFloat, hd, orderBytes, Except.map, Except.toOption]
        · simp [hp, Except.map, Except.toOption]
    | int i => cases o <;> simp [nativeDtype, build, Struct.pack1, Except.map, Except.toOption]
    | nan => cases o <;> simp [nativeDtype, build, Struct.pack1, Except.map, Except.toOption]


theorem pack1_length (s : Spec) (hs : 0 < s.size) (v : Val) (x : List Nat) (h : Struct.pack1 s v = .ok x) :
    x.length = s.size ∧ ∀ y ∈ x, y < 256 := by
  obtain ⟨k, n, o⟩ := s
  have hob : ∀ u, (orderBytes o (leBytes n u)).length = n ∧ ∀ y ∈ orderBytes o (leBytes n u), y < 256 := by
    intro u
    cases o
    · exact ⟨by simp [orderBytes], by simpa [orderBytes] using leBytes_lt n u⟩
    · exact ⟨by simp [orderBytes], by simpa [orderBytes] using leBytes_lt n u⟩
  have hint : ∀ sg i, Struct.packInt n o sg i = .ok x → x.length = n ∧ ∀ y ∈ x, y < 256 := by
    intro sg i hi
    unfold Struct.packInt at hi
    cases sg <;> simp only [Bool.false_eq_true, if_false, if_true] at hi <;> split at hi
    · injection hi with hi; subst hi; exact hob _
    · cases hi
    · injection hi with hi; subst hi; exact hob _
    · cases hi
  cases k <;> cases v <;> simp only [Struct.pack1] at h
  · exact hint _ _ h
  · cases h
  · cases h
  · exact hint _ _ h
  · cases h
  · cases h
  · cases h
  · split at h
    · injection h with h; subst h; exact hob _
    · cases h
  · cases h

theorem valFinite_float (c : Char) (n : Nat) (p : Nat) (hk : structKindSize c = some (.float, n))
    (h : valFinite c (.flt p) = true) : Struct.isNaN n p = false := by
  simpa [valFinite, hk] using h

/-- One item: `struct.unpack` of `struct.pack` is the value (finite floats). -/
theorem unpack1_pack1 (s : Spec) (hs : 0 < s.size) (v : Val) (x : List Nat) (h : Struct.pack1 s v = .ok x)
    (hfin : s.kind = .float → ∀ p, v = .flt p → Struct.isNaN s.size p = false) :
    Struct.unpack1 s x = v := by
  obtain ⟨k, n, o⟩ := s
  simp only at hs hfin
  cases k <;> cases v <;> simp only [Struct.pack1] at h <;> try (cases h; done)
  · simp only [Struct.unpack1]
    rw [(unpackInt_packInt' n hs o true _ x h).1]
  · simp only [Struct.unpack1]
    rw [(unpackInt_packInt' n hs o false _ x h).1]
  · rename_i p
    split at h
    · rename_i hp
      injection h with h
      subst h
      have ov := order_value n p hp
      have hn := hfin rfl p rfl
      cases o <;> simp [Struct.unpack1, ov.1, ov.2, hn]
    · cases h

theorem leValue_singleton (item : List Nat) (h : item.length = 1) : leValue item = beValue item := by
  match item, h with
  | [x], _ => simp [beValue]

theorem structUnpackFloat_eq (big : Bool) (n : Nat) (o : Order) (item : List Nat) (hlen : item.length = n)
    (ho : big = (o == .big)) :
    structUnpackFloat big item = Struct.unpack1 ⟨.float, n, o⟩ item := by
  cases o <;> simp_all [structUnpackFloat, Struct.unpack1]

/-- One item: reading with the dtype that denotes a struct layout is `struct.unpack`'s item. -/
theorem getFn_nativeDtype (s : Spec) (hs : 0 < s.size)
    (hf : s.kind = .float → (s.size = 2 ∨ s.size = 4 ∨ s.size = 8)) (item : List Nat)
    (hlen : item.length = s.size) (hlt : ∀ y ∈ item, y < 256) :
    getFn (nativeDtype s).defn (bitsOfBytes item) = .ok (Struct.unpack1 s item) := by
  obtain ⟨k, n, o⟩ := s
  simp only at hs hf hlen
  have hbl : (bitsOfBytes item).length = 8 * n := by simp [hlen]
  have h8 : (bitsOfBytes item).length % 8 = 0 := by rw [hbl]; omega
  have hne : bitsOfBytes item ≠ [] := by
    intro h; have := congrArg List.length h; rw [hbl] at this; simp at this; omega
  have h0 : 8 * n ≠ 0 := by omega
  have htb := toBytes_bitsOfBytes' item hlt
  have hnat := bitsToNat_bitsOfBytes item hlt
  cases k
  · by_cases h1 : n = 1
    · have hsing := leValue_singleton item (by omega)
      have hsg := bitsToInt_eq_toSigned (bitsOfBytes item) n hs hbl
      cases o <;>
        simp [nativeDtype, h1, getFn, DefName.allows, getint, hbl, Except.map, Struct.unpack1, Struct.unpackInt,
          hsg, hnat, hsing, hlen]
    · cases o
      · simp only [nativeDtype, h1, if_false, if_true, getFn, DefName.allows, hbl, Struct.unpack1]
        rw [getintle_eq_from_bytes' _ h8 hne, htb]
        simp [Except.map]
      · simp only [nativeDtype, h1, if_false, getFn, DefName.allows, hbl, Struct.unpack1, reduceCtorEq]
        rw [getintbe_eq_from_bytes' _ h8 hne, htb]
        simp [Except.map]
  · by_cases h1 : n = 1
    · have hsing := leValue_singleton item (by omega)
      cases o <;>
        simp [nativeDtype, h1, getFn, DefName.allows, getuint, hbl, Except.map, Struct.unpack1, Struct.unpackInt,
          hnat, hsing]
    · cases o
      · simp only [nativeDtype, h1, if_false, if_true, getFn, DefName.allows, hbl, Struct.unpack1]
        rw [getuintle_eq_from_bytes' _ h8 hne, htb]
        simp [Except.map, Struct.unpackInt]
      · simp only [nativeDtype, h1, if_false, getFn, DefName.allows, hbl, Struct.unpack1, reduceCtorEq]
        rw [getuintbe_eq_from_bytes' _ h8 hne, htb]
        simp [Except.map, Struct.unpackInt]
  · have hl : 8 * n = 16 ∨ 8 * n = 32 ∨ 8 * n = 64 := by have := hf rfl; omega
    cases o
    · simp only [nativeDtype, getFn, DefName.allows, hbl, getfloat, htb]
      simp [hl, structUnpackFloat_eq false n .little item hlen rfl]
    · simp only [nativeDtype, getFn, DefName.allows, hbl, getfloat, htb]
      simp [hl, structUnpackFloat_eq true n .big item hlen rfl]



/-- The token `structparser` emits for a code. -/
def tok (e c : Char) : String × Nat := ((replacements e).lookup c).getD ("", 0)

theorem structparser_eq (e : Char) (he : e ∈ specEndians) (codes : List Char) (hc : ∀ c ∈ codes, c ∈ specCodes) :
    structparser e codes = .ok (codes.map (tok e)) := by
  induction codes with
  | nil => rfl
  | cons c cs ih =>
    obtain ⟨name, len, s, h1, _⟩ := token_info e c he (hc c List.mem_cons_self)
    simp only [structparser, h1, ih (fun x hx => hc x (List.mem_cons_of_mem _ hx)), Except.map, List.map_cons, tok,
      Option.getD_some]

theorem toOption_ok_iff {α} (a : Except Err α) (x : α) : a.toOption = some x ↔ a = .ok x := by
  cases a <;> simp [Except.toOption]

theorem toOption_none_iff {α} (a : Except Err α) : a.toOption = none ↔ ∃ e, a = .error e := by
  cases a <;> simp [Except.toOption]

theorem packTokens_eq (e : Char) (he : e ∈ specEndians) (codes : List Char) (hc : ∀ c ∈ codes, c ∈ specCodes)
    (vals : List Val) :
    (packTokens (codes.map (tok e)) vals).toOption = ((Struct.pack e codes vals).map bitsOfBytes).toOption := by
  induction codes generalizing vals with
  | nil => cases vals <;> simp [packTokens, Struct.pack, Except.map, Except.toOption, bitsOfBytes]
  | cons c cs ih =>
    cases vals with
    | nil => simp [packTokens, Struct.pack, Except.map, Except.toOption]
    | cons v vs =>
      obtain ⟨name, len, s, h1, h2, h3, h4, h5, h6, _⟩ := token_info e c he (hc c List.mem_cons_self)
      have hb := build_nativeDtype s h4 h6 v
      have hi := ih (fun x hx => hc x (List.mem_cons_of_mem _ hx)) vs
      simp only [List.map_cons, tok, h1, Option.getD_some, packTokens, h3, Struct.pack, h2]
      cases hp : Struct.pack1 s v with
      | error err =>
        rw [hp] at hb
        simp only [Except.map, Except.toOption] at hb
        obtain ⟨e', he'⟩ := (toOption_none_iff _).mp hb
        simp [he', Except.map, Except.toOption, bind, Except.bind]
      | ok x =>
        rw [hp] at hb
        simp only [Except.map, Except.toOption] at hb
        have hb' := (toOption_ok_iff _ _).mp hb
        rw [hb']
        cases hr : Struct.pack e cs vs with
        | error err =>
          rw [hr] at hi
          simp only [Except.map, Except.toOption] at hi
          obtain ⟨e', he'⟩ := (toOption_none_iff _).mp hi
          simp [he', Except.map, Except.toOption, bind, Except.bind]
        | ok r =>
          rw [hr] at hi
          simp only [Except.map, Except.toOption] at hi
          have hi' := (toOption_ok_iff _ _).mp hi
          simp [hi', Except.map, Except.toOption, bind, Except.bind, pure, Except.pure, bitsOfBytes_append]

theorem pack_struct_eq' (e : Char) (he : e ∈ specEndians) (codes : List Char) (hc : ∀ c ∈ codes, c ∈ specCodes)
    (vals : List Val) :
    ((structparser e codes).bind (packTokens · vals)).toOption
      = ((Struct.pack e codes vals).map bitsOfBytes).toOption := by
  rw [structparser_eq e he codes hc]
  exact packTokens_eq e he codes hc vals

theorem build_eq_struct' (e c : Char) (he : e ∈ specEndians) (hc : c ∈ specCodes) (v : Val) :
    ∃ name len d s, (replacements e).lookup c = some (name, len) ∧ mkDtype name len = .ok d ∧
      structSpec e c = some s ∧ len = 8 * s.size ∧
      (build d v).toOption = ((Struct.pack1 s v).map bitsOfBytes).toOption := by
  obtain ⟨name, len, s, h1, h2, h3, h4, h5, h6, _⟩ := token_info e c he hc
  exact ⟨name, len, nativeDtype s, s, h1, h3, h2, h5, build_nativeDtype s h4 h6 v⟩

theorem pack_fmt_eq' (fmt : String) (e : Char) (codes : List Char) (vals : List Val)
    (hm : matchStructFmt fmt = some (e, codes)) :
    pack fmt vals = (structparser e codes).bind (packTokens · vals) := by
  simp only [pack, hm]
  cases structparser e codes <;> rfl


theorem expandCodes_digits (ds : List Char) (hds : ∀ d ∈ ds, d.isDigit = true) (hne : ds ≠ []) (c : Char)
    (hc : isCode c = true) (hnd : c.isDigit = false) (cs : List Char) (cnt : Option Nat) :
    expandCodes (ds ++ c :: cs) cnt =
      (expandCodes cs none).map
        (List.replicate (ds.foldl (fun acc d => acc * 10 + (d.toNat - '0'.toNat)) (cnt.getD 0)) c ++ ·) := by
  induction ds generalizing cnt with
  | nil => exact absurd rfl hne
  | cons d ds ih =>
    have hd : d.isDigit = true := hds d List.mem_cons_self
    simp only [List.cons_append, expandCodes, hd, if_true, List.foldl_cons]
    by_cases hnil : ds = []
    · subst hnil
      simp only [List.nil_append, expandCodes, hnd, Bool.false_eq_true, if_false, hc, if_true, Option.getD_some,
        List.foldl_nil]
      cases expandCodes cs none <;> rfl
    · rw [ih (fun x hx => hds x (List.mem_cons_of_mem _ hx)) hnil]
      rfl

theorem expandCodes_count' (ds : List Char) (hds : ∀ d ∈ ds, d.isDigit = true) (hne : ds ≠ []) (c : Char)
    (hc : isCode c = true) (hnd : c.isDigit = false) (cs : List Char) :
    expandCodes (ds ++ c :: cs) none =
      (expandCodes cs none).map
        (List.replicate (ds.foldl (fun acc d => acc * 10 + (d.toNat - '0'.toNat)) 0) c ++ ·) :=
  expandCodes_digits ds hds hne c hc hnd cs none

theorem expandCodes_single' (c : Char) (hc : isCode c = true) (hnd : c.isDigit = false) (cs : List Char) :
    expandCodes (c :: cs) none = (expandCodes cs none).map (c :: ·) := by
  simp only [expandCodes, hnd, Bool.false_eq_true, if_false, hc, if_true, Option.getD_none]
  cases expandCodes cs none <;> rfl



theorem structSpec_size (e c : Char) (s : Spec) (h : structSpec e c = some s) :
    0 < s.size ∧ ((structKindSize c).map (·.2)).getD 0 = s.size ∧ structKindSize c = some (s.kind, s.size) ∧
    (s.kind = .float → (s.size = 2 ∨ s.size = 4 ∨ s.size = 8)) := by
  unfold structSpec at h
  split at h
  · rename_i o k n ho hk
    injection h with h; subst h
    simp only [hk, Option.map_some, Option.getD_some, true_and]
    unfold structKindSize at hk
    split at hk <;> cases hk <;> simp
  · cases h

/-- SPEC-level length of `struct.pack`. -/
theorem structPack_length (e : Char) (codes : List Char) (vals : List Val) (x : List Nat)
    (h : Struct.pack e codes vals = .ok x) : x.length = standardCalcsize codes ∧ ∀ y ∈ x, y < 256 := by
  induction codes generalizing vals x with
  | nil =>
    cases vals with
    | nil => simp only [Struct.pack] at h; injection h with h; subst h; simp [standardCalcsize]
    | cons v vs => simp [Struct.pack] at h
  | cons c cs ih =>
    cases vals with
    | nil => simp [Struct.pack] at h
    | cons v vs =>
      simp only [Struct.pack] at h
      split at h
      · cases h
      · rename_i s hs
        obtain ⟨hpos, hsz, _, _⟩ := structSpec_size e c s hs
        cases hp : Struct.pack1 s v with
        | error err => simp [hp, bind, Except.bind] at h
        | ok x1 =>
          cases hr : Struct.pack e cs vs with
          | error err => simp [hp, hr, bind, Except.bind] at h
          | ok r =>
            simp only [hp, hr, bind, Except.bind, pure, Except.pure] at h
            injection h with h; subst h
            obtain ⟨l1, b1⟩ := pack1_length s hpos v x1 hp
            obtain ⟨l2, b2⟩ := ih vs r hr
            refine ⟨?_, ?_⟩
            · simp only [List.length_append, l1, l2, standardCalcsize, List.map_cons, List.sum_cons, hsz]
            · intro y hy
              rcases List.mem_append.mp hy with h | h
              · exact b1 y h
              · exact b2 y h

theorem pack_length' (e : Char) (he : e ∈ specEndians) (codes : List Char) (hc : ∀ c ∈ codes, c ∈ specCodes)
    (vals : List Val) (bits : Bits) (h : (structparser e codes).bind (packTokens · vals) = .ok bits) :
    bits.length = 8 * standardCalcsize codes := by
  have := pack_struct_eq' e he codes hc vals
  rw [h] at this
  cases hp : Struct.pack e codes vals with
  | error err => simp [hp, Except.map, Except.toOption] at this
  | ok x =>
    simp only [hp, Except.map, Except.toOption, Option.some.injEq] at this
    subst this
    simp [(structPack_length e codes vals x hp).1]

theorem bitsOfBytes_drop (d : List Nat) (k : Nat) : (bitsOfBytes d).drop (8 * k) = bitsOfBytes (d.drop k) := by
  induction d generalizing k with
  | nil => simp [bitsOfBytes]
  | cons x d ih =>
    cases k with
    | zero => simp
    | succ k =>
      rw [bitsOfBytes_cons, show 8 * (k + 1) = 8 + 8 * k by omega, ← List.drop_drop]
      rw [List.drop_left' (by simp)]
      simpa using ih k

theorem bitsOfBytes_take (d : List Nat) (k : Nat) : (bitsOfBytes d).take (8 * k) = bitsOfBytes (d.take k) := by
  induction d generalizing k with
  | nil => simp [bitsOfBytes]
  | cons x d ih =>
    cases k with
    | zero => simp [bitsOfBytes]
    | succ k =>
      rw [bitsOfBytes_cons, show 8 * (k + 1) = 8 + 8 * k by omega]
      rw [List.take_append, List.take_of_length_le (by simp)]
      simp [ih k, bitsOfBytes_cons]



theorem readTokens_eq (e : Char) (he : e ∈ specEndians) (codes : List Char) (hc : ∀ c ∈ codes, c ∈ specCodes)
    (d : List Nat) (hd : ∀ y ∈ d, y < 256) (k : Nat) :
    (readTokens (codes.map (tok e)) (bitsOfBytes d) (8 * k)).toOption
      = (Struct.unpack e codes (d.drop k)).toOption := by
  induction codes generalizing k with
  | nil => simp [readTokens, Struct.unpack, Except.toOption]
  | cons c cs ih =>
    obtain ⟨name, len, s, h1, h2, h3, h4, h5, h6, _⟩ := token_info e c he (hc c List.mem_cons_self)
    have hi := ih (fun x hx => hc x (List.mem_cons_of_mem _ hx)) (k + s.size)
    simp only [List.map_cons, tok, h1, Option.getD_some, readTokens, h3, Struct.unpack, h2, readFn,
      bitsOfBytes_length, List.length_drop]
    have hlen : (nativeDtype s).length = 8 * s.size := rfl
    rw [hlen]
    by_cases hshort : d.length - k < s.size
    · rw [if_pos (by omega), if_pos hshort]
      simp [Except.toOption]
    · rw [if_neg (by omega), if_neg hshort]
      have hitem : ((bitsOfBytes d).drop (8 * k)).take (8 * s.size) = bitsOfBytes ((d.drop k).take s.size) := by
        rw [bitsOfBytes_drop, bitsOfBytes_take]
      rw [hitem]
      have hg := getFn_nativeDtype s h4 h6 ((d.drop k).take s.size) (by simp; omega)
        (fun y hy => hd y (List.mem_of_mem_drop (List.mem_of_mem_take hy)))
      rw [hg, h5, show 8 * k + 8 * s.size = 8 * (k + s.size) by omega]
      rw [List.drop_drop] 
      cases hr : Struct.unpack e cs (d.drop (k + s.size)) with
      | error err =>
        rw [hr] at hi
        obtain ⟨e', he'⟩ := (toOption_none_iff _).mp hi
        simp [he', Except.toOption, bind, Except.bind]
      | ok r =>
        rw [hr] at hi
        have hi' := (toOption_ok_iff _ _).mp hi
        simp [hi', Except.toOption, bind, Except.bind, pure, Except.pure]

theorem unpack_struct_eq' (e : Char) (he : e ∈ specEndians) (codes : List Char) (hc : ∀ c ∈ codes, c ∈ specCodes)
    (b : Bits) (h8 : b.length % 8 = 0) :
    ((structparser e codes).bind (readTokens · b 0)).toOption = (Struct.unpack e codes (toBytes b)).toOption := by
  rw [structparser_eq e he codes hc]
  have := readTokens_eq e he codes hc (toBytes b) (toBytes_lt b h8) 0
  rw [bitsOfBytes_toBytes' b h8] at this
  simpa [Except.bind] using this


/-- Decomposition of a successful `Struct.pack` of a non-empty format. -/
theorem structPack_cons (e c : Char) (cs : List Char) (vals : List Val) (x : List Nat)
    (h : Struct.pack e (c :: cs) vals = .ok x) :
    ∃ v vs s x1 r, vals = v :: vs ∧ structSpec e c = some s ∧ Struct.pack1 s v = .ok x1 ∧
      Struct.pack e cs vs = .ok r ∧ x = x1 ++ r := by
  cases vals with
  | nil => simp [Struct.pack] at h
  | cons v vs =>
    simp only [Struct.pack] at h
    split at h
    · cases h
    · rename_i s hs
      cases hp : Struct.pack1 s v with
      | error err => simp [hp, bind, Except.bind] at h
      | ok x1 =>
        cases hr : Struct.pack e cs vs with
        | error err => simp [hp, hr, bind, Except.bind] at h
        | ok r =>
          simp only [hp, hr, bind, Except.bind, pure, Except.pure] at h
          injection h with h
          exact ⟨v, vs, s, x1, r, rfl, hs, hp, hr, h.symm⟩

theorem item_finite (e c : Char) (s : Spec) (hs : structSpec e c = some s) (v : Val) (h : valFinite c v = true) :
    s.kind = .float → ∀ p, v = .flt p → Struct.isNaN s.size p = false := by
  intro hk p hv
  obtain ⟨_, _, hks, _⟩ := structSpec_size e c s hs
  subst hv
  rw [hk] at hks
  exact valFinite_float c s.size p hks h

theorem struct_unpack_pack' (e : Char) (codes : List Char) (vals : List Val) (hfin : valsFinite codes vals = true)
    (d rest : List Nat) (h : Struct.pack e codes vals = .ok d) :
    Struct.unpack e codes (d ++ rest) = .ok vals := by
  induction codes generalizing vals d with
  | nil =>
    cases vals with
    | nil => simp [Struct.unpack]
    | cons v vs => simp [Struct.pack] at h
  | cons c cs ih =>
    obtain ⟨v, vs, s, x1, r, rfl, hs, hp, hr, rfl⟩ := structPack_cons e c cs vals d h
    simp only [valsFinite, Bool.and_eq_true] at hfin
    obtain ⟨hpos, _, _, _⟩ := structSpec_size e c s hs
    obtain ⟨l1, _⟩ := pack1_length s hpos v x1 hp
    have hu := unpack1_pack1 s hpos v x1 hp (item_finite e c s hs v hfin.1)
    simp only [Struct.unpack, hs, List.length_append, l1]
    rw [if_neg (by omega)]
    have ht : (x1 ++ r ++ rest).take s.size = x1 := by
      rw [List.append_assoc, List.take_left' l1]
    have hd : (x1 ++ r ++ rest).drop s.size = r ++ rest := by
      rw [List.append_assoc, List.drop_left' l1]
    rw [ht, hd, ih vs hfin.2 r hr, hu]
    rfl

theorem readTokens_packed (e : Char) (he : e ∈ specEndians) (codes : List Char) (hc : ∀ c ∈ codes, c ∈ specCodes)
    (vals : List Val) (hfin : valsFinite codes vals = true) (x : List Nat) (hpack : Struct.pack e codes vals = .ok x)
    (pre rest : Bits) :
    readTokens (codes.map (tok e)) (pre ++ bitsOfBytes x ++ rest) pre.length = .ok vals := by
  induction codes generalizing vals x pre with
  | nil =>
    cases vals with
    | nil => simp [readTokens]
    | cons v vs => simp [Struct.pack] at hpack
  | cons c cs ih =>
    obtain ⟨v, vs, s, x1, r, rfl, hs, hp, hr, rfl⟩ := structPack_cons e c cs vals x hpack
    obtain ⟨name, len, s', h1, h2, h3, h4, h5, h6, _⟩ := token_info e c he (hc c List.mem_cons_self)
    rw [hs] at h2; injection h2 with h2; subst h2
    simp only [valsFinite, Bool.and_eq_true] at hfin
    obtain ⟨l1, b1⟩ := pack1_length s h4 v x1 hp
    have hu := unpack1_pack1 s h4 v x1 hp (item_finite e c s hs v hfin.1)
    have hlen : (nativeDtype s).length = 8 * s.size := rfl
    simp only [List.map_cons, tok, h1, Option.getD_some, readTokens, h3, readFn, hlen]
    rw [if_neg (by simp [bitsOfBytes_append, l1])]
    have hitem : ((pre ++ bitsOfBytes (x1 ++ r) ++ rest).drop pre.length).take (8 * s.size) = bitsOfBytes x1 := by
      rw [List.append_assoc, List.drop_left' rfl, bitsOfBytes_append, List.append_assoc,
        List.take_left' (by simp [l1])]
    rw [hitem, getFn_nativeDtype s h4 h6 x1 l1 b1, hu]
    have hrec := ih (fun y hy => hc y (List.mem_cons_of_mem _ hy)) vs hfin.2 r hr (pre ++ bitsOfBytes x1)
    have e1 : pre ++ bitsOfBytes (x1 ++ r) ++ rest = pre ++ bitsOfBytes x1 ++ bitsOfBytes r ++ rest := by
      simp [bitsOfBytes_append, List.append_assoc]
    have e2 : pre.length + len = (pre ++ bitsOfBytes x1).length := by simp [l1, h5]
    rw [e1, e2, hrec]

theorem unpack_inverts' (e : Char) (he : e ∈ specEndians) (codes : List Char) (hc : ∀ c ∈ codes, c ∈ specCodes)
    (vals : List Val) (hfin : valsFinite codes vals = true) (bits rest : Bits)
    (h : (structparser e codes).bind (packTokens · vals) = .ok bits) :
    (structparser e codes).bind (readTokens · (bits ++ rest) 0) = .ok vals := by
  have hp := pack_struct_eq' e he codes hc vals
  rw [h] at hp
  cases hx : Struct.pack e codes vals with
  | error err => simp [hx, Except.map, Except.toOption] at hp
  | ok x =>
    simp only [hx, Except.map, Except.toOption, Option.some.injEq] at hp
    subst hp
    rw [structparser_eq e he codes hc]
    have := readTokens_packed e he codes hc vals hfin x hx [] rest
    simpa [Except.bind] using this



theorem packTokens_append' (t1 t2 : List (String × Nat)) (v1 v2 : List Val) (h : v1.length = t1.length) :
    packTokens (t1 ++ t2) (v1 ++ v2) =
      (match packTokens t1 v1 with
       | .error e => .error e
       | .ok b1 =>
         match packTokens t2 v2 with
         | .error e => .error e
         | .ok b2 => .ok (b1 ++ b2)) := by
  induction t1 generalizing v1 with
  | nil =>
    cases v1 with
    | nil => simp only [List.nil_append, packTokens]; cases packTokens t2 v2 <;> rfl
    | cons v vs => simp at h
  | cons t ts ih =>
    cases v1 with
    | nil => simp at h
    | cons v vs =>
      obtain ⟨name, len⟩ := t
      simp only [List.cons_append, packTokens]
      cases mkDtype name len with
      | error e => rfl
      | ok d =>
        simp only []
        cases build d v with
        | error e => rfl
        | ok b =>
          simp only []
          rw [ih vs (by simpa using h)]
          cases packTokens ts vs with
          | error e => rfl
          | ok r =>
            simp only []
            cases packTokens t2 v2 with
            | error e => rfl
            | ok b2 => simp

theorem pack_list_eq_concat' (f : String) (fs : List String) (e : Char) (codes : List Char)
    (hm : matchStructFmt f = some (e, codes)) (he : e ∈ specEndians) (hc : ∀ c ∈ codes, c ∈ specCodes)
    (v1 v2 : List Val) (hlen : v1.length = codes.length) :
    (packList (f :: fs) (v1 ++ v2)).toOption =
      (match pack f v1, packList fs v2 with
       | .ok b1, .ok b2 => some (b1 ++ b2)
       | _, _ => none) := by
  have hp := structparser_eq e he codes hc
  simp only [packList, listTokens, hm, hp, pack]
  cases hl : listTokens fs with
  | error err => cases packTokens (codes.map (tok e)) v1 <;> simp [Except.toOption]
  | ok r =>
    simp only []
    rw [packTokens_append' _ r v1 v2 (by simp [hlen])]
    cases packTokens (codes.map (tok e)) v1 with
    | error err => simp [Except.toOption]
    | ok b1 => cases packTokens r v2 <;> simp [Except.toOption]


theorem splitTop_plain (cs : List Char) (h : ∀ c ∈ cs, c ≠ ',' ∧ c ≠ '(' ∧ c ≠ ')') (cur : List Char) :
    splitTop cs 0 cur = [cur.reverse ++ cs] := by
  induction cs generalizing cur with
  | nil => simp [splitTop]
  | cons c cs ih =>
    obtain ⟨h1, h2, h3⟩ := h c List.mem_cons_self
    simp only [splitTop, h1, h2, h3, false_and, if_false]
    rw [ih (fun x hx => h x (List.mem_cons_of_mem _ hx))]
    simp

theorem factorOf_star (ds tok : List Char) (hds : ∀ d ∈ ds, d.isDigit = true) (hne : ds ≠ []) (htok : tok ≠ []) :
    factorOf (ds ++ '*' :: tok) = some (ds.foldl (fun acc d => acc * 10 + (d.toNat - '0'.toNat)) 0, tok) := by
  have htw : (ds ++ '*' :: tok).takeWhile Char.isDigit = ds := by
    induction ds with
    | nil => simp
    | cons d ds ih =>
      simp only [List.cons_append, List.takeWhile, hds d List.mem_cons_self]
      by_cases hn : ds = []
      · subst hn; simp
      · rw [ih (fun x hx => hds x (List.mem_cons_of_mem _ hx)) hn]
  unfold factorOf
  simp only [htw, List.drop_left']
  have : ds.isEmpty = false := by cases ds <;> simp_all
  have : tok.isEmpty = false := by cases tok <;> simp_all
  simp [*]

/-- `N*tok` for a plain token is the token `N` times, in order (so that the code lists repeat as hBhB). -/
theorem expandFmtAux_factor' (fuel : Nat) (ds tok : List Char) (hds : ∀ d ∈ ds, d.isDigit = true) (hne : ds ≠ [])
    (htok : tok ≠ []) (hplain : ∀ c ∈ tok, c ≠ ',' ∧ c ≠ '(' ∧ c ≠ ')') :
    expandFmtAux (fuel + 1) (ds ++ '*' :: tok)
      = some (List.replicate (ds.foldl (fun acc d => acc * 10 + (d.toNat - '0'.toNat)) 0) (String.ofList tok)) := by
  have hall : ∀ c ∈ ds ++ '*' :: tok, c ≠ ',' ∧ c ≠ '(' ∧ c ≠ ')' := by
    intro c hc
    rcases List.mem_append.mp hc with h | h
    · have := hds c h
      refine ⟨?_, ?_, ?_⟩ <;> (intro hc'; subst hc'; revert this; decide)
    · cases h with
      | head => decide
      | tail _ h => exact hplain c h
  have hhead : tok.head? ≠ some '(' := by
    cases tok with
    | nil => simp
    | cons c cs => simp; exact (hplain c List.mem_cons_self).2.1
  have hnonempty : (ds ++ '*' :: tok).isEmpty = false := by cases ds <;> simp
  simp only [expandFmtAux, splitTop_plain _ hall, List.reverse_nil, List.nil_append, List.mapM_cons, List.mapM_nil,
    hnonempty, factorOf_star ds tok hds hne htok]
  simp [hhead]


end BM.C18
