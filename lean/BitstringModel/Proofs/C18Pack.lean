/-
  Proofs/C18Pack.lean — helper lemmas for Props/C18_Pack.lean.
-/
import BitstringModel.Model.C18
import BitstringModel.Proofs.C18
import BitstringModel.Props.C18

namespace BM.C18
open BM

end BM.C18
