/-
  Proofs/C01.lean — helper lemmas for Props/C01.lean (Python slice arithmetic, doubling loop).
-/
import BitstringModel.Model.C01
import BitstringModel.Proofs.Basic
import Mathlib.Tactic.Ring
import Mathlib.Tactic.Linarith
import Mathlib.Data.List.Basic
namespace BM.C01
open BM

theorem rangeLen_pos_bounds (a b st : Int) (hst : 0 < st) (k : Nat) (hk : k < Py.rangeLen a b st) :
    a ≤ a + (k : Int) * st ∧ a + (k : Int) * st < b := by
  unfold Py.rangeLen at hk
  simp only [gt_iff_lt, hst, if_true] at hk
  split at hk
  · rename_i hab
    have h1 : (b - a - 1) / st * st ≤ b - a - 1 := Int.ediv_mul_le _ (by omega)
    have h0 : 0 ≤ (b - a - 1) / st := Int.ediv_nonneg (by omega) (by omega)
    have hkq : (k : Int) ≤ (b - a - 1) / st := by omega
    have h2 : (k : Int) * st ≤ (b - a - 1) / st * st := Int.mul_le_mul_of_nonneg_right hkq (by omega)
    have h3 : 0 ≤ (k : Int) * st := Int.mul_nonneg (by omega) (by omega)
    omega
  · omega

theorem rangeLen_neg_bounds (a b st : Int) (hst : st < 0) (k : Nat) (hk : k < Py.rangeLen a b st) :
    b < a + (k : Int) * st ∧ a + (k : Int) * st ≤ a := by
  unfold Py.rangeLen at hk
  have : ¬ st > 0 := by omega
  simp only [this, if_false] at hk
  split at hk
  · rename_i hab
    have h1 : (a - b - 1) / (-st) * (-st) ≤ a - b - 1 := Int.ediv_mul_le _ (by omega)
    have h0 : 0 ≤ (a - b - 1) / (-st) := Int.ediv_nonneg (by omega) (by omega)
    have hkq : (k : Int) ≤ (a - b - 1) / (-st) := by omega
    have h2 : (k : Int) * (-st) ≤ (a - b - 1) / (-st) * (-st) := Int.mul_le_mul_of_nonneg_right hkq (by omega)
    have h3 : 0 ≤ (k : Int) * (-st) := Int.mul_nonneg (by omega) (by omega)
    have h4 : (k : Int) * (-st) = -((k : Int) * st) := by ring
    omega
  · omega

theorem sliceIndices_pos (s e : Option Int) (st : Int) (hst : 0 < st) (n : Nat) :
    0 ≤ (Py.sliceIndices s e st n).1 ∧ (Py.sliceIndices s e st n).2.1 ≤ n := by
  have h : ¬ st < 0 := by omega
  unfold Py.sliceIndices
  cases s <;> cases e <;> simp only [h, if_false] <;> (try split) <;> (try split) <;> omega

theorem sliceIndices_neg (s e : Option Int) (st : Int) (hst : st < 0) (n : Nat) :
    (Py.sliceIndices s e st n).1 ≤ (n : Int) - 1 ∧ -1 ≤ (Py.sliceIndices s e st n).2.1 := by
  unfold Py.sliceIndices
  cases s <;> cases e <;> simp only [hst, if_true] <;> (try split) <;> (try split) <;> omega


theorem fm_range_succ {α} (l : List α) (f : Nat → Nat) (m : Nat) (h : f m < l.length) :
    ((List.range (m+1)).filterMap fun k => l[f k]?) = ((List.range m).filterMap fun k => l[f k]?) ++ [l[f m]] := by
  rw [List.range_succ, List.filterMap_append]
  simp [List.getElem?_eq_getElem h]

theorem fm_range_length {α} (l : List α) (f : Nat → Nat) (m : Nat) (h : ∀ k < m, f k < l.length) :
    ((List.range m).filterMap fun k => l[f k]?).length = m := by
  induction m with
  | zero => simp
  | succ m ih =>
    rw [fm_range_succ l f m (h m (by omega)), List.length_append, ih (fun k hk => h k (by omega))]
    simp

theorem fm_range_getElem? {α} (l : List α) (f : Nat → Nat) (m : Nat) (h : ∀ k < m, f k < l.length)
    (k : Nat) (hk : k < m) :
    ((List.range m).filterMap fun k => l[f k]?)[k]? = l[f k]? := by
  induction m with
  | zero => omega
  | succ m ih =>
    have hl := fm_range_length l f m (fun k hk => h k (by omega))
    rw [fm_range_succ l f m (h m (by omega))]
    by_cases hkm : k < m
    · rw [List.getElem?_append_left (by omega)]
      exact ih (fun k hk => h k (by omega)) hkm
    · have : k = m := by omega
      subst this
      rw [List.getElem?_append_right (by omega)]
      simp [hl, List.getElem?_eq_getElem (h k (by omega))]

theorem getSlice_eq {α} (l : List α) (s e : Option Int) (st : Int) (hst : st ≠ 0) :
    Py.getSlice l s e (some st) = .ok
      ((List.range (Py.rangeLen (Py.sliceIndices s e st l.length).1 (Py.sliceIndices s e st l.length).2.1 st)).filterMap
        fun (k : Nat) => l[((Py.sliceIndices s e st l.length).1 + (k : Int) * st).toNat]?) := by
  simp only [Py.getSlice, Option.getD_some, hst, if_false, Py.rangeList, List.filterMap_map]
  rfl

theorem sliceIndices_bounds (s e : Option Int) (st : Int) (hst : st ≠ 0) (n : Nat) (k : Nat)
    (hk : k < Py.rangeLen (Py.sliceIndices s e st n).1 (Py.sliceIndices s e st n).2.1 st) :
    0 ≤ (Py.sliceIndices s e st n).1 + (k : Int) * st ∧
    (Py.sliceIndices s e st n).1 + (k : Int) * st < n := by
  by_cases hpos : 0 < st
  · have h1 := rangeLen_pos_bounds _ _ st hpos k hk
    have h2 := sliceIndices_pos s e st hpos n
    omega
  · have hneg : st < 0 := by omega
    have h1 := rangeLen_neg_bounds _ _ st hneg k hk
    have h2 := sliceIndices_neg s e st hneg n
    omega

theorem sliceIndices_toNat_lt (s e : Option Int) (st : Int) (hst : st ≠ 0) (n : Nat) (k : Nat)
    (hk : k < Py.rangeLen (Py.sliceIndices s e st n).1 (Py.sliceIndices s e st n).2.1 st) :
    ((Py.sliceIndices s e st n).1 + (k : Int) * st).toNat < n := by
  have := sliceIndices_bounds s e st hst n k hk
  omega

theorem rangeLen_one (a b : Int) : Py.rangeLen a b 1 = (b - a).toNat := by
  unfold Py.rangeLen
  simp only [gt_iff_lt, Int.one_pos, if_true]
  split <;> omega

theorem rangeLen_neg_one (a b : Int) : Py.rangeLen a b (-1) = (a - b).toNat := by
  unfold Py.rangeLen
  have : ¬ ((-1 : Int) > 0) := by omega
  simp only [this, if_false, Int.neg_neg]
  split <;> omega

theorem getSlice_step1 {α} (l : List α) (s e : Option Int) :
    Py.getSlice l s e none = .ok ((l.drop (Py.sliceIndices s e 1 l.length).1.toNat).take
      ((Py.sliceIndices s e 1 l.length).2.1 - (Py.sliceIndices s e 1 l.length).1).toNat) := by
  have h0 : Py.getSlice l s e none = Py.getSlice l s e (some 1) := rfl
  rw [h0, getSlice_eq l s e 1 (by omega)]
  congr 1
  have hin := sliceIndices_toNat_lt s e 1 (by omega) l.length
  have hpos := (sliceIndices_pos s e 1 (by omega) l.length).1
  rw [rangeLen_one] at hin ⊢
  generalize (Py.sliceIndices s e 1 l.length).1 = a at *
  generalize (Py.sliceIndices s e 1 l.length).2.1 = b at *
  apply List.ext_getElem?
  intro i
  by_cases hi : i < (b - a).toNat
  · rw [fm_range_getElem? l (fun (k : Nat) => (a + (k : Int) * 1).toNat) _ hin i hi]
    rw [List.getElem?_take, if_pos hi, List.getElem?_drop]
    congr 1
    omega
  · rw [List.getElem?_eq_none (by rw [fm_range_length l (fun (k : Nat) => (a + (k : Int) * 1).toNat) _ hin]; omega)]
    rw [List.getElem?_take, if_neg hi]

theorem sliceIndices_none_none_pos (st : Int) (h : 0 < st) (n : Nat) :
    Py.sliceIndices none none st n = (0, (n : Int), st) := by
  have : ¬ st < 0 := by omega
  simp [Py.sliceIndices, this]

theorem sliceIndices_none_none_neg (st : Int) (h : st < 0) (n : Nat) :
    Py.sliceIndices none none st n = ((n : Int) - 1, -1, st) := by
  simp [Py.sliceIndices, h]

theorem createFrom_bits (c : Cls) (x : Obj) : (createFrom c x).bits = x.bits := by
  unfold createFrom; split <;> rfl

theorem flatten_replicate_add {α} (l : List α) (a b : Nat) :
    (List.replicate (a + b) l).flatten = (List.replicate a l).flatten ++ (List.replicate b l).flatten := by
  rw [List.replicate_add, List.flatten_append]

theorem length_flatten_replicate {α} (l : List α) (a : Nat) :
    (List.replicate a l).flatten.length = a * l.length := by
  induction a with
  | zero => simp
  | succ a ih => rw [List.replicate_succ, List.flatten_cons, List.length_append, ih, Nat.succ_mul]; omega

theorem imulLoop_spec (l : Bits) (fuel : Nat) (cur : Bits) (m n : Nat)
    (hcur : cur = (List.replicate m l).flatten) (hmn : m ≤ n) (hf : n ≤ m * 2 ^ (fuel + 1)) :
    (imulLoop fuel cur m n).1 = (List.replicate (imulLoop fuel cur m n).2 l).flatten ∧
    (imulLoop fuel cur m n).2 ≤ n ∧ n ≤ 2 * (imulLoop fuel cur m n).2 := by
  induction fuel generalizing cur m with
  | zero =>
    simp only [imulLoop]
    refine ⟨hcur, hmn, ?_⟩
    simp at hf; omega
  | succ fuel ih =>
    simp only [imulLoop]
    split
    · rename_i h
      apply ih
      · rw [hcur, Nat.mul_two, flatten_replicate_add]
      · omega
      · rw [Nat.pow_succ] at hf
        rw [Nat.mul_assoc, Nat.mul_comm 2]; exact hf
    · exact ⟨hcur, hmn, by omega⟩

end BM.C01
