/-
  Proofs/C05_Brackets.lean — helper lemmas for `expand_brackets` on rendered bracket trees.
-/
import BitstringModel.Model.C05
import BitstringModel.Proofs.Basic

namespace BM.C05
open BM

end BM.C05
