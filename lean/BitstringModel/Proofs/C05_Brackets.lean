/-
  Proofs/C05_Brackets.lean — helper lemmas for `expand_brackets` on rendered bracket trees.
-/
import BitstringModel.Model.C05
import BitstringModel.Proofs.Basic
import BitstringModel.Proofs.C05_Codec
import Mathlib.Tactic.Ring
import Mathlib.Tactic.Linarith

namespace BM.C05
open BM

/-! ### findChar -/

theorem findChar_append_not_mem (c : Char) (a rest : Str) (h : c ∉ a) :
    findChar c (a ++ c :: rest) = some a.length := by
  induction a with
  | nil => simp [findChar]
  | cons x xs ih =>
    have hx : x ≠ c := by intro e; exact h (by simp [e])
    have hxs : c ∉ xs := by intro e; exact h (by simp [e])
    simp [findChar, hx, ih hxs]

theorem findChar_none (c : Char) (a : Str) (h : c ∉ a) : findChar c a = none := by
  induction a with
  | nil => rfl
  | cons x xs ih =>
    have hx : x ≠ c := by intro e; exact h (by simp [e])
    have hxs : c ∉ xs := by intro e; exact h (by simp [e])
    simp [findChar, hx, ih hxs]

/-! ### matchClose on balanced text -/

/-- `s` is skipped by the bracket counter whatever the number of hanging brackets -/
def Bal (s : Str) : Prop :=
  ∀ (rest : Str) (c p : Nat), 1 ≤ c → matchClose (s ++ rest) c p = matchClose rest c (p + s.length)

theorem Bal_nil : Bal [] := by intro rest c p _; simp

theorem Bal_append (s t : Str) (hs : Bal s) (ht : Bal t) : Bal (s ++ t) := by
  intro rest c p hc
  rw [List.append_assoc, hs _ c p hc, ht _ c _ hc]
  simp [Nat.add_assoc]

theorem Bal_char (x : Char) (h1 : x ≠ '(') (h2 : x ≠ ')') : Bal [x] := by
  intro rest c p hc
  simp only [List.singleton_append, matchClose, h1, h2, if_false, List.length_singleton]
  have : c ≠ 0 := by omega
  simp [this]

theorem Bal_noparen (s : Str) (h : ∀ x ∈ s, x ≠ '(' ∧ x ≠ ')') : Bal s := by
  induction s with
  | nil => exact Bal_nil
  | cons x xs ih =>
    have := Bal_append [x] xs (Bal_char x (h x (by simp)).1 (h x (by simp)).2) (ih (fun y hy => h y (by simp [hy])))
    simpa using this

theorem Bal_paren (s : Str) (hs : Bal s) : Bal ('(' :: s ++ [')']) := by
  intro rest c p hc
  have e : ('(' :: s ++ [')']) ++ rest = '(' :: (s ++ ')' :: rest) := by simp
  rw [e, matchClose]
  simp only [if_true]
  have h1 : c + 1 ≠ 0 := by omega
  simp only [h1, if_false]
  rw [hs _ (c + 1) (p + 1) (by omega), matchClose]
  have h2 : (')' : Char) ≠ '(' := by decide
  simp only [h2, if_false, if_true, Nat.add_sub_cancel]
  have h3 : c ≠ 0 := by omega
  simp only [h3, if_false]
  congr 1
  simp; omega

/-- the closing bracket of a balanced inner text is found -/
theorem matchClose_inner (inner B : Str) (p : Nat) (h : Bal inner) :
    matchClose (inner ++ ')' :: B) 1 p = some (p + inner.length) := by
  rw [h _ 1 p (by omega), matchClose]
  have h2 : (')' : Char) ≠ '(' := by decide
  simp [h2]

theorem matchClose_open (rest : Str) (c p : Nat)
    (hopen : ∀ k, k ≤ rest.length → (rest.take k).count ')' < (rest.take k).count '(' + c) :
    matchClose rest c p = none := by
  induction rest generalizing c p with
  | nil => rfl
  | cons x xs ih =>
    have h1 := hopen 1 (by simp)
    simp only [List.take_succ_cons, List.take_zero] at h1
    rw [matchClose]
    by_cases hx1 : x = '('
    · subst hx1
      simp only [if_true]
      have : c + 1 ≠ 0 := by omega
      simp only [this, if_false]
      apply ih
      intro k hk
      have := hopen (k + 1) (by simp; omega)
      simp only [List.take_succ_cons] at this
      simp [List.count_cons] at this ⊢
      omega
    · by_cases hx2 : x = ')'
      · subst hx2
        simp only [hx1, if_false, if_true]
        simp [List.count_cons] at h1
        have : c - 1 ≠ 0 := by omega
        simp only [this, if_false]
        apply ih
        intro k hk
        have := hopen (k + 1) (by simp; omega)
        simp only [List.take_succ_cons] at this
        simp [List.count_cons] at this ⊢
        omega
      · simp only [hx1, hx2, if_false]
        simp [List.count_cons, hx1, hx2, Ne.symm hx1, Ne.symm hx2] at h1
        have : c ≠ 0 := by omega
        simp only [this, if_false]
        apply ih
        intro k hk
        have := hopen (k + 1) (by simp; omega)
        simp only [List.take_succ_cons] at this
        simp [List.count_cons, hx1, hx2, Ne.symm hx1, Ne.symm hx2] at this ⊢
        omega

theorem expandFuel_error (f : Nat) (s : Str) (e : Err) (h : expandStep s = .error e) :
    expandFuel (f + 1) s = .error e := by rw [expandFuel, h]

theorem expandFuel_none (f : Nat) (s : Str) (h : expandStep s = .ok none) :
    expandFuel (f + 1) s = .ok s := by rw [expandFuel, h]

theorem expandFuel_some (f : Nat) (s s' : Str) (h : expandStep s = .ok (some s')) :
    expandFuel (f + 1) s = expandFuel f s' := by rw [expandFuel, h]

theorem expandStep_unbalanced (pre rest : Str) (hpre : '(' ∉ pre)
    (hopen : ∀ k, k ≤ rest.length → (rest.take k).count ')' < (rest.take k).count '(' + 1) :
    expandStep (pre ++ '(' :: rest) = .error .value := by
  unfold expandStep
  rw [findChar_append_not_mem _ _ _ hpre]
  simp only
  have : (pre ++ '(' :: rest).drop (pre.length + 1) = rest := by
    rw [show pre ++ '(' :: rest = (pre ++ ['(']) ++ rest by simp]
    exact List.drop_left' (by simp)
  rw [this, matchClose_open rest 1 _ hopen]


/-- `n * x` for a Python string -/
def strRepeat (n : Nat) (x : Str) : Str := (List.replicate n x).flatten

theorem joinRepeat_succ (m : Nat) (x : Str) : joinRepeat (m + 1) x = strRepeat m (x ++ [',']) ++ x := by
  induction m with
  | zero => simp [joinRepeat, strRepeat]
  | succ m ih =>
    rw [joinRepeat, ih]
    simp [strRepeat, List.replicate_succ, List.append_assoc]

/-- the text before the first bracket group: no bracket, and empty or ending in a comma -/
def okA (A : Str) : Prop := '(' ∉ A ∧ (A = [] ∨ ∃ A0, A = A0 ++ [','])

theorem okA_nil : okA [] := ⟨by simp, Or.inl rfl⟩

theorem okA_snoc (A t : Str) (hA : okA A) (ht : '(' ∉ t) : okA (A ++ t ++ [',']) :=
  ⟨by simp [hA.1, ht], Or.inr ⟨A ++ t, rfl⟩⟩

theorem getElem_last_snoc (A0 : Str) (x : Char) (rest : Str) :
    (A0 ++ [x] ++ rest)[(A0 ++ [x]).length - 1]? = some x := by
  simp

/-- one turn on a plain group -/
theorem step_plain (A inner B : Str) (hA : okA A) (hin : Bal inner) :
    expandStep (A ++ '(' :: inner ++ ')' :: B) = .ok (some (A ++ inner ++ B)) := by
  unfold expandStep
  have e0 : A ++ '(' :: inner ++ ')' :: B = A ++ '(' :: (inner ++ ')' :: B) := by simp
  rw [e0, findChar_append_not_mem _ _ _ hA.1]
  simp only
  have hd : (A ++ '(' :: (inner ++ ')' :: B)).drop (A.length + 1) = inner ++ ')' :: B := by
    rw [show A ++ '(' :: (inner ++ ')' :: B) = (A ++ ['(']) ++ (inner ++ ')' :: B) by simp]
    exact List.drop_left' (by simp)
  rw [hd, matchClose_inner inner B _ hin]
  simp only
  have hcond : A.length = 0 ∨ (A ++ '(' :: (inner ++ ')' :: B))[A.length - 1]? ≠ some '*' := by
    rcases hA.2 with rfl | ⟨A0, rfl⟩
    · left; rfl
    · right
      have := getElem_last_snoc A0 ',' ('(' :: (inner ++ ')' :: B))
      rw [this]; decide
  simp only [hcond, if_true]
  have h1 : (inner ++ ')' :: B).take (A.length + 1 + inner.length - (A.length + 1)) = inner := by
    rw [show A.length + 1 + inner.length - (A.length + 1) = inner.length by omega]
    exact List.take_left' rfl
  have h2 : (A ++ '(' :: (inner ++ ')' :: B)).drop (A.length + 1 + inner.length + 1) = B := by
    rw [show A ++ '(' :: (inner ++ ')' :: B) = (A ++ '(' :: inner ++ [')']) ++ B by simp]
    exact List.drop_left' (by simp; omega)
  have h3 : (A ++ '(' :: (inner ++ ')' :: B)).take A.length = A := List.take_left' rfl
  rw [h1, h2, h3]


theorem dropWhile_nil_all (p : Char → Bool) (l : Str) (h : l.dropWhile p = []) : ∀ x ∈ l, p x = true := by
  induction l with
  | nil => simp
  | cons a l ih =>
    by_cases ha : p a = true
    · simp only [List.dropWhile_cons, ha, if_true] at h
      intro x hx
      rcases List.mem_cons.mp hx with rfl | hx
      · exact ha
      · exact ih h x hx
    · simp [List.dropWhile_cons, ha] at h

theorem tw_append (p : Char → Bool) (A R : Str) (h : ∃ x ∈ A, p x = false) :
    (A ++ R).takeWhile p = A.takeWhile p ∧ (A ++ R).dropWhile p = A.dropWhile p ++ R := by
  induction A with
  | nil => simp at h
  | cons a A ih =>
    by_cases ha : p a = true
    · obtain ⟨x, hx, hpx⟩ := h
      have hx' : x ∈ A := by
        rcases List.mem_cons.mp hx with rfl | h'
        · rw [ha] at hpx; cases hpx
        · exact h'
      obtain ⟨h1, h2⟩ := ih ⟨x, hx', hpx⟩
      simp [List.takeWhile_cons, List.dropWhile_cons, ha, h1, h2]
    · simp [List.takeWhile_cons, List.dropWhile_cons, ha]

theorem tw_digits (ds rest : Str) (hd : ds.all Char.isDigit = true) (x : Char) (hx : x.isDigit = false) :
    (ds ++ x :: rest).takeWhile Char.isDigit = ds ∧ (ds ++ x :: rest).dropWhile Char.isDigit = x :: rest := by
  induction ds with
  | nil => simp [List.takeWhile_cons, List.dropWhile_cons, hx]
  | cons d ds ih =>
    simp only [List.all_cons, Bool.and_eq_true] at hd
    obtain ⟨h1, h2⟩ := ih hd.2
    simp [List.takeWhile_cons, List.dropWhile_cons, hd.1, h1, h2]

theorem bracketAt_none (A R : Str) (hne : A ≠ []) (hA : okA A) (hR : ∀ c, R.head? = some c → c ≠ '(') :
    bracketAt (A ++ R) = none := by
  obtain ⟨hno, hlast⟩ := hA
  rcases hlast with rfl | ⟨A0, rfl⟩
  · exact absurd rfl hne
  have hex : ∃ x ∈ A0 ++ [','], Char.isDigit x = false := ⟨',', by simp, by decide⟩
  obtain ⟨h1, h2⟩ := tw_append Char.isDigit (A0 ++ [',']) R hex
  unfold bracketAt
  simp only [h1, h2]
  split
  · rfl
  · -- the first non-digit is in A, so is (if any) the char after it; neither is '('
    have hsuf : (A0 ++ [',']).dropWhile Char.isDigit <:+ (A0 ++ [',']) := List.dropWhile_suffix _
    cases hD : (A0 ++ [',']).dropWhile Char.isDigit with
    | nil =>
      -- impossible: ',' survives
      have := dropWhile_nil_all _ _ hD ',' (by simp)
      exact absurd this (by decide)
    | cons c D =>
      rw [hD] at hsuf
      have hmem : ∀ y ∈ c :: D, y ≠ '(' := fun y hy => by
        intro e; subst e; exact hno (hsuf.subset hy)
      cases D with
      | nil =>
        cases R with
        | nil => simp
        | cons r R' =>
          have := hR r rfl
          simp only [List.cons_append, List.nil_append]
          split
          · rename_i heq; simp at heq; exact absurd heq.2.1 this
          · rfl
      | cons d D' =>
        have := hmem d (by simp)
        simp only [List.cons_append]
        split
        · rename_i heq; simp at heq; exact absurd heq.2.1 this
        · rfl

theorem okA_tail (a : Char) (A : Str) (h : okA (a :: A)) : okA A := by
  obtain ⟨h1, h2⟩ := h
  refine ⟨fun hm => h1 (by simp [hm]), ?_⟩
  rcases h2 with h2 | ⟨A0, h2⟩
  · cases h2
  · cases A0 with
    | nil => simp at h2; left; exact h2.2
    | cons b A0 => simp at h2; right; exact ⟨A0, h2.2⟩

theorem bracketSearch_skip (A R : Str) (i : Nat) (hA : okA A) (hR : ∀ c, R.head? = some c → c ≠ '(') :
    bracketSearch (A ++ R) i = bracketSearch R (i + A.length) := by
  induction A generalizing i with
  | nil => simp
  | cons a A ih =>
    have hn := bracketAt_none (a :: A) R (by simp) hA hR
    rw [List.cons_append] at hn ⊢
    rw [bracketSearch, hn]
    simp only
    rw [ih (i + 1) (okA_tail a A hA)]
    simp; congr 1; omega

theorem bracketSearch_here (ds tail : Str) (j : Nat) (hne : ds ≠ []) (hd : ds.all Char.isDigit = true) :
    bracketSearch (ds ++ '*' :: '(' :: tail) j = some (j, parseNat ds) := by
  obtain ⟨h1, h2⟩ := tw_digits ds ('(' :: tail) hd '*' (by decide)
  have hat : bracketAt (ds ++ '*' :: '(' :: tail) = some ds := by
    unfold bracketAt
    simp only [h1, h2]
    have : ds.isEmpty = false := by cases ds <;> simp_all
    simp [this]
  cases hds : ds with
  | nil => exact absurd hds hne
  | cons d ds' =>
    rw [← hds]
    have : ds ++ '*' :: '(' :: tail = d :: (ds' ++ '*' :: '(' :: tail) := by rw [hds]; rfl
    rw [this, bracketSearch, ← this, hat]

/-- one turn on a multiplied group -/
theorem step_factor (A ds inner B : Str) (hA : okA A) (hne : ds ≠ []) (hd : ds.all Char.isDigit = true)
    (hin : Bal inner) :
    expandStep (A ++ ds ++ '*' :: '(' :: inner ++ ')' :: B)
      = .ok (some (A ++ joinRepeat (parseNat ds) inner ++ B)) := by
  have hdno : '(' ∉ ds := by
    intro hm
    have := List.all_eq_true.mp hd _ hm
    exact absurd this (by decide)
  let A1 := A ++ ds ++ ['*']
  have hA1 : '(' ∉ A1 := by simp [A1, hA.1, hdno]
  have e0 : A ++ ds ++ '*' :: '(' :: inner ++ ')' :: B = A1 ++ '(' :: (inner ++ ')' :: B) := by simp [A1]
  unfold expandStep
  rw [e0, findChar_append_not_mem _ _ _ hA1]
  simp only
  have hd' : (A1 ++ '(' :: (inner ++ ')' :: B)).drop (A1.length + 1) = inner ++ ')' :: B := by
    rw [show A1 ++ '(' :: (inner ++ ')' :: B) = (A1 ++ ['(']) ++ (inner ++ ')' :: B) by simp]
    exact List.drop_left' (by simp)
  rw [hd', matchClose_inner inner B _ hin]
  simp only
  have hcond : ¬ (A1.length = 0 ∨ (A1 ++ '(' :: (inner ++ ')' :: B))[A1.length - 1]? ≠ some '*') := by
    intro h
    rcases h with h | h
    · simp [A1] at h
    · have := getElem_last_snoc (A ++ ds) '*' ('(' :: (inner ++ ')' :: B))
      exact h this
  simp only [hcond, if_false]
  have hsearch : bracketSearch (A1 ++ '(' :: (inner ++ ')' :: B)) 0 = some (A.length, parseNat ds) := by
    have e1 : A1 ++ '(' :: (inner ++ ')' :: B) = A ++ (ds ++ '*' :: '(' :: (inner ++ ')' :: B)) := by simp [A1]
    rw [e1, bracketSearch_skip A _ 0 hA]
    · rw [bracketSearch_here ds _ _ hne hd]; simp
    · intro c hc
      cases ds with
      | nil => exact absurd rfl hne
      | cons d ds' =>
        simp at hc; subst hc
        intro e
        simp only [List.all_cons, Bool.and_eq_true] at hd
        rw [e] at hd; exact absurd hd.1 (by decide)
  rw [hsearch]
  simp only
  have h1 : (inner ++ ')' :: B).take (A1.length + 1 + inner.length - (A1.length + 1)) = inner := by
    rw [show A1.length + 1 + inner.length - (A1.length + 1) = inner.length by omega]
    exact List.take_left' rfl
  have h2 : (A1 ++ '(' :: (inner ++ ')' :: B)).drop (A1.length + 1 + inner.length + 1) = B := by
    rw [show A1 ++ '(' :: (inner ++ ')' :: B) = (A1 ++ '(' :: inner ++ [')']) ++ B by simp]
    exact List.drop_left' (by simp; omega)
  have h3 : (A1 ++ '(' :: (inner ++ ')' :: B)).take A.length = A := by
    rw [show A1 ++ '(' :: (inner ++ ')' :: B) = A ++ (ds ++ '*' :: '(' :: (inner ++ ')' :: B)) by simp [A1]]
    exact List.take_left' rfl
  rw [h1, h2, h3]


/-! ### joinComma -/

theorem joinComma_cons (x : Str) (l : List Str) (h : l ≠ []) : joinComma (x :: l) = x ++ [','] ++ joinComma l := by
  cases l with
  | nil => exact absurd rfl h
  | cons y l => rfl

theorem joinComma_append (l1 l2 : List Str) (h1 : l1 ≠ []) (h2 : l2 ≠ []) :
    joinComma (l1 ++ l2) = joinComma l1 ++ [','] ++ joinComma l2 := by
  induction l1 with
  | nil => exact absurd rfl h1
  | cons x l1 ih =>
    by_cases hl : l1 = []
    · subst hl; simp [joinComma_cons _ _ h2, joinComma]
    · rw [List.cons_append, joinComma_cons _ _ (by simp [hl]), ih hl, joinComma_cons _ _ hl]
      simp [List.append_assoc]

theorem joinComma_replicate (L : List Str) (hL : L ≠ []) (m : Nat) :
    joinComma (List.replicate (m + 1) L).flatten = strRepeat m (joinComma L ++ [',']) ++ joinComma L := by
  induction m with
  | zero => simp [strRepeat]
  | succ m ih =>
    rw [List.replicate_succ, List.flatten_cons, joinComma_append _ _ hL (by
      rw [List.replicate_succ, List.flatten_cons]; simp [hL]), ih]
    simp [strRepeat, List.replicate_succ, List.append_assoc]

theorem joinComma_noparen (l : List Str) (c : Char) (hc : c ≠ ',') (h : ∀ s ∈ l, c ∉ s) : c ∉ joinComma l := by
  induction l with
  | nil => simp [joinComma]
  | cons x l ih =>
    by_cases hl : l = []
    · subst hl; simpa [joinComma] using h x (by simp)
    · rw [joinComma_cons _ _ hl]
      have := ih (fun s hs => h s (by simp [hs]))
      have hx := h x (by simp)
      simp [hx, this, hc]

/-! ### sizes, structure of the flattening -/

mutual
  def BItem.size : BItem → Nat
    | .atom _ => 0
    | .group none items => 1 + BItem.sizeList items
    | .group (some ds) items => 1 + parseNat ds * BItem.sizeList items
  def BItem.sizeList : List BItem → Nat
    | [] => 0
    | x :: xs => x.size + BItem.sizeList xs
end

mutual
  theorem flattenCode_atoms : ∀ (x : BItem), x.wf = true →
      x.flattenCode ≠ [] ∧ ∀ s ∈ x.flattenCode, '(' ∉ s ∧ ')' ∉ s
    | .atom s, h => by
      simp only [BItem.wf, Bool.and_eq_true, Bool.not_eq_true', List.all_eq_true, Bool.decide_eq_true, ne_eq,
        decide_eq_true_eq] at h
      simp only [BItem.flattenCode]
      refine ⟨by simp, ?_⟩
      intro t ht; simp at ht; subst ht
      exact ⟨fun hm => (h.2 _ hm).1.1 rfl, fun hm => (h.2 _ hm).1.2 rfl⟩
    | .group none items, h => by
      simp only [BItem.wf, Bool.and_eq_true, Bool.not_eq_true'] at h
      simp only [BItem.flattenCode]
      have hne : items ≠ [] := by intro e; subst e; simp at h
      exact flattenCodeList_atoms items h.2 hne
    | .group (some ds) items, h => by
      simp only [BItem.wf, Bool.and_eq_true, Bool.not_eq_true'] at h
      simp only [BItem.flattenCode]
      have hne : items ≠ [] := by intro e; subst e; simp at h
      obtain ⟨h1, h2⟩ := flattenCodeList_atoms items h.2 hne
      by_cases hz : parseNat ds = 0
      · simp [hz]
      · obtain ⟨m, hm⟩ : ∃ m, parseNat ds = m + 1 := ⟨parseNat ds - 1, by omega⟩
        simp only [hz, if_false]
        rw [hm]
        refine ⟨by rw [List.replicate_succ, List.flatten_cons]; simp [h1], ?_⟩
        intro s hs
        simp only [List.mem_flatten, List.mem_replicate] at hs
        obtain ⟨l, ⟨-, rfl⟩, hs⟩ := hs
        exact h2 s hs
  theorem flattenCodeList_atoms : ∀ (xs : List BItem), BItem.wfList xs = true → xs ≠ [] →
      BItem.flattenCodeList xs ≠ [] ∧ ∀ s ∈ BItem.flattenCodeList xs, '(' ∉ s ∧ ')' ∉ s
    | [], _, hne => absurd rfl hne
    | x :: xs, h, _ => by
      simp only [BItem.wfList, Bool.and_eq_true] at h
      simp only [BItem.flattenCodeList]
      obtain ⟨h1, h2⟩ := flattenCode_atoms x h.1
      refine ⟨by simp [h1], ?_⟩
      intro s hs
      rcases List.mem_append.mp hs with hs | hs
      · exact h2 s hs
      · by_cases hxs : xs = []
        · subst hxs; simp [BItem.flattenCodeList] at hs
        · exact (flattenCodeList_atoms xs h.2 hxs).2 s hs
end


theorem renderList_nil_iff (xs : List BItem) : BItem.renderList xs = [] ↔ xs = [] := by
  cases xs <;> simp [BItem.renderList]

theorem renderItems_cons (x : BItem) (xs : List BItem) (h : xs ≠ []) :
    renderItems (x :: xs) = x.render ++ [','] ++ renderItems xs := by
  unfold renderItems
  rw [BItem.renderList, joinComma_cons _ _ (by rw [Ne, renderList_nil_iff]; exact h)]

theorem renderItems_single (x : BItem) : renderItems [x] = x.render := by
  simp [renderItems, BItem.renderList, joinComma]

theorem digits_noparen (ds : Str) (hd : ds.all Char.isDigit = true) : ∀ x ∈ ds, x ≠ '(' ∧ x ≠ ')' := by
  intro x hx
  have := List.all_eq_true.mp hd x hx
  constructor <;> (intro e; subst e; exact absurd this (by decide))

mutual
  theorem Bal_render : ∀ (x : BItem), x.wf = true → Bal x.render
    | .atom s, h => by
      simp only [BItem.wf, Bool.and_eq_true, Bool.not_eq_true', List.all_eq_true, ne_eq, decide_eq_true_eq] at h
      simp only [BItem.render]
      exact Bal_noparen s (fun c hc => ⟨(h.2 c hc).1.1, (h.2 c hc).1.2⟩)
    | .group none items, h => by
      simp only [BItem.wf, Bool.and_eq_true] at h
      simp only [BItem.render]
      have := Bal_paren _ (Bal_renderList items h.2)
      simpa [renderItems] using this
    | .group (some ds) items, h => by
      simp only [BItem.wf, Bool.and_eq_true] at h
      simp only [BItem.render]
      have h1 := Bal_paren _ (Bal_renderList items h.2)
      have h2 : Bal (ds ++ ['*']) := Bal_noparen _ (by
        intro x hx
        rcases List.mem_append.mp hx with hx | hx
        · exact digits_noparen ds h.1.1.2 x hx
        · simp at hx; subst hx; exact ⟨by decide, by decide⟩)
      have := Bal_append _ _ h2 h1
      simpa [renderItems, List.append_assoc] using this
  theorem Bal_renderList : ∀ (xs : List BItem), BItem.wfList xs = true → Bal (renderItems xs)
    | [], _ => by simpa [renderItems, BItem.renderList, joinComma] using Bal_nil
    | x :: xs, h => by
      simp only [BItem.wfList, Bool.and_eq_true] at h
      by_cases hxs : xs = []
      · subst hxs; rw [renderItems_single]; exact Bal_render x h.1
      · rw [renderItems_cons x xs hxs]
        exact Bal_append _ _ (Bal_append _ _ (Bal_render x h.1) (Bal_char ',' (by decide) (by decide)))
          (Bal_renderList xs h.2)
end

theorem strRepeat_succ (m : Nat) (Z : Str) : strRepeat (m + 1) Z = Z ++ strRepeat m Z := by
  simp [strRepeat, List.replicate_succ]

/-- running the same expansion on every copy of a repeated group -/
theorem rep_copies (X Y : Str) (c : Nat) (hY : '(' ∉ Y)
    (H : ∀ (A B : Str) (f : Nat), okA A → expandFuel (f + c) (A ++ X ++ B) = expandFuel f (A ++ Y ++ B)) :
    ∀ (m : Nat) (A B : Str) (f : Nat), okA A →
      expandFuel (f + (m + 1) * c) (A ++ strRepeat m (X ++ [',']) ++ X ++ B)
        = expandFuel f (A ++ strRepeat m (Y ++ [',']) ++ Y ++ B) := by
  intro m
  induction m with
  | zero => intro A B f hA; simpa [strRepeat] using H A B f hA
  | succ m ih =>
    intro A B f hA
    rw [strRepeat_succ, strRepeat_succ]
    have e1 : A ++ (X ++ [','] ++ strRepeat m (X ++ [','])) ++ X ++ B
        = A ++ X ++ ([','] ++ strRepeat m (X ++ [',']) ++ X ++ B) := by simp [List.append_assoc]
    have e2 : f + (m + 1 + 1) * c = (f + (m + 1) * c) + c := by ring
    rw [e1, e2, H A _ _ hA]
    have e3 : A ++ Y ++ ([','] ++ strRepeat m (X ++ [',']) ++ X ++ B)
        = (A ++ Y ++ [',']) ++ strRepeat m (X ++ [',']) ++ X ++ B := by simp [List.append_assoc]
    rw [e3, ih _ B f (okA_snoc A Y hA hY)]
    simp [List.append_assoc]

mutual
  theorem KL_item : ∀ (x : BItem), x.wf = true → ∀ (A B : Str) (f : Nat), okA A →
      expandFuel (f + x.size) (A ++ x.render ++ B) = expandFuel f (A ++ joinComma x.flattenCode ++ B)
    | .atom s, _, A, B, f, _ => by
      simp [BItem.size, BItem.render, BItem.flattenCode, joinComma]
    | .group none items, h, A, B, f, hA => by
      have hw := h
      simp only [BItem.wf, Bool.and_eq_true, Bool.not_eq_true'] at hw
      have hne : items ≠ [] := by intro e; subst e; simp at hw
      simp only [BItem.size, BItem.render, BItem.flattenCode]
      have e1 : A ++ (['('] ++ joinComma (BItem.renderList items) ++ [')']) ++ B
          = A ++ '(' :: renderItems items ++ ')' :: B := by simp [renderItems, List.append_assoc]
      have e2 : f + (1 + BItem.sizeList items) = (f + BItem.sizeList items) + 1 := by ring
      rw [e1, e2, expandFuel_some _ _ _ (step_plain A _ B hA (Bal_renderList items hw.2))]
      exact KL_list items hw.2 hne A B f hA
    | .group (some ds) items, h, A, B, f, hA => by
      have hw := h
      simp only [BItem.wf, Bool.and_eq_true, Bool.not_eq_true'] at hw
      have hne : items ≠ [] := by intro e; subst e; simp at hw
      have hds : ds ≠ [] := by intro e; subst e; simp at hw
      simp only [BItem.size, BItem.render, BItem.flattenCode]
      have e1 : A ++ (ds ++ ['*', '('] ++ joinComma (BItem.renderList items) ++ [')']) ++ B
          = A ++ ds ++ '*' :: '(' :: renderItems items ++ ')' :: B := by simp [renderItems, List.append_assoc]
      have hstep := step_factor A ds _ B hA hds hw.1.1.2 (Bal_renderList items hw.2)
      by_cases hz : parseNat ds = 0
      · simp only [hz, if_true, Nat.zero_mul, Nat.add_zero]
        rw [e1, expandFuel_some _ _ _ hstep, hz]
        simp [joinRepeat, joinComma]
      · obtain ⟨m, hm⟩ : ∃ m, parseNat ds = m + 1 := ⟨parseNat ds - 1, by omega⟩
        simp only [hz, if_false]
        have e2 : f + (1 + parseNat ds * BItem.sizeList items) = (f + (m + 1) * BItem.sizeList items) + 1 := by
          rw [hm]; ring
        rw [e1, e2, expandFuel_some _ _ _ hstep, hm, joinRepeat_succ]
        obtain ⟨hfl, hat⟩ := flattenCodeList_atoms items hw.2 hne
        have hY : '(' ∉ joinComma (BItem.flattenCodeList items) :=
          joinComma_noparen _ '(' (by decide) (fun s hs => (hat s hs).1)
        have e3 : A ++ (strRepeat m (renderItems items ++ [',']) ++ renderItems items) ++ B
            = A ++ strRepeat m (renderItems items ++ [',']) ++ renderItems items ++ B := by simp [List.append_assoc]
        rw [e3, rep_copies (renderItems items) (joinComma (BItem.flattenCodeList items)) (BItem.sizeList items) hY
          (fun A B f hA => KL_list items hw.2 hne A B f hA) m A B f hA]
        rw [joinComma_replicate _ hfl m]
        simp [List.append_assoc]
  theorem KL_list : ∀ (xs : List BItem), BItem.wfList xs = true → xs ≠ [] → ∀ (A B : Str) (f : Nat), okA A →
      expandFuel (f + BItem.sizeList xs) (A ++ renderItems xs ++ B)
        = expandFuel f (A ++ joinComma (BItem.flattenCodeList xs) ++ B)
    | [], _, hne, _, _, _, _ => absurd rfl hne
    | x :: xs, h, _, A, B, f, hA => by
      have hw := h
      simp only [BItem.wfList, Bool.and_eq_true] at hw
      by_cases hxs : xs = []
      · subst hxs
        rw [renderItems_single]
        simp only [BItem.sizeList, BItem.flattenCodeList, List.append_nil, Nat.add_zero]
        exact KL_item x hw.1 A B f hA
      · obtain ⟨hx1, hx2⟩ := flattenCode_atoms x hw.1
        obtain ⟨hl1, -⟩ := flattenCodeList_atoms xs hw.2 hxs
        rw [renderItems_cons x xs hxs]
        simp only [BItem.sizeList, BItem.flattenCodeList]
        rw [joinComma_append _ _ hx1 hl1]
        have e1 : A ++ (x.render ++ [','] ++ renderItems xs) ++ B = A ++ x.render ++ ([','] ++ renderItems xs ++ B) := by
          simp [List.append_assoc]
        have e2 : f + (x.size + BItem.sizeList xs) = (f + BItem.sizeList xs) + x.size := by ring
        rw [e1, e2, KL_item x hw.1 A _ _ hA]
        have hY : '(' ∉ joinComma x.flattenCode := joinComma_noparen _ '(' (by decide) (fun s hs => (hx2 s hs).1)
        have e3 : A ++ joinComma x.flattenCode ++ ([','] ++ renderItems xs ++ B)
            = (A ++ joinComma x.flattenCode ++ [',']) ++ renderItems xs ++ B := by simp [List.append_assoc]
        rw [e3, KL_list xs hw.2 hxs _ B f (okA_snoc A _ hA hY)]
        simp [List.append_assoc]
end


theorem foldl_digits_lt (ds : Str) (hd : ds.all Char.isDigit = true) (acc : Nat) :
    ds.foldl (fun a c => a * 10 + (c.toNat - 48)) acc < (acc + 1) * 10 ^ ds.length := by
  induction ds generalizing acc with
  | nil => simp
  | cons d ds ih =>
    simp only [List.all_cons, Bool.and_eq_true] at hd
    have hdig := isDigit_toNat d hd.1
    have := ih hd.2 (acc * 10 + (d.toNat - 48))
    simp only [List.foldl_cons, List.length_cons, Nat.pow_succ]
    calc _ < (acc * 10 + (d.toNat - 48) + 1) * 10 ^ ds.length := this
      _ ≤ ((acc + 1) * 10) * 10 ^ ds.length := Nat.mul_le_mul_right _ (by omega)
      _ = (acc + 1) * (10 ^ ds.length * 10) := by ring

theorem parseNat_lt (ds : Str) (hd : ds.all Char.isDigit = true) : parseNat ds < 10 ^ ds.length := by
  have := foldl_digits_lt ds hd 0
  simpa [parseNat] using this

theorem pow_add_le (a b : Nat) : 10 ^ a + 10 ^ b ≤ 10 ^ (a + b + 1) := by
  have ha : 1 ≤ 10 ^ a := Nat.one_le_pow _ _ (by omega)
  have hb : 1 ≤ 10 ^ b := Nat.one_le_pow _ _ (by omega)
  rw [Nat.pow_succ, Nat.pow_add]
  nlinarith

mutual
  theorem size_bound : ∀ (x : BItem), x.wf = true → x.size + 1 ≤ 10 ^ x.render.length
    | .atom s, _ => by simp [BItem.size]; exact Nat.one_le_pow _ _ (by omega)
    | .group none items, h => by
      simp only [BItem.wf, Bool.and_eq_true] at h
      have := sizeList_bound items h.2
      simp only [BItem.size, BItem.render]
      have e : (['('] ++ joinComma (BItem.renderList items) ++ [')']).length = (renderItems items).length + 2 := by
        simp [renderItems]
      rw [e, Nat.pow_add]
      omega
    | .group (some ds) items, h => by
      simp only [BItem.wf, Bool.and_eq_true, Bool.not_eq_true'] at h
      have hc := sizeList_bound items h.2
      have hn := parseNat_lt ds h.1.1.2
      simp only [BItem.size, BItem.render]
      have e : (ds ++ ['*', '('] ++ joinComma (BItem.renderList items) ++ [')']).length
          = ds.length + (renderItems items).length + 3 := by
        simp [renderItems]; omega
      rw [e, Nat.pow_add, Nat.pow_add]
      have hX : 1 ≤ 10 ^ ds.length := Nat.one_le_pow _ _ (by omega)
      have hm : parseNat ds ≤ 10 ^ ds.length := by omega
      have hmul : parseNat ds * BItem.sizeList items ≤ 10 ^ ds.length * 10 ^ (renderItems items).length :=
        Nat.mul_le_mul hm (by omega)
      have hY : 1 ≤ 10 ^ ds.length * 10 ^ (renderItems items).length := Nat.mul_pos hX (by omega)
      omega
  theorem sizeList_bound : ∀ (xs : List BItem), BItem.wfList xs = true →
      BItem.sizeList xs + 1 ≤ 10 ^ (renderItems xs).length
    | [], _ => by simp [BItem.sizeList, renderItems, BItem.renderList, joinComma]
    | x :: xs, h => by
      simp only [BItem.wfList, Bool.and_eq_true] at h
      have h1 := size_bound x h.1
      have h2 := sizeList_bound xs h.2
      by_cases hxs : xs = []
      · subst hxs; rw [renderItems_single]; simpa [BItem.sizeList] using h1
      · rw [renderItems_cons x xs hxs]
        simp only [BItem.sizeList, List.length_append, List.length_singleton]
        have := pow_add_le x.render.length (renderItems xs).length
        rw [show x.render.length + 1 + (renderItems xs).length = x.render.length + (renderItems xs).length + 1 by omega]
        omega
end

theorem expandStep_noparen (s : Str) (h : '(' ∉ s) : expandStep s = .ok none := by
  unfold expandStep; rw [findChar_none _ _ h]

theorem expandBrackets_render' (items : List BItem) (hne : items ≠ []) (hwf : BItem.wfList items = true) :
    expandBrackets (renderItems items) = .ok (joinComma (BItem.flattenCodeList items)) := by
  unfold expandBrackets
  have hb := sizeList_bound items hwf
  obtain ⟨f, hf⟩ : ∃ f, 10 ^ (renderItems items).length + 1 = (f + 1) + BItem.sizeList items :=
    ⟨10 ^ (renderItems items).length - BItem.sizeList items, by omega⟩
  have := KL_list items hwf hne [] [] (f + 1) okA_nil
  simp only [List.nil_append, List.append_nil] at this
  rw [hf, this]
  obtain ⟨-, hat⟩ := flattenCodeList_atoms items hwf hne
  exact expandFuel_none _ _ (expandStep_noparen _ (joinComma_noparen _ '(' (by decide) (fun s hs => (hat s hs).1)))


theorem filter_flatten_replicate (n : Nat) (l : List Str) :
    (List.replicate n l).flatten.filter (fun s => !s.isEmpty) = (List.replicate n (l.filter fun s => !s.isEmpty)).flatten := by
  induction n with
  | zero => simp
  | succ n ih => simp [List.replicate_succ, List.filter_append, ih]

mutual
  /-- dropping the empty pieces of the code's output gives the specified flattening -/
  theorem flattenCode_filter_item : ∀ (x : BItem), x.wf = true →
      x.flattenCode.filter (fun s => !s.isEmpty) = x.flattenSpec
    | .atom s, h => by
      simp only [BItem.wf, Bool.and_eq_true] at h
      simp [BItem.flattenCode, BItem.flattenSpec, h.1]
    | .group none items, h => by
      simp only [BItem.wf, Bool.and_eq_true] at h
      simp only [BItem.flattenCode, BItem.flattenSpec]
      exact flattenCode_filter_list items h.2
    | .group (some ds) items, h => by
      simp only [BItem.wf, Bool.and_eq_true] at h
      simp only [BItem.flattenCode, BItem.flattenSpec]
      by_cases hz : parseNat ds = 0
      · simp [hz]
      · simp only [hz, if_false]
        rw [filter_flatten_replicate, flattenCode_filter_list items h.2]
  theorem flattenCode_filter_list : ∀ (xs : List BItem), BItem.wfList xs = true →
      (BItem.flattenCodeList xs).filter (fun s => !s.isEmpty) = BItem.flattenSpecList xs
    | [], _ => by simp [BItem.flattenCodeList, BItem.flattenSpecList]
    | x :: xs, h => by
      simp only [BItem.wfList, Bool.and_eq_true] at h
      simp only [BItem.flattenCodeList, BItem.flattenSpecList, List.filter_append]
      rw [flattenCode_filter_item x h.1, flattenCode_filter_list xs h.2]
end

mutual
  theorem flattenCode_nocomma_item : ∀ (x : BItem), x.wf = true → ∀ s ∈ x.flattenCode, ',' ∉ s
    | .atom s, h => by
      simp only [BItem.wf, Bool.and_eq_true, Bool.not_eq_true', List.all_eq_true, ne_eq, decide_eq_true_eq] at h
      intro t ht; simp [BItem.flattenCode] at ht; subst ht
      exact fun hm => (h.2 _ hm).2 rfl
    | .group none items, h => by
      simp only [BItem.wf, Bool.and_eq_true] at h
      simp only [BItem.flattenCode]
      exact flattenCode_nocomma_list items h.2
    | .group (some ds) items, h => by
      simp only [BItem.wf, Bool.and_eq_true] at h
      simp only [BItem.flattenCode]
      by_cases hz : parseNat ds = 0
      · simp [hz]
      · simp only [hz, if_false]
        intro s hs
        simp only [List.mem_flatten, List.mem_replicate] at hs
        obtain ⟨l, ⟨-, rfl⟩, hs⟩ := hs
        exact flattenCode_nocomma_list items h.2 s hs
  theorem flattenCode_nocomma_list : ∀ (xs : List BItem), BItem.wfList xs = true →
      ∀ s ∈ BItem.flattenCodeList xs, ',' ∉ s
    | [], _ => by simp [BItem.flattenCodeList]
    | x :: xs, h => by
      simp only [BItem.wfList, Bool.and_eq_true] at h
      simp only [BItem.flattenCodeList]
      intro s hs
      rcases List.mem_append.mp hs with hs | hs
      · exact flattenCode_nocomma_item x h.1 s hs
      · exact flattenCode_nocomma_list xs h.2 s hs
end

theorem splitOnChar_nocomma (x : Str) (h : ',' ∉ x) : splitOnChar ',' x = [x] := by
  induction x with
  | nil => rfl
  | cons c x ih =>
    have hc : c ≠ ',' := by intro e; exact h (by simp [e])
    have hx : ',' ∉ x := by intro e; exact h (by simp [e])
    simp [splitOnChar, hc, ih hx]

theorem splitOnChar_append (x rest : Str) (h : ',' ∉ x) :
    splitOnChar ',' (x ++ ',' :: rest) = x :: splitOnChar ',' rest := by
  induction x with
  | nil => simp [splitOnChar]
  | cons c x ih =>
    have hc : c ≠ ',' := by intro e; exact h (by simp [e])
    have hx : ',' ∉ x := by intro e; exact h (by simp [e])
    simp [splitOnChar, hc, ih hx]

/-- `s.split(',')` undoes `','.join(l)` for pieces without a comma -/
theorem splitOnChar_joinComma (l : List Str) (hne : l ≠ []) (h : ∀ s ∈ l, ',' ∉ s) :
    splitOnChar ',' (joinComma l) = l := by
  induction l with
  | nil => exact absurd rfl hne
  | cons x l ih =>
    by_cases hl : l = []
    · subst hl; simpa [joinComma] using splitOnChar_nocomma x (h x (by simp))
    · rw [joinComma_cons _ _ hl, List.append_assoc, List.singleton_append,
        splitOnChar_append x _ (h x (by simp)), ih hl (fun s hs => h s (by simp [hs]))]

theorem expandBrackets_unbalanced' (pre rest : Str) (hpre : '(' ∉ pre)
    (hopen : ∀ k, k ≤ rest.length → (rest.take k).count ')' < (rest.take k).count '(' + 1) :
    expandBrackets (pre ++ '(' :: rest) = .error .value := by
  unfold expandBrackets
  exact expandFuel_error _ _ _ (expandStep_unbalanced pre rest hpre hopen)

theorem expandBrackets_unbalanced_after' (items : List BItem) (hne : items ≠ []) (hwf : BItem.wfList items = true) (rest : Str)
    (hopen : ∀ k, k ≤ rest.length → (rest.take k).count ')' < (rest.take k).count '(' + 1) :
    expandBrackets (renderItems items ++ ',' :: '(' :: rest) = .error .value := by
  unfold expandBrackets
  have hb := sizeList_bound items hwf
  have hle : 10 ^ (renderItems items).length ≤ 10 ^ (renderItems items ++ ',' :: '(' :: rest).length :=
    Nat.pow_le_pow_right (by omega) (by simp)
  obtain ⟨f, hf⟩ : ∃ f, 10 ^ (renderItems items ++ ',' :: '(' :: rest).length + 1 = (f + 1) + BItem.sizeList items :=
    ⟨10 ^ (renderItems items ++ ',' :: '(' :: rest).length - BItem.sizeList items, by omega⟩
  have := KL_list items hwf hne [] (',' :: '(' :: rest) (f + 1) okA_nil
  simp only [List.nil_append] at this
  rw [hf, this]
  obtain ⟨-, hat⟩ := flattenCodeList_atoms items hwf hne
  have hJ : '(' ∉ joinComma (BItem.flattenCodeList items) ++ [','] := by
    have := joinComma_noparen _ '(' (by decide) (fun s hs => (hat s hs).1)
    simp [this]
  have e : joinComma (BItem.flattenCodeList items) ++ ',' :: '(' :: rest
      = (joinComma (BItem.flattenCodeList items) ++ [',']) ++ '(' :: rest := by simp
  rw [e]
  exact expandFuel_error _ _ _ (expandStep_unbalanced _ rest hJ hopen)


end BM.C05
