import BitstringModel.Model.C10
import BitstringModel.Proofs.Basic
namespace BM.C10
end BM.C10
