import BitstringModel.Model.C10
import BitstringModel.Proofs.Basic
import Mathlib.Tactic.Ring
namespace BM.C10
open BM

/-- Interleave every digit with a leading "follow" bit 0. -/
def ilv (ds : Bits) : Bits := ds.flatMap fun d => [false, d]

@[simp] theorem ilv_nil : ilv [] = [] := rfl
@[simp] theorem ilv_cons (d : Bool) (ds : Bits) : ilv (d :: ds) = false :: d :: ilv ds := rfl
@[simp] theorem ilv_length (ds : Bits) : (ilv ds).length = 2 * ds.length := by
  induction ds with
  | nil => rfl
  | cons d ds ih => simp [ih]; omega

theorem readUIEAux_ilv (ds : Bits) (c k : Nat) (rest : Bits) :
    readUIEAux (ilv ds ++ true :: rest) c k
      = some (c * 2 ^ ds.length + bitsToNat ds, k + 2 * ds.length + 1) := by
  induction ds generalizing c k with
  | nil => simp [readUIEAux]
  | cons d ds ih =>
    simp only [ilv_cons, List.cons_append, readUIEAux]
    rw [ih, bitsToNat_cons]
    simp only [List.length_cons, Nat.pow_succ]
    congr 2
    · ring
    · omega

theorem readUIEAux_some (l : Bits) (c k c' k' : Nat) (h : readUIEAux l c k = some (c', k')) :
    ∃ ds rest, l = ilv ds ++ true :: rest ∧ c' = c * 2 ^ ds.length + bitsToNat ds
      ∧ k' = k + 2 * ds.length + 1 := by
  fun_induction readUIEAux l c k with
  | case1 => simp at h
  | case2 t c k =>
    simp only [Option.some.injEq, Prod.mk.injEq] at h
    exact ⟨[], t, by simp, by simp [h.1], by simp [h.2]⟩
  | case3 => simp at h
  | case4 d rest c k ih =>
    obtain ⟨ds, r, h1, h2, h3⟩ := ih h
    refine ⟨d :: ds, r, by simp [h1], ?_, ?_⟩
    · rw [h2, bitsToNat_cons]; simp only [List.length_cons, Nat.pow_succ]; ring
    · rw [h3]; simp only [List.length_cons]; omega

theorem readUIEAux_trunc (ds : Bits) (q : Nat) (hq : q < 2 * ds.length + 1) (c k : Nat) :
    readUIEAux ((ilv ds ++ [true]).take q) c k = none := by
  induction ds generalizing q c k with
  | nil =>
    have : q = 0 := by simpa using hq
    subst this; simp [readUIEAux]
  | cons d ds ih =>
    simp only [ilv_cons, List.cons_append]
    match q, hq with
    | 0, _ => simp [readUIEAux]
    | 1, _ => simp [readUIEAux]
    | q + 2, hq =>
      simp only [List.take_succ_cons, readUIEAux]
      apply ih
      simp only [List.length_cons] at hq; omega

theorem uieEncodeNat_eq (n : Nat) :
    uieEncodeNat n = ilv (natToBits (Nat.log2 (n + 1)) (n + 1)) ++ [true] := by
  unfold uieEncodeNat
  split
  · next h => subst h; decide
  · rfl

theorem natToBits_add_pow (k x : Nat) : natToBits k (2 ^ k + x) = natToBits k x := by
  have h1 := natToBits_bitsToNat (natToBits k (2 ^ k + x))
  have h2 := natToBits_bitsToNat (natToBits k x)
  rw [natToBits_length, bitsToNat_natToBits_mod] at h1 h2
  rw [← h1, ← h2]; congr 1
  simp

theorem uie_codenum (n : Nat) :
    2 ^ Nat.log2 (n + 1) + bitsToNat (natToBits (Nat.log2 (n + 1)) (n + 1)) = n + 1 := by
  rw [bitsToNat_natToBits_mod]
  have h1 := Nat.log2_self_le (n := n + 1) (by omega)
  have h2 := Nat.lt_log2_self (n := n + 1)
  rw [Nat.pow_succ] at h2
  have : (n + 1) % 2 ^ Nat.log2 (n + 1) = n + 1 - 2 ^ Nat.log2 (n + 1) := by
    rw [Nat.mod_eq_sub_mod h1, Nat.mod_eq_of_lt (by omega)]
  omega

theorem uie_of_digits (ds : Bits) :
    uieEncodeNat (2 ^ ds.length + bitsToNat ds - 1) = ilv ds ++ [true] := by
  rw [uieEncodeNat_eq]
  have hpos : 0 < 2 ^ ds.length := Nat.two_pow_pos _
  have hlt := bitsToNat_lt ds
  have e : 2 ^ ds.length + bitsToNat ds - 1 + 1 = 2 ^ ds.length + bitsToNat ds := by omega
  rw [e]
  have hl : Nat.log2 (2 ^ ds.length + bitsToNat ds) = ds.length := by
    rw [Nat.log2_eq_iff (by omega)]
    rw [Nat.pow_succ]; omega
  rw [hl, natToBits_add_pow, natToBits_bitsToNat]

theorem uie_length' (n : Nat) : (uieEncodeNat n).length = 2 * Nat.log2 (n + 1) + 1 := by
  rw [uieEncodeNat_eq]; simp

theorem uie_length_pos (n : Nat) : 0 < (uieEncodeNat n).length := by
  rw [uie_length']; omega

theorem readUIE_ok_iff (b : Bits) (p v p' : Nat) :
    readUIE b p = .ok (v, p') ↔
      ∃ rest, b.drop p = uieEncodeNat v ++ rest ∧ p' = p + (uieEncodeNat v).length := by
  unfold readUIE
  constructor
  · intro h
    split at h
    · simp at h
    · next c k hc =>
      simp only [Except.ok.injEq, Prod.mk.injEq] at h
      obtain ⟨ds, rest, h1, h2, h3⟩ := readUIEAux_some _ _ _ _ _ hc
      have hv : uieEncodeNat v = ilv ds ++ [true] := by
        rw [← h.1, h2, Nat.one_mul, uie_of_digits]
      refine ⟨rest, ?_, ?_⟩
      · rw [h1, hv]; simp
      · rw [← h.2, h3, hv]; simp
  · rintro ⟨rest, h1, h2⟩
    rw [h1, uieEncodeNat_eq, List.append_assoc, List.singleton_append, readUIEAux_ilv]
    simp only [natToBits_length, Nat.one_mul, uie_codenum]
    rw [h2, uie_length']
    simp

theorem readUIE_error (b : Bits) (p : Nat) (e : Err) (h : readUIE b p = .error e) : e = .read := by
  unfold readUIE at h
  split at h
  · simpa using h.symm
  · simp at h

theorem sieEncode_zero : sieEncode 0 = uieEncodeNat 0 := by decide

theorem sieEncode_ne (i : Int) (hi : i ≠ 0) :
    sieEncode i = uieEncodeNat i.natAbs ++ [decide (i < 0)] := by
  simp [sieEncode, hi]

theorem sieEncode_of (c : Nat) (hc : c ≠ 0) (s : Bool) :
    sieEncode (if s then -(c : Int) else (c : Int)) = uieEncodeNat c ++ [s] := by
  cases s
  · have h0 : (c : Int) ≠ 0 := by omega
    have h2 : ¬ ((c : Int) < 0) := by omega
    simp only [Bool.false_eq_true, if_false]
    rw [sieEncode_ne _ h0, Int.natAbs_natCast, decide_eq_false h2]
  · have h0 : -(c : Int) ≠ 0 := by omega
    have h2 : (-(c : Int) < 0) := by omega
    simp only [if_true]
    rw [sieEncode_ne _ h0, Int.natAbs_neg, Int.natAbs_natCast, decide_eq_true h2]

theorem readSIE_ok_iff (b : Bits) (p : Nat) (i : Int) (p' : Nat) :
    readSIE b p = .ok (i, p') ↔
      ∃ rest, b.drop p = sieEncode i ++ rest ∧ p' = p + (sieEncode i).length := by
  unfold readSIE
  constructor
  · intro h
    split at h
    · simp at h
    · next c p1 hc =>
      obtain ⟨rest, h1, h2⟩ := (readUIE_ok_iff _ _ _ _).1 hc
      split at h
      · next hc0 =>
        simp only [Except.ok.injEq, Prod.mk.injEq] at h
        subst hc0
        rw [← h.1, ← h.2, sieEncode_zero]
        exact ⟨rest, h1, h2⟩
      · next hc0 =>
        split at h
        · simp at h
        · next s hs =>
          simp only [Except.ok.injEq, Prod.mk.injEq] at h
          rw [← h.1, ← h.2, sieEncode_of c hc0 s]
          have : (b.drop p)[(uieEncodeNat c).length]? = some s := by
            rw [List.getElem?_drop, ← h2]; exact hs
          rw [h1, List.getElem?_append_right (Nat.le_refl _), Nat.sub_self] at this
          cases rest with
          | nil => simp at this
          | cons r rest' =>
            simp only [List.getElem?_cons_zero, Option.some.injEq] at this
            subst this
            refine ⟨rest', by rw [h1]; simp, by rw [h2]; simp; omega⟩
  · rintro ⟨rest, h1, h2⟩
    by_cases hi : i = 0
    · subst hi
      rw [sieEncode_zero] at h1 h2
      rw [(readUIE_ok_iff b p 0 p').2 ⟨rest, h1, h2⟩]
      simp
    · rw [sieEncode_ne i hi] at h1 h2
      rw [List.append_assoc] at h1
      rw [(readUIE_ok_iff b p i.natAbs (p + (uieEncodeNat i.natAbs).length)).2 ⟨_, h1, rfl⟩]
      have hne : i.natAbs ≠ 0 := by omega
      have hs : b[p + (uieEncodeNat i.natAbs).length]? = some (decide (i < 0)) := by
        rw [← List.getElem?_drop, h1, List.getElem?_append_right (Nat.le_refl _), Nat.sub_self]
        simp
      simp only [hne, if_false, hs, h2, List.length_append, List.length_cons, List.length_nil]
      congr 2
      by_cases hneg : i < 0 <;> simp [hneg] <;> omega

theorem readSIE_error (b : Bits) (p : Nat) (e : Err) (h : readSIE b p = .error e) : e = .read := by
  unfold readSIE at h
  split at h
  · next e' he =>
    have := readUIE_error _ _ _ he
    simp only [Except.error.injEq] at h; rw [← h, this]
  · split at h
    · simp at h
    · split at h
      · simpa using h.symm
      · simp at h

theorem readUIE_trunc (pre : Bits) (n q : Nat) (hq : q < (uieEncodeNat n).length) :
    readUIE (pre ++ (uieEncodeNat n).take q) pre.length = .error .read := by
  unfold readUIE
  rw [List.drop_left']
  · rw [uieEncodeNat_eq, readUIEAux_trunc]
    rw [uie_length'] at hq; simpa using hq
  · rfl

theorem sie_length_pos (i : Int) : 0 < (sieEncode i).length := by
  by_cases hi : i = 0
  · subst hi; decide
  · rw [sieEncode_ne i hi]; simp

theorem readSIE_trunc (pre : Bits) (i : Int) (q : Nat) (hq : q < (sieEncode i).length) :
    readSIE (pre ++ (sieEncode i).take q) pre.length = .error .read := by
  by_cases hi : i = 0
  · subst hi
    rw [sieEncode_zero] at hq ⊢
    unfold readSIE
    rw [readUIE_trunc pre 0 q hq]
  · rw [sieEncode_ne i hi] at hq ⊢
    simp only [List.length_append, List.length_cons, List.length_nil] at hq
    by_cases hlt : q < (uieEncodeNat i.natAbs).length
    · rw [List.take_append_of_le_length (Nat.le_of_lt hlt)]
      unfold readSIE
      rw [readUIE_trunc pre _ q hlt]
    · have hq' : q = (uieEncodeNat i.natAbs).length := by omega
      rw [hq', List.take_left' rfl]
      unfold readSIE
      have h1 : readUIE (pre ++ uieEncodeNat i.natAbs) pre.length
          = .ok (i.natAbs, pre.length + (uieEncodeNat i.natAbs).length) := by
        rw [readUIE_ok_iff]
        exact ⟨[], by rw [List.drop_left' rfl, List.append_nil], rfl⟩
      rw [h1]
      have hne : i.natAbs ≠ 0 := by omega
      have hnone : (pre ++ uieEncodeNat i.natAbs)[pre.length + (uieEncodeNat i.natAbs).length]? = none := by
        rw [List.getElem?_eq_none_iff]; simp
      simp only [hne, if_false, hnone]

theorem getUIE_iff (b : Bits) (n : Nat) : getUIE b = .ok n ↔ b = uieEncodeNat n := by
  unfold getUIE wholeOf
  constructor
  · intro h
    split at h
    · simp at h
    · next v p hv =>
      split at h
      · simp at h
      · next hp =>
        simp only [Except.ok.injEq] at h
        subst h
        obtain ⟨rest, h1, h2⟩ := (readUIE_ok_iff _ _ _ _).1 hv
        have hl := congrArg List.length h1
        simp only [List.drop_zero, List.length_append] at hl h1
        have : rest = [] := List.eq_nil_of_length_eq_zero (by omega)
        rw [h1, this, List.append_nil]
  · intro h
    have h1 : readUIE b 0 = .ok (n, b.length) := by
      rw [readUIE_ok_iff]; exact ⟨[], by simp [h], by simp [h]⟩
    rw [h1]; simp

theorem getSIE_iff (b : Bits) (i : Int) : getSIE b = .ok i ↔ b = sieEncode i := by
  unfold getSIE wholeOf
  constructor
  · intro h
    split at h
    · simp at h
    · next v p hv =>
      split at h
      · simp at h
      · next hp =>
        simp only [Except.ok.injEq] at h
        subst h
        obtain ⟨rest, h1, h2⟩ := (readSIE_ok_iff _ _ _ _).1 hv
        have hl := congrArg List.length h1
        simp only [List.drop_zero, List.length_append] at hl h1
        have : rest = [] := List.eq_nil_of_length_eq_zero (by omega)
        rw [h1, this, List.append_nil]
  · intro h
    have h1 : readSIE b 0 = .ok (i, b.length) := by
      rw [readSIE_ok_iff]; exact ⟨[], by simp [h], by simp [h]⟩
    rw [h1]; simp

theorem streamRead_readUIE' (b : Bits) (pos : Nat) :
    streamRead readUIE b pos = readUIE b pos := by
  unfold streamRead readUIE
  simp only [List.drop_zero]
  cases readUIEAux (b.drop pos) 1 0 with
  | none => rfl
  | some r => simp

theorem streamRead_readSIE' (b : Bits) (pos : Nat) :
    streamRead readSIE b pos = readSIE b pos := by
  have hU : readUIE (b.drop pos) 0 = match readUIE b pos with
      | .error e => .error e
      | .ok (c, p) => .ok (c, p - pos) := by
    unfold readUIE
    simp only [List.drop_zero]
    cases readUIEAux (b.drop pos) 1 0 with
    | none => rfl
    | some r => simp
  have hge : ∀ c p, readUIE b pos = .ok (c, p) → pos ≤ p := by
    intro c p h
    obtain ⟨rest, _, h2⟩ := (readUIE_ok_iff _ _ _ _).1 h
    omega
  unfold streamRead readSIE
  rw [hU]
  cases hr : readUIE b pos with
  | error e => simp [readUIE_error _ _ _ hr]
  | ok r =>
    obtain ⟨c, p⟩ := r
    have := hge c p hr
    simp only
    by_cases hc : c = 0
    · simp [hc]; omega
    · simp only [hc, if_false, List.getElem?_drop]
      have e : pos + (p - pos) = p := by omega
      rw [e]
      cases b[p]? with
      | none => rfl
      | some s => simp; omega

end BM.C10
