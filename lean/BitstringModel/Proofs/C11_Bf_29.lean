/- Kernel obligation: `bfChk` (Proofs/C11_NumDefs.lean) on the 16-bit patterns 0x7400..0x77ff. -/
import BitstringModel.Proofs.C11_NumDefs
namespace BM.C11
theorem bfChunk_29 : bfChunkOk 29 = true := by decide +kernel
end BM.C11
