/-
  Proofs/C14Sim.lean — helper lemmas for Props/C14_Sim.lean.
-/
import BitstringModel.Model.C14
import BitstringModel.Proofs.C14

namespace BM.C14
open BM

variable {V : Type}

theorem view_ok {α} (c : Codec V) (s : Step α) (x : α) (l : List V) (h : s.view c = .ok (x, l)) :
    s.res = .ok x ∧ items c s.data = l := by
  unfold Step.view at h
  cases hr : s.res with
  | error e => rw [hr] at h; cases h
  | ok y =>
    rw [hr] at h
    injection h with h
    injection h with h1 h2
    exact ⟨by rw [h1], h2⟩

theorem view_err {α} (c : Codec V) (s : Step α) (e : Err) (h : s.view c = .error e) : s.res = .error e := by
  unfold Step.view at h
  cases hr : s.res with
  | error e' => rw [hr] at h; injection h with h; rw [h]
  | ok y => rw [hr] at h; cases h

/-- A mutating call whose view is the list operation `r`, that keeps the trailing bits and changes nothing when it
    raises, simulates `lmut`. -/
theorem mut_step (c : Codec V) (d : Bits) (s : Step Unit) (r : Except Err (List V))
    (hview : s.view c = r.map fun l => ((), l)) (htr : trailing c.w s.data = trailing c.w d)
    (herr : ∀ e, s.res = .error e → s.data = d) :
    sameOutcome (unitObs (V := V) s).res (lmut ⟨items c d, trailing c.w d⟩ r).2 ∧
    (⟨items c (unitObs (V := V) s).data, trailing c.w (unitObs (V := V) s).data⟩ : LState V)
      = (lmut ⟨items c d, trailing c.w d⟩ r).1 := by
  cases r with
  | error e =>
    have hr := view_err c s e (by simpa [Except.map] using hview)
    have hd := herr e hr
    simp only [unitObs, hr, lmut, sameOutcome, hd, and_self]
  | ok l' =>
    obtain ⟨hr, hi⟩ := view_ok c s () l' (by simpa [Except.map] using hview)
    simp only [unitObs, hr, lmut, sameOutcome, hi, htr, and_self]

/-- The same for a call that raises and changes nothing. -/
theorem rejected_step (c : Codec V) (d : Bits) (s : Step Unit) (e e' : Err) (hres : s.res = .error e) (hd : s.data = d) :
    sameOutcome (unitObs (V := V) s).res (Except.error e' : Except Err (Obs V)) ∧
    (⟨items c (unitObs (V := V) s).data, trailing c.w (unitObs (V := V) s).data⟩ : LState V)
      = ⟨items c d, trailing c.w d⟩ := by
  simp only [unitObs, hres, sameOutcome, hd, and_self]

end BM.C14
