/- Kernel obligation: `bfChk` (Proofs/C11_NumDefs.lean) on the 16-bit patterns 0x6400..0x67ff. -/
import BitstringModel.Proofs.C11_NumDefs
namespace BM.C11
theorem bfChunk_25 : bfChunkOk 25 = true := by decide +kernel
end BM.C11
