/- Kernel obligation: `bfChk` (Proofs/C11_NumDefs.lean) on the 16-bit patterns 0xc800..0xcbff. -/
import BitstringModel.Proofs.C11_NumDefs
namespace BM.C11
theorem bfChunk_50 : bfChunkOk 50 = true := by decide +kernel
end BM.C11
