import BitstringModel.Model.C04
import BitstringModel.Proofs.Basic
namespace BM.C04
end BM.C04
