import BitstringModel.Model.C04
import BitstringModel.Proofs.Basic
namespace BM.C04
open BM

/-! ### counting lemmas -/

theorem filter_len_zero_iff {α} (p : α → Bool) (l : List α) :
    (l.filter p).length = 0 ↔ ∀ x ∈ l, p x = false := by
  induction l with
  | nil => simp
  | cons a t ih =>
    by_cases ha : p a = true
    · simp [ha]
    · simp only [Bool.not_eq_true] at ha
      simp [ha, ih]

theorem idx_eq_of_filter_len_le_one {α} (p : α → Bool) (l : List α) (hl : (l.filter p).length ≤ 1)
    (i j : Nat) (x y : α) (hi : l[i]? = some x) (hj : l[j]? = some y) (hx : p x = true) (hy : p y = true) :
    i = j := by
  induction l generalizing i j with
  | nil => simp at hi
  | cons a t ih =>
    by_cases ha : p a = true
    · simp only [List.filter_cons, ha, if_true, List.length_cons] at hl
      have h0 : (t.filter p).length = 0 := by omega
      rw [filter_len_zero_iff] at h0
      cases i with
      | zero =>
        cases j with
        | zero => rfl
        | succ j =>
          simp only [List.getElem?_cons_succ] at hj
          have := h0 y (List.mem_of_getElem? hj)
          simp [hy] at this
      | succ i =>
        simp only [List.getElem?_cons_succ] at hi
        have := h0 x (List.mem_of_getElem? hi)
        simp [hx] at this
    · simp only [List.filter_cons, ha] at hl
      cases i with
      | zero => simp at hi; subst hi; exact absurd hx ha
      | succ i =>
        cases j with
        | zero => simp at hj; subst hj; exact absurd hy ha
        | succ j =>
          simp only [List.getElem?_cons_succ] at hi hj
          have := ih hl i j hi hj
          omega

theorem filter_len_eq_one_of_uniq {α} (p : α → Bool) (l : List α) (i : Nat) (x : α)
    (hi : l[i]? = some x) (hx : p x = true)
    (hu : ∀ j y, l[j]? = some y → p y = true → j = i) : (l.filter p).length = 1 := by
  induction l generalizing i with
  | nil => simp at hi
  | cons a t ih =>
    cases i with
    | zero =>
      simp at hi; subst hi
      have h0 : (t.filter p).length = 0 := by
        rw [filter_len_zero_iff]
        intro y hy
        obtain ⟨j, hj⟩ := List.getElem?_of_mem hy
        by_cases hp : p y = true
        · have := hu (j + 1) y (by simpa using hj) hp
          omega
        · simpa using hp
      simp [hx, h0]
    | succ i =>
      simp only [List.getElem?_cons_succ] at hi
      have ha : p a = false := by
        by_cases hp : p a = true
        · have := hu 0 a (by simp) hp
          omega
        · simpa using hp
      simp only [List.filter_cons, ha]
      apply ih i hi
      intro j y hj hy
      have := hu (j + 1) y (by simpa using hj) hy
      omega

/-! ### index form of the invariant -/

structure WF (h : Heap) : Prop where
  objR : ∀ o : Obj, o ∈ h.objs → o.sid < h.stores.length
  cacheR : ∀ e : String × Nat, e ∈ h.cache → e.2 < h.stores.length
  cacheImm : ∀ e : String × Nat, e ∈ h.cache → storeImm h e.2 = true
  extR : ∀ s : Nat, s ∈ h.exts → s < h.stores.length
  mutUniq : ∀ (i j : Nat) (o o' : Obj), h.objs[i]? = some o → h.objs[j]? = some o' →
    o.cls.isMutable = true → o'.sid = o.sid → i = j
  mutCache : ∀ o : Obj, o ∈ h.objs → o.cls.isMutable = true → ∀ e : String × Nat, e ∈ h.cache → e.2 ≠ o.sid
  mutImm : ∀ o : Obj, o ∈ h.objs → o.cls.isMutable = true → storeImm h o.sid = false
  objExt : ∀ o : Obj, o ∈ h.objs → ∀ s : Nat, s ∈ h.exts → o.sid ≠ s
  extCache : ∀ s : Nat, s ∈ h.exts → ∀ e : String × Nat, e ∈ h.cache → e.2 ≠ s
  extUniq : ∀ (i j s : Nat), h.exts[i]? = some s → h.exts[j]? = some s → i = j

theorem inCache_false_iff (h : Heap) (sid : Nat) : inCache h sid = false ↔ ∀ e ∈ h.cache, e.2 ≠ sid := by
  simp [inCache, List.any_eq_false]

theorem refCountObjs_zero_iff (h : Heap) (sid : Nat) :
    refCountObjs h sid = 0 ↔ ∀ o ∈ h.objs, o.sid ≠ sid := by
  simp [refCountObjs]

theorem refCountExts_zero_iff (h : Heap) (sid : Nat) :
    refCountExts h sid = 0 ↔ ∀ s ∈ h.exts, s ≠ sid := by
  simp [refCountExts]

theorem WF.of_inv {h : Heap} (hi : Inv h) : WF h := by
  obtain ⟨h1, h2, h3, h4, h5⟩ := hi
  refine ⟨h1, fun e he => (h2 e he).1, fun e he => (h2 e he).2, h3, ?_, ?_, ?_, ?_, ?_, ?_⟩
  · intro i j o o' hi hj hm hs
    have := (h4 o (List.mem_of_getElem? hi) hm).1
    exact idx_eq_of_filter_len_le_one (fun x : Obj => decide (x.sid = o.sid)) h.objs
      (by unfold refCountObjs at this; omega) i j o o' hi hj (by simp) (by simp [hs])
  · intro o ho hm
    exact (inCache_false_iff _ _).1 (h4 o ho hm).2.1
  · intro o ho hm
    exact (h4 o ho hm).2.2.2
  · intro o ho s hs
    exact (refCountObjs_zero_iff _ _).1 (h5 s hs).1 o ho
  · intro s hs
    exact (inCache_false_iff _ _).1 (h5 s hs).2.1
  · intro i j s hi hj
    have := (h5 s (List.mem_of_getElem? hi)).2.2
    exact idx_eq_of_filter_len_le_one (fun x : Nat => decide (x = s)) h.exts
      (by unfold refCountExts at this; omega) i j s s hi hj (by simp) (by simp)

theorem WF.inv {h : Heap} (w : WF h) : Inv h := by
  refine ⟨w.objR, fun e he => ⟨w.cacheR e he, w.cacheImm e he⟩, w.extR, ?_, ?_⟩
  · intro o ho hm
    refine ⟨?_, (inCache_false_iff _ _).2 (w.mutCache o ho hm), ?_, w.mutImm o ho hm⟩
    · obtain ⟨i, hi⟩ := List.getElem?_of_mem ho
      exact filter_len_eq_one_of_uniq (fun x : Obj => decide (x.sid = o.sid)) h.objs i o hi (by simp)
        (fun j y hj hy => (w.mutUniq i j o y hi hj hm (by simpa using hy)).symm)
    · exact (refCountExts_zero_iff _ _).2 (fun s hs hso => w.objExt o ho s hs hso.symm)
  · intro s hs
    refine ⟨(refCountObjs_zero_iff _ _).2 (fun o ho => w.objExt o ho s hs),
      (inCache_false_iff _ _).2 (w.extCache s hs), ?_⟩
    obtain ⟨i, hi⟩ := List.getElem?_of_mem hs
    exact filter_len_eq_one_of_uniq (fun x : Nat => decide (x = s)) h.exts i s hi (by simp)
      (fun j y hj hy => by
        have : y = s := by simpa using hy
        subst this
        exact (w.extUniq i j y hi hj).symm)

theorem inv_iff_wf (h : Heap) : Inv h ↔ WF h := ⟨WF.of_inv, WF.inv⟩


/-! ### primitives -/

theorem storeImm_congr {h h' : Heap} (hs : h'.stores = h.stores) (x : Nat) :
    storeImm h' x = storeImm h x := by unfold storeImm; rw [hs]

theorem storeBits_congr {h h' : Heap} (hs : h'.stores = h.stores) (x : Nat) :
    storeBits h' x = storeBits h x := by unfold storeBits; rw [hs]

theorem storeImm_alloc_old (h : Heap) (s : Store) (x : Nat) (hx : x < h.stores.length) :
    storeImm (alloc h s).1 x = storeImm h x := by
  simp [storeImm, alloc, List.getElem?_append_left hx]

theorem storeImm_alloc_new (h : Heap) (s : Store) :
    storeImm (alloc h s).1 h.stores.length = s.imm := by
  simp [storeImm, alloc]

theorem storeBits_alloc_old (h : Heap) (s : Store) (x : Nat) (hx : x < h.stores.length) :
    storeBits (alloc h s).1 x = storeBits h x := by
  simp [storeBits, alloc, List.getElem?_append_left hx]

theorem storeBits_alloc_new (h : Heap) (s : Store) :
    storeBits (alloc h s).1 h.stores.length = s.bits := by
  simp [storeBits, alloc]

theorem setImm_objs (h : Heap) (sid : Nat) : (setImm h sid).objs = h.objs := by
  unfold setImm; split <;> rfl
theorem setImm_cache (h : Heap) (sid : Nat) : (setImm h sid).cache = h.cache := by
  unfold setImm; split <;> rfl
theorem setImm_exts (h : Heap) (sid : Nat) : (setImm h sid).exts = h.exts := by
  unfold setImm; split <;> rfl
theorem setImm_length (h : Heap) (sid : Nat) : (setImm h sid).stores.length = h.stores.length := by
  unfold setImm; split <;> simp

theorem storeBits_setImm (h : Heap) (sid x : Nat) : storeBits (setImm h sid) x = storeBits h x := by
  unfold setImm storeBits
  split
  · rename_i s hs
    have hl := (List.getElem?_eq_some_iff.1 hs).1
    by_cases hx : sid = x
    · subst hx; simp [hs, List.getElem?_set_self hl]
    · simp [List.getElem?_set_ne hx]
  · rfl

theorem storeImm_setImm_ne (h : Heap) (sid x : Nat) (hx : x ≠ sid) :
    storeImm (setImm h sid) x = storeImm h x := by
  unfold setImm storeImm
  split
  · simp [List.getElem?_set_ne (Ne.symm hx)]
  · rfl

theorem storeImm_setImm_self (h : Heap) (sid : Nat) (hs : sid < h.stores.length) :
    storeImm (setImm h sid) sid = true := by
  unfold setImm storeImm
  split
  · simp [hs]
  · rename_i hn; simp at hn; omega

theorem storeImm_setImm_mono (h : Heap) (sid x : Nat) (hx : storeImm h x = true) :
    storeImm (setImm h sid) x = true := by
  by_cases hxs : x = sid
  · subst hxs
    apply storeImm_setImm_self
    unfold storeImm at hx
    by_contra hc
    simp [List.getElem?_eq_none (Nat.le_of_not_lt hc)] at hx
  · rw [storeImm_setImm_ne h sid x hxs]; exact hx

theorem writeStore_objs (h : Heap) (sid : Nat) (g : Bits → Bits) : (writeStore h sid g).objs = h.objs := by
  unfold writeStore; split <;> rfl
theorem writeStore_cache (h : Heap) (sid : Nat) (g : Bits → Bits) : (writeStore h sid g).cache = h.cache := by
  unfold writeStore; split <;> rfl
theorem writeStore_exts (h : Heap) (sid : Nat) (g : Bits → Bits) : (writeStore h sid g).exts = h.exts := by
  unfold writeStore; split <;> rfl
theorem writeStore_length (h : Heap) (sid : Nat) (g : Bits → Bits) :
    (writeStore h sid g).stores.length = h.stores.length := by
  unfold writeStore; split <;> simp

theorem storeImm_writeStore (h : Heap) (sid : Nat) (g : Bits → Bits) (x : Nat) :
    storeImm (writeStore h sid g) x = storeImm h x := by
  unfold writeStore storeImm
  split
  · rename_i s hs
    have hl := (List.getElem?_eq_some_iff.1 hs).1
    by_cases hx : sid = x
    · subst hx; simp [hs, List.getElem?_set_self hl]
    · simp [List.getElem?_set_ne hx]
  · rfl

theorem storeBits_writeStore_ne (h : Heap) (sid : Nat) (g : Bits → Bits) (x : Nat) (hx : x ≠ sid) :
    storeBits (writeStore h sid g) x = storeBits h x := by
  unfold writeStore storeBits
  split
  · simp [List.getElem?_set_ne (Ne.symm hx)]
  · rfl

/-! ### building blocks for `WF` -/

theorem WF.of_stores {h h' : Heap} (w : WF h) (hl : h.stores.length ≤ h'.stores.length)
    (ho : h'.objs = h.objs) (hc : h'.cache = h.cache) (he : h'.exts = h.exts)
    (h1 : ∀ e : String × Nat, e ∈ h.cache → storeImm h' e.2 = true)
    (h2 : ∀ o : Obj, o ∈ h.objs → o.cls.isMutable = true → storeImm h' o.sid = false) : WF h' := by
  obtain ⟨a1, a2, a3, a4, a5, a6, a7, a8, a9, a10⟩ := w
  constructor <;> simp only [ho, hc, he] <;> try assumption
  · intro o ho; have := a1 o ho; omega
  · intro e he; have := a2 e he; omega
  · intro s hs; have := a4 s hs; omega

theorem WF.of_alloc {h : Heap} (w : WF h) (s : Store) : WF (alloc h s).1 := by
  refine w.of_stores (by simp [alloc]) rfl rfl rfl ?_ ?_
  · intro e he; rw [storeImm_alloc_old _ _ _ (w.cacheR e he)]; exact w.cacheImm e he
  · intro o ho hm; rw [storeImm_alloc_old _ _ _ (w.objR o ho)]; exact w.mutImm o ho hm

theorem WF.of_setImm {h : Heap} (w : WF h) (sid : Nat)
    (hm : ∀ o : Obj, o ∈ h.objs → o.cls.isMutable = true → o.sid ≠ sid) : WF (setImm h sid) := by
  refine w.of_stores (by rw [setImm_length]; exact Nat.le_refl _) (setImm_objs _ _) (setImm_cache _ _)
    (setImm_exts _ _) ?_ ?_
  · intro e he; exact storeImm_setImm_mono _ _ _ (w.cacheImm e he)
  · intro o ho hmo; rw [storeImm_setImm_ne _ _ _ (hm o ho hmo)]; exact w.mutImm o ho hmo

theorem WF.of_writeStore {h : Heap} (w : WF h) (sid : Nat) (g : Bits → Bits) : WF (writeStore h sid g) := by
  refine w.of_stores (by rw [writeStore_length]; exact Nat.le_refl _) (writeStore_objs _ _ _)
    (writeStore_cache _ _ _) (writeStore_exts _ _ _) ?_ ?_
  · intro e he; rw [storeImm_writeStore]; exact w.cacheImm e he
  · intro o ho hmo; rw [storeImm_writeStore]; exact w.mutImm o ho hmo

/-- `sid` exists and is referenced by nothing. -/
structure FreshIn (h : Heap) (sid : Nat) : Prop where
  lt : sid < h.stores.length
  objs : ∀ o : Obj, o ∈ h.objs → o.sid ≠ sid
  cache : ∀ e : String × Nat, e ∈ h.cache → e.2 ≠ sid
  exts : ∀ s : Nat, s ∈ h.exts → s ≠ sid

theorem WF.fresh_alloc {h : Heap} (w : WF h) (s : Store) : FreshIn (alloc h s).1 h.stores.length := by
  refine ⟨by simp [alloc], ?_, ?_, ?_⟩
  · intro o ho; have := w.objR o ho; omega
  · intro e he; have := w.cacheR e he; omega
  · intro x hx; have := w.extR x hx; omega

theorem WF.of_addObj {h h' : Heap} (w : WF h) (o : Obj) (hs : h'.stores = h.stores)
    (ho : h'.objs = h.objs ++ [o]) (hc : h'.cache = h.cache) (he : h'.exts = h.exts)
    (hlt : o.sid < h.stores.length)
    (hext : ∀ s : Nat, s ∈ h.exts → s ≠ o.sid)
    (hmut : ∀ o' : Obj, o' ∈ h.objs → o'.cls.isMutable = true → o'.sid ≠ o.sid)
    (hnew : o.cls.isMutable = true →
      (∀ o' : Obj, o' ∈ h.objs → o'.sid ≠ o.sid) ∧ (∀ e : String × Nat, e ∈ h.cache → e.2 ≠ o.sid) ∧
      storeImm h o.sid = false) : WF h' := by
  obtain ⟨a1, a2, a3, a4, a5, a6, a7, a8, a9, a10⟩ := w
  have hi : ∀ x, storeImm h' x = storeImm h x := storeImm_congr hs
  constructor <;> simp only [ho, hc, he, hs, hi] <;> try assumption
  · intro o' ho'
    rcases List.mem_append.1 ho' with h1 | h1
    · exact a1 o' h1
    · simp at h1; subst h1; exact hlt
  · intro i j x y hx hy hm hxy
    by_cases hi : i < h.objs.length <;> by_cases hj : j < h.objs.length
    · rw [List.getElem?_append_left hi] at hx
      rw [List.getElem?_append_left hj] at hy
      exact a5 i j x y hx hy hm hxy
    · rw [List.getElem?_append_left hi] at hx
      rw [List.getElem?_append_right (Nat.le_of_not_lt hj)] at hy
      have hy' : y = o := by
        have := List.mem_of_getElem? hy; simpa using this
      subst hy'
      exact absurd hxy.symm (hmut x (List.mem_of_getElem? hx) hm)
    · rw [List.getElem?_append_right (Nat.le_of_not_lt hi)] at hx
      rw [List.getElem?_append_left hj] at hy
      have hx' : x = o := by
        have := List.mem_of_getElem? hx; simpa using this
      subst hx'
      exact absurd hxy ((hnew hm).1 y (List.mem_of_getElem? hy))
    · rw [List.getElem?_append_right (Nat.le_of_not_lt hi)] at hx
      rw [List.getElem?_append_right (Nat.le_of_not_lt hj)] at hy
      have h1 : i - h.objs.length < 1 := by
        have := (List.getElem?_eq_some_iff.1 hx).1; simpa using this
      have h2 : j - h.objs.length < 1 := by
        have := (List.getElem?_eq_some_iff.1 hy).1; simpa using this
      omega
  · intro o' ho' hm e hec
    rcases List.mem_append.1 ho' with h1 | h1
    · exact a6 o' h1 hm e hec
    · simp at h1; subst h1; exact (hnew hm).2.1 e hec
  · intro o' ho' hm
    rcases List.mem_append.1 ho' with h1 | h1
    · exact a7 o' h1 hm
    · simp at h1; subst h1; exact (hnew hm).2.2
  · intro o' ho' s hs'
    rcases List.mem_append.1 ho' with h1 | h1
    · exact a8 o' h1 s hs'
    · simp at h1; subst h1; exact fun hc' => hext s hs' hc'.symm

theorem WF.of_addObj_fresh {h : Heap} (w : WF h) (cls : Cls) (sid : Nat) (f : FreshIn h sid)
    (himm : cls.isMutable = true → storeImm h sid = false) : WF (addObj h ⟨cls, sid⟩) :=
  w.of_addObj ⟨cls, sid⟩ rfl rfl rfl rfl f.lt f.exts (fun o' ho' _ => f.objs o' ho')
    (fun hm => ⟨f.objs, f.cache, himm hm⟩)

theorem WF.of_alloc_addObj {h : Heap} (w : WF h) (cls : Cls) (b : Bits) :
    WF (addObj (alloc h ⟨b, false⟩).1 ⟨cls, h.stores.length⟩) :=
  (w.of_alloc _).of_addObj_fresh cls _ (w.fresh_alloc _) (fun _ => storeImm_alloc_new _ _)

theorem WF.of_setObj {h h' : Heap} (w : WF h) (t : Nat) (cls : Cls) (sid : Nat) (hs : h'.stores = h.stores)
    (ho : h'.objs = h.objs.set t ⟨cls, sid⟩) (hc : h'.cache = h.cache) (he : h'.exts = h.exts)
    (f : FreshIn h sid) (himm : storeImm h sid = false) : WF h' := by
  obtain ⟨a1, a2, a3, a4, a5, a6, a7, a8, a9, a10⟩ := w
  have hi : ∀ x, storeImm h' x = storeImm h x := storeImm_congr hs
  constructor <;> simp only [ho, hc, he, hs, hi] <;> try assumption
  · intro o' ho'
    rcases List.mem_or_eq_of_mem_set ho' with h1 | h1
    · exact a1 o' h1
    · subst h1; exact f.lt
  · intro i j x y hx hy hm hxy
    rw [List.getElem?_set] at hx hy
    by_cases hi : t = i <;> by_cases hj : t = j
    · omega
    · simp only [hi, if_true] at hx
      simp only [hj, if_false] at hy
      split at hx
      · simp at hx; subst hx
        exact absurd hxy (f.objs y (List.mem_of_getElem? hy))
      · simp at hx
    · simp only [hi, if_false] at hx
      simp only [hj, if_true] at hy
      split at hy
      · simp at hy; subst hy
        exact absurd hxy.symm (f.objs x (List.mem_of_getElem? hx))
      · simp at hy
    · simp only [hi, if_false] at hx
      simp only [hj, if_false] at hy
      exact a5 i j x y hx hy hm hxy
  · intro o' ho' hm e hec
    rcases List.mem_or_eq_of_mem_set ho' with h1 | h1
    · exact a6 o' h1 hm e hec
    · subst h1; exact f.cache e hec
  · intro o' ho' hm
    rcases List.mem_or_eq_of_mem_set ho' with h1 | h1
    · exact a7 o' h1 hm
    · subst h1; exact himm
  · intro o' ho' s hs'
    rcases List.mem_or_eq_of_mem_set ho' with h1 | h1
    · exact a8 o' h1 s hs'
    · subst h1; exact fun hc' => f.exts s hs' hc'.symm

theorem WF.of_addExt {h h' : Heap} (w : WF h) (sid : Nat) (hs : h'.stores = h.stores)
    (ho : h'.objs = h.objs) (hc : h'.cache = h.cache) (he : h'.exts = h.exts ++ [sid])
    (f : FreshIn h sid) : WF h' := by
  obtain ⟨a1, a2, a3, a4, a5, a6, a7, a8, a9, a10⟩ := w
  have hi : ∀ x, storeImm h' x = storeImm h x := storeImm_congr hs
  constructor <;> simp only [ho, hc, he, hs, hi] <;> try assumption
  · intro s hs'
    rcases List.mem_append.1 hs' with h1 | h1
    · exact a4 s h1
    · simp at h1; subst h1; exact f.lt
  · intro o ho' s hs'
    rcases List.mem_append.1 hs' with h1 | h1
    · exact a8 o ho' s h1
    · simp at h1; subst h1; exact f.objs o ho'
  · intro s hs' e hec
    rcases List.mem_append.1 hs' with h1 | h1
    · exact a9 s h1 e hec
    · simp at h1; subst h1; exact f.cache e hec
  · intro i j s hx hy
    by_cases hi : i < h.exts.length <;> by_cases hj : j < h.exts.length
    · rw [List.getElem?_append_left hi] at hx
      rw [List.getElem?_append_left hj] at hy
      exact a10 i j s hx hy
    · rw [List.getElem?_append_left hi] at hx
      rw [List.getElem?_append_right (Nat.le_of_not_lt hj)] at hy
      have hy' : s = sid := by
        have := List.mem_of_getElem? hy; simpa using this
      subst hy'
      exact absurd rfl (f.exts s (List.mem_of_getElem? hx))
    · rw [List.getElem?_append_right (Nat.le_of_not_lt hi)] at hx
      rw [List.getElem?_append_left hj] at hy
      have hx' : s = sid := by
        have := List.mem_of_getElem? hx; simpa using this
      subst hx'
      exact absurd rfl (f.exts s (List.mem_of_getElem? hy))
    · rw [List.getElem?_append_right (Nat.le_of_not_lt hi)] at hx
      rw [List.getElem?_append_right (Nat.le_of_not_lt hj)] at hy
      have h1 : i - h.exts.length < 1 := by
        have := (List.getElem?_eq_some_iff.1 hx).1; simpa using this
      have h2 : j - h.exts.length < 1 := by
        have := (List.getElem?_eq_some_iff.1 hy).1; simpa using this
      omega

theorem WF.of_addCache {h h' : Heap} (w : WF h) (key : String) (sid : Nat) (hs : h'.stores = h.stores)
    (ho : h'.objs = h.objs) (hc : h'.cache = h.cache ++ [(key, sid)]) (he : h'.exts = h.exts)
    (hlt : sid < h.stores.length) (himm : storeImm h sid = true)
    (hext : ∀ s : Nat, s ∈ h.exts → s ≠ sid) : WF h' := by
  obtain ⟨a1, a2, a3, a4, a5, a6, a7, a8, a9, a10⟩ := w
  have hi : ∀ x, storeImm h' x = storeImm h x := storeImm_congr hs
  constructor <;> simp only [ho, hc, he, hs, hi] <;> try assumption
  · intro e hec
    rcases List.mem_append.1 hec with h1 | h1
    · exact a2 e h1
    · simp at h1; subst h1; exact hlt
  · intro e hec
    rcases List.mem_append.1 hec with h1 | h1
    · exact a3 e h1
    · simp at h1; subst h1; exact himm
  · intro o ho' hm e hec
    rcases List.mem_append.1 hec with h1 | h1
    · exact a6 o ho' hm e h1
    · simp at h1; subst h1
      intro hc'
      have := a7 o ho' hm
      simp only at hc'
      rw [← hc', himm] at this
      exact absurd this (by simp)
  · intro s hs' e hec
    rcases List.mem_append.1 hec with h1 | h1
    · exact a9 s hs' e h1
    · simp at h1; subst h1; exact fun hc' => hext s hs' hc'.symm


/-! ### `initObj`, `cachedStore`, `step` preserve `WF` -/

theorem WF.of_initObj {h : Heap} (w : WF h) (cls : Cls) (sid : Nat) (hlt : sid < h.stores.length)
    (hmut : ∀ o : Obj, o ∈ h.objs → o.cls.isMutable = true → o.sid ≠ sid)
    (hext : ∀ s : Nat, s ∈ h.exts → s ≠ sid)
    (hfree : storeImm h sid = false →
      (∀ o : Obj, o ∈ h.objs → o.sid ≠ sid) ∧ (∀ e : String × Nat, e ∈ h.cache → e.2 ≠ sid)) :
    WF (initObj h cls sid) := by
  have himmCase : ∀ c : Cls, c.isMutable = false → WF (addObj (setImm h sid) ⟨c, sid⟩) := by
    intro c hc
    refine (w.of_setImm sid hmut).of_addObj ⟨c, sid⟩ rfl rfl rfl rfl ?_ ?_ ?_ ?_
    · rw [setImm_length]; exact hlt
    · rw [setImm_exts]; exact hext
    · rw [setImm_objs]; exact hmut
    · intro hm; simp [hc] at hm
  cases cls with
  | bits => exact himmCase .bits rfl
  | constBitStream => exact himmCase .constBitStream rfl
  | bitArray =>
    unfold initObj
    by_cases hi : storeImm h sid = true
    · simp only [hi, if_true]
      exact w.of_alloc_addObj _ _
    · simp only [hi]
      have hi' : storeImm h sid = false := by simpa using hi
      exact w.of_addObj ⟨.bitArray, sid⟩ rfl rfl rfl rfl hlt hext hmut
        (fun _ => ⟨(hfree hi').1, (hfree hi').2, hi'⟩)
  | bitStream =>
    exact (w.of_setImm sid hmut).of_alloc_addObj _ _

theorem WF.of_initObj_fresh {h : Heap} (w : WF h) (cls : Cls) (sid : Nat) (f : FreshIn h sid) :
    WF (initObj h cls sid) :=
  w.of_initObj cls sid f.lt (fun o ho _ => f.objs o ho) f.exts (fun _ => ⟨f.objs, f.cache⟩)

theorem WF.of_initObj_imm {h : Heap} (w : WF h) (cls : Cls) (sid : Nat) (hlt : sid < h.stores.length)
    (himm : storeImm h sid = true) (hext : ∀ s : Nat, s ∈ h.exts → s ≠ sid) :
    WF (initObj h cls sid) := by
  refine w.of_initObj cls sid hlt ?_ hext ?_
  · intro o ho hm hs
    have := w.mutImm o ho hm
    rw [hs, himm] at this; exact absurd this (by simp)
  · intro hf; rw [himm] at hf; exact absurd hf (by simp)

theorem cacheLookup_mem {h : Heap} {key : String} {sid : Nat} (hc : cacheLookup h key = some sid) :
    (key, sid) ∈ h.cache := by
  unfold cacheLookup at hc
  cases hf : h.cache.find? (fun x => decide (x.1 = key)) with
  | none => simp [hf] at hc
  | some e =>
    simp [hf] at hc
    have h1 := List.find?_some hf
    have h2 := List.mem_of_find?_eq_some hf
    simp at h1
    obtain ⟨a, b⟩ := e
    simp at h1 hc; subst h1; subst hc; exact h2

/-- What `cachedStore` guarantees about the store it returns. -/
theorem WF.of_cachedStore {h : Heap} (w : WF h) (key : String) (b : Bits) :
    WF (cachedStore h key b).1 ∧ (cachedStore h key b).2 < (cachedStore h key b).1.stores.length ∧
    storeImm (cachedStore h key b).1 (cachedStore h key b).2 = true ∧
    (∀ s : Nat, s ∈ (cachedStore h key b).1.exts → s ≠ (cachedStore h key b).2) := by
  unfold cachedStore
  cases hc : cacheLookup h key with
  | some sid =>
    have hm := cacheLookup_mem hc
    exact ⟨w, w.cacheR _ hm, w.cacheImm _ hm, fun s hs hss => w.extCache s hs _ hm hss.symm⟩
  | none =>
    have f := w.fresh_alloc ⟨b, true⟩
    refine ⟨?_, f.lt, storeImm_alloc_new h ⟨b, true⟩, f.exts⟩
    exact (w.of_alloc ⟨b, true⟩).of_addCache key h.stores.length rfl rfl rfl rfl f.lt
      (storeImm_alloc_new h ⟨b, true⟩) f.exts

theorem WF.of_step {h : Heap} (w : WF h) (op : Op) : WF (step h op) := by
  cases op with
  | new cls b =>
    exact (w.of_alloc _).of_initObj_fresh cls _ (w.fresh_alloc _)
  | fromStr cls key b =>
    obtain ⟨w1, h1, h2, h3⟩ := w.of_cachedStore key b
    exact w1.of_initObj_imm cls _ h1 h2 h3
  | fromstring cls key b =>
    obtain ⟨w1, h1, h2, h3⟩ := w.of_cachedStore key b
    show WF (if cls.isMutable then _ else _)
    split
    · exact w1.of_alloc_addObj _ _
    · rename_i hm
      refine w1.of_addObj ⟨cls, (cachedStore h key b).2⟩ rfl rfl rfl rfl h1 h3 ?_ (fun hm' => absurd hm' hm)
      intro o ho hmo hs
      have hs : o.sid = (cachedStore h key b).2 := hs
      have := w1.mutImm o ho hmo
      rw [hs, h2] at this; exact absurd this (by simp)
  | fromObj cls src =>
    simp only [step]
    cases hs : h.objs[src]? with
    | none => exact w
    | some o =>
      have ho := List.mem_of_getElem? hs
      simp only []
      unfold storeCopy
      by_cases hi : storeImm h o.sid = true
      · simp only [hi, if_true]
        exact w.of_initObj_imm cls _ (w.objR o ho) hi (fun s hs' hss => w.objExt o ho s hs' hss.symm)
      · simp only [hi]
        exact (w.of_alloc _).of_initObj_fresh cls _ (w.fresh_alloc _)
  | bitsKw cls src =>
    simp only [step]
    cases hs : h.objs[src]? with
    | none => exact w
    | some o => exact (w.of_alloc _).of_initObj_fresh cls _ (w.fresh_alloc _)
  | assignBits dst src =>
    simp only [step]
    cases hd : h.objs[dst]? with
    | none => exact w
    | some d =>
      cases hs : h.objs[src]? with
      | none => exact w
      | some o =>
        simp only []
        split
        · exact (w.of_alloc _).of_setObj dst d.cls h.stores.length rfl rfl rfl rfl (w.fresh_alloc _)
            (storeImm_alloc_new _ _)
        · exact w
  | build src =>
    simp only [step]
    cases hs : h.objs[src]? with
    | none => exact w
    | some o => exact w.of_alloc_addObj _ _
  | copyM src =>
    simp only [step]
    cases hs : h.objs[src]? with
    | none => exact w
    | some o =>
      have ho := List.mem_of_getElem? hs
      simp only []
      split
      · exact w.of_alloc_addObj _ _
      · rename_i hm
        exact w.of_addObj o rfl rfl rfl rfl (w.objR o ho) (fun s hs' hss => w.objExt o ho s hs' hss.symm)
          (fun o' ho' hm' hss => by
            obtain ⟨i, hi⟩ := List.getElem?_of_mem ho'
            have := w.mutUniq i src o' o hi hs hm' hss.symm
            subst this; rw [hi] at hs; cases hs; exact hm hm')
          (fun hm' => absurd hm' hm)
  | copyCopy src =>
    simp only [step]
    cases hs : h.objs[src]? with
    | none => exact w
    | some o =>
      have ho := List.mem_of_getElem? hs
      simp only []
      split
      · exact w.of_alloc_addObj _ _
      · rename_i hm
        exact w.of_addObj o rfl rfl rfl rfl (w.objR o ho) (fun s hs' hss => w.objExt o ho s hs' hss.symm)
          (fun o' ho' hm' hss => by
            obtain ⟨i, hi⟩ := List.getElem?_of_mem ho'
            have := w.mutUniq i src o' o hi hs hm' hss.symm
            subst this; rw [hi] at hs; cases hs; exact hm hm')
          (fun hm' => absurd hm' hm)
  | selfOp src =>
    simp only [step]
    cases hs : h.objs[src]? with
    | none => exact w
    | some o =>
      have ho := List.mem_of_getElem? hs
      simp only []
      split
      · exact w.of_alloc_addObj _ _
      · rename_i hm
        exact w.of_addObj o rfl rfl rfl rfl (w.objR o ho) (fun s hs' hss => w.objExt o ho s hs' hss.symm)
          (fun o' ho' hm' hss => by
            obtain ⟨i, hi⟩ := List.getElem?_of_mem ho'
            have := w.mutUniq i src o' o hi hs hm' hss.symm
            subst this; rw [hi] at hs; cases hs; exact hm hm')
          (fun hm' => absurd hm' hm)
  | derive cls src g =>
    simp only [step]
    cases hs : h.objs[src]? with
    | none => exact w
    | some o => exact w.of_alloc_addObj _ _
  | fromExt cls b g =>
    have w1 := w.of_alloc ⟨b, false⟩
    have f1 := w.fresh_alloc ⟨b, false⟩
    have w2 : WF { (alloc h ⟨b, false⟩).1 with exts := (alloc h ⟨b, false⟩).1.exts ++ [h.stores.length] } :=
      w1.of_addExt h.stores.length rfl rfl rfl rfl f1
    exact (w2.of_alloc _).of_initObj_fresh cls _ (w2.fresh_alloc _)
  | toExt src =>
    simp only [step]
    cases hs : h.objs[src]? with
    | none => exact w
    | some o =>
      exact (w.of_alloc _).of_addExt h.stores.length rfl rfl rfl rfl (w.fresh_alloc _)
  | mutate obj g =>
    simp only [step]
    cases hs : h.objs[obj]? with
    | none => exact w
    | some o =>
      simp only []
      split
      · exact w.of_writeStore _ _
      · exact w
  | rebind obj g =>
    simp only [step]
    cases hs : h.objs[obj]? with
    | none => exact w
    | some o =>
      simp only []
      split
      · exact (w.of_alloc _).of_setObj obj o.cls h.stores.length rfl rfl rfl rfl (w.fresh_alloc _)
          (storeImm_alloc_new _ _)
      · exact w
  | mutateExt k g =>
    simp only [step]
    cases hs : h.exts[k]? with
    | none => exact w
    | some sid => exact w.of_writeStore _ _


/-! ### frames: what a step can change -/

/-- The object an operation is aimed at (same as `targets` in Props/C04). -/
def tgt : Op → Option Nat
  | .mutate t _ => some t
  | .rebind t _ => some t
  | .assignBits d _ => some d
  | _ => none

/-- The only store whose bits an operation overwrites. -/
def writes (h : Heap) : Op → Option Nat
  | .mutate t _ =>
    match h.objs[t]? with
    | some o => if o.cls.isMutable then some o.sid else none
    | none => none
  | .mutateExt k _ => h.exts[k]?
  | _ => none

/-- `h'` extends `h`: existing stores keep their bits except `wr`, existing objects keep their store except
    `tg` (which keeps its class), cache and exts are only appended to. -/
structure Frame (h h' : Heap) (wr tg : Option Nat) : Prop where
  len : h.stores.length ≤ h'.stores.length
  bits : ∀ x : Nat, x < h.stores.length → wr ≠ some x → storeBits h' x = storeBits h x
  objs : ∀ j : Nat, j < h.objs.length → tg ≠ some j → h'.objs[j]? = h.objs[j]?
  objsCls : ∀ (j : Nat) (o : Obj), h.objs[j]? = some o → ∃ o', h'.objs[j]? = some o' ∧ o'.cls = o.cls
  cache : ∃ c, h'.cache = h.cache ++ c
  exts : ∃ e, h'.exts = h.exts ++ e

theorem Frame.of_append {h h' : Heap} {wr tg : Option Nat} (hl : h.stores.length ≤ h'.stores.length)
    (hb : ∀ x : Nat, x < h.stores.length → wr ≠ some x → storeBits h' x = storeBits h x)
    (ho : ∃ l, h'.objs = h.objs ++ l) (hc : ∃ c, h'.cache = h.cache ++ c)
    (he : ∃ e, h'.exts = h.exts ++ e) : Frame h h' wr tg := by
  obtain ⟨l, ho⟩ := ho
  refine ⟨hl, hb, ?_, ?_, hc, he⟩
  · intro j hj _; rw [ho, List.getElem?_append_left hj]
  · intro j o hj
    have hlt := (List.getElem?_eq_some_iff.1 hj).1
    exact ⟨o, by rw [ho, List.getElem?_append_left hlt]; exact hj, rfl⟩

theorem Frame.refl (h : Heap) (wr tg : Option Nat) : Frame h h wr tg :=
  Frame.of_append (Nat.le_refl _) (fun _ _ _ => rfl) ⟨[], by simp⟩ ⟨[], by simp⟩ ⟨[], by simp⟩

theorem Frame.mono {h h' : Heap} (f : Frame h h' none none) (wr tg : Option Nat) : Frame h h' wr tg :=
  ⟨f.len, fun x hx _ => f.bits x hx (by simp), fun j hj _ => f.objs j hj (by simp), f.objsCls, f.cache, f.exts⟩

theorem Frame.trans {h h1 h2 : Heap} {wr tg : Option Nat} (f : Frame h h1 wr tg) (g : Frame h1 h2 wr tg) :
    Frame h h2 wr tg := by
  refine ⟨Nat.le_trans f.len g.len, ?_, ?_, ?_, ?_, ?_⟩
  · intro x hx hw
    rw [g.bits x (Nat.lt_of_lt_of_le hx f.len) hw, f.bits x hx hw]
  · intro j hj ht
    have hj1 : j < h1.objs.length := by
      obtain ⟨o', ho', _⟩ := f.objsCls j h.objs[j] (List.getElem?_eq_getElem hj)
      exact (List.getElem?_eq_some_iff.1 ho').1
    rw [g.objs j hj1 ht, f.objs j hj ht]
  · intro j o hj
    obtain ⟨o1, ho1, hc1⟩ := f.objsCls j o hj
    obtain ⟨o2, ho2, hc2⟩ := g.objsCls j o1 ho1
    exact ⟨o2, ho2, hc2.trans hc1⟩
  · obtain ⟨c1, hc1⟩ := f.cache
    obtain ⟨c2, hc2⟩ := g.cache
    exact ⟨c1 ++ c2, by rw [hc2, hc1, List.append_assoc]⟩
  · obtain ⟨c1, hc1⟩ := f.exts
    obtain ⟨c2, hc2⟩ := g.exts
    exact ⟨c1 ++ c2, by rw [hc2, hc1, List.append_assoc]⟩

theorem Frame.of_alloc (h : Heap) (s : Store) (wr tg : Option Nat) : Frame h (alloc h s).1 wr tg :=
  Frame.of_append (by simp [alloc]) (fun x hx _ => storeBits_alloc_old h s x hx)
    ⟨[], by simp [alloc]⟩ ⟨[], by simp [alloc]⟩ ⟨[], by simp [alloc]⟩

theorem Frame.of_setImm (h : Heap) (sid : Nat) (wr tg : Option Nat) : Frame h (setImm h sid) wr tg :=
  Frame.of_append (by rw [setImm_length]; exact Nat.le_refl _) (fun x _ _ => storeBits_setImm h sid x)
    ⟨[], by simp [setImm_objs]⟩ ⟨[], by simp [setImm_cache]⟩ ⟨[], by simp [setImm_exts]⟩

theorem Frame.of_addObj (h : Heap) (o : Obj) (wr tg : Option Nat) : Frame h (addObj h o) wr tg :=
  Frame.of_append (Nat.le_refl _) (fun _ _ _ => rfl) ⟨[o], rfl⟩ ⟨[], by simp [addObj]⟩ ⟨[], by simp [addObj]⟩

theorem Frame.of_writeStore (h : Heap) (sid : Nat) (g : Bits → Bits) (tg : Option Nat) :
    Frame h (writeStore h sid g) (some sid) tg :=
  Frame.of_append (by rw [writeStore_length]; exact Nat.le_refl _)
    (fun x _ hw => storeBits_writeStore_ne h sid g x (fun hx => hw (by rw [hx])))
    ⟨[], by simp [writeStore_objs]⟩ ⟨[], by simp [writeStore_cache]⟩ ⟨[], by simp [writeStore_exts]⟩

theorem Frame.of_setObj {h h' : Heap} (t : Nat) (d : Obj) (sid : Nat) (hd : h.objs[t]? = some d)
    (hs : h'.stores = h.stores) (ho : h'.objs = h.objs.set t ⟨d.cls, sid⟩) (hc : h'.cache = h.cache)
    (he : h'.exts = h.exts) (wr : Option Nat) : Frame h h' wr (some t) := by
  refine ⟨by rw [hs]; exact Nat.le_refl _, fun x _ _ => storeBits_congr hs x, ?_, ?_, ⟨[], by simp [hc]⟩,
    ⟨[], by simp [he]⟩⟩
  · intro j _ ht
    have : t ≠ j := fun e => ht (by rw [e])
    rw [ho, List.getElem?_set_ne this]
  · intro j o hj
    by_cases htj : t = j
    · subst htj
      rw [hd] at hj; cases hj
      have hlt := (List.getElem?_eq_some_iff.1 hd).1
      exact ⟨⟨d.cls, sid⟩, by rw [ho, List.getElem?_set_self hlt], rfl⟩
    · exact ⟨o, by rw [ho, List.getElem?_set_ne htj]; exact hj, rfl⟩

theorem Frame.of_initObj (h : Heap) (cls : Cls) (sid : Nat) (wr tg : Option Nat) :
    Frame h (initObj h cls sid) wr tg := by
  cases cls with
  | bits => exact (Frame.of_setImm h sid wr tg).trans (Frame.of_addObj _ _ wr tg)
  | constBitStream => exact (Frame.of_setImm h sid wr tg).trans (Frame.of_addObj _ _ wr tg)
  | bitArray =>
    unfold initObj
    by_cases hi : storeImm h sid = true
    · simp only [hi, if_true]
      exact (Frame.of_alloc h _ wr tg).trans (Frame.of_addObj _ _ wr tg)
    · simp only [hi]
      exact Frame.of_addObj _ _ wr tg
  | bitStream =>
    exact ((Frame.of_setImm h sid wr tg).trans (Frame.of_alloc _ _ wr tg)).trans (Frame.of_addObj _ _ wr tg)

theorem Frame.of_cachedStore (h : Heap) (key : String) (b : Bits) (wr tg : Option Nat) :
    Frame h (cachedStore h key b).1 wr tg := by
  unfold cachedStore
  cases hc : cacheLookup h key with
  | some sid => exact Frame.refl h wr tg
  | none =>
    refine (Frame.of_alloc h ⟨b, true⟩ wr tg).trans ?_
    exact Frame.of_append (Nat.le_refl _) (fun _ _ _ => rfl) ⟨[], by simp⟩ ⟨[(key, h.stores.length)], rfl⟩
      ⟨[], by simp⟩

theorem Frame.of_step (h : Heap) (op : Op) : Frame h (step h op) (writes h op) (tgt op) := by
  cases op with
  | new cls b => exact (Frame.of_alloc h _ _ _).trans (Frame.of_initObj _ _ _ _ _)
  | fromStr cls key b => exact (Frame.of_cachedStore h key b _ _).trans (Frame.of_initObj _ _ _ _ _)
  | fromstring cls key b =>
    refine (Frame.of_cachedStore h key b _ _).trans ?_
    show Frame _ (if cls.isMutable then _ else _) _ _
    split
    · exact (Frame.of_alloc _ _ _ _).trans (Frame.of_addObj _ _ _ _)
    · exact Frame.of_addObj _ _ _ _
  | fromObj cls src =>
    simp only [step]
    cases hs : h.objs[src]? with
    | none => exact Frame.refl _ _ _
    | some o =>
      simp only []
      unfold storeCopy
      by_cases hi : storeImm h o.sid = true
      · simp only [hi, if_true]
        exact Frame.of_initObj _ _ _ _ _
      · simp only [hi]
        exact (Frame.of_alloc h _ _ _).trans (Frame.of_initObj _ _ _ _ _)
  | bitsKw cls src =>
    simp only [step]
    cases hs : h.objs[src]? with
    | none => exact Frame.refl _ _ _
    | some o => exact (Frame.of_alloc h _ _ _).trans (Frame.of_initObj _ _ _ _ _)
  | assignBits dst src =>
    simp only [step]
    cases hd : h.objs[dst]? with
    | none => exact Frame.refl _ _ _
    | some d =>
      cases hs : h.objs[src]? with
      | none => exact Frame.refl _ _ _
      | some o =>
        simp only []
        split
        · refine Frame.trans (Frame.of_alloc h ⟨storeBits h o.sid, false⟩ _ _)
            (Frame.of_setObj dst d h.stores.length
              (show (alloc h ⟨storeBits h o.sid, false⟩).1.objs[dst]? = some d from hd) ?_ ?_ ?_ ?_ _) <;> rfl
        · exact Frame.refl _ _ _
  | build src =>
    simp only [step]
    cases hs : h.objs[src]? with
    | none => exact Frame.refl _ _ _
    | some o => exact (Frame.of_alloc h _ _ _).trans (Frame.of_addObj _ _ _ _)
  | copyM src =>
    simp only [step]
    cases hs : h.objs[src]? with
    | none => exact Frame.refl _ _ _
    | some o =>
      simp only []
      split
      · exact (Frame.of_alloc h _ _ _).trans (Frame.of_addObj _ _ _ _)
      · exact Frame.of_addObj _ _ _ _
  | copyCopy src =>
    simp only [step]
    cases hs : h.objs[src]? with
    | none => exact Frame.refl _ _ _
    | some o =>
      simp only []
      split
      · exact (Frame.of_alloc h _ _ _).trans (Frame.of_addObj _ _ _ _)
      · exact Frame.of_addObj _ _ _ _
  | selfOp src =>
    simp only [step]
    cases hs : h.objs[src]? with
    | none => exact Frame.refl _ _ _
    | some o =>
      simp only []
      split
      · exact (Frame.of_alloc h _ _ _).trans (Frame.of_addObj _ _ _ _)
      · exact Frame.of_addObj _ _ _ _
  | derive cls src g =>
    simp only [step]
    cases hs : h.objs[src]? with
    | none => exact Frame.refl _ _ _
    | some o => exact (Frame.of_alloc h _ _ _).trans (Frame.of_addObj _ _ _ _)
  | fromExt cls b g =>
    refine (Frame.of_alloc h ⟨b, false⟩ _ _).trans ?_
    refine Frame.trans (h1 := { (alloc h ⟨b, false⟩).1 with
      exts := (alloc h ⟨b, false⟩).1.exts ++ [h.stores.length] }) ?_ ?_
    · exact Frame.of_append (Nat.le_refl _) (fun _ _ _ => rfl) ⟨[], by simp⟩ ⟨[], by simp⟩ ⟨[_], rfl⟩
    · exact (Frame.of_alloc _ _ _ _).trans (Frame.of_initObj _ _ _ _ _)
  | toExt src =>
    simp only [step]
    cases hs : h.objs[src]? with
    | none => exact Frame.refl _ _ _
    | some o =>
      refine (Frame.of_alloc h ⟨storeBits h o.sid, false⟩ _ _).trans ?_
      exact Frame.of_append (Nat.le_refl _) (fun _ _ _ => rfl) ⟨[], (List.append_nil _).symm⟩
        ⟨[], (List.append_nil _).symm⟩ ⟨[_], rfl⟩
  | mutate obj g =>
    simp only [step, writes]
    cases hs : h.objs[obj]? with
    | none => exact Frame.refl _ _ _
    | some o =>
      simp only []
      split
      · exact Frame.of_writeStore _ _ _ _
      · exact Frame.refl _ _ _
  | rebind obj g =>
    simp only [step]
    cases hs : h.objs[obj]? with
    | none => exact Frame.refl _ _ _
    | some o =>
      simp only []
      split
      · refine Frame.trans (Frame.of_alloc h ⟨g (storeBits h o.sid), false⟩ _ _)
          (Frame.of_setObj obj o h.stores.length
            (show (alloc h ⟨g (storeBits h o.sid), false⟩).1.objs[obj]? = some o from hs) ?_ ?_ ?_ ?_ _) <;> rfl
      · exact Frame.refl _ _ _
  | mutateExt k g =>
    simp only [step, writes]
    cases hs : h.exts[k]? with
    | none => exact Frame.refl _ _ _
    | some sid => exact Frame.of_writeStore _ _ _ _


/-! ### consequences -/

theorem WF.writes_ne_obj {h : Heap} (w : WF h) (op : Op) (j : Nat) (o : Obj) (hj : h.objs[j]? = some o)
    (ht : tgt op ≠ some j) : writes h op ≠ some o.sid := by
  cases op <;> try (simp [writes]; done)
  case mutate t g =>
    simp only [writes]
    cases hs : h.objs[t]? with
    | none => simp
    | some o' =>
      simp only []
      split
      · rename_i hm
        intro he
        have he : o'.sid = o.sid := by simpa using he
        have := w.mutUniq t j o' o hs hj hm he.symm
        exact ht (by simp [tgt, this])
      · simp
  case mutateExt k g =>
    simp only [writes]
    intro he
    exact w.objExt o (List.mem_of_getElem? hj) o.sid (List.mem_of_getElem? he) rfl

theorem WF.writes_ne_cache {h : Heap} (w : WF h) (op : Op) (e : String × Nat) (he : e ∈ h.cache) :
    writes h op ≠ some e.2 := by
  cases op <;> try (simp [writes]; done)
  case mutate t g =>
    simp only [writes]
    cases hs : h.objs[t]? with
    | none => simp
    | some o' =>
      simp only []
      split
      · rename_i hm
        intro hh
        have hh : o'.sid = e.2 := by simpa using hh
        exact w.mutCache o' (List.mem_of_getElem? hs) hm e he hh.symm
      · simp
  case mutateExt k g =>
    simp only [writes]
    intro hh
    exact w.extCache e.2 (List.mem_of_getElem? hh) e he rfl

theorem WF.writes_mutate_ne_ext {h : Heap} (w : WF h) (t : Nat) (g : Bits → Bits) (s : Nat) (hs : s ∈ h.exts) :
    writes h (.mutate t g) ≠ some s := by
  simp only [writes]
  cases ho : h.objs[t]? with
  | none => simp
  | some o' =>
    simp only []
    split
    · intro hh
      have hh : o'.sid = s := by simpa using hh
      exact w.objExt o' (List.mem_of_getElem? ho) s hs hh
    · simp

theorem step_value_frame {h : Heap} (w : WF h) (op : Op) (j : Nat) (hj : j < h.objs.length)
    (ht : tgt op ≠ some j) : value (step h op) j = value h j := by
  have f := Frame.of_step h op
  unfold value
  rw [f.objs j hj ht]
  cases ho : h.objs[j]? with
  | none => rfl
  | some o =>
    simp only [Option.map_some]
    rw [f.bits o.sid (w.objR o (List.mem_of_getElem? ho)) (w.writes_ne_obj op j o ho ht)]

theorem cacheLookup_append {h h' : Heap} (c : List (String × Nat)) (hc : h'.cache = h.cache ++ c)
    (key : String) (sid : Nat) (hl : cacheLookup h key = some sid) : cacheLookup h' key = some sid := by
  unfold cacheLookup at *
  rw [hc, List.find?_append]
  cases hf : h.cache.find? (fun x => decide (x.1 = key)) with
  | none => simp [hf] at hl
  | some e => simpa [hf] using hl

theorem step_cache_frame {h : Heap} (w : WF h) (op : Op) (key : String) (sid : Nat)
    (hl : cacheLookup h key = some sid) :
    cacheLookup (step h op) key = some sid ∧ storeBits (step h op) sid = storeBits h sid := by
  have f := Frame.of_step h op
  obtain ⟨c, hc⟩ := f.cache
  have hm := cacheLookup_mem hl
  exact ⟨cacheLookup_append c hc key sid hl,
    f.bits sid (w.cacheR _ hm) (w.writes_ne_cache op (key, sid) hm)⟩

theorem step_cacheValue {h : Heap} (w : WF h) (op : Op) (key : String) (b : Bits)
    (hc : cacheValue h key = some b) : cacheValue (step h op) key = some b := by
  unfold cacheValue at *
  cases hl : cacheLookup h key with
  | none => simp [hl] at hc
  | some sid =>
    obtain ⟨h1, h2⟩ := step_cache_frame w op key sid hl
    rw [h1]; rw [hl] at hc
    simpa [h2] using hc

theorem cacheLookup_congr {h h' : Heap} (hc : h'.cache = h.cache) (key : String) :
    cacheLookup h' key = cacheLookup h key := by unfold cacheLookup; rw [hc]

theorem step_mutate_objs (h : Heap) (t : Nat) (g : Bits → Bits) : (step h (.mutate t g)).objs = h.objs := by
  simp only [step]; split
  · rfl
  · split
    · exact writeStore_objs _ _ _
    · rfl

theorem step_mutate_cache (h : Heap) (t : Nat) (g : Bits → Bits) : (step h (.mutate t g)).cache = h.cache := by
  simp only [step]; split
  · rfl
  · split
    · exact writeStore_cache _ _ _
    · rfl

theorem step_mutate_exts (h : Heap) (t : Nat) (g : Bits → Bits) : (step h (.mutate t g)).exts = h.exts := by
  simp only [step]; split
  · rfl
  · split
    · exact writeStore_exts _ _ _
    · rfl

theorem step_mutateExt_objs (h : Heap) (k : Nat) (g : Bits → Bits) :
    (step h (.mutateExt k g)).objs = h.objs := by
  simp only [step]; split
  · rfl
  · exact writeStore_objs _ _ _

theorem step_mutateExt_cache (h : Heap) (k : Nat) (g : Bits → Bits) :
    (step h (.mutateExt k g)).cache = h.cache := by
  simp only [step]; split
  · rfl
  · exact writeStore_cache _ _ _

/-- A write-only step leaves every cache value (present or absent) as it was. -/
theorem cacheValue_of_cache_eq {h : Heap} (w : WF h) (op : Op) (hc : (step h op).cache = h.cache)
    (key : String) : cacheValue (step h op) key = cacheValue h key := by
  unfold cacheValue
  rw [cacheLookup_congr hc]
  cases hl : cacheLookup h key with
  | none => rfl
  | some sid =>
    simp only [Option.map_some]
    rw [(step_cache_frame w op key sid hl).2]

theorem WF.of_run {h : Heap} (w : WF h) (ops : List Op) : WF (run h ops) := by
  induction ops generalizing h with
  | nil => exact w
  | cons op ops ih => exact ih (w.of_step op)

theorem wf_empty : WF {} := by
  constructor <;> simp


theorem step_eq_self_of_immutable_target (h : Heap) (op : Op) (j : Nat) (o : Obj)
    (ho : h.objs[j]? = some o) (hm : o.cls.isMutable = false) (ht : tgt op = some j) : step h op = h := by
  cases op <;> simp only [tgt, Option.some.injEq, reduceCtorEq] at ht
  case mutate t g => subst ht; simp [step, ho, hm]
  case rebind t g => subst ht; simp [step, ho, hm]
  case assignBits d s => subst ht; simp only [step, ho]; cases h.objs[s]? <;> simp [hm]

end BM.C04
