/-
  Proofs/C19PPWidth.lean — helper lemmas for Props/C19_PPWidth.lean (line lengths, colour, reachability of errors).
  Every lemma here is named `W_…`.
-/
import BitstringModel.Model.C19
import BitstringModel.Proofs.Basic
import Mathlib.Data.Nat.Log

namespace BM.C19
open BM

/-! ## `cutMsb` / `cut` : sizes of the chunks -/

theorem W_cutAux_fuel (n : Nat) (_hn : n ≠ 0) :
    ∀ (f1 f2 : Nat) (l : Bits), l.length < f1 → l.length < f2 → cutAux n f1 l = cutAux n f2 l := by
  intro f1
  induction f1 with
  | zero => intro f2 l h1; omega
  | succ f1 ih =>
    intro f2 l h1 h2
    cases f2 with
    | zero => omega
    | succ f2 =>
      simp only [cutAux]
      by_cases hc0 : (l.take n).length = 0
      · simp only [hc0, if_true]
      · simp only [hc0, if_false]
        by_cases hcn : (l.take n).length ≠ n
        · rw [if_pos hcn, if_pos hcn]
        · rw [if_neg hcn, if_neg hcn]
          have hlen : (l.take n).length = n := by simpa using hcn
          rw [List.length_take] at hlen
          have hd : (l.drop n).length = l.length - n := List.length_drop
          rw [ih f2 (l.drop n) (by omega) (by omega)]

theorem W_cutMsb_nil (n : Nat) : cutMsb n [] = [] := by
  simp [cutMsb, cutAux]

theorem W_cutMsb_cons (n : Nat) (hn : n ≠ 0) (l : Bits) (hl : l ≠ []) :
    cutMsb n l = l.take n :: cutMsb n (l.drop n) := by
  have hpos : 0 < l.length := List.length_pos_iff.mpr hl
  rw [show cutMsb n l = cutAux n (l.length + 1) l from rfl,
    show cutMsb n (l.drop n) = cutAux n ((l.drop n).length + 1) (l.drop n) from rfl]
  conv_lhs => simp only [cutAux]
  have h0 : (l.take n).length ≠ 0 := by rw [List.length_take]; omega
  rw [if_neg h0]
  by_cases hcn : (l.take n).length ≠ n
  · rw [if_pos hcn]
    rw [List.length_take] at hcn
    have : l.drop n = [] := List.drop_eq_nil_of_le (by omega)
    rw [this]
    simp [cutAux]
  · rw [if_neg hcn]
    have hd : (l.drop n).length = l.length - n := List.length_drop
    rw [W_cutAux_fuel n hn l.length ((l.drop n).length + 1) (l.drop n) (by omega) (by omega)]

theorem W_cutMsb_induct (n : Nat) (hn : n ≠ 0) (P : Bits → Prop) (h0 : P [])
    (hs : ∀ l, l ≠ [] → P (l.drop n) → P l) : ∀ l, P l := by
  intro l
  generalize hk : l.length = k
  induction k using Nat.strong_induction_on generalizing l with
  | _ k ih =>
    by_cases hl : l = []
    · subst hl; exact h0
    · apply hs l hl
      have hpos : 0 < l.length := List.length_pos_iff.mpr hl
      have hd : (l.drop n).length = l.length - n := List.length_drop
      exact ih (l.drop n).length (by omega) (l.drop n) rfl

/-- The shape of a chunk list: all that the width theorems need to know about `cut n l` (`L = l.length`). -/
structure W_CutOK (n L : Nat) (cs : List Bits) : Prop where
  size : ∀ g ∈ cs, 0 < g.length ∧ g.length ≤ n ∧ g.length ≤ L ∧ (g.length = n ∨ g.length = L % n)
  sum : (cs.map List.length).sum = L
  count : cs.length = (L + n - 1) / n
  head : ∀ b0 rest, cs = b0 :: rest → b0.length = min n L

theorem W_cutMsb_ok (n : Nat) (hn : n ≠ 0) (l : Bits) : W_CutOK n l.length (cutMsb n l) := by
  induction l using W_cutMsb_induct n hn with
  | h0 =>
    rw [W_cutMsb_nil]
    refine ⟨by simp, by simp, ?_, by simp⟩
    simp only [List.length_nil, Nat.zero_add]
    rw [Nat.div_eq_of_lt (by omega)]
  | hs l hl ih =>
    have hpos : 0 < l.length := List.length_pos_iff.mpr hl
    have hd : (l.drop n).length = l.length - n := List.length_drop
    have ht : (l.take n).length = min n l.length := List.length_take
    rw [W_cutMsb_cons n hn l hl]
    rw [hd] at ih
    have hmod : n ≤ l.length → (l.length - n) % n = l.length % n := fun h => (Nat.mod_eq_sub_mod h).symm
    have hsz : ∀ g ∈ l.take n :: cutMsb n (l.drop n),
        0 < g.length ∧ g.length ≤ n ∧ g.length ≤ l.length ∧ (g.length = n ∨ g.length = l.length % n) := by
      intro g hg
      rcases List.mem_cons.mp hg with rfl | hg
      · rw [ht]
        refine ⟨by omega, by omega, by omega, ?_⟩
        rcases Nat.lt_or_ge l.length n with h | h
        · right; rw [Nat.mod_eq_of_lt h]; omega
        · left; omega
      · have := ih.size g hg
        rcases Nat.lt_or_ge l.length n with h | h
        · omega
        · rw [hmod h] at this; omega
    refine ⟨hsz, ?_, ?_, ?_⟩
    · simp only [List.map_cons, List.sum_cons, ih.sum, ht]; omega
    · simp only [List.length_cons, ih.count]
      rcases Nat.lt_or_ge l.length n with h | h
      · have : l.length - n = 0 := by omega
        rw [this, Nat.zero_add, Nat.div_eq_of_lt (by omega)]
        symm
        apply Nat.div_eq_of_lt_le <;> omega
      · have : l.length + n - 1 = (l.length - n + n - 1) + n := by omega
        rw [this, Nat.add_div_right _ (by omega)]
    · intro b0 rest hcs
      injection hcs with hb0 _
      subst hb0
      exact ht

theorem W_cut_ok (lsb0 : Bool) (n : Nat) (hn : n ≠ 0) (l : Bits) : W_CutOK n l.length (cut lsb0 n l) := by
  cases lsb0 with
  | false => simp only [cut, Bool.false_eq_true, if_false]; exact W_cutMsb_ok n hn l
  | true =>
    simp only [cut, if_true]
    have h := W_cutMsb_ok n hn l.reverse
    rw [List.length_reverse] at h
    refine ⟨?_, ?_, ?_, ?_⟩
    · intro g hg
      rcases List.mem_map.mp hg with ⟨g', hg', rfl⟩
      rw [List.length_reverse]; exact h.size g' hg'
    · rw [List.map_map]
      have : (List.length ∘ List.reverse : Bits → Nat) = List.length := by
        funext x; simp
      rw [this]; exact h.sum
    · rw [List.length_map]; exact h.count
    · intro b0 rest hcs
      cases hc : cutMsb n l.reverse with
      | nil => rw [hc] at hcs; simp at hcs
      | cons c0 cr =>
        rw [hc] at hcs
        simp only [List.map_cons] at hcs
        injection hcs with hb0 _
        subst hb0
        simp only [List.length_reverse]
        exact h.head c0 cr hc

/-! ## decimal length -/

theorem W_natDecAux_length : ∀ (fuel n : Nat) (acc : Str), n < fuel →
    (natDecAux fuel n acc).length = acc.length + Nat.log 10 n + 1 := by
  intro fuel
  induction fuel with
  | zero => intro n acc h; omega
  | succ fuel ih =>
    intro n acc h
    simp only [natDecAux]
    by_cases hn : n < 10
    · rw [if_pos hn, Nat.log_of_lt hn]; simp
    · rw [if_neg hn, ih (n / 10) _ (by omega), Nat.log_of_one_lt_of_le (by omega) (by omega : 10 ≤ n)]
      simp only [List.length_cons]; omega

theorem W_natDec_length (n : Nat) : (natDec n).length = Nat.log 10 n + 1 := by
  unfold natDec; rw [W_natDecAux_length _ _ _ (by omega)]; simp

theorem W_natDec_length_le {a b : Nat} (h : a ≤ b) : (natDec a).length ≤ (natDec b).length := by
  rw [W_natDec_length, W_natDec_length]
  have := Nat.log_mono_right (b := 10) h
  omega

/-! ## digits -/

theorem W_binDigits_length : ∀ b : Bits, (binDigits b).length = b.length
  | [] => rfl
  | _ :: t => by simp [binDigits, W_binDigits_length t]

theorem W_octDigits_length : ∀ b : Bits, (octDigits b).length = b.length / 3
  | [] => rfl
  | [_] => by simp [octDigits]
  | [_, _] => by simp [octDigits]
  | _ :: _ :: _ :: t => by
    simp only [octDigits, List.length_cons, W_octDigits_length t]; omega

theorem W_hexDigits_length : ∀ b : Bits, (hexDigits b).length = b.length / 4
  | [] => rfl
  | [_] => by simp [hexDigits]
  | [_, _] => by simp [hexDigits]
  | [_, _, _] => by simp [hexDigits]
  | _ :: _ :: _ :: _ :: t => by
    simp only [hexDigits, List.length_cons, W_hexDigits_length t]; omega

theorem W_digits_length (f : Fmt) (b : Bits) : (digits f b).length = b.length / f.bpc := by
  cases f
  · simp [digits, Fmt.bpc, W_binDigits_length]
  · simp [digits, Fmt.bpc, W_octDigits_length]
  · simp [digits, Fmt.bpc, W_hexDigits_length]

theorem W_b2c (f : Fmt) (n : Nat) : f.b2c n = n / f.bpc := by
  cases f <;> simp [Fmt.b2c, Fmt.bpc]

theorem W_bpc_pos (f : Fmt) : 0 < f.bpc := by cases f <;> decide

theorem W_bitsPerChar (f : Fmt) : bitsPerChar f = f.bpc := by cases f <;> decide

theorem W_bpc_dvd_24 (f : Fmt) : 24 % f.bpc = 0 := by cases f <;> decide

/-! ## padding, joining -/

theorem W_padRight_length (n : Nat) (s : Str) : (padRight n s).length = max n s.length := by
  simp [padRight]; omega

theorem W_padLeft_length (n : Nat) (s : Str) : (padLeft n s).length = max n s.length := by
  simp [padLeft]; omega

theorem W_joinSep_length (sep : Str) (n : Nat) : ∀ l : List Str, (∀ s ∈ l, s.length = n) →
    (joinSep sep l).length = l.length * n + (l.length - 1) * sep.length
  | [], _ => by simp [joinSep]
  | [a], h => by simp [joinSep, h a]
  | a :: b :: t, h => by
    have ih := W_joinSep_length sep n (b :: t) (fun s hs => h s (List.mem_cons_of_mem _ hs))
    have ha := h a (List.mem_cons_self ..)
    simp only [joinSep, List.length_append, ih, ha, List.length_cons]
    simp only [Nat.add_sub_cancel, Nat.add_mul, Nat.one_mul]
    omega

/-! ## `mapE` -/

theorem W_mapE_ok {α β} (f : α → Except Err β) : ∀ (l : List α) (r : List β), mapE f l = .ok r →
    r.length = l.length ∧ (∀ y ∈ r, ∃ x ∈ l, f x = .ok y) ∧ (∀ x ∈ l, ∃ y ∈ r, f x = .ok y)
  | [], r, h => by
    simp only [mapE, Except.ok.injEq] at h; subst h; simp
  | a :: t, r, h => by
    simp only [mapE] at h
    cases hfa : f a with
    | error e => rw [hfa] at h; simp at h
    | ok b =>
      rw [hfa] at h
      cases ht : mapE f t with
      | error e => rw [ht] at h; simp at h
      | ok bs =>
        rw [ht] at h
        simp only [Except.ok.injEq] at h; subst h
        have ih := W_mapE_ok f t bs ht
        refine ⟨by simp [ih.1], ?_, ?_⟩
        · intro y hy
          rcases List.mem_cons.mp hy with rfl | hy
          · exact ⟨a, List.mem_cons_self .., hfa⟩
          · obtain ⟨x, hx, hfx⟩ := ih.2.1 y hy
            exact ⟨x, List.mem_cons_of_mem _ hx, hfx⟩
        · intro x hx
          rcases List.mem_cons.mp hx with rfl | hx
          · exact ⟨b, List.mem_cons_self .., hfa⟩
          · obtain ⟨y, hy, hfx⟩ := ih.2.2 x hx
            exact ⟨y, List.mem_cons_of_mem _ hy, hfx⟩

theorem W_mapE_error {α β} (f : α → Except Err β) : ∀ (l : List α) (e : Err), mapE f l = .error e →
    ∃ x ∈ l, f x = .error e
  | [], e, h => by simp [mapE] at h
  | a :: t, e, h => by
    simp only [mapE] at h
    cases hfa : f a with
    | error e' =>
      rw [hfa] at h; simp only [Except.error.injEq] at h; subst h
      exact ⟨a, List.mem_cons_self .., hfa⟩
    | ok b =>
      rw [hfa] at h
      cases ht : mapE f t with
      | error e' =>
        rw [ht] at h; simp only [Except.error.injEq] at h; subst h
        obtain ⟨x, hx, hfx⟩ := W_mapE_error f t e' ht
        exact ⟨x, List.mem_cons_of_mem _ hx, hfx⟩
      | ok bs => rw [ht] at h; simp at h

theorem W_mapE_succeeds {α β} (f : α → Except Err β) : ∀ (l : List α), (∀ x ∈ l, ∃ y, f x = .ok y) →
    ∃ r, mapE f l = .ok r
  | [], _ => ⟨[], rfl⟩
  | a :: t, h => by
    obtain ⟨b, hb⟩ := h a (List.mem_cons_self ..)
    obtain ⟨bs, hbs⟩ := W_mapE_succeeds f t (fun x hx => h x (List.mem_cons_of_mem _ hx))
    exact ⟨b :: bs, by simp [mapE, hb, hbs]⟩

/-! ## `formatBits` -/

/-- number of groups of a chunk of `len` bits -/
def W_ng (bpg len : Nat) : Nat := if bpg = 0 then 1 else (len + bpg - 1) / bpg

/-- length of the text of a chunk of `len` bits -/
def W_xl (f : Fmt) (bpg S len : Nat) : Nat :=
  if bpg = 0 then len / f.bpc else W_ng bpg len * f.b2c bpg + (W_ng bpg len - 1) * S

theorem W_getDigits_ok {f : Fmt} {b : Bits} {d : Str} (h : getDigits f b = .ok d) :
    b.length % f.bpc = 0 ∧ d = digits f b := by
  unfold getDigits at h
  by_cases hm : b.length % f.bpc ≠ 0
  · rw [if_pos hm] at h; simp at h
  · rw [if_neg hm] at h
    simp only [Except.ok.injEq] at h
    exact ⟨by omega, h.symm⟩

theorem W_getDigits_error {f : Fmt} {b : Bits} {e : Err} (h : getDigits f b = .error e) : e = .value := by
  unfold getDigits at h
  by_cases hm : b.length % f.bpc ≠ 0
  · rw [if_pos hm] at h; simp only [Except.error.injEq] at h; exact h.symm
  · rw [if_neg hm] at h; simp at h

theorem W_formatBits_error {lsb0 : Bool} {bits : Bits} {bpg : Nat} {sep : Str} {f : Fmt} {e : Err}
    (h : formatBits lsb0 bits bpg sep f = .error e) : e = .value := by
  unfold formatBits at h
  by_cases hb : bpg = 0
  · rw [if_pos hb] at h
    cases hg : getDigits f bits with
    | error e' => rw [hg] at h; simp only [Except.error.injEq] at h; subst h; exact W_getDigits_error hg
    | ok d => rw [hg] at h; simp at h
  · rw [if_neg hb] at h
    cases hg : mapE (getDigits f) (cut lsb0 bpg bits) with
    | error e' =>
      rw [hg] at h; simp only [Except.error.injEq] at h; subst h
      obtain ⟨x, _, hx⟩ := W_mapE_error _ _ _ hg
      exact W_getDigits_error hx
    | ok d => rw [hg] at h; simp at h

theorem W_formatBits_zero {lsb0 : Bool} {bits : Bits} {sep : Str} {f : Fmt} {fb : Fb}
    (h : formatBits lsb0 bits 0 sep f = .ok fb) :
    bits.length % f.bpc = 0 ∧ fb.groups = [digits f bits] ∧ fb.x = digits f bits := by
  unfold formatBits at h
  rw [if_pos rfl] at h
  cases hg : getDigits f bits with
  | error e' => rw [hg] at h; simp at h
  | ok d =>
    rw [hg] at h; simp only [Except.ok.injEq] at h; subst h
    obtain ⟨h1, h2⟩ := W_getDigits_ok hg
    exact ⟨h1, by rw [h2], h2⟩

theorem W_formatBits_pos {lsb0 : Bool} {bits : Bits} {bpg : Nat} {sep : Str} {f : Fmt} {fb : Fb}
    (hb : bpg ≠ 0) (h : formatBits lsb0 bits bpg sep f = .ok fb) :
    fb.groups.length = (bits.length + bpg - 1) / bpg ∧
    fb.x = joinSep sep (fb.groups.map (if lsb0 then padLeft (f.b2c bpg) else padRight (f.b2c bpg))) ∧
    (∀ g ∈ fb.groups, g.length ≤ f.b2c bpg ∧ ∃ b, g = digits f b) ∧
    (bits ≠ [] → 1 ≤ f.b2c bpg) := by
  unfold formatBits at h
  rw [if_neg hb] at h
  cases hg : mapE (getDigits f) (cut lsb0 bpg bits) with
  | error e' => rw [hg] at h; simp at h
  | ok gs =>
    rw [hg] at h; simp only [Except.ok.injEq] at h; subst h
    obtain ⟨hlen, hmem, _⟩ := W_mapE_ok _ _ _ hg
    have hcut := W_cut_ok lsb0 bpg hb bits
    have hgrp : ∀ g ∈ gs, g.length ≤ f.b2c bpg ∧ ∃ b, g = digits f b := by
      intro g hg
      obtain ⟨b, hbm, hgb⟩ := hmem g hg
      obtain ⟨_, h2⟩ := W_getDigits_ok hgb
      refine ⟨?_, b, h2⟩
      rw [h2, W_digits_length, W_b2c]
      exact Nat.div_le_div_right (hcut.size b hbm).2.1
    refine ⟨by rw [hlen, hcut.count], rfl, hgrp, ?_⟩
    intro hne
    have hpos : 0 < bits.length := List.length_pos_iff.mpr hne
    have hc : 0 < (cut lsb0 bpg bits).length := by
      rw [hcut.count]; exact Nat.div_pos (by omega) (by omega)
    obtain ⟨b, hbm⟩ := List.exists_mem_of_length_pos hc
    obtain ⟨y, _, hy⟩ := (W_mapE_ok _ _ _ hg).2.2 b hbm
    obtain ⟨h1, _⟩ := W_getDigits_ok hy
    have hsz := hcut.size b hbm
    rw [W_b2c]
    have hbp := W_bpc_pos f
    have : f.bpc ≤ b.length := Nat.le_of_dvd hsz.1 (Nat.dvd_of_mod_eq_zero h1)
    exact Nat.div_pos (by omega) hbp

theorem W_formatBits_len {lsb0 : Bool} {bits : Bits} {bpg : Nat} {sep : Str} {f : Fmt} {fb : Fb}
    (h : formatBits lsb0 bits bpg sep f = .ok fb) :
    fb.groups.length = W_ng bpg bits.length ∧ fb.x.length = W_xl f bpg sep.length bits.length := by
  by_cases hb : bpg = 0
  · subst hb
    obtain ⟨_, h2, h3⟩ := W_formatBits_zero h
    simp [W_ng, W_xl, h2, h3, W_digits_length]
  · obtain ⟨h1, h2, h3, _⟩ := W_formatBits_pos hb h
    simp only [W_ng, W_xl, if_neg hb]
    refine ⟨h1, ?_⟩
    rw [h2, W_joinSep_length sep (f.b2c bpg), List.length_map, h1]
    intro s hs
    rcases List.mem_map.mp hs with ⟨g, hg, rfl⟩
    have := (h3 g hg).1
    cases lsb0
    · simp only [Bool.false_eq_true, if_false, W_padRight_length]; omega
    · simp only [if_true, W_padLeft_length]; omega

/-! ## `ppLoop` without its running state -/

def W_segs (c : PPCfg) (ow pos : Nat) (x1 : Str) (pad1 : Nat) (sec : Option (Str × Nat)) : List Seg :=
  let offs := if c.showOffset then offsetSegs c.colour c.lsb0 pos ow else []
  let s1 := fbSegs c.colour c.lsb0 .purple x1 pad1
  let s2 := match sec with
    | none => []
    | some (x2, pad2) => ⟨false, formatSep⟩ :: fbSegs c.colour c.lsb0 .blue x2 pad2
  if c.lsb0 then s1 ++ s2 ++ offs else offs ++ s1 ++ s2

/-- One line, given the field widths `W1`, `W2` of the two columns. -/
def W_line (c : PPCfg) (ow W1 W2 : Nat) (bits : Bits) (pos : Nat) : Except Err Line :=
  match formatBits c.lsb0 bits c.bpg c.sep c.f1 with
  | .error e => .error e
  | .ok fb1 =>
    match c.f2 with
    | none => .ok ⟨fb1.groups, none, W_segs c ow pos fb1.x (W1 - fb1.x.length) none⟩
    | some f2 =>
      match formatBits c.lsb0 bits c.bpg c.sep f2 with
      | .error e => .error e
      | .ok fb2 =>
        .ok ⟨fb1.groups, some fb2.groups,
          W_segs c ow pos fb1.x (W1 - fb1.x.length) (some (fb2.x, W2 - fb2.x.length))⟩

def W_loop (c : PPCfg) (ow W1 W2 : Nat) : List Bits → Nat → Except Err (List Line)
  | [], _ => .ok []
  | b :: rest, pos =>
    match W_line c ow W1 W2 b pos with
    | .error e => .error e
    | .ok ln =>
      match W_loop c ow W1 W2 rest (pos + b.length) with
      | .error e => .error e
      | .ok ls => .ok (ln :: ls)

/-- The field width of a column: the text length of the first chunk (unless already fixed). -/
def W_fw (c : PPCfg) (f : Option Fmt) (chunks : List Bits) (fw : Option Nat) : Nat :=
  match fw with
  | some w => w
  | none =>
    match f, chunks with
    | some f, b :: _ =>
      (match formatBits c.lsb0 b c.bpg c.sep f with
       | .ok fb => fb.x.length
       | .error _ => 0)
    | _, _ => 0

theorem W_ppLoop_eq (c : PPCfg) (ow : Nat) : ∀ (chunks : List Bits) (bitpos : Nat) (fw1 fw2 : Option Nat),
    ppLoop c ow chunks bitpos fw1 fw2
      = W_loop c ow (W_fw c (some c.f1) chunks fw1) (W_fw c c.f2 chunks fw2) chunks bitpos := by
  intro chunks
  induction chunks with
  | nil => intro bitpos fw1 fw2; simp [ppLoop, W_loop]
  | cons bits rest ih =>
    intro bitpos fw1 fw2
    simp only [ppLoop, W_loop, W_line]
    cases h1 : formatBits c.lsb0 bits c.bpg c.sep c.f1 with
    | error e => simp
    | ok fb1 =>
      cases hf2 : c.f2 with
      | none =>
        simp only []
        rw [ih, hf2]
        cases fw1 <;> cases fw2 <;> simp [W_fw, h1, W_segs] <;> rfl
      | some f2 =>
        simp only []
        cases h2 : formatBits c.lsb0 bits c.bpg c.sep f2 with
        | error e => simp
        | ok fb2 =>
          simp only []
          rw [ih, hf2]
          cases fw1 <;> cases fw2 <;> simp [W_fw, h1, h2, W_segs] <;> rfl

/-! ## what the segments of a line show -/

def W_vis (segs : List Seg) : Str := (segs.filter fun s => !s.esc).flatMap (·.text)
def W_emit (segs : List Seg) : Str := segs.flatMap (·.text)

theorem W_visible_eq (ln : Line) : ln.visible = W_vis ln.segs := rfl
theorem W_emitted_eq (ln : Line) : ln.emitted = W_emit ln.segs := rfl

def W_secLen : Option (Str × Nat) → Nat
  | none => 0
  | some (x2, pad2) => 3 + x2.length + pad2

theorem W_segs_vis_length (c : PPCfg) (ow pos : Nat) (x1 : Str) (pad1 : Nat) (sec : Option (Str × Nat)) :
    (W_vis (W_segs c ow pos x1 pad1 sec)).length
      = (if c.showOffset then max (ow - 2) (natDec pos).length + 2 else 0) + x1.length + pad1 + W_secLen sec := by
  rcases c with ⟨f1, f2, bpg, width, sep, so, lsb0, colour⟩
  rcases sec with _ | ⟨x2, pad2⟩ <;> cases lsb0 <;> cases so <;>
    simp [W_segs, W_vis, fbSegs, offsetSegs, ink, W_secLen, formatSep, W_padLeft_length, W_padRight_length] <;> omega

theorem W_segs_vis_text (c : PPCfg) (ow pos : Nat) (x1 : Str) (pad1 : Nat) (sec : Option (Str × Nat)) :
    ∃ pre post, W_vis (W_segs c ow pos x1 pad1 sec) = pre ++ x1 ++ post := by
  rcases c with ⟨f1, f2, bpg, width, sep, so, lsb0, colour⟩
  cases lsb0
  · refine ⟨if so then padLeft (ow - 2) (natDec pos) ++ [':', ' '] else [], List.replicate pad1 ' ' ++
      (match sec with | none => [] | some (x2, pad2) => formatSep ++ x2 ++ List.replicate pad2 ' '), ?_⟩
    rcases sec with _ | ⟨x2, pad2⟩ <;> cases so <;>
      simp [W_segs, W_vis, fbSegs, offsetSegs, ink]
  · refine ⟨List.replicate pad1 ' ', (match sec with | none => [] | some (x2, pad2) => formatSep ++ List.replicate pad2 ' ' ++ x2) ++
      (if so then [' ', ':'] ++ padRight (ow - 2) (natDec pos) else []), ?_⟩
    rcases sec with _ | ⟨x2, pad2⟩ <;> cases so <;>
      simp [W_segs, W_vis, fbSegs, offsetSegs, ink]

theorem W_segs_vis_colour (c : PPCfg) (ow pos : Nat) (x1 : Str) (pad1 : Nat) (sec : Option (Str × Nat)) :
    W_vis (W_segs c ow pos x1 pad1 sec) = W_vis (W_segs { c with colour := false } ow pos x1 pad1 sec) := by
  rcases c with ⟨f1, f2, bpg, width, sep, so, lsb0, colour⟩
  rcases sec with _ | ⟨x2, pad2⟩ <;> cases lsb0 <;> cases so <;>
    simp [W_segs, W_vis, fbSegs, offsetSegs, ink]

theorem W_segs_emit_nocolour (c : PPCfg) (hc : c.colour = false) (ow pos : Nat) (x1 : Str) (pad1 : Nat)
    (sec : Option (Str × Nat)) :
    W_emit (W_segs c ow pos x1 pad1 sec) = W_vis (W_segs c ow pos x1 pad1 sec) := by
  rcases c with ⟨f1, f2, bpg, width, sep, so, lsb0, colour⟩
  simp only at hc; subst hc
  rcases sec with _ | ⟨x2, pad2⟩ <;> cases lsb0 <;> cases so <;>
    simp [W_segs, W_vis, W_emit, fbSegs, offsetSegs, ink]

/-- Characters of the visible text. -/
theorem W_segs_vis_mem (c : PPCfg) (ow pos : Nat) (x1 : Str) (pad1 : Nat) (sec : Option (Str × Nat)) (ch : Char)
    (h : ch ∈ W_vis (W_segs c ow pos x1 pad1 sec)) :
    ch = ' ' ∨ ch = ':' ∨ ch ∈ natDec pos ∨ ch ∈ x1 ∨ (∃ x2 pad2, sec = some (x2, pad2) ∧ ch ∈ x2) := by
  rcases c with ⟨f1, f2, bpg, width, sep, so, lsb0, colour⟩
  rcases sec with _ | ⟨x2, pad2⟩ <;> cases lsb0 <;> cases so <;>
    simp [W_segs, W_vis, fbSegs, offsetSegs, ink, formatSep, padLeft, padRight] at h ⊢ <;> tauto

/-! ## `W_line`, `W_loop` -/

/-- The second column of a line, as `W_segs` wants it. -/
def W_sec (c : PPCfg) (W2 : Nat) (bits : Bits) : Option (Str × Nat) :=
  match c.f2 with
  | none => none
  | some f2 =>
    match formatBits c.lsb0 bits c.bpg c.sep f2 with
    | .ok fb2 => some (fb2.x, W2 - fb2.x.length)
    | .error _ => none

theorem W_line_ok {c : PPCfg} {ow W1 W2 : Nat} {bits : Bits} {pos : Nat} {ln : Line}
    (h : W_line c ow W1 W2 bits pos = .ok ln) :
    ∃ fb1, formatBits c.lsb0 bits c.bpg c.sep c.f1 = .ok fb1 ∧ ln.groups1 = fb1.groups ∧
      ln.segs = W_segs c ow pos fb1.x (W1 - fb1.x.length) (W_sec c W2 bits) ∧
      (c.f2 = none → ln.groups2 = none) ∧
      (∀ f2, c.f2 = some f2 → ∃ fb2, formatBits c.lsb0 bits c.bpg c.sep f2 = .ok fb2 ∧
        ln.groups2 = some fb2.groups ∧ W_sec c W2 bits = some (fb2.x, W2 - fb2.x.length)) := by
  unfold W_line at h
  cases h1 : formatBits c.lsb0 bits c.bpg c.sep c.f1 with
  | error e => rw [h1] at h; simp at h
  | ok fb1 =>
    rw [h1] at h
    refine ⟨fb1, rfl, ?_⟩
    cases hf2 : c.f2 with
    | none =>
      rw [hf2] at h
      simp only [Except.ok.injEq] at h; subst h
      simp [W_sec, hf2]
    | some f2 =>
      rw [hf2] at h
      simp only at h
      cases h2 : formatBits c.lsb0 bits c.bpg c.sep f2 with
      | error e => rw [h2] at h; simp at h
      | ok fb2 =>
        rw [h2] at h
        simp only [Except.ok.injEq] at h; subst h
        simp [W_sec, hf2, h2]

theorem W_line_error {c : PPCfg} {ow W1 W2 : Nat} {bits : Bits} {pos : Nat} {e : Err}
    (h : W_line c ow W1 W2 bits pos = .error e) : e = .value := by
  unfold W_line at h
  cases h1 : formatBits c.lsb0 bits c.bpg c.sep c.f1 with
  | error e' => rw [h1] at h; simp only [Except.error.injEq] at h; subst h; exact W_formatBits_error h1
  | ok fb1 =>
    rw [h1] at h
    cases hf2 : c.f2 with
    | none => rw [hf2] at h; simp at h
    | some f2 =>
      rw [hf2] at h
      simp only at h
      cases h2 : formatBits c.lsb0 bits c.bpg c.sep f2 with
      | error e' => rw [h2] at h; simp only [Except.error.injEq] at h; subst h; exact W_formatBits_error h2
      | ok fb2 => rw [h2] at h; simp at h

theorem W_line_succeeds {c : PPCfg} (ow W1 W2 : Nat) {bits : Bits} (pos : Nat)
    (h1 : ∃ fb, formatBits c.lsb0 bits c.bpg c.sep c.f1 = .ok fb)
    (h2 : ∀ f2, c.f2 = some f2 → ∃ fb, formatBits c.lsb0 bits c.bpg c.sep f2 = .ok fb) :
    ∃ ln, W_line c ow W1 W2 bits pos = .ok ln := by
  obtain ⟨fb1, h1⟩ := h1
  unfold W_line
  rw [h1]
  cases hf2 : c.f2 with
  | none => exact ⟨_, rfl⟩
  | some f2 =>
    obtain ⟨fb2, h2⟩ := h2 f2 hf2
    simp only [h2]
    exact ⟨_, rfl⟩

theorem W_loop_ok {c : PPCfg} {ow W1 W2 : Nat} : ∀ (chunks : List Bits) (pos : Nat) (lines : List Line),
    W_loop c ow W1 W2 chunks pos = .ok lines →
    ∀ ln ∈ lines, ∃ b p, b ∈ chunks ∧ p + b.length ≤ pos + (chunks.map List.length).sum ∧
      W_line c ow W1 W2 b p = .ok ln
  | [], pos, lines, h => by
    simp only [W_loop, Except.ok.injEq] at h; subst h; simp
  | b :: rest, pos, lines, h => by
    simp only [W_loop] at h
    cases hl : W_line c ow W1 W2 b pos with
    | error e => rw [hl] at h; simp at h
    | ok l0 =>
      rw [hl] at h
      cases hr : W_loop c ow W1 W2 rest (pos + b.length) with
      | error e => rw [hr] at h; simp at h
      | ok ls =>
        rw [hr] at h
        simp only [Except.ok.injEq] at h; subst h
        intro ln hln
        rcases List.mem_cons.mp hln with rfl | hln
        · exact ⟨b, pos, List.mem_cons_self .., by simp, hl⟩
        · obtain ⟨b', p, hb', hp, hl'⟩ := W_loop_ok rest _ ls hr ln hln
          refine ⟨b', p, List.mem_cons_of_mem _ hb', ?_, hl'⟩
          simp only [List.map_cons, List.sum_cons]; omega

theorem W_loop_error {c : PPCfg} {ow W1 W2 : Nat} : ∀ (chunks : List Bits) (pos : Nat) (e : Err),
    W_loop c ow W1 W2 chunks pos = .error e → e = .value
  | [], pos, e, h => by simp [W_loop] at h
  | b :: rest, pos, e, h => by
    simp only [W_loop] at h
    cases hl : W_line c ow W1 W2 b pos with
    | error e' => rw [hl] at h; simp only [Except.error.injEq] at h; subst h; exact W_line_error hl
    | ok l0 =>
      rw [hl] at h
      cases hr : W_loop c ow W1 W2 rest (pos + b.length) with
      | error e' =>
        rw [hr] at h; simp only [Except.error.injEq] at h; subst h
        exact W_loop_error rest _ _ hr
      | ok ls => rw [hr] at h; simp at h

theorem W_loop_succeeds {c : PPCfg} {ow W1 W2 : Nat} : ∀ (chunks : List Bits) (pos : Nat),
    (∀ b ∈ chunks, ∀ p, ∃ ln, W_line c ow W1 W2 b p = .ok ln) → ∃ lines, W_loop c ow W1 W2 chunks pos = .ok lines
  | [], pos, _ => ⟨[], rfl⟩
  | b :: rest, pos, h => by
    obtain ⟨l0, hl⟩ := h b (List.mem_cons_self ..) pos
    obtain ⟨ls, hr⟩ := W_loop_succeeds rest (pos + b.length) (fun x hx => h x (List.mem_cons_of_mem _ hx))
    exact ⟨l0 :: ls, by simp [W_loop, hl, hr]⟩

/-! ## unrolling `ppLines` and `pp` -/

theorem W_ppLines_ok {c : PPCfg} {data : Bits} {lines : List Line} (h : ppLines c data = .ok lines) :
    ∃ m, maxBitsPerLine c (offsetWidth c data) = .ok m ∧ m ≠ 0 ∧
      W_loop c (offsetWidth c data) (W_fw c (some c.f1) (cut c.lsb0 m data) none)
        (W_fw c c.f2 (cut c.lsb0 m data) none) (cut c.lsb0 m data) 0 = .ok lines := by
  unfold ppLines at h
  simp only at h
  cases hm : maxBitsPerLine c (offsetWidth c data) with
  | error e => rw [hm] at h; simp at h
  | ok m =>
    rw [hm] at h
    simp only at h
    by_cases h0 : m = 0
    · rw [if_pos h0] at h; simp at h
    · rw [if_neg h0, W_ppLoop_eq] at h
      exact ⟨m, rfl, h0, h⟩

theorem W_ppLines_error {c : PPCfg} {data : Bits} {e : Err} {m : Nat}
    (hm : maxBitsPerLine c (offsetWidth c data) = .ok m) (h0 : m ≠ 0) (h : ppLines c data = .error e) :
    e = .value := by
  unfold ppLines at h
  simp only at h
  rw [hm] at h
  simp only at h
  rw [if_neg h0, W_ppLoop_eq] at h
  exact W_loop_error _ _ _ h

theorem W_ppLines_succeeds {c : PPCfg} {data : Bits} {m : Nat}
    (hm : maxBitsPerLine c (offsetWidth c data) = .ok m) (h0 : m ≠ 0)
    (h1 : ∀ b ∈ cut c.lsb0 m data, ∃ fb, formatBits c.lsb0 b c.bpg c.sep c.f1 = .ok fb)
    (h2 : ∀ f2, c.f2 = some f2 → ∀ b ∈ cut c.lsb0 m data, ∃ fb, formatBits c.lsb0 b c.bpg c.sep f2 = .ok fb) :
    ∃ lines, ppLines c data = .ok lines := by
  unfold ppLines
  simp only
  rw [hm]
  simp only
  rw [if_neg h0, W_ppLoop_eq]
  apply W_loop_succeeds
  intro b hb p
  exact W_line_succeeds _ _ _ _ (h1 b hb) (fun f2 hf2 => h2 f2 hf2 b hb)

/-- The bits `pp` prints as digits. -/
def W_data (a : PPArgs) (bpg : Nat) (hasLen : Bool) : Bits :=
  if trailingLen a.l.length bpg hasLen = 0 then a.l else dataPart a.lsb0 a.l (trailingLen a.l.length bpg hasLen)

theorem W_pp_ok {a : PPArgs} {lay : Layout} {bpg : Nat} {hasLen : Bool}
    (ht : processTokens a.t1 a.t2 = .ok (bpg, hasLen)) (h : pp a = .ok lay) :
    ppLines (cfgOf a bpg) (W_data a bpg hasLen) = .ok lay.lines ∧
    lay.trailing = (if trailingLen a.l.length bpg hasLen ≠ 0
      then some (strFormAlg a.lsb0 (trailingPart a.lsb0 a.l (trailingLen a.l.length bpg hasLen))) else none) := by
  unfold pp at h
  rw [ht] at h
  simp only at h
  cases hl : ppLines (cfgOf a bpg) (W_data a bpg hasLen) with
  | error e => unfold W_data at hl; rw [hl] at h; simp at h
  | ok lines =>
    unfold W_data at hl; rw [hl] at h
    simp only [Except.ok.injEq] at h; subst h
    exact ⟨rfl, rfl⟩

theorem W_data_length (a : PPArgs) (bpg : Nat) (hasLen : Bool) :
    (W_data a bpg hasLen).length = a.l.length - trailingLen a.l.length bpg hasLen ∧
    (W_data a bpg hasLen).length = (ppData a.lsb0 a.l (trailingLen a.l.length bpg hasLen)).length := by
  have ht : trailingLen a.l.length bpg hasLen ≤ a.l.length := by
    unfold trailingLen; split
    · exact Nat.mod_le _ _
    · omega
  unfold W_data ppData dataPart sliceAB
  by_cases h0 : trailingLen a.l.length bpg hasLen = 0
  · rw [if_pos h0, h0]; cases a.lsb0 <;> simp
  · rw [if_neg h0]
    cases a.lsb0 <;> simp
    omega

/-! ## `processTokens` -/

theorem W_defaultGroup_chars : ∀ f : Fmt, 0 < f.b2c (defaultGroup f) := by
  intro f; cases f <;> decide

theorem W_b2c_pos (f : Fmt) (n : Nat) (hn : n ≠ 0) (hm : n % f.bpc = 0) : 0 < f.b2c n := by
  rw [W_b2c]
  have := W_bpc_pos f
  exact Nat.div_pos (Nat.le_of_dvd (by omega) (Nat.dvd_of_mod_eq_zero hm)) this

theorem W_pair_chars (f1 f2 : Fmt) :
    0 < f1.b2c (if 2 * bitsPerChar f1 * bitsPerChar f2 ≥ 24 then 2 * bitsPerChar f1 * bitsPerChar f2 / 2
      else 2 * bitsPerChar f1 * bitsPerChar f2) := by
  cases f1 <;> cases f2 <;> decide

theorem W_mkDtype_error {t : Tok} {e : Err} (h : mkDtype t = .error e) : e = .value := by
  unfold mkDtype at h
  split at h
  · simp at h
  · split at h
    · simp only [Except.error.injEq] at h; exact h.symm
    · simp at h

theorem W_mkDtype_ok {t : Tok} (h : mkDtype t = .ok ()) : ∀ n, t.len = some n → n % t.fmt.bpc = 0 := by
  intro n hn
  unfold mkDtype at h
  rw [hn] at h
  simp only at h
  split at h
  · simp at h
  · omega

theorem W_processTokens_error {t1 : Tok} {t2 : Option Tok} {e : Err}
    (h : processTokens t1 t2 = .error e) : e = .value := by
  unfold processTokens at h
  cases h1 : mkDtype t1 with
  | error e' => rw [h1] at h; simp only [Except.error.injEq] at h; subst h; exact W_mkDtype_error h1
  | ok u =>
    rw [h1] at h
    simp only at h
    rcases t2 with _ | u2
    · simp only at h
      rcases hl1 : t1.len with _ | n
      · rw [hl1] at h
        simp only at h
        split at h
        · simp only [Except.error.injEq] at h; exact h.symm
        · simp at h
      · rw [hl1] at h
        simp at h
    · simp only at h
      cases h2 : mkDtype u2 with
      | error e' => rw [h2] at h; simp only [Except.error.injEq] at h; subst h; exact W_mkDtype_error h2
      | ok u' =>
        rw [h2] at h
        simp only at h
        rcases hl1 : t1.len with _ | n <;> rcases hl2 : u2.len with _ | m <;> rw [hl1, hl2] at h <;> simp only at h
        · simp at h
        · simp at h
        · simp at h
        · by_cases hnm : n ≠ m
          · rw [if_pos hnm] at h
            simp only [Except.error.injEq] at h; exact h.symm
          · rw [if_neg hnm] at h
            simp at h

theorem W_processTokens_chars {t1 : Tok} {t2 : Option Tok} {bpg : Nat} {hasLen : Bool}
    (h : processTokens t1 t2 = .ok (bpg, hasLen)) (hb : bpg ≠ 0) :
    0 < t1.fmt.b2c bpg ∨ ∃ u, t2 = some u ∧ 0 < u.fmt.b2c bpg := by
  unfold processTokens at h
  cases h1 : mkDtype t1 with
  | error e' => rw [h1] at h; simp at h
  | ok u =>
    rw [h1] at h
    have hd1 := W_mkDtype_ok h1
    simp only at h
    rcases t2 with _ | u2
    · simp only at h
      rcases hl1 : t1.len with _ | n
      · rw [hl1] at h
        simp only at h
        split at h
        · simp at h
        · simp only [Except.ok.injEq, Prod.mk.injEq] at h
          left; rw [← h.1]; exact W_defaultGroup_chars _
      · rw [hl1] at h
        simp only [Except.ok.injEq, Prod.mk.injEq] at h
        left; rw [← h.1] at hb ⊢; exact W_b2c_pos _ _ hb (hd1 n hl1)
    · simp only at h
      cases h2 : mkDtype u2 with
      | error e' => rw [h2] at h; simp at h
      | ok u' =>
        rw [h2] at h
        have hd2 := W_mkDtype_ok h2
        simp only at h
        rcases hl1 : t1.len with _ | n <;> rcases hl2 : u2.len with _ | m <;> rw [hl1, hl2] at h <;> simp only at h
        · simp only [Except.ok.injEq, Prod.mk.injEq] at h
          left; rw [← h.1]; exact W_pair_chars _ _
        · simp only [Except.ok.injEq, Prod.mk.injEq] at h
          right; refine ⟨u2, rfl, ?_⟩
          rw [← h.1] at hb ⊢; exact W_b2c_pos _ _ hb (hd2 m hl2)
        · simp only [Except.ok.injEq, Prod.mk.injEq] at h
          left; rw [← h.1] at hb ⊢; exact W_b2c_pos _ _ hb (hd1 n hl1)
        · by_cases hnm : n ≠ m
          · rw [if_pos hnm] at h
            simp at h
          · rw [if_neg hnm] at h
            simp only [Except.ok.injEq, Prod.mk.injEq] at h
            left; rw [← h.1] at hb ⊢; exact W_b2c_pos _ _ hb (hd1 n hl1)

/-! ## `maxBitsPerLine` -/

def W_gc2 (c : PPCfg) : Nat := match c.f2 with | none => 0 | some f => f.b2c c.bpg
def W_b2 (c : PPCfg) : Nat := if W_gc2 c ≠ 0 then 1 else 0
def W_total (c : PPCfg) : Nat := c.f1.b2c c.bpg + W_gc2 c + c.sep.length + c.sep.length * W_b2 c
def W_wex (c : PPCfg) (ow : Nat) : Nat := c.width - ow - c.f1.b2c c.bpg - W_gc2 c - 3 * W_b2 c

theorem W_maxBits_grouped (c : PPCfg) (ow : Nat) (hb : c.bpg ≠ 0) (ht : W_total c ≠ 0) :
    maxBitsPerLine c ow = .ok ((1 + W_wex c ow / W_total c) * c.bpg) := by
  unfold maxBitsPerLine
  rw [if_pos (by omega)]
  show Except.ok ((1 + (if W_total c = 0 then 0 else W_wex c ow / W_total c)) * c.bpg) = _
  rw [if_neg ht]

theorem W_c24_ne (f1 f2 : Fmt) : f1.b2c 24 + f2.b2c 24 ≠ 0 := by
  cases f1 <;> cases f2 <;> decide

theorem W_maxBits_one (c : PPCfg) (ow : Nat) (hb : c.bpg = 0) (hf : c.f2 = none) :
    maxBitsPerLine c ow = .ok (max (c.width - ow) 1 * c.f1.bpc) := by
  unfold maxBitsPerLine
  rw [if_neg (by omega)]
  simp [hf, W_bitsPerChar]

theorem W_maxBits_two (c : PPCfg) (ow : Nat) (hb : c.bpg = 0) (f2 : Fmt) (hf : c.f2 = some f2) :
    maxBitsPerLine c ow = .ok (if 24 * (max (c.width - ow - 3) 1 / (c.f1.b2c 24 + f2.b2c 24)) = 0 then 24
      else 24 * (max (c.width - ow - 3) 1 / (c.f1.b2c 24 + f2.b2c 24))) := by
  unfold maxBitsPerLine
  rw [if_neg (by omega)]
  simp only [hf, Option.isSome_some, if_true, formatSep, List.length_cons, List.length_nil, Nat.mul_one]
  rw [if_neg (W_c24_ne _ _)]

/-! ## the lines of `ppLines` -/

theorem W_xl_mono (f : Fmt) (bpg S : Nat) {l1 l2 : Nat} (h : l1 ≤ l2) : W_xl f bpg S l1 ≤ W_xl f bpg S l2 := by
  unfold W_xl W_ng
  by_cases hb : bpg = 0
  · simp only [if_pos hb]; exact Nat.div_le_div_right h
  · simp only [if_neg hb]
    have hk : (l1 + bpg - 1) / bpg ≤ (l2 + bpg - 1) / bpg := Nat.div_le_div_right (by omega)
    exact Nat.add_le_add (Nat.mul_le_mul_right _ hk) (Nat.mul_le_mul_right _ (Nat.sub_le_sub_right hk 1))

theorem W_off_len (c : PPCfg) (data : Bits) {p : Nat} (hp : p ≤ data.length) :
    (if c.showOffset then max (offsetWidth c data - 2) (natDec p).length + 2 else 0) = offsetWidth c data := by
  unfold offsetWidth
  have := W_natDec_length_le hp
  split <;> omega

theorem W_loop_head {c : PPCfg} {ow W1 W2 : Nat} {b : Bits} {rest : List Bits} {pos : Nat} {lines : List Line}
    (h : W_loop c ow W1 W2 (b :: rest) pos = .ok lines) : ∃ l0, W_line c ow W1 W2 b pos = .ok l0 := by
  simp only [W_loop] at h
  cases hl : W_line c ow W1 W2 b pos with
  | error e => rw [hl] at h; simp at h
  | ok l0 => exact ⟨l0, rfl⟩

/-- The visible length of every line (`L0` = the size of the first chunk). -/
def W_len (c : PPCfg) (data : Bits) (L0 : Nat) : Nat :=
  offsetWidth c data + W_xl c.f1 c.bpg c.sep.length L0 +
    (match c.f2 with | none => 0 | some f2 => 3 + W_xl f2 c.bpg c.sep.length L0)

theorem W_ppLines_lines {c : PPCfg} {data : Bits} {lines : List Line} (h : ppLines c data = .ok lines) :
    ∃ m, maxBitsPerLine c (offsetWidth c data) = .ok m ∧ m ≠ 0 ∧
      ∀ ln ∈ lines, ∃ b ∈ cut c.lsb0 m data, ∃ fb1, formatBits c.lsb0 b c.bpg c.sep c.f1 = .ok fb1 ∧
        ln.groups1 = fb1.groups ∧
        (∀ f2, c.f2 = some f2 → ∃ fb2, formatBits c.lsb0 b c.bpg c.sep f2 = .ok fb2 ∧
          ln.groups2 = some fb2.groups) ∧
        (c.f2 = none → ln.groups2 = none) ∧
        ln.visible.length = W_len c data (min m data.length) ∧
        ∃ p pad1 W2, ln.segs = W_segs c (offsetWidth c data) p fb1.x pad1 (W_sec c W2 b) := by
  obtain ⟨m, hm, hm0, hloop⟩ := W_ppLines_ok h
  refine ⟨m, hm, hm0, ?_⟩
  intro ln hln
  obtain ⟨b, p, hb, hp, hline⟩ := W_loop_ok _ _ _ hloop ln hln
  have hcut := W_cut_ok c.lsb0 m hm0 data
  rw [hcut.sum, Nat.zero_add] at hp
  cases hc : cut c.lsb0 m data with
  | nil => rw [hc] at hb; simp at hb
  | cons b0 rest =>
    have hb0 : b0.length = min m data.length := hcut.head b0 rest hc
    have hble : b.length ≤ b0.length := by
      have := hcut.size b hb; omega
    rw [hc] at hloop hline
    obtain ⟨l0, hl0⟩ := W_loop_head hloop
    obtain ⟨fb10, h10, -, -, -, h20⟩ := W_line_ok hl0
    obtain ⟨fb1, h1, hg1, hsegs, hn2, hs2⟩ := W_line_ok hline
    have hW1 : W_fw c (some c.f1) (b0 :: rest) none = W_xl c.f1 c.bpg c.sep.length b0.length := by
      simp only [W_fw, h10]; exact (W_formatBits_len h10).2
    refine ⟨b, hc ▸ hb, fb1, h1, hg1, ?_, hn2, ?_, _, _, _, hsegs⟩
    · intro f2 hf2
      obtain ⟨fb2, h2, hg2, _⟩ := hs2 f2 hf2
      exact ⟨fb2, h2, hg2⟩
    · rw [W_visible_eq, hsegs, W_segs_vis_length, W_off_len c data (by omega), hW1, (W_formatBits_len h1).2,
        W_len, ← hb0]
      have hmono := W_xl_mono c.f1 c.bpg c.sep.length hble
      cases hf2 : c.f2 with
      | none =>
        simp only [W_sec, hf2, W_secLen]
        omega
      | some f2 =>
        obtain ⟨fb2, h2, -, hsec⟩ := hs2 f2 hf2
        obtain ⟨fb20, h200, -, -⟩ := h20 f2 hf2
        have hW2 : W_fw c (some f2) (b0 :: rest) none = W_xl f2 c.bpg c.sep.length b0.length := by
          simp only [W_fw, h200]; exact (W_formatBits_len h200).2
        have hmono2 := W_xl_mono f2 c.bpg c.sep.length hble
        rw [hf2] at hsec
        rw [hsec]
        simp only [W_secLen, hW2, (W_formatBits_len h2).2]
        omega

/-! ## the width theorem -/

theorem W_maxBits_grouped_inv {c : PPCfg} {ow m : Nat} (hb : c.bpg ≠ 0) (h : maxBitsPerLine c ow = .ok m) :
    m = (1 + W_wex c ow / W_total c) * c.bpg := by
  unfold maxBitsPerLine at h
  rw [if_pos (by omega)] at h
  have h' : Except.ok ((1 + (if W_total c = 0 then 0 else W_wex c ow / W_total c)) * c.bpg) = Except.ok (ε := Err) m := h
  simp only [Except.ok.injEq] at h'
  rw [← h']
  by_cases ht : W_total c = 0
  · rw [if_pos ht, ht, Nat.div_zero]
  · rw [if_neg ht]

theorem W_arith1 (j q g S wex : Nat) (hj : j ≤ q) (hq : q * (g + S) ≤ wex) :
    (j + 1) * g + j * S ≤ g + wex := by
  have h := Nat.mul_le_mul_right (g + S) hj
  have e : j * (g + S) = j * g + j * S := Nat.mul_add ..
  rw [Nat.succ_mul]
  omega

theorem W_arith2 (j q g1 g2 S wex : Nat) (hj : j ≤ q) (hq : q * (g1 + g2 + S + S) ≤ wex) :
    (j + 1) * g1 + j * S + (3 + ((j + 1) * g2 + j * S)) ≤ g1 + g2 + 3 + wex := by
  have h := Nat.mul_le_mul_right (g1 + g2 + S + S) hj
  have e : j * (g1 + g2 + S + S) = j * g1 + j * g2 + j * S + j * S := by simp only [Nat.mul_add]
  rw [Nat.succ_mul, Nat.succ_mul]
  omega

theorem W_arith24 (f1 f2 : Fmt) (L0 wa : Nat) (hq : 24 * (wa / (f1.b2c 24 + f2.b2c 24)) ≠ 0)
    (hL : L0 ≤ 24 * (wa / (f1.b2c 24 + f2.b2c 24))) : L0 / f1.bpc + L0 / f2.bpc ≤ wa ∧ 2 ≤ wa := by
  cases f1 <;> cases f2 <;> simp [Fmt.b2c, Fmt.bpc] at * <;> omega

theorem W_ng_bounds {bpg L gpl : Nat} (hb : bpg ≠ 0) (hL0 : 0 < L) (hL : L ≤ gpl * bpg) :
    1 ≤ (L + bpg - 1) / bpg ∧ (L + bpg - 1) / bpg ≤ gpl := by
  constructor
  · exact Nat.div_pos (by omega) (by omega)
  · have : (L + bpg - 1) / bpg < gpl + 1 := by
      rw [Nat.div_lt_iff_lt_mul (by omega), Nat.succ_mul]; omega
    omega

theorem W_width {c : PPCfg} {data : Bits} {lines : List Line} (h : ppLines c data = .ok lines) :
    ∀ ln ∈ lines, ln.visible.length ≤ c.width ∨
      (if c.bpg ≠ 0 then ln.groups1.length = 1
       else match c.f2 with
         | none => ∃ ch, ln.groups1 = [[ch]]
         | some _ => ln.groups1.length = 1 ∧ ln.groups1.flatten.length * c.f1.bpc ≤ 24) := by
  obtain ⟨m, hm, hm0, hl⟩ := W_ppLines_lines h
  intro ln hln
  obtain ⟨b, hb, fb1, h1, hg1, hs2, -, hvis, -⟩ := hl ln hln
  have hcut := W_cut_ok c.lsb0 m hm0 data
  have hsz := hcut.size b hb
  have hbne : b ≠ [] := List.length_pos_iff.mp hsz.1
  have hL0 : 0 < min m data.length := by omega
  have hL0m : min m data.length ≤ m := by omega
  rw [hvis]
  generalize min m data.length = L0 at hL0 hL0m ⊢
  unfold W_len
  by_cases hbpg : c.bpg ≠ 0
  · -- grouped
    rw [if_pos hbpg]
    have hmeq := W_maxBits_grouped_inv hbpg hm
    obtain ⟨hlen1, -, -, hgc1⟩ := W_formatBits_pos hbpg h1
    have hgc1 := hgc1 hbne
    have ht : W_total c ≠ 0 := by unfold W_total; omega
    rw [hmeq] at hL0m
    obtain ⟨hk1, hk⟩ := W_ng_bounds hbpg hL0 hL0m
    obtain ⟨j, hj⟩ : ∃ j, (L0 + c.bpg - 1) / c.bpg = j + 1 := ⟨(L0 + c.bpg - 1) / c.bpg - 1, by omega⟩
    have hqT := Nat.div_mul_le_self (W_wex c (offsetWidth c data)) (W_total c)
    simp only [W_xl, W_ng, if_neg hbpg, hj, Nat.add_sub_cancel]
    rw [hj] at hk
    rw [hmeq] at hsz
    generalize W_wex c (offsetWidth c data) / W_total c = q at hqT hk hsz
    have hq0 : W_wex c (offsetWidth c data) = 0 → q = 0 := by
      intro h0
      rw [h0] at hqT
      rcases Nat.mul_eq_zero.mp (Nat.le_zero.mp hqT) with h | h
      · exact h
      · exact absurd h ht
    cases hf2 : c.f2 with
    | none =>
      have hgc2 : W_gc2 c = 0 := by simp [W_gc2, hf2]
      have hb2 : W_b2 c = 0 := by simp [W_b2, hgc2]
      have hT : W_total c = c.f1.b2c c.bpg + c.sep.length := by simp [W_total, hgc2, hb2]
      have hwex : W_wex c (offsetWidth c data) = c.width - offsetWidth c data - c.f1.b2c c.bpg := by
        simp [W_wex, hgc2, hb2]
      rw [hT] at hqT
      have ha := W_arith1 j _ _ _ _ (by omega) hqT
      simp only [Nat.add_zero]
      by_cases hw : offsetWidth c data + c.f1.b2c c.bpg ≤ c.width
      · left; omega
      · right
        have h0 : q = 0 := hq0 (by omega)
        rw [h0] at hsz
        rw [hg1, hlen1]
        exact Nat.div_eq_of_lt_le (by omega) (by omega)
    | some f2 =>
      obtain ⟨fb2, h2, -⟩ := hs2 f2 hf2
      obtain ⟨-, -, -, hgc2'⟩ := W_formatBits_pos hbpg h2
      have hgc2' := hgc2' hbne
      have hgc2 : W_gc2 c = f2.b2c c.bpg := by simp [W_gc2, hf2]
      have hb2 : W_b2 c = 1 := by simp [W_b2, hgc2]; omega
      have hT : W_total c = c.f1.b2c c.bpg + f2.b2c c.bpg + c.sep.length + c.sep.length := by
        simp [W_total, hgc2, hb2]
      have hwex : W_wex c (offsetWidth c data)
          = c.width - offsetWidth c data - c.f1.b2c c.bpg - f2.b2c c.bpg - 3 := by
        simp [W_wex, hgc2, hb2]
      rw [hT] at hqT
      have ha := W_arith2 j _ _ _ _ _ (by omega) hqT
      simp only []
      by_cases hw : offsetWidth c data + c.f1.b2c c.bpg + f2.b2c c.bpg + 3 ≤ c.width
      · left; omega
      · right
        have h0 : q = 0 := hq0 (by omega)
        rw [h0] at hsz
        rw [hg1, hlen1]
        exact Nat.div_eq_of_lt_le (by omega) (by omega)
  · -- ungrouped
    rw [if_neg hbpg]
    have hbpg : c.bpg = 0 := by omega
    rw [hbpg] at h1
    obtain ⟨hmod1, hgrp1, hx1⟩ := W_formatBits_zero h1
    have hbp1 := W_bpc_pos c.f1
    simp only [W_xl, hbpg, if_true]
    cases hf2 : c.f2 with
    | none =>
      rw [W_maxBits_one c _ hbpg hf2] at hm
      simp only [Except.ok.injEq] at hm
      simp only [Nat.add_zero]
      have hdiv : L0 / c.f1.bpc ≤ max (c.width - offsetWidth c data) 1 :=
        Nat.div_le_of_le_mul (by rw [Nat.mul_comm, hm]; exact hL0m)
      by_cases hw : offsetWidth c data + 1 ≤ c.width
      · left; omega
      · right
        have hwa : max (c.width - offsetWidth c data) 1 = 1 := by omega
        rw [hwa, Nat.one_mul] at hm
        have hble : c.f1.bpc ≤ b.length := Nat.le_of_dvd hsz.1 (Nat.dvd_of_mod_eq_zero hmod1)
        have hbl : b.length = c.f1.bpc := by omega
        have hd : (digits c.f1 b).length = 1 := by
          rw [W_digits_length, hbl]; exact Nat.div_self hbp1
        obtain ⟨ch, hch⟩ := List.length_eq_one_iff.mp hd
        exact ⟨ch, by rw [hg1, hgrp1, hch]⟩
    | some f2 =>
      rw [W_maxBits_two c _ hbpg f2 hf2] at hm
      simp only [Except.ok.injEq] at hm
      simp only []
      by_cases hq : 24 * (max (c.width - offsetWidth c data - 3) 1 / (c.f1.b2c 24 + f2.b2c 24)) = 0
      · right
        rw [if_pos hq] at hm
        rw [hg1, hgrp1]
        refine ⟨rfl, ?_⟩
        simp only [List.flatten_cons, List.flatten_nil, List.append_nil, W_digits_length]
        have := Nat.div_mul_le_self b.length c.f1.bpc
        omega
      · left
        rw [if_neg hq] at hm
        rw [← hm] at hL0m
        have := W_arith24 c.f1 f2 L0 _ hq hL0m
        omega

/-! ## no escape character in the text -/

theorem W_digitChar_ne (n : Nat) : digitChar n ≠ '\x1b' := by
  unfold digitChar; split <;> decide

theorem W_esc_binDigits : ∀ b : Bits, '\x1b' ∉ binDigits b
  | [] => by simp [binDigits]
  | a :: t => by
    simp only [binDigits, List.mem_cons, not_or]
    exact ⟨fun h => W_digitChar_ne _ h.symm, W_esc_binDigits t⟩

theorem W_esc_octDigits : ∀ b : Bits, '\x1b' ∉ octDigits b
  | [] => by simp [octDigits]
  | [_] => by simp [octDigits]
  | [_, _] => by simp [octDigits]
  | _ :: _ :: _ :: t => by
    simp only [octDigits, List.mem_cons, not_or]
    exact ⟨fun h => W_digitChar_ne _ h.symm, W_esc_octDigits t⟩

theorem W_esc_hexDigits : ∀ b : Bits, '\x1b' ∉ hexDigits b
  | [] => by simp [hexDigits]
  | [_] => by simp [hexDigits]
  | [_, _] => by simp [hexDigits]
  | [_, _, _] => by simp [hexDigits]
  | _ :: _ :: _ :: _ :: t => by
    simp only [hexDigits, List.mem_cons, not_or]
    exact ⟨fun h => W_digitChar_ne _ h.symm, W_esc_hexDigits t⟩

theorem W_esc_digits (f : Fmt) (b : Bits) : '\x1b' ∉ digits f b := by
  cases f
  · exact W_esc_binDigits b
  · exact W_esc_octDigits b
  · exact W_esc_hexDigits b

theorem W_esc_natDecAux : ∀ (fuel n : Nat) (acc : Str), '\x1b' ∉ acc → '\x1b' ∉ natDecAux fuel n acc := by
  intro fuel
  induction fuel with
  | zero => intro n acc h; simpa [natDecAux] using h
  | succ fuel ih =>
    intro n acc h
    simp only [natDecAux]
    have h' : '\x1b' ∉ digitChar (n % 10) :: acc := by
      simp only [List.mem_cons, not_or]
      exact ⟨fun h => W_digitChar_ne _ h.symm, h⟩
    split
    · exact h'
    · exact ih _ _ h'

theorem W_esc_natDec (n : Nat) : '\x1b' ∉ natDec n :=
  W_esc_natDecAux _ _ _ (by simp)

theorem W_esc_joinSep (sep : Str) (hs : '\x1b' ∉ sep) : ∀ l : List Str, (∀ s ∈ l, '\x1b' ∉ s) →
    '\x1b' ∉ joinSep sep l
  | [], _ => by simp [joinSep]
  | [a], h => by simpa [joinSep] using h a (List.mem_cons_self ..)
  | a :: b :: t, h => by
    have ih := W_esc_joinSep sep hs (b :: t) (fun s hs => h s (List.mem_cons_of_mem _ hs))
    have ha := h a (List.mem_cons_self ..)
    simp only [joinSep, List.mem_append, not_or]
    exact ⟨⟨ha, hs⟩, ih⟩

theorem W_esc_formatBits {lsb0 : Bool} {bits : Bits} {bpg : Nat} {sep : Str} {f : Fmt} {fb : Fb}
    (h : formatBits lsb0 bits bpg sep f = .ok fb) (hs : '\x1b' ∉ sep) : '\x1b' ∉ fb.x := by
  by_cases hb : bpg = 0
  · subst hb
    rw [(W_formatBits_zero h).2.2]; exact W_esc_digits _ _
  · obtain ⟨-, hx, hg, -⟩ := W_formatBits_pos hb h
    rw [hx]
    apply W_esc_joinSep sep hs
    intro s hsm
    rcases List.mem_map.mp hsm with ⟨g, hgm, rfl⟩
    obtain ⟨-, b, rfl⟩ := hg g hgm
    have := W_esc_digits f b
    cases lsb0 <;> simp [padLeft, padRight, this]

theorem W_esc_strFormAlg (lsb0 : Bool) (l : Bits) : '\x1b' ∉ strFormAlg lsb0 l := by
  have hh := W_esc_hexDigits
  have hbn := W_esc_binDigits
  unfold strFormAlg
  simp only
  split
  · simp
  · split
    · simp [pre0x, dots, hh]
    · split
      · simp [pre0b, hbn]
      · split
        · simp [pre0x, hh]
        · simp [pre0x, pre0b, commaSp, hh, hbn]

theorem W_sec_some {c : PPCfg} {W2 : Nat} {b : Bits} {x2 : Str} {pad2 : Nat}
    (h : W_sec c W2 b = some (x2, pad2)) :
    ∃ f2 fb2, c.f2 = some f2 ∧ formatBits c.lsb0 b c.bpg c.sep f2 = .ok fb2 ∧ x2 = fb2.x := by
  unfold W_sec at h
  cases hf2 : c.f2 with
  | none => rw [hf2] at h; simp at h
  | some f2 =>
    rw [hf2] at h
    simp only at h
    cases h2 : formatBits c.lsb0 b c.bpg c.sep f2 with
    | error e => rw [h2] at h; simp at h
    | ok fb2 =>
      rw [h2] at h
      simp only [Option.some.injEq, Prod.mk.injEq] at h
      exact ⟨f2, fb2, rfl, h2, h.1.symm⟩

/-! ## `maxBitsPerLine` cannot fail after `processTokens` -/

theorem W_maxBits_ok {a : PPArgs} {bpg : Nat} {hasLen : Bool}
    (ht : processTokens a.t1 a.t2 = .ok (bpg, hasLen)) (ow : Nat) :
    ∃ m, maxBitsPerLine (cfgOf a bpg) ow = .ok m ∧ m ≠ 0 ∧
      (bpg ≠ 0 → ∃ gpl, m = gpl * bpg) ∧
      (bpg = 0 → m % a.t1.fmt.bpc = 0 ∧ ∀ t2, a.t2 = some t2 → m % t2.fmt.bpc = 0) := by
  by_cases hb : bpg = 0
  · subst hb
    rcases ht2 : a.t2 with _ | t2
    · have := W_maxBits_one (cfgOf a 0) ow rfl (by simp [cfgOf, ht2])
      refine ⟨_, this, ?_, fun h => absurd rfl h, fun _ => ⟨?_, by simp⟩⟩
      · have := W_bpc_pos a.t1.fmt
        exact Nat.mul_ne_zero (by omega) (by simp only [cfgOf]; omega)
      · simp [cfgOf]
    · have := W_maxBits_two (cfgOf a 0) ow rfl t2.fmt (by simp [cfgOf, ht2])
      have h1 := W_bpc_dvd_24 a.t1.fmt
      have h2 := W_bpc_dvd_24 t2.fmt
      refine ⟨_, this, ?_, fun h => absurd rfl h, fun _ => ⟨?_, ?_⟩⟩
      · split <;> omega
      · split
        · exact h1
        · rw [Nat.mul_mod, h1]; simp
      · intro t2' ht2'
        simp only [Option.some.injEq] at ht2'; subst ht2'
        split
        · exact h2
        · rw [Nat.mul_mod, h2]; simp
  · have hch := W_processTokens_chars ht hb
    have htot : W_total (cfgOf a bpg) ≠ 0 := by
      rcases hch with h | ⟨u, hu, h⟩
      · simp only [W_total, cfgOf]; omega
      · have : W_gc2 (cfgOf a bpg) = u.fmt.b2c bpg := by simp [W_gc2, cfgOf, hu]
        simp only [W_total, this]; omega
    refine ⟨_, W_maxBits_grouped (cfgOf a bpg) ow hb htot, ?_, fun _ => ⟨_, rfl⟩, fun h => absurd h hb⟩
    exact Nat.mul_ne_zero (by rw [Nat.add_comm]; exact Nat.succ_ne_zero _) hb

/-! ## `formatBits` succeeds on whole digits -/

theorem W_getDigits_succeeds {f : Fmt} {b : Bits} (h : b.length % f.bpc = 0) : ∃ d, getDigits f b = .ok d := by
  unfold getDigits
  rw [if_neg (by omega)]
  exact ⟨_, rfl⟩

theorem W_formatBits_succeeds (lsb0 : Bool) (bits : Bits) (bpg : Nat) (sep : Str) (f : Fmt)
    (h0 : bpg = 0 → bits.length % f.bpc = 0)
    (h1 : bpg ≠ 0 → bpg % f.bpc = 0 ∧ bits.length % bpg % f.bpc = 0) :
    ∃ fb, formatBits lsb0 bits bpg sep f = .ok fb := by
  unfold formatBits
  by_cases hb : bpg = 0
  · rw [if_pos hb]
    obtain ⟨d, hd⟩ := W_getDigits_succeeds (h0 hb)
    rw [hd]; exact ⟨_, rfl⟩
  · rw [if_neg hb]
    obtain ⟨h1, h2⟩ := h1 hb
    have hcut := W_cut_ok lsb0 bpg hb bits
    obtain ⟨gs, hgs⟩ := W_mapE_succeeds (getDigits f) (cut lsb0 bpg bits) (by
      intro g hg
      apply W_getDigits_succeeds
      rcases (hcut.size g hg).2.2.2 with h | h <;> rw [h] <;> assumption)
    simp only [hgs]
    exact ⟨_, rfl⟩

theorem W_mod_mod_bpc {L bpg k : Nat} (hL : L % k = 0) (hb : bpg % k = 0) : L % bpg % k = 0 :=
  Nat.mod_eq_zero_of_dvd ((Nat.dvd_mod_iff (Nat.dvd_of_mod_eq_zero hb)).mpr (Nat.dvd_of_mod_eq_zero hL))

/-- Every chunk of `cut m data` formats, when the data and the group size are whole digits. -/
theorem W_chunk_formats (lsb0 : Bool) (data : Bits) (m bpg : Nat) (sep : Str) (f : Fmt) (hm : m ≠ 0)
    (hL : data.length % f.bpc = 0) (hbpg : bpg % f.bpc = 0)
    (hm1 : bpg ≠ 0 → ∃ gpl, m = gpl * bpg) (hm0 : bpg = 0 → m % f.bpc = 0) :
    ∀ b ∈ cut lsb0 m data, ∃ fb, formatBits lsb0 b bpg sep f = .ok fb := by
  intro b hb
  have hsz := (W_cut_ok lsb0 m hm data).size b hb
  apply W_formatBits_succeeds
  · intro h0
    rcases hsz.2.2.2 with h | h <;> rw [h]
    · exact hm0 h0
    · exact W_mod_mod_bpc hL (hm0 h0)
  · intro h1
    refine ⟨hbpg, ?_⟩
    obtain ⟨gpl, rfl⟩ := hm1 h1
    rcases hsz.2.2.2 with h | h <;> rw [h]
    · simp
    · rw [Nat.mod_mul_left_mod]; exact W_mod_mod_bpc hL hbpg

/-! ## colour does not change what is shown -/

def W_proj (ln : Line) : Str × List Str × Option (List Str) := (ln.visible, ln.groups1, ln.groups2)

theorem W_line_colour (c : PPCfg) (ow W1 W2 : Nat) (b : Bits) (p : Nat) :
    (W_line c ow W1 W2 b p).map W_proj = (W_line { c with colour := false } ow W1 W2 b p).map W_proj := by
  rcases c with ⟨f1, f2, bpg, width, sep, so, lsb0, colour⟩
  simp only [W_line]
  cases formatBits lsb0 b bpg sep f1 with
  | error e => rfl
  | ok fb1 =>
    cases f2 with
    | none =>
      simp only [Except.map, W_proj, W_visible_eq]
      rw [W_segs_vis_colour]
    | some f2 =>
      simp only
      cases formatBits lsb0 b bpg sep f2 with
      | error e => rfl
      | ok fb2 =>
        simp only [Except.map, W_proj, W_visible_eq]
        rw [W_segs_vis_colour]

theorem W_loop_colour (c : PPCfg) (ow W1 W2 : Nat) : ∀ (chunks : List Bits) (pos : Nat),
    (W_loop c ow W1 W2 chunks pos).map (List.map W_proj)
      = (W_loop { c with colour := false } ow W1 W2 chunks pos).map (List.map W_proj)
  | [], pos => rfl
  | b :: rest, pos => by
    have hl := W_line_colour c ow W1 W2 b pos
    have ih := W_loop_colour c ow W1 W2 rest (pos + b.length)
    simp only [W_loop]
    cases hA : W_line c ow W1 W2 b pos <;> cases hB : W_line { c with colour := false } ow W1 W2 b pos <;>
      rw [hA, hB] at hl <;> simp only [Except.map, Except.error.injEq, Except.ok.injEq, reduceCtorEq] at hl
    · subst hl; rfl
    · cases hA' : W_loop c ow W1 W2 rest (pos + b.length) <;>
        cases hB' : W_loop { c with colour := false } ow W1 W2 rest (pos + b.length) <;>
        rw [hA', hB'] at ih <;> simp only [Except.map, Except.error.injEq, Except.ok.injEq, reduceCtorEq] at ih
      · subst ih; rfl
      · simp only [Except.map, List.map_cons, hl, ih]

theorem W_ppLines_colour (c : PPCfg) (data : Bits) :
    (ppLines c data).map (List.map W_proj)
      = (ppLines { c with colour := false } data).map (List.map W_proj) := by
  have e1 : offsetWidth { c with colour := false } data = offsetWidth c data := rfl
  have e2 : ∀ ow, maxBitsPerLine { c with colour := false } ow = maxBitsPerLine c ow := fun _ => rfl
  unfold ppLines
  simp only [e1, e2]
  cases maxBitsPerLine c (offsetWidth c data) with
  | error e => rfl
  | ok m =>
    simp only
    by_cases h0 : m = 0
    · rw [if_pos h0, if_pos h0]
    · rw [if_neg h0, if_neg h0, W_ppLoop_eq, W_ppLoop_eq]
      exact W_loop_colour c _ _ _ _ _

end BM.C19
