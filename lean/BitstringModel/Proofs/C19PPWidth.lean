/-
  Proofs/C19PPWidth.lean — helper lemmas for Props/C19_PPWidth.lean (line lengths, colour, reachability of errors).
  Every lemma here is named `W_…`.
-/
import BitstringModel.Model.C19
import BitstringModel.Proofs.Basic
import Mathlib.Data.Nat.Log

namespace BM.C19
open BM

/-! ## `cutMsb` / `cut` : sizes of the chunks -/

theorem W_cutAux_fuel (n : Nat) (_hn : n ≠ 0) :
    ∀ (f1 f2 : Nat) (l : Bits), l.length < f1 → l.length < f2 → cutAux n f1 l = cutAux n f2 l := by
  intro f1
  induction f1 with
  | zero => intro f2 l h1; omega
  | succ f1 ih =>
    intro f2 l h1 h2
    cases f2 with
    | zero => omega
    | succ f2 =>
      simp only [cutAux]
      by_cases hc0 : (l.take n).length = 0
      · simp only [hc0, if_true]
      · simp only [hc0, if_false]
        by_cases hcn : (l.take n).length ≠ n
        · rw [if_pos hcn, if_pos hcn]
        · rw [if_neg hcn, if_neg hcn]
          have hlen : (l.take n).length = n := by simpa using hcn
          rw [List.length_take] at hlen
          have hd : (l.drop n).length = l.length - n := List.length_drop
          rw [ih f2 (l.drop n) (by omega) (by omega)]

theorem W_cutMsb_nil (n : Nat) : cutMsb n [] = [] := by
  simp [cutMsb, cutAux]

theorem W_cutMsb_cons (n : Nat) (hn : n ≠ 0) (l : Bits) (hl : l ≠ []) :
    cutMsb n l = l.take n :: cutMsb n (l.drop n) := by
  have hpos : 0 < l.length := List.length_pos_iff.mpr hl
  rw [show cutMsb n l = cutAux n (l.length + 1) l from rfl,
    show cutMsb n (l.drop n) = cutAux n ((l.drop n).length + 1) (l.drop n) from rfl]
  conv_lhs => simp only [cutAux]
  have h0 : (l.take n).length ≠ 0 := by rw [List.length_take]; omega
  rw [if_neg h0]
  by_cases hcn : (l.take n).length ≠ n
  · rw [if_pos hcn]
    rw [List.length_take] at hcn
    have : l.drop n = [] := List.drop_eq_nil_of_le (by omega)
    rw [this]
    simp [cutAux]
  · rw [if_neg hcn]
    have hd : (l.drop n).length = l.length - n := List.length_drop
    rw [W_cutAux_fuel n hn l.length ((l.drop n).length + 1) (l.drop n) (by omega) (by omega)]

theorem W_cutMsb_induct (n : Nat) (hn : n ≠ 0) (P : Bits → Prop) (h0 : P [])
    (hs : ∀ l, l ≠ [] → P (l.drop n) → P l) : ∀ l, P l := by
  intro l
  generalize hk : l.length = k
  induction k using Nat.strong_induction_on generalizing l with
  | _ k ih =>
    by_cases hl : l = []
    · subst hl; exact h0
    · apply hs l hl
      have hpos : 0 < l.length := List.length_pos_iff.mpr hl
      have hd : (l.drop n).length = l.length - n := List.length_drop
      exact ih (l.drop n).length (by omega) (l.drop n) rfl

/-- The shape of a chunk list: all that the width theorems need to know about `cut n l` (`L = l.length`). -/
structure W_CutOK (n L : Nat) (cs : List Bits) : Prop where
  size : ∀ g ∈ cs, 0 < g.length ∧ g.length ≤ n ∧ g.length ≤ L ∧ (g.length = n ∨ g.length = L % n)
  sum : (cs.map List.length).sum = L
  count : cs.length = (L + n - 1) / n
  head : ∀ b0 rest, cs = b0 :: rest → ∀ g ∈ cs, g.length ≤ b0.length

theorem W_cutMsb_ok (n : Nat) (hn : n ≠ 0) (l : Bits) : W_CutOK n l.length (cutMsb n l) := by
  induction l using W_cutMsb_induct n hn with
  | h0 =>
    rw [W_cutMsb_nil]
    refine ⟨by simp, by simp, ?_, by simp⟩
    simp only [List.length_nil, Nat.zero_add]
    rw [Nat.div_eq_of_lt (by omega)]
  | hs l hl ih =>
    have hpos : 0 < l.length := List.length_pos_iff.mpr hl
    have hd : (l.drop n).length = l.length - n := List.length_drop
    have ht : (l.take n).length = min n l.length := List.length_take
    rw [W_cutMsb_cons n hn l hl]
    rw [hd] at ih
    have hmod : n ≤ l.length → (l.length - n) % n = l.length % n := fun h => (Nat.mod_eq_sub_mod h).symm
    have hsz : ∀ g ∈ l.take n :: cutMsb n (l.drop n),
        0 < g.length ∧ g.length ≤ n ∧ g.length ≤ l.length ∧ (g.length = n ∨ g.length = l.length % n) := by
      intro g hg
      rcases List.mem_cons.mp hg with rfl | hg
      · rw [ht]
        refine ⟨by omega, by omega, by omega, ?_⟩
        rcases Nat.lt_or_ge l.length n with h | h
        · right; rw [Nat.mod_eq_of_lt h]; omega
        · left; omega
      · have := ih.size g hg
        rcases Nat.lt_or_ge l.length n with h | h
        · omega
        · rw [hmod h] at this; omega
    refine ⟨hsz, ?_, ?_, ?_⟩
    · simp only [List.map_cons, List.sum_cons, ih.sum, ht]; omega
    · simp only [List.length_cons, ih.count]
      rcases Nat.lt_or_ge l.length n with h | h
      · have : l.length - n = 0 := by omega
        rw [this, Nat.zero_add, Nat.div_eq_of_lt (by omega)]
        symm
        apply Nat.div_eq_of_lt_le <;> omega
      · have : l.length + n - 1 = (l.length - n + n - 1) + n := by omega
        rw [this, Nat.add_div_right _ (by omega)]
    · intro b0 rest hcs g hg
      injection hcs with hb0 _
      subst hb0
      have := hsz g hg
      rw [ht]
      omega

theorem W_cut_ok (lsb0 : Bool) (n : Nat) (hn : n ≠ 0) (l : Bits) : W_CutOK n l.length (cut lsb0 n l) := by
  cases lsb0 with
  | false => simp only [cut, Bool.false_eq_true, if_false]; exact W_cutMsb_ok n hn l
  | true =>
    simp only [cut, if_true]
    have h := W_cutMsb_ok n hn l.reverse
    rw [List.length_reverse] at h
    refine ⟨?_, ?_, ?_, ?_⟩
    · intro g hg
      rcases List.mem_map.mp hg with ⟨g', hg', rfl⟩
      rw [List.length_reverse]; exact h.size g' hg'
    · rw [List.map_map]
      have : (List.length ∘ List.reverse : Bits → Nat) = List.length := by
        funext x; simp
      rw [this]; exact h.sum
    · rw [List.length_map]; exact h.count
    · intro b0 rest hcs g hg
      rcases List.mem_map.mp hg with ⟨g', hg', rfl⟩
      cases hc : cutMsb n l.reverse with
      | nil => rw [hc] at hg'; simp at hg'
      | cons c0 cr =>
        rw [hc] at hcs
        simp only [List.map_cons] at hcs
        injection hcs with hb0 _
        subst hb0
        simp only [List.length_reverse]
        exact h.head c0 cr hc g' hg'

/-! ## decimal length -/

theorem W_natDecAux_length : ∀ (fuel n : Nat) (acc : Str), n < fuel →
    (natDecAux fuel n acc).length = acc.length + Nat.log 10 n + 1 := by
  intro fuel
  induction fuel with
  | zero => intro n acc h; omega
  | succ fuel ih =>
    intro n acc h
    simp only [natDecAux]
    by_cases hn : n < 10
    · rw [if_pos hn, Nat.log_of_lt hn]; simp
    · rw [if_neg hn, ih (n / 10) _ (by omega), Nat.log_of_one_lt_of_le (by omega) (by omega : 10 ≤ n)]
      simp only [List.length_cons]; omega

theorem W_natDec_length (n : Nat) : (natDec n).length = Nat.log 10 n + 1 := by
  unfold natDec; rw [W_natDecAux_length _ _ _ (by omega)]; simp

theorem W_natDec_length_le {a b : Nat} (h : a ≤ b) : (natDec a).length ≤ (natDec b).length := by
  rw [W_natDec_length, W_natDec_length]
  have := Nat.log_mono_right (b := 10) h
  omega

/-! ## digits -/

theorem W_binDigits_length : ∀ b : Bits, (binDigits b).length = b.length
  | [] => rfl
  | _ :: t => by simp [binDigits, W_binDigits_length t]

theorem W_octDigits_length : ∀ b : Bits, (octDigits b).length = b.length / 3
  | [] => rfl
  | [_] => by simp [octDigits]
  | [_, _] => by simp [octDigits]
  | _ :: _ :: _ :: t => by
    simp only [octDigits, List.length_cons, W_octDigits_length t]; omega

theorem W_hexDigits_length : ∀ b : Bits, (hexDigits b).length = b.length / 4
  | [] => rfl
  | [_] => by simp [hexDigits]
  | [_, _] => by simp [hexDigits]
  | [_, _, _] => by simp [hexDigits]
  | _ :: _ :: _ :: _ :: t => by
    simp only [hexDigits, List.length_cons, W_hexDigits_length t]; omega

theorem W_digits_length (f : Fmt) (b : Bits) : (digits f b).length = b.length / f.bpc := by
  cases f
  · simp [digits, Fmt.bpc, W_binDigits_length]
  · simp [digits, Fmt.bpc, W_octDigits_length]
  · simp [digits, Fmt.bpc, W_hexDigits_length]

theorem W_b2c (f : Fmt) (n : Nat) : f.b2c n = n / f.bpc := by
  cases f <;> simp [Fmt.b2c, Fmt.bpc]

theorem W_bpc_pos (f : Fmt) : 0 < f.bpc := by cases f <;> decide

theorem W_bitsPerChar (f : Fmt) : bitsPerChar f = f.bpc := by cases f <;> decide

theorem W_bpc_dvd_24 (f : Fmt) : 24 % f.bpc = 0 := by cases f <;> decide

/-! ## padding, joining -/

theorem W_padRight_length (n : Nat) (s : Str) : (padRight n s).length = max n s.length := by
  simp [padRight]; omega

theorem W_padLeft_length (n : Nat) (s : Str) : (padLeft n s).length = max n s.length := by
  simp [padLeft]; omega

theorem W_joinSep_length (sep : Str) (n : Nat) : ∀ l : List Str, (∀ s ∈ l, s.length = n) →
    (joinSep sep l).length = l.length * n + (l.length - 1) * sep.length
  | [], _ => by simp [joinSep]
  | [a], h => by simp [joinSep, h a]
  | a :: b :: t, h => by
    have ih := W_joinSep_length sep n (b :: t) (fun s hs => h s (List.mem_cons_of_mem _ hs))
    have ha := h a (List.mem_cons_self ..)
    simp only [joinSep, List.length_append, ih, ha, List.length_cons]
    simp only [Nat.add_sub_cancel, Nat.add_mul, Nat.one_mul]
    omega

/-! ## `mapE` -/

theorem W_mapE_ok {α β} (f : α → Except Err β) : ∀ (l : List α) (r : List β), mapE f l = .ok r →
    r.length = l.length ∧ (∀ y ∈ r, ∃ x ∈ l, f x = .ok y) ∧ (∀ x ∈ l, ∃ y ∈ r, f x = .ok y)
  | [], r, h => by
    simp only [mapE, Except.ok.injEq] at h; subst h; simp
  | a :: t, r, h => by
    simp only [mapE] at h
    cases hfa : f a with
    | error e => rw [hfa] at h; simp at h
    | ok b =>
      rw [hfa] at h
      cases ht : mapE f t with
      | error e => rw [ht] at h; simp at h
      | ok bs =>
        rw [ht] at h
        simp only [Except.ok.injEq] at h; subst h
        have ih := W_mapE_ok f t bs ht
        refine ⟨by simp [ih.1], ?_, ?_⟩
        · intro y hy
          rcases List.mem_cons.mp hy with rfl | hy
          · exact ⟨a, List.mem_cons_self .., hfa⟩
          · obtain ⟨x, hx, hfx⟩ := ih.2.1 y hy
            exact ⟨x, List.mem_cons_of_mem _ hx, hfx⟩
        · intro x hx
          rcases List.mem_cons.mp hx with rfl | hx
          · exact ⟨b, List.mem_cons_self .., hfa⟩
          · obtain ⟨y, hy, hfx⟩ := ih.2.2 x hx
            exact ⟨y, List.mem_cons_of_mem _ hy, hfx⟩

theorem W_mapE_error {α β} (f : α → Except Err β) : ∀ (l : List α) (e : Err), mapE f l = .error e →
    ∃ x ∈ l, f x = .error e
  | [], e, h => by simp [mapE] at h
  | a :: t, e, h => by
    simp only [mapE] at h
    cases hfa : f a with
    | error e' =>
      rw [hfa] at h; simp only [Except.error.injEq] at h; subst h
      exact ⟨a, List.mem_cons_self .., hfa⟩
    | ok b =>
      rw [hfa] at h
      cases ht : mapE f t with
      | error e' =>
        rw [ht] at h; simp only [Except.error.injEq] at h; subst h
        obtain ⟨x, hx, hfx⟩ := W_mapE_error f t e' ht
        exact ⟨x, List.mem_cons_of_mem _ hx, hfx⟩
      | ok bs => rw [ht] at h; simp at h

theorem W_mapE_succeeds {α β} (f : α → Except Err β) : ∀ (l : List α), (∀ x ∈ l, ∃ y, f x = .ok y) →
    ∃ r, mapE f l = .ok r
  | [], _ => ⟨[], rfl⟩
  | a :: t, h => by
    obtain ⟨b, hb⟩ := h a (List.mem_cons_self ..)
    obtain ⟨bs, hbs⟩ := W_mapE_succeeds f t (fun x hx => h x (List.mem_cons_of_mem _ hx))
    exact ⟨b :: bs, by simp [mapE, hb, hbs]⟩

/-! ## `formatBits` -/

/-- number of groups of a chunk of `len` bits -/
def W_ng (bpg len : Nat) : Nat := if bpg = 0 then 1 else (len + bpg - 1) / bpg

/-- length of the text of a chunk of `len` bits -/
def W_xl (f : Fmt) (bpg S len : Nat) : Nat :=
  if bpg = 0 then len / f.bpc else W_ng bpg len * f.b2c bpg + (W_ng bpg len - 1) * S

theorem W_getDigits_ok {f : Fmt} {b : Bits} {d : Str} (h : getDigits f b = .ok d) :
    b.length % f.bpc = 0 ∧ d = digits f b := by
  unfold getDigits at h
  by_cases hm : b.length % f.bpc ≠ 0
  · rw [if_pos hm] at h; simp at h
  · rw [if_neg hm] at h
    simp only [Except.ok.injEq] at h
    exact ⟨by omega, h.symm⟩

theorem W_getDigits_error {f : Fmt} {b : Bits} {e : Err} (h : getDigits f b = .error e) : e = .value := by
  unfold getDigits at h
  by_cases hm : b.length % f.bpc ≠ 0
  · rw [if_pos hm] at h; simp only [Except.error.injEq] at h; exact h.symm
  · rw [if_neg hm] at h; simp at h

theorem W_formatBits_error {lsb0 : Bool} {bits : Bits} {bpg : Nat} {sep : Str} {f : Fmt} {e : Err}
    (h : formatBits lsb0 bits bpg sep f = .error e) : e = .value := by
  unfold formatBits at h
  by_cases hb : bpg = 0
  · rw [if_pos hb] at h
    cases hg : getDigits f bits with
    | error e' => rw [hg] at h; simp only [Except.error.injEq] at h; subst h; exact W_getDigits_error hg
    | ok d => rw [hg] at h; simp at h
  · rw [if_neg hb] at h
    cases hg : mapE (getDigits f) (cut lsb0 bpg bits) with
    | error e' =>
      rw [hg] at h; simp only [Except.error.injEq] at h; subst h
      obtain ⟨x, _, hx⟩ := W_mapE_error _ _ _ hg
      exact W_getDigits_error hx
    | ok d => rw [hg] at h; simp at h

theorem W_formatBits_zero {lsb0 : Bool} {bits : Bits} {sep : Str} {f : Fmt} {fb : Fb}
    (h : formatBits lsb0 bits 0 sep f = .ok fb) :
    bits.length % f.bpc = 0 ∧ fb.groups = [digits f bits] ∧ fb.x = digits f bits := by
  unfold formatBits at h
  rw [if_pos rfl] at h
  cases hg : getDigits f bits with
  | error e' => rw [hg] at h; simp at h
  | ok d =>
    rw [hg] at h; simp only [Except.ok.injEq] at h; subst h
    obtain ⟨h1, h2⟩ := W_getDigits_ok hg
    exact ⟨h1, by rw [h2], h2⟩

theorem W_formatBits_pos {lsb0 : Bool} {bits : Bits} {bpg : Nat} {sep : Str} {f : Fmt} {fb : Fb}
    (hb : bpg ≠ 0) (h : formatBits lsb0 bits bpg sep f = .ok fb) :
    fb.groups.length = (bits.length + bpg - 1) / bpg ∧
    fb.x = joinSep sep (fb.groups.map (if lsb0 then padLeft (f.b2c bpg) else padRight (f.b2c bpg))) ∧
    (∀ g ∈ fb.groups, g.length ≤ f.b2c bpg ∧ ∃ b, g = digits f b) ∧
    (bits ≠ [] → 1 ≤ f.b2c bpg) := by
  unfold formatBits at h
  rw [if_neg hb] at h
  cases hg : mapE (getDigits f) (cut lsb0 bpg bits) with
  | error e' => rw [hg] at h; simp at h
  | ok gs =>
    rw [hg] at h; simp only [Except.ok.injEq] at h; subst h
    obtain ⟨hlen, hmem, _⟩ := W_mapE_ok _ _ _ hg
    have hcut := W_cut_ok lsb0 bpg hb bits
    have hgrp : ∀ g ∈ gs, g.length ≤ f.b2c bpg ∧ ∃ b, g = digits f b := by
      intro g hg
      obtain ⟨b, hbm, hgb⟩ := hmem g hg
      obtain ⟨_, h2⟩ := W_getDigits_ok hgb
      refine ⟨?_, b, h2⟩
      rw [h2, W_digits_length, W_b2c]
      exact Nat.div_le_div_right (hcut.size b hbm).2.1
    refine ⟨by rw [hlen, hcut.count], rfl, hgrp, ?_⟩
    intro hne
    have hpos : 0 < bits.length := List.length_pos_iff.mpr hne
    have hc : 0 < (cut lsb0 bpg bits).length := by
      rw [hcut.count]; exact Nat.div_pos (by omega) (by omega)
    obtain ⟨b, hbm⟩ := List.exists_mem_of_length_pos hc
    obtain ⟨y, _, hy⟩ := (W_mapE_ok _ _ _ hg).2.2 b hbm
    obtain ⟨h1, _⟩ := W_getDigits_ok hy
    have hsz := hcut.size b hbm
    rw [W_b2c]
    have hbp := W_bpc_pos f
    have : f.bpc ≤ b.length := Nat.le_of_dvd hsz.1 (Nat.dvd_of_mod_eq_zero h1)
    exact Nat.div_pos (by omega) hbp

theorem W_formatBits_len {lsb0 : Bool} {bits : Bits} {bpg : Nat} {sep : Str} {f : Fmt} {fb : Fb}
    (h : formatBits lsb0 bits bpg sep f = .ok fb) :
    fb.groups.length = W_ng bpg bits.length ∧ fb.x.length = W_xl f bpg sep.length bits.length := by
  by_cases hb : bpg = 0
  · subst hb
    obtain ⟨_, h2, h3⟩ := W_formatBits_zero h
    simp [W_ng, W_xl, h2, h3, W_digits_length]
  · obtain ⟨h1, h2, h3, _⟩ := W_formatBits_pos hb h
    simp only [W_ng, W_xl, if_neg hb]
    refine ⟨h1, ?_⟩
    rw [h2, W_joinSep_length sep (f.b2c bpg), List.length_map, h1]
    intro s hs
    rcases List.mem_map.mp hs with ⟨g, hg, rfl⟩
    have := (h3 g hg).1
    cases lsb0
    · simp only [Bool.false_eq_true, if_false, W_padRight_length]; omega
    · simp only [if_true, W_padLeft_length]; omega

end BM.C19
