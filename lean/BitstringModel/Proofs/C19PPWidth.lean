/-
  Proofs/C19PPWidth.lean — helper lemmas for Props/C19_PPWidth.lean (line lengths, colour, reachability of errors).
-/
import BitstringModel.Model.C19
import BitstringModel.Proofs.Basic

namespace BM.C19
open BM

end BM.C19
