/-
  Proofs/C03Run.lean — helper lemmas for Props/C03_Run.lean (outcomes of atomic steps).
-/
import BitstringModel.Model.C03
import BitstringModel.Proofs.C03
import Mathlib.Tactic.Ring
import Mathlib.Tactic.Linarith
import Mathlib.Data.List.Basic
namespace BM.C03.Run
open BM BM.C03

theorem atomic_err (l : Bits) (r : Except Err Bits) (e : Err) (h : (atomic l r).ret = .error e) :
    (atomic l r).bits = l := by
  cases r with
  | ok b => simp [atomic] at h
  | error e' => rfl

theorem atomicRet_err (l : Bits) (r : Except Err (Nat × Bits)) (e : Err) (h : (atomicRet l r).ret = .error e) :
    (atomicRet l r).bits = l := by
  cases r with
  | ok b => obtain ⟨k, b⟩ := b; simp [atomicRet] at h
  | error e' => rfl

theorem atomic_length (l : Bits) (x : Except Err Bits) (h : ∀ r, x = .ok r → r.length = l.length) :
    (atomic l x).bits.length = l.length := by
  cases x with
  | ok b => exact h b rfl
  | error e' => rfl

theorem atomicRet_length (l : Bits) (x : Except Err (Nat × Bits)) (h : ∀ k r, x = .ok (k, r) → r.length = l.length) :
    (atomicRet l x).bits.length = l.length := by
  cases x with
  | ok b => obtain ⟨k, b⟩ := b; exact h k b rfl
  | error e' => rfl

end BM.C03.Run
