/-
  Proofs/C11_BfReenc.lean — bfloat: decoding any non-NaN code and encoding the value again returns the code,
  structurally (no new enumeration): the decoded float has exactly the value of the zero-padded float32 pattern
  (`bfChk_all`, the existing enumeration behind `bfloat_decode_ok`), `roundBits 8 23` is exact on float32-representable
  values and reproduces the very pattern, and truncating a pattern whose low half is zero is the identity.
-/
import BitstringModel.Proofs.C11_Ieee
import BitstringModel.Proofs.C11_NumAll

namespace BM.C11
open BM

/-! ### the binary32 instances of the exactness lemmas of Proofs/C11_Ieee.lean -/

theorem roundMag_of_exact32 (num den Q : Nat) (r ex : Int) (hr : ratLog2 num den = r)
    (hex : ex = if r < -126 then -126 else r)
    (d : Nat) (hdd : d = if (23:Int) - ex ≥ 0 then den else den * 2 ^ (-((23:Int) - ex)).toNat)
    (hd : 0 < d) (hQ : (if (23:Int) - ex ≥ 0 then num * 2 ^ ((23:Int) - ex).toNat else num) = Q * d) :
    roundMag 8 23 num den = (ex + 126).toNat * 2 ^ 23 + Q := by
  have hc : (1 : Int) - (2 ^ (8 - 1) - 1) = -126 := by decide
  unfold roundMag
  have h23 : ((23 : Nat) : Int) = 23 := rfl
  simp only [hr, hc, ← hex, h23, ← hdd, hQ]
  have h1 : Q * d % d = 0 := Nat.mul_mod_left _ _
  have h2 : Q * d / d = Q := Nat.mul_div_cancel _ hd
  rw [h1, h2]
  simp only [Nat.mul_zero, hd, if_true]
  have : (ex - -126).toNat = (ex + 126).toNat := by omega
  rw [this]
theorem roundMag_dyadic32' (m L : Nat) (e ex : Int) (hr : ratLog2 (dyadicNum m e) (dyadicDen e) = (L : Int) + e)
    (hL : L < 24) (hex : ex = if (L : Int) + e < -126 then -126 else (L : Int) + e) (he : -149 ≤ e) :
    roundMag 8 23 (dyadicNum m e) (dyadicDen e) = (ex + 126).toNat * 2 ^ 23 + m * 2 ^ (e + 23 - ex).toNat := by
  have ht : 0 ≤ e + 23 - ex := by rw [hex]; split <;> omega
  apply roundMag_of_exact32 _ _ _ _ ex hr hex _ rfl
  · -- d > 0
    clear hr
    unfold dyadicDen
    split <;> split <;> first | exact Nat.two_pow_pos _ | exact Nat.mul_pos (by first | decide | exact Nat.two_pow_pos _) (Nat.two_pow_pos _) | decide
  · clear hr
    unfold dyadicNum dyadicDen
    by_cases hs : (23 : Int) - ex ≥ 0
    · by_cases h0 : e ≥ 0
      · rw [if_pos hs, if_pos hs, if_pos h0, if_pos h0, Nat.mul_one, Nat.mul_assoc, ← Nat.pow_add]
        congr 2; omega
      · rw [if_pos hs, if_pos hs, if_neg h0, if_neg h0, Nat.mul_assoc, ← Nat.pow_add]
        congr 2; omega
    · by_cases h0 : e ≥ 0
      · rw [if_neg hs, if_neg hs, if_pos h0, if_pos h0, Nat.one_mul, Nat.mul_assoc, ← Nat.pow_add]
        congr 2; omega
      · exfalso; rw [hex] at hs; split at hs <;> omega


/-! ### packing a float32-representable value reproduces its pattern -/

/-- The `fin` branch of `packIEEE 8 23`. -/
def packFin32 (v : FVal) : Option Nat :=
  match v with
  | .fin s m e =>
    let r := roundBits 8 23 s (dyadicNum m e) (dyadicDen e)
    if r.2 then none else some r.1
  | _ => none

theorem packFin32_mk (s : Bool) (A M : Nat) (hA : A ≤ 253) (hM : M < 2 ^ 24) (hsub : M < 2 ^ 23 → A = 0) :
    packFin32 (FVal.mk s M ((A : Int) - 149)) = some ((if s then 2 ^ 31 else 0) + (A * 2 ^ 23 + M)) := by
  have p23 : (2 : Nat) ^ 23 = 8388608 := by decide
  have p24 : (2 : Nat) ^ 24 = 16777216 := by decide
  by_cases hM0 : M = 0
  · subst hM0
    have hA0 : A = 0 := hsub (by decide)
    subst hA0
    have : FVal.mk s 0 (((0 : Nat) : Int) - 149) = .fin s 0 0 := by simp [FVal.mk]
    rw [this]
    cases s <;> decide
  · obtain ⟨m, e, j, h, hMm, he, hodd⟩ := mk_spec s M ((A : Int) - 149) hM0
    rw [h]
    have hmpos : 0 < m := by omega
    obtain ⟨a, b⟩ := ilog2_spec m hmpos
    have hlog : ilog2 M = ilog2 m + j := by rw [hMm]; exact ilog2_mul_pow m j hmpos
    have hMspec := ilog2_spec M (by omega)
    have hr := ratLog2_dyadic m e hmpos
    have hnum : dyadicNum m e ≠ 0 := by have := dyadicNum_pos m e hmpos; omega
    -- the exponent the value is rounded at, and the shift
    have key : ∃ ex : Int, (ex = if (ilog2 m : Int) + e < -126 then -126 else (ilog2 m : Int) + e) ∧
        (ex + 126).toNat = A ∧ (e + 23 - ex).toNat = j ∧ ilog2 m < 24 := by
      clear hr
      rw [hlog] at hMspec
      generalize ilog2 m = L at *
      have hLj : L + j < 24 := (Nat.pow_lt_pow_iff_right (by decide : 1 < 2)).1 (Nat.lt_of_le_of_lt hMspec.1 hM)
      by_cases hn : 2 ^ 23 ≤ M
      · have h23 : 23 < L + j + 1 := (Nat.pow_lt_pow_iff_right (by decide : 1 < 2)).1 (Nat.lt_of_le_of_lt hn hMspec.2)
        have hc : ¬ ((L : Int) + e < -126) := by omega
        exact ⟨(L : Int) + e, by rw [if_neg hc], by omega, by omega, by omega⟩
      · have hA0 : A = 0 := hsub (by omega)
        have hLj' : L + j < 23 :=
          (Nat.pow_lt_pow_iff_right (by decide : 1 < 2)).1 (Nat.lt_of_le_of_lt hMspec.1 (by omega))
        have hc : (L : Int) + e < -126 := by omega
        exact ⟨-126, by rw [if_pos hc], by omega, by omega, by omega⟩
    obtain ⟨ex, hex, hA', ht, hL⟩ := key
    have hmag := roundMag_dyadic32' m (ilog2 m) e ex hr hL hex (by clear hr; omega)
    rw [hA', ht, ← hMm] at hmag
    unfold packFin32 roundBits
    simp only [hnum, if_false]
    rw [hmag]
    have hlt : ¬ ((2 ^ 8 - 1) * 2 ^ 23 ≤ A * 2 ^ 23 + M) := by
      have : (2 ^ 8 - 1) * 2 ^ 23 = 255 * 2 ^ 23 := by decide
      rw [this, p23]; rw [p24] at hM; clear hmag hr; omega
    rw [if_neg hlt]
    simp only [Bool.false_eq_true, if_false]

theorem mk_isFin (s : Bool) (M : Nat) (E : Int) : ∃ m e, FVal.mk s M E = .fin s m e := by
  unfold FVal.mk; split
  · exact ⟨_, _, rfl⟩
  · exact ⟨_, _, rfl⟩

/-- `struct.pack('>f', v)` of a float whose value is that of the non-NaN binary32 pattern `b` is `b` itself. -/
theorem pack32_of_val (v b : Nat) (hb : b < 2 ^ 32) (hval : f64Val v = ieeeVal 8 23 b)
    (hnn : ¬ (b / 2 ^ 23 % 256 = 255 ∧ b % 2 ^ 23 ≠ 0)) : packIEEE 8 23 v = some b := by
  have p23 : (2 : Nat) ^ 23 = 8388608 := by decide
  have p24 : (2 : Nat) ^ 24 = 16777216 := by decide
  have p31 : (2 : Nat) ^ 31 = 2147483648 := by decide
  have p32 : (2 : Nat) ^ 32 = 4294967296 := by decide
  have p8 : (2 : Nat) ^ 8 = 256 := by decide
  have hb8 : ((2 : Int) ^ (8 - 1) - 1) = 127 := by decide
  unfold packIEEE
  rw [hval]
  unfold ieeeVal
  simp only [hb8, p8, show 8 + 23 = 31 from rfl]
  rw [p23] at hnn
  rw [p32] at hb
  rw [p23, p31]
  have hef : b / 8388608 % 256 < 256 := Nat.mod_lt _ (by decide)
  have hmf : b % 8388608 < 8388608 := Nat.mod_lt _ (by decide)
  have hre : b = (if decide (b / 2147483648 % 2 = 1) = true then 2147483648 else 0) +
      (b / 8388608 % 256 * 8388608 + b % 8388608) := by
    by_cases h : b / 2147483648 % 2 = 1
    · simp only [h, decide_true, if_true]; omega
    · simp only [h, decide_false, Bool.false_eq_true, if_false]; omega
  generalize decide (b / 2147483648 % 2 = 1) = s at hre ⊢
  generalize b / 8388608 % 256 = ef at *
  generalize b % 8388608 = mf at *
  by_cases h255 : ef = 256 - 1
  · have hm0 : mf = 0 := by
      cases hc : decide (mf = 0)
      · exfalso; apply hnn; exact ⟨by omega, by simpa using hc⟩
      · simpa using hc
    subst hm0
    rw [if_pos h255, if_pos rfl]
    simp only []
    rw [hre, h255]
  · rw [if_neg h255]
    by_cases h0 : ef = 0
    · rw [if_pos h0]
      have hp := packFin32_mk s 0 mf (by decide) (by rw [p24]; omega) (fun _ => rfl)
      obtain ⟨m', e', hmk⟩ := mk_isFin s mf (((0 : Nat) : Int) - 149)
      have e1 : (1 : Int) - 127 - ((23 : Nat) : Int) = ((0 : Nat) : Int) - 149 := by decide
      rw [e1, hmk]
      rw [hmk] at hp
      simp only [packFin32] at hp
      simp only []
      rw [hp, hre, h0, p31, p23]
    · rw [if_neg h0]
      have hp := packFin32_mk s (ef - 1) (8388608 + mf) (by omega) (by rw [p24]; omega)
        (fun h => by rw [p23] at h; omega)
      obtain ⟨m', e', hmk⟩ := mk_isFin s (8388608 + mf) (((ef - 1 : Nat) : Int) - 149)
      have e1 : ((ef : Nat) : Int) - 127 - ((23 : Nat) : Int) = ((ef - 1 : Nat) : Int) - 149 := by omega
      rw [e1, hmk]
      rw [hmk] at hp
      simp only [packFin32] at hp
      simp only []
      rw [hp, p31, p23]
      have : (if s = true then 2147483648 else 0) + ((ef - 1) * 8388608 + (8388608 + mf)) = b := by
        rw [hre]; cases s <;> simp <;> omega
      rw [this]

/-! ### bfloat: decode, then encode -/

/-- The bfloat code `c` (big-endian reading) is a NaN: exponent field all ones, mantissa field non-zero. -/
def bfCodeIsNaN (c : Nat) : Prop := c / 128 % 256 = 255 ∧ c % 128 ≠ 0

theorem bfloat_reencode_be (c : Nat) (hc : c < 65536) (hnn : ¬ bfCodeIsNaN c) :
    bfloatEnc true (bfloatDec true c) = c := by
  have hval := (bfChk_spec (bfChk_all c hc)).1
  have hb : c * 65536 < 2 ^ 32 := by
    have : (2 : Nat) ^ 32 = 4294967296 := by decide
    rw [this]; omega
  have hn2 : ¬ (c * 65536 / 2 ^ 23 % 256 = 255 ∧ c * 65536 % 2 ^ 23 ≠ 0) := by
    have p23 : (2 : Nat) ^ 23 = 8388608 := by decide
    rw [p23]
    unfold bfCodeIsNaN at hnn
    omega
  have hp := pack32_of_val (bfloatDec true c) (c * 65536) hb hval hn2
  unfold bfloatEnc
  rw [hp]
  simp only [if_true]
  exact Nat.mul_div_cancel c (by decide)

theorem bswap16_bswap16 (c : Nat) (hc : c < 65536) : bswap16 (bswap16 c) = c := by
  unfold bswap16
  have h1 : c / 256 % 256 = c / 256 := Nat.mod_eq_of_lt (by omega)
  rw [h1]
  have h2 : (c % 256 * 256 + c / 256) % 256 = c / 256 := by omega
  have h3 : (c % 256 * 256 + c / 256) / 256 % 256 = c % 256 := by omega
  rw [h2, h3]; omega

theorem bswap16_lt (c : Nat) : bswap16 c < 65536 := by unfold bswap16; omega

theorem bfloat_reencode_le (c : Nat) (hc : c < 65536) (hnn : ¬ bfCodeIsNaN (bswap16 c)) :
    bfloatEnc false (bfloatDec false c) = c := by
  have h := bfloat_reencode_be (bswap16 c) (bswap16_lt c) hnn
  have e1 : bfloatDec false c = bfloatDec true (bswap16 c) := rfl
  have e2 : ∀ f, bfloatEnc false f = bswap16 (bfloatEnc true f) := fun f => by unfold bfloatEnc; rfl
  rw [e1, e2, h, bswap16_bswap16 c hc]

end BM.C11
