/-
  Proofs/C14Ops.lean — helper lemmas for Props/C14_Ops.lean.
-/
import BitstringModel.Model.C14
import BitstringModel.Proofs.C14
import BitstringModel.Proofs.C14Items

namespace BM.C14
open BM

variable {V : Type}

theorem len_eq' (c : Codec V) (d : Bits) : len c d = (items c d).length := by
  simp [len, items, chunks_len]

theorem mapM_cons_ok_inv {α β} (f : α → Except Err β) (a : α) (l : List α) (rs : List β)
    (h : (a :: l).mapM f = .ok rs) : ∃ r rs', f a = .ok r ∧ l.mapM f = .ok rs' ∧ rs = r :: rs' := by
  rw [List.mapM_cons] at h
  cases hfa : f a with
  | error e => rw [hfa] at h; cases h
  | ok r =>
    cases hl : l.mapM f with
    | error e => rw [hfa, hl] at h; cases h
    | ok rs' =>
      rw [hfa, hl] at h
      injection h with h
      exact ⟨r, rs', rfl, rfl, h.symm⟩

theorem mapM_nil_ok_inv {α β} (f : α → Except Err β) (rs : List β) (h : ([] : List α).mapM f = .ok rs) : rs = [] := by
  rw [List.mapM_nil] at h
  injection h with h
  exact h.symm

/-- From "the operator succeeds on every item and every result fits" to the per-item build results. -/
theorem build_forall₂ {α W} (cr : Codec V) (hwfr : cr.WF) (f : W → Except Err V) (g : α → W)
    (l : List α) (rs : List V) (outs : List Bits) (hf : (l.map g).mapM f = .ok rs) (henc : rs.mapM cr.enc = .ok outs) :
    List.Forall₂ (fun a o => buildResult cr (f (g a)) = .ok o) l outs := by
  induction l generalizing rs outs with
  | nil =>
    have := mapM_nil_ok_inv f rs hf
    subst this
    have := mapM_nil_ok_inv cr.enc outs henc
    subst this
    exact List.Forall₂.nil
  | cons a l ih =>
    rw [List.map_cons] at hf
    obtain ⟨r, rs', h1, h2, rfl⟩ := mapM_cons_ok_inv f (g a) (l.map g) rs hf
    obtain ⟨o, outs', h3, h4, rfl⟩ := mapM_cons_ok_inv cr.enc r rs' outs henc
    refine List.Forall₂.cons ?_ (ih rs' outs' h2 h4)
    simp only [buildResult, h1]
    exact (createElement_ok cr hwfr r o h3).1

theorem drop_take_succ {α} (l : List α) (j m : Nat) (hj : j < l.length) :
    (l.drop j).take (m + 1) = l[j] :: (l.drop (j + 1)).take m := by
  rw [List.drop_eq_getElem_cons hj, List.take_succ_cons]

/-- The element loop on items `j … j+m-1` when every build succeeds. -/
theorem opLoop_ok (c cr : Codec V) (f : V → Except Err V) (bs : List Bits) (t : Bits)
    (hbs : ∀ b ∈ bs, b.length = c.w) (m j : Nat) (hj : j + m ≤ bs.length) (outs : List Bits)
    (h : List.Forall₂ (fun b o => buildResult cr (f (c.dec b)) = .ok o) ((bs.drop j).take m) outs) (nd : Bits) (fails : Nat) :
    opLoop c cr f (bs.flatten ++ t) (List.range' j m) nd fails = .ok (nd ++ outs.flatten, fails) := by
  induction m generalizing j outs nd with
  | zero =>
    simp only [List.take_zero] at h
    cases h
    simp [opLoop]
  | succ m ih =>
    have hjl : j < bs.length := by omega
    rw [drop_take_succ bs j m hjl] at h
    cases h with
    | cons h1 h2 =>
      rename_i o outs'
      rw [List.range'_succ]
      unfold opLoop
      rw [readAt_block c bs t hbs j hjl]
      simp only [h1]
      rw [ih (j + 1) (by omega) outs' h2]
      simp

/-- The failure counter never decreases, and increases when some item's build fails (unless the loop raises). -/
theorem opLoop_fails (c cr : Codec V) (f : V → Except Err V) (bs : List Bits) (t : Bits)
    (hbs : ∀ b ∈ bs, b.length = c.w) (m j : Nat) (hj : j + m ≤ bs.length) (nd : Bits) (fails : Nat) :
    match opLoop c cr f (bs.flatten ++ t) (List.range' j m) nd fails with
    | .error _ => True
    | .ok (_, fails') => fails ≤ fails' ∧
        ((∃ b ∈ (bs.drop j).take m, ∃ e, buildResult cr (f (c.dec b)) = .error e) → fails < fails') := by
  induction m generalizing j nd fails with
  | zero => simp [opLoop]
  | succ m ih =>
    have hjl : j < bs.length := by omega
    rw [List.range'_succ]
    unfold opLoop
    rw [readAt_block c bs t hbs j hjl]
    simp only
    rw [drop_take_succ bs j m hjl]
    cases hb : buildResult cr (f (c.dec bs[j])) with
    | ok o =>
      simp only
      have := ih (j + 1) (by omega) (nd ++ o) fails
      revert this
      cases opLoop c cr f (bs.flatten ++ t) (List.range' (j + 1) m) (nd ++ o) fails with
      | error e => intro _; trivial
      | ok r =>
        obtain ⟨nd', fails'⟩ := r
        simp only
        rintro ⟨h1, h2⟩
        refine ⟨h1, ?_⟩
        rintro ⟨b, hbm, e, he⟩
        rcases List.mem_cons.mp hbm with rfl | hbm
        · rw [hb] at he; cases he
        · exact h2 ⟨b, hbm, e, he⟩
    | error e =>
      simp only
      by_cases hc : caught e = true
      · rw [if_pos hc]
        have := ih (j + 1) (by omega) nd (fails + 1)
        revert this
        cases opLoop c cr f (bs.flatten ++ t) (List.range' (j + 1) m) nd (fails + 1) with
        | error e => intro _; trivial
        | ok r =>
          obtain ⟨nd', fails'⟩ := r
          simp only
          rintro ⟨h1, _⟩
          exact ⟨by omega, fun _ => by omega⟩
      · rw [if_neg hc]
        trivial

/-- The element loop between two Arrays on items `j … j+m-1` when every build succeeds. -/
theorem opLoop2_ok (c1 c2 cr : Codec V) (f : V → V → Except Err V)
    (bs1 : List Bits) (t1 : Bits) (hbs1 : ∀ b ∈ bs1, b.length = c1.w)
    (bs2 : List Bits) (t2 : Bits) (hbs2 : ∀ b ∈ bs2, b.length = c2.w)
    (m j : Nat) (hj1 : j + m ≤ bs1.length) (hj2 : j + m ≤ bs2.length) (outs : List Bits)
    (h : List.Forall₂ (fun (p : Bits × Bits) o => buildResult cr (f (c1.dec p.1) (c2.dec p.2)) = .ok o)
          (((bs1.drop j).take m).zip ((bs2.drop j).take m)) outs) (nd : Bits) (fails : Nat) :
    opLoop2 c1 c2 cr f (bs1.flatten ++ t1) (bs2.flatten ++ t2) (List.range' j m) nd fails
      = .ok (nd ++ outs.flatten, fails) := by
  induction m generalizing j outs nd with
  | zero =>
    simp only [List.take_zero, List.zip_nil_left] at h
    cases h
    simp [opLoop2]
  | succ m ih =>
    have hjl1 : j < bs1.length := by omega
    have hjl2 : j < bs2.length := by omega
    rw [drop_take_succ bs1 j m hjl1, drop_take_succ bs2 j m hjl2, List.zip_cons_cons] at h
    cases h with
    | cons h1 h2 =>
      rename_i o outs'
      rw [List.range'_succ]
      unfold opLoop2
      rw [readAt_block c1 bs1 t1 hbs1 j hjl1, readAt_block c2 bs2 t2 hbs2 j hjl2]
      simp only at h1
      simp only [h1]
      rw [ih (j + 1) (by omega) (by omega) outs' h2]
      simp

theorem rangeLen_exact (n L : Nat) (hL : 0 < L) : Py.rangeLen 0 ((n * L : Nat) : Int) (L : Int) = n := by
  unfold Py.rangeLen
  have hL' : (L : Int) > 0 := by omega
  simp only [hL', if_true]
  cases n with
  | zero => simp
  | succ m =>
    have hpos : (0 : Int) < (((m + 1) * L : Nat) : Int) := by
      have : 0 < (m + 1) * L := Nat.mul_pos (by omega) hL
      omega
    rw [if_pos hpos]
    have e : (((m + 1) * L : Nat) : Int) - 0 - 1 = ((L : Int) - 1) + (m : Int) * L := by
      push_cast; ring
    rw [e, Int.add_mul_ediv_right _ _ (by omega), Int.ediv_eq_zero_of_lt (by omega) (by omega)]
    omega

theorem int_off (k L : Nat) : (0 : Int) + (k : Int) * (L : Int) = ((k * L : Nat) : Int) := by
  push_cast; ring

/-- One iteration of the bit-wise loop on item `k` of a buffer in block form. -/
theorem bitwise_step (L : Nat) (op : Bool → Bool → Bool) (v : Bits) (B : List Bits) (t : Bits)
    (hB : ∀ b ∈ B, b.length = L) (k : Nat) (hk : k < B.length) :
    bsetSlice (B.flatten ++ t) ((0 : Int) + (k : Int) * (L : Int)) ((0 : Int) + (k : Int) * (L : Int) + (L : Int))
      (List.zipWith op (bslice (B.flatten ++ t) (some ((0 : Int) + (k : Int) * (L : Int)))
        (some ((0 : Int) + (k : Int) * (L : Int) + (L : Int)))) v)
      = (B.set k (List.zipWith op B[k] v)).flatten ++ t := by
  have hlen : (B.flatten ++ t).length = B.length * L + t.length := by
    rw [List.length_append, blocks_flatten_length L B hB]
  have hk' : (k + 1) * L ≤ B.length * L := Nat.mul_le_mul_right _ hk
  have e1 : (k + 1) * L = k * L + L := by ring
  have e2 : (0 : Int) + (k : Int) * (L : Int) + (L : Int) = ((k * L + L : Nat) : Int) := by push_cast; ring
  rw [e2, int_off]
  rw [bslice_nat _ _ _ (by omega) (by omega), bsetSlice_nat _ _ _ _ (by omega) (by omega) (by omega)]
  have : k * L + L - k * L = L := by omega
  rw [this, block_at L B t hB k hk, set_block L B t _ hB k hk]

theorem getElem_mid {α} (l1 l2 : List α) (a : α) (m : Nat) (h : l1.length = m) (hm : m < (l1 ++ a :: l2).length) :
    (l1 ++ a :: l2)[m] = a := by
  subst h; simp

theorem set_mid {α} (l1 l2 : List α) (a x : α) (m : Nat) (h : l1.length = m) :
    (l1 ++ a :: l2).set m x = l1 ++ x :: l2 := by
  subst h; simp

theorem bitwise_fold (L : Nat) (op : Bool → Bool → Bool) (v : Bits) (hv : v.length = L) (bs : List Bits) (t : Bits)
    (hbs : ∀ b ∈ bs, b.length = L) (m : Nat) (hm : m ≤ bs.length) :
    (List.range m).foldl (fun acc (k : Nat) =>
        bsetSlice acc ((0 : Int) + (k : Int) * (L : Int)) ((0 : Int) + (k : Int) * (L : Int) + (L : Int))
          (List.zipWith op (bslice acc (some ((0 : Int) + (k : Int) * (L : Int)))
            (some ((0 : Int) + (k : Int) * (L : Int) + (L : Int)))) v)) (bs.flatten ++ t)
      = ((bs.take m).map (fun b => List.zipWith op b v) ++ bs.drop m).flatten ++ t := by
  induction m with
  | zero => simp
  | succ m ih =>
    have hml : m < bs.length := by omega
    rw [List.range_succ, List.foldl_append, ih (by omega)]
    simp only [List.foldl_cons, List.foldl_nil]
    rw [List.drop_eq_getElem_cons hml]
    have hlt : (List.map (fun b => List.zipWith op b v) (List.take m bs)).length = m := by simp; omega
    have hB : ∀ b ∈ (bs.take m).map (fun b => List.zipWith op b v) ++ bs[m] :: bs.drop (m + 1), b.length = L := by
      intro b hb
      rcases List.mem_append.mp hb with h | h
      · obtain ⟨x, hx, rfl⟩ := List.mem_map.mp h
        simp [hbs x (List.mem_of_mem_take hx), hv]
      · rcases List.mem_cons.mp h with rfl | h
        · exact hbs _ (List.getElem_mem hml)
        · exact hbs b (List.mem_of_mem_drop h)
    have hkB : m < ((bs.take m).map (fun b => List.zipWith op b v) ++ bs[m] :: bs.drop (m + 1)).length := by
      simp; omega
    rw [bitwise_step L op v _ t hB m hkB]
    congr 2
    rw [getElem_mid _ _ _ m hlt hkB, set_mid _ _ _ _ m hlt]
    have : List.take (m + 1) bs = List.take m bs ++ [bs[m]] := by
      rw [List.take_add_one, List.getElem?_eq_getElem hml]; rfl
    rw [this, List.map_append, List.map_cons, List.map_nil]
    simp

theorem map_blocks_length (L : Nat) (op : Bool → Bool → Bool) (v : Bits) (hv : v.length = L) (bs : List Bits)
    (hbs : ∀ b ∈ bs, b.length = L) : ∀ b ∈ bs.map (fun b => List.zipWith op b v), b.length = L := by
  intro b hb
  obtain ⟨x, hx, rfl⟩ := List.mem_map.mp hb
  simp [hbs x hx, hv]

/-- `_apply_bitwise_op_to_all_elements_inplace` on a buffer in block form. -/
theorem bitwiseInplace_blocks (c : Codec V) (hL : 0 < c.w) (op : Bool → Bool → Bool) (v : Bits)
    (hv : v.length = c.w) (bs : List Bits) (t : Bits) (hbs : ∀ b ∈ bs, b.length = c.w) (ht : t.length < c.w) :
    bitwiseInplace c op (bs.flatten ++ t) v = ⟨(bs.map fun b => List.zipWith op b v).flatten ++ t, .ok ()⟩ := by
  unfold bitwiseInplace
  rw [if_neg (not_not.mpr hv), (view_of_blocks c hL bs t hbs ht).2.2.2]
  unfold Py.rangeList
  rw [rangeLen_exact bs.length c.w hL, List.foldl_map]
  rw [bitwise_fold c.w op v hv bs t hbs bs.length (Nat.le_refl _)]
  simp

/-- `self[:]` keeps the items and drops the trailing bits. -/
theorem getSlice_all_blocks (c : Codec V) (hL : 0 < c.w) (bs : List Bits) (t : Bits)
    (hbs : ∀ b ∈ bs, b.length = c.w) (ht : t.length < c.w) :
    getSlice c (bs.flatten ++ t) none none none = .ok bs.flatten := by
  unfold getSlice
  simp only [Option.getD_none]
  have h1 : ¬ ((1 : Int) = 0) := by omega
  rw [if_neg h1, if_neg (by simp)]
  rw [(view_of_blocks c hL bs t hbs ht).2.2.2, C01.sliceIndices_none_none_pos 1 (by omega)]
  simp only
  have e1 : (0 : Int) * (c.w : Int) = ((0 : Nat) : Int) := by simp
  have e2 : (bs.length : Int) * (c.w : Int) = ((bs.length * c.w : Nat) : Int) := by push_cast; rfl
  have hlen : (bs.flatten ++ t).length = bs.length * c.w + t.length := by
    rw [List.length_append, blocks_flatten_length c.w bs hbs]
  rw [e1, e2, bslice_nat _ _ _ (by omega) (by omega)]
  simp only [List.drop_zero, Nat.sub_zero]
  rw [take_blocks c.w bs t hbs bs.length (Nat.le_refl _), List.take_length]

end BM.C14
