/-
  Proofs/C07Split.lean — helper lemmas for Props/C07_Split.lean (greedy selection, split/replace/cut loops).
-/
import BitstringModel.Model.C07
import BitstringModel.Proofs.C07
import BitstringModel.Props.C07
import Mathlib.Data.List.Basic
namespace BM.C07.Split
open BM BM.C07

/-! ### greedy selection -/

theorem sel_sub (m : Nat) (l : List Nat) :
    ∀ lim, ∀ x ∈ selectNonOverlap m lim l, x ∈ l ∧ lim ≤ x := by
  induction l with
  | nil => intro lim x hx; simp [selectNonOverlap] at hx
  | cons a t ih =>
    intro lim x hx
    simp only [selectNonOverlap] at hx
    split at hx
    · rcases List.mem_cons.1 hx with rfl | h
      · exact ⟨List.mem_cons_self, by assumption⟩
      · have := ih _ _ h
        exact ⟨List.mem_cons_of_mem _ this.1, by omega⟩
    · have := ih _ _ hx
      exact ⟨List.mem_cons_of_mem _ this.1, this.2⟩

theorem sel_nonoverlapping (m : Nat) (l : List Nat) :
    ∀ lim, (selectNonOverlap m lim l).Pairwise (fun x y => x + m ≤ y) := by
  induction l with
  | nil => intro lim; simp [selectNonOverlap]
  | cons a t ih =>
    intro lim
    simp only [selectNonOverlap]
    split
    · exact List.pairwise_cons.2 ⟨fun y hy => (sel_sub m t _ y hy).2, ih _⟩
    · exact ih _

theorem sel_greedy (m : Nat) (l : List Nat) (hs : l.Pairwise (· < ·)) :
    ∀ lim, ∀ x ∈ l, lim ≤ x → x ∉ selectNonOverlap m lim l →
      ∃ y ∈ selectNonOverlap m lim l, y < x ∧ x < y + m := by
  induction l with
  | nil => intro lim x hx; simp at hx
  | cons a t ih =>
    intro lim x hx hlim hnot
    have hs' := List.pairwise_cons.1 hs
    simp only [selectNonOverlap] at hnot ⊢
    split at hnot
    · rename_i hla
      rw [if_pos hla]
      rcases List.mem_cons.1 hx with rfl | hxt
      · exact absurd List.mem_cons_self hnot
      · have hax : a < x := hs'.1 x hxt
        by_cases h : a + m ≤ x
        · have hnot' : x ∉ selectNonOverlap m (a + m) t := fun h' => hnot (List.mem_cons_of_mem _ h')
          obtain ⟨y, hy, h1, h2⟩ := ih hs'.2 (a + m) x hxt h hnot'
          exact ⟨y, List.mem_cons_of_mem _ hy, h1, h2⟩
        · exact ⟨a, List.mem_cons_self, hax, by omega⟩
    · rename_i hla
      rw [if_neg hla]
      rcases List.mem_cons.1 hx with rfl | hxt
      · exact absurd hlim hla
      · exact ih hs'.2 lim x hxt hlim hnot

/-- Dropping the elements below `lim ≤ lim'` does not change the selection from `lim'`. -/
theorem sel_filter (m : Nat) (l : List Nat) :
    ∀ lim lim', lim ≤ lim' →
      selectNonOverlap m lim' l = selectNonOverlap m lim' (l.filter fun p => decide (lim ≤ p)) := by
  induction l with
  | nil => intro lim lim' _; rfl
  | cons a t ih =>
    intro lim lim' h
    by_cases ha : lim ≤ a
    · rw [List.filter_cons_of_pos (by simpa using ha)]
      simp only [selectNonOverlap]
      split
      · rw [← ih lim (a + m) (by omega)]
      · exact ih lim lim' h
    · rw [List.filter_cons_of_neg (by simpa using ha)]
      simp only [selectNonOverlap]
      rw [if_neg (by omega)]
      exact ih lim lim' h

/-! ### replace -/

theorem replaceSelLoop_gen (m count : Nat) (l : List Nat) :
    ∀ (last : Nat) (rest : List Nat) (n : Nat), n = (last :: rest).length → (count = 0 ∨ n < count) →
      replaceSelLoop m count (last :: rest) n l =
        (last :: rest).reverse ++
          (if count = 0 then selectNonOverlap m (last + m) l
           else (selectNonOverlap m (last + m) l).take (count - n)) := by
  induction l with
  | nil => intro last rest n _ _; simp [replaceSelLoop, selectNonOverlap]
  | cons x xs ih =>
    intro last rest n hn hcnt
    simp only [replaceSelLoop, selectNonOverlap]
    by_cases hx : last + m ≤ x
    · simp only [if_pos hx]
      by_cases hstop : count ≠ 0 ∧ n + 1 = count
      · rw [if_pos hstop, if_neg hstop.1]
        have : count - n = 1 := by omega
        rw [this]
        simp
      · rw [if_neg hstop]
        rw [ih x (last :: rest) (n + 1) (by simp [hn]) (by omega)]
        by_cases hc0 : count = 0
        · simp [hc0]
        · simp only [if_neg hc0]
          have : count - n = (count - (n + 1)) + 1 := by omega
          rw [this, List.take_succ_cons]
          simp
    · simp only [if_neg hx]
      rw [if_neg (by omega)]
      exact ih last rest n hn hcnt

theorem replaceSelLoop_init (m count : Nat) (l : List Nat) :
    replaceSelLoop m count [] 0 l =
      if count = 0 then selectNonOverlap m 0 l else (selectNonOverlap m 0 l).take count := by
  cases l with
  | nil => simp [replaceSelLoop, selectNonOverlap]
  | cons x xs =>
    simp only [replaceSelLoop, selectNonOverlap, Nat.zero_le, if_true]
    by_cases hstop : count ≠ 0 ∧ 1 = count
    · rw [if_pos hstop, if_neg hstop.1, ← hstop.2]
      simp
    · rw [if_neg hstop, replaceSelLoop_gen m count xs x [] 1 (by simp) (by omega)]
      by_cases hc0 : count = 0
      · simp [hc0]
      · simp only [if_neg hc0]
        have : count = (count - 1) + 1 := by omega
        conv => rhs; rw [this, List.take_succ_cons]
        simp

theorem replaceAssemble_gen (data new : Bits) (m : Nat) (ps : List Nat) :
    ∀ cur p, slice data cur p ++ replaceAssemble data new m (p :: ps) = spliceFrom data new m cur (p :: ps) := by
  induction ps with
  | nil => intro cur p; simp [replaceAssemble, spliceFrom]
  | cons q rest ih =>
    intro cur p
    simp only [replaceAssemble]
    rw [spliceFrom, ← ih (p + m) q]
    simp [List.append_assoc]


/-! ### slices -/

theorem slice_length {α} (data : List α) (a b : Nat) :
    (slice data a b).length = min (b - a) (data.length - a) := by
  simp [slice]

theorem slice_append {α} (data : List α) (a b c : Nat) (hab : a ≤ b) (hbc : b ≤ c) :
    slice data a b ++ slice data b c = slice data a c := by
  unfold slice
  have h1 : c - a = (b - a) + (c - b) := by omega
  rw [h1, List.take_add, List.drop_drop]
  have h2 : a + (b - a) = b := by omega
  rw [h2]

/-! ### occ from a later start -/

theorem occ_filter_ge (data pat : Bits) (s q e : Nat) (al : Bool) (h : s ≤ q) :
    occ data pat q e al = (occ data pat s e al).filter fun p => decide (q ≤ p) := by
  simp only [occ, occG, List.filter_filter]
  apply List.filter_congr
  intro p _
  by_cases h1 : q ≤ p
  · have : s ≤ p := by omega
    simp [h1, this]
  · simp [h1]

/-! ### split -/

theorem findMsb0_head (data pat : Bits) (q e : Nat) (al : Bool) (hne : pat ≠ []) (he : e ≤ data.length) :
    findMsb0 data pat q e al = (occ data pat q e al).head? := by
  rw [findMsb0, storeFind_eq data pat q e al hne he, specFind]

/-- One search step: the first match at or after `q` is selected, and the selection continues with the matches
    found by searching again from its end. -/
theorem sel_step (data pat : Bits) (lim q e : Nat) (al : Bool) (hne : pat ≠ []) (hlq : lim ≤ q)
    (f : Nat) (rest : List Nat) (hocc : occ data pat q e al = f :: rest) :
    selectNonOverlap pat.length lim (occ data pat q e al) =
      f :: selectNonOverlap pat.length (f + pat.length) (occ data pat (f + pat.length) e al) := by
  have hm : 0 < pat.length := List.length_pos_iff.2 hne
  have hf : f ∈ occ data pat q e al := by rw [hocc]; exact List.mem_cons_self
  have hqf : q ≤ f := ((occ_mem_iff data pat q e al f).1 hf).1
  have h1 : selectNonOverlap pat.length (f + pat.length) rest
      = selectNonOverlap pat.length (f + pat.length) (f :: rest) := by
    simp only [selectNonOverlap]
    rw [if_neg (by omega)]
  rw [occ_filter_ge data pat q (f + pat.length) e al (by omega),
    ← sel_filter pat.length _ (f + pat.length) (f + pat.length) (Nat.le_refl _), hocc]
  rw [← h1]
  simp only [selectNonOverlap]
  rw [if_pos (by omega)]

theorem splitLoop_stop (data pat : Bits) (e : Nat) (al : Bool) (n fuel sp pos c : Nat) (h : n ≤ c) :
    splitLoop data pat e al (some n) fuel sp pos c = [] := by
  cases fuel with
  | zero => rfl
  | succ k =>
    simp only [splitLoop]
    rw [if_neg (by simpa using h)]

theorem splitLoop_none (data pat : Bits) (e : Nat) (al : Bool) (hne : pat ≠ [])
    (he : e ≤ data.length) :
    ∀ fuel sp pos c, pos + pat.length ≤ e → e < fuel + pos + pat.length →
      splitLoop data pat e al none fuel sp pos c =
        piecesAt data e sp (selectNonOverlap pat.length (pos + pat.length)
                    (occ data pat (pos + pat.length) e al)) := by
  have hm : 0 < pat.length := List.length_pos_iff.2 hne
  intro fuel
  induction fuel with
  | zero => intro sp pos c h1 h2; omega
  | succ k ih =>
    intro sp pos c h1 h2
    simp only [splitLoop, if_true]
    rw [findMsb0_head data pat _ e al hne he]
    cases hocc : occ data pat (pos + pat.length) e al with
    | nil => simp [selectNonOverlap, piecesAt]
    | cons f rest =>
      have hf : f ∈ occ data pat (pos + pat.length) e al := by rw [hocc]; exact List.mem_cons_self
      have hfm := (occ_mem_iff data pat (pos + pat.length) e al f).1 hf
      have hstep := sel_step data pat (pos + pat.length) (pos + pat.length) e al hne (Nat.le_refl _) f rest hocc
      rw [hocc] at hstep
      simp only [List.head?_cons]
      rw [hstep, ih f f (c + 1) hfm.2.1 (by omega)]
      simp [piecesAt]

theorem splitLoop_some (data pat : Bits) (e : Nat) (al : Bool) (n : Nat) (hne : pat ≠ [])
    (he : e ≤ data.length) :
    ∀ fuel sp pos c, pos + pat.length ≤ e → e < fuel + pos + pat.length →
      splitLoop data pat e al (some n) fuel sp pos c =
        (piecesAt data e sp (selectNonOverlap pat.length (pos + pat.length)
                    (occ data pat (pos + pat.length) e al))).take (n - c) := by
  have hm : 0 < pat.length := List.length_pos_iff.2 hne
  intro fuel
  induction fuel with
  | zero => intro sp pos c h1 h2; omega
  | succ k ih =>
    intro sp pos c h1 h2
    by_cases hcn : c < n
    · simp only [splitLoop]
      rw [if_pos (by simpa using hcn), findMsb0_head data pat _ e al hne he]
      cases hocc : occ data pat (pos + pat.length) e al with
      | nil =>
        have : n - c = (n - c - 1) + 1 := by omega
        simp only [List.head?_nil, selectNonOverlap, piecesAt]
        rw [this, List.take_succ_cons]
        simp
      | cons f rest =>
        have hf : f ∈ occ data pat (pos + pat.length) e al := by rw [hocc]; exact List.mem_cons_self
        have hfm := (occ_mem_iff data pat (pos + pat.length) e al f).1 hf
        have hstep := sel_step data pat (pos + pat.length) (pos + pat.length) e al hne (Nat.le_refl _) f rest hocc
        rw [hocc] at hstep
        simp only [List.head?_cons]
        rw [hstep, ih f f (c + 1) hfm.2.1 (by omega)]
        have : n - c = (n - (c + 1)) + 1 := by omega
        simp only [piecesAt]
        rw [this, List.take_succ_cons]
    · rw [splitLoop_stop data pat e al n _ sp pos c (by omega)]
      have : n - c = 0 := by omega
      simp [this]


theorem split_main (data pat : Bits) (start stop : Option Int) (count : Option Int)
    (ba : Option Bool) (optBA : Bool) (hc : ∀ c, count = some c → 0 ≤ c) :
    split data pat start stop count ba optBA =
      specGuard true data.length pat start stop fun s e =>
        specSplit data pat s e (specAligned ba optBA) (countNat count) := by
  unfold split specGuard
  by_cases hp : pat.length = 0
  · have : pat = [] := List.length_eq_zero_iff.1 hp
    subst this; simp
  · have hne : pat ≠ [] := fun h => hp (by simp [h])
    have hie : pat.isEmpty = false := by cases pat <;> simp_all
    rw [if_neg hp]
    simp only [hie, Bool.and_false, Bool.false_eq_true, if_false]
    have hv := validate_slice_spec data.length start stop
    cases hw : specWindow data.length start stop with
    | none => rw [hw] at hv; rw [hv]
    | some w =>
      obtain ⟨s, e⟩ := w
      rw [hw] at hv
      have hb := validate_slice_bounds _ _ _ s e hv
      rw [hv]
      simp only []
      rw [defaultBA_eq]
      generalize specAligned ba optBA = al
      have hfind := findMsb0_head data pat s e al hne hb.2
      have key : ∀ cnt : Option Nat, (match cnt with | none => True | some n => 0 < n) →
          (match findMsb0 data pat s e al with
            | none => [slice data s e]
            | some f => slice data s f :: splitLoop data pat e al cnt (data.length + 1) f f 1)
            = specSplit data pat s e al cnt := by
        intro cnt hcnt
        rw [hfind]
        unfold specSplit
        cases hocc : occ data pat s e al with
        | nil =>
          cases cnt with
          | none => simp [selectNonOverlap, piecesAt]
          | some n =>
            have hn : 0 < n := hcnt
            have : n = (n - 1) + 1 := by omega
            simp only [List.head?_nil, selectNonOverlap, piecesAt]
            rw [this, List.take_succ_cons]
            simp
        | cons f rest =>
          have hf : f ∈ occ data pat s e al := by rw [hocc]; exact List.mem_cons_self
          have hfm := (occ_mem_iff data pat s e al f).1 hf
          have hstep := sel_step data pat 0 s e al hne (Nat.zero_le _) f rest hocc
          rw [hocc] at hstep
          simp only [List.head?_cons]
          rw [hstep]
          cases cnt with
          | none =>
            rw [splitLoop_none data pat e al hne hb.2 _ f f 1 hfm.2.1 (by omega)]
            simp [piecesAt]
          | some n =>
            have hn : 0 < n := hcnt
            rw [splitLoop_some data pat e al n hne hb.2 _ f f 1 hfm.2.1 (by omega)]
            have : n = (n - 1) + 1 := by omega
            simp only [piecesAt]
            conv => rhs; rw [this, List.take_succ_cons]
      cases count with
      | none =>
        have := key none trivial
        simp only [Option.map_none] at this ⊢
        simp only [countNat]
        rw [← this]
        simp
        cases findMsb0 data pat s e al <;> rfl
      | some k =>
        have hk := hc k rfl
        by_cases hk0 : k = 0
        · subst hk0
          simp [countNat, specSplit]
        · have := key (some k.toNat) (by show 0 < k.toNat; omega)
          simp only [countNat]
          rw [← this]
          have h1 : ¬ k < 0 := by omega
          simp [h1, hk0]
          cases findMsb0 data pat s e al <;> rfl


/-! ### replace, whole -/

theorem replaceCore_eq (data old new : Bits) (s e : Nat) (c : Nat) (al : Bool) (cnt : Option Nat)
    (hne : old ≠ []) (he : e ≤ data.length)
    (hcnt : (if c = 0 then selectNonOverlap old.length 0 (occ data old s e al)
              else (selectNonOverlap old.length 0 (occ data old s e al)).take c)
            = specReplaceSel data old s e al cnt) :
    replaceCore data old new s e c al = specReplace data old new s e al cnt := by
  unfold replaceCore specReplace
  rw [findallMsb0_eq_occ data old s e al hne he, replaceSelLoop_init, hcnt]
  cases specReplaceSel data old s e al cnt with
  | nil => simp [spliceFrom]
  | cons p ps =>
    simp only []
    rw [replaceAssemble_gen]

theorem replace_main (data old new : Bits) (start stop : Option Int) (count : Option Int)
    (ba : Option Bool) (optBA : Bool)
    (hc : ∀ c, count = some c → 0 ≤ c) :
    replace data old new start stop count ba optBA =
      specGuard true data.length old start stop fun s e =>
        specReplace data old new s e (specAligned ba optBA) (countNat count) := by
  unfold replace specGuard
  by_cases hp : old.length = 0
  · have : old = [] := List.length_eq_zero_iff.1 hp
    subst this; simp
  · have hne : old ≠ [] := fun h => hp (by simp [h])
    have hie : old.isEmpty = false := by cases old <;> simp_all
    rw [if_neg hp]
    simp only [hie, Bool.and_false, Bool.false_eq_true, if_false]
    have hv := validate_slice_spec data.length start stop
    cases hw : specWindow data.length start stop with
    | none => rw [hw] at hv; rw [hv]
    | some w =>
      obtain ⟨s, e⟩ := w
      rw [hw] at hv
      have hb := validate_slice_bounds _ _ _ s e hv
      rw [hv]
      simp only []
      by_cases h0 : count = some 0
      · subst h0
        simp [countNat, specReplace, specReplaceSel, spliceFrom]
      · rw [if_neg h0]
        rw [defaultBA_eq]
        generalize specAligned ba optBA = al
        congr 1
        apply replaceCore_eq data old new s e _ al _ hne hb.2
        cases count with
        | none => simp [countNat, specReplaceSel]
        | some k =>
          have hk := hc k rfl
          have hk0 : k ≠ 0 := fun h => h0 (by rw [h])
          have : k.toNat ≠ 0 := by omega
          simp [countNat, specReplaceSel, this]


/-! ### cut -/

theorem ceil_zero (b : Nat) (hb : 0 < b) : (0 + b - 1) / b = 0 := by
  apply Nat.div_eq_of_lt; omega

theorem ceil_small (x b : Nat) (h0 : 0 < x) (hx : x ≤ b) : (x + b - 1) / b = 1 := by
  have : x + b - 1 = (x - 1) + b := by omega
  rw [this, Nat.add_div_right _ (by omega), Nat.div_eq_of_lt (by omega)]

theorem ceil_step (x b : Nat) (hb : 0 < b) (hx : b ≤ x) : (x + b - 1) / b = (x - b + b - 1) / b + 1 := by
  have : x + b - 1 = (x - b + b - 1) + b := by omega
  rw [this, Nat.add_div_right _ hb]

theorem ceil_mul_ge (x b : Nat) (hb : 0 < b) : x ≤ ((x + b - 1) / b) * b := by
  have h1 := Nat.div_add_mod (x + b - 1) b
  have h2 := Nat.mod_lt (x + b - 1) hb
  rw [Nat.mul_comm] at h1
  omega

/-- The chunks of the window `[start, e)`. -/
def chunks (data : Bits) (b e start : Nat) : List Bits :=
  (List.range ((e - start + b - 1) / b)).map fun i => slice data (start + i * b) (min (start + (i + 1) * b) e)

theorem chunks_nil (data : Bits) (b e start : Nat) (hb : 0 < b) (h : e ≤ start) : chunks data b e start = [] := by
  unfold chunks
  have : e - start = 0 := by omega
  rw [this, ceil_zero b hb]; rfl

theorem chunks_cons (data : Bits) (b e start : Nat) (hb : 0 < b) (h : start < e) :
    chunks data b e start = slice data start (min (start + b) e) :: chunks data b e (start + b) := by
  unfold chunks
  by_cases hx : e - start ≤ b
  · rw [ceil_small _ b (by omega) hx]
    have : e - (start + b) = 0 := by omega
    rw [this, ceil_zero b hb]
    simp
  · rw [ceil_step _ b hb (by omega)]
    have : e - start - b = e - (start + b) := by omega
    rw [this, List.range_succ_eq_map, List.map_cons, List.map_map]
    congr 1
    · simp
    · apply List.map_congr_left
      intro i _
      simp only [Function.comp]
      have h1 : start + (i + 1) * b = start + b + i * b := by rw [Nat.add_mul]; omega
      have h2 : start + (i + 1 + 1) * b = start + b + (i + 1) * b := by
        rw [Nat.add_mul (i + 1) 1 b]; omega
      rw [h1, h2]

theorem cutLoop_stop (data : Bits) (b e n fuel start c : Nat) (h : n ≤ c) :
    cutLoop data b e (some n) fuel start c = [] := by
  cases fuel with
  | zero => rfl
  | succ k =>
    simp only [cutLoop]
    rw [if_neg (by simpa using h)]

theorem chunk_len (data : Bits) (b e start : Nat) (he : e ≤ data.length) :
    (slice data start (min (start + b) e)).length = min b (e - start) := by
  rw [slice_length]; omega

theorem cutLoop_none (data : Bits) (b e : Nat) (hb : 0 < b) (he : e ≤ data.length) :
    ∀ fuel start c, e < fuel + start → cutLoop data b e none fuel start c = chunks data b e start := by
  intro fuel
  induction fuel with
  | zero => intro start c h; rw [chunks_nil data b e start hb (by omega)]; rfl
  | succ k ih =>
    intro start c h
    simp only [cutLoop, if_true]
    rw [chunk_len data b e start he]
    by_cases h1 : e ≤ start
    · rw [if_pos (by omega), chunks_nil data b e start hb h1]
    · rw [if_neg (by omega), chunks_cons data b e start hb (by omega)]
      by_cases h2 : e - start < b
      · rw [if_pos (by omega), chunks_nil data b e (start + b) hb (by omega)]
      · rw [if_neg (by omega), ih (start + b) (c + 1) (by omega)]

theorem cutLoop_some (data : Bits) (b e n : Nat) (hb : 0 < b) (he : e ≤ data.length) :
    ∀ fuel start c, e < fuel + start →
      cutLoop data b e (some n) fuel start c = (chunks data b e start).take (n - c) := by
  intro fuel
  induction fuel with
  | zero => intro start c h; rw [chunks_nil data b e start hb (by omega), List.take_nil]; rfl
  | succ k ih =>
    intro start c h
    by_cases hcn : c < n
    · simp only [cutLoop]
      rw [if_pos (by simpa using hcn), chunk_len data b e start he]
      have hnc : n - c = (n - (c + 1)) + 1 := by omega
      by_cases h1 : e ≤ start
      · rw [if_pos (by omega), chunks_nil data b e start hb h1, List.take_nil]
      · rw [if_neg (by omega), chunks_cons data b e start hb (by omega), hnc, List.take_succ_cons]
        by_cases h2 : e - start < b
        · rw [if_pos (by omega), chunks_nil data b e (start + b) hb (by omega), List.take_nil]
        · rw [if_neg (by omega), ih (start + b) (c + 1) (by omega)]
    · rw [cutLoop_stop data b e n _ start c (by omega)]
      have : n - c = 0 := by omega
      simp [this]

theorem cut_main (data : Bits) (bits : Int) (start stop : Option Int) (count : Option Int)
    (hb : 0 < bits) (hc : ∀ c, count = some c → 0 ≤ c) :
    cut data bits start stop count =
      specGuard false data.length [] start stop fun s e => specCut data bits.toNat s e (countNat count) := by
  unfold cut specGuard
  simp only [Bool.false_and, Bool.false_eq_true, if_false]
  have hv := validate_slice_spec data.length start stop
  cases hw : specWindow data.length start stop with
  | none => rw [hw] at hv; rw [hv]
  | some w =>
    obtain ⟨s, e⟩ := w
    rw [hw] at hv
    have hbd := validate_slice_bounds _ _ _ s e hv
    rw [hv]
    simp only []
    have hb' : 0 < bits.toNat := by omega
    rw [if_neg (by omega : ¬ bits ≤ 0)]
    cases count with
    | none =>
      simp only [Option.map_none, countNat, specCut]
      rw [cutLoop_none data _ e hb' hbd.2 _ s 0 (by omega)]
      simp [chunks]
    | some k =>
      have hk := hc k rfl
      have h1 : ¬ k < 0 := by omega
      simp only [Option.map_some, countNat, specCut]
      rw [cutLoop_some data _ e _ hb' hbd.2 _ s 0 (by omega)]
      simp [chunks, h1]

theorem chunks_flatten (data : Bits) (b e s : Nat) :
    ∀ k, ((List.range k).map fun i => slice data (s + i * b) (min (s + (i + 1) * b) e)).flatten
      = slice data s (min (s + k * b) e) := by
  intro k
  induction k with
  | zero => simp [slice]
  | succ k ih =>
    rw [List.range_succ, List.map_append, List.flatten_append, ih]
    simp only [List.map_cons, List.map_nil, List.flatten_cons, List.flatten_nil, List.append_nil]
    have h3 : s + k * b ≤ s + (k + 1) * b := by rw [Nat.add_mul]; omega
    by_cases h : s + k * b ≤ e
    · rw [Nat.min_eq_left h]
      exact slice_append data _ _ _ (by omega) (by omega)
    · have h1 : min (s + k * b) e = e := by omega
      have h2 : min (s + (k + 1) * b) e = e := by omega
      rw [h1, h2]
      have : slice data (s + k * b) e = [] := by
        unfold slice
        have : e - (s + k * b) = 0 := by omega
        rw [this]; rfl
      rw [this, List.append_nil]


theorem specCut_flatten_main (data : Bits) (bits s e : Nat) (hb : 0 < bits) (hse : s ≤ e) :
    (specCut data bits s e none).flatten = slice data s e := by
  simp only [specCut]
  rw [chunks_flatten]
  have := ceil_mul_ge (e - s) bits hb
  rw [Nat.min_eq_right (by omega)]

theorem specCut_lengths_main (data : Bits) (bits s e : Nat) (hb : 0 < bits) (he : e ≤ data.length)
    (i : Nat) (hi : i < (specCut data bits s e none).length) :
    (i + 1 < (specCut data bits s e none).length → ((specCut data bits s e none)[i]).length = bits) ∧
    0 < ((specCut data bits s e none)[i]).length ∧ ((specCut data bits s e none)[i]).length ≤ bits := by
  simp only [specCut, List.length_map, List.length_range] at hi ⊢
  simp only [List.getElem_map, List.getElem_range, slice_length]
  have h1 : (i + 1) * bits ≤ e - s + bits - 1 := (Nat.le_div_iff_mul_le hb).1 hi
  rw [Nat.add_mul, Nat.one_mul] at h1 ⊢
  refine ⟨?_, by omega, by omega⟩
  intro h2
  have h3 : (i + 1 + 1) * bits ≤ e - s + bits - 1 := (Nat.le_div_iff_mul_le hb).1 h2
  rw [Nat.add_mul, Nat.add_mul, Nat.one_mul] at h3
  omega

/-! ### the pieces of `split` tile the window -/

theorem piecesAt_flatten (data : Bits) (e : Nat) (ps : List Nat) :
    ∀ fr, fr ≤ e → (∀ q ∈ ps, fr ≤ q ∧ q ≤ e) → ps.Pairwise (· ≤ ·) →
      (piecesAt data e fr ps).flatten = slice data fr e := by
  induction ps with
  | nil => intro fr _ _ _; simp [piecesAt]
  | cons p ps ih =>
    intro fr hfe hmem hpw
    have hp := hmem p List.mem_cons_self
    have hpw' := List.pairwise_cons.1 hpw
    simp only [piecesAt, List.flatten_cons]
    rw [ih p hp.2 (fun q hq => ⟨hpw'.1 q hq, (hmem q (List.mem_cons_of_mem _ hq)).2⟩) hpw'.2]
    exact slice_append data fr p e hp.1 hp.2

theorem specSplit_flatten_main (data pat : Bits) (s e : Nat) (al : Bool) (hse : s ≤ e) :
    (specSplit data pat s e al none).flatten = slice data s e := by
  simp only [specSplit]
  apply piecesAt_flatten data e _ s hse
  · intro q hq
    have h1 := (sel_sub pat.length _ 0 q hq).1
    have h2 := (occ_mem_iff data pat s e al q).1 h1
    omega
  · exact (sel_nonoverlapping pat.length _ 0).imp (fun h => by omega)

end BM.C07.Split
