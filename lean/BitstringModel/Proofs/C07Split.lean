/-
  Proofs/C07Split.lean — helper lemmas for Props/C07_Split.lean (greedy selection, split/replace/cut loops).
-/
import BitstringModel.Model.C07
import BitstringModel.Proofs.C07
import BitstringModel.Props.C07
import Mathlib.Data.List.Basic
namespace BM.C07.Split
open BM BM.C07

/-! ### greedy selection -/

theorem sel_sub (m : Nat) (l : List Nat) :
    ∀ lim, ∀ x ∈ selectNonOverlap m lim l, x ∈ l ∧ lim ≤ x := by
  induction l with
  | nil => intro lim x hx; simp [selectNonOverlap] at hx
  | cons a t ih =>
    intro lim x hx
    simp only [selectNonOverlap] at hx
    split at hx
    · rcases List.mem_cons.1 hx with rfl | h
      · exact ⟨List.mem_cons_self, by assumption⟩
      · have := ih _ _ h
        exact ⟨List.mem_cons_of_mem _ this.1, by omega⟩
    · have := ih _ _ hx
      exact ⟨List.mem_cons_of_mem _ this.1, this.2⟩

theorem sel_nonoverlapping (m : Nat) (l : List Nat) :
    ∀ lim, (selectNonOverlap m lim l).Pairwise (fun x y => x + m ≤ y) := by
  induction l with
  | nil => intro lim; simp [selectNonOverlap]
  | cons a t ih =>
    intro lim
    simp only [selectNonOverlap]
    split
    · exact List.pairwise_cons.2 ⟨fun y hy => (sel_sub m t _ y hy).2, ih _⟩
    · exact ih _

theorem sel_greedy (m : Nat) (l : List Nat) (hs : l.Pairwise (· < ·)) :
    ∀ lim, ∀ x ∈ l, lim ≤ x → x ∉ selectNonOverlap m lim l →
      ∃ y ∈ selectNonOverlap m lim l, y < x ∧ x < y + m := by
  induction l with
  | nil => intro lim x hx; simp at hx
  | cons a t ih =>
    intro lim x hx hlim hnot
    have hs' := List.pairwise_cons.1 hs
    simp only [selectNonOverlap] at hnot ⊢
    split at hnot
    · rename_i hla
      rw [if_pos hla]
      rcases List.mem_cons.1 hx with rfl | hxt
      · exact absurd List.mem_cons_self hnot
      · have hax : a < x := hs'.1 x hxt
        by_cases h : a + m ≤ x
        · have hnot' : x ∉ selectNonOverlap m (a + m) t := fun h' => hnot (List.mem_cons_of_mem _ h')
          obtain ⟨y, hy, h1, h2⟩ := ih hs'.2 (a + m) x hxt h hnot'
          exact ⟨y, List.mem_cons_of_mem _ hy, h1, h2⟩
        · exact ⟨a, List.mem_cons_self, hax, by omega⟩
    · rename_i hla
      rw [if_neg hla]
      rcases List.mem_cons.1 hx with rfl | hxt
      · exact absurd hlim hla
      · exact ih hs'.2 lim x hxt hlim hnot

/-- Dropping the elements below `lim ≤ lim'` does not change the selection from `lim'`. -/
theorem sel_filter (m : Nat) (l : List Nat) :
    ∀ lim lim', lim ≤ lim' →
      selectNonOverlap m lim' l = selectNonOverlap m lim' (l.filter fun p => decide (lim ≤ p)) := by
  induction l with
  | nil => intro lim lim' _; rfl
  | cons a t ih =>
    intro lim lim' h
    by_cases ha : lim ≤ a
    · rw [List.filter_cons_of_pos (by simpa using ha)]
      simp only [selectNonOverlap]
      split
      · rw [← ih lim (a + m) (by omega)]
      · exact ih lim lim' h
    · rw [List.filter_cons_of_neg (by simpa using ha)]
      simp only [selectNonOverlap]
      rw [if_neg (by omega)]
      exact ih lim lim' h

/-! ### replace -/

theorem replaceSelLoop_gen (m count : Nat) (l : List Nat) :
    ∀ (last : Nat) (rest : List Nat) (n : Nat), n = (last :: rest).length → (count = 0 ∨ n < count) →
      replaceSelLoop m count (last :: rest) n l =
        (last :: rest).reverse ++
          (if count = 0 then selectNonOverlap m (last + m) l
           else (selectNonOverlap m (last + m) l).take (count - n)) := by
  induction l with
  | nil => intro last rest n _ _; simp [replaceSelLoop, selectNonOverlap]
  | cons x xs ih =>
    intro last rest n hn hcnt
    simp only [replaceSelLoop, selectNonOverlap]
    by_cases hx : last + m ≤ x
    · simp only [if_pos hx]
      by_cases hstop : count ≠ 0 ∧ n + 1 = count
      · rw [if_pos hstop, if_neg hstop.1]
        have : count - n = 1 := by omega
        rw [this]
        simp
      · rw [if_neg hstop]
        rw [ih x (last :: rest) (n + 1) (by simp [hn]) (by omega)]
        by_cases hc0 : count = 0
        · simp [hc0]
        · simp only [if_neg hc0]
          have : count - n = (count - (n + 1)) + 1 := by omega
          rw [this, List.take_succ_cons]
          simp
    · simp only [if_neg hx]
      rw [if_neg (by omega)]
      exact ih last rest n hn hcnt

theorem replaceSelLoop_init (m count : Nat) (l : List Nat) :
    replaceSelLoop m count [] 0 l =
      if count = 0 then selectNonOverlap m 0 l else (selectNonOverlap m 0 l).take count := by
  cases l with
  | nil => simp [replaceSelLoop, selectNonOverlap]
  | cons x xs =>
    simp only [replaceSelLoop, selectNonOverlap, Nat.zero_le, if_true]
    by_cases hstop : count ≠ 0 ∧ 1 = count
    · rw [if_pos hstop, if_neg hstop.1, ← hstop.2]
      simp
    · rw [if_neg hstop, replaceSelLoop_gen m count xs x [] 1 (by simp) (by omega)]
      by_cases hc0 : count = 0
      · simp [hc0]
      · simp only [if_neg hc0]
        have : count = (count - 1) + 1 := by omega
        conv => rhs; rw [this, List.take_succ_cons]
        simp

theorem replaceAssemble_gen (data new : Bits) (m : Nat) (ps : List Nat) :
    ∀ cur p, slice data cur p ++ replaceAssemble data new m (p :: ps) = spliceFrom data new m cur (p :: ps) := by
  induction ps with
  | nil => intro cur p; simp [replaceAssemble, spliceFrom]
  | cons q rest ih =>
    intro cur p
    simp only [replaceAssemble]
    rw [spliceFrom, ← ih (p + m) q]
    simp [List.append_assoc]


/-! ### slices -/

theorem slice_length {α} (data : List α) (a b : Nat) :
    (slice data a b).length = min (b - a) (data.length - a) := by
  simp [slice]

theorem slice_append {α} (data : List α) (a b c : Nat) (hab : a ≤ b) (hbc : b ≤ c) :
    slice data a b ++ slice data b c = slice data a c := by
  unfold slice
  have h1 : c - a = (b - a) + (c - b) := by omega
  rw [h1, List.take_add, List.drop_drop]
  have h2 : a + (b - a) = b := by omega
  rw [h2]

/-! ### occ from a later start -/

theorem occ_filter_ge (data pat : Bits) (s q e : Nat) (al : Bool) (h : s ≤ q) :
    occ data pat q e al = (occ data pat s e al).filter fun p => decide (q ≤ p) := by
  simp only [occ, occG, List.filter_filter]
  apply List.filter_congr
  intro p _
  by_cases h1 : q ≤ p
  · have : s ≤ p := by omega
    simp [h1, this]
  · simp [h1]

/-! ### split -/

theorem findMsb0_head (data pat : Bits) (q e : Nat) (al : Bool) (hne : pat ≠ []) (he : e ≤ data.length) :
    findMsb0 data pat q e al = (occ data pat q e al).head? := by
  rw [findMsb0, storeFind_eq data pat q e al hne he, specFind]

/-- One search step: the first match at or after `q` is selected, and the selection continues with the matches
    found by searching again from its end. -/
theorem sel_step (data pat : Bits) (lim q e : Nat) (al : Bool) (hne : pat ≠ []) (hlq : lim ≤ q)
    (f : Nat) (rest : List Nat) (hocc : occ data pat q e al = f :: rest) :
    selectNonOverlap pat.length lim (occ data pat q e al) =
      f :: selectNonOverlap pat.length (f + pat.length) (occ data pat (f + pat.length) e al) := by
  have hm : 0 < pat.length := List.length_pos_iff.2 hne
  have hf : f ∈ occ data pat q e al := by rw [hocc]; exact List.mem_cons_self
  have hqf : q ≤ f := ((occ_mem_iff data pat q e al f).1 hf).1
  have h1 : selectNonOverlap pat.length (f + pat.length) rest
      = selectNonOverlap pat.length (f + pat.length) (f :: rest) := by
    simp only [selectNonOverlap]
    rw [if_neg (by omega)]
  rw [occ_filter_ge data pat q (f + pat.length) e al (by omega),
    ← sel_filter pat.length _ (f + pat.length) (f + pat.length) (Nat.le_refl _), hocc]
  rw [← h1]
  simp only [selectNonOverlap]
  rw [if_pos (by omega)]

theorem splitLoop_stop (data pat : Bits) (e : Nat) (al : Bool) (n fuel sp pos c : Nat) (h : n ≤ c) :
    splitLoop data pat e al (some n) fuel sp pos c = [] := by
  cases fuel with
  | zero => rfl
  | succ k =>
    simp only [splitLoop]
    rw [if_neg (by simpa using h)]

theorem splitLoop_none (data pat : Bits) (e : Nat) (al : Bool) (hne : pat ≠ [])
    (he : e ≤ data.length) :
    ∀ fuel sp pos c, pos + pat.length ≤ e → e < fuel + pos + pat.length →
      splitLoop data pat e al none fuel sp pos c =
        piecesAt data e sp (selectNonOverlap pat.length (pos + pat.length)
                    (occ data pat (pos + pat.length) e al)) := by
  have hm : 0 < pat.length := List.length_pos_iff.2 hne
  intro fuel
  induction fuel with
  | zero => intro sp pos c h1 h2; omega
  | succ k ih =>
    intro sp pos c h1 h2
    simp only [splitLoop, if_true]
    rw [findMsb0_head data pat _ e al hne he]
    cases hocc : occ data pat (pos + pat.length) e al with
    | nil => simp [selectNonOverlap, piecesAt]
    | cons f rest =>
      have hf : f ∈ occ data pat (pos + pat.length) e al := by rw [hocc]; exact List.mem_cons_self
      have hfm := (occ_mem_iff data pat (pos + pat.length) e al f).1 hf
      have hstep := sel_step data pat (pos + pat.length) (pos + pat.length) e al hne (Nat.le_refl _) f rest hocc
      rw [hocc] at hstep
      simp only [List.head?_cons]
      rw [hstep, ih f f (c + 1) hfm.2.1 (by omega)]
      simp [piecesAt]

theorem splitLoop_some (data pat : Bits) (e : Nat) (al : Bool) (n : Nat) (hne : pat ≠ [])
    (he : e ≤ data.length) :
    ∀ fuel sp pos c, pos + pat.length ≤ e → e < fuel + pos + pat.length →
      splitLoop data pat e al (some n) fuel sp pos c =
        (piecesAt data e sp (selectNonOverlap pat.length (pos + pat.length)
                    (occ data pat (pos + pat.length) e al))).take (n - c) := by
  have hm : 0 < pat.length := List.length_pos_iff.2 hne
  intro fuel
  induction fuel with
  | zero => intro sp pos c h1 h2; omega
  | succ k ih =>
    intro sp pos c h1 h2
    by_cases hcn : c < n
    · simp only [splitLoop]
      rw [if_pos (by simpa using hcn), findMsb0_head data pat _ e al hne he]
      cases hocc : occ data pat (pos + pat.length) e al with
      | nil =>
        have : n - c = (n - c - 1) + 1 := by omega
        simp only [List.head?_nil, selectNonOverlap, piecesAt]
        rw [this, List.take_succ_cons]
        simp
      | cons f rest =>
        have hf : f ∈ occ data pat (pos + pat.length) e al := by rw [hocc]; exact List.mem_cons_self
        have hfm := (occ_mem_iff data pat (pos + pat.length) e al f).1 hf
        have hstep := sel_step data pat (pos + pat.length) (pos + pat.length) e al hne (Nat.le_refl _) f rest hocc
        rw [hocc] at hstep
        simp only [List.head?_cons]
        rw [hstep, ih f f (c + 1) hfm.2.1 (by omega)]
        have : n - c = (n - (c + 1)) + 1 := by omega
        simp only [piecesAt]
        rw [this, List.take_succ_cons]
    · rw [splitLoop_stop data pat e al n _ sp pos c (by omega)]
      have : n - c = 0 := by omega
      simp [this]

end BM.C07.Split
