/- Kernel obligation: `bfChk` (Proofs/C11_NumDefs.lean) on the 16-bit patterns 0xcc00..0xcfff. -/
import BitstringModel.Proofs.C11_NumDefs
namespace BM.C11
theorem bfChunk_51 : bfChunkOk 51 = true := by decide +kernel
end BM.C11
