/-
  Proofs/C11_Dec.lean — kernel obligations over the live decode tables and the small finite codecs
  (every code of every format; `decide +kernel` on Boolean checkers, lifted by `allBelow_spec`).
-/
import BitstringModel.Proofs.C11

namespace BM.C11
open BM

/-- The decode table of `t` has `2^width` entries and entry `c` is the float64 whose value is `decodeSpec c`. -/
def decTableChk (t : Tbl) : Bool :=
  t.dec.1 == 2 ^ t.fmt.width &&
  allBelow (2 ^ t.fmt.width) fun c => decide ((decLookup t.dec c).map f64Val = some (decodeSpec t.fmt c))

theorem decTableChk_p3 : decTableChk .p3 = true := by decide +kernel
theorem decTableChk_p4 : decTableChk .p4 = true := by decide +kernel
theorem decTableChk_e5m2s : decTableChk .e5m2s = true := by decide +kernel
theorem decTableChk_e5m2o : decTableChk .e5m2o = true := by decide +kernel
theorem decTableChk_e4m3s : decTableChk .e4m3s = true := by decide +kernel
theorem decTableChk_e4m3o : decTableChk .e4m3o = true := by decide +kernel
theorem decTableChk_e3m2 : decTableChk .e3m2 = true := by decide +kernel
theorem decTableChk_e2m3 : decTableChk .e2m3 = true := by decide +kernel
theorem decTableChk_e2m1 : decTableChk .e2m1 = true := by decide +kernel

theorem decTableChk_all (t : Tbl) : decTableChk t = true := by
  cases t
  · exact decTableChk_p3
  · exact decTableChk_p4
  · exact decTableChk_e5m2s
  · exact decTableChk_e5m2o
  · exact decTableChk_e4m3s
  · exact decTableChk_e4m3o
  · exact decTableChk_e3m2
  · exact decTableChk_e2m3
  · exact decTableChk_e2m1

theorem decTableChk_spec {t : Tbl} (h : decTableChk t = true) :
    t.dec.1 = 2 ^ t.fmt.width ∧
    ∀ c, c < 2 ^ t.fmt.width → (decLookup t.dec c).map f64Val = some (decodeSpec t.fmt c) := by
  unfold decTableChk at h
  simp only [Bool.and_eq_true, beq_iff_eq] at h
  exact ⟨h.1, fun c hc => of_decide_eq_true (allBelow_spec h.2 c hc)⟩

/-- e8m0: every code decodes to `2^(c−127)` (255 → NaN). -/
theorem e8m0DecChk : allBelow 256 (fun c => decide ((decode .e8m0mxfp c).map f64Val = .ok (e8m0Spec c))) = true := by
  decide +kernel

/-- mxint: every code decodes to `int8(c) · 2⁻⁶`. -/
theorem mxintDecChk : allBelow 256 (fun c => decide ((decode .mxint c).map f64Val = .ok (mxintDecSpec c))) = true := by
  decide +kernel

/-- e8m0: decode then encode is the identity on all 256 codes. -/
theorem e8m0ReencChk : allBelow 256 (fun c => decide ((decode .e8m0mxfp c >>= encode .e8m0mxfp .saturate) = .ok c)) = true := by
  decide +kernel

/-- mxint: decode then encode is the identity on all 256 codes. -/
theorem mxintReencChk : allBelow 256 (fun c => decide ((decode .mxint c >>= encode .mxint .saturate) = .ok c)) = true := by
  decide +kernel

/-- mxint: on every representable value the encoder returns the specification's nearest-even code, which is the code itself. -/
theorem mxintRneChk : allBelow 256 (fun c => decide (
    mxintEnc (mxintDec c) = .ok (match mxintDecSpec c with | .fin s m e => mxintCodeSpec s m e | _ => 0) ∧
    (match mxintDecSpec c with | .fin s m e => mxintCodeSpec s m e | _ => 0) = c)) = true := by
  decide +kernel

/-- The code grids are strictly increasing up to and including the first unavailable code. -/
theorem strictMono_all (t : Tbl) : StrictMonoTo t.fmt := by
  cases t <;> decide +kernel

theorem clamp_all (t : Tbl) : t.clamp = (ovfCode t.fmt t.mode false, ovfCode t.fmt t.mode true) := by
  cases t <;> decide +kernel

end BM.C11
