/-
  Proofs/C15Raw.lean — the core case analysis for Props/C15.lean: every creation route without its final
  length check (`raw0`) is characterised exactly by the classification (`spec30`), dtype group by dtype group.
-/
import BitstringModel.Proofs.C15Core
set_option linter.unusedSimpArgs false
set_option linter.unusedTactic false
set_option linter.unreachableTactic false
namespace BM.C15
open BM


/-- `get_dtype` without its final `length < 0` refusal (the case analysis below is done on this core; the
    refusal is added back in Proofs/C15.lean). -/
def getDtype0 (d : DT) (len : Option Int) : Except Err (Option Int) :=
  let df := defOf d
  match len with
  | none =>
    match df.allowed.onlyOne with
    | none => .ok none
    | some x => if df.varLen then .error .value else .ok (some x)
  | some n =>
    if !df.allowed.contains n then .error .value
    else if df.varLen then .error .value
    else .ok (some n)

/-- The dtypes whose set function does not look at the length it is given. -/
def lenUncheckedKind : DT → Bool
  | .hex | .oct | .bin | .bits | .bytes => true
  | _ => false

/-- Where a route WITHOUT a final length check would succeed with the wrong length: the stated length is allowed
    for the dtype, the value is fine, but its length is not the stated one. -/
def kwLU0 (d : DT) (len : Option Int) (v : Val) : Bool :=
  lenUncheckedKind d && len.isSome && (defOf d).allowed.contains (len.getD 0) && valid d none v && !valid d len v

def raw0 (d : DT) (len : Option Int) (v : Val) : Except Err Bits :=
  match getDtype0 d len with
  | .error e => .error e
  | .ok dl => callSet d dl v (some 0)

def spec30 (d : DT) (len : Option Int) (v : Val) : Except Err Bits :=
  if valid d len v = true then .ok (encode d len v)
  else if kwLU0 d len v = true then .ok (encode d none v) else .error .value

theorem intle2bits_total' (i n : Int) (s : Bool) :
    intle2bits i n s =
      if 1 ≤ n ∧ inRange s n.toNat i = true then .ok (bytesRev (intToBits n.toNat i)) else .error .value := by
  unfold intle2bits; rw [int2bits_total_aux]
  by_cases h : 1 ≤ n ∧ inRange s n.toNat i = true
  · rw [if_pos h, if_pos h]
  · rw [if_neg h, if_neg h]

theorem setInt_str (sg le en : Bool) (s : List Char) (len : Option Int) (cur : Option Nat) :
    setInt sg le en (.str s) len cur = .error .value := by
  unfold setInt
  cases lenOrCur len cur with
  | none => rfl
  | some n => by_cases h : n = 0 <;> by_cases h8 : n % 8 = 0 <;> cases en <;> simp [h, h8, asInt]

theorem setInt_some (sg le en : Bool) (i L : Int) (cur : Option Nat) (h8 : en = true → L % 8 = 0) :
    setInt sg le en (.int i) (some L) cur =
      if 1 ≤ L ∧ inRange sg L.toNat i = true
      then .ok (if le then bytesRev (intToBits L.toNat i) else intToBits L.toNat i) else .error .value := by
  unfold setInt
  have : lenOrCur (some L) cur = some L := by unfold lenOrCur; cases cur <;> rfl
  rw [this]
  simp only [asInt]
  by_cases h0 : L = 0
  · subst h0; simp
  · have hne : ¬ (en = true ∧ L % 8 ≠ 0) := fun ⟨a, b⟩ => b (h8 a)
    simp only [h0, if_false, hne]
    cases le with
    | true => simp only [if_true]; rw [intle2bits_total']
    | false => simp only [Bool.false_eq_true, if_false]; rw [int2bits_total_aux]

theorem setInt_not8 (sg le : Bool) (v : Val) (L : Int) (cur : Option Nat) (h8 : L % 8 ≠ 0) :
    setInt sg le true v (some L) cur = .error .value := by
  unfold setInt
  have : lenOrCur (some L) cur = some L := by unfold lenOrCur; cases cur <;> rfl
  rw [this]
  by_cases h0 : L = 0
  · simp [h0]
  · simp [h0, h8]

theorem setInt_none0 (sg le en : Bool) (v : Val) : setInt sg le en v none (some 0) = .error .value := by
  unfold setInt lenOrCur; simp

theorem step8_iff (n : Int) : ((n - 8) % (16 - 8) == 0) = true ↔ n % 8 = 0 := by
  simp only [beq_iff_eq]; omega

theorem leBits_of_len (n : Nat) (i : Int) (h : n % 8 = 0) : bytesRev (intToBits n i) = leBits (intToBits n i) :=
  (bytesRev_whole_bytes_aux _ (by simp [intToBits]; exact h)).1

theorem raw_int (d : DT) (hd : isInt d = true) (len : Option Int) (i : Int) :
    raw0 d len (.int i) = spec30 d len (.int i) := by
  unfold raw0 spec30
  cases len with
  | none =>
    cases d <;> simp [isInt] at hd <;>
      simp [getDtype0, defOf, Allowed.onlyOne, callSet, bitLen, setFn, setInt_none0, valid, kwLU0, lenUncheckedKind]
  | some n =>
    by_cases h8 : n % 8 = 0
    · have hs : ∀ sg le en cur, setInt sg le en (.int i) (some n) cur = _ :=
        fun sg le en cur => setInt_some sg le en i n cur (fun _ => h8)
      have hb : ((n - 8) % (16 - 8) == 0) = true := (step8_iff n).2 h8
      have hb2 : (n % 8 == 0) = true := by simp [h8]
      by_cases hv : 1 ≤ n ∧ inRange (isSigned d) n.toNat i = true
      · have hle := leBits_of_len n.toNat i (by omega)
        cases d <;> simp [isInt] at hd <;>
          simp only [isSigned] at hv <;>
          simp [getDtype0, defOf, Allowed.contains, callSet, bitLen, setFn, valid, encode, kwLU0, lenUncheckedKind,
            isEndian, isSigned, hs, hb, hb2, hv, hle]
      · cases d <;> simp [isInt] at hd <;>
          simp only [isSigned] at hv <;>
          simp [getDtype0, defOf, Allowed.contains, callSet, bitLen, setFn, valid, encode, kwLU0, lenUncheckedKind,
            isEndian, isSigned, hs, hb, hb2, hv]
    · have hs : ∀ sg le cur, setInt sg le false (.int i) (some n) cur = _ :=
        fun sg le cur => setInt_some sg le false i n cur (fun h => by cases h)
      have hb : ((n - 8) % (16 - 8) == 0) = false := by
        cases hh : ((n - 8) % (16 - 8) == 0) with
        | false => rfl
        | true => exact absurd ((step8_iff n).1 hh) h8
      have hb2 : (n % 8 == 0) = false := by simp [h8]
      by_cases hv : 1 ≤ n ∧ inRange (isSigned d) n.toNat i = true
      · cases d <;> simp [isInt] at hd <;>
          simp only [isSigned] at hv <;>
          simp [getDtype0, defOf, Allowed.contains, callSet, bitLen, setFn, valid, encode, kwLU0, lenUncheckedKind,
            isEndian, isSigned, hs, hb, hb2, hv]
      · cases d <;> simp [isInt] at hd <;>
          simp only [isSigned] at hv <;>
          simp [getDtype0, defOf, Allowed.contains, callSet, bitLen, setFn, valid, encode, kwLU0, lenUncheckedKind,
            isEndian, isSigned, hs, hb, hb2, hv]

theorem raw_int_str (d : DT) (hd : isInt d = true) (len : Option Int) (s : List Char) :
    raw0 d len (.str s) = spec30 d len (.str s) := by
  unfold raw0 spec30
  cases d <;> simp [isInt] at hd <;> cases len <;>
    simp [getDtype0, defOf, Allowed.contains, Allowed.onlyOne, callSet, bitLen, setFn, setInt_str, valid,
      kwLU0, lenUncheckedKind] <;>
    (rename_i n; by_cases h : n % 8 = 0 <;> simp [h])

/-! digit strings -/

theorem raw_digits (d : DT) (k : DigitKind) (hk : digitKind? d = some k) (len : Option Int) (s : List Char) :
    raw0 d len (.str s) = spec30 d len (.str s) := by
  have hset : ∀ l c, setFn d (.str s) l c = digits2bits k s := by
    cases d <;> simp [digitKind?] at hk <;> subst hk <;> intros <;> rfl
  have hget : getDtype0 d len = match len with
      | none => .ok none
      | some n => if (defOf d).allowed.contains n = true then .ok (some n) else .error .value := by
    cases d <;> simp [digitKind?] at hk <;> cases len <;> simp [getDtype0, defOf, Allowed.onlyOne] <;>
      (split <;> simp_all)
  have hcont : ∀ n : Int, n = ((k.width * (cleaned k s).length : Nat) : Int) → (defOf d).allowed.contains n = true := by
    intro n hn
    cases d <;> simp [digitKind?] at hk <;> subst hk <;>
      simp [defOf, Allowed.contains, DigitKind.width] at hn ⊢ <;> omega
  have hvalid : ∀ l, valid d l (.str s) =
      (((cleaned k s).all fun c => (k.val? c).isSome) && lenIs l (k.width * (cleaned k s).length)) := by
    intro l
    cases d <;> simp [digitKind?] at hk <;> subst hk <;> simp [valid, DigitKind.val?, DigitKind.width]
  have henc : ∀ l, encode d l (.str s) = ((cleaned k s).filterMap k.val?).flatMap (natToBits k.width) := by
    intro l
    cases d <;> simp [digitKind?] at hk <;> subst hk <;> simp [encode, DigitKind.val?, DigitKind.width]
  have hkind : lenUncheckedKind d = true := by
    cases d <;> simp [digitKind?] at hk <;> rfl
  have hall := digits2bits_total_aux k s
  unfold raw0 spec30 kwLU0 callSet
  simp only [hset, hget, hvalid, henc, hkind, Bool.true_and]
  by_cases ha : ((cleaned k s).all fun c => (k.val? c).isSome) = true
  · rw [if_pos ha] at hall
    rw [hall, ha]
    cases len with
    | none => simp [lenIs]
    | some n =>
      by_cases hn : n = ((k.width * (cleaned k s).length : Nat) : Int)
      · have hc := hcont n hn
        have hl : lenIs (some n) (k.width * (cleaned k s).length) = true := by simp [lenIs, hn]
        simp [hc, hl]
      · have hl : lenIs (some n) (k.width * (cleaned k s).length) = false := by
          simp only [lenIs]; simpa using hn
        by_cases hc : (defOf d).allowed.contains n = true
        · simp [hc, hl, lenIs]
        · simp [hc, hl]
  · rw [if_neg ha] at hall
    have ha' : ((cleaned k s).all fun c => (k.val? c).isSome) = false := by simpa using ha
    rw [hall, ha']
    cases len with
    | none => simp
    | some n => by_cases hc : (defOf d).allowed.contains n = true <;> simp [hc]

/-! floats -/

theorem floatBits_le (n c : Nat) (h : n % 8 = 0) : floatBits true n c = leBits (natToBits n c) := by
  unfold floatBits
  simp only [if_true]
  exact (bytesRev_whole_bytes_aux _ (by simp [h])).1

theorem setFloat_none0 (le : Bool) (v : Val) : setFloat le v none (some 0) = .error .value := by
  unfold setFloat lenOrCur; simp

theorem setFloat_str (le : Bool) (s : List Char) (len : Option Int) (cur : Option Nat) :
    setFloat le (.str s) len cur = .error .value := by
  unfold setFloat
  cases lenOrCur len cur with
  | none => rfl
  | some n => by_cases h : n = 16 ∨ n = 32 ∨ n = 64 <;> simp [h]

theorem bytesRev_natToBits (n c : Nat) (h : n % 8 = 0) : bytesRev (natToBits n c) = leBits (natToBits n c) :=
  (bytesRev_whole_bytes_aux _ (by simp [h])).1

theorem raw_float (d : DT) (hd : d = .float ∨ d = .floatle) (len : Option Int) (c16 c32 c64 : Nat) :
    raw0 d len (.float c16 c32 c64) = spec30 d len (.float c16 c32 c64) := by
  have l16 := bytesRev_natToBits 16 c16 (by decide)
  have l32 := bytesRev_natToBits 32 c32 (by decide)
  have l64 := bytesRev_natToBits 64 c64 (by decide)
  unfold raw0 spec30
  cases len with
  | none =>
    rcases hd with rfl | rfl <;>
      simp [getDtype0, defOf, Allowed.onlyOne, callSet, bitLen, setFn, setFloat_none0, valid, kwLU0, lenUncheckedKind]
  | some n =>
    by_cases h16 : n = 16
    · subst h16
      rcases hd with rfl | rfl <;>
        simp [getDtype0, defOf, Allowed.contains, callSet, bitLen, setFn, setFloat, lenOrCur, valid, encode, l16, floatBits]
    · by_cases h32 : n = 32
      · subst h32
        rcases hd with rfl | rfl <;>
          simp [getDtype0, defOf, Allowed.contains, callSet, bitLen, setFn, setFloat, lenOrCur, valid, encode, l32, floatBits]
      · by_cases h64 : n = 64
        · subst h64
          rcases hd with rfl | rfl <;>
            simp [getDtype0, defOf, Allowed.contains, callSet, bitLen, setFn, setFloat, lenOrCur, valid, encode, l64, floatBits]
        · rcases hd with rfl | rfl <;>
            simp [getDtype0, defOf, Allowed.contains, callSet, bitLen, setFn, valid, kwLU0, lenUncheckedKind, h16, h32, h64]

theorem raw_float_str (d : DT) (hd : d = .float ∨ d = .floatle) (len : Option Int) (s : List Char) :
    raw0 d len (.str s) = spec30 d len (.str s) := by
  unfold raw0 spec30
  cases len with
  | none =>
    rcases hd with rfl | rfl <;>
      simp [getDtype0, defOf, Allowed.onlyOne, callSet, bitLen, setFn, setFloat_str, valid, kwLU0, lenUncheckedKind]
  | some n =>
    by_cases h : n = 16 ∨ n = 32 ∨ n = 64
    · rcases hd with rfl | rfl <;> rcases h with rfl | rfl | rfl <;>
        simp [getDtype0, defOf, Allowed.contains, callSet, bitLen, setFn, setFloat_str, valid, kwLU0, lenUncheckedKind]
    · have h1 : n ≠ 16 := fun e => h (Or.inl e)
      have h2 : n ≠ 32 := fun e => h (Or.inr (Or.inl e))
      have h3 : n ≠ 64 := fun e => h (Or.inr (Or.inr e))
      rcases hd with rfl | rfl <;>
        simp [getDtype0, defOf, Allowed.contains, callSet, bitLen, setFn, valid, kwLU0, lenUncheckedKind, h1, h2, h3]

theorem setBfloat_str (le : Bool) (s : List Char) (len : Option Int) : setBfloat le (.str s) len = .error .value := by
  unfold setBfloat
  cases len with
  | none => simp [setBfloat.body]
  | some n => by_cases h : n = 16 <;> simp [h, setBfloat.body]

theorem raw_bfloat (d : DT) (hd : d = .bfloat ∨ d = .bfloatle) (len : Option Int) (c16 c32 c64 : Nat) :
    raw0 d len (.float c16 c32 c64) = spec30 d len (.float c16 c32 c64) := by
  have l16 := bytesRev_natToBits 16 (c32 / 65536) (by decide)
  unfold raw0 spec30
  cases len with
  | none =>
    rcases hd with rfl | rfl <;>
      simp [getDtype0, defOf, Allowed.onlyOne, callSet, bitLen, setFn, setBfloat, setBfloat.body, valid, encode, lenIs, l16, floatBits]
  | some n =>
    by_cases h16 : n = 16
    · subst h16
      rcases hd with rfl | rfl <;>
        simp [getDtype0, defOf, Allowed.contains, callSet, bitLen, setFn, setBfloat, setBfloat.body, valid, encode, lenIs, l16, floatBits]
    · rcases hd with rfl | rfl <;>
        simp [getDtype0, defOf, Allowed.contains, callSet, bitLen, setFn, valid, kwLU0, lenUncheckedKind, lenIs, h16]

theorem raw_bfloat_str (d : DT) (hd : d = .bfloat ∨ d = .bfloatle) (len : Option Int) (s : List Char) :
    raw0 d len (.str s) = spec30 d len (.str s) := by
  unfold raw0 spec30
  cases len with
  | none =>
    rcases hd with rfl | rfl <;>
      simp [getDtype0, defOf, Allowed.onlyOne, callSet, bitLen, setFn, setBfloat_str, valid, kwLU0, lenUncheckedKind]
  | some n =>
    by_cases h16 : n = 16
    · subst h16
      rcases hd with rfl | rfl <;>
        simp [getDtype0, defOf, Allowed.contains, callSet, bitLen, setFn, setBfloat_str, valid, kwLU0, lenUncheckedKind]
    · rcases hd with rfl | rfl <;>
        simp [getDtype0, defOf, Allowed.contains, callSet, bitLen, setFn, valid, kwLU0, lenUncheckedKind, h16]

/-! bits, bool, bytes -/

theorem raw_bits (len : Option Int) (b : Bits) : raw0 .bits len (.bits b) = spec30 .bits len (.bits b) := by
  unfold raw0 spec30
  cases len with
  | none => simp [getDtype0, defOf, Allowed.onlyOne, callSet, bitLen, setFn, valid, encode, lenIs]
  | some n =>
    by_cases h : n = (b.length : Int)
    · simp [getDtype0, defOf, Allowed.contains, callSet, bitLen, setFn, valid, encode, lenIs, h]
    · simp [getDtype0, defOf, Allowed.contains, callSet, bitLen, setFn, valid, encode, lenIs, h, kwLU0, lenUncheckedKind]

theorem raw_bytes (len : Option Int) (ds : List Nat) : raw0 .bytes len (.bytes ds) = spec30 .bytes len (.bytes ds) := by
  unfold raw0 spec30
  cases len with
  | none => simp [getDtype0, defOf, Allowed.onlyOne, callSet, bitLen, setFn, valid, encode, lenIs]
  | some n =>
    by_cases h : n = (ds.length : Int)
    · simp [getDtype0, defOf, Allowed.contains, callSet, bitLen, setFn, valid, encode, lenIs, h]
    · simp [getDtype0, defOf, Allowed.contains, callSet, bitLen, setFn, valid, encode, lenIs, h, kwLU0, lenUncheckedKind]

theorem raw_bool_int (len : Option Int) (i : Int) : raw0 .bool len (.int i) = spec30 .bool len (.int i) := by
  unfold raw0 spec30
  cases len with
  | none =>
    by_cases h1 : i = 1
    · subst h1; simp [getDtype0, defOf, Allowed.onlyOne, callSet, bitLen, setFn, setBool, valid, encode, lenIs]
    · by_cases h0 : i = 0
      · subst h0; simp [getDtype0, defOf, Allowed.onlyOne, callSet, bitLen, setFn, setBool, valid, encode, lenIs]
      · simp [getDtype0, defOf, Allowed.onlyOne, callSet, bitLen, setFn, setBool, valid, lenIs, h1, h0, kwLU0, lenUncheckedKind]
  | some n =>
    by_cases hn : n = 1
    · subst hn
      by_cases h1 : i = 1
      · subst h1; simp [getDtype0, defOf, Allowed.contains, callSet, bitLen, setFn, setBool, valid, encode, lenIs]
      · by_cases h0 : i = 0
        · subst h0; simp [getDtype0, defOf, Allowed.contains, callSet, bitLen, setFn, setBool, valid, encode, lenIs]
        · simp [getDtype0, defOf, Allowed.contains, callSet, bitLen, setFn, setBool, valid, lenIs, h1, h0, kwLU0, lenUncheckedKind]
    · simp [getDtype0, defOf, Allowed.contains, callSet, bitLen, setFn, valid, lenIs, hn, kwLU0, lenUncheckedKind]

theorem raw_bool_str (len : Option Int) (s : List Char) : raw0 .bool len (.str s) = spec30 .bool len (.str s) := by
  have e1 : "True".toList = ['T', 'r', 'u', 'e'] := rfl
  have e2 : "1".toList = ['1'] := rfl
  have e3 : "False".toList = ['F', 'a', 'l', 's', 'e'] := rfl
  have e4 : "0".toList = ['0'] := rfl
  unfold raw0 spec30
  by_cases h1 : s = ['T', 'r', 'u', 'e']
  · subst h1
    cases len with
    | none => simp [getDtype0, defOf, Allowed.onlyOne, callSet, bitLen, setFn, setBool, valid, encode, lenIs]
    | some n =>
      by_cases hn : n = 1
      · subst hn; simp [getDtype0, defOf, Allowed.contains, callSet, bitLen, setFn, setBool, valid, encode, lenIs]
      · simp [getDtype0, defOf, Allowed.contains, callSet, bitLen, setFn, valid, lenIs, hn, kwLU0, lenUncheckedKind]
  by_cases h2 : s = ['1']
  · subst h2
    cases len with
    | none => simp [getDtype0, defOf, Allowed.onlyOne, callSet, bitLen, setFn, setBool, valid, encode, lenIs]
    | some n =>
      by_cases hn : n = 1
      · subst hn; simp [getDtype0, defOf, Allowed.contains, callSet, bitLen, setFn, setBool, valid, encode, lenIs]
      · simp [getDtype0, defOf, Allowed.contains, callSet, bitLen, setFn, valid, lenIs, hn, kwLU0, lenUncheckedKind]
  by_cases h3 : s = ['F', 'a', 'l', 's', 'e']
  · subst h3
    cases len with
    | none => simp [getDtype0, defOf, Allowed.onlyOne, callSet, bitLen, setFn, setBool, valid, encode, lenIs]
    | some n =>
      by_cases hn : n = 1
      · subst hn; simp [getDtype0, defOf, Allowed.contains, callSet, bitLen, setFn, setBool, valid, encode, lenIs]
      · simp [getDtype0, defOf, Allowed.contains, callSet, bitLen, setFn, valid, lenIs, hn, kwLU0, lenUncheckedKind]
  by_cases h4 : s = ['0']
  · subst h4
    cases len with
    | none => simp [getDtype0, defOf, Allowed.onlyOne, callSet, bitLen, setFn, setBool, valid, encode, lenIs]
    | some n =>
      by_cases hn : n = 1
      · subst hn; simp [getDtype0, defOf, Allowed.contains, callSet, bitLen, setFn, setBool, valid, encode, lenIs]
      · simp [getDtype0, defOf, Allowed.contains, callSet, bitLen, setFn, valid, lenIs, hn, kwLU0, lenUncheckedKind]
  cases len with
  | none => simp [getDtype0, defOf, Allowed.onlyOne, callSet, bitLen, setFn, setBool, valid, lenIs, h1, h2, h3, h4, kwLU0, lenUncheckedKind]
  | some n =>
    by_cases hn : n = 1
    · subst hn; simp [getDtype0, defOf, Allowed.contains, callSet, bitLen, setFn, setBool, valid, lenIs, h1, h2, h3, h4, kwLU0, lenUncheckedKind]
    · simp [getDtype0, defOf, Allowed.contains, callSet, bitLen, setFn, valid, lenIs, hn, kwLU0, lenUncheckedKind]

/-! exp-Golomb: no length may be given -/

def isGolomb : DT → Bool
  | .ue | .se | .uie | .sie => true
  | _ => false

theorem raw_golomb (d : DT) (hd : isGolomb d = true) (len : Option Int) (i : Int) :
    raw0 d len (.int i) = spec30 d len (.int i) := by
  unfold raw0 spec30
  cases len with
  | none =>
    by_cases h0 : 0 ≤ i
    · have hn : ¬ i < 0 := by omega
      cases d <;> simp [isGolomb] at hd <;>
        simp [getDtype0, defOf, Allowed.onlyOne, callSet, bitLen, setFn, setGolomb, asInt, valid, encode,
          C10.ueEncode, C10.uieEncode, h0, hn]
    · have hn : i < 0 := by omega
      cases d <;> simp [isGolomb] at hd <;>
        simp [getDtype0, defOf, Allowed.onlyOne, callSet, bitLen, setFn, setGolomb, asInt, valid, encode,
          C10.ueEncode, C10.uieEncode, h0, hn, kwLU0, lenUncheckedKind]
  | some n =>
    cases d <;> simp [isGolomb] at hd <;>
      simp [getDtype0, defOf, Allowed.contains, valid, kwLU0, lenUncheckedKind]

theorem raw_golomb_str (d : DT) (hd : isGolomb d = true) (len : Option Int) (s : List Char) :
    raw0 d len (.str s) = spec30 d len (.str s) := by
  unfold raw0 spec30
  cases len <;> cases d <;> simp [isGolomb] at hd <;>
    simp [getDtype0, defOf, Allowed.onlyOne, Allowed.contains, callSet, bitLen, setFn, setGolomb, asInt, valid,
      kwLU0, lenUncheckedKind]

/-! 8/6/4-bit float formats: one allowed length -/

theorem setFx_code (w c : Nat) (hw : 1 ≤ w) :
    setFx w (.code c) = if c < 2 ^ w then .ok (natToBits w c) else .error .value := by
  show int2bits (c : Int) (w : Int) false = _
  rw [int2bits_total_aux]
  have hw' : (1 : Int) ≤ (w : Int) := by exact_mod_cast hw
  by_cases hc : c < 2 ^ w
  · have hr : inRange false (w : Int).toNat (c : Int) = true := by
      unfold inRange
      simp only [Bool.false_eq_true, if_false, Int.toNat_natCast, decide_eq_true_eq]
      exact ⟨by omega, by exact_mod_cast hc⟩
    rw [if_pos ⟨hw', hr⟩, if_pos hc]
    unfold intToBits
    simp only [Int.toNat_natCast]
    have : ((c : Int) % (2 : Int) ^ w).toNat = c := by
      have h2 : ((2 : Int) ^ w) = ((2 ^ w : Nat) : Int) := by simp
      rw [h2, ← Int.natCast_mod, Int.toNat_natCast, Nat.mod_eq_of_lt hc]
    rw [this]
  · have hr : ¬ (1 ≤ (w : Int) ∧ inRange false (w : Int).toNat (c : Int) = true) := by
      intro ⟨_, h⟩
      unfold inRange at h
      simp only [Bool.false_eq_true, if_false, Int.toNat_natCast, decide_eq_true_eq] at h
      exact hc (by exact_mod_cast h.2)
    rw [if_neg hr, if_neg hc]

theorem raw_fx8 (len : Option Int) (c : Nat) : raw0 .fx8 len (.code c) = spec30 .fx8 len (.code c) := by
  have hs := setFx_code 8 c (by decide)
  simp only [show (2 : Nat) ^ 8 = 256 by decide] at hs
  unfold raw0 spec30
  by_cases hc : c < 256
  · rw [if_pos hc] at hs
    cases len with
    | none => simp [getDtype0, defOf, Allowed.onlyOne, callSet, bitLen, setFn, hs, valid, encode, lenIs, hc]
    | some n =>
      by_cases hn : n = 8
      · subst hn; simp [getDtype0, defOf, Allowed.contains, callSet, bitLen, setFn, hs, valid, encode, lenIs, hc]
      · simp [getDtype0, defOf, Allowed.contains, callSet, bitLen, setFn, valid, lenIs, hn, kwLU0, lenUncheckedKind]
  · rw [if_neg hc] at hs
    cases len with
    | none => simp [getDtype0, defOf, Allowed.onlyOne, callSet, bitLen, setFn, hs, valid, lenIs, hc, kwLU0, lenUncheckedKind]
    | some n =>
      by_cases hn : n = 8
      · subst hn; simp [getDtype0, defOf, Allowed.contains, callSet, bitLen, setFn, hs, valid, lenIs, hc, kwLU0, lenUncheckedKind]
      · simp [getDtype0, defOf, Allowed.contains, callSet, bitLen, setFn, valid, lenIs, hn, kwLU0, lenUncheckedKind]

theorem raw_fx8_str (len : Option Int) (s : List Char) : raw0 .fx8 len (.str s) = spec30 .fx8 len (.str s) := by
  unfold raw0 spec30
  cases len with
  | none => simp [getDtype0, defOf, Allowed.onlyOne, callSet, bitLen, setFn, setFx, valid, kwLU0, lenUncheckedKind]
  | some n =>
    by_cases hn : n = 8
    · subst hn; simp [getDtype0, defOf, Allowed.contains, callSet, bitLen, setFn, setFx, valid, kwLU0, lenUncheckedKind]
    · simp [getDtype0, defOf, Allowed.contains, callSet, bitLen, setFn, valid, hn, kwLU0, lenUncheckedKind]

theorem raw_fx6 (len : Option Int) (c : Nat) : raw0 .fx6 len (.code c) = spec30 .fx6 len (.code c) := by
  have hs := setFx_code 6 c (by decide)
  simp only [show (2 : Nat) ^ 6 = 64 by decide] at hs
  unfold raw0 spec30
  by_cases hc : c < 64
  · rw [if_pos hc] at hs
    cases len with
    | none => simp [getDtype0, defOf, Allowed.onlyOne, callSet, bitLen, setFn, hs, valid, encode, lenIs, hc]
    | some n =>
      by_cases hn : n = 6
      · subst hn; simp [getDtype0, defOf, Allowed.contains, callSet, bitLen, setFn, hs, valid, encode, lenIs, hc]
      · simp [getDtype0, defOf, Allowed.contains, callSet, bitLen, setFn, valid, lenIs, hn, kwLU0, lenUncheckedKind]
  · rw [if_neg hc] at hs
    cases len with
    | none => simp [getDtype0, defOf, Allowed.onlyOne, callSet, bitLen, setFn, hs, valid, lenIs, hc, kwLU0, lenUncheckedKind]
    | some n =>
      by_cases hn : n = 6
      · subst hn; simp [getDtype0, defOf, Allowed.contains, callSet, bitLen, setFn, hs, valid, lenIs, hc, kwLU0, lenUncheckedKind]
      · simp [getDtype0, defOf, Allowed.contains, callSet, bitLen, setFn, valid, lenIs, hn, kwLU0, lenUncheckedKind]

theorem raw_fx6_str (len : Option Int) (s : List Char) : raw0 .fx6 len (.str s) = spec30 .fx6 len (.str s) := by
  unfold raw0 spec30
  cases len with
  | none => simp [getDtype0, defOf, Allowed.onlyOne, callSet, bitLen, setFn, setFx, valid, kwLU0, lenUncheckedKind]
  | some n =>
    by_cases hn : n = 6
    · subst hn; simp [getDtype0, defOf, Allowed.contains, callSet, bitLen, setFn, setFx, valid, kwLU0, lenUncheckedKind]
    · simp [getDtype0, defOf, Allowed.contains, callSet, bitLen, setFn, valid, hn, kwLU0, lenUncheckedKind]

theorem raw_fx4 (len : Option Int) (c : Nat) : raw0 .fx4 len (.code c) = spec30 .fx4 len (.code c) := by
  have hs := setFx_code 4 c (by decide)
  simp only [show (2 : Nat) ^ 4 = 16 by decide] at hs
  unfold raw0 spec30
  by_cases hc : c < 16
  · rw [if_pos hc] at hs
    cases len with
    | none => simp [getDtype0, defOf, Allowed.onlyOne, callSet, bitLen, setFn, hs, valid, encode, lenIs, hc]
    | some n =>
      by_cases hn : n = 4
      · subst hn; simp [getDtype0, defOf, Allowed.contains, callSet, bitLen, setFn, hs, valid, encode, lenIs, hc]
      · simp [getDtype0, defOf, Allowed.contains, callSet, bitLen, setFn, valid, lenIs, hn, kwLU0, lenUncheckedKind]
  · rw [if_neg hc] at hs
    cases len with
    | none => simp [getDtype0, defOf, Allowed.onlyOne, callSet, bitLen, setFn, hs, valid, lenIs, hc, kwLU0, lenUncheckedKind]
    | some n =>
      by_cases hn : n = 4
      · subst hn; simp [getDtype0, defOf, Allowed.contains, callSet, bitLen, setFn, hs, valid, lenIs, hc, kwLU0, lenUncheckedKind]
      · simp [getDtype0, defOf, Allowed.contains, callSet, bitLen, setFn, valid, lenIs, hn, kwLU0, lenUncheckedKind]

theorem raw_fx4_str (len : Option Int) (s : List Char) : raw0 .fx4 len (.str s) = spec30 .fx4 len (.str s) := by
  unfold raw0 spec30
  cases len with
  | none => simp [getDtype0, defOf, Allowed.onlyOne, callSet, bitLen, setFn, setFx, valid, kwLU0, lenUncheckedKind]
  | some n =>
    by_cases hn : n = 4
    · subst hn; simp [getDtype0, defOf, Allowed.contains, callSet, bitLen, setFn, setFx, valid, kwLU0, lenUncheckedKind]
    · simp [getDtype0, defOf, Allowed.contains, callSet, bitLen, setFn, valid, hn, kwLU0, lenUncheckedKind]

/-- Every route without its final length check: valid → the encoding; `kwLU0` (the final check is what rejects these) → the
    value's own bits; otherwise ValueError. -/
theorem raw0_eq (d : DT) (len : Option Int) (v : Val) (hw : wellTyped d v = true) : raw0 d len v = spec30 d len v := by
  cases d with
  | uint =>
    cases v with
    | int i => exact raw_int _ rfl _ _
    | str s => exact raw_int_str _ rfl _ _
    | _ => simp [wellTyped] at hw
  | int =>
    cases v with
    | int i => exact raw_int _ rfl _ _
    | str s => exact raw_int_str _ rfl _ _
    | _ => simp [wellTyped] at hw
  | uintbe =>
    cases v with
    | int i => exact raw_int _ rfl _ _
    | str s => exact raw_int_str _ rfl _ _
    | _ => simp [wellTyped] at hw
  | intbe =>
    cases v with
    | int i => exact raw_int _ rfl _ _
    | str s => exact raw_int_str _ rfl _ _
    | _ => simp [wellTyped] at hw
  | uintle =>
    cases v with
    | int i => exact raw_int _ rfl _ _
    | str s => exact raw_int_str _ rfl _ _
    | _ => simp [wellTyped] at hw
  | intle =>
    cases v with
    | int i => exact raw_int _ rfl _ _
    | str s => exact raw_int_str _ rfl _ _
    | _ => simp [wellTyped] at hw
  | hex =>
    cases v with
    | str s => exact raw_digits _ _ rfl _ _
    | _ => simp [wellTyped] at hw
  | oct =>
    cases v with
    | str s => exact raw_digits _ _ rfl _ _
    | _ => simp [wellTyped] at hw
  | bin =>
    cases v with
    | str s => exact raw_digits _ _ rfl _ _
    | _ => simp [wellTyped] at hw
  | float =>
    cases v with
    | float a b c => exact raw_float _ (Or.inl rfl) _ _ _ _
    | str s => exact raw_float_str _ (Or.inl rfl) _ _
    | _ => simp [wellTyped] at hw
  | floatle =>
    cases v with
    | float a b c => exact raw_float _ (Or.inr rfl) _ _ _ _
    | str s => exact raw_float_str _ (Or.inr rfl) _ _
    | _ => simp [wellTyped] at hw
  | bfloat =>
    cases v with
    | float a b c => exact raw_bfloat _ (Or.inl rfl) _ _ _ _
    | str s => exact raw_bfloat_str _ (Or.inl rfl) _ _
    | _ => simp [wellTyped] at hw
  | bfloatle =>
    cases v with
    | float a b c => exact raw_bfloat _ (Or.inr rfl) _ _ _ _
    | str s => exact raw_bfloat_str _ (Or.inr rfl) _ _
    | _ => simp [wellTyped] at hw
  | bits =>
    cases v with
    | bits b => exact raw_bits _ _
    | _ => simp [wellTyped] at hw
  | bool =>
    cases v with
    | int i => exact raw_bool_int _ _
    | str s => exact raw_bool_str _ _
    | _ => simp [wellTyped] at hw
  | bytes =>
    cases v with
    | bytes ds => exact raw_bytes _ _
    | _ => simp [wellTyped] at hw
  | ue =>
    cases v with
    | int i => exact raw_golomb _ rfl _ _
    | str s => exact raw_golomb_str _ rfl _ _
    | _ => simp [wellTyped] at hw
  | se =>
    cases v with
    | int i => exact raw_golomb _ rfl _ _
    | str s => exact raw_golomb_str _ rfl _ _
    | _ => simp [wellTyped] at hw
  | uie =>
    cases v with
    | int i => exact raw_golomb _ rfl _ _
    | str s => exact raw_golomb_str _ rfl _ _
    | _ => simp [wellTyped] at hw
  | sie =>
    cases v with
    | int i => exact raw_golomb _ rfl _ _
    | str s => exact raw_golomb_str _ rfl _ _
    | _ => simp [wellTyped] at hw
  | fx8 =>
    cases v with
    | code c => exact raw_fx8 _ _
    | str s => exact raw_fx8_str _ _
    | _ => simp [wellTyped] at hw
  | fx6 =>
    cases v with
    | code c => exact raw_fx6 _ _
    | str s => exact raw_fx6_str _ _
    | _ => simp [wellTyped] at hw
  | fx4 =>
    cases v with
    | code c => exact raw_fx4 _ _
    | str s => exact raw_fx4_str _ _
    | _ => simp [wellTyped] at hw
end BM.C15
