/- Kernel obligation: `bfChk` (Proofs/C11_NumDefs.lean) on the 16-bit patterns 0xe800..0xebff. -/
import BitstringModel.Proofs.C11_NumDefs
namespace BM.C11
theorem bfChunk_58 : bfChunkOk 58 = true := by decide +kernel
end BM.C11
