/- Kernel obligation: `bfChk` (Proofs/C11_NumDefs.lean) on the 16-bit patterns 0xa000..0xa3ff. -/
import BitstringModel.Proofs.C11_NumDefs
namespace BM.C11
theorem bfChunk_40 : bfChunkOk 40 = true := by decide +kernel
end BM.C11
