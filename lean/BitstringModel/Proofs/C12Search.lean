/-
  Proofs/C12Search.lean — helper lemmas for Props/C12_Search.lean (search primitives, reverse chunk scan).
-/
import BitstringModel.Model.C12
import BitstringModel.Proofs.C12
import Mathlib.Tactic.Ring
import Mathlib.Tactic.Linarith
import Mathlib.Data.List.Basic
namespace BM.C12
open BM

end BM.C12
