/-
  Proofs/C12Search.lean — helper lemmas for Props/C12_Search.lean (search primitives, reverse chunk scan).
-/
import BitstringModel.Model.C12
import Mathlib.Tactic.Ring
import Mathlib.Tactic.Linarith
import Mathlib.Data.List.Basic
namespace BM.C12
open BM

/-! ### search primitive -/

theorem isPrefixOf_eq_take_s (t l : Bits) : t.isPrefixOf l = (l.take t.length == t) := by
  rw [Bool.eq_iff_iff, List.isPrefixOf_iff_prefix, List.prefix_iff_eq_take, beq_iff_eq]
  exact eq_comm

theorem matchAt_iff_s (l t : Bits) (p : Nat) : matchAt l t p = true ↔ (l.drop p).take t.length = t := by
  simp [matchAt]

theorem mem_searchAux_s (t : Bits) (ht : t ≠ []) (e : Nat) (l : Bits) :
    ∀ (rest : Bits) (p0 : Nat), rest = l.drop p0 →
      ∀ p, p ∈ searchAux t e rest p0 ↔ p0 ≤ p ∧ p + t.length ≤ e ∧ matchAt l t p = true := by
  intro rest
  induction rest with
  | nil =>
    intro p0 h p
    have hlen : l.length ≤ p0 := by
      have := congrArg List.length h
      simp at this; omega
    have ht' : t.isEmpty = false := by cases t <;> simp_all
    simp only [searchAux, ht']
    simp only [Bool.false_eq_true, false_and, if_false, List.not_mem_nil, false_iff, matchAt_iff_s]
    rintro ⟨h1, h2, h3⟩
    have : l.drop p = [] := List.drop_eq_nil_of_le (by omega)
    rw [this] at h3
    simp at h3
    exact ht h3
  | cons x xs ih =>
    intro p0 h p
    have hxs : xs = l.drop (p0 + 1) := by
      rw [← List.drop_drop, ← h]; rfl
    simp only [searchAux, List.mem_append, ih (p0 + 1) hxs p]
    rw [h, isPrefixOf_eq_take_s]
    constructor
    · rintro (h1 | h1)
      · split at h1
        · rename_i hc
          simp only [List.mem_singleton] at h1
          subst h1
          exact ⟨le_refl _, hc.1, hc.2⟩
        · simp at h1
      · exact ⟨by omega, h1.2⟩
    · rintro ⟨h1, h2, h3⟩
      by_cases hp : p = p0
      · subst hp
        left
        rw [if_pos ⟨h2, h3⟩]; simp
      · right; exact ⟨by omega, h2, h3⟩

theorem searchAux_ge_s (t : Bits) (e : Nat) : ∀ (rest : Bits) (p0 p : Nat), p ∈ searchAux t e rest p0 → p0 ≤ p := by
  intro rest
  induction rest with
  | nil => intro p0 p h; simp only [searchAux] at h; split at h <;> simp_all
  | cons x xs ih =>
    intro p0 p h
    simp only [searchAux, List.mem_append] at h
    rcases h with h | h
    · split at h <;> simp_all
    · have := ih _ _ h; omega

theorem searchAux_sorted_s (t : Bits) (e : Nat) : ∀ (rest : Bits) (p0 : Nat), (searchAux t e rest p0).Pairwise (· < ·) := by
  intro rest
  induction rest with
  | nil => intro p0; simp only [searchAux]; split <;> simp
  | cons x xs ih =>
    intro p0
    simp only [searchAux]
    rw [List.pairwise_append]
    refine ⟨by split <;> simp, ih _, ?_⟩
    intro a ha b hb
    have := searchAux_ge_s _ _ _ _ _ hb
    split at ha <;> simp_all
    omega

theorem mem_search_iff_s (l t : Bits) (a b p : Nat) (ht : t ≠ []) :
    p ∈ search l t a b ↔ a ≤ p ∧ p + t.length ≤ b ∧ matchAt l t p = true :=
  mem_searchAux_s t ht b l _ a rfl p

theorem search_sorted_s (l t : Bits) (a b : Nat) : (search l t a b).Pairwise (· < ·) :=
  searchAux_sorted_s _ _ _ _

theorem matchAt_reverse_s (l t : Bits) (p : Nat) (h : p + t.length ≤ l.length) :
    matchAt l.reverse t.reverse (l.length - p - t.length) = matchAt l t p := by
  rw [Bool.eq_iff_iff, matchAt_iff_s, matchAt_iff_s]
  rw [List.length_reverse, List.drop_reverse, List.take_reverse, List.reverse_inj]
  rw [List.length_take, List.drop_take]
  have e1 : l.length - (l.length - p - t.length) = p + t.length := by omega
  have e2 : min (p + t.length) l.length - t.length = p := by omega
  have e3 : p + t.length - p = t.length := by omega
  rw [e1, e2, e3]

theorem eq_of_sorted_of_mem_iff_s {xs ys : List Nat} (hx : xs.Pairwise (· < ·)) (hy : ys.Pairwise (· < ·))
    (h : ∀ p, p ∈ xs ↔ p ∈ ys) : xs = ys := by
  have hxn : xs.Nodup := hx.imp (fun h => Nat.ne_of_lt h)
  have hyn : ys.Nodup := hy.imp (fun h => Nat.ne_of_lt h)
  have hp : xs.Perm ys := (List.perm_ext_iff_of_nodup hxn hyn).2 h
  exact List.Perm.eq_of_pairwise (fun a b _ _ h1 h2 => absurd h1 (Nat.lt_asymm h2)) hx hy hp

theorem search_reverse_s (l t : Bits) (a b : Nat) (hab : a ≤ b) (hb : b ≤ l.length) (ht : t ≠ []) :
    search l.reverse t.reverse a b
      = ((search l t (l.length - b) (l.length - a)).map fun p => l.length - p - t.length).reverse := by
  have htr : t.reverse ≠ [] := by simpa using ht
  apply eq_of_sorted_of_mem_iff_s (search_sorted_s _ _ _ _)
  · rw [List.pairwise_reverse, List.pairwise_map]
    refine (search_sorted_s l t (l.length - b) (l.length - a)).imp_of_mem ?_
    intro x y hx hy hxy
    rw [mem_search_iff_s _ _ _ _ _ ht] at hx hy
    omega
  · intro q
    rw [mem_search_iff_s _ _ _ _ _ htr, List.mem_reverse, List.mem_map, List.length_reverse]
    constructor
    · rintro ⟨h1, h2, h3⟩
      refine ⟨l.length - q - t.length, ?_, by omega⟩
      rw [mem_search_iff_s _ _ _ _ _ ht]
      refine ⟨by omega, by omega, ?_⟩
      rw [← matchAt_reverse_s l t _ (by omega)]
      rw [← h3]; congr 1; omega
    · rintro ⟨p, hp, rfl⟩
      rw [mem_search_iff_s _ _ _ _ _ ht] at hp
      refine ⟨by omega, by omega, ?_⟩
      rw [matchAt_reverse_s l t p (by omega)]
      exact hp.2.2

theorem msb0Window_eq_s (n a b : Nat) (hab : a ≤ b) (hb : b ≤ n) :
    msb0Window n a b = .ok (n - b, n - a) := by
  have ha0 : ¬ ((a : Int) < 0) := by omega
  have hb0 : ¬ ((b : Int) < 0) := by omega
  have h10 : ¬ ((1:Int) < 0) := by omega
  have hr : Py.sliceIndices (some (a : Int)) (some (b : Int)) 1 n = ((a : Int), (b : Int), 1) := by
    simp only [Py.sliceIndices, ha0, hb0, h10, if_false]
    congr 1
    · omega
    · congr 1; omega
  have hcnt : Py.rangeLen (a : Int) (b : Int) 1 = b - a := by
    unfold Py.rangeLen
    simp only [gt_iff_lt, Int.one_pos, if_true]
    split <;> omega
  unfold msb0Window offsetSliceLsb0
  simp only [Option.getD_none, hr, hcnt, show ((1 : Int) = 0) = False by simp, if_false,
    show ((1 : Int) > 0) = True by simp, if_true]
  by_cases hc : b - a = 0
  · simp only [hc, if_true]
    unfold validateSlice
    have e3 : ¬ ((n:Int) - a < 0) := by omega
    simp only [e3, if_false]
    rw [if_pos (by omega)]
    congr 2 <;> omega
  · simp only [hc, if_false]
    unfold validateSlice
    have e3 : ¬ ((n:Int) - (a + (((b - a : Nat) : Int) - 1) * 1) - 1 < 0) := by omega
    have e4 : ¬ ((n:Int) - a < 0) := by omega
    simp only [e3, e4, if_false]
    rw [if_pos (by omega)]
    congr 2 <;> omega


theorem validateSlice_bounds_s {n : Nat} {start stop : Option Int} {a b : Nat}
    (h : validateSlice n start stop = .ok (a, b)) : a ≤ b ∧ b ≤ n := by
  simp only [validateSlice] at h
  split_ifs at h with hc
  simp only [Except.ok.injEq, Prod.mk.injEq] at h
  omega

theorem find_mirror_s (l t : Bits) (a b : Nat) (hab : a ≤ b) (hb : b ≤ l.length) (ht : t ≠ []) :
    find_ .lsb0 l t a b false = find_ .msb0 l.reverse t.reverse a b false := by
  unfold find_
  dsimp only
  simp only [Bool.false_eq_true, ↓reduceIte]
  rw [msb0Window_eq_s _ _ _ hab hb]
  simp only [rfindStore, findStore]
  rw [search_reverse_s l t a b hab hb ht]
  simp only [Bool.false_eq_true, not_false_eq_true, if_true, List.head?_reverse, List.getLast?_map]

theorem rfind_mirror_s (l t : Bits) (a b : Nat) (hab : a ≤ b) (hb : b ≤ l.length) (ht : t ≠ []) :
    rfind_ .lsb0 l t a b false = rfind_ .msb0 l.reverse t.reverse a b false := by
  unfold rfind_
  dsimp only
  rw [msb0Window_eq_s _ _ _ hab hb]
  simp only [Bool.false_eq_true, ↓reduceIte]
  simp only [rfindStore, findStore]
  rw [search_reverse_s l t a b hab hb ht]
  simp only [Bool.false_eq_true, not_false_eq_true, if_true, List.getLast?_reverse, List.head?_map]

theorem find_lsb0_mirror_partial_s (l t : Bits) (start stop : Option Int) :
    findOp .lsb0 l t start stop false = findOp .msb0 l.reverse t.reverse start stop false := by
  simp only [findOp, List.length_reverse]
  split
  · rfl
  · rename_i h0
    have ht : t ≠ [] := by intro h; simp [h] at h0
    split
    · rfl
    · rename_i a b hv
      have := validateSlice_bounds_s hv
      exact find_mirror_s l t a b this.1 this.2 ht

theorem rfind_lsb0_mirror_partial_s (l t : Bits) (start stop : Option Int) :
    rfindOp .lsb0 l t start stop false = rfindOp .msb0 l.reverse t.reverse start stop false := by
  simp only [rfindOp, List.length_reverse]
  split
  · rfl
  · rename_i a b hv
    split
    · rfl
    · rename_i h0
      have ht : t ≠ [] := by intro h; simp [h] at h0
      have := validateSlice_bounds_s hv
      exact rfind_mirror_s l t a b this.1 this.2 ht

/-! ### findall: drain loops and the chunk scan -/

/-- alignment filter used by `findall` -/
def alignedB (ba : Bool) (q : Nat) : Bool := !ba || decide (q % 8 = 0)

theorem alignedB_false_s : alignedB false = fun _ => true := by
  funext q; simp [alignedB]

theorem alignedB_true_s : alignedB true = fun q => decide (q % 8 = 0) := by
  funext q; simp [alignedB]

theorem search_wholeByte_s (L T : Bits) (a b : Nat) (hT : T ≠ []) (hm : T.length % 8 = 0) :
    (search L T ((a + 7) / 8 * 8) (b / 8 * 8)).filter (· % 8 = 0) = (search L T a b).filter (· % 8 = 0) := by
  apply eq_of_sorted_of_mem_iff_s ((search_sorted_s _ _ _ _).filter _) ((search_sorted_s _ _ _ _).filter _)
  intro p
  simp only [List.mem_filter, mem_search_iff_s _ _ _ _ _ hT, decide_eq_true_eq]
  constructor
  · rintro ⟨⟨h1, h2, h3⟩, h4⟩
    exact ⟨⟨by omega, by omega, h3⟩, h4⟩
  · rintro ⟨⟨h1, h2, h3⟩, h4⟩
    exact ⟨⟨by omega, by omega, h3⟩, h4⟩

theorem findallMsb0Store_eq_s (L T : Bits) (a b : Nat) (ba : Bool) (hT : T ≠ []) :
    findallMsb0Store L T a b ba = (search L T a b).filter (alignedB ba) := by
  unfold findallMsb0Store
  cases ba
  · simp [alignedB_false_s]
  · rw [alignedB_true_s]
    by_cases hm : T.length % 8 = 0
    · simp only [hm, and_self, if_true]
      exact search_wholeByte_s L T a b hT hm
    · simp [hm]

theorem findallMsb0_eq_s (L T : Bits) (a b : Nat) (count : Option Nat) (ba : Bool) (hT : T ≠ []) :
    findallMsb0 L T a b count ba = match count with
      | none => (search L T a b).filter (alignedB ba)
      | some c => ((search L T a b).filter (alignedB ba)).take c := by
  unfold findallMsb0
  rw [findallMsb0Store_eq_s L T a b ba hT]
  cases count <;> rfl


theorem alignedB_iff_s (ba : Bool) (q : Nat) : alignedB ba q = true ↔ (¬ ba = true ∨ q % 8 = 0) := by
  cases ba <;> simp [alignedB]

theorem drainFound_fst_s (n m : Nat) (count : Option Nat) (ba : Bool) :
    ∀ (xs : List Nat) (c : Nat), (drainFound n m count ba xs c).1 =
      match count with
      | none => (xs.map fun p => n - p - m).filter (alignedB ba)
      | some k => ((xs.map fun p => n - p - m).filter (alignedB ba)).take (k - c) := by
  intro xs
  induction xs with
  | nil => intro c; cases count <;> simp [drainFound]
  | cons p rest ih =>
    intro c
    simp only [drainFound]
    simp only [List.map_cons, List.filter_cons, alignedB_iff_s]
    by_cases hal : (¬ ba = true ∨ (n - p - m) % 8 = 0)
    · simp only [hal, if_true]
      cases count with
      | none => simp only [Bool.false_eq_true, if_false]; rw [ih (c + 1)]
      | some k =>
        simp only [ge_iff_le, decide_eq_true_eq]
        by_cases hk : k ≤ c
        · simp only [hk, if_true]
          have : k - c = 0 := by omega
          rw [this]; rfl
        · simp only [hk, if_false]
          rw [ih (c + 1)]
          have : k - c = (k - (c + 1)) + 1 := by omega
          simp only [this, List.take_succ_cons]
    · simp only [hal, if_false]
      exact ih c

theorem drainFound_append_s (n m : Nat) (count : Option Nat) (ba : Bool) (ys : List Nat) :
    ∀ (xs : List Nat) (c : Nat), (drainFound n m count ba (xs ++ ys) c).1 =
      if (drainFound n m count ba xs c).2.2 then (drainFound n m count ba xs c).1
      else (drainFound n m count ba xs c).1 ++
        (drainFound n m count ba ys (drainFound n m count ba xs c).2.1).1 := by
  intro xs
  induction xs with
  | nil => intro c; simp [drainFound]
  | cons p rest ih =>
    intro c
    simp only [List.cons_append, drainFound]
    by_cases hal : (¬ ba = true ∨ (n - p - m) % 8 = 0)
    · simp only [hal, if_true]
      cases count with
      | none =>
        simp only [Bool.false_eq_true, if_false]
        rw [ih (c + 1)]
        split <;> simp
      | some k =>
        simp only [ge_iff_le, decide_eq_true_eq]
        by_cases hk : k ≤ c
        · simp only [hk, if_true]
        · simp only [hk, if_false]
          rw [ih (c + 1)]
          split <;> simp
    · simp only [hal, if_false]
      exact ih c

theorem search_split_s (l t : Bits) (s0 pos hi : Nat) (ht : t ≠ []) (h1 : s0 ≤ pos) (h2 : pos + t.length - 1 ≤ hi) :
    search l t s0 hi = search l t s0 (pos + t.length - 1) ++ search l t pos hi := by
  have hm : 1 ≤ t.length := by cases t <;> simp_all
  apply eq_of_sorted_of_mem_iff_s (search_sorted_s _ _ _ _)
  · rw [List.pairwise_append]
    refine ⟨search_sorted_s _ _ _ _, search_sorted_s _ _ _ _, ?_⟩
    intro x hx y hy
    rw [mem_search_iff_s _ _ _ _ _ ht] at hx hy
    omega
  · intro p
    simp only [List.mem_append, mem_search_iff_s _ _ _ _ _ ht]
    constructor
    · rintro ⟨a1, a2, a3⟩
      by_cases hp : p < pos
      · left; exact ⟨a1, by omega, a3⟩
      · right; exact ⟨by omega, a2, a3⟩
    · rintro (⟨a1, a2, a3⟩ | ⟨a1, a2, a3⟩)
      · exact ⟨a1, by omega, a3⟩
      · exact ⟨by omega, a2, a3⟩

theorem findallMsb0_none_false_s (l t : Bits) (a b : Nat) : findallMsb0 l t a b none false = search l t a b := by
  simp [findallMsb0, findallMsb0Store]

theorem fixedLoop_eq_s (inc : Nat) (hinc : 1 ≤ inc) (l t : Bits) (ht : t ≠ []) (s0 : Nat) (count : Option Nat) (ba : Bool) :
    ∀ (fuel hi c : Nat), s0 ≤ hi → hi - s0 < fuel →
      findallLsb0Loop inc l t s0 count ba fuel hi c
        = (drainFound l.length t.length count ba (search l t s0 hi).reverse c).1 := by
  have hm : 1 ≤ t.length := by cases t <;> simp_all
  intro fuel
  induction fuel with
  | zero => intro hi c _ h; omega
  | succ fuel ih =>
    intro hi c hs hf
    simp only [findallLsb0Loop, findallMsb0_none_false_s]
    by_cases hpos : max s0 (hi - (inc + t.length)) = s0
    · simp only [hpos, if_true, ite_self]
    · simp only [hpos, if_false]
      have hsplit := search_split_s l t s0 (max s0 (hi - (inc + t.length))) hi ht (by omega) (by omega)
      rw [ih _ _ (by omega) (by omega)]
      conv_rhs => rw [hsplit, List.reverse_append, drainFound_append_s]

theorem findall_fixed_chunks_eq_s (inc : Nat) (hinc : 1 ≤ inc) (l t : Bits) (a b : Nat) (count : Option Nat) (ba : Bool)
    (hab : a ≤ b) (hb : b ≤ l.length) (ht : t ≠ []) :
    findallLsb0 inc l t a b count ba = .ok (findallMsb0 l.reverse t.reverse a b count ba) := by
  have htr : t.reverse ≠ [] := by simpa using ht
  unfold findallLsb0
  rw [msb0Window_eq_s _ _ _ hab hb]
  dsimp only
  rw [fixedLoop_eq_s inc hinc l t ht _ count ba _ _ _ (by omega) (by omega), drainFound_fst_s,
    findallMsb0_eq_s _ _ _ _ _ _ htr, search_reverse_s l t a b hab hb ht]
  cases count <;> simp only [List.map_reverse, Nat.sub_zero]

theorem chunkIncrement_pos_s (t : Bits) : 1 ≤ chunkIncrement t := by
  unfold chunkIncrement; omega

theorem findall_lsb0_mirror_s (l t : Bits) (start stop : Option Int) (count : Option Int) (ba : Bool) :
    findallOp .lsb0 l t start stop count ba = findallOp .msb0 l.reverse t.reverse start stop count ba := by
  simp only [findallOp, List.length_reverse]
  split
  · rfl
  · split
    · rfl
    · rename_i ht0
      have ht : t ≠ [] := by
        intro hh; apply ht0; rw [hh]; rfl
      split
      · rfl
      · rename_i a b hv
        have hv' := validateSlice_bounds_s hv
        unfold findall_
        dsimp only
        exact findall_fixed_chunks_eq_s _ (chunkIncrement_pos_s t) l t a b _ ba hv'.1 hv'.2 ht

/-! ### find / rfind with `bytealigned=True` -/

theorem find_mirror_aligned_s (l t : Bits) (a b : Nat) (hab : a ≤ b) (hb : b ≤ l.length) (ht : t ≠ []) :
    find_ .lsb0 l t a b true = find_ .msb0 l.reverse t.reverse a b true := by
  unfold find_
  dsimp only
  simp only [↓reduceIte]
  rw [findall_fixed_chunks_eq_s _ (chunkIncrement_pos_s t) l t a b (some 1) true hab hb ht]
  simp only [findallMsb0, findStore, Bool.not_true, Bool.false_eq_true, ↓reduceIte, not_true_eq_false]
  congr 1
  cases findallMsb0Store l.reverse t.reverse a b true <;> rfl

theorem rfind_mirror_aligned_s (l t : Bits) (a b : Nat) (hab : a ≤ b) (hb : b ≤ l.length) (ht : t ≠ []) :
    rfind_ .lsb0 l t a b true = rfind_ .msb0 l.reverse t.reverse a b true := by
  have htr : t.reverse ≠ [] := by simpa using ht
  unfold rfind_
  dsimp only
  rw [msb0Window_eq_s _ _ _ hab hb]
  simp only [↓reduceIte, rfindStore, Bool.not_true, Bool.false_eq_true, not_true_eq_false]
  congr 1
  have h1 : findallMsb0Store l t (l.length - b) (l.length - a) false = search l t (l.length - b) (l.length - a) := by
    simp [findallMsb0Store]
  rw [h1, search_reverse_s l t a b hab hb ht, List.filter_reverse, List.getLast?_reverse, List.head?_filter,
    List.find?_map]
  rfl

theorem find_lsb0_mirror_s (l t : Bits) (start stop : Option Int) (ba : Bool) :
    findOp .lsb0 l t start stop ba = findOp .msb0 l.reverse t.reverse start stop ba := by
  simp only [findOp, List.length_reverse]
  split
  · rfl
  · rename_i h0
    have ht : t ≠ [] := by intro h; simp [h] at h0
    split
    · rfl
    · rename_i a b hv
      have := validateSlice_bounds_s hv
      cases ba
      · exact find_mirror_s l t a b this.1 this.2 ht
      · exact find_mirror_aligned_s l t a b this.1 this.2 ht

theorem rfind_lsb0_mirror_s (l t : Bits) (start stop : Option Int) (ba : Bool) :
    rfindOp .lsb0 l t start stop ba = rfindOp .msb0 l.reverse t.reverse start stop ba := by
  simp only [rfindOp, List.length_reverse]
  split
  · rfl
  · rename_i a b hv
    split
    · rfl
    · rename_i h0
      have ht : t ≠ [] := by intro h; simp [h] at h0
      have := validateSlice_bounds_s hv
      cases ba
      · exact rfind_mirror_s l t a b this.1 this.2 ht
      · exact rfind_mirror_aligned_s l t a b this.1 this.2 ht

end BM.C12
