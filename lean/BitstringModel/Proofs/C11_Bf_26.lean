/- Kernel obligation: `bfChk` (Proofs/C11_NumDefs.lean) on the 16-bit patterns 0x6800..0x6bff. -/
import BitstringModel.Proofs.C11_NumDefs
namespace BM.C11
theorem bfChunk_26 : bfChunkOk 26 = true := by decide +kernel
end BM.C11
