/- Kernel obligation: decoding any code of e2m3mxfp (table E2M3) and encoding the value again under 'saturate' gives the code back,
   except NaN codes and (e5m2, saturate) infinities - `reencChk` in Proofs/C11_Reenc.lean states the exceptions. -/
import BitstringModel.Proofs.C11_Reenc
namespace BM.C11
theorem reencChk_E2M3 : reencChk .e2m3mxfp .saturate = true := by decide +kernel
end BM.C11
