/-
  Proofs/C15Core.lean — integers, byte groups, digit strings (helper lemmas for Props/C15.lean).
-/
import BitstringModel.Model.C15
import BitstringModel.Proofs.Basic
import Mathlib.Tactic.Ring
import Mathlib.Tactic.Linarith

namespace BM.C15
open BM

/-! ### int2bitstore -/

theorem shl1_pred (n : Int) (h : 0 < n) : shl1 (n - 1) = (2 : Int) ^ (n.toNat - 1) := by
  unfold shl1; congr 1; omega

theorem inRange_signed_false (m : Nat) (i : Int) (h : inRange true m i = false) :
    i ≥ (2 : Int) ^ (m - 1) ∨ i < -((2 : Int) ^ (m - 1)) := by
  unfold inRange at h
  simp only [if_true, decide_eq_false_iff_not] at h
  generalize (2 : Int) ^ (m - 1) = P at *
  omega

theorem inRange_unsigned_false (m : Nat) (i : Int) (h : inRange false m i = false) :
    i ≥ (2 : Int) ^ m ∨ i < 0 := by
  unfold inRange at h
  simp only [Bool.false_eq_true, if_false, decide_eq_false_iff_not] at h
  generalize (2 : Int) ^ m = P at *
  omega

/-- What the overflow branch of `int2bitstore` returns when the value really is out of range. -/
theorem diag_value (i n : Int) (s : Bool) (hn : 0 < n) (hr : inRange s n.toNat i = false) :
    (if s = true then
      if i ≥ shl1 (n - 1) ∨ i < -(shl1 (n - 1)) then (Except.error Err.value : Except Err Bits)
      else .error (.internal "OverflowError")
    else
      if i ≥ shl1 n then .error .value
      else if i < 0 then .error .value
      else .error (.internal "OverflowError")) = .error .value := by
  cases s with
  | true =>
    have := inRange_signed_false _ _ hr
    rw [shl1_pred n hn]
    simp only [if_true]
    rw [if_pos this]
  | false =>
    have := inRange_unsigned_false _ _ hr
    simp only [Bool.false_eq_true, if_false]
    unfold shl1
    rcases this with h | h
    · rw [if_pos h]
    · by_cases h2 : i ≥ (2 : Int) ^ n.toNat
      · rw [if_pos h2]
      · rw [if_neg h2, if_pos h]

theorem int2bitsWith_cases (ba : Int → Int → Bool → Except BaErr Bits)
    (hlen : ∀ i n s, n ≤ 0 → ba i n s = .error .value)
    (hovf : ∀ i n s, 0 < n → inRange s n.toNat i = false → ba i n s = .error .overflow)
    (i n : Int) (s : Bool) (h : ¬ (1 ≤ n ∧ inRange s n.toNat i = true)) :
    int2bitsWith ba i n s = .error .value := by
  unfold int2bitsWith
  by_cases hn : n ≤ 0
  · rw [hlen i n s hn]
  · have hn' : 0 < n := by omega
    have hr : inRange s n.toNat i = false := by
      cases hh : inRange s n.toNat i with
      | false => rfl
      | true => exact absurd ⟨by omega, hh⟩ h
    rw [hovf i n s hn' hr]
    exact diag_value i n s hn' hr

theorem int2bitsWith_exact_aux (ba : Int → Int → Bool → Except BaErr Bits)
    (hlen : ∀ i n s, n ≤ 0 → ba i n s = .error .value)
    (hovf : ∀ i n s, 0 < n → inRange s n.toNat i = false → ba i n s = .error .overflow)
    (hok : ∀ i n s, 0 < n → inRange s n.toNat i = true → ∃ b, ba i n s = .ok b)
    (i n : Int) (s : Bool) :
    (∃ b, int2bitsWith ba i n s = .ok b) ↔ (1 ≤ n ∧ inRange s n.toNat i = true) := by
  constructor
  · intro ⟨b, hb⟩
    by_contra hc
    rw [int2bitsWith_cases ba hlen hovf i n s hc] at hb
    cases hb
  · intro ⟨h1, h2⟩
    obtain ⟨b, hb⟩ := hok i n s (by omega) h2
    exact ⟨b, by unfold int2bitsWith; rw [hb]⟩

theorem int2bitsWith_never_internal_aux (ba : Int → Int → Bool → Except BaErr Bits)
    (hlen : ∀ i n s, n ≤ 0 → ba i n s = .error .value)
    (hovf : ∀ i n s, 0 < n → inRange s n.toNat i = false → ba i n s = .error .overflow)
    (hok : ∀ i n s, 0 < n → inRange s n.toNat i = true → ∃ b, ba i n s = .ok b)
    (i n : Int) (s : Bool) :
    (∃ b, int2bitsWith ba i n s = .ok b) ∨ int2bitsWith ba i n s = .error .value := by
  by_cases h : 1 ≤ n ∧ inRange s n.toNat i = true
  · exact Or.inl ((int2bitsWith_exact_aux ba hlen hovf hok i n s).2 h)
  · exact Or.inr (int2bitsWith_cases ba hlen hovf i n s h)

theorem int2ba_len (i n : Int) (s : Bool) (h : n ≤ 0) : int2ba i n s = .error .value := by
  unfold int2ba; rw [if_pos h]
theorem int2ba_ovf (i n : Int) (s : Bool) (h : 0 < n) (hr : inRange s n.toNat i = false) :
    int2ba i n s = .error .overflow := by
  unfold int2ba; rw [if_neg (by omega), hr]; rfl
theorem int2ba_ok (i n : Int) (s : Bool) (h : 0 < n) (hr : inRange s n.toNat i = true) :
    int2ba i n s = .ok (intToBits n.toNat i) := by
  unfold int2ba; rw [if_neg (by omega), hr]; rfl

theorem int2bits_total_aux (i n : Int) (s : Bool) :
    int2bits i n s =
      if 1 ≤ n ∧ inRange s n.toNat i = true then .ok (intToBits n.toNat i) else .error .value := by
  by_cases h : 1 ≤ n ∧ inRange s n.toNat i = true
  · rw [if_pos h]; unfold int2bits int2bitsWith; rw [int2ba_ok i n s (by omega) h.2]
  · rw [if_neg h]
    exact int2bitsWith_cases int2ba int2ba_len int2ba_ovf i n s h

theorem int2bits_ok_iff_aux (i n : Int) (s : Bool) (b : Bits) :
    int2bits i n s = .ok b ↔ (1 ≤ n ∧ inRange s n.toNat i = true ∧ b = intToBits n.toNat i) := by
  rw [int2bits_total_aux]
  by_cases h : 1 ≤ n ∧ inRange s n.toNat i = true
  · rw [if_pos h]
    exact ⟨fun e => ⟨h.1, h.2, by injection e with e; exact e.symm⟩, fun e => by rw [e.2.2]⟩
  · rw [if_neg h]
    exact ⟨fun e => (by cases e), fun e => absurd ⟨e.1, e.2.1⟩ h⟩

theorem int2bits_unsigned_value_aux (i n : Int) (b : Bits) (h : int2bits i n false = .ok b) :
    (bitsToNat b : Int) = i := by
  obtain ⟨h1, h2, rfl⟩ := (int2bits_ok_iff_aux i n false b).1 h
  unfold inRange at h2
  simp only [Bool.false_eq_true, if_false, decide_eq_true_eq] at h2
  obtain ⟨k, rfl⟩ := Int.eq_ofNat_of_zero_le h2.1
  unfold intToBits
  have hk : k < 2 ^ n.toNat := by
    have := h2.2
    exact_mod_cast this
  have : ((k : Int) % (2 : Int) ^ n.toNat).toNat = k := by
    rw [Int.emod_eq_of_lt h2.1 h2.2]; simp
  rw [this, bitsToNat_natToBits _ _ hk]

/-! ### byte groups -/

theorem groups8_spec (k : Nat) (b : Bits) (h : b.length = 8 * k) :
    (groups8 k b).flatten = b ∧ ∀ g ∈ groups8 k b, g.length = 8 := by
  induction k generalizing b with
  | zero =>
    have : b = [] := List.eq_nil_of_length_eq_zero (by omega)
    subst this; simp [groups8]
  | succ k ih =>
    have hd : (b.drop 8).length = 8 * k := by simp; omega
    obtain ⟨h1, h2⟩ := ih (b.drop 8) hd
    constructor
    · simp only [groups8, List.flatten_cons, h1, List.take_append_drop]
    · intro g hg
      simp only [groups8, List.mem_cons] at hg
      rcases hg with rfl | hg
      · simp; omega
      · exact h2 g hg

theorem padRight8_id (g : Bits) (h : g.length = 8) : padRight8 g = g := by
  unfold padRight8; rw [h]; simp

theorem map_padRight8_id (L : List Bits) (h : ∀ g ∈ L, g.length = 8) : L.map padRight8 = L := by
  induction L with
  | nil => rfl
  | cons x xs ih =>
    simp only [List.map_cons]
    rw [padRight8_id x (h x (by simp)), ih (fun g hg => h g (by simp [hg]))]

theorem reverse_flatten_length {α} (L : List (List α)) : L.reverse.flatten.length = L.flatten.length := by
  induction L with
  | nil => rfl
  | cons x xs ih => simp [ih]; omega

theorem bytesRev_whole_bytes_aux (b : Bits) (h : b.length % 8 = 0) :
    bytesRev b = leBits b ∧ (bytesRev b).length = b.length := by
  have hk : b.length = 8 * (b.length / 8) := by omega
  have hk2 : (b.length + 7) / 8 = b.length / 8 := by omega
  obtain ⟨h1, h2⟩ := groups8_spec (b.length / 8) b hk
  have e : bytesRev b = leBits b := by
    unfold bytesRev leBits
    rw [hk2, map_padRight8_id _ h2]
  refine ⟨e, ?_⟩
  rw [e]; unfold leBits
  rw [reverse_flatten_length, h1]

theorem leBits_length (b : Bits) (h : b.length % 8 = 0) : (leBits b).length = b.length := by
  obtain ⟨e, l⟩ := bytesRev_whole_bytes_aux b h
  rw [← e]; exact l

/-! ### digit strings, allowed lengths -/

theorem mapM_option_eq {α β} (f : α → Option β) (l : List α) :
    l.mapM f = if (l.all fun c => (f c).isSome) = true then some (l.filterMap f) else none := by
  induction l with
  | nil => simp
  | cons x xs ih =>
    rw [List.mapM_cons, ih]
    cases hx : f x with
    | none => simp [hx]
    | some y =>
      by_cases hall : (xs.all fun c => (f c).isSome) = true
      · simp [hx, hall]
      · simp [hx, hall]

theorem filterMap_length_of_all {α β} (f : α → Option β) (l : List α)
    (h : (l.all fun c => (f c).isSome) = true) : (l.filterMap f).length = l.length := by
  induction l with
  | nil => rfl
  | cons x xs ih =>
    simp only [List.all_cons, Bool.and_eq_true] at h
    cases hx : f x with
    | none => rw [hx] at h; simp at h
    | some y => simp [hx, ih h.2]

theorem flatMap_natToBits_length (w : Nat) (ds : List Nat) :
    (ds.flatMap (natToBits w)).length = w * ds.length := by
  induction ds with
  | nil => simp
  | cons x xs ih => simp [List.flatMap_cons, ih]; ring

theorem digits2bits_total_aux (k : DigitKind) (s : List Char) :
    digits2bits k s =
      if ((cleaned k s).all fun c => (k.val? c).isSome) = true
      then .ok (((cleaned k s).filterMap k.val?).flatMap (natToBits k.width)) else .error .value := by
  unfold digits2bits
  rw [mapM_option_eq]
  by_cases h : ((cleaned k s).all fun c => (k.val? c).isSome) = true
  · rw [if_pos h, if_pos h]
  · rw [if_neg h, if_neg h]

theorem digits2bits_ok_iff_aux (k : DigitKind) (s : List Char) (b : Bits) :
    digits2bits k s = .ok b ↔
      ((cleaned k s).all fun c => (k.val? c).isSome) = true ∧
      b = ((cleaned k s).filterMap k.val?).flatMap (natToBits k.width) := by
  rw [digits2bits_total_aux]
  by_cases h : ((cleaned k s).all fun c => (k.val? c).isSome) = true
  · rw [if_pos h]
    exact ⟨fun e => ⟨h, by injection e with e; exact e.symm⟩, fun e => by rw [e.2]⟩
  · rw [if_neg h]
    exact ⟨fun e => (by cases e), fun e => absurd e.1 h⟩

theorem digits2bits_length_aux (k : DigitKind) (s : List Char) (b : Bits) (h : digits2bits k s = .ok b) :
    b.length = k.width * (cleaned k s).length := by
  obtain ⟨h1, rfl⟩ := (digits2bits_ok_iff_aux k s b).1 h
  rw [flatMap_natToBits_length, filterMap_length_of_all _ _ h1]

theorem allowed_meaning_aux (n : Int) :
    ((defOf .uintbe).allowed.contains n = true ↔ n % 8 = 0) ∧
    ((defOf .intle).allowed.contains n = true ↔ n % 8 = 0) ∧
    ((defOf .hex).allowed.contains n = true ↔ n % 4 = 0) ∧
    ((defOf .oct).allowed.contains n = true ↔ n % 3 = 0) ∧
    ((defOf .float).allowed.contains n = true ↔ (n = 16 ∨ n = 32 ∨ n = 64)) ∧
    ((defOf .bool).allowed.contains n = true ↔ n = 1) ∧
    ((defOf .bfloat).allowed.contains n = true ↔ n = 16) := by
  simp only [defOf, Allowed.contains, beq_iff_eq, List.contains_eq_mem, List.mem_cons, List.not_mem_nil, or_false,
    decide_eq_true_eq]
  refine ⟨?_, ?_, ?_, ?_, ?_, ?_, ?_⟩
  all_goals first | trivial | omega
end BM.C15
