/- Kernel obligation: `bfChk` (Proofs/C11_NumDefs.lean) on the 16-bit patterns 0xb800..0xbbff. -/
import BitstringModel.Proofs.C11_NumDefs
namespace BM.C11
theorem bfChunk_46 : bfChunkOk 46 = true := by decide +kernel
end BM.C11
