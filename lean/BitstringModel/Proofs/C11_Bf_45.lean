/- Kernel obligation: `bfChk` (Proofs/C11_NumDefs.lean) on the 16-bit patterns 0xb400..0xb7ff. -/
import BitstringModel.Proofs.C11_NumDefs
namespace BM.C11
theorem bfChunk_45 : bfChunkOk 45 = true := by decide +kernel
end BM.C11
