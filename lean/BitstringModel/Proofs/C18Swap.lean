/-
  Proofs/C18Swap.lean — helper lemmas for Props/C18_Byteswap.lean (the `byteswap` loop against `swapSpec`).
-/
import BitstringModel.Model.C18
import BitstringModel.Proofs.C18
import BitstringModel.Props.C18

namespace BM.C18.Swap
open BM BM.C18

theorem reversebytes_inrange (pre seg post : Bits) :
    reversebytes (pre ++ seg ++ post) pre.length (pre.length + seg.length) = pre ++ bytesRev seg ++ post := by
  unfold reversebytes
  have h1 : ((pre ++ seg ++ post).take (pre.length + seg.length)).drop pre.length = seg := by
    rw [List.take_left' (by simp), List.drop_left' rfl]
  have h2 : min pre.length (pre ++ seg ++ post).length = pre.length := by simp
  have h3 : max pre.length (min (pre.length + seg.length) (pre ++ seg ++ post).length) = pre.length + seg.length := by
    simp
  simp only [h1, h2, h3]
  rw [List.drop_left' (by simp), List.append_assoc pre seg post, List.take_left' rfl]

theorem swapGroups_length (sizes : List Nat) (b : Bits) (hlen : b.length = 8 * sizes.sum) :
    (swapGroups sizes b).length = b.length := by
  induction sizes generalizing b with
  | nil => rfl
  | cons k ks ih =>
    simp only [List.sum_cons] at hlen
    simp only [swapGroups, List.length_append]
    rw [bytesRev_length' _ (by simp; omega), ih _ (by simp; omega)]
    simp; omega

theorem swapOnce_inrange (sizes : List Nat) (pre body post : Bits) (hlen : body.length = 8 * sizes.sum) :
    swapOnce (pre ++ body ++ post) sizes pre.length = pre ++ swapGroups sizes body ++ post := by
  induction sizes generalizing pre body with
  | nil => rfl
  | cons k ks ih =>
    simp only [List.sum_cons] at hlen
    have hb1 : (body.take (8 * k)).length = 8 * k := by simp; omega
    have hsplit : pre ++ body ++ post = pre ++ body.take (8 * k) ++ (body.drop (8 * k) ++ post) := by
      rw [List.append_assoc, List.append_assoc, ← List.append_assoc (body.take _), List.take_append_drop]
    have hk : pre.length + k * 8 = pre.length + (body.take (8 * k)).length := by rw [hb1]; omega
    simp only [swapOnce, swapGroups]
    rw [hk, hsplit, reversebytes_inrange]
    have hl : pre.length + (body.take (8 * k)).length = (pre ++ bytesRev (body.take (8 * k))).length := by
      rw [List.length_append, bytesRev_length' _ (by rw [hb1]; omega)]
    rw [hl, ← List.append_assoc, ih _ _ (by simp; omega)]
    simp [List.append_assoc]

theorem swapLoop_inrange (m : Nat) (sizes : List Nat) (total : Nat) (htot : total = 8 * sizes.sum)
    (fuel : Nat) (pre mid post : Bits) (pe finalbit reps : Nat)
    (hmid : mid.length = m * total) (hpe : pe = pre.length + total)
    (hlo : pre.length + m * total ≤ finalbit) (hhi : finalbit < pre.length + (m + 1) * total) (hfuel : m ≤ fuel) :
    swapLoop fuel (pre ++ mid ++ post) sizes total pe finalbit reps
      = (reps + m, pre ++ swapRepeat m total sizes mid ++ post) := by
  induction m generalizing fuel pre mid pe reps with
  | zero =>
    simp only [Nat.zero_mul, Nat.add_zero, Nat.zero_add, Nat.one_mul] at hlo hhi
    cases fuel with
    | zero => rfl
    | succ f =>
      simp only [swapLoop, swapRepeat]
      rw [if_neg (by omega)]; rfl
  | succ m ih =>
    cases fuel with
    | zero => omega
    | succ f =>
      have hmul : (m + 1) * total = m * total + total := Nat.succ_mul m total
      have h1 : (mid.take total).length = total := by simp; omega
      simp only [swapLoop, swapRepeat]
      rw [if_pos (by omega)]
      have hsplit : pre ++ mid ++ post = pre ++ mid.take total ++ (mid.drop total ++ post) := by
        rw [List.append_assoc, List.append_assoc, ← List.append_assoc (mid.take _), List.take_append_drop]
      rw [hpe, Nat.add_sub_cancel, hsplit, swapOnce_inrange _ _ _ _ (by rw [h1, htot])]
      have hl : (pre ++ swapGroups sizes (mid.take total)).length = pre.length + total := by
        rw [List.length_append, swapGroups_length _ _ (by rw [h1, htot]), h1]
      rw [← List.append_assoc, ih f _ (mid.drop total) _ _ (by simp; omega) (by rw [hl]) (by rw [hl]; omega)
        (by rw [hl]; rw [Nat.succ_mul] at hhi; rw [Nat.succ_mul]; omega) (by omega)]
      simp [List.append_assoc]; omega


theorem swapGroups_swapGroups (sizes : List Nat) (b : Bits) (hlen : b.length = 8 * sizes.sum) :
    swapGroups sizes (swapGroups sizes b) = b := by
  induction sizes generalizing b with
  | nil => rfl
  | cons k ks ih =>
    simp only [List.sum_cons] at hlen
    have hb1 : (b.take (8 * k)).length = 8 * k := by simp; omega
    have hr : (bytesRev (b.take (8 * k))).length = 8 * k := by
      rw [bytesRev_length' _ (by rw [hb1]; omega), hb1]
    simp only [swapGroups]
    rw [List.take_left' hr, List.drop_left' hr, bytesRev_bytesRev' _ (by rw [hb1]; omega),
      ih _ (by simp; omega), List.take_append_drop]

theorem swapRepeat_length (m total : Nat) (sizes : List Nat) (htot : total = 8 * sizes.sum) (mid : Bits)
    (hmid : mid.length = m * total) : (swapRepeat m total sizes mid).length = mid.length := by
  induction m generalizing mid with
  | zero => rfl
  | succ m ih =>
    rw [Nat.succ_mul] at hmid
    have h1 : (mid.take total).length = total := by simp; omega
    simp only [swapRepeat, List.length_append]
    rw [swapGroups_length _ _ (by rw [h1, htot]), ih _ (by simp; omega), h1]
    simp; omega

theorem swapRepeat_swapRepeat (m total : Nat) (sizes : List Nat) (htot : total = 8 * sizes.sum) (mid : Bits)
    (hmid : mid.length = m * total) :
    swapRepeat m total sizes (swapRepeat m total sizes mid) = mid := by
  induction m generalizing mid with
  | zero => rfl
  | succ m ih =>
    rw [Nat.succ_mul] at hmid
    have h1 : (mid.take total).length = total := by simp; omega
    have hr : (swapGroups sizes (mid.take total)).length = total := by
      rw [swapGroups_length _ _ (by rw [h1, htot]), h1]
    simp only [swapRepeat]
    rw [List.take_left' hr, List.drop_left' hr, swapGroups_swapGroups _ _ (by rw [h1, htot]),
      ih _ (by simp; omega), List.take_append_drop]

theorem validateSlice_bounds (n : Nat) (s e : Option Int) (a z : Nat)
    (hv : validateSlice n s e = .ok (a, z)) : a ≤ z ∧ z ≤ n := by
  unfold validateSlice at hv
  dsimp only at hv
  repeat' split at hv
  all_goals (cases hv <;> omega)

/-- The repetition count of `swapSpec`. -/
def swapCount (sizes : List Nat) (a z : Nat) (rep : Bool) : Nat :=
  if rep then (z - a) / (8 * sizes.sum) else if a + 8 * sizes.sum ≤ z then 1 else 0

theorem swapSpec_decomp (sizes : List Nat) (a z : Nat) (rep : Bool) (pre mid post : Bits)
    (htot : 8 * sizes.sum ≠ 0) (hpre : pre.length = a)
    (hmid : mid.length = swapCount sizes a z rep * (8 * sizes.sum)) :
    swapSpec (pre ++ mid ++ post) sizes a z rep
      = (swapCount sizes a z rep, pre ++ swapRepeat (swapCount sizes a z rep) (8 * sizes.sum) sizes mid ++ post) := by
  unfold swapSpec
  simp only [if_neg htot]
  have hk : (if rep then (z - a) / (8 * sizes.sum) else if a + 8 * sizes.sum ≤ z then 1 else 0)
      = swapCount sizes a z rep := rfl
  rw [hk]
  have e1 : (pre ++ mid ++ post).take a = pre := by
    rw [List.append_assoc, List.take_left' hpre]
  have e2 : ((pre ++ mid ++ post).drop a).take (swapCount sizes a z rep * (8 * sizes.sum)) = mid := by
    rw [List.append_assoc, List.drop_left' hpre, List.take_left' hmid]
  have e3 : (pre ++ mid ++ post).drop (a + swapCount sizes a z rep * (8 * sizes.sum)) = post := by
    rw [List.drop_left' (by simp [hpre, hmid])]
  rw [e1, e2, e3]

theorem swapCount_bound (sizes : List Nat) (a z : Nat) (rep : Bool) (haz : a ≤ z) :
    a + swapCount sizes a z rep * (8 * sizes.sum) ≤ z := by
  unfold swapCount
  split
  · have := Nat.div_mul_le_self (z - a) (8 * sizes.sum); omega
  · split <;> omega


theorem swapCount_facts (sizes : List Nat) (a z : Nat) (rep : Bool) (haz : a ≤ z) (htot : 8 * sizes.sum ≠ 0) :
    a + swapCount sizes a z rep * (8 * sizes.sum) ≤ (if rep then z else min (a + 8 * sizes.sum) z) ∧
    (if rep then z else min (a + 8 * sizes.sum) z) < a + (swapCount sizes a z rep + 1) * (8 * sizes.sum) ∧
    swapCount sizes a z rep ≤ (if rep then z else min (a + 8 * sizes.sum) z) + 1 := by
  unfold swapCount
  generalize 8 * sizes.sum = T at *
  have hT : 0 < T := Nat.pos_of_ne_zero htot
  cases rep with
  | true =>
    simp only [if_true]
    have h1 := Nat.div_add_mod (z - a) T
    have h2 := Nat.mod_lt (z - a) hT
    have h3 : (z - a) / T ≤ (z - a) / T * T := Nat.le_mul_of_pos_right _ hT
    rw [Nat.succ_mul]
    rw [Nat.mul_comm] at h1
    generalize (z - a) / T = q at *
    generalize (z - a) % T = r at *
    generalize q * T = qT at *
    refine ⟨?_, ?_, ?_⟩ <;> omega
  | false =>
    simp only [Bool.false_eq_true, if_false]
    by_cases hv : a + T ≤ z
    · simp only [if_pos hv]; omega
    · simp only [if_neg hv]; omega

theorem split3 (l : Bits) (a n : Nat) : l = l.take a ++ (l.drop a).take n ++ l.drop (a + n) := by
  rw [List.append_assoc, ← List.drop_drop, List.take_append_drop, List.take_append_drop]

theorem byteswap_decomp (pre mid post : Bits) (f : Fmt) (s e : Option Int) (rep : Bool) (a z : Nat)
    (sizes : List Nat)
    (hv : validateSlice (pre ++ mid ++ post).length s e = .ok (a, z)) (hf : fmtSizes f a z = .ok sizes)
    (htot : 8 * sizes.sum ≠ 0) (hpre : pre.length = a)
    (hmid : mid.length = swapCount sizes a z rep * (8 * sizes.sum)) :
    byteswap (pre ++ mid ++ post) f s e rep
      = .ok (swapCount sizes a z rep, pre ++ swapRepeat (swapCount sizes a z rep) (8 * sizes.sum) sizes mid ++ post) := by
  obtain ⟨haz, _⟩ := validateSlice_bounds _ _ _ _ _ hv
  obtain ⟨h1, h2, h3⟩ := swapCount_facts sizes a z rep haz htot
  unfold byteswap
  simp only [hv, hf, if_neg htot]
  rw [swapLoop_inrange (swapCount sizes a z rep) sizes (8 * sizes.sum) rfl _ pre mid post _ _ 0 hmid
    (by rw [hpre]) (by rw [hpre]; exact h1) (by rw [hpre]; exact h2) h3, Nat.zero_add]

theorem byteswap_eq_spec' (l : Bits) (f : Fmt) (s e : Option Int) (rep : Bool) (a z : Nat) (sizes : List Nat)
    (hv : validateSlice l.length s e = .ok (a, z)) (hf : fmtSizes f a z = .ok sizes)
    :
    byteswap l f s e rep = .ok (swapSpec l sizes a z rep) := by
  obtain ⟨haz, hzl⟩ := validateSlice_bounds _ _ _ _ _ hv
  by_cases htot : 8 * sizes.sum = 0
  · unfold byteswap swapSpec
    simp only [hv, hf, htot, if_true]
  · have hkb := swapCount_bound sizes a z rep haz
    have hl := split3 l a (swapCount sizes a z rep * (8 * sizes.sum))
    have hpre : (l.take a).length = a := by simp; omega
    have hmid : ((l.drop a).take (swapCount sizes a z rep * (8 * sizes.sum))).length
        = swapCount sizes a z rep * (8 * sizes.sum) := by simp; omega
    have key := byteswap_decomp _ _ (l.drop (a + swapCount sizes a z rep * (8 * sizes.sum))) f s e rep a z sizes
      (by rw [← hl]; exact hv) hf htot hpre hmid
    have spec := swapSpec_decomp sizes a z rep _ _ (l.drop (a + swapCount sizes a z rep * (8 * sizes.sum)))
      htot hpre hmid
    rw [← hl] at key spec
    rw [key, spec]


theorem byteswap_struct (l : Bits) (f : Fmt) (s e : Option Int) (rep : Bool) (a z : Nat) (sizes : List Nat)
    (hv : validateSlice l.length s e = .ok (a, z)) (hf : fmtSizes f a z = .ok sizes)
    (htot : 8 * sizes.sum ≠ 0) (k : Nat) (l' : Bits)
    (h : byteswap l f s e rep = .ok (k, l')) :
    k = swapCount sizes a z rep ∧
    l' = l.take a ++ swapRepeat (swapCount sizes a z rep) (8 * sizes.sum) sizes
          ((l.drop a).take (swapCount sizes a z rep * (8 * sizes.sum)))
        ++ l.drop (a + swapCount sizes a z rep * (8 * sizes.sum)) := by
  rw [byteswap_eq_spec' l f s e rep a z sizes hv hf] at h
  unfold swapSpec at h
  simp only [if_neg htot, Except.ok.injEq, Prod.mk.injEq] at h
  exact ⟨h.1.symm, h.2.symm⟩

theorem byteswap_twice' (l : Bits) (f : Fmt) (s e : Option Int) (rep : Bool) (a z : Nat) (sizes : List Nat)
    (hv : validateSlice l.length s e = .ok (a, z)) (hf : fmtSizes f a z = .ok sizes)
    (k : Nat) (l' : Bits)
    (h : byteswap l f s e rep = .ok (k, l')) :
    byteswap l' f s e rep = .ok (k, l) := by
  obtain ⟨haz, hzl⟩ := validateSlice_bounds _ _ _ _ _ hv
  by_cases htot : 8 * sizes.sum = 0
  · have h' := h
    rw [byteswap_eq_spec' l f s e rep a z sizes hv hf] at h'
    simp only [swapSpec, htot, if_true, Except.ok.injEq, Prod.mk.injEq] at h'
    obtain ⟨rfl, rfl⟩ := h'
    exact h
  · obtain ⟨hk, hl'⟩ := byteswap_struct l f s e rep a z sizes hv hf htot k l' h
    subst hk
    have hkb := swapCount_bound sizes a z rep haz
    have hl := split3 l a (swapCount sizes a z rep * (8 * sizes.sum))
    have hpre : (l.take a).length = a := by simp; omega
    have hmid : ((l.drop a).take (swapCount sizes a z rep * (8 * sizes.sum))).length
        = swapCount sizes a z rep * (8 * sizes.sum) := by simp; omega
    have hmid' := swapRepeat_length (swapCount sizes a z rep) (8 * sizes.sum) sizes rfl _ hmid
    have hlen : l'.length = l.length := by
      have := congrArg List.length hl
      rw [hl']
      simp only [List.length_append] at this ⊢
      rw [hmid', this]
    have key := byteswap_decomp (l.take a) _ (l.drop (a + swapCount sizes a z rep * (8 * sizes.sum))) f s e rep a z
      sizes (by rw [← hl', hlen]; exact hv) hf htot hpre (hmid'.trans hmid)
    rw [← hl', swapRepeat_swapRepeat _ _ _ rfl _ hmid, ← hl] at key
    exact key


theorem int2bitstore_length (i : Int) (len : Nat) (signed : Bool) (x : Bits)
    (h : int2bitstore i len signed = .ok x) : x.length = len := by
  unfold int2bitstore at h
  split at h <;> split at h <;> cases h <;> simp [intToBits]

end BM.C18.Swap
