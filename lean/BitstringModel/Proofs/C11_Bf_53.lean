/- Kernel obligation: `bfChk` (Proofs/C11_NumDefs.lean) on the 16-bit patterns 0xd400..0xd7ff. -/
import BitstringModel.Proofs.C11_NumDefs
namespace BM.C11
theorem bfChunk_53 : bfChunkOk 53 = true := by decide +kernel
end BM.C11
