/-
  Proofs/C14Items.lean — helper lemmas for Props/C14.lean (layout, single-item operations).
-/
import BitstringModel.Model.C14
import BitstringModel.Proofs.C14

namespace BM.C14
open BM

variable {V : Type}

/-- Block view of any buffer under a unit-width codec. -/
theorem blocks_view (c : Codec V) (hu : c.mult = 1) (hL : 0 < c.L) (d : Bits) :
    ∃ bs t, (∀ b ∈ bs, b.length = c.L) ∧ t.length < c.L ∧ d = bs.flatten ++ t ∧
      chunks c.w d = bs ∧ trailing c.w d = t ∧ len c d = bs.length ∧ items c d = bs.map c.dec := by
  have hw := w_eq_L c hu
  refine ⟨chunks c.L d, trailing c.L d, chunks_mem_length c.L hL d, trailing_lt c.L hL d, layout c.L d, ?_, ?_, ?_, ?_⟩
  · rw [hw]
  · rw [hw]
  · simp [len, chunks_len]
  · simp [items, hw]

/-- What the list model sees of a buffer in block form. -/
theorem view_of_blocks (c : Codec V) (hu : c.mult = 1) (hL : 0 < c.L) (bs : List Bits) (t : Bits)
    (hbs : ∀ b ∈ bs, b.length = c.L) (ht : t.length < c.L) :
    items c (bs.flatten ++ t) = bs.map c.dec ∧ trailing c.w (bs.flatten ++ t) = t ∧
    chunks c.w (bs.flatten ++ t) = bs ∧ len c (bs.flatten ++ t) = bs.length := by
  have hw := w_eq_L c hu
  have h1 := chunks_of_blocks c.L hL bs t hbs ht
  have h2 := trailing_of_blocks c.L hL bs t hbs ht
  refine ⟨?_, ?_, ?_, ?_⟩
  · simp [items, hw, h1]
  · rw [hw, h2]
  · rw [hw, h1]
  · simp only [len]; exact blocks_div c.L hL bs t hbs ht

theorem fits_iff (c : Codec V) (v : V) : fits c v = true ↔ ∃ b, c.enc v = .ok b := by
  unfold fits
  cases h : c.enc v with
  | ok b => simp
  | error e => simp

theorem fits_false_iff (c : Codec V) (v : V) : fits c v = false ↔ ∃ e, c.enc v = .error e := by
  unfold fits
  cases h : c.enc v with
  | ok b => simp
  | error e => simp

/-- `_create_element` on a value that fits a unit-width, well-formed codec. -/
theorem createElement_ok (c : Codec V) (hu : c.mult = 1) (hwf : c.WF) (v : V) (b : Bits) (h : c.enc v = .ok b) :
    createElement c v = .ok b ∧ b.length = c.L ∧ c.dec b = v := by
  have hl := hwf.len_enc v b h
  rw [w_eq_L c hu] at hl
  refine ⟨?_, hl, hwf.dec_enc v b h⟩
  simp [createElement, h, hl]

theorem createElement_err (c : Codec V) (v : V) (e : Err) (h : c.enc v = .error e) :
    createElement c v = .error e := by
  simp [createElement, h]

theorem createElement_ok_inv (c : Codec V) (v : V) (b : Bits) (h : createElement c v = .ok b) :
    c.enc v = .ok b ∧ b.length = c.L := by
  unfold createElement at h
  cases h2 : c.enc v with
  | error e => simp [h2] at h
  | ok b' =>
    simp only [h2] at h
    split at h
    · cases h
    · rename_i hl
      injection h with h
      subst h
      exact ⟨rfl, by simpa using hl⟩

/-- `normIndex` against the Python-list index normalisation. -/
theorem normIndex_eq (n : Nat) (i : Int) :
    normIndex n i = (let k := (if i < 0 then i + (n : Int) else i)
                     if k < 0 ∨ k ≥ n then .error .index else .ok k.toNat) := rfl

theorem normIndex_ok (n : Nat) (i : Int) (k : Nat) (h : normIndex n i = .ok k) :
    k < n ∧ (k : Int) = (if i < 0 then i + n else i) := by
  rw [normIndex_eq] at h
  generalize (if i < 0 then i + (n : Int) else i) = j at h ⊢
  simp only at h
  by_cases hj : j < 0 ∨ j ≥ n
  · simp [hj] at h
  · simp only [hj, if_false] at h
    injection h with h
    omega

theorem normIndex_err (n : Nat) (i : Int) (e : Err) (h : normIndex n i = .error e) :
    e = .index ∧ ((if i < 0 then i + (n : Int) else i) < 0 ∨ (n : Int) ≤ (if i < 0 then i + (n : Int) else i)) := by
  rw [normIndex_eq] at h
  generalize (if i < 0 then i + (n : Int) else i) = j at h ⊢
  simp only at h
  by_cases hj : j < 0 ∨ j ≥ n
  · simp only [hj, if_true] at h
    injection h with h
    exact ⟨h.symm, by omega⟩
  · simp [hj] at h

/-- Reading item `k` of a buffer in block form. -/
theorem readAt_block (c : Codec V) (hu : c.mult = 1) (bs : List Bits) (t : Bits)
    (hbs : ∀ b ∈ bs, b.length = c.L) (k : Nat) (hk : k < bs.length) :
    readAt c (bs.flatten ++ t) (c.L * k) = .ok (c.dec bs[k]) := by
  have hw := w_eq_L c hu
  unfold readAt
  rw [hw]
  have hlen : (bs.flatten ++ t).length = bs.length * c.L + t.length := by
    rw [List.length_append, blocks_flatten_length c.L bs hbs]
  have h1 : ¬ ((bs.flatten ++ t).length < c.L * k + c.L) := by
    rw [hlen]
    have : (k + 1) * c.L ≤ bs.length * c.L := Nat.mul_le_mul_right _ hk
    have e : (k + 1) * c.L = c.L * k + c.L := by ring
    omega
  simp only [h1, if_false]
  rw [Nat.mul_comm c.L k, block_at c.L bs t hbs k hk]

end BM.C14
