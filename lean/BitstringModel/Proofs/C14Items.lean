/-
  Proofs/C14Items.lean — helper lemmas for Props/C14.lean (layout, single-item operations).
-/
import BitstringModel.Model.C14
import BitstringModel.Proofs.C14
import Mathlib.Tactic.IntervalCases

namespace BM.C14
open BM

variable {V : Type}

/-- Block view of any buffer under a unit-width codec. -/
theorem blocks_view (c : Codec V) (hL : 0 < c.w) (d : Bits) :
    ∃ bs t, (∀ b ∈ bs, b.length = c.w) ∧ t.length < c.w ∧ d = bs.flatten ++ t ∧
      chunks c.w d = bs ∧ trailing c.w d = t ∧ len c d = bs.length ∧ items c d = bs.map c.dec := by
  refine ⟨chunks c.w d, trailing c.w d, chunks_mem_length c.w hL d, trailing_lt c.w hL d, layout c.w d, rfl, rfl, ?_, rfl⟩
  simp [len, chunks_len]

/-- What the list model sees of a buffer in block form. -/
theorem view_of_blocks (c : Codec V) (hL : 0 < c.w) (bs : List Bits) (t : Bits)
    (hbs : ∀ b ∈ bs, b.length = c.w) (ht : t.length < c.w) :
    items c (bs.flatten ++ t) = bs.map c.dec ∧ trailing c.w (bs.flatten ++ t) = t ∧
    chunks c.w (bs.flatten ++ t) = bs ∧ len c (bs.flatten ++ t) = bs.length := by
  have h1 := chunks_of_blocks c.w hL bs t hbs ht
  have h2 := trailing_of_blocks c.w hL bs t hbs ht
  refine ⟨?_, h2, h1, ?_⟩
  · simp [items, h1]
  · simp only [len]; exact blocks_div c.w hL bs t hbs ht

theorem fits_iff (c : Codec V) (v : V) : fits c v = true ↔ ∃ b, c.enc v = .ok b := by
  unfold fits
  cases h : c.enc v with
  | ok b => simp
  | error e => simp

theorem fits_false_iff (c : Codec V) (v : V) : fits c v = false ↔ ∃ e, c.enc v = .error e := by
  unfold fits
  cases h : c.enc v with
  | ok b => simp
  | error e => simp

/-- `_create_element` on a value that fits a unit-width, well-formed codec. -/
theorem createElement_ok (c : Codec V) (hwf : c.WF) (v : V) (b : Bits) (h : c.enc v = .ok b) :
    createElement c v = .ok b ∧ b.length = c.w ∧ c.dec b = v := by
  have hl := hwf.len_enc v b h
  refine ⟨?_, hl, hwf.dec_enc v b h⟩
  simp [createElement, h, hl]

theorem createElement_err (c : Codec V) (v : V) (e : Err) (h : c.enc v = .error e) :
    createElement c v = .error e := by
  simp [createElement, h]

theorem createElement_ok_inv (c : Codec V) (v : V) (b : Bits) (h : createElement c v = .ok b) :
    c.enc v = .ok b ∧ b.length = c.w := by
  unfold createElement at h
  cases h2 : c.enc v with
  | error e => simp [h2] at h
  | ok b' =>
    simp only [h2] at h
    split at h
    · cases h
    · rename_i hl
      injection h with h
      subst h
      exact ⟨rfl, by simpa using hl⟩

/-- `normIndex` against the Python-list index normalisation. -/
theorem normIndex_eq (n : Nat) (i : Int) :
    normIndex n i = (let k := (if i < 0 then i + (n : Int) else i)
                     if k < 0 ∨ k ≥ n then .error .index else .ok k.toNat) := rfl

theorem normIndex_ok (n : Nat) (i : Int) (k : Nat) (h : normIndex n i = .ok k) :
    k < n ∧ (k : Int) = (if i < 0 then i + n else i) := by
  rw [normIndex_eq] at h
  generalize (if i < 0 then i + (n : Int) else i) = j at h ⊢
  simp only at h
  by_cases hj : j < 0 ∨ j ≥ n
  · simp [hj] at h
  · simp only [hj, if_false] at h
    injection h with h
    omega

theorem normIndex_err (n : Nat) (i : Int) (e : Err) (h : normIndex n i = .error e) :
    e = .index ∧ ((if i < 0 then i + (n : Int) else i) < 0 ∨ (n : Int) ≤ (if i < 0 then i + (n : Int) else i)) := by
  rw [normIndex_eq] at h
  generalize (if i < 0 then i + (n : Int) else i) = j at h ⊢
  simp only at h
  by_cases hj : j < 0 ∨ j ≥ n
  · simp only [hj, if_true] at h
    injection h with h
    exact ⟨h.symm, by omega⟩
  · simp [hj] at h

/-- Reading item `k` of a buffer in block form. -/
theorem readAt_block (c : Codec V) (bs : List Bits) (t : Bits)
    (hbs : ∀ b ∈ bs, b.length = c.w) (k : Nat) (hk : k < bs.length) :
    readAt c (bs.flatten ++ t) (c.w * k) = .ok (c.dec bs[k]) := by
  unfold readAt
  have hlen : (bs.flatten ++ t).length = bs.length * c.w + t.length := by
    rw [List.length_append, blocks_flatten_length c.w bs hbs]
  have h1 : ¬ ((bs.flatten ++ t).length < c.w * k + c.w) := by
    rw [hlen]
    have : (k + 1) * c.w ≤ bs.length * c.w := Nat.mul_le_mul_right _ hk
    have e : (k + 1) * c.w = c.w * k + c.w := by ring
    omega
  simp only [h1, if_false]
  rw [Nat.mul_comm c.w k, block_at c.w bs t hbs k hk]

theorem toNat_zero_add_mul (k L : Nat) : ((0 : Int) + (k : Int) * (L : Int)).toNat = k * L := by
  have : (0 : Int) + (k : Int) * (L : Int) = ((k * L : Nat) : Int) := by push_cast; ring
  rw [this]; exact Int.toNat_natCast _

theorem mapM_except_ok {α β} (f : α → Except Err β) (g : α → β) (l : List α) (h : ∀ x ∈ l, f x = .ok (g x)) :
    l.mapM f = .ok (l.map g) := by
  induction l with
  | nil => rfl
  | cons a l ih =>
    have h1 := h a (by simp)
    have h2 := ih (fun x hx => h x (by simp [hx]))
    simp only [List.mapM_cons, h1, h2, List.map_cons]
    rfl

/-- `range(0, len(data) - L + 1, L)` has one entry per whole item. -/
theorem rangeLen_tolist (n L r : Nat) (hL : 0 < L) (hr : r < L) :
    Py.rangeLen 0 (((n * L + r : Nat) : Int) - L + 1) L = n := by
  unfold Py.rangeLen
  have hL' : (L : Int) > 0 := by omega
  simp only [hL', if_true]
  cases n with
  | zero =>
    have : ¬ ((0 : Int) < ((0 * L + r : Nat) : Int) - L + 1) := by
      simp only [Nat.zero_mul, Nat.zero_add]; omega
    rw [if_neg this]
  | succ m =>
    have e : (((m + 1) * L + r : Nat) : Int) - L + 1 - 0 - 1 = (r : Int) + (m : Int) * L := by
      push_cast; ring
    have hpos : (0 : Int) < (((m + 1) * L + r : Nat) : Int) - L + 1 := by
      have : (0 : Int) ≤ (r : Int) + (m : Int) * L := by positivity
      omega
    simp only [hpos, if_true]
    rw [e, Int.add_mul_ediv_right _ _ (by omega), Int.ediv_eq_zero_of_lt (by omega) (by omega)]
    omega

theorem mapM_id_ok {β} (l : List β) : (l.map (fun x => (Except.ok x : Except Err β))).mapM id = .ok l := by
  induction l with
  | nil => rfl
  | cons a l ih =>
    simp only [List.map_cons, List.mapM_cons, id, ih]
    rfl

/-- The `start += L` generator, started at item `j`, reads the next `n` items. -/
theorem iterLoop_blocks (c : Codec V) (bs : List Bits) (t : Bits)
    (hbs : ∀ b ∈ bs, b.length = c.w) (n j : Nat) (h : j + n ≤ bs.length) :
    iterLoop c (bs.flatten ++ t) n (c.w * j) = ((bs.drop j).take n).map fun b => .ok (c.dec b) := by
  induction n generalizing j with
  | zero => simp [iterLoop]
  | succ n ih =>
    have hj : j < bs.length := by omega
    unfold iterLoop
    rw [readAt_block c bs t hbs j hj]
    have e : c.w * j + c.w = c.w * (j + 1) := by ring
    rw [e, ih (j + 1) (by omega)]
    rw [List.drop_eq_getElem_cons hj, List.take_succ_cons, List.map_cons]

theorem bOverwrite_nat (d nb : Bits) (p : Nat) (hnb : nb.length ≠ 0) (hp : p + nb.length ≤ d.length) :
    bOverwrite d nb (p : Int) = .ok (d.take p ++ nb ++ d.drop (p + nb.length)) := by
  unfold bOverwrite
  have h1 : ¬ ((p : Int) < 0) := by omega
  have h2 : ¬ ((p : Int) < 0 ∨ (p : Int) > d.length) := by omega
  simp only [hnb, h1, h2, if_false]
  have e : (p : Int) + (nb.length : Int) = ((p + nb.length : Nat) : Int) := by push_cast; rfl
  rw [e, bsetSlice_nat d nb p (p + nb.length) (by omega) hp (by omega)]
  have h3 : ¬ (False ∨ (p : Int) > d.length) := by
    intro h; rcases h with h | h
    · exact h
    · omega
  rw [if_neg h3]

/-- Overwriting item `k` of a buffer in block form. -/
theorem overwrite_block (L : Nat) (hL : 0 < L) (bs : List Bits) (t nb : Bits) (hbs : ∀ b ∈ bs, b.length = L)
    (hnb : nb.length = L) (k : Nat) (hk : k < bs.length) :
    bOverwrite (bs.flatten ++ t) nb ((L * k : Nat) : Int) = .ok ((bs.set k nb).flatten ++ t) := by
  have hlen : (bs.flatten ++ t).length = bs.length * L + t.length := by
    rw [List.length_append, blocks_flatten_length L bs hbs]
  have hk' : (k + 1) * L ≤ bs.length * L := Nat.mul_le_mul_right _ hk
  have e1 : (k + 1) * L = L * k + L := by ring
  rw [bOverwrite_nat _ _ _ (by omega) (by rw [hlen, hnb]; omega), hnb]
  rw [Nat.mul_comm L k, set_block L bs t nb hbs k hk]

theorem set_blocks_length (L : Nat) (bs : List Bits) (nb : Bits) (hbs : ∀ b ∈ bs, b.length = L) (hnb : nb.length = L)
    (k : Nat) : ∀ b ∈ bs.set k nb, b.length = L := by
  intro b hb
  rcases List.mem_or_eq_of_mem_set hb with h | h
  · exact hbs b h
  · rw [h]; exact hnb

theorem setItem_blocks (c : Codec V) (hL : 0 < c.w) (hwf : c.WF) (bs : List Bits) (t : Bits)
    (hbs : ∀ b ∈ bs, b.length = c.w) (ht : t.length < c.w) (i : Int) (v : V) (b : Bits) (hv : c.enc v = .ok b)
    (k : Nat) (hn : normIndex bs.length i = .ok k) :
    setItem c (bs.flatten ++ t) i v = ⟨(bs.set k b).flatten ++ t, .ok ()⟩ := by
  obtain ⟨hce, hbl, _⟩ := createElement_ok c hwf v b hv
  obtain ⟨hk, _⟩ := normIndex_ok _ _ _ hn
  unfold setItem
  rw [(view_of_blocks c hL bs t hbs ht).2.2.2, hn]
  simp only [hce]
  rw [overwrite_block c.w hL bs t b hbs hbl k hk]

theorem map_eraseIdx' {α β} (f : α → β) (l : List α) (k : Nat) : (l.eraseIdx k).map f = (l.map f).eraseIdx k := by
  rw [List.eraseIdx_eq_take_drop_succ, List.eraseIdx_eq_take_drop_succ]
  simp [List.map_take, List.map_drop]

theorem delete_block (L : Nat) (bs : List Bits) (t : Bits) (hbs : ∀ b ∈ bs, b.length = L) (k : Nat) (hk : k < bs.length) :
    bdelSlice (bs.flatten ++ t) ((L * k : Nat) : Int) (((L * k : Nat) : Int) + (L : Int)) = (bs.eraseIdx k).flatten ++ t := by
  have hlen : (bs.flatten ++ t).length = bs.length * L + t.length := by
    rw [List.length_append, blocks_flatten_length L bs hbs]
  have hk' : (k + 1) * L ≤ bs.length * L := Nat.mul_le_mul_right _ hk
  have e1 : (k + 1) * L = L * k + L := by ring
  have e : ((L * k : Nat) : Int) + (L : Int) = ((L * k + L : Nat) : Int) := by push_cast; rfl
  rw [e, bdelSlice_nat _ _ _ (by omega) (by omega) (by omega)]
  rw [Nat.mul_comm L k, erase_block L bs t hbs k hk]

theorem erase_blocks_length (L : Nat) (bs : List Bits) (hbs : ∀ b ∈ bs, b.length = L) (k : Nat) :
    ∀ b ∈ bs.eraseIdx k, b.length = L :=
  fun b hb => hbs b (List.mem_of_mem_eraseIdx hb)

theorem delItem_blocks (c : Codec V) (hL : 0 < c.w) (bs : List Bits) (t : Bits)
    (hbs : ∀ b ∈ bs, b.length = c.w) (ht : t.length < c.w) (i : Int) (k : Nat) (hn : normIndex bs.length i = .ok k) :
    delItem c (bs.flatten ++ t) i = ⟨(bs.eraseIdx k).flatten ++ t, .ok ()⟩ := by
  obtain ⟨hk, _⟩ := normIndex_ok _ _ _ hn
  unfold delItem
  rw [(view_of_blocks c hL bs t hbs ht).2.2.2, hn]
  simp only
  rw [delete_block c.w bs t hbs k hk]

theorem trailing_length (w : Nat) (d : Bits) : (trailing w d).length = d.length % w := by
  unfold trailing
  simp only [List.length_drop]
  have := Nat.div_add_mod d.length w
  omega

theorem trailing_nil_iff (w : Nat) (d : Bits) : trailing w d = [] ↔ d.length % w = 0 := by
  rw [← trailing_length w d]
  exact List.length_eq_zero_iff.symm

/-- The encodings of a list of values that all fit. -/
theorem encs_of_fits (c : Codec V) (hwf : c.WF) (vals : List V) (hall : vals.all (fits c) = true) :
    ∃ bl : List Bits, List.Forall₂ (fun v b => c.enc v = .ok b) vals bl ∧ (∀ b ∈ bl, b.length = c.w) ∧
      bl.map c.dec = vals ∧ vals.mapM c.enc = .ok bl ∧ createAll c vals = .ok bl.flatten := by
  induction vals with
  | nil => exact ⟨[], List.Forall₂.nil, by simp, rfl, rfl, rfl⟩
  | cons v vs ih =>
    simp only [List.all_cons, Bool.and_eq_true] at hall
    obtain ⟨bl, h1, h2, h3, h4, h5⟩ := ih hall.2
    obtain ⟨b, hb⟩ := (fits_iff c v).mp hall.1
    obtain ⟨hce, hbl, hdec⟩ := createElement_ok c hwf v b hb
    refine ⟨b :: bl, List.Forall₂.cons hb h1, ?_, ?_, ?_, ?_⟩
    · intro x hx
      rcases List.mem_cons.mp hx with rfl | hx
      · exact hbl
      · exact h2 x hx
    · simp [hdec, h3]
    · simp only [List.mapM_cons, hb, h4]; rfl
    · simp [createAll, hce, h5]

theorem extendLoop_blocks (c : Codec V) (hwf : c.WF) (vals : List V) (bl : List Bits)
    (h : List.Forall₂ (fun v b => c.enc v = .ok b) vals bl) (d : Bits) :
    extendLoop c vals d = ⟨d ++ bl.flatten, .ok ()⟩ := by
  induction h generalizing d with
  | nil => simp [extendLoop]
  | @cons v b vs bs hb _ ih =>
    obtain ⟨hce, _, _⟩ := createElement_ok c hwf v b hb
    simp only [extendLoop, hce, ih, List.flatten_cons, List.append_assoc]

theorem append_blocks_length (L : Nat) (bs bl : List Bits) (hbs : ∀ b ∈ bs, b.length = L) (hbl : ∀ b ∈ bl, b.length = L) :
    ∀ b ∈ bs ++ bl, b.length = L := by
  intro b hb
  rcases List.mem_append.mp hb with h | h
  · exact hbs b h
  · exact hbl b h

theorem bInsert_of (d nb : Bits) (pos : Int) (p : Nat) (hnb : nb.length ≠ 0) (hp : p ≤ d.length)
    (h : (if pos < 0 then pos + (d.length : Int) else pos) = (p : Int)) :
    bInsert d nb pos = .ok (d.take p ++ nb ++ d.drop p) := by
  unfold bInsert
  simp only [hnb, if_false]
  rw [h]
  have h3 : ¬ ((p : Int) < 0 ∨ (p : Int) > d.length) := by omega
  rw [if_neg h3, bsetSlice_nat d nb p p hp hp (Nat.le_refl _)]

theorem insert_blocks_length (L : Nat) (bs : List Bits) (nb : Bits) (hbs : ∀ b ∈ bs, b.length = L) (hnb : nb.length = L)
    (k : Nat) : ∀ b ∈ bs.take k ++ nb :: bs.drop k, b.length = L := by
  intro b hb
  rcases List.mem_append.mp hb with h | h
  · exact hbs b (List.mem_of_mem_take h)
  · rcases List.mem_cons.mp h with rfl | h
    · exact hnb
    · exact hbs b (List.mem_of_mem_drop h)

/-- `dec` is injective on item patterns of a canonical codec. -/
theorem map_dec_inj (c : Codec V) (hcanon : c.Canonical) (l1 l2 : List Bits) (h1 : ∀ b ∈ l1, b.length = c.w)
    (h2 : ∀ b ∈ l2, b.length = c.w) (h : l1.map c.dec = l2.map c.dec) : l1 = l2 := by
  induction l1 generalizing l2 with
  | nil =>
    cases l2 with
    | nil => rfl
    | cons b l2 => simp at h
  | cons a l1 ih =>
    cases l2 with
    | nil => simp at h
    | cons b l2 =>
      simp only [List.map_cons, List.cons.injEq] at h
      have ha := hcanon a (h1 a (by simp))
      have hb := hcanon b (h2 b (by simp))
      rw [h.1, hb] at ha
      injection ha with ha
      rw [ha, ih l2 (fun x hx => h1 x (by simp [hx])) (fun x hx => h2 x (by simp [hx])) h.2]

theorem mapM_enc_dec (c : Codec V) (hcanon : c.Canonical) (l : List Bits) (hl : ∀ b ∈ l, b.length = c.w) :
    (l.map c.dec).mapM c.enc = .ok l := by
  induction l with
  | nil => rfl
  | cons a l ih =>
    have ha := hcanon a (hl a (by simp))
    have := ih (fun x hx => hl x (by simp [hx]))
    simp only [List.map_cons, List.mapM_cons, ha, this]
    rfl

/-- The extend loop either stores all encodings or raises (exactly when some value does not fit). -/
theorem extendLoop_err (c : Codec V) (hwf : c.WF) (vals : List V) (d : Bits)
    (h : vals.all (fits c) = false) : ∃ e, (extendLoop c vals d).res = .error e := by
  induction vals generalizing d with
  | nil => simp at h
  | cons v vs ih =>
    unfold extendLoop
    cases hf : fits c v with
    | false =>
      obtain ⟨e, he⟩ := (fits_false_iff c v).mp hf
      rw [createElement_err c v e he]
      exact ⟨e, rfl⟩
    | true =>
      obtain ⟨b, hb⟩ := (fits_iff c v).mp hf
      obtain ⟨hce, _, _⟩ := createElement_ok c hwf v b hb
      rw [hce]
      simp only [List.all_cons, hf, Bool.true_and] at h
      exact ih (d ++ b) h

/-- The unsigned-integer codecs of the driver satisfy the codec hypotheses, for every width. -/
theorem mkCodec_u_WF (name : String) (L : Nat) (rt : RT) (sg : Bool) : (mkCodec .u name L 1 rt sg).WF := by
  constructor
  · intro v b h
    cases v with
    | int i =>
      simp only [mkCodec, encVal] at h
      split at h
      · injection h with h; subst h
        simp [Codec.w, mkCodec, natToBits_length]
      · cases h
    | raw r => simp [mkCodec, encVal] at h
    | bad => simp [mkCodec, encVal] at h
  · intro v b h
    cases v with
    | int i =>
      simp only [mkCodec, encVal] at h
      split at h
      · rename_i hr
        injection h with h; subst h
        simp only [mkCodec, decVal]
        have hlt : i.toNat < 2 ^ (L * 1) := by
          have h1 := hr.2
          have : ((i.toNat : Nat) : Int) < ((2 ^ (L * 1) : Nat) : Int) := by
            push_cast
            rw [Int.toNat_of_nonneg hr.1]
            exact h1
          exact_mod_cast this
        rw [bitsToNat_natToBits _ _ hlt, Int.toNat_of_nonneg hr.1]
      · cases h
    | raw r => simp [mkCodec, encVal] at h
    | bad => simp [mkCodec, encVal] at h

/-- … and so does a signed one (checked on all 16 values of `int4`). -/
theorem mkCodec_i4_WF : (mkCodec .i "int" 4 1 .int true).WF := by
  constructor
  · intro v b h
    cases v with
    | int i =>
      simp only [mkCodec, encVal] at h
      split at h
      · cases h
      · split at h
        · rename_i hr
          injection h with h; subst h
          obtain ⟨h1, h2⟩ := hr
          norm_num at h1 h2
          interval_cases i <;> decide
        · cases h
    | raw r => simp [mkCodec, encVal] at h
    | bad => simp [mkCodec, encVal] at h
  · intro v b h
    cases v with
    | int i =>
      simp only [mkCodec, encVal] at h
      split at h
      · cases h
      · split at h
        · rename_i hr
          injection h with h; subst h
          obtain ⟨h1, h2⟩ := hr
          norm_num at h1 h2
          interval_cases i <;> decide
        · cases h
    | raw r => simp [mkCodec, encVal] at h
    | bad => simp [mkCodec, encVal] at h

end BM.C14
