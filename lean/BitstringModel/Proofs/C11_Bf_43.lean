/- Kernel obligation: `bfChk` (Proofs/C11_NumDefs.lean) on the 16-bit patterns 0xac00..0xafff. -/
import BitstringModel.Proofs.C11_NumDefs
namespace BM.C11
theorem bfChunk_43 : bfChunkOk 43 = true := by decide +kernel
end BM.C11
