/-
  Proofs/C13.lean — helper lemmas for Props/C13.lean:
    * the model's fast step-1 slice is CPython's slice (`rawSlice_*`), the msb0 / lsb0 slices `__hash__` takes,
    * stores that satisfy the constructor invariant behave as their raw bit list (`wf_*`),
    * `toBytes`: unfolding, length, byte range, injectivity at known length, round trip with `bytesToBits`,
    * the token-string front end on a single `0b…` / `0x…` literal.
-/
import BitstringModel.Model.C13
import BitstringModel.Proofs.Basic
import BitstringModel.Proofs.C01
import Mathlib.Data.List.Basic

namespace BM.C13
open BM

/-! ### slices -/

theorem rawSlice_eq_getSlice (l : Bits) (s e : Option Int) :
    Py.getSlice l s e none = .ok (rawSlice l s e) := by
  rw [BM.C01.getSlice_step1]; rfl

theorem sliceIndices_step1 (s e : Option Int) (n : Nat) :
    Py.sliceIndices s e 1 n =
      ((match s with | none => 0 | some x => if x < 0 then max (x + n) 0 else min x n),
       (match e with | none => (n : Int) | some x => if x < 0 then max (x + n) 0 else min x n), 1) := by
  cases s <;> cases e <;> simp [Py.sliceIndices]

theorem rawSlice_prefix (l : Bits) (A : Nat) : rawSlice l none (some (A : Int)) = l.take A := by
  simp only [rawSlice, sliceIndices_step1]
  have h : ¬ ((A : Int) < 0) := by omega
  simp only [h, if_false, Int.toNat_zero, List.drop_zero, Int.sub_zero]
  rw [show (min (A : Int) (l.length : Int)).toNat = min A l.length by omega]
  rw [← List.take_eq_take_min]

theorem rawSlice_all (l : Bits) : rawSlice l none none = l := by
  simp [rawSlice, sliceIndices_step1]

theorem rawSlice_suffix (l : Bits) (B : Nat) : rawSlice l (some (-(B : Int))) none = pySuffix B l := by
  simp only [rawSlice, sliceIndices_step1, pySuffix]
  by_cases hB : B = 0
  · subst hB; simp
  · have h : (-(B : Int)) < 0 := by omega
    simp only [h, if_true, hB, if_false]
    rw [show (max (-(B : Int) + (l.length : Int)) 0).toNat = l.length - B by omega]
    apply List.take_of_length_le
    simp; omega

theorem rawSlice_range (l : Bits) (a b : Int) (h0 : 0 ≤ a) (h1 : a ≤ l.length) (h2 : 0 ≤ b) (h3 : b ≤ l.length) :
    rawSlice l (some a) (some b) = (l.drop a.toNat).take (b - a).toNat := by
  simp only [rawSlice, sliceIndices_step1]
  have ha : ¬ (a < 0) := by omega
  have hb : ¬ (b < 0) := by omega
  simp only [ha, hb, if_false]
  rw [show min a (l.length : Int) = a by omega, show min b (l.length : Int) = b by omega]

/-- The indices `slice.indices(n)` returns lie in `[0, n]`. -/
theorem sliceIndices_step1_bounds (s e : Option Int) (n : Nat) :
    0 ≤ (Py.sliceIndices s e 1 n).1 ∧ (Py.sliceIndices s e 1 n).1 ≤ n ∧
    0 ≤ (Py.sliceIndices s e 1 n).2.1 ∧ (Py.sliceIndices s e 1 n).2.1 ≤ n := by
  rw [sliceIndices_step1]
  cases s <;> cases e <;> simp only <;> (repeat' split) <;> omega

/-! ### well-formed stores -/

theorem wf_len (st : Store) (h : st.wf) : st.len = st.raw.length := by
  unfold Store.len
  cases hm : st.modLen with
  | none => rfl
  | some m => exact h m hm

theorem wf_bits (st : Store) (h : st.wf) : st.bits = st.raw := by
  unfold Store.bits
  cases hm : st.modLen with
  | none => exact rawSlice_all _
  | some m =>
    have := h m hm
    subst this
    simp only [sliceIndices_step1]
    rw [rawSlice_range _ _ _ (by omega) (by omega) (by omega) (by omega)]
    simp

theorem wf_tobytes (st : Store) (h : st.wf) : st.tobytes = toBytes st.raw := by
  unfold Store.tobytes
  cases hm : st.modLen with
  | none => rfl
  | some m =>
    have := h m hm
    subst this
    simp only [rawSlice_prefix, List.take_length]

/-- On a well-formed store the `modified_length` normalisation of `getslice_msb0` changes nothing. -/
theorem getsliceMsb0_wf (st : Store) (h : st.wf) (s e : Option Int) :
    st.getsliceMsb0 s e = { raw := rawSlice st.raw s e } := by
  unfold Store.getsliceMsb0
  cases hm : st.modLen with
  | none => rfl
  | some m =>
    have := h m hm
    subst this
    obtain ⟨b1, b2, b3, b4⟩ := sliceIndices_step1_bounds s e st.raw.length
    simp only
    rw [rawSlice_range _ _ _ b1 b2 b3 b4]
    rfl

theorem absoluteSlice_prefix (st : Store) (h : st.wf) (A : Nat) :
    absoluteSlice st 0 (A : Int) = .ok { raw := st.raw.take A } := by
  unfold absoluteSlice
  by_cases hA : A = 0
  · subst hA; simp
  · have h1 : ¬ ((A : Int) = 0) := by omega
    have h2 : (0 : Int) < (A : Int) := by omega
    simp only [h1, if_false, h2, not_true_eq_false, getsliceMsb0_wf st h]
    congr 2
    simp only [rawSlice, sliceIndices_step1]
    have h3 : ¬ ((A : Int) < 0) := by omega
    simp only [Int.lt_irrefl, h3, if_false]
    rw [show (min (0 : Int) (st.raw.length : Int)).toNat = 0 by omega,
      show (min (A : Int) (st.raw.length : Int) - min (0 : Int) (st.raw.length : Int)).toNat = min A st.raw.length by omega]
    rw [List.drop_zero, ← List.take_eq_take_min]

theorem absoluteSlice_suffix (st : Store) (h : st.wf) (B : Nat) :
    absoluteSlice st ((st.raw.length : Int) - (B : Int)) (st.raw.length : Int) = .ok { raw := absSuffix B st.raw } := by
  unfold absoluteSlice absSuffix
  by_cases hB : B = 0
  · subst hB; simp
  · have h1 : ¬ ((st.raw.length : Int) = (st.raw.length : Int) - (B : Int)) := by omega
    have h2 : (st.raw.length : Int) - (B : Int) < (st.raw.length : Int) := by omega
    simp only [h1, if_false, h2, not_true_eq_false, getsliceMsb0_wf st h, hB]
    congr 2
    simp only [rawSlice, sliceIndices_step1]
    have h3 : ¬ ((st.raw.length : Int) < 0) := by omega
    simp only [h3, if_false]
    by_cases hle : B ≤ st.raw.length
    · have h4 : ¬ ((st.raw.length : Int) - (B : Int) < 0) := by omega
      simp only [h4, if_false, hle, if_true]
      rw [show (min ((st.raw.length : Int) - (B : Int)) (st.raw.length : Int)).toNat = st.raw.length - B by omega]
      apply List.take_of_length_le
      simp only [List.length_drop]; omega
    · have h4 : (st.raw.length : Int) - (B : Int) < 0 := by omega
      simp only [h4, if_true, hle, if_false]
      rw [show (max ((st.raw.length : Int) - (B : Int) + (st.raw.length : Int)) 0).toNat = 2 * st.raw.length - B by omega]
      apply List.take_of_length_le
      simp only [List.length_drop]; omega

theorem absSuffix_eq_drop (B : Nat) (s : Bits) (h0 : 0 < B) (h : B ≤ s.length) :
    absSuffix B s = s.drop (s.length - B) := by
  have : B ≠ 0 := by omega
  simp [absSuffix, this, h]

theorem add_plain (x y : Bits) : Store.add { raw := x } { raw := y } = { raw := x ++ y } := by
  unfold Store.add Store.copyRaw
  split <;> rfl


/-! ### toBytes -/

theorem toBytesAux_nil (f : Nat) : toBytesAux f [] = [] := by cases f <;> rfl

theorem toBytesAux_fuel (f : Nat) : ∀ (s : Bits), s.length ≤ 8 * f → ∀ g, s.length ≤ 8 * g →
    toBytesAux f s = toBytesAux g s := by
  induction f with
  | zero =>
    intro s hs g _
    have : s = [] := List.eq_nil_of_length_eq_zero (by omega)
    subst this
    rw [toBytesAux_nil, toBytesAux_nil]
  | succ f ih =>
    intro s hs g hg
    cases s with
    | nil => rw [toBytesAux_nil, toBytesAux_nil]
    | cons x xs =>
      cases g with
      | zero => simp at hg
      | succ g =>
        simp only [toBytesAux]
        congr 1
        apply ih
        · simp only [List.length_drop, List.length_cons] at hs ⊢; omega
        · simp only [List.length_drop, List.length_cons] at hg ⊢; omega

theorem toBytes_nil : toBytes [] = [] := rfl

theorem toBytes_unfold (s : Bits) (h : s ≠ []) :
    toBytes s = byteVal (s.take 8) :: toBytes (s.drop 8) := by
  cases s with
  | nil => exact absurd rfl h
  | cons x xs =>
    simp only [toBytes, List.length_cons, toBytesAux]
    congr 1
    apply toBytesAux_fuel
    · simp only [List.length_drop, List.length_cons]; omega
    · omega

theorem bitsToNat_inj (a b : Bits) (hl : a.length = b.length) (h : bitsToNat a = bitsToNat b) : a = b := by
  rw [← natToBits_bitsToNat a, ← natToBits_bitsToNat b, hl, h]

theorem padByte_length (c : Bits) (h : c.length ≤ 8) : (padByte c).length = 8 := by
  simp [padByte]; omega

theorem byteVal_inj (c d : Bits) (hc : c.length ≤ 8) (hl : c.length = d.length)
    (h : byteVal c = byteVal d) : c = d := by
  have := bitsToNat_inj (padByte c) (padByte d)
    (by rw [padByte_length c hc, padByte_length d (by omega)]) h
  exact (List.append_inj this hl).1

theorem byteVal_lt (c : Bits) (hc : c.length ≤ 8) : byteVal c < 256 := by
  have := bitsToNat_lt (padByte c)
  rw [padByte_length c hc] at this
  exact this

/-- `tobytes()` determines the bits once the length is known. -/
theorem toBytes_injective_aux (n : Nat) : ∀ (a b : Bits), a.length ≤ n → a.length = b.length →
    toBytes a = toBytes b → a = b := by
  induction n with
  | zero =>
    intro a b ha hl _
    have h1 : a = [] := List.eq_nil_of_length_eq_zero (by omega)
    have h2 : b = [] := List.eq_nil_of_length_eq_zero (by omega)
    rw [h1, h2]
  | succ n ih =>
    intro a b ha hl h
    by_cases hne : a = []
    · subst hne
      have h2 : b = [] := List.eq_nil_of_length_eq_zero (by simpa using hl.symm)
      rw [h2]
    · have hbne : b ≠ [] := by
        intro hb; subst hb
        exact hne (List.eq_nil_of_length_eq_zero (by simpa using hl))
      rw [toBytes_unfold a hne, toBytes_unfold b hbne] at h
      injection h with hh ht
      have hpos : 0 < a.length := List.length_pos_of_ne_nil hne
      have h1 : a.take 8 = b.take 8 :=
        byteVal_inj _ _ (by simp <;> omega) (by simp [hl]) hh
      have h2 : a.drop 8 = b.drop 8 :=
        ih _ _ (by simp <;> omega) (by simp [hl]) ht
      rw [← List.take_append_drop 8 a, ← List.take_append_drop 8 b, h1, h2]

theorem toBytes_injective (a b : Bits) (hl : a.length = b.length) (h : toBytes a = toBytes b) : a = b :=
  toBytes_injective_aux a.length a b (Nat.le_refl _) hl h

theorem toBytes_length_aux (n : Nat) : ∀ (s : Bits), s.length ≤ n → (toBytes s).length = (s.length + 7) / 8 := by
  induction n with
  | zero =>
    intro s hs
    have : s = [] := List.eq_nil_of_length_eq_zero (by omega)
    subst this; rfl
  | succ n ih =>
    intro s hs
    by_cases hne : s = []
    · subst hne; rfl
    · have hpos : 0 < s.length := List.length_pos_of_ne_nil hne
      rw [toBytes_unfold s hne, List.length_cons, ih _ (by simp <;> omega)]
      simp only [List.length_drop]
      omega

theorem toBytes_length (s : Bits) : (toBytes s).length = (s.length + 7) / 8 :=
  toBytes_length_aux s.length s (Nat.le_refl _)

theorem toBytes_lt_aux (n : Nat) : ∀ (s : Bits), s.length ≤ n → ∀ v ∈ toBytes s, v < 256 := by
  induction n with
  | zero =>
    intro s hs v hv
    have : s = [] := List.eq_nil_of_length_eq_zero (by omega)
    subst this; simp [toBytes_nil] at hv
  | succ n ih =>
    intro s hs v hv
    by_cases hne : s = []
    · subst hne; simp [toBytes_nil] at hv
    · have hpos : 0 < s.length := List.length_pos_of_ne_nil hne
      rw [toBytes_unfold s hne] at hv
      rcases List.mem_cons.mp hv with h | h
      · rw [h]; exact byteVal_lt _ (by simp <;> omega)
      · exact ih _ (by simp <;> omega) v h

theorem toBytes_lt (s : Bits) : ∀ v ∈ toBytes s, v < 256 := toBytes_lt_aux s.length s (Nat.le_refl _)

theorem byteVal_natToBits (v : Nat) (h : v < 256) : byteVal (natToBits 8 v) = v := by
  simp only [byteVal, padByte, natToBits_length, Nat.sub_self, List.replicate_zero, List.append_nil]
  exact bitsToNat_natToBits 8 v h

theorem toBytes_bytesToBits (b : List Nat) (h : ∀ v ∈ b, v < 256) : toBytes (bytesToBits b) = b := by
  induction b with
  | nil => rfl
  | cons v r ih =>
    have hne : bytesToBits (v :: r) ≠ [] := by
      intro hh
      have := congrArg List.length hh
      simp [bytesToBits] at this
    rw [toBytes_unfold _ hne]
    have h8 : (natToBits 8 v).length = 8 := natToBits_length 8 v
    have ht : (bytesToBits (v :: r)).take 8 = natToBits 8 v := by
      simp only [bytesToBits, List.flatMap_cons]
      rw [List.take_left' h8]
    have hd : (bytesToBits (v :: r)).drop 8 = bytesToBits r := by
      simp only [bytesToBits, List.flatMap_cons]
      rw [List.drop_left' h8]
    rw [ht, hd, byteVal_natToBits v (h v (by simp)), ih (fun w hw => h w (by simp [hw]))]


/-! ### the string front end on single literals -/

/-- A character that the string front end passes through unchanged and that ends no token. -/
def plainChar (c : Char) : Bool :=
  !isSpace c && c != ',' && c != '(' && c != '*' && lowerChar c == c && c != '_'

theorem splitComma_nocomma (s : List Char) (h : ∀ c ∈ s, c ≠ ',') : splitComma s = [s] := by
  induction s with
  | nil => rfl
  | cons c cs ih =>
    have := ih (fun d hd => h d (List.mem_cons_of_mem _ hd))
    simp only [splitComma, this, h c (by simp), if_false]

theorem contains_false (s : List Char) (x : Char) (h : ∀ c ∈ s, c ≠ x) : s.contains x = false := by
  induction s with
  | nil => rfl
  | cons c cs ih =>
    rw [List.contains_cons, ih (fun d hd => h d (List.mem_cons_of_mem _ hd))]
    have := h c (by simp)
    simp
    exact fun hh => this hh.symm

theorem plain_facts (c : Char) (h : plainChar c = true) :
    isSpace c = false ∧ c ≠ ',' ∧ c ≠ '(' ∧ c ≠ '*' ∧ lowerChar c = c ∧ c ≠ '_' := by
  simp only [plainChar, Bool.and_eq_true, Bool.not_eq_true', bne_iff_ne, ne_eq, beq_iff_eq] at h
  obtain ⟨⟨⟨⟨⟨h1, h2⟩, h3⟩, h4⟩, h5⟩, h6⟩ := h
  exact ⟨h1, h2, h3, h4, h5, h6⟩

/-- A single literal token made of plain characters goes through the front end untouched. -/
theorem strToBits_single (p : Char) (v : List Char) (hp : plainChar p = true) (hv : ∀ c ∈ v, plainChar c = true)
    :
    strToBits ('0' :: p :: v) =
      (match tokenToBits ('0' :: p :: v) with | .ok a => .ok (a ++ []) | .error e => .error e) := by
  have hall : ∀ c ∈ ('0' :: p :: v), plainChar c = true := by
    intro c hc
    rcases List.mem_cons.mp hc with h | h
    · subst h; decide
    · rcases List.mem_cons.mp h with h | h
      · subst h; exact hp
      · exact hv c h
  unfold strToBits
  have hf : ('0' :: p :: v).filter (fun c => !isSpace c) = '0' :: p :: v := by
    apply List.filter_eq_self.mpr
    intro c hc; simp [(plain_facts c (hall c hc)).1]
  simp only [hf]
  have h1 : ('0' :: p :: v).contains '(' = false :=
    contains_false _ _ (fun c hc => (plain_facts c (hall c hc)).2.2.1)
  have h2 : ('0' :: p :: v).contains '*' = false :=
    contains_false _ _ (fun c hc => (plain_facts c (hall c hc)).2.2.2.1)
  rw [h1, h2]
  simp only [Bool.false_eq_true, or_self, if_false]
  rw [splitComma_nocomma _ (fun c hc => (plain_facts c (hall c hc)).2.1)]
  simp only [tokensToBits, List.isEmpty_cons, Bool.false_eq_true, if_false]
  cases tokenToBits ('0' :: p :: v) <;> rfl

theorem tidy_plain (v : List Char) (hv : ∀ c ∈ v, plainChar c = true) :
    (v.map lowerChar).filter (· ≠ '_') = v := by
  have hm : v.map lowerChar = v := by
    conv => rhs; rw [← List.map_id v]
    apply List.map_congr_left
    intro c hc; exact (plain_facts c (hv c hc)).2.2.2.2.1
  rw [hm]
  apply List.filter_eq_self.mpr
  intro c hc
  simp [(plain_facts c (hv c hc)).2.2.2.2.2]

def bitChar (x : Bool) : Char := if x then '1' else '0'

theorem digitsToBits_bin (b : Bits) : digitsToBits 1 (b.map bitChar) = some b := by
  induction b with
  | nil => rfl
  | cons x xs ih =>
    simp only [List.map_cons, digitsToBits, ih]
    cases x <;> rfl

theorem hexDigit_facts : ∀ v, v < 16 → (hexVal? (hexDigit v) = some v ∧ plainChar (hexDigit v) = true ∧ hexDigit v ≠ 'x') := by
  decide

theorem digitsToBits_hex (d : List Nat) (h : ∀ v ∈ d, v < 16) :
    digitsToBits 4 (d.map hexDigit) = some (d.flatMap (natToBits 4)) := by
  induction d with
  | nil => rfl
  | cons v r ih =>
    have hv := h v (by simp)
    simp only [List.map_cons, digitsToBits, ih (fun w hw => h w (by simp [hw])), (hexDigit_facts v hv).1,
      List.flatMap_cons]
    have : v < 2 ^ 4 := by omega
    simp [this, hv]

theorem strToBits_bin_literal (b : Bits) (hb : b ≠ []) :
    strToBits ('0' :: 'b' :: b.map bitChar) = .ok b := by
  have hv : ∀ c ∈ b.map bitChar, plainChar c = true := by
    intro c hc
    obtain ⟨x, _, hx⟩ := List.mem_map.mp hc
    subst hx; cases x <;> decide
  have hnb : ∀ c ∈ b.map bitChar, c ≠ 'b' := by
    intro c hc
    obtain ⟨x, _, hx⟩ := List.mem_map.mp hc
    subst hx; cases x <;> decide
  rw [strToBits_single 'b' _ (by decide) hv]
  have ht : tokenToBits ('0' :: 'b' :: b.map bitChar) = .ok b := by
    simp only [tokenToBits, tidy_plain _ hv]
    have e1 : lowerChar 'b' = 'b' := by decide
    have e2 : (List.map bitChar b).isEmpty = false := by
      cases b with
      | nil => exact absurd rfl hb
      | cons x xs => rfl
    simp only [e1, e2, contains_false _ _ hnb, digitsToBits_bin]
    simp
  rw [ht]; simp

theorem strToBits_hex_literal (d : List Nat) (hd : d ≠ []) (h : ∀ v ∈ d, v < 16) :
    strToBits ('0' :: 'x' :: d.map hexDigit) = .ok (d.flatMap (natToBits 4)) := by
  have hv : ∀ c ∈ d.map hexDigit, plainChar c = true := by
    intro c hc
    obtain ⟨x, hx1, hx⟩ := List.mem_map.mp hc
    subst hx; exact (hexDigit_facts x (h x hx1)).2.1
  have hnx : ∀ c ∈ d.map hexDigit, c ≠ 'x' := by
    intro c hc
    obtain ⟨x, hx1, hx⟩ := List.mem_map.mp hc
    subst hx; exact (hexDigit_facts x (h x hx1)).2.2
  rw [strToBits_single 'x' _ (by decide) hv]
  have ht : tokenToBits ('0' :: 'x' :: d.map hexDigit) = .ok (d.flatMap (natToBits 4)) := by
    simp only [tokenToBits, tidy_plain _ hv]
    have e1 : lowerChar 'x' = 'x' := by decide
    have e2 : (List.map hexDigit d).isEmpty = false := by
      cases d with
      | nil => exact absurd rfl hd
      | cons x xs => rfl
    simp only [e1, e2, contains_false _ _ hnx, digitsToBits_hex d h]
    simp
  rw [ht]; simp


end BM.C13
