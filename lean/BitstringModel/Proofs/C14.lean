/-
  Proofs/C14.lean — helper lemmas shared by the C14 property files: the chunk calculus on bit buffers
  (a buffer that is `bs.flatten ++ t` with all blocks `w` long and `|t| < w`) and the in-range forms of the
  `BitArray` slice primitives.
-/
import BitstringModel.Model.C14
import BitstringModel.Proofs.C01
import Mathlib.Tactic.Ring
import Mathlib.Tactic.Linarith
import Mathlib.Data.List.Basic

namespace BM.C14
open BM

/-! ### blocks -/

theorem blocks_flatten_length {α} (w : Nat) (bs : List (List α)) (hbs : ∀ b ∈ bs, b.length = w) :
    bs.flatten.length = bs.length * w := by
  induction bs with
  | nil => simp
  | cons b bs ih =>
    have hb : b.length = w := hbs b (by simp)
    have := ih (fun x hx => hbs x (by simp [hx]))
    simp only [List.flatten_cons, List.length_append, List.length_cons, hb, this]
    ring

theorem take_blocks {α} (w : Nat) (bs : List (List α)) (t : List α) (hbs : ∀ b ∈ bs, b.length = w) (k : Nat)
    (hk : k ≤ bs.length) : (bs.flatten ++ t).take (k * w) = (bs.take k).flatten := by
  induction bs generalizing k with
  | nil =>
    have : k = 0 := by simpa using hk
    subst this; simp
  | cons b bs ih =>
    have hb : b.length = w := hbs b (by simp)
    cases k with
    | zero => simp
    | succ k =>
      have hk' : k ≤ bs.length := by simpa using hk
      have := ih (fun x hx => hbs x (by simp [hx])) k hk'
      simp only [List.flatten_cons, List.append_assoc, List.take_succ_cons]
      rw [List.take_append, List.take_of_length_le (by rw [hb]; nlinarith)]
      rw [hb]
      have e : (k + 1) * w - w = k * w := by
        rw [Nat.add_mul, Nat.one_mul, Nat.add_sub_cancel]
      rw [e, this]

theorem drop_blocks {α} (w : Nat) (bs : List (List α)) (t : List α) (hbs : ∀ b ∈ bs, b.length = w) (k : Nat)
    (hk : k ≤ bs.length) : (bs.flatten ++ t).drop (k * w) = (bs.drop k).flatten ++ t := by
  induction bs generalizing k with
  | nil =>
    have : k = 0 := by simpa using hk
    subst this; simp
  | cons b bs ih =>
    have hb : b.length = w := hbs b (by simp)
    cases k with
    | zero => simp
    | succ k =>
      have hk' : k ≤ bs.length := by simpa using hk
      have := ih (fun x hx => hbs x (by simp [hx])) k hk'
      simp only [List.flatten_cons, List.append_assoc, List.drop_succ_cons]
      rw [List.drop_append, List.drop_of_length_le (by rw [hb]; nlinarith)]
      rw [hb]
      have e : (k + 1) * w - w = k * w := by
        rw [Nat.add_mul, Nat.one_mul, Nat.add_sub_cancel]
      rw [e, this]
      simp

/-- The `k`-th block sits at bit offset `k * w`. -/
theorem block_at {α} (w : Nat) (bs : List (List α)) (t : List α) (hbs : ∀ b ∈ bs, b.length = w) (k : Nat)
    (hk : k < bs.length) : ((bs.flatten ++ t).drop (k * w)).take w = bs[k] := by
  rw [drop_blocks w bs t hbs k (by omega)]
  rw [List.drop_eq_getElem_cons hk]
  have hb : (bs[k]).length = w := hbs _ (List.getElem_mem hk)
  simp only [List.flatten_cons, List.append_assoc]
  rw [List.take_append, List.take_of_length_le (by omega)]
  simp [hb]

theorem blocks_div {α} (w : Nat) (hw : 0 < w) (bs : List (List α)) (t : List α) (hbs : ∀ b ∈ bs, b.length = w)
    (ht : t.length < w) : (bs.flatten ++ t).length / w = bs.length := by
  rw [List.length_append, blocks_flatten_length w bs hbs]
  rw [Nat.mul_comm, Nat.mul_add_div hw, Nat.div_eq_of_lt ht]
  simp

/-- Uniqueness of the item view. -/
theorem chunks_of_blocks (w : Nat) (hw : 0 < w) (bs : List Bits) (t : Bits) (hbs : ∀ b ∈ bs, b.length = w)
    (ht : t.length < w) : chunks w (bs.flatten ++ t) = bs := by
  unfold chunks
  rw [blocks_div w hw bs t hbs ht]
  apply List.ext_getElem
  · simp
  · intro i h1 h2
    simp only [List.getElem_map, List.getElem_range]
    exact block_at w bs t hbs i h2

theorem trailing_of_blocks (w : Nat) (hw : 0 < w) (bs : List Bits) (t : Bits) (hbs : ∀ b ∈ bs, b.length = w)
    (ht : t.length < w) : trailing w (bs.flatten ++ t) = t := by
  unfold trailing
  rw [blocks_div w hw bs t hbs ht, Nat.mul_comm]
  rw [drop_blocks w bs t hbs bs.length (by omega)]
  simp

/-! ### every buffer is blocks ++ trailing -/

theorem chunks_len (w : Nat) (d : Bits) : (chunks w d).length = d.length / w := by
  simp [chunks]

theorem chunks_mem_length (w : Nat) (hw : 0 < w) (d : Bits) : ∀ b ∈ chunks w d, b.length = w := by
  intro b hb
  unfold chunks at hb
  simp only [List.mem_map, List.mem_range] at hb
  obtain ⟨k, hk, rfl⟩ := hb
  simp only [List.length_take, List.length_drop]
  have h1 : w * (d.length / w) ≤ d.length := Nat.mul_div_le _ _
  have h2 : (k + 1) * w ≤ (d.length / w) * w := Nat.mul_le_mul_right w hk
  have h3 : (d.length / w) * w = w * (d.length / w) := Nat.mul_comm _ _
  have h4 : (k + 1) * w = k * w + w := by ring
  omega

theorem trailing_lt (w : Nat) (hw : 0 < w) (d : Bits) : (trailing w d).length < w := by
  unfold trailing
  simp only [List.length_drop]
  have := Nat.mod_lt d.length hw
  have h2 := Nat.div_add_mod d.length w
  omega

theorem flatten_chunks_aux (w : Nat) (d : Bits) (n : Nat) (hn : n * w ≤ d.length) :
    ((List.range n).map fun k => (d.drop (k * w)).take w).flatten = d.take (n * w) := by
  induction n with
  | zero => simp
  | succ n ih =>
    have h1 : n * w ≤ d.length := by
      have : (n + 1) * w = n * w + w := by ring
      omega
    rw [List.range_succ, List.map_append, List.flatten_append, ih h1]
    simp only [List.map_cons, List.map_nil, List.flatten_cons, List.flatten_nil, List.append_nil]
    have e : (n + 1) * w = n * w + w := by ring
    rw [e, List.take_add]

/-- The layout: `d = chunks ++ trailing`. -/
theorem layout (w : Nat) (d : Bits) : d = (chunks w d).flatten ++ trailing w d := by
  unfold chunks trailing
  have h : (d.length / w) * w ≤ d.length := by
    rw [Nat.mul_comm]; exact Nat.mul_div_le _ _
  rw [flatten_chunks_aux w d _ h, Nat.mul_comm w]
  exact (List.take_append_drop _ _).symm

/-- Every buffer in block form (the form in which all operation lemmas are proved). -/
theorem exists_blocks (w : Nat) (hw : 0 < w) (d : Bits) :
    (∀ b ∈ chunks w d, b.length = w) ∧ (trailing w d).length < w ∧ d = (chunks w d).flatten ++ trailing w d :=
  ⟨chunks_mem_length w hw d, trailing_lt w hw d, layout w d⟩

/-! ### the slice primitives on in-range offsets -/

theorem sliceIndices_nat (a b n : Nat) (ha : a ≤ n) (hb : b ≤ n) :
    Py.sliceIndices (some (a : Int)) (some (b : Int)) 1 n = ((a : Int), (b : Int), 1) := by
  have h1 : ¬ ((a : Int) < 0) := by omega
  have h2 : ¬ ((b : Int) < 0) := by omega
  have h3 : ¬ ((1 : Int) < 0) := by omega
  simp only [Py.sliceIndices, h1, h2, h3, if_false]
  congr 1
  · omega
  · congr 1; omega

theorem bslice_nat (d : Bits) (a b : Nat) (ha : a ≤ d.length) (hb : b ≤ d.length) :
    bslice d (some (a : Int)) (some (b : Int)) = (d.drop a).take (b - a) := by
  unfold bslice
  rw [sliceIndices_nat a b d.length ha hb]
  simp only [Int.toNat_natCast]
  congr 1
  omega

theorem bsetSlice_nat (d new : Bits) (a b : Nat) (ha : a ≤ d.length) (hb : b ≤ d.length) (hab : a ≤ b) :
    bsetSlice d (a : Int) (b : Int) new = d.take a ++ new ++ d.drop b := by
  unfold bsetSlice
  rw [sliceIndices_nat a b d.length ha hb]
  simp only [Int.toNat_natCast]
  congr 2
  omega

theorem bdelSlice_nat (d : Bits) (a b : Nat) (ha : a ≤ d.length) (hb : b ≤ d.length) (hab : a ≤ b) :
    bdelSlice d (a : Int) (b : Int) = d.take a ++ d.drop b := by
  unfold bdelSlice
  rw [sliceIndices_nat a b d.length ha hb]
  simp only [Int.toNat_natCast]
  congr 2
  omega

/-- Replacing / removing / inserting whole blocks, in block form. -/
theorem set_block (w : Nat) (bs : List Bits) (t nb : Bits) (hbs : ∀ b ∈ bs, b.length = w) (k : Nat) (hk : k < bs.length) :
    (bs.flatten ++ t).take (k * w) ++ nb ++ (bs.flatten ++ t).drop (k * w + w) = (bs.set k nb).flatten ++ t := by
  have e : k * w + w = (k + 1) * w := by ring
  rw [e, take_blocks w bs t hbs k (by omega), drop_blocks w bs t hbs (k + 1) (by omega)]
  rw [List.set_eq_take_append_cons_drop]
  simp [hk]

theorem erase_block (w : Nat) (bs : List Bits) (t : Bits) (hbs : ∀ b ∈ bs, b.length = w) (k : Nat) (hk : k < bs.length) :
    (bs.flatten ++ t).take (k * w) ++ (bs.flatten ++ t).drop (k * w + w) = (bs.eraseIdx k).flatten ++ t := by
  have e : k * w + w = (k + 1) * w := by ring
  rw [e, take_blocks w bs t hbs k (by omega), drop_blocks w bs t hbs (k + 1) (by omega)]
  rw [List.eraseIdx_eq_take_drop_succ]
  simp

theorem insert_block (w : Nat) (bs : List Bits) (t nb : Bits) (hbs : ∀ b ∈ bs, b.length = w) (k : Nat) (hk : k ≤ bs.length) :
    (bs.flatten ++ t).take (k * w) ++ nb ++ (bs.flatten ++ t).drop (k * w) = (bs.take k ++ nb :: bs.drop k).flatten ++ t := by
  rw [take_blocks w bs t hbs k hk, drop_blocks w bs t hbs k hk]
  simp

end BM.C14
