/-
  Proofs/C14.lean — helper lemmas for the C14 property files (chunk calculus on bit buffers).
-/
import BitstringModel.Model.C14
import BitstringModel.Proofs.C01
import Mathlib.Tactic.Ring
import Mathlib.Tactic.Linarith
import Mathlib.Data.List.Basic

namespace BM.C14
open BM

end BM.C14
