/- Kernel obligation: `bfChk` (Proofs/C11_NumDefs.lean) on the 16-bit patterns 0x7c00..0x7fff. -/
import BitstringModel.Proofs.C11_NumDefs
namespace BM.C11
theorem bfChunk_31 : bfChunkOk 31 = true := by decide +kernel
end BM.C11
