/- Kernel obligation: `bfChk` (Proofs/C11_NumDefs.lean) on the 16-bit patterns 0x8400..0x87ff. -/
import BitstringModel.Proofs.C11_NumDefs
namespace BM.C11
theorem bfChunk_33 : bfChunkOk 33 = true := by decide +kernel
end BM.C11
