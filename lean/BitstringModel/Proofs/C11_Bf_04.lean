/- Kernel obligation: `bfChk` (Proofs/C11_NumDefs.lean) on the 16-bit patterns 0x1000..0x13ff. -/
import BitstringModel.Proofs.C11_NumDefs
namespace BM.C11
theorem bfChunk_04 : bfChunkOk 4 = true := by decide +kernel
end BM.C11
