/- Kernel obligation: `bfChk` (Proofs/C11_NumDefs.lean) on the 16-bit patterns 0x1800..0x1bff. -/
import BitstringModel.Proofs.C11_NumDefs
namespace BM.C11
theorem bfChunk_06 : bfChunkOk 6 = true := by decide +kernel
end BM.C11
