/- Kernel obligation: `bfChk` (Proofs/C11_NumDefs.lean) on the 16-bit patterns 0x6000..0x6fff. -/
import BitstringModel.Proofs.C11_NumDefs
namespace BM.C11
theorem bfChunk_06 : bfChunkOk 6 = true := by decide +kernel
end BM.C11
