/-
  Proofs/C06.lean — helper lemmas for the stream-position property.
-/
import BitstringModel.Model.C06
import BitstringModel.Proofs.Basic
import BitstringModel.Proofs.C10
import BitstringModel.Proofs.C10I
import BitstringModel.Props.C10
import BitstringModel.Props.C10_Interleaved
namespace BM.C06
open BM

theorem pySlice_eq {α} (l : List α) (a b : Int) (ha : 0 ≤ a) (hab : a ≤ b) (hb : b ≤ l.length) :
    pySlice l a b = (l.drop a.toNat).take (b - a).toNat := by
  unfold pySlice Py.sliceIndices
  simp only []
  have h1 : ¬ a < 0 := by omega
  have h2 : ¬ b < 0 := by omega
  simp [h1, h2]
  have : min a (l.length : Int) = a := by omega
  have h3 : min b (l.length : Int) = b := by omega
  rw [this, h3]

theorem pyFrom_eq {α} (l : List α) (a : Int) (ha : 0 ≤ a) (hb : a ≤ l.length) :
    pyFrom l a = l.drop a.toNat := by
  unfold pyFrom Py.sliceIndices
  have h1 : ¬ a < 0 := by omega
  simp [h1]
  omega

theorem chunks8_flatten (k : Nat) (l : Bits) : (chunks8 k l).flatten = l.take (8 * k) := by
  induction k generalizing l with
  | zero => simp [chunks8]
  | succ k ih =>
    simp only [chunks8, List.flatten_cons, ih]
    rw [show 8 * (k + 1) = 8 + 8 * k by omega, List.take_add]

theorem reverseBytes_length (k : Nat) (l : Bits) (h : 8 * k ≤ l.length) : (reverseBytes k l).length = l.length := by
  unfold reverseBytes
  have : ((chunks8 k l).reverse.flatten).length = ((chunks8 k l).flatten).length := by
    simp [List.length_flatten, List.map_reverse, List.sum_reverse]
  rw [List.length_append, this, chunks8_flatten]
  simp; omega

theorem validateSlice_ok (n : Nat) (a b : Option Int) (s e : Nat) (h : validateSlice n a b = .ok (s, e)) :
    s ≤ e ∧ e ≤ n := by
  unfold validateSlice at h
  cases a <;> cases b <;> dsimp only at h <;> (repeat' split at h) <;>
    first
    | (cases h; done)
    | (simp only [Except.ok.injEq, Prod.mk.injEq] at h; omega)

theorem applyMut_length (l : Bits) (m : Mut) (nb : Bits) (r : Option Int) (h : applyMut l m = .ok (nb, r)) :
    nb.length = l.length := by
  cases m <;> dsimp only [applyMut] at h <;> (repeat' split at h) <;> (try (cases h; done))
  case h_2 s e heq =>
    have := validateSlice_ok _ _ _ _ _ heq
    cases h
    simp; omega
  all_goals (try cases h)
  all_goals (try (simp [rotLeft]; done))
  all_goals (try (simp [rotLeft]; omega))
  all_goals exact reverseBytes_length _ _ (by omega)

/-! ### occurrences -/

theorem mem_occ (data pat : Bits) (a b : Nat) (al : Bool) (p : Nat) :
    p ∈ occ data pat a b al ↔
      a ≤ p ∧ p + pat.length ≤ b ∧ p + pat.length ≤ data.length ∧ (al = true → p % 8 = 0)
        ∧ (data.drop p).take pat.length = pat := by
  unfold occ
  simp only [List.mem_filter, List.mem_range, Bool.and_eq_true, decide_eq_true_eq, Bool.or_eq_true,
    Bool.not_eq_true', beq_iff_eq]
  constructor
  · rintro ⟨_, ⟨⟨⟨h1, h2⟩, h3⟩, h4⟩, h5⟩
    refine ⟨h1, h2, h3, ?_, h5⟩
    intro hal; cases h4 with
    | inl h => rw [hal] at h; cases h
    | inr h => exact h
  · rintro ⟨h1, h2, h3, h4, h5⟩
    refine ⟨by omega, ⟨⟨⟨h1, h2⟩, h3⟩, ?_⟩, h5⟩
    cases al
    · left; rfl
    · right; exact h4 rfl

/-! ### the self-delimiting codes: reader = whole-value interpretation of exactly the consumed bits -/

theorem readUE_zero_iff (sub : Bits) (n l : Nat) (h : C10.readUE sub 0 = .ok (n, l)) :
    ∃ rest, sub = C10.ueEncodeNat n ++ rest ∧ l = (C10.ueEncodeNat n).length := by
  obtain ⟨k, tail, post, hd, hlen, hv, hp⟩ := C10.readUE_ok_struct sub 0 n l h
  rw [List.drop_zero] at hd
  refine ⟨post, ?_, ?_⟩
  · rw [hv, C10.ueEncodeNat_of_struct k tail hlen, hd]
  · rw [hv, C10.ueEncodeNat_of_struct k tail hlen]; simp; omega

theorem readSE_zero_iff (sub : Bits) (i : Int) (l : Nat) (h : C10.readSE sub 0 = .ok (i, l)) :
    ∃ rest, sub = C10.seEncode i ++ rest ∧ l = (C10.seEncode i).length := by
  rw [C10.readSE_eq] at h
  split at h
  · cases h
  · rename_i c q hq
    cases h
    obtain ⟨rest, h1, h2⟩ := readUE_zero_iff sub c l hq
    refine ⟨rest, ?_, ?_⟩ <;> (unfold C10.seEncode; rw [C10.seMap_seDecode]; assumption)


/-! ### single dtype reads -/

theorem decode_bool_ok (b : Bits) (v : Val) (h : decode .bool b = .ok v) : b.length = 1 := by
  unfold decode at h
  match b, h with
  | [x], _ => rfl

theorem readVar_ok (bits : Bits) (pos : Int) (vk : VKind) (v : Val) (np : Int)
    (h0 : 0 ≤ pos) (h1 : pos ≤ bits.length) (h : readVar bits pos vk = .ok (v, np)) :
    ∃ k : Nat, 0 < k ∧ np = pos + k ∧ pos + k ≤ bits.length
      ∧ specDecode (.var vk) ((bits.drop pos.toNat).take k) = .ok v := by
  unfold readVar at h
  rw [pyFrom_eq bits pos h0 h1] at h
  cases vk <;> simp only at h <;> split at h <;> (try (cases h; done))
  · rename_i n l hr
    cases h
    obtain ⟨rest, hs, hl⟩ := readUE_zero_iff _ n l hr
    have hlen := congrArg List.length hs
    simp only [List.length_drop, List.length_append] at hlen
    have hpos : 0 < (C10.ueEncodeNat n).length := by rw [C10.ue_length]; omega
    refine ⟨l, by omega, rfl, by omega, ?_⟩
    rw [hs, hl, List.take_left']; · simp only [specDecode]; rw [(C10.getUE_exact _ n).2 rfl]
    rfl
  · rename_i n l hr
    cases h
    obtain ⟨rest, hs, hl⟩ := readSE_zero_iff _ n l hr
    have hlen := congrArg List.length hs
    simp only [List.length_drop, List.length_append] at hlen
    have hpos : 0 < (C10.seEncode n).length := by unfold C10.seEncode; rw [C10.ue_length]; omega
    refine ⟨l, by omega, rfl, by omega, ?_⟩
    rw [hs, hl, List.take_left']; · simp only [specDecode]; rw [(C10.getSE_exact _ n).2 rfl]
    rfl
  · rename_i n l hr
    cases h
    obtain ⟨rest, hs, hl⟩ := (C10.readUIE_ok_iff _ 0 n l).1 hr
    rw [List.drop_zero] at hs
    have hlen := congrArg List.length hs
    simp only [List.length_drop, List.length_append] at hlen
    have hpos : 0 < (C10.uieEncodeNat n).length := by rw [C10.uie_length]; omega
    refine ⟨l, by omega, rfl, by omega, ?_⟩
    rw [hs, hl, Nat.zero_add, List.take_left']; · simp only [specDecode]; rw [(C10.getUIE_exact _ n).2 rfl]
    rfl
  · rename_i n l hr
    cases h
    obtain ⟨rest, hs, hl⟩ := (C10.readSIE_ok_iff _ 0 n l).1 hr
    rw [List.drop_zero] at hs
    have hlen := congrArg List.length hs
    simp only [List.length_drop, List.length_append] at hlen
    have hpos : 0 < (C10.sieEncode n).length := C10.sie_length_pos n
    refine ⟨l, by omega, rfl, by omega, ?_⟩
    rw [hs, hl, Nat.zero_add, List.take_left']; · simp only [specDecode]; rw [(C10.getSIE_exact _ n).2 rfl]
    rfl

theorem readVar_err (bits : Bits) (pos : Int) (vk : VKind) (e : Err) (h : readVar bits pos vk = .error e) : e = .read := by
  unfold readVar at h
  cases vk <;> simp only at h <;> split at h <;> cases h <;> rfl


def clampI (x n : Int) : Int := if x < 0 then max (x + n) 0 else min x n

theorem pySlice_def {α} (l : List α) (a b : Int) :
    pySlice l a b = (l.drop (clampI a l.length).toNat).take (clampI b l.length - clampI a l.length).toNat := by
  unfold pySlice Py.sliceIndices clampI
  simp

theorem pySlice_eq' {α} (l : List α) (a b : Int) (ha : 0 ≤ a) (hal : a ≤ l.length) (hab : a ≤ b) :
    pySlice l a b = (l.drop a.toNat).take (b - a).toNat := by
  rw [pySlice_def]
  have h1 : clampI a l.length = a := by unfold clampI; rw [if_neg (by omega)]; omega
  rw [h1]
  by_cases hb : b ≤ l.length
  · have h2 : clampI b l.length = b := by unfold clampI; rw [if_neg (by omega)]; omega
    rw [h2]
  · have h2 : clampI b l.length = l.length := by unfold clampI; rw [if_neg (by omega)]; omega
    rw [h2]
    rw [List.take_of_length_le (by simp; omega), List.take_of_length_le (by simp; omega)]

/-- Well-formed concrete dtype: non-negative bit length. -/
def RDT.wf : RDT → Prop
  | .fixed _ bl => 0 ≤ bl
  | .var _ => True

def DT.wf : DT → Prop
  | .known r => r.wf
  | .stretchy _ => True

/-- What a concrete dtype means on exactly the bits it consumed. -/
def rdtDecode : RDT → Bits → Except Err Val
  | .fixed k _, b => decode k b
  | .var vk, b => specDecode (.var vk) b

theorem readFixed_ok (bits : Bits) (pos : Int) (k : Kind) (bl : Int) (v : Val)
    (h0 : 0 ≤ pos) (h1 : pos ≤ bits.length) (hbl : 0 ≤ bl)
    (h : readFixed bits pos k bl = .ok v) :
    pos + bl ≤ bits.length ∧ decode k ((bits.drop pos.toNat).take bl.toNat) = .ok v := by
  unfold readFixed at h
  split at h
  · cases h
  · rename_i hlt
    refine ⟨by omega, ?_⟩
    rw [pySlice_eq' bits pos (pos + bl) h0 h1 (by omega)] at h
    rw [show (pos + bl - pos).toNat = bl.toNat by omega] at h
    exact h

theorem readRDT_ok (bits : Bits) (pos : Int) (r : RDT) (v : Val) (np : Int)
    (h0 : 0 ≤ pos) (h1 : pos ≤ bits.length) (hw : r.wf) (h : readRDT bits pos r = .ok (v, np)) :
    ∃ k : Nat, np = pos + k ∧ pos + k ≤ bits.length
      ∧ rdtDecode r ((bits.drop pos.toNat).take k) = .ok v
      ∧ (∀ kk bl, r = .fixed kk bl → bl = k) := by
  cases r with
  | fixed k bl =>
    simp only [readRDT] at h
    split at h
    · rename_i v' hv
      cases h
      obtain ⟨hle, hd⟩ := readFixed_ok bits pos k bl v h0 h1 hw hv
      have hw' : 0 ≤ bl := hw
      refine ⟨bl.toNat, by omega, by omega, hd, ?_⟩
      intro kk bl' heq; cases heq; omega
    · cases h
  | var vk =>
    simp only [readRDT] at h
    obtain ⟨k, _, hk1, hk2, hk3⟩ := readVar_ok bits pos vk v np h0 h1 h
    exact ⟨k, hk1, hk2, hk3, by intro kk bl heq; cases heq⟩

theorem mkDtype_ok (k : Kind) (n : Int) (r : RDT) (h : mkDtype k n = .ok r) :
    r = .fixed k (n * k.mult) ∧ 0 ≤ n ∧ r.wf := by
  unfold mkDtype at h
  split at h
  · cases h
  · split at h
    · cases h
    · rename_i hn
      cases h
      refine ⟨rfl, by omega, ?_⟩
      show 0 ≤ n * k.mult
      cases k <;> simp [Kind.mult] <;> omega

theorem resolve_wf (d : DT) (avail : Int) (r : RDT) (hd : d.wf) (h : resolve d avail = .ok r) :
    r.wf := by
  cases d with
  | known r' => simp only [resolve] at h; cases h; exact hd
  | stretchy k =>
    simp only [resolve] at h
    split at h
    · cases h
    · exact (mkDtype_ok k _ r h).2.2

theorem toDT_wf (t : Tok) (d : DT) (h : t.toDT = .ok d) : d.wf := by
  cases t with
  | count n =>
    simp only [Tok.toDT] at h
    cases hm : mkDtype .bits n with
    | error e => rw [hm] at h; cases h
    | ok r => rw [hm] at h; cases h; exact (mkDtype_ok .bits n r hm).2.2
  | fixed k n =>
    simp only [Tok.toDT] at h
    cases hm : mkDtype k n with
    | error e => rw [hm] at h; cases h
    | ok r => rw [hm] at h; cases h; exact (mkDtype_ok k n r hm).2.2
  | stretchy k =>
    cases k <;> simp only [Tok.toDT] at h <;> (try (cases h; trivial; done))
    cases hm : mkDtype .bool 1 with
    | error e => rw [hm] at h; cases h
    | ok r => rw [hm] at h; cases h; exact (mkDtype_ok .bool 1 r hm).2.2
  | var v => simp only [Tok.toDT] at h; cases h; trivial

/-- The main fact about a single read. -/
theorem readTok_ok (s : Stream) (t : Tok) (v : Val) (np : Int) (hi : Inv s) (h : readTok s t = .ok (v, np)) :
    ∃ k : Nat, np = s.pos + k ∧ s.pos + k ≤ s.len
      ∧ specDecode t ((s.bits.drop s.pos.toNat).take k) = .ok v
      ∧ (∀ n, t.need (s.len - s.pos) = some n → n = k) := by
  obtain ⟨h0, h1⟩ := hi
  cases t with
  | count n =>
    simp only [readTok] at h
    split at h; · cases h
    split at h; · cases h
    rename_i hn hr
    cases h
    unfold Stream.len at *
    refine ⟨n.toNat, by omega, by omega, ?_, ?_⟩
    · simp only [specDecode]
      rw [pySlice_eq' s.bits s.pos (s.pos + n) h0 h1 (by omega)]
      rw [show (s.pos + n - s.pos).toNat = n.toNat by omega]
    · intro m hm; simp only [Tok.need] at hm; cases hm; omega
  | fixed k n =>
    simp only [readTok, Tok.toDT] at h
    cases hm : mkDtype k n with
    | error e => rw [hm] at h; cases h
    | ok r =>
      rw [hm] at h
      simp only [Except.map, resolve] at h
      obtain ⟨hr, _, hw⟩ := mkDtype_ok k n r hm
      split at h; · cases h
      rename_i v' np' hrd
      split at h; · cases h
      cases h
      obtain ⟨kk, hk1, hk2, hk3, hk4⟩ := readRDT_ok s.bits s.pos r v np h0 h1 hw hrd
      refine ⟨kk, hk1, hk2, ?_, ?_⟩
      · subst hr; exact hk3
      · intro m hm'; simp only [Tok.need] at hm'; cases hm'; exact hk4 k _ hr
  | stretchy k =>
    by_cases hb : k = .bool
    · subst hb
      simp only [readTok, Tok.toDT] at h
      cases hm : mkDtype .bool 1 with
      | error e => rw [hm] at h; cases h
      | ok r =>
        rw [hm] at h
        simp only [Except.map, resolve] at h
        obtain ⟨hr, _, hw⟩ := mkDtype_ok .bool 1 r hm
        split at h; · cases h
        rename_i v' np' hrd
        split at h; · cases h
        cases h
        obtain ⟨kk, hk1, hk2, hk3, hk4⟩ := readRDT_ok s.bits s.pos r v np h0 h1 hw hrd
        refine ⟨kk, hk1, hk2, ?_, ?_⟩
        · subst hr; exact hk3
        · intro m hm'; simp only [Tok.need] at hm'; cases hm'
          have := hk4 .bool _ hr; simp [Kind.mult] at this; omega
    · have hd : (Tok.stretchy k).toDT = .ok (.stretchy k) := by cases k <;> simp_all [Tok.toDT]
      simp only [readTok, hd, resolve] at h
      split at h; · cases h
      rename_i r hres
      split at hres; · cases hres
      rename_i hmod
      have hmod' : (s.len - s.pos) % k.mult = 0 := by simpa using hmod
      have hq : 0 ≤ (s.len - s.pos) / k.mult := by
        unfold Stream.len; cases k <;> simp [Kind.mult] <;> omega
      obtain ⟨hr, _, hw⟩ := mkDtype_ok k _ r hres
      split at h; · cases h
      rename_i v' np' hrd
      split at h; · cases h
      cases h
      obtain ⟨kk, hk1, hk2, hk3, hk4⟩ := readRDT_ok s.bits s.pos r v np h0 h1 hw hrd
      refine ⟨kk, hk1, hk2, ?_, ?_⟩
      · subst hr; exact hk3
      · intro m hm'
        have hbl := hk4 k _ hr
        have : Tok.need (.stretchy k) (s.len - s.pos) = some (s.len - s.pos) := by cases k <;> simp_all [Tok.need]
        rw [this] at hm'; cases hm'
        rw [← hbl]
        revert hmod'; cases k <;> simp [Kind.mult] <;> omega
  | var vk =>
    simp only [readTok, Tok.toDT, resolve] at h
    split at h; · cases h
    rename_i v' np' hrd
    split at h; · cases h
    cases h
    obtain ⟨kk, hk1, hk2, hk3, _⟩ := readRDT_ok s.bits s.pos (.var vk) v np h0 h1 trivial hrd
    exact ⟨kk, hk1, hk2, hk3, by intro m hm; simp [Tok.need] at hm⟩


theorem readTok_var_err (s : Stream) (vk : VKind) (e : Err) (h : readTok s (.var vk) = .error e) : e = .read := by
  simp only [readTok, Tok.toDT, resolve, readRDT] at h
  split at h
  · rename_i e' he; cases h; exact readVar_err _ _ _ _ he
  · split at h
    · cases h; rfl
    · cases h

theorem readTok_count_short (s : Stream) (n : Int) (hn : 0 ≤ n) (hs : n > s.len - s.pos) :
    readTok s (.count n) = .error .read := by
  simp only [readTok]
  rw [if_neg (by omega), if_pos hs]

theorem mkDtype_allowed (k : Kind) (n : Int) (ha : allowed k n = true) (hn : 0 ≤ n) :
    mkDtype k n = .ok (.fixed k (n * k.mult)) := by
  unfold mkDtype
  rw [if_neg (by simp [ha]), if_neg (by omega)]

theorem mkDtype_err (k : Kind) (n : Int) (e : Err) (h : mkDtype k n = .error e) :
    e = .value ∧ (allowed k n = false ∨ n < 0) := by
  unfold mkDtype at h
  split at h
  · rename_i ha; cases h; exact ⟨rfl, Or.inl (by simpa using ha)⟩
  · split at h
    · rename_i hn; cases h; exact ⟨rfl, Or.inr hn⟩
    · cases h

theorem readTok_fixed_short (s : Stream) (k : Kind) (n : Nat) (ha : allowed k n = true)
    (hs : (n : Int) * k.mult > s.len - s.pos) :
    readTok s (.fixed k n) = .error .read := by
  simp only [readTok, Tok.toDT, mkDtype_allowed k n ha (by omega), Except.map, resolve, readRDT, readFixed]
  unfold Stream.len at hs
  rw [if_pos (by omega)]

/-! ### readlist -/

theorem readItems_ok (bits : Bits) (after : Int) (ds : List DT) (pos : Int) (vs : List Val) (fp : Int)
    (hw : ∀ d ∈ ds, d.wf) (h0 : 0 ≤ pos) (h1 : pos ≤ bits.length)
    (h : readItems bits after ds pos = .ok (vs, fp)) : pos ≤ fp ∧ fp ≤ bits.length := by
  induction ds generalizing pos vs with
  | nil => simp only [readItems] at h; cases h; omega
  | cons d rest ih =>
    simp only [readItems] at h
    split at h; · cases h
    rename_i r hres
    split at h; · cases h
    rename_i v np hrd
    split at h; · cases h
    rename_i vs' fp' hrest
    cases h
    have hrw := resolve_wf d _ r (hw d (List.mem_cons_self ..)) hres
    obtain ⟨k, hk1, hk2, _, _⟩ := readRDT_ok bits pos r v np h0 h1 hrw hrd
    have := ih np vs' (fun d hd => hw d (List.mem_cons_of_mem _ hd)) (by omega) (by omega) hrest
    omega

theorem toDTs_wf (ts : List Tok) (ds : List DT) (h : toDTs ts = .ok ds) :
    ∀ d ∈ ds, d.wf := by
  induction ts generalizing ds with
  | nil => simp only [toDTs] at h; cases h; intro d hd; cases hd
  | cons t rest ih =>
    simp only [toDTs] at h
    split at h; · cases h
    rename_i d hd
    split at h; · cases h
    rename_i ds' hds
    cases h
    intro d' hd'
    cases hd' with
    | head => exact toDT_wf t _ hd
    | tail _ hm => exact ih ds' hds d' hm

theorem readList_ok (bits : Bits) (pos : Int) (ts : List Tok) (vs : List Val) (fp : Int)
    (h0 : 0 ≤ pos) (h1 : pos ≤ bits.length)
    (h : readList bits pos ts = .ok (vs, fp)) : pos ≤ fp ∧ fp ≤ bits.length := by
  unfold readList at h
  split at h; · cases h
  rename_i ds hds
  split at h; · cases h
  rename_i after hafter
  exact readItems_ok bits after ds pos vs fp (toDTs_wf ts ds hds) h0 h1 h

/-! ### invariant -/

theorem setBitPos_inv (s : Stream) (p : Int) (hi : Inv s) : Inv (setBitPos s p).1 := by
  unfold setBitPos
  split; · exact hi
  split; · exact hi
  unfold Inv Stream.len at *; simp only; omega

theorem afterLenChange_inv (s : Stream) (nb : Bits) (hi : Inv s) : Inv (afterLenChange s nb) := by
  unfold afterLenChange Inv at *
  simp only
  split
  · omega
  · rename_i h; have : nb.length = s.bits.length := by simpa using h
    omega

theorem head?_mem' {α} (l : List α) (x : α) (h : l.head? = some x) : x ∈ l := by
  cases l with
  | nil => cases h
  | cons a t => simp at h; subst h; exact List.mem_cons_self ..

theorem pick_mem (o : List Nat) (last : Bool) (p : Nat) (h : pick o last = some p) : p ∈ o := by
  unfold pick at h
  cases last
  · simp only [Bool.false_eq_true, if_false] at h; exact head?_mem' _ _ h
  · simp only [if_true] at h; exact List.mem_of_getLast? h

/-- `find` / `rfind`: either nothing moves, or the position is an occurrence inside the validated range. -/
theorem findCommon_cases (s : Stream) (pat : Bits) (a b : Option Int) (al last : Bool) :
    ((findCommon s pat a b al last).1 = s ∧ ∀ p, (findCommon s pat a b al last).2 ≠ .found (some p)) ∨
    ∃ x y p, validateSlice s.bits.length a b = .ok (x, y) ∧ pick (occ s.bits pat x y al) last = some p
      ∧ findCommon s pat a b al last = ({ s with pos := p }, .found (some p)) := by
  unfold findCommon
  by_cases hp : pat.isEmpty = true
  · left; simp [hp]
  · simp only [hp]
    cases hv : validateSlice s.bits.length a b with
    | error e => left; simp
    | ok xy =>
      obtain ⟨x, y⟩ := xy
      simp only
      cases ho : pick (occ s.bits pat x y al) last with
      | none => left; simp
      | some p => right; exact ⟨x, y, p, rfl, ho, by simp⟩

theorem findCommon_inv (s : Stream) (pat : Bits) (a b : Option Int) (al last : Bool) (hi : Inv s) :
    Inv (findCommon s pat a b al last).1 := by
  rcases findCommon_cases s pat a b al last with ⟨h, _⟩ | ⟨x, y, p, _, hp, h⟩
  · rw [h]; exact hi
  · rw [h]
    have hm := pick_mem _ _ _ hp
    rw [mem_occ] at hm
    unfold Inv; simp only; omega

theorem inv_ite (c : Prop) [Decidable c] (x y : Stream × Res) (hx : c → Inv x.1) (hy : ¬ c → Inv y.1) :
    Inv (if c then x else y).1 := by
  by_cases h : c
  · rw [if_pos h]; exact hx h
  · rw [if_neg h]; exact hy h

theorem insertAt_inv (s : Stream) (b : Bits) (p : Option Int) (hi : Inv s) : Inv (insertAt s b p).1 := by
  unfold insertAt
  simp only
  apply inv_ite
  · intro hq
    apply inv_ite
    · intro _; exact hi
    · intro _
      unfold Inv Stream.len at *; simp only [List.length_append, List.length_take, List.length_drop]
      omega
  · intro _; exact hi

theorem overwriteAt_inv (s : Stream) (b : Bits) (p : Option Int) (hi : Inv s) : Inv (overwriteAt s b p).1 := by
  unfold overwriteAt
  simp only
  apply inv_ite; · intro _; exact hi
  intro hq
  apply inv_ite; · intro _; exact hi
  intro _
  unfold Inv Stream.len at *; simp only [List.length_append, List.length_take, List.length_drop]
  omega

theorem replaceWith_inv (s : Stream) (old new : Bits) (a b c : Option Int) (al : Bool) (hi : Inv s) :
    Inv (replaceWith s old new a b c al).1 := by
  unfold replaceWith
  apply inv_ite; · intro _; exact hi
  intro _
  cases hv : validateSlice s.bits.length a b with
  | error e => exact hi
  | ok xy =>
    obtain ⟨x, y⟩ := xy
    simp only
    apply inv_ite; · intro _; exact hi
    intro _
    apply inv_ite; · intro _; exact hi
    intro _
    exact afterLenChange_inv _ _ hi

theorem imul_len (b : Bits) (n : Nat) : ((List.replicate n b).flatten).length = n * b.length := by
  simp [List.length_flatten, List.map_replicate, List.sum_replicate_nat]

theorem inv_stepCore (s : Stream) (op : Op) (hi : Inv s) : Inv (stepCore s op).1 := by
  have hi' := hi
  obtain ⟨h0, h1⟩ := hi
  cases op <;> simp only [stepCore]
  case read t =>
    cases h : readTok s t with
    | error e => exact hi'
    | ok r =>
      obtain ⟨v, np⟩ := r
      obtain ⟨k, hk1, hk2, _, _⟩ := readTok_ok s t v np hi' h
      unfold Inv Stream.len at *; simp only; omega
  case peek t =>
    cases h : readTok s t with
    | error e => exact hi'
    | ok r => exact hi'
  case readlist ts =>
    cases h : readList s.bits s.pos ts with
    | error e => exact hi'
    | ok r =>
      obtain ⟨vs, np⟩ := r
      have := readList_ok s.bits s.pos ts vs np h0 h1 h
      unfold Inv; simp only; omega
  case peeklist ts =>
    cases h : readList s.bits s.pos ts with
    | error e => exact hi'
    | ok r => exact hi'
  case readto pat al =>
    rcases findCommon_cases s pat (some s.pos) none al false with ⟨_, hne⟩ | ⟨x, y, p, _, hp, h⟩
    · cases hf : findCommon s pat (some s.pos) none al false with
      | mk s1 r1 =>
        rw [hf] at hne
        cases r1 with
        | found o => cases o with
          | none => exact hi'
          | some p => exact absurd rfl (hne p)
        | err e => exact hi'
        | _ => exact hi'
    · rw [h]
      have hm := pick_mem _ _ _ hp
      rw [mem_occ] at hm
      unfold Inv; simp only; omega
  case bytealign =>
    apply inv_ite; · intro _; exact hi'
    intro _
    apply inv_ite; · intro _; exact hi'
    intro _
    unfold Inv Stream.len at *; simp only; omega
  case setPos n => exact setBitPos_inv s n hi'
  case getBytePos => apply inv_ite <;> intro _ <;> exact hi'
  case setBytePos n => exact setBitPos_inv s _ hi'
  case find pat a b al => exact findCommon_inv s pat a b al false hi'
  case rfind pat a b al => exact findCommon_inv s pat a b al true hi'
  case append b => unfold Inv; simp; omega
  case iadd b => unfold Inv; simp; omega
  case appendSelf => unfold Inv; simp
  case iaddSelf => unfold Inv; simp
  case prepend b => unfold Inv; simp; omega
  case prependSelf => unfold Inv; simp
  case insert b p => exact insertAt_inv s b p hi'
  case insertSelf p => exact insertAt_inv s s.bits p hi'
  case overwrite b p => exact overwriteAt_inv s b p hi'
  case overwriteSelf p => exact overwriteAt_inv s s.bits p hi'
  case setSlice a b v => exact afterLenChange_inv _ _ hi'
  case setIdxBits i v =>
    try simp only
    apply inv_ite; · intro _; exact hi'
    intro _; exact afterLenChange_inv _ _ hi'
  case setIdxInt i v =>
    apply inv_ite; · intro _; exact hi'
    intro _
    try simp only
    apply inv_ite; · intro _; exact hi'
    intro _
    unfold Inv; simp only [List.length_set]; exact hi'
  case delSlice a b c =>
    apply inv_ite; · intro _; exact hi'
    intro _; exact afterLenChange_inv _ _ hi'
  case delIdx i =>
    try simp only
    apply inv_ite; · intro _; exact hi'
    intro _; exact afterLenChange_inv _ _ hi'
  case replace old new a b c al => exact replaceWith_inv s old new a b c al hi'
  case replaceSelf old a b c al => exact replaceWith_inv s old s.bits a b c al hi'
  case clear => unfold Inv; simp
  case setProp nb =>
    cases nb with
    | none => exact hi'
    | some nb => exact afterLenChange_inv _ _ hi'
  case setUint v =>
    try simp only
    apply inv_ite; · intro _; exact hi'
    intro _
    apply inv_ite; · intro _; exact hi'
    intro _
    unfold Inv; simp only [natToBits_length]; exact hi'
  case mutate m =>
    cases hm : applyMut s.bits m with
    | error e => exact hi'
    | ok r =>
      obtain ⟨nb, ro⟩ := r
      have hl := applyMut_length s.bits m nb ro hm
      cases ro <;> (unfold Inv; simp only; omega)
  case imul n =>
    apply inv_ite; · intro _; exact hi'
    intro hn
    apply inv_ite
    · intro _; unfold Inv; simp
    · intro hn0
      unfold Inv; simp only [imul_len]
      have : (1 : Int) ≤ n.toNat := by omega
      have h2 : (s.bits.length : Int) ≤ (n.toNat * s.bits.length : Nat) := by
        have : 1 * s.bits.length ≤ n.toNat * s.bits.length := Nat.mul_le_mul_right _ (by omega)
        omega
      omega
  all_goals (first | exact hi' | (apply inv_ite <;> intro _ <;> first | exact hi' | (unfold Inv; simp)))

theorem inv_step_all (s : Stream) (op : Op) (hi : Inv s) : Inv (step s op).1 := by
  unfold step
  apply inv_ite
  · intro _; exact hi
  · intro _; exact inv_stepCore s op hi

theorem run_cons (s : Stream) (op : Op) (rest : List Op) :
    run s (op :: rest) = if Inv (step s op).1 then (step s op) :: run (step s op).1 rest else [step s op] := by
  simp only [run]

theorem inv_run' (s : Stream) (ops : List Op) (hi : Inv s) :
    (∀ o ∈ run s ops, Inv o.1) ∧ (run s ops).length = ops.length := by
  induction ops generalizing s with
  | nil => simp [run]
  | cons op rest ih =>
    have h1 := inv_step_all s op hi
    rw [run_cons, if_pos h1]
    obtain ⟨ih1, ih2⟩ := ih (step s op).1 h1
    constructor
    · intro o ho
      cases ho with
      | head => exact h1
      | tail _ hm => exact ih1 o hm
    · simp [ih2]

theorem step_eq_core (s : Stream) (op : Op) (h : op.isMutator = true → s.mutable = true) :
    step s op = stepCore s op := by
  unfold step
  split
  · rename_i hc
    simp only [Bool.and_eq_true, Bool.not_eq_true'] at hc
    have := h hc.1
    rw [this] at hc; cases hc.2
  · rfl

/-! ### streams among returned values start at 0 -/

theorem decode_posZero (k : Kind) (b : Bits) (v : Val) (h : decode k b = .ok v) : v.posZero := by
  cases k <;> simp only [decode] at h
  case bool =>
    match b, h with
    | [x], h => cases h; trivial
  all_goals (first | (cases h; trivial; done) | (split at h <;> cases h <;> trivial))

theorem readRDT_posZero (bits : Bits) (pos : Int) (r : RDT) (v : Val) (np : Int)
    (h : readRDT bits pos r = .ok (v, np)) : v.posZero := by
  cases r with
  | fixed k bl =>
    simp only [readRDT] at h
    cases hf : readFixed bits pos k bl with
    | error e => rw [hf] at h; cases h
    | ok v' =>
      rw [hf] at h; cases h
      unfold readFixed at hf
      split at hf
      · cases hf
      · exact decode_posZero _ _ _ hf
  | var vk =>
    simp only [readRDT, readVar] at h
    cases vk <;> simp only at h <;> split at h <;> cases h <;> trivial

theorem readTok_posZero (s : Stream) (t : Tok) (v : Val) (np : Int) (h : readTok s t = .ok (v, np)) : v.posZero := by
  unfold readTok at h
  split at h
  · split at h; · cases h
    split at h; · cases h
    cases h; rfl
  · split at h; · cases h
    split at h; · cases h
    split at h; · cases h
    rename_i v' np' hr
    split at h; · cases h
    cases h
    exact readRDT_posZero _ _ _ _ _ hr

theorem readItems_posZero (bits : Bits) (after : Int) (ds : List DT) (pos : Int) (vs : List Val) (fp : Int)
    (h : readItems bits after ds pos = .ok (vs, fp)) : ∀ v ∈ vs, v.posZero := by
  induction ds generalizing pos vs with
  | nil => simp only [readItems] at h; cases h; intro v hv; cases hv
  | cons d rest ih =>
    simp only [readItems] at h
    split at h; · cases h
    split at h; · cases h
    rename_i v np hrd
    split at h; · cases h
    rename_i vs' fp' hrest
    cases h
    have h1 := readRDT_posZero _ _ _ _ _ hrd
    have h2 := ih np vs' hrest
    intro w hw
    split at hw
    · exact h2 w hw
    · cases hw with
      | head => exact h1
      | tail _ hm => exact h2 w hm

theorem readList_posZero (bits : Bits) (pos : Int) (ts : List Tok) (vs : List Val) (fp : Int)
    (h : readList bits pos ts = .ok (vs, fp)) : ∀ v ∈ vs, v.posZero := by
  unfold readList at h
  split at h; · cases h
  split at h; · cases h
  exact readItems_posZero _ _ _ _ _ _ h

theorem toDT_known_of_not_open (t : Tok) (d : DT) (ho : t.isOpen = false) (h : t.toDT = .ok d) : ∃ r, d = .known r := by
  cases t with
  | count n =>
    simp only [Tok.toDT] at h
    cases hm : mkDtype .bits n with
    | error e => rw [hm] at h; cases h
    | ok r => rw [hm] at h; cases h; exact ⟨_, rfl⟩
  | fixed k n =>
    simp only [Tok.toDT] at h
    cases hm : mkDtype k n with
    | error e => rw [hm] at h; cases h
    | ok r => rw [hm] at h; cases h; exact ⟨_, rfl⟩
  | stretchy k =>
    cases k <;> simp [Tok.isOpen] at ho
    simp only [Tok.toDT] at h
    cases hm : mkDtype .bool 1 with
    | error e => rw [hm] at h; cases h
    | ok r => rw [hm] at h; cases h; exact ⟨_, rfl⟩
  | var v => simp only [Tok.toDT] at h; cases h; exact ⟨_, rfl⟩

/-- A single read is the dtype's `read_fn` (the rollback check never fires for a well-formed dtype). -/
theorem readTok_eq_known (s : Stream) (t : Tok) (r : RDT) (hi : Inv s) (hd : t.toDT = .ok (.known r)) (hw : r.wf) :
    readTok s t = readRDT s.bits s.pos r := by
  obtain ⟨h0, h1⟩ := hi
  have key : (match readRDT s.bits s.pos r with
      | .error e => (.error e : Except Err (Val × Int))
      | .ok (v, np) => if np > s.len then .error .read else .ok (v, np)) = readRDT s.bits s.pos r := by
    cases hr : readRDT s.bits s.pos r with
    | error e => rfl
    | ok x =>
      obtain ⟨v, np⟩ := x
      obtain ⟨k, hk1, hk2, _, _⟩ := readRDT_ok s.bits s.pos r v np h0 h1 hw hr
      simp only
      rw [if_neg (by unfold Stream.len; omega)]
  cases t with
  | count n =>
    simp only [Tok.toDT] at hd
    cases hm : mkDtype .bits n with
    | error e => rw [hm] at hd; cases hd
    | ok r' =>
    rw [hm] at hd; cases hd
    obtain ⟨hr, hn, _⟩ := mkDtype_ok .bits n r hm
    subst hr
    simp only [readTok, readRDT, readFixed, Kind.mult, Int.mul_one]
    unfold Stream.len
    rw [if_neg (show ¬ n < 0 by omega)]
    by_cases hs : n > (s.bits.length : Int) - s.pos
    · rw [if_pos hs, if_pos (by omega)]
    · rw [if_neg hs, if_neg (by omega)]; simp only [decode]
  | fixed k n => simp only [readTok, hd, resolve]; exact key
  | stretchy k => simp only [readTok, hd, resolve]; exact key
  | var v => simp only [readTok, hd, resolve]; exact key

theorem readTok_toDT_err (s : Stream) (t : Tok) (e : Err) (hd : t.toDT = .error e) : readTok s t = .error e := by
  cases t with
  | count n =>
    simp only [Tok.toDT] at hd
    cases hm : mkDtype .bits n with
    | ok r => rw [hm] at hd; cases hd
    | error e' =>
      rw [hm] at hd; cases hd
      obtain ⟨he, hc⟩ := mkDtype_err _ _ _ hm
      subst he
      rcases hc with hc | hc
      · simp [allowed] at hc
      · simp only [readTok]; rw [if_pos hc]
  | fixed k n => simp only [readTok, hd]
  | stretchy k => simp only [readTok, hd]
  | var v => simp [Tok.toDT] at hd

theorem scan_known (ds : List DT) (h : ∀ d ∈ ds, ∃ r, d = .known r) : scanStretchy ds false 0 = .ok 0 := by
  induction ds with
  | nil => rfl
  | cons d rest ih =>
    obtain ⟨r, hr⟩ := h d (List.mem_cons_self ..)
    subst hr
    cases r with
    | fixed k bl => simp only [scanStretchy, Bool.false_eq_true, if_false]; exact ih (fun d hd => h d (List.mem_cons_of_mem _ hd))
    | var v => simp only [scanStretchy, Bool.false_eq_true, if_false]; exact ih (fun d hd => h d (List.mem_cons_of_mem _ hd))

theorem readSeq_iff (ts : List Tok) (s : Stream) (hi : Inv s)
    (ho : ∀ t ∈ ts, t.isOpen = false) (res : List Val × Int) :
    (∃ ds, toDTs ts = .ok ds ∧ readItems s.bits 0 ds s.pos = .ok res) ↔ readSeq s ts = .ok res := by
  induction ts generalizing s res with
  | nil => simp [toDTs, readItems, readSeq]
  | cons t rest ih =>
    have ho' : ∀ t ∈ rest, t.isOpen = false := fun t ht => ho t (List.mem_cons_of_mem _ ht)
    simp only [toDTs, readSeq]
    cases hd : t.toDT with
    | error e =>
      rw [readTok_toDT_err s t e hd]
      simp
    | ok d =>
      obtain ⟨r, hr⟩ := toDT_known_of_not_open t d (ho t (List.mem_cons_self ..)) hd
      subst hr
      have hw : r.wf := toDT_wf t _ hd
      rw [readTok_eq_known s t r hi hd hw]
      cases hrd : readRDT s.bits s.pos r with
      | error e =>
        constructor
        · rintro ⟨ds, h1, h2⟩
          cases hds : toDTs rest with
          | error e' => rw [hds] at h1; cases h1
          | ok ds' =>
            rw [hds] at h1; cases h1
            simp only [readItems, resolve, hrd] at h2
            cases h2
        · intro h; cases h
      | ok x =>
        obtain ⟨v, np⟩ := x
        obtain ⟨k, hk1, hk2, _, _⟩ := readRDT_ok s.bits s.pos r v np hi.1 hi.2 hw hrd
        have hi2 : Inv { s with pos := np } := by have := hi.1; unfold Inv; simp only; omega
        have IH := ih { s with pos := np } hi2 ho'
        simp only
        constructor
        · rintro ⟨ds, h1, h2⟩
          cases hds : toDTs rest with
          | error e' => rw [hds] at h1; cases h1
          | ok ds' =>
            rw [hds] at h1; cases h1
            simp only [readItems, resolve, hrd] at h2
            cases hri : readItems s.bits 0 ds' np with
            | error e' => rw [hri] at h2; cases h2
            | ok y =>
              rw [hri] at h2
              have := (IH y).1 ⟨ds', hds, hri⟩
              rw [this]
              obtain ⟨vs, fp⟩ := y
              simpa using h2
        · intro h
          cases hrs : readSeq { s with pos := np } rest with
          | error e' => rw [hrs] at h; cases h
          | ok y =>
            rw [hrs] at h
            obtain ⟨ds', hds, hri⟩ := (IH y).2 hrs
            refine ⟨_, by rw [hds], ?_⟩
            simp only [readItems, resolve, hrd]
            simp only at hri
            rw [hri]
            obtain ⟨vs, fp⟩ := y
            simpa using h

theorem toDTs_known (ts : List Tok) (ds : List DT) (ho : ∀ t ∈ ts, t.isOpen = false) (h : toDTs ts = .ok ds) :
    ∀ d ∈ ds, ∃ r, d = DT.known r := by
  induction ts generalizing ds with
  | nil => simp only [toDTs] at h; cases h; intro d hd; cases hd
  | cons t rest ih =>
    simp only [toDTs] at h
    cases hd : t.toDT with
    | error e => rw [hd] at h; cases h
    | ok d =>
      rw [hd] at h
      cases hds : toDTs rest with
      | error e => rw [hds] at h; cases h
      | ok ds' =>
        rw [hds] at h; cases h
        intro d' hd'
        cases hd' with
        | head => exact toDT_known_of_not_open t _ (ho t (List.mem_cons_self ..)) hd
        | tail _ hm => exact ih ds' (fun t ht => ho t (List.mem_cons_of_mem _ ht)) hds d' hm

/-! ### readto -/

theorem validateSlice_pos (s : Stream) (hi : Inv s) :
    validateSlice s.bits.length (some s.pos) none = .ok (s.pos.toNat, s.bits.length) := by
  obtain ⟨h0, h1⟩ := hi
  unfold validateSlice
  simp only [if_neg (show ¬ s.pos < 0 by omega)]
  rw [if_pos (by omega)]
  simp

theorem readto_cases (s : Stream) (pat : Bits) (al : Bool) (hi : Inv s) :
    stepCore s (.readto pat al) =
      if pat.isEmpty then (s, .err .value) else
      match (occ s.bits pat s.pos.toNat s.bits.length al).head? with
      | none => (s, .err .read)
      | some p => ({ s with pos := (p : Int) + pat.length },
                   .val (.stream (pySlice s.bits s.pos ((p : Int) + pat.length)) 0)) := by
  simp only [stepCore, findCommon, validateSlice_pos s hi, pick, Bool.false_eq_true, if_false]
  by_cases hp : pat.isEmpty = true
  · simp [hp]
  · have hp' : pat.isEmpty = false := by simpa using hp
    simp only [hp', Bool.false_eq_true, if_false]
    cases (occ s.bits pat s.pos.toNat s.bits.length al).head? with
    | none => rfl
    | some p => rfl

theorem readto_ok' (s s' : Stream) (pat : Bits) (al : Bool) (v : Val) (hi : Inv s)
    (h : step s (.readto pat al) = (s', .val v)) :
    ∃ p : Nat, (occ s.bits pat s.pos.toNat s.bits.length al).head? = some p
      ∧ s' = { s with pos := (p : Int) + pat.length }
      ∧ v = .stream ((s.bits.drop s.pos.toNat).take (p + pat.length - s.pos.toNat)) 0 := by
  rw [step_eq_core s _ (by intro h; cases h), readto_cases s pat al hi] at h
  by_cases hp : pat.isEmpty = true
  · simp [hp] at h
  · have hp' : pat.isEmpty = false := by simpa using hp
    simp only [hp', Bool.false_eq_true, if_false] at h
    cases ho : (occ s.bits pat s.pos.toNat s.bits.length al).head? with
    | none => rw [ho] at h; cases h
    | some p =>
      rw [ho] at h
      simp only [Prod.mk.injEq, Res.val.injEq] at h
      have hm := head?_mem' _ _ ho
      rw [mem_occ] at hm
      refine ⟨p, rfl, h.1.symm, ?_⟩
      rw [← h.2, pySlice_eq' s.bits s.pos _ hi.1 hi.2 (by omega)]
      have := hi.1
      congr 2; omega

theorem readto_fail' (s s' : Stream) (pat : Bits) (al : Bool) (e : Err)
    (h : step s (.readto pat al) = (s', .err e)) : s' = s := by
  rw [step_eq_core s _ (by intro h; cases h)] at h
  simp only [stepCore] at h
  rcases findCommon_cases s pat (some s.pos) none al false with ⟨h1, hne⟩ | ⟨x, y, p, _, _, hf⟩
  · cases hf : findCommon s pat (some s.pos) none al false with
    | mk s1 r1 =>
      rw [hf] at h hne
      cases r1 with
      | found o => cases o with
        | none => simp only at h; cases h; rfl
        | some p => exact absurd rfl (hne p)
      | err e' => simp only at h; cases h; rfl
      | val _ => simp only at h; cases h; rfl
      | vals _ => simp only at h; cases h; rfl
      | ret _ => simp only at h; cases h; rfl
      | unit => simp only at h; cases h; rfl
  · rw [hf] at h; simp only at h; cases h

theorem readto_absent' (s : Stream) (pat : Bits) (al : Bool) (hi : Inv s) (hp : pat ≠ [])
    (h : occ s.bits pat s.pos.toNat s.bits.length al = []) :
    step s (.readto pat al) = (s, .err .read) := by
  rw [step_eq_core s _ (by intro h; cases h), readto_cases s pat al hi]
  have : pat.isEmpty = false := by cases pat <;> simp_all
  simp only [this, Bool.false_eq_true, if_false, h, List.head?_nil]

theorem new_pos_zero (s s' : Stream) (op : Op) (p : Int) (h : step s op = (s', .ret (.new p))) : p = 0 := by
  unfold step at h
  split at h
  · cases h
  · cases op
    case setProp => rename_i nb _; cases nb <;> simp only [stepCore] at h <;> cases h
    all_goals (try simp only [stepCore, findCommon, insertAt, overwriteAt, replaceWith, setBitPos, runQuery] at h)
    all_goals (try (repeat' split at h))
    all_goals (try (cases h <;> rfl))

theorem ret_frame (s s' : Stream) (op : Op) (r : Ret) (h : step s op = (s', .ret r)) : s' = s := by
  unfold step at h
  split at h
  · cases h
  · cases op
    case setProp => rename_i nb _; cases nb <;> simp only [stepCore] at h <;> cases h
    all_goals (try simp only [stepCore, findCommon, insertAt, overwriteAt, replaceWith, setBitPos, runQuery] at h)
    all_goals (try (repeat' split at h))
    all_goals (try (cases h <;> rfl))

theorem values_pos_zero_core (s s' : Stream) (op : Op) :
    (∀ v, stepCore s op = (s', .val v) → v.posZero) ∧ (∀ vs, stepCore s op = (s', .vals vs) → ∀ v ∈ vs, v.posZero) := by
  cases op
  case read t =>
    simp only [stepCore]
    cases hr : readTok s t with
    | error e => exact ⟨fun v h => (by cases h), fun vs h => (by cases h)⟩
    | ok r =>
      obtain ⟨v', np⟩ := r
      refine ⟨fun v h => ?_, fun vs h => (by cases h)⟩
      cases h; exact readTok_posZero s t _ _ hr
  case peek t =>
    simp only [stepCore]
    cases hr : readTok s t with
    | error e => exact ⟨fun v h => (by cases h), fun vs h => (by cases h)⟩
    | ok r =>
      obtain ⟨v', np⟩ := r
      refine ⟨fun v h => ?_, fun vs h => (by cases h)⟩
      cases h; exact readTok_posZero s t _ _ hr
  case readlist ts =>
    simp only [stepCore]
    cases hr : readList s.bits s.pos ts with
    | error e => exact ⟨fun v h => (by cases h), fun vs h => (by cases h)⟩
    | ok r =>
      obtain ⟨vs', np⟩ := r
      refine ⟨fun v h => (by cases h), fun vs h => ?_⟩
      cases h; exact readList_posZero _ _ _ _ _ hr
  case peeklist ts =>
    simp only [stepCore]
    cases hr : readList s.bits s.pos ts with
    | error e => exact ⟨fun v h => (by cases h), fun vs h => (by cases h)⟩
    | ok r =>
      obtain ⟨vs', np⟩ := r
      refine ⟨fun v h => (by cases h), fun vs h => ?_⟩
      cases h; exact readList_posZero _ _ _ _ _ hr
  case setProp nb =>
    cases nb <;> exact ⟨fun v h => (by simp only [stepCore] at h; cases h), fun vs h => (by simp only [stepCore] at h; cases h)⟩
  all_goals (constructor <;> intro v h)
  all_goals (try simp only [stepCore, findCommon, insertAt, overwriteAt, replaceWith, setBitPos, runQuery] at h)
  all_goals (try (repeat' split at h))
  all_goals (try (cases h <;> trivial))

theorem values_pos_zero (s s' : Stream) (op : Op) :
    (∀ v, step s op = (s', .val v) → v.posZero) ∧ (∀ vs, step s op = (s', .vals vs) → ∀ v ∈ vs, v.posZero) := by
  unfold step
  split
  · exact ⟨fun v h => (by cases h), fun vs h => (by cases h)⟩
  · exact values_pos_zero_core s s' op

theorem nonmutator_bits_core (s : Stream) (op : Op) (h : op.isMutator = false) : (stepCore s op).1.bits = s.bits := by
  cases op <;> simp only [Op.isMutator] at h <;> (try (cases h; done)) <;>
    simp only [stepCore, findCommon, insertAt, overwriteAt, replaceWith, setBitPos, runQuery]
  all_goals (try (repeat' split))
  all_goals (try rfl)

theorem nonmutator_bits (s : Stream) (op : Op) (h : op.isMutator = false) : (step s op).1.bits = s.bits := by
  unfold step
  split
  · rfl
  · exact nonmutator_bits_core s op h

theorem lenRule_self (s : Stream) (r : Res) : lenRule s (s, r) := by
  unfold lenRule; simp

theorem lenRule_after (s : Stream) (nb : Bits) (r : Res) : lenRule s (afterLenChange s nb, r) := by
  unfold lenRule afterLenChange; simp

theorem lenRule_ite (s : Stream) (c : Prop) [Decidable c] (x y : Stream × Res) (hx : lenRule s x) (hy : lenRule s y) :
    lenRule s (if c then x else y) := by
  split <;> assumption

theorem lenRule_replaceWith (s : Stream) (old new : Bits) (a b c : Option Int) (al : Bool) :
    lenRule s (replaceWith s old new a b c al) := by
  unfold replaceWith
  apply lenRule_ite; · exact lenRule_self ..
  cases hv : validateSlice s.bits.length a b with
  | error e => exact lenRule_self ..
  | ok xy =>
    obtain ⟨x, y⟩ := xy
    simp only
    apply lenRule_ite; · exact lenRule_self ..
    apply lenRule_ite; · exact lenRule_self ..
    exact lenRule_after ..

theorem lenRule_del (s : Stream) (hm : s.mutable = true) :
    (∀ a b c, lenRule s (step s (.delSlice a b c))) ∧ (∀ i, lenRule s (step s (.delIdx i))) := by
  constructor
  · intro a b c
    rw [step_eq_core s _ (fun _ => hm)]; simp only [stepCore]
    apply lenRule_ite; · exact lenRule_self ..
    exact lenRule_after ..
  · intro i
    rw [step_eq_core s _ (fun _ => hm)]; simp only [stepCore]
    apply lenRule_ite; · exact lenRule_self ..
    exact lenRule_after ..

theorem lenRule_set (s : Stream) (hm : s.mutable = true) :
    (∀ a b v, lenRule s (step s (.setSlice a b v))) ∧ (∀ i v, lenRule s (step s (.setIdxBits i v)))
      ∧ (∀ i v, lenRule s (step s (.setIdxInt i v))) := by
  refine ⟨?_, ?_, ?_⟩
  · intro a b v
    rw [step_eq_core s _ (fun _ => hm)]; simp only [stepCore]
    exact lenRule_after ..
  · intro i v
    rw [step_eq_core s _ (fun _ => hm)]; simp only [stepCore]
    apply lenRule_ite; · exact lenRule_self ..
    exact lenRule_after ..
  · intro i v
    rw [step_eq_core s _ (fun _ => hm)]; simp only [stepCore]
    apply lenRule_ite; · exact lenRule_self ..
    apply lenRule_ite; · exact lenRule_self ..
    unfold lenRule; simp

theorem lenRule_replace (s : Stream) (hm : s.mutable = true) :
    (∀ o n a b c al, lenRule s (step s (.replace o n a b c al))) ∧ (∀ o a b c al, lenRule s (step s (.replaceSelf o a b c al))) := by
  constructor
  · intro o n a b c al
    rw [step_eq_core s _ (fun _ => hm)]; simp only [stepCore]
    exact lenRule_replaceWith ..
  · intro o a b c al
    rw [step_eq_core s _ (fun _ => hm)]; simp only [stepCore]
    exact lenRule_replaceWith ..

theorem readList_noopen (bits : Bits) (pos : Int) (ts : List Tok) (ho : ∀ t ∈ ts, t.isOpen = false) :
    readList bits pos ts = (match toDTs ts with
      | .error e => .error e
      | .ok ds => readItems bits 0 ds pos) := by
  unfold readList
  cases hd : toDTs ts with
  | error e => rfl
  | ok ds =>
    simp only
    rw [scan_known ds (toDTs_known ts ds ho hd)]

theorem readlist_step_iff (s : Stream) (ts : List Tok) (vs : List Val) (p : Int) :
    stepCore s (.readlist ts) = ({ s with pos := p }, .vals vs) ↔ readList s.bits s.pos ts = .ok (vs, p) := by
  simp only [stepCore]
  cases readList s.bits s.pos ts with
  | error e => simp
  | ok r =>
    obtain ⟨vs', np⟩ := r
    simp only [Prod.mk.injEq, Stream.mk.injEq, true_and, Res.vals.injEq, Except.ok.injEq]
    constructor
    · rintro ⟨h1, h2⟩; exact ⟨h2, h1⟩
    · rintro ⟨h1, h2⟩; exact ⟨h2, h1⟩

theorem readlist_eq_reads' (s : Stream) (ts : List Tok) (hi : Inv s)
    (ho : ∀ t ∈ ts, t.isOpen = false) (vs : List Val) (p : Int) :
    step s (.readlist ts) = ({ s with pos := p }, .vals vs) ↔ readSeq s ts = .ok (vs, p) := by
  rw [step_eq_core s _ (by intro h; cases h), readlist_step_iff, ← readSeq_iff ts s hi ho (vs, p),
    readList_noopen _ _ _ ho]
  cases hd : toDTs ts with
  | error e => simp
  | ok ds => simp

theorem toDTs_neg (ts : List Tok) (n : Int) (hn : n < 0) (hm : Tok.count n ∈ ts) : toDTs ts = .error .value := by
  induction ts with
  | nil => cases hm
  | cons t rest ih =>
    simp only [toDTs]
    cases hd : t.toDT with
    | error e =>
      simp only
      cases t with
      | count m =>
        simp only [Tok.toDT] at hd
        cases hmk : mkDtype .bits m with
        | ok r => rw [hmk] at hd; cases hd
        | error e' => rw [hmk] at hd; cases hd; rw [(mkDtype_err _ _ _ hmk).1]
      | fixed k m =>
        simp only [Tok.toDT] at hd
        cases hmk : mkDtype k m with
        | ok r => rw [hmk] at hd; cases hd
        | error e' => rw [hmk] at hd; cases hd; rw [(mkDtype_err _ _ _ hmk).1]
      | stretchy k =>
        cases k <;> simp only [Tok.toDT] at hd <;> (try (cases hd; done))
        all_goals
          cases hmk : mkDtype .bool 1 with
          | ok r => rw [hmk] at hd; cases hd
          | error e' => rw [hmk] at hd; cases hd; rw [(mkDtype_err _ _ _ hmk).1]
      | var v => simp only [Tok.toDT] at hd; cases hd
    | ok d =>
      simp only
      cases hm with
      | head =>
        simp only [Tok.toDT] at hd
        have : mkDtype .bits n = .error .value := by unfold mkDtype; simp [allowed, hn]
        rw [this] at hd; cases hd
      | tail _ hm' => rw [ih hm']

theorem readlist_neg (s : Stream) (ts : List Tok) (n : Int) (hn : n < 0) (hm : Tok.count n ∈ ts) :
    step s (.readlist ts) = (s, .err .value) := by
  rw [step_eq_core s _ (by intro h; cases h)]
  simp only [stepCore, readList, toDTs_neg ts n hn hm]

/-! ### lists with one stretchy token -/

theorem toDTs_append (a b : List Tok) :
    toDTs (a ++ b) = (match toDTs a with
      | .error e => .error e
      | .ok da => match toDTs b with
        | .error e => .error e
        | .ok db => .ok (da ++ db)) := by
  induction a with
  | nil =>
    simp only [List.nil_append, toDTs]
    cases toDTs b <;> rfl
  | cons t rest ih =>
    simp only [List.cons_append, toDTs, ih]
    cases t.toDT with
    | error e => rfl
    | ok d =>
      simp only
      cases toDTs rest with
      | error e => rfl
      | ok da =>
        simp only
        cases toDTs b <;> rfl

theorem readItems_append (bits : Bits) (after : Int) (d1 d2 : List DT) (pos : Int) :
    readItems bits after (d1 ++ d2) pos = (match readItems bits after d1 pos with
      | .error e => .error e
      | .ok (vs1, p1) => match readItems bits after d2 p1 with
        | .error e => .error e
        | .ok (vs2, p2) => .ok (vs1 ++ vs2, p2)) := by
  induction d1 generalizing pos with
  | nil =>
    simp only [List.nil_append, readItems]
    cases readItems bits after d2 pos with
    | error e => rfl
    | ok x => rfl
  | cons d rest ih =>
    simp only [List.cons_append, readItems]
    cases resolve d (max ((bits.length : Int) - pos - after) 0) with
    | error e => rfl
    | ok r =>
      simp only
      cases readRDT bits pos r with
      | error e => rfl
      | ok x =>
        obtain ⟨v, np⟩ := x
        simp only [ih]
        cases readItems bits after rest np with
        | error e => rfl
        | ok y =>
          obtain ⟨vs1, p1⟩ := y
          simp only
          cases readItems bits after d2 p1 with
          | error e => rfl
          | ok z =>
            obtain ⟨vs2, p2⟩ := z
            simp only
            split <;> rfl

/-- For dtypes whose length is known, the second loop does not look at `bits_after_stretchy_token`. -/
theorem readItems_known_after (bits : Bits) (after : Int) (ds : List DT) (pos : Int)
    (hk : ∀ d ∈ ds, ∃ r, d = DT.known r) : readItems bits after ds pos = readItems bits 0 ds pos := by
  induction ds generalizing pos with
  | nil => rfl
  | cons d rest ih =>
    obtain ⟨r, hr⟩ := hk d (List.mem_cons_self ..)
    subst hr
    simp only [readItems, resolve]
    cases readRDT bits pos r with
    | error e => rfl
    | ok x =>
      obtain ⟨v, np⟩ := x
      simp only
      rw [ih np (fun d hd => hk d (List.mem_cons_of_mem _ hd))]

/-- A dtype that may not follow a stretchy token: another stretchy one, or a variable-length one. -/
def DT.blocksAfterStretchy : DT → Bool
  | .stretchy _ => true
  | .known (.var _) => true
  | _ => false

/-- First loop: once a stretchy token has been seen, a second one or a variable-length one is `Error`. -/
theorem scan_has_err (ds : List DT) (a : Int) (h : ∃ d ∈ ds, d.blocksAfterStretchy = true) :
    scanStretchy ds true a = .error .bitstring := by
  induction ds generalizing a with
  | nil => obtain ⟨d, hd, _⟩ := h; cases hd
  | cons d rest ih =>
    cases d with
    | stretchy k => simp [scanStretchy]
    | known r =>
      cases r with
      | var v => simp [scanStretchy]
      | fixed k bl =>
        simp only [scanStretchy]
        apply ih
        obtain ⟨d, hd, hb⟩ := h
        cases hd with
        | head => simp [DT.blocksAfterStretchy] at hb
        | tail _ hm => exact ⟨d, hm, hb⟩

theorem scan_stretchy_then_block (d1 : List DT) (k : Kind) (rest : List DT) (has : Bool) (a : Int)
    (h : ∃ d ∈ rest, d.blocksAfterStretchy = true) :
    scanStretchy (d1 ++ .stretchy k :: rest) has a = .error .bitstring := by
  induction d1 generalizing has a with
  | nil =>
    simp only [List.nil_append, scanStretchy]
    cases has
    · simp only [Bool.false_eq_true, if_false]; exact scan_has_err rest a h
    · simp
  | cons d tl ih =>
    have hmem : ∃ d ∈ tl ++ DT.stretchy k :: rest, d.blocksAfterStretchy = true :=
      ⟨.stretchy k, by simp, rfl⟩
    cases d with
    | stretchy k' =>
      simp only [List.cons_append, scanStretchy]
      cases has
      · simp only [Bool.false_eq_true, if_false]; exact scan_has_err _ a hmem
      · simp
    | known r =>
      cases r with
      | var v =>
        simp only [List.cons_append, scanStretchy]
        cases has
        · simp only [Bool.false_eq_true, if_false]; exact ih false a
        · simp
      | fixed k' bl =>
        simp only [List.cons_append, scanStretchy]
        exact ih has _

/-- Sum of the bit lengths of a list of fixed-length dtypes. -/
def sumBl : List DT → Int
  | [] => 0
  | .known (.fixed _ bl) :: rest => bl + sumBl rest
  | _ :: rest => sumBl rest

def DT.isFixed : DT → Bool
  | .known (.fixed _ _) => true
  | _ => false

theorem scan_fixed_true (ds : List DT) (a : Int) (hf : ∀ d ∈ ds, d.isFixed = true) :
    scanStretchy ds true a = .ok (a + sumBl ds) := by
  induction ds generalizing a with
  | nil => simp [scanStretchy, sumBl]
  | cons d rest ih =>
    have hd := hf d (List.mem_cons_self ..)
    cases d with
    | stretchy k => simp [DT.isFixed] at hd
    | known r =>
      cases r with
      | var v => simp [DT.isFixed] at hd
      | fixed k bl =>
        simp only [scanStretchy, if_true, sumBl]
        rw [ih _ (fun d hd => hf d (List.mem_cons_of_mem _ hd))]
        congr 1; omega

theorem scan_known_prefix (d1 rest : List DT) (hk : ∀ d ∈ d1, ∃ r, d = DT.known r) :
    scanStretchy (d1 ++ rest) false 0 = scanStretchy rest false 0 := by
  induction d1 with
  | nil => rfl
  | cons d tl ih =>
    obtain ⟨r, hr⟩ := hk d (List.mem_cons_self ..)
    subst hr
    cases r with
    | var v => simp only [List.cons_append, scanStretchy, Bool.false_eq_true, if_false]; exact ih (fun d hd => hk d (List.mem_cons_of_mem _ hd))
    | fixed k bl => simp only [List.cons_append, scanStretchy, Bool.false_eq_true, if_false]; exact ih (fun d hd => hk d (List.mem_cons_of_mem _ hd))

/-- First loop on `known… , stretchy, fixed…`: `bits_after_stretchy_token` is the sum of the later bit lengths. -/
theorem scan_one_stretchy (d1 : List DT) (k : Kind) (d2 : List DT)
    (hk : ∀ d ∈ d1, ∃ r, d = DT.known r) (hf : ∀ d ∈ d2, d.isFixed = true) :
    scanStretchy (d1 ++ .stretchy k :: d2) false 0 = .ok (sumBl d2) := by
  rw [scan_known_prefix d1 _ hk]
  simp only [scanStretchy, Bool.false_eq_true, if_false]
  rw [scan_fixed_true d2 0 hf]; simp

theorem toDT_fixedLen (t : Tok) (d : DT) (hf : t.isFixedLen = true) (h : t.toDT = .ok d) :
    ∃ k bl, d = .known (.fixed k bl) ∧ t.need 0 = some bl := by
  cases t with
  | count n =>
    simp only [Tok.toDT] at h
    cases hm : mkDtype .bits n with
    | error e => rw [hm] at h; cases h
    | ok r =>
      rw [hm] at h; cases h
      obtain ⟨hr, _, _⟩ := mkDtype_ok .bits n r hm
      exact ⟨.bits, n * Kind.bits.mult, by rw [hr], by simp [Tok.need, Kind.mult]⟩
  | fixed k n =>
    simp only [Tok.toDT] at h
    cases hm : mkDtype k n with
    | error e => rw [hm] at h; cases h
    | ok r =>
      rw [hm] at h; cases h
      obtain ⟨hr, _, _⟩ := mkDtype_ok k n r hm
      exact ⟨k, n * k.mult, by rw [hr], by simp [Tok.need]⟩
  | stretchy k =>
    cases k <;> simp [Tok.isFixedLen] at hf
    simp only [Tok.toDT] at h
    cases hm : mkDtype .bool 1 with
    | error e => rw [hm] at h; cases h
    | ok r =>
      rw [hm] at h; cases h
      obtain ⟨hr, _, _⟩ := mkDtype_ok .bool 1 r hm
      exact ⟨.bool, 1 * Kind.bool.mult, by rw [hr], by simp [Tok.need, Kind.mult]⟩
  | var v => simp [Tok.isFixedLen] at hf

theorem toDTs_fixedLen (post : List Tok) (dpost : List DT) (hf : ∀ t ∈ post, t.isFixedLen = true)
    (h : toDTs post = .ok dpost) : (∀ d ∈ dpost, d.isFixed = true) ∧ sumBl dpost = afterBits post := by
  induction post generalizing dpost with
  | nil => simp only [toDTs] at h; cases h; exact ⟨fun d hd => (by cases hd), rfl⟩
  | cons t rest ih =>
    simp only [toDTs] at h
    cases hd : t.toDT with
    | error e => rw [hd] at h; cases h
    | ok d =>
      rw [hd] at h
      cases hds : toDTs rest with
      | error e => rw [hds] at h; cases h
      | ok ds' =>
        rw [hds] at h; cases h
        obtain ⟨k, bl, hk, hn⟩ := toDT_fixedLen t d (hf t (List.mem_cons_self ..)) hd
        obtain ⟨ih1, ih2⟩ := ih ds' (fun t ht => hf t (List.mem_cons_of_mem _ ht)) hds
        subst hk
        constructor
        · intro d' hd'
          cases hd' with
          | head => rfl
          | tail _ hm => exact ih1 d' hm
        · simp only [sumBl, afterBits, hn, ih2]

theorem fixedLen_not_open (t : Tok) (h : t.isFixedLen = true) : t.isOpen = false := by
  cases t with
  | stretchy k => cases k <;> simp_all [Tok.isFixedLen, Tok.isOpen]
  | _ => rfl

theorem toDT_open (k : Kind) (h : (Tok.stretchy k).isOpen = true) : (Tok.stretchy k).toDT = .ok (.stretchy k) := by
  cases k <;> simp_all [Tok.isOpen, Tok.toDT]

/-- The two loops of `_read_dtype_list` on `pre…, stretchy k, post…` written out. -/
theorem readList_one_stretchy (bits : Bits) (pos : Int) (pre post : List Tok) (k : Kind) (dpre dpost : List DT)
    (hpre : ∀ t ∈ pre, t.isOpen = false) (hk : (Tok.stretchy k).isOpen = true)
    (hpost : ∀ t ∈ post, t.isFixedLen = true)
    (h1 : toDTs pre = .ok dpre) (h2 : toDTs post = .ok dpost) :
    readList bits pos (pre ++ .stretchy k :: post) =
      (match readItems bits 0 dpre pos with
       | .error e => .error e
       | .ok (vs1, p1) =>
         match readItems bits (afterBits post) (.stretchy k :: dpost) p1 with
         | .error e => .error e
         | .ok (vs2, p2) => .ok (vs1 ++ vs2, p2)) := by
  have hkn := toDTs_known pre dpre hpre h1
  obtain ⟨hfx, hsum⟩ := toDTs_fixedLen post dpost hpost h2
  unfold readList
  rw [toDTs_append]
  simp only [h1, toDTs, toDT_open k hk, h2]
  rw [scan_one_stretchy dpre k dpost hkn hfx, hsum]
  simp only
  rw [readItems_append, readItems_known_after bits _ dpre pos hkn]
  all_goals
    cases readItems bits 0 dpre pos with
    | error e => rfl
    | ok x =>
      obtain ⟨vs1, p1⟩ := x
      simp only
      cases readItems bits (afterBits post) (DT.stretchy k :: dpost) p1 with
      | error e => rfl
      | ok y => rfl

theorem isFixed_known (ds : List DT) (hf : ∀ d ∈ ds, d.isFixed = true) : ∀ d ∈ ds, ∃ r, d = DT.known r := by
  intro d hd
  have := hf d hd
  cases d with
  | stretchy k => simp [DT.isFixed] at this
  | known r => exact ⟨r, rfl⟩

/-- The stretchy step of the second loop: with `avail` a whole number of items, the stretchy dtype reads exactly as
    the concrete dtype `k:(avail / bits_per_item)`. -/
theorem readItems_stretchy_head (bits : Bits) (A : Int) (k : Kind) (dpost : List DT) (p1 : Int) (r : RDT)
    (hf : ∀ d ∈ dpost, d.isFixed = true)
    (hdiv : (max ((bits.length : Int) - p1 - A) 0) % k.mult = 0)
    (hm : mkDtype k ((max ((bits.length : Int) - p1 - A) 0) / k.mult) = .ok r) :
    readItems bits A (.stretchy k :: dpost) p1 = readItems bits 0 (.known r :: dpost) p1 := by
  simp only [readItems, resolve, hdiv, ne_eq, not_true_eq_false, if_false, hm]
  cases readRDT bits p1 r with
  | error e => rfl
  | ok x =>
    obtain ⟨v, np⟩ := x
    simp only
    rw [readItems_known_after bits A dpost np (isFixed_known dpost hf)]

theorem readItems_stretchy_err (bits : Bits) (A : Int) (k : Kind) (dpost : List DT) (p1 : Int)
    (h : (max ((bits.length : Int) - p1 - A) 0) % k.mult ≠ 0 ∨
         ∃ e, mkDtype k ((max ((bits.length : Int) - p1 - A) 0) / k.mult) = .error e) :
    ∃ e, readItems bits A (.stretchy k :: dpost) p1 = .error e := by
  rcases h with h | ⟨e, h⟩
  · exact ⟨.value, by simp only [readItems, resolve, h, ne_eq, not_false_eq_true, if_true]⟩
  · by_cases hd : (max ((bits.length : Int) - p1 - A) 0) % k.mult ≠ 0
    · exact ⟨.value, by simp only [readItems, resolve, hd, ne_eq, not_false_eq_true, if_true]⟩
    · exact ⟨e, by simp only [readItems, resolve, hd, if_false, h]⟩

theorem readItems_stretchy_rem (bits : Bits) (A : Int) (k : Kind) (dpost : List DT) (p1 : Int)
    (h : (max ((bits.length : Int) - p1 - A) 0) % k.mult ≠ 0) :
    readItems bits A (.stretchy k :: dpost) p1 = .error .value := by
  simp only [readItems, resolve, h, ne_eq, not_false_eq_true, if_true]

/-- `readSeq` on a list without open tokens is the second loop on its dtypes (`readSeq_iff` with the dtypes named). -/
theorem readSeq_iff_ds (ts : List Tok) (ds : List DT) (s : Stream) (hi : Inv s)
    (ho : ∀ t ∈ ts, t.isOpen = false) (hd : toDTs ts = .ok ds) (res : List Val × Int) :
    readItems s.bits 0 ds s.pos = .ok res ↔ readSeq s ts = .ok res := by
  rw [← readSeq_iff ts s hi ho res]
  constructor
  · intro h; exact ⟨ds, hd, h⟩
  · rintro ⟨ds', hd', h⟩
    rw [hd] at hd'; cases hd'; exact h

theorem readSeq_ok_toDTs (ts : List Tok) (s : Stream) (hi : Inv s) (ho : ∀ t ∈ ts, t.isOpen = false)
    (res : List Val × Int) (h : readSeq s ts = .ok res) : ∃ ds, toDTs ts = .ok ds := by
  obtain ⟨ds, hd, _⟩ := (readSeq_iff ts s hi ho res).2 h
  exact ⟨ds, hd⟩

theorem toDTs_cons_fixed (k : Kind) (n : Nat) (post : List Tok) (dpost : List DT) (h2 : toDTs post = .ok dpost) :
    toDTs (.fixed k n :: post) = (match mkDtype k n with
      | .error e => .error e
      | .ok r => .ok (.known r :: dpost)) := by
  simp only [toDTs, Tok.toDT, h2]
  cases mkDtype k n with
  | error e => rfl
  | ok r => rfl

theorem readlist_stretchy_iff (s : Stream) (pre post : List Tok) (k : Kind) (hi : Inv s)
    (hpre : ∀ t ∈ pre, t.isOpen = false) (hk : (Tok.stretchy k).isOpen = true)
    (hpost : ∀ t ∈ post, t.isFixedLen = true) (vs : List Val) (p : Int) :
    readList s.bits s.pos (pre ++ .stretchy k :: post) = .ok (vs, p) ↔ readSeqStretchy s pre k post = .ok (vs, p) := by
  have hpost' : ∀ t ∈ post, t.isOpen = false := fun t ht => fixedLen_not_open t (hpost t ht)
  unfold readSeqStretchy
  cases h1 : toDTs pre with
  | error e =>
    have hL : readList s.bits s.pos (pre ++ .stretchy k :: post) = .error e := by
      unfold readList; rw [toDTs_append, h1]
    rw [hL]
    cases hq : readSeq s pre with
    | error e' => simp
    | ok y =>
      obtain ⟨ds, hd⟩ := readSeq_ok_toDTs pre s hi hpre y hq
      rw [h1] at hd; cases hd
  | ok dpre =>
    cases h2 : toDTs post with
    | error e =>
      have hL : readList s.bits s.pos (pre ++ .stretchy k :: post) = .error e := by
        unfold readList; rw [toDTs_append, h1]; simp only [toDTs, toDT_open k hk, h2]
      rw [hL]
      cases hq : readSeq s pre with
      | error e' => simp
      | ok y =>
        obtain ⟨vs1, p1⟩ := y
        simp only
        split
        · simp
        · have hb := (readSeq_iff_ds pre dpre s hi hpre h1 (vs1, p1)).2 hq
          have hwf := toDTs_wf pre dpre h1
          have hr := readItems_ok s.bits 0 dpre s.pos vs1 p1 hwf hi.1 hi.2 hb
          have hi1 : Inv { s with pos := p1 } := by have := hi.1; unfold Inv; simp only; omega
          cases hq2 : readSeq { s with pos := p1 }
              (.fixed k ((max (s.len - p1 - afterBits post) 0) / k.mult).toNat :: post) with
          | error e' => simp
          | ok z =>
            have hno : ∀ t ∈ (Tok.fixed k ((max (s.len - p1 - afterBits post) 0) / k.mult).toNat :: post),
                t.isOpen = false := by
              intro t ht
              cases ht with
              | head => rfl
              | tail _ hm => exact hpost' t hm
            obtain ⟨ds, hd⟩ := readSeq_ok_toDTs _ _ hi1 hno z hq2
            simp only [toDTs, h2] at hd
            cases hc : (Tok.fixed k ((max (s.len - p1 - afterBits post) 0) / k.mult).toNat).toDT with
            | error e'' => rw [hc] at hd; cases hd
            | ok d => rw [hc] at hd; cases hd
    | ok dpost =>
      obtain ⟨hfx, _⟩ := toDTs_fixedLen post dpost hpost h2
      rw [readList_one_stretchy s.bits s.pos pre post k dpre dpost hpre hk hpost h1 h2]
      cases hr : readItems s.bits 0 dpre s.pos with
      | error e =>
        cases hq : readSeq s pre with
        | error e' => simp
        | ok y =>
          have := (readSeq_iff_ds pre dpre s hi hpre h1 y).2 hq
          rw [hr] at this; cases this
      | ok x =>
        obtain ⟨vs1, p1⟩ := x
        have hq := (readSeq_iff_ds pre dpre s hi hpre h1 (vs1, p1)).1 hr
        rw [hq]
        simp only
        have hwf := toDTs_wf pre dpre h1
        have hb := readItems_ok s.bits 0 dpre s.pos vs1 p1 hwf hi.1 hi.2 hr
        have hi1 : Inv { s with pos := p1 } := by have := hi.1; unfold Inv; simp only; omega
        have hav : (0 : Int) ≤ max (s.len - p1 - afterBits post) 0 := by omega
        have hq0 : (0 : Int) ≤ (max (s.len - p1 - afterBits post) 0) / k.mult := by
          cases k <;> simp [Kind.mult] <;> omega
        have hcast : (((max (s.len - p1 - afterBits post) 0) / k.mult).toNat : Int)
            = (max (s.len - p1 - afterBits post) 0) / k.mult := by omega
        have hno : ∀ t ∈ (Tok.fixed k ((max (s.len - p1 - afterBits post) 0) / k.mult).toNat :: post),
            t.isOpen = false := by
          intro t ht
          cases ht with
          | head => rfl
          | tail _ hm => exact hpost' t hm
        by_cases hdiv : (max (s.len - p1 - afterBits post) 0) % k.mult ≠ 0
        · rw [if_pos hdiv]
          have := readItems_stretchy_rem s.bits (afterBits post) k dpost p1 (by unfold Stream.len at hdiv; exact hdiv)
          rw [this]
        · rw [if_neg hdiv]
          have hdiv' : (max (s.len - p1 - afterBits post) 0) % k.mult = 0 := by simpa using hdiv
          cases hm : mkDtype k ((max (s.len - p1 - afterBits post) 0) / k.mult) with
          | error e =>
            obtain ⟨e1, he1⟩ := readItems_stretchy_err s.bits (afterBits post) k dpost p1 (Or.inr ⟨e, hm⟩)
            rw [he1]
            cases hq2 : readSeq { s with pos := p1 }
                (.fixed k ((max (s.len - p1 - afterBits post) 0) / k.mult).toNat :: post) with
            | error e' => simp
            | ok z =>
              obtain ⟨ds, hd⟩ := readSeq_ok_toDTs _ _ hi1 hno z hq2
              rw [toDTs_cons_fixed k _ post dpost h2, hcast, hm] at hd
              cases hd
          | ok r =>
            rw [readItems_stretchy_head s.bits (afterBits post) k dpost p1 r hfx hdiv' hm]
            have hds : toDTs (.fixed k ((max (s.len - p1 - afterBits post) 0) / k.mult).toNat :: post)
                = .ok (.known r :: dpost) := by
              rw [toDTs_cons_fixed k _ post dpost h2, hcast, hm]
            cases hr2 : readItems s.bits 0 (.known r :: dpost) p1 with
            | error e =>
              cases hq2 : readSeq { s with pos := p1 }
                  (.fixed k ((max (s.len - p1 - afterBits post) 0) / k.mult).toNat :: post) with
              | error e' => simp
              | ok z =>
                have := (readSeq_iff_ds _ _ { s with pos := p1 } hi1 hno hds z).2 hq2
                simp only at this
                rw [hr2] at this; cases this
            | ok y =>
              have := (readSeq_iff_ds _ _ { s with pos := p1 } hi1 hno hds y).1 hr2
              rw [this]

theorem toDTs_split (a : List Tok) (t : Tok) (b : List Tok) (ds : List DT) (h : toDTs (a ++ t :: b) = .ok ds) :
    ∃ da d db, toDTs a = .ok da ∧ t.toDT = .ok d ∧ toDTs b = .ok db ∧ ds = da ++ d :: db := by
  rw [toDTs_append] at h
  cases ha : toDTs a with
  | error e => rw [ha] at h; cases h
  | ok da =>
    rw [ha] at h
    simp only [toDTs] at h
    cases ht : t.toDT with
    | error e => rw [ht] at h; cases h
    | ok d =>
      rw [ht] at h
      cases hb : toDTs b with
      | error e => rw [hb] at h; cases h
      | ok db =>
        rw [hb] at h
        simp only [Except.ok.injEq] at h
        exact ⟨da, d, db, rfl, rfl, rfl, h.symm⟩

theorem readList_block_after_stretchy (bits : Bits) (pos : Int) (a : List Tok) (k : Kind) (b : List Tok) (t : Tok)
    (c : List Tok) (hk : (Tok.stretchy k).isOpen = true) (ht : t.isOpen = true ∨ t.isVar = true)
    (hc : ∃ ds, toDTs (a ++ .stretchy k :: (b ++ t :: c)) = .ok ds) :
    readList bits pos (a ++ .stretchy k :: (b ++ t :: c)) = .error .bitstring := by
  obtain ⟨ds, hds⟩ := hc
  obtain ⟨da, d1, drest, _, hd1, hrest, hsplit⟩ := toDTs_split a _ _ ds hds
  obtain ⟨db, d2, dc, _, hd2, _, hsplit2⟩ := toDTs_split b t c drest hrest
  rw [toDT_open k hk] at hd1; cases hd1
  have hblock : d2.blocksAfterStretchy = true := by
    cases t with
    | count n => simp [Tok.isOpen, Tok.isVar] at ht
    | fixed k' n => simp [Tok.isOpen, Tok.isVar] at ht
    | var v => simp only [Tok.toDT] at hd2; cases hd2; rfl
    | stretchy k' =>
      rcases ht with ht | ht
      · rw [toDT_open k' ht] at hd2; cases hd2; rfl
      · simp [Tok.isVar] at ht
  unfold readList
  rw [hds, hsplit]
  simp only
  rw [scan_stretchy_then_block da k drest false 0 ⟨d2, by rw [hsplit2]; simp, hblock⟩]

theorem need_fixedLen (t : Tok) (hf : t.isFixedLen = true) (rem : Int) :
    ∃ n, t.need rem = some n ∧ t.need 0 = some n := by
  cases t with
  | count n => exact ⟨n, rfl, rfl⟩
  | fixed k n => exact ⟨_, rfl, rfl⟩
  | var v => simp [Tok.isFixedLen] at hf
  | stretchy k =>
    cases k <;> first | exact ⟨1, rfl, rfl⟩ | (simp [Tok.isFixedLen] at hf)

/-- Successive reads of fixed-length tokens advance by exactly the bits they ask for. -/
theorem readSeq_fixed_advance (post : List Tok) (s : Stream) (hi : Inv s) (hf : ∀ t ∈ post, t.isFixedLen = true)
    (vs : List Val) (p : Int) (h : readSeq s post = .ok (vs, p)) : p = s.pos + afterBits post ∧ p ≤ s.len := by
  induction post generalizing s vs p with
  | nil => simp only [readSeq] at h; cases h; simp [afterBits]; exact hi.2
  | cons t rest ih =>
    simp only [readSeq] at h
    cases hr : readTok s t with
    | error e => rw [hr] at h; cases h
    | ok x =>
      obtain ⟨v, np⟩ := x
      rw [hr] at h
      simp only at h
      cases hq : readSeq { s with pos := np } rest with
      | error e => rw [hq] at h; cases h
      | ok y =>
        obtain ⟨vs', fp⟩ := y
        rw [hq] at h
        simp only [Except.ok.injEq, Prod.mk.injEq] at h
        obtain ⟨k, hk1, hk2, _, hk4⟩ := readTok_ok s t v np hi hr
        have hi2 : Inv { s with pos := np } := by
          have := hi.1; unfold Inv Stream.len at *; simp only; omega
        obtain ⟨ih1, ih2⟩ := ih { s with pos := np } hi2 (fun t ht => hf t (List.mem_cons_of_mem _ ht)) vs' fp hq
        obtain ⟨n, hn, hn0⟩ := need_fixedLen t (hf t (List.mem_cons_self ..)) (s.len - s.pos)
        have hnk := hk4 n hn
        simp only [afterBits, hn0]
        simp only at ih1 ih2
        unfold Stream.len at *
        constructor
        · rw [← h.2, ih1]; omega
        · rw [← h.2]; exact ih2

theorem readSeq_bounds (ts : List Tok) (s : Stream) (hi : Inv s) (ho : ∀ t ∈ ts, t.isOpen = false)
    (vs : List Val) (p : Int) (h : readSeq s ts = .ok (vs, p)) : s.pos ≤ p ∧ p ≤ s.len := by
  obtain ⟨ds, hd, hr⟩ := (readSeq_iff ts s hi ho (vs, p)).2 h
  exact readItems_ok s.bits 0 ds s.pos vs p (toDTs_wf ts ds hd) hi.1 hi.2 hr

theorem readSeqStretchy_consumes_all (s : Stream) (pre post : List Tok) (k : Kind) (hi : Inv s)
    (hpre : ∀ t ∈ pre, t.isOpen = false) (hpost : ∀ t ∈ post, t.isFixedLen = true)
    (vs : List Val) (p : Int) (h : readSeqStretchy s pre k post = .ok (vs, p)) : p = s.len := by
  unfold readSeqStretchy at h
  cases hq : readSeq s pre with
  | error e => rw [hq] at h; cases h
  | ok x =>
    obtain ⟨vs1, p1⟩ := x
    rw [hq] at h
    simp only at h
    obtain ⟨hb1, hb2⟩ := readSeq_bounds pre s hi hpre vs1 p1 hq
    have hi1 : Inv { s with pos := p1 } := by have := hi.1; unfold Inv Stream.len at *; simp only; omega
    by_cases hdiv : (max (s.len - p1 - afterBits post) 0) % k.mult ≠ 0
    · rw [if_pos hdiv] at h; cases h
    · rw [if_neg hdiv] at h
      cases hq2 : readSeq { s with pos := p1 }
          (.fixed k ((max (s.len - p1 - afterBits post) 0) / k.mult).toNat :: post) with
      | error e => rw [hq2] at h; cases h
      | ok y =>
        obtain ⟨vs2, p2⟩ := y
        rw [hq2] at h
        simp only [Except.ok.injEq, Prod.mk.injEq] at h
        have hfl : ∀ t ∈ (Tok.fixed k ((max (s.len - p1 - afterBits post) 0) / k.mult).toNat :: post),
            t.isFixedLen = true := by
          intro t ht
          cases ht with
          | head => rfl
          | tail _ hm => exact hpost t hm
        obtain ⟨ha, hle⟩ := readSeq_fixed_advance _ _ hi1 hfl vs2 p2 hq2
        simp only [afterBits, Tok.need] at ha
        have hdiv' : (max (s.len - p1 - afterBits post) 0) % k.mult = 0 := by simpa using hdiv
        have hmul : (((max (s.len - p1 - afterBits post) 0) / k.mult).toNat : Int) * k.mult
            = max (s.len - p1 - afterBits post) 0 := by
          revert hdiv'
          cases k <;> simp [Kind.mult] <;> omega
        rw [hmul] at ha
        have hle' : p2 ≤ (s.bits.length : Int) := hle
        have ha' : p2 = p1 + (max (s.len - p1 - afterBits post) 0 + afterBits post) := ha
        rw [← h.2]
        unfold Stream.len at *
        omega

theorem readlist_stretchy_rem (s : Stream) (pre post : List Tok) (k : Kind) (hi : Inv s)
    (hpre : ∀ t ∈ pre, t.isOpen = false) (hk : (Tok.stretchy k).isOpen = true)
    (hpost : ∀ t ∈ post, t.isFixedLen = true) (vs1 : List Val) (p1 : Int)
    (h : readSeq s pre = .ok (vs1, p1)) (hc : ∃ dpost, toDTs post = .ok dpost)
    (hrem : (max (s.len - p1 - afterBits post) 0) % k.mult ≠ 0) :
    readList s.bits s.pos (pre ++ .stretchy k :: post) = .error .value := by
  obtain ⟨dpre, h1⟩ := readSeq_ok_toDTs pre s hi hpre _ h
  obtain ⟨dpost, h2⟩ := hc
  rw [readList_one_stretchy s.bits s.pos pre post k dpre dpost hpre hk hpost h1 h2]
  rw [(readSeq_iff_ds pre dpre s hi hpre h1 (vs1, p1)).2 h]
  simp only
  rw [readItems_stretchy_rem s.bits (afterBits post) k dpost p1 (by unfold Stream.len at hrem; exact hrem)]

end BM.C06
