/-
  Proofs/C06.lean — helper lemmas for the stream-position property.
-/
import BitstringModel.Model.C06
import BitstringModel.Proofs.Basic
import BitstringModel.Proofs.C10
import BitstringModel.Proofs.C10I
import BitstringModel.Props.C10
import BitstringModel.Props.C10_Interleaved
namespace BM.C06
open BM

theorem pySlice_eq {α} (l : List α) (a b : Int) (ha : 0 ≤ a) (hab : a ≤ b) (hb : b ≤ l.length) :
    pySlice l a b = (l.drop a.toNat).take (b - a).toNat := by
  unfold pySlice Py.sliceIndices
  simp only []
  have h1 : ¬ a < 0 := by omega
  have h2 : ¬ b < 0 := by omega
  simp [h1, h2]
  have : min a (l.length : Int) = a := by omega
  have h3 : min b (l.length : Int) = b := by omega
  rw [this, h3]

theorem pyFrom_eq {α} (l : List α) (a : Int) (ha : 0 ≤ a) (hb : a ≤ l.length) :
    pyFrom l a = l.drop a.toNat := by
  unfold pyFrom Py.sliceIndices
  have h1 : ¬ a < 0 := by omega
  simp [h1]
  omega

theorem chunks8_flatten (k : Nat) (l : Bits) : (chunks8 k l).flatten = l.take (8 * k) := by
  induction k generalizing l with
  | zero => simp [chunks8]
  | succ k ih =>
    simp only [chunks8, List.flatten_cons, ih]
    rw [show 8 * (k + 1) = 8 + 8 * k by omega, List.take_add]

theorem reverseBytes_length (k : Nat) (l : Bits) (h : 8 * k ≤ l.length) : (reverseBytes k l).length = l.length := by
  unfold reverseBytes
  have : ((chunks8 k l).reverse.flatten).length = ((chunks8 k l).flatten).length := by
    simp [List.length_flatten, List.map_reverse, List.sum_reverse]
  rw [List.length_append, this, chunks8_flatten]
  simp; omega

theorem validateSlice_ok (n : Nat) (a b : Option Int) (s e : Nat) (h : validateSlice n a b = .ok (s, e)) :
    s ≤ e ∧ e ≤ n := by
  unfold validateSlice at h
  cases a <;> cases b <;> dsimp only at h <;> (repeat' split at h) <;>
    first
    | (cases h; done)
    | (simp only [Except.ok.injEq, Prod.mk.injEq] at h; omega)

theorem applyMut_length (l : Bits) (m : Mut) (nb : Bits) (r : Option Int) (h : applyMut l m = .ok (nb, r)) :
    nb.length = l.length := by
  cases m <;> dsimp only [applyMut] at h <;> (repeat' split at h) <;> (try (cases h; done))
  case h_2 s e heq =>
    have := validateSlice_ok _ _ _ _ _ heq
    cases h
    simp; omega
  all_goals (try cases h)
  all_goals (try (simp [rotLeft]; done))
  all_goals (try (simp [rotLeft]; omega))
  all_goals exact reverseBytes_length _ _ (by omega)

/-! ### occurrences -/

theorem mem_occ (data pat : Bits) (a b : Nat) (al : Bool) (p : Nat) :
    p ∈ occ data pat a b al ↔
      a ≤ p ∧ p + pat.length ≤ b ∧ p + pat.length ≤ data.length ∧ (al = true → p % 8 = 0)
        ∧ (data.drop p).take pat.length = pat := by
  unfold occ
  simp only [List.mem_filter, List.mem_range, Bool.and_eq_true, decide_eq_true_eq, Bool.or_eq_true,
    Bool.not_eq_true', beq_iff_eq]
  constructor
  · rintro ⟨_, ⟨⟨⟨h1, h2⟩, h3⟩, h4⟩, h5⟩
    refine ⟨h1, h2, h3, ?_, h5⟩
    intro hal; cases h4 with
    | inl h => rw [hal] at h; cases h
    | inr h => exact h
  · rintro ⟨h1, h2, h3, h4, h5⟩
    refine ⟨by omega, ⟨⟨⟨h1, h2⟩, h3⟩, ?_⟩, h5⟩
    cases al
    · left; rfl
    · right; exact h4 rfl

/-! ### the self-delimiting codes: reader = whole-value interpretation of exactly the consumed bits -/

theorem readUE_zero_iff (sub : Bits) (n l : Nat) (h : C10.readUE sub 0 = .ok (n, l)) :
    ∃ rest, sub = C10.ueEncodeNat n ++ rest ∧ l = (C10.ueEncodeNat n).length := by
  obtain ⟨k, tail, post, hd, hlen, hv, hp⟩ := C10.readUE_ok_struct sub 0 n l h
  rw [List.drop_zero] at hd
  refine ⟨post, ?_, ?_⟩
  · rw [hv, C10.ueEncodeNat_of_struct k tail hlen, hd]
  · rw [hv, C10.ueEncodeNat_of_struct k tail hlen]; simp; omega

theorem readSE_zero_iff (sub : Bits) (i : Int) (l : Nat) (h : C10.readSE sub 0 = .ok (i, l)) :
    ∃ rest, sub = C10.seEncode i ++ rest ∧ l = (C10.seEncode i).length := by
  rw [C10.readSE_eq] at h
  split at h
  · cases h
  · rename_i c q hq
    cases h
    obtain ⟨rest, h1, h2⟩ := readUE_zero_iff sub c l hq
    refine ⟨rest, ?_, ?_⟩ <;> (unfold C10.seEncode; rw [C10.seMap_seDecode]; assumption)


/-! ### single dtype reads -/

theorem decode_bool_ok (b : Bits) (v : Val) (h : decode .bool b = .ok v) : b.length = 1 := by
  unfold decode at h
  match b, h with
  | [x], _ => rfl

theorem readVar_ok (bits : Bits) (pos : Int) (vk : VKind) (v : Val) (np : Int)
    (h0 : 0 ≤ pos) (h1 : pos ≤ bits.length) (h : readVar bits pos vk = .ok (v, np)) :
    ∃ k : Nat, 0 < k ∧ np = pos + k ∧ pos + k ≤ bits.length
      ∧ specDecode (.var vk) ((bits.drop pos.toNat).take k) = .ok v := by
  unfold readVar at h
  rw [pyFrom_eq bits pos h0 h1] at h
  cases vk <;> simp only at h <;> split at h <;> (try (cases h; done))
  · rename_i n l hr
    cases h
    obtain ⟨rest, hs, hl⟩ := readUE_zero_iff _ n l hr
    have hlen := congrArg List.length hs
    simp only [List.length_drop, List.length_append] at hlen
    have hpos : 0 < (C10.ueEncodeNat n).length := by rw [C10.ue_length]; omega
    refine ⟨l, by omega, rfl, by omega, ?_⟩
    rw [hs, hl, List.take_left']; · simp only [specDecode]; rw [(C10.getUE_exact _ n).2 rfl]
    rfl
  · rename_i n l hr
    cases h
    obtain ⟨rest, hs, hl⟩ := readSE_zero_iff _ n l hr
    have hlen := congrArg List.length hs
    simp only [List.length_drop, List.length_append] at hlen
    have hpos : 0 < (C10.seEncode n).length := by unfold C10.seEncode; rw [C10.ue_length]; omega
    refine ⟨l, by omega, rfl, by omega, ?_⟩
    rw [hs, hl, List.take_left']; · simp only [specDecode]; rw [(C10.getSE_exact _ n).2 rfl]
    rfl
  · rename_i n l hr
    cases h
    obtain ⟨rest, hs, hl⟩ := (C10.readUIE_ok_iff _ 0 n l).1 hr
    rw [List.drop_zero] at hs
    have hlen := congrArg List.length hs
    simp only [List.length_drop, List.length_append] at hlen
    have hpos : 0 < (C10.uieEncodeNat n).length := by rw [C10.uie_length]; omega
    refine ⟨l, by omega, rfl, by omega, ?_⟩
    rw [hs, hl, Nat.zero_add, List.take_left']; · simp only [specDecode]; rw [(C10.getUIE_exact _ n).2 rfl]
    rfl
  · rename_i n l hr
    cases h
    obtain ⟨rest, hs, hl⟩ := (C10.readSIE_ok_iff _ 0 n l).1 hr
    rw [List.drop_zero] at hs
    have hlen := congrArg List.length hs
    simp only [List.length_drop, List.length_append] at hlen
    have hpos : 0 < (C10.sieEncode n).length := C10.sie_length_pos n
    refine ⟨l, by omega, rfl, by omega, ?_⟩
    rw [hs, hl, Nat.zero_add, List.take_left']; · simp only [specDecode]; rw [(C10.getSIE_exact _ n).2 rfl]
    rfl

theorem readVar_err (bits : Bits) (pos : Int) (vk : VKind) (e : Err) (h : readVar bits pos vk = .error e) : e = .read := by
  unfold readVar at h
  cases vk <;> simp only at h <;> split at h <;> cases h <;> rfl


def clampI (x n : Int) : Int := if x < 0 then max (x + n) 0 else min x n

theorem pySlice_def {α} (l : List α) (a b : Int) :
    pySlice l a b = (l.drop (clampI a l.length).toNat).take (clampI b l.length - clampI a l.length).toNat := by
  unfold pySlice Py.sliceIndices clampI
  simp

theorem pySlice_eq' {α} (l : List α) (a b : Int) (ha : 0 ≤ a) (hal : a ≤ l.length) (hab : a ≤ b) :
    pySlice l a b = (l.drop a.toNat).take (b - a).toNat := by
  rw [pySlice_def]
  have h1 : clampI a l.length = a := by unfold clampI; rw [if_neg (by omega)]; omega
  rw [h1]
  by_cases hb : b ≤ l.length
  · have h2 : clampI b l.length = b := by unfold clampI; rw [if_neg (by omega)]; omega
    rw [h2]
  · have h2 : clampI b l.length = l.length := by unfold clampI; rw [if_neg (by omega)]; omega
    rw [h2]
    rw [List.take_of_length_le (by simp; omega), List.take_of_length_le (by simp; omega)]

/-- Well-formed concrete dtype: non-negative bit length; `bool` has length 1. -/
def RDT.wf : RDT → Prop
  | .fixed k bl => 0 ≤ bl ∧ (k = .bool → bl = 1)
  | .var _ => True

def DT.wf : DT → Prop
  | .known r => r.wf
  | .stretchy k => k ≠ .bool

/-- What a concrete dtype means on exactly the bits it consumed. -/
def rdtDecode : RDT → Bits → Except Err Val
  | .fixed k _, b => decode k b
  | .var vk, b => specDecode (.var vk) b

theorem readFixed_ok (bits : Bits) (pos : Int) (k : Kind) (bl : Int) (v : Val)
    (h0 : 0 ≤ pos) (h1 : pos ≤ bits.length) (hbl : 0 ≤ bl) (hk : k = .bool → bl = 1)
    (h : readFixed bits pos k bl = .ok v) :
    pos + bl ≤ bits.length ∧ decode k ((bits.drop pos.toNat).take bl.toNat) = .ok v := by
  unfold readFixed at h
  split at h
  · rename_i hb
    have hbl1 := hk hb
    subst hb
    rw [pySlice_eq' bits pos (pos + 1) h0 h1 (by omega)] at h
    have hlen := decode_bool_ok _ _ h
    simp only [List.length_take, List.length_drop] at hlen
    refine ⟨by omega, ?_⟩
    rw [hbl1]
    rw [show (pos + 1 - pos).toNat = (1 : Int).toNat by omega] at h
    exact h
  · split at h
    · cases h
    · rename_i hlt
      refine ⟨by omega, ?_⟩
      rw [pySlice_eq' bits pos (pos + bl) h0 h1 (by omega)] at h
      rw [show (pos + bl - pos).toNat = bl.toNat by omega] at h
      exact h

theorem readRDT_ok (bits : Bits) (pos : Int) (r : RDT) (v : Val) (np : Int)
    (h0 : 0 ≤ pos) (h1 : pos ≤ bits.length) (hw : r.wf) (h : readRDT bits pos r = .ok (v, np)) :
    ∃ k : Nat, np = pos + k ∧ pos + k ≤ bits.length
      ∧ rdtDecode r ((bits.drop pos.toNat).take k) = .ok v
      ∧ (∀ kk bl, r = .fixed kk bl → bl = k) := by
  cases r with
  | fixed k bl =>
    simp only [readRDT] at h
    split at h
    · rename_i v' hv
      cases h
      obtain ⟨hw1, hw2⟩ := hw
      obtain ⟨hle, hd⟩ := readFixed_ok bits pos k bl v h0 h1 hw1 hw2 hv
      refine ⟨bl.toNat, by omega, by omega, hd, ?_⟩
      intro kk bl' heq; cases heq; omega
    · cases h
  | var vk =>
    simp only [readRDT] at h
    obtain ⟨k, _, hk1, hk2, hk3⟩ := readVar_ok bits pos vk v np h0 h1 h
    exact ⟨k, hk1, hk2, hk3, by intro kk bl heq; cases heq⟩

theorem mkDtype_ok (k : Kind) (n : Int) (r : RDT) (hn : 0 ≤ n) (h : mkDtype k n = .ok r) :
    r = .fixed k (n * k.mult) ∧ r.wf := by
  unfold mkDtype at h
  split at h
  · rename_i ha
    cases h
    refine ⟨rfl, ?_, ?_⟩
    · cases k <;> simp [Kind.mult] <;> omega
    · intro hb; subst hb
      simp [allowed] at ha
      simp [Kind.mult, ha]
  · cases h

theorem resolve_wf (d : DT) (avail : Int) (r : RDT) (hd : d.wf) (ha : 0 ≤ avail) (h : resolve d avail = .ok r) :
    r.wf := by
  cases d with
  | known r' => simp only [resolve] at h; cases h; exact hd
  | stretchy k =>
    simp only [resolve] at h
    split at h
    · cases h
    · have : 0 ≤ avail / k.mult := by
        cases k <;> simp [Kind.mult] <;> omega
      exact (mkDtype_ok k _ r this h).2

theorem toDT_wf (t : Tok) (d : DT) (hneg : ∀ n, t = .count n → 0 ≤ n) (h : t.toDT = .ok d) : d.wf := by
  cases t with
  | count n => simp only [Tok.toDT] at h; cases h; exact ⟨hneg n rfl, by intro hh; cases hh⟩
  | fixed k n =>
    simp only [Tok.toDT] at h
    cases hm : mkDtype k n with
    | error e => rw [hm] at h; cases h
    | ok r => rw [hm] at h; cases h; exact (mkDtype_ok k n r (by omega) hm).2
  | stretchy k =>
    cases k <;> simp only [Tok.toDT] at h <;> (try (cases h; simp [DT.wf]; done))
    cases hm : mkDtype .bool 1 with
    | error e => rw [hm] at h; cases h
    | ok r => rw [hm] at h; cases h; exact (mkDtype_ok .bool 1 r (by omega) hm).2
  | var v => simp only [Tok.toDT] at h; cases h; trivial

/-- The main fact about a single read. -/
theorem readTok_ok (s : Stream) (t : Tok) (v : Val) (np : Int) (hi : Inv s) (h : readTok s t = .ok (v, np)) :
    ∃ k : Nat, np = s.pos + k ∧ s.pos + k ≤ s.len
      ∧ specDecode t ((s.bits.drop s.pos.toNat).take k) = .ok v
      ∧ (∀ n, t.need (s.len - s.pos) = some n → n = k) := by
  obtain ⟨h0, h1⟩ := hi
  cases t with
  | count n =>
    simp only [readTok] at h
    split at h; · cases h
    split at h; · cases h
    rename_i hn hr
    cases h
    unfold Stream.len at *
    refine ⟨n.toNat, by omega, by omega, ?_, ?_⟩
    · simp only [specDecode]
      rw [pySlice_eq' s.bits s.pos (s.pos + n) h0 h1 (by omega)]
      rw [show (s.pos + n - s.pos).toNat = n.toNat by omega]
    · intro m hm; simp only [Tok.need] at hm; cases hm; omega
  | fixed k n =>
    simp only [readTok, Tok.toDT] at h
    cases hm : mkDtype k n with
    | error e => rw [hm] at h; cases h
    | ok r =>
      rw [hm] at h
      simp only [Except.map, resolve] at h
      obtain ⟨hr, hw⟩ := mkDtype_ok k n r (by omega) hm
      split at h; · cases h
      rename_i v' np' hrd
      split at h; · cases h
      cases h
      obtain ⟨kk, hk1, hk2, hk3, hk4⟩ := readRDT_ok s.bits s.pos r v np h0 h1 hw hrd
      refine ⟨kk, hk1, hk2, ?_, ?_⟩
      · subst hr; exact hk3
      · intro m hm'; simp only [Tok.need] at hm'; cases hm'; exact hk4 k _ hr
  | stretchy k =>
    by_cases hb : k = .bool
    · subst hb
      simp only [readTok, Tok.toDT] at h
      cases hm : mkDtype .bool 1 with
      | error e => rw [hm] at h; cases h
      | ok r =>
        rw [hm] at h
        simp only [Except.map, resolve] at h
        obtain ⟨hr, hw⟩ := mkDtype_ok .bool 1 r (by omega) hm
        split at h; · cases h
        rename_i v' np' hrd
        split at h; · cases h
        cases h
        obtain ⟨kk, hk1, hk2, hk3, hk4⟩ := readRDT_ok s.bits s.pos r v np h0 h1 hw hrd
        refine ⟨kk, hk1, hk2, ?_, ?_⟩
        · subst hr; exact hk3
        · intro m hm'; simp only [Tok.need] at hm'; cases hm'
          have := hk4 .bool _ hr; simp [Kind.mult] at this; omega
    · have hd : (Tok.stretchy k).toDT = .ok (.stretchy k) := by cases k <;> simp_all [Tok.toDT]
      simp only [readTok, hd, resolve] at h
      split at h; · cases h
      rename_i r hres
      split at hres; · cases hres
      rename_i hmod
      have hmod' : (s.len - s.pos) % k.mult = 0 := by simpa using hmod
      have hq : 0 ≤ (s.len - s.pos) / k.mult := by
        unfold Stream.len; cases k <;> simp [Kind.mult] <;> omega
      obtain ⟨hr, hw⟩ := mkDtype_ok k _ r hq hres
      split at h; · cases h
      rename_i v' np' hrd
      split at h; · cases h
      cases h
      obtain ⟨kk, hk1, hk2, hk3, hk4⟩ := readRDT_ok s.bits s.pos r v np h0 h1 hw hrd
      refine ⟨kk, hk1, hk2, ?_, ?_⟩
      · subst hr; exact hk3
      · intro m hm'
        have hbl := hk4 k _ hr
        have : Tok.need (.stretchy k) (s.len - s.pos) = some (s.len - s.pos) := by cases k <;> simp_all [Tok.need]
        rw [this] at hm'; cases hm'
        rw [← hbl]
        revert hmod'; cases k <;> simp [Kind.mult] <;> omega
  | var vk =>
    simp only [readTok, Tok.toDT, resolve] at h
    split at h; · cases h
    rename_i v' np' hrd
    split at h; · cases h
    cases h
    obtain ⟨kk, hk1, hk2, hk3, _⟩ := readRDT_ok s.bits s.pos (.var vk) v np h0 h1 trivial hrd
    exact ⟨kk, hk1, hk2, hk3, by intro m hm; simp [Tok.need] at hm⟩


theorem readTok_var_err (s : Stream) (vk : VKind) (e : Err) (h : readTok s (.var vk) = .error e) : e = .read := by
  simp only [readTok, Tok.toDT, resolve, readRDT] at h
  split at h
  · rename_i e' he; cases h; exact readVar_err _ _ _ _ he
  · split at h
    · cases h; rfl
    · cases h

theorem readTok_count_short (s : Stream) (n : Int) (hn : 0 ≤ n) (hs : n > s.len - s.pos) :
    readTok s (.count n) = .error .read := by
  simp only [readTok]
  rw [if_neg (by omega), if_pos hs]

theorem readTok_fixed_short (s : Stream) (k : Kind) (n : Nat) (hk : k ≠ .bool) (ha : allowed k n = true)
    (hs : (n : Int) * k.mult > s.len - s.pos) :
    readTok s (.fixed k n) = .error .read := by
  simp only [readTok, Tok.toDT, mkDtype, ha, if_true, Except.map, resolve, readRDT, readFixed, if_neg hk]
  unfold Stream.len at hs
  rw [if_pos (by omega)]

/-! ### readlist -/

theorem readItems_ok (bits : Bits) (after : Int) (ds : List DT) (pos : Int) (vs : List Val) (fp : Int)
    (hw : ∀ d ∈ ds, d.wf) (h0 : 0 ≤ pos) (h1 : pos ≤ bits.length)
    (h : readItems bits after ds pos = .ok (vs, fp)) : pos ≤ fp ∧ fp ≤ bits.length := by
  induction ds generalizing pos vs with
  | nil => simp only [readItems] at h; cases h; omega
  | cons d rest ih =>
    simp only [readItems] at h
    split at h; · cases h
    rename_i r hres
    split at h; · cases h
    rename_i v np hrd
    split at h; · cases h
    rename_i vs' fp' hrest
    cases h
    have hrw := resolve_wf d _ r (hw d (List.mem_cons_self ..)) (by omega) hres
    obtain ⟨k, hk1, hk2, _, _⟩ := readRDT_ok bits pos r v np h0 h1 hrw hrd
    have := ih np vs' (fun d hd => hw d (List.mem_cons_of_mem _ hd)) (by omega) (by omega) hrest
    omega

theorem toDTs_wf (ts : List Tok) (ds : List DT) (hneg : negCountList ts = false) (h : toDTs ts = .ok ds) :
    ∀ d ∈ ds, d.wf := by
  induction ts generalizing ds with
  | nil => simp only [toDTs] at h; cases h; intro d hd; cases hd
  | cons t rest ih =>
    simp only [toDTs] at h
    split at h; · cases h
    rename_i d hd
    split at h; · cases h
    rename_i ds' hds
    cases h
    simp only [negCountList, List.any_cons, Bool.or_eq_false_iff] at hneg
    intro d' hd'
    cases hd' with
    | head => 
      apply toDT_wf t _ _ hd
      intro n hn; subst hn; simpa using hneg.1
    | tail _ hm => exact ih ds' (by simpa [negCountList] using hneg.2) hds d' hm

theorem readList_ok (bits : Bits) (pos : Int) (ts : List Tok) (vs : List Val) (fp : Int)
    (hneg : negCountList ts = false) (h0 : 0 ≤ pos) (h1 : pos ≤ bits.length)
    (h : readList bits pos ts = .ok (vs, fp)) : pos ≤ fp ∧ fp ≤ bits.length := by
  unfold readList at h
  split at h; · cases h
  rename_i ds hds
  split at h; · cases h
  rename_i after hafter
  exact readItems_ok bits after ds pos vs fp (toDTs_wf ts ds hneg hds) h0 h1 h

end BM.C06
