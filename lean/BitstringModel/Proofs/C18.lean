/-
  Proofs/C18.lean — helper lemmas for Props/C18*.lean: bits ↔ bytes, base-256 digits, signed readings.
-/
import BitstringModel.Model.C18
import BitstringModel.Proofs.Basic
import Mathlib.Tactic.Linarith
import Mathlib.Tactic.Ring

namespace BM.C18
open BM

/-! ### `toBytes` / `bitsOfBytes` -/

theorem toBytesAux_nil (f : Nat) : toBytesAux f [] = [] := by
  cases f <;> simp [toBytesAux]

theorem toBytesAux_fuel (f g : Nat) (b : Bits) (hf : (b.length + 7) / 8 ≤ f) (hg : (b.length + 7) / 8 ≤ g) :
    toBytesAux f b = toBytesAux g b := by
  induction f generalizing g b with
  | zero =>
    have : b = [] := by
      cases b with
      | nil => rfl
      | cons x xs => simp at hf; omega
    subst this; simp [toBytesAux_nil]
  | succ f ih =>
    cases b with
    | nil => simp [toBytesAux_nil]
    | cons x xs =>
      cases g with
      | zero => simp at hg; omega
      | succ g =>
        simp only [toBytesAux, List.isEmpty_cons, Bool.false_eq_true, if_false]
        congr 1
        apply ih
        · simp only [List.length_drop, List.length_cons] at hf ⊢; omega
        · simp only [List.length_drop, List.length_cons] at hg ⊢; omega

@[simp] theorem toBytes_nil : toBytes [] = [] := rfl

theorem toBytes_cons8 (x r : Bits) (hx : x.length = 8) : toBytes (x ++ r) = bitsToNat x :: toBytes r := by
  unfold toBytes
  have hlen : (x ++ r).length = (7 + r.length) + 1 := by simp [hx]; omega
  rw [hlen]
  have hne : (x ++ r).isEmpty = false := by
    cases x with
    | nil => simp at hx
    | cons a t => rfl
  simp only [toBytesAux, hne, Bool.false_eq_true, if_false]
  have ht : (x ++ r).take 8 = x := by rw [List.take_left' hx]
  have hd : (x ++ r).drop 8 = r := by rw [List.drop_left' hx]
  rw [ht, hd, hx]
  simp only [Nat.sub_self, List.replicate_zero, List.append_nil]
  congr 1
  apply toBytesAux_fuel <;> omega

theorem bitsOfBytes_nil : bitsOfBytes [] = [] := rfl

theorem bitsOfBytes_cons (x : Nat) (d : List Nat) : bitsOfBytes (x :: d) = natToBits 8 x ++ bitsOfBytes d := by
  simp [bitsOfBytes]

theorem bitsOfBytes_append (a b : List Nat) : bitsOfBytes (a ++ b) = bitsOfBytes a ++ bitsOfBytes b := by
  simp [bitsOfBytes]

@[simp] theorem bitsOfBytes_length (d : List Nat) : (bitsOfBytes d).length = 8 * d.length := by
  induction d with
  | nil => rfl
  | cons x d ih => rw [bitsOfBytes_cons]; simp [ih]; omega

theorem toBytes_bitsOfBytes' (d : List Nat) (hd : ∀ x ∈ d, x < 256) : toBytes (bitsOfBytes d) = d := by
  induction d with
  | nil => rfl
  | cons x d ih =>
    rw [bitsOfBytes_cons, toBytes_cons8 _ _ (by simp), ih (fun y hy => hd y (List.mem_cons_of_mem _ hy))]
    rw [bitsToNat_natToBits 8 x (by have := hd x (List.mem_cons_self); omega)]

/-- Induction over whole-byte bit strings, one byte at a time. -/
theorem whole_byte_induction (P : Bits → Prop) (h0 : P [])
    (hstep : ∀ x r : Bits, x.length = 8 → r.length % 8 = 0 → P r → P (x ++ r)) :
    ∀ b : Bits, b.length % 8 = 0 → P b := by
  intro b
  induction hn : b.length using Nat.strongRecOn generalizing b with
  | _ n ih =>
    intro h8
    by_cases hb : b = []
    · subst hb; exact h0
    · have hlen : 8 ≤ b.length := by
        cases b with
        | nil => exact absurd rfl hb
        | cons a t => simp only [List.length_cons] at hn ⊢; omega
      have := hstep (b.take 8) (b.drop 8) (by simp; omega) (by simp; omega)
        (ih (b.drop 8).length (by simp; omega) (b.drop 8) rfl (by simp; omega))
      rwa [List.take_append_drop] at this

theorem bitsOfBytes_toBytes' (b : Bits) (h8 : b.length % 8 = 0) : bitsOfBytes (toBytes b) = b := by
  refine whole_byte_induction (fun b => bitsOfBytes (toBytes b) = b) rfl ?_ b h8
  intro x r hx _ ih
  rw [toBytes_cons8 x r hx, bitsOfBytes_cons, ih]
  have := natToBits_bitsToNat x
  rw [hx] at this
  rw [this]

theorem toBytes_lt (b : Bits) (h8 : b.length % 8 = 0) : ∀ x ∈ toBytes b, x < 256 := by
  refine whole_byte_induction (fun b => ∀ x ∈ toBytes b, x < 256) (by simp) ?_ b h8
  intro x r hx _ ih y hy
  rw [toBytes_cons8 x r hx] at hy
  cases hy with
  | head => have := bitsToNat_lt x; rw [hx] at this; omega
  | tail _ h => exact ih y h

theorem toBytes_length (b : Bits) (h8 : b.length % 8 = 0) : (toBytes b).length = b.length / 8 := by
  have := congrArg List.length (bitsOfBytes_toBytes' b h8)
  simp at this
  omega

/-- Every whole-byte bit string is `bitsOfBytes` of a list of bytes. -/
theorem exists_bytes (b : Bits) (h8 : b.length % 8 = 0) : ∃ d : List Nat, (∀ x ∈ d, x < 256) ∧ b = bitsOfBytes d :=
  ⟨toBytes b, toBytes_lt b h8, (bitsOfBytes_toBytes' b h8).symm⟩

theorem bytesRev_bitsOfBytes (d : List Nat) (hd : ∀ x ∈ d, x < 256) :
    bytesRev (bitsOfBytes d) = bitsOfBytes d.reverse := by
  simp [bytesRev, toBytes_bitsOfBytes' d hd]

theorem bytesRev_length' (b : Bits) (h8 : b.length % 8 = 0) : (bytesRev b).length = b.length := by
  simp [bytesRev, toBytes_length b h8]; omega

theorem bytesRev_bytesRev' (b : Bits) (h8 : b.length % 8 = 0) : bytesRev (bytesRev b) = b := by
  obtain ⟨d, hd, rfl⟩ := exists_bytes b h8
  rw [bytesRev_bitsOfBytes d hd, bytesRev_bitsOfBytes d.reverse (by simpa using hd), List.reverse_reverse]

theorem toBytes_bytesRev' (b : Bits) (h8 : b.length % 8 = 0) : toBytes (bytesRev b) = (toBytes b).reverse := by
  obtain ⟨d, hd, rfl⟩ := exists_bytes b h8
  rw [bytesRev_bitsOfBytes d hd, toBytes_bitsOfBytes' d hd, toBytes_bitsOfBytes' d.reverse (by simpa using hd)]

/-! ### base-256 digits -/

@[simp] theorem leBytes_length (n v : Nat) : (leBytes n v).length = n := by
  induction n generalizing v with
  | zero => rfl
  | succ n ih => simp [leBytes, ih]

theorem leBytes_lt (n v : Nat) : ∀ x ∈ leBytes n v, x < 256 := by
  induction n generalizing v with
  | zero => simp [leBytes]
  | succ n ih =>
    intro x hx
    simp only [leBytes, List.mem_cons] at hx
    cases hx with
    | inl h => omega
    | inr h => exact ih _ x h

theorem leValue_append (a b : List Nat) : leValue (a ++ b) = leValue a + 256 ^ a.length * leValue b := by
  induction a with
  | nil => simp [leValue]
  | cons x a ih =>
    simp only [List.cons_append, leValue, ih, List.length_cons, Nat.pow_succ]
    rw [Nat.mul_add, Nat.add_assoc]
    congr 2
    rw [← Nat.mul_assoc, Nat.mul_comm 256 (256 ^ a.length)]

theorem leValue_lt (d : List Nat) (hd : ∀ x ∈ d, x < 256) : leValue d < 256 ^ d.length := by
  induction d with
  | nil => simp [leValue]
  | cons x d ih =>
    have h1 := hd x List.mem_cons_self
    have h2 := ih (fun y hy => hd y (List.mem_cons_of_mem _ hy))
    simp only [leValue, List.length_cons, Nat.pow_succ]
    omega

theorem leValue_leBytes' (n v : Nat) : leValue (leBytes n v) = v % 256 ^ n := by
  induction n generalizing v with
  | zero => simp [leBytes, leValue, Nat.mod_one]
  | succ n ih =>
    simp only [leBytes, leValue, ih, Nat.pow_succ]
    rw [Nat.mul_comm (256 ^ n) 256, Nat.mod_mul]

theorem leBytes_leValue' (d : List Nat) (hd : ∀ x ∈ d, x < 256) : leBytes d.length (leValue d) = d := by
  induction d with
  | nil => rfl
  | cons x d ih =>
    have h1 := hd x List.mem_cons_self
    simp only [List.length_cons, leBytes, leValue]
    have e1 : (x + 256 * leValue d) % 256 = x := by omega
    have e2 : (x + 256 * leValue d) / 256 = leValue d := by omega
    rw [e1, e2, ih (fun y hy => hd y (List.mem_cons_of_mem _ hy))]

theorem pow256 (n : Nat) : 256 ^ n = 2 ^ (8 * n) := by
  rw [show (256 : Nat) = 2 ^ 8 by rfl, ← Nat.pow_mul]

/-! ### `natToBits` on whole bytes -/

theorem natToBits_mod (k v : Nat) : natToBits k (v % 2 ^ k) = natToBits k v := by
  have := natToBits_bitsToNat (natToBits k v)
  rwa [natToBits_length, bitsToNat_natToBits_mod] at this

theorem natToBits_split (a b v : Nat) : natToBits (a + b) v = natToBits a (v / 2 ^ b) ++ natToBits b v := by
  induction b generalizing v with
  | zero => simp [natToBits]
  | succ b ih =>
    rw [← Nat.add_assoc]
    simp only [natToBits]
    rw [ih, List.append_assoc, Nat.div_div_eq_div_mul, Nat.pow_succ, Nat.mul_comm 2 (2 ^ b)]

theorem natToBits_eq_bytes' (n v : Nat) : natToBits (8 * n) v = bitsOfBytes (leBytes n v).reverse := by
  induction n generalizing v with
  | zero => rfl
  | succ n ih =>
    rw [show 8 * (n + 1) = 8 * n + 8 by omega, natToBits_split, ih]
    simp only [leBytes, List.reverse_cons, bitsOfBytes_append, bitsOfBytes_cons, bitsOfBytes_nil, List.append_nil]
    rw [show (2 : Nat) ^ 8 = 256 by rfl]
    congr 1
    exact (natToBits_mod 8 v).symm

/-- MSB-first value of a byte string = `int.from_bytes(…, 'big')`. -/
theorem bitsToNat_bitsOfBytes (d : List Nat) (hd : ∀ x ∈ d, x < 256) : bitsToNat (bitsOfBytes d) = beValue d := by
  induction d with
  | nil => rfl
  | cons x d ih =>
    have h1 := hd x List.mem_cons_self
    rw [bitsOfBytes_cons, bitsToNat_append, ih (fun y hy => hd y (List.mem_cons_of_mem _ hy))]
    rw [bitsToNat_natToBits 8 x (by omega)]
    simp only [beValue, List.reverse_cons, leValue_append, leValue, bitsOfBytes_length, List.length_reverse,
      Nat.mul_zero, Nat.add_zero]
    rw [pow256, Nat.add_comm, Nat.mul_comm]

/-! ### signed readings -/

theorem bitsToInt_eq_toSigned (b : Bits) (n : Nat) (hn : 0 < n) (hlen : b.length = 8 * n) :
    bitsToInt b = toSigned n (bitsToNat b) := by
  cases b with
  | nil => simp at hlen; omega
  | cons s t =>
    have ht : t.length = 8 * n - 1 := by simp at hlen; omega
    have hlt := bitsToNat_lt t
    have hp : (2 : Nat) ^ (8 * n) = 2 * 2 ^ (8 * n - 1) := by
      rw [show 8 * n = (8 * n - 1) + 1 by omega, Nat.pow_succ]; simp; omega
    simp only [bitsToInt, toSigned, List.length_cons]
    rw [bitsToNat_cons, ht] at *
    rw [show 8 * n - 1 + 1 = 8 * n by omega]
    cases s
    · simp only [Bool.false_eq_true, if_false, Nat.zero_mul, Nat.zero_add]
      rw [if_neg (by omega)]
    · simp only [if_true, Nat.one_mul]
      rw [if_pos (by omega)]

/-! ### readings, encodings (theorems of Props/C18.lean) -/

theorem length_pos_of_ne (b : Bits) (h8 : b.length % 8 = 0) (hne : b ≠ []) : 0 < b.length / 8 ∧ b.length = 8 * (b.length / 8) ∧ b.length ≠ 0 := by
  cases b with
  | nil => exact absurd rfl hne
  | cons a t => simp only [List.length_cons] at h8 ⊢; omega

theorem getuintbe_eq_from_bytes' (b : Bits) (h8 : b.length % 8 = 0) (hne : b ≠ []) :
    getuintbe b = .ok (beValue (toBytes b)) := by
  obtain ⟨_, _, h0⟩ := length_pos_of_ne b h8 hne
  have hb := bitsToNat_bitsOfBytes (toBytes b) (toBytes_lt b h8)
  rw [bitsOfBytes_toBytes' b h8] at hb
  simp [getuintbe, getuint, h8, h0, hb]

theorem getuintle_eq_from_bytes' (b : Bits) (h8 : b.length % 8 = 0) (hne : b ≠ []) :
    getuintle b = .ok (leValue (toBytes b)) := by
  obtain ⟨_, _, h0⟩ := length_pos_of_ne b h8 hne
  have hl := bytesRev_length' b h8
  have hb := bitsToNat_bitsOfBytes (toBytes b).reverse (by simpa using toBytes_lt b h8)
  simp only [beValue, List.reverse_reverse] at hb
  simp only [getuintle, h8, ne_eq, not_true_eq_false, if_false, hl, h0]
  simp [bytesRev, hb]

theorem getintbe_eq_from_bytes' (b : Bits) (h8 : b.length % 8 = 0) (hne : b ≠ []) :
    getintbe b = .ok (Struct.unpackInt .big true (toBytes b)) := by
  obtain ⟨hp, he, h0⟩ := length_pos_of_ne b h8 hne
  have hb := bitsToNat_bitsOfBytes (toBytes b) (toBytes_lt b h8)
  rw [bitsOfBytes_toBytes' b h8] at hb
  have hs := bitsToInt_eq_toSigned b (b.length / 8) hp he
  simp [getintbe, getint, h8, h0, Struct.unpackInt, hs, hb, toBytes_length b h8]

theorem getintle_eq_from_bytes' (b : Bits) (h8 : b.length % 8 = 0) (hne : b ≠ []) :
    getintle b = .ok (Struct.unpackInt .little true (toBytes b)) := by
  obtain ⟨hp, he, h0⟩ := length_pos_of_ne b h8 hne
  have hl := bytesRev_length' b h8
  have hb := bitsToNat_bitsOfBytes (toBytes b).reverse (by simpa using toBytes_lt b h8)
  simp only [beValue, List.reverse_reverse] at hb
  have hs := bitsToInt_eq_toSigned (bytesRev b) (b.length / 8) hp (by rw [hl]; exact he)
  simp only [getintle, h8, ne_eq, not_true_eq_false, if_false, hl, h0]
  rw [hs]
  simp [bytesRev, hb, Struct.unpackInt, toBytes_length b h8]


theorem getfloat_rev (big : Bool) (b : Bits) (h8 : b.length % 8 = 0) :
    getfloat big b = getfloat (!big) (bytesRev b) := by
  have hl := bytesRev_length' b h8
  have ht := toBytes_bytesRev' b h8
  simp only [getfloat, hl, ht]
  split
  · congr 1
    cases big <;> simp [structUnpackFloat, beValue]
  · rfl

theorem le_eq_be_bytesRev' (b : Bits) (h8 : b.length % 8 = 0) :
    getuintle b = getuintbe (bytesRev b) ∧ getintle b = getintbe (bytesRev b) ∧
    getfloat false b = getfloat true (bytesRev b) := by
  have hl := bytesRev_length' b h8
  refine ⟨?_, ?_, getfloat_rev false b h8⟩
  · simp only [getuintle, getuintbe, getuint, hl, h8]
  · simp only [getintle, getintbe, getint, hl, h8]

theorem be_eq_le_bytesRev' (b : Bits) (h8 : b.length % 8 = 0) :
    getuintbe b = getuintle (bytesRev b) ∧ getintbe b = getintle (bytesRev b) ∧
    getfloat true b = getfloat false (bytesRev b) := by
  have hl := bytesRev_length' b h8
  have h8' : (bytesRev b).length % 8 = 0 := by rw [hl]; exact h8
  have := le_eq_be_bytesRev' (bytesRev b) h8'
  rw [bytesRev_bytesRev' b h8] at this
  exact ⟨this.1.symm, this.2.1.symm, getfloat_rev true b h8⟩

theorem le_be_error_iff' (b : Bits) :
    ((getuintle b).toOption = none ↔ (b.length % 8 ≠ 0 ∨ b = [])) ∧
    ((getuintbe b).toOption = none ↔ (b.length % 8 ≠ 0 ∨ b = [])) ∧
    ((getintle b).toOption = none ↔ (b.length % 8 ≠ 0 ∨ b = [])) ∧
    ((getintbe b).toOption = none ↔ (b.length % 8 ≠ 0 ∨ b = [])) := by
  by_cases h8 : b.length % 8 = 0
  · have hl := bytesRev_length' b h8
    have he : b.length = 0 ↔ b = [] := List.length_eq_zero_iff
    simp only [getuintle, getuintbe, getintle, getintbe, getuint, getint, hl, h8]
    by_cases h0 : b.length = 0
    · have := he.mp h0; subst this; simp [Except.toOption]
    · have : b ≠ [] := fun h => h0 (he.mpr h)
      simp [Except.toOption, h0, this]
  · simp [getuintle, getuintbe, getintle, getintbe, h8, Except.toOption]

theorem ne_reading' (b : Bits) :
    getNe false b = getFn (if nativeOrder = .little then .uintle else .uintbe) b ∧
    getNe true b = getFn (if nativeOrder = .little then .intle else .intbe) b := by
  have h1 : resolve "uintne" = some (if nativeOrder = .little then .uintle else .uintbe) := by decide
  have h2 : resolve "intne" = some (if nativeOrder = .little then .intle else .intbe) := by decide
  simp [getNe, h1, h2]

theorem int2bitstore_eq_to_bytes' (size : Nat) (hs : 0 < size) (signed : Bool) (v : Int) :
    int2bitstore v (8 * size) signed = (Struct.packInt size .big signed v).map bitsOfBytes := by
  cases signed
  · simp only [int2bitstore, Struct.packInt, Bool.false_eq_true, if_false, orderBytes]
    by_cases h : (0 : Int) ≤ v ∧ v < 2 ^ (8 * size)
    · rw [if_pos h, if_neg (by omega)]
      simp only [Except.map]
      rw [Int.emod_eq_of_lt h.1 h.2, natToBits_eq_bytes']
    · rw [if_neg h, if_pos (by omega)]
      rfl
  · simp only [int2bitstore, Struct.packInt, if_true, orderBytes]
    by_cases h : -(2 : Int) ^ (8 * size - 1) ≤ v ∧ v < 2 ^ (8 * size - 1)
    · rw [if_pos h, if_neg (by omega)]
      simp only [Except.map, intToBits]
      rw [natToBits_eq_bytes']
    · rw [if_neg h, if_pos (by omega)]
      rfl

theorem int2bitstore_length (v : Int) (len : Nat) (signed : Bool) (b : Bits) (h : int2bitstore v len signed = .ok b) :
    b.length = len := by
  unfold int2bitstore at h
  split at h <;> split at h <;> cases h <;> simp [intToBits]

theorem intle2bitstore_eq_to_bytes' (size : Nat) (hs : 0 < size) (signed : Bool) (v : Int) :
    intle2bitstore v (8 * size) signed = (Struct.packInt size .little signed v).map bitsOfBytes := by
  have h := int2bitstore_eq_to_bytes' size hs signed v
  unfold intle2bitstore
  rw [h]
  unfold Struct.packInt
  simp only
  by_cases hc : (if signed = true then -(2 : Int) ^ (8 * size - 1) else 0) ≤ v ∧
            v < if signed = true then 2 ^ (8 * size - 1) else 2 ^ (8 * size)
  · simp only [hc, and_self, if_true, Except.map, orderBytes]
    rw [bytesRev_bitsOfBytes _ (by simpa using leBytes_lt size _), List.reverse_reverse]
  · simp only [hc, if_false, Except.map]

theorem toNat_emod_lt (v : Int) (n : Nat) : (v % 2 ^ n).toNat < 2 ^ n := by
  have h1 : (0:Int) ≤ v % 2 ^ n := Int.emod_nonneg _ (by positivity)
  have h2 : v % 2 ^ n < 2 ^ n := Int.emod_lt_of_pos _ (by positivity)
  zify
  rw [Int.toNat_of_nonneg h1]
  exact_mod_cast h2

theorem order_value (size u : Nat) (hu : u < 2 ^ (8 * size)) :
    leValue (orderBytes .little (leBytes size u)) = u ∧ beValue (orderBytes .big (leBytes size u)) = u := by
  constructor
  · simp only [orderBytes]
    rw [leValue_leBytes', pow256, Nat.mod_eq_of_lt hu]
  · simp only [orderBytes, beValue, List.reverse_reverse]
    rw [leValue_leBytes', pow256, Nat.mod_eq_of_lt hu]

theorem unpackInt_order (o : Order) (signed : Bool) (size u : Nat) (hu : u < 2 ^ (8 * size)) :
    Struct.unpackInt o signed (orderBytes o (leBytes size u)) = if signed then toSigned size u else (u : Int) := by
  have ov := order_value size u hu
  simp only [orderBytes] at ov
  cases o <;> simp [Struct.unpackInt, ov.1, ov.2, orderBytes]

theorem orderBytes_length (o : Order) (l : List Nat) : (orderBytes o l).length = l.length := by
  cases o <;> simp [orderBytes]

theorem unpackInt_packInt' (size : Nat) (hs : 0 < size) (o : Order) (signed : Bool) (v : Int) (d : List Nat)
    (h : Struct.packInt size o signed v = .ok d) : Struct.unpackInt o signed d = v ∧ d.length = size := by
  have hp : (2 : Int) ^ (8 * size) = 2 * 2 ^ (8 * size - 1) := by
    rw [show 8 * size = (8 * size - 1) + 1 by omega, pow_succ]; simp; ring
  have hpos : (0 : Int) < 2 ^ (8 * size - 1) := by positivity
  have hnn : (0:Int) ≤ v % 2 ^ (8 * size) := Int.emod_nonneg _ (by positivity)
  unfold Struct.packInt at h
  cases signed
  · simp only [Bool.false_eq_true, if_false] at h
    by_cases hr : (0 : Int) ≤ v ∧ v < 2 ^ (8 * size)
    · rw [if_pos hr] at h
      injection h with h
      subst h
      refine ⟨?_, by simp [orderBytes_length]⟩
      rw [unpackInt_order o false size _ (toNat_emod_lt v (8 * size))]
      simp only [Bool.false_eq_true, if_false]
      rw [Int.toNat_of_nonneg hnn, Int.emod_eq_of_lt hr.1 hr.2]
    · rw [if_neg hr] at h; cases h
  · simp only [if_true] at h
    by_cases hr : -(2 : Int) ^ (8 * size - 1) ≤ v ∧ v < 2 ^ (8 * size - 1)
    · rw [if_pos hr] at h
      injection h with h
      subst h
      refine ⟨?_, by simp [orderBytes_length]⟩
      rw [unpackInt_order o true size _ (toNat_emod_lt v (8 * size))]
      simp only [if_true]
      unfold toSigned
      by_cases hv : 0 ≤ v
      · have e : v % 2 ^ (8 * size) = v := Int.emod_eq_of_lt hv (by omega)
        rw [e]
        have : ¬ (2 ^ (8 * size - 1) ≤ v.toNat) := by
          intro hc
          have : ((2 ^ (8 * size - 1) : Nat) : Int) ≤ (v.toNat : Int) := by exact_mod_cast hc
          rw [Int.toNat_of_nonneg hv] at this; push_cast at this; omega
        rw [if_neg this, Int.toNat_of_nonneg hv]
      · have e : v % 2 ^ (8 * size) = v + 2 ^ (8 * size) := by
          rw [← Int.add_emod_right]; exact Int.emod_eq_of_lt (by omega) (by omega)
        rw [e]
        have hnn' : (0:Int) ≤ v + 2 ^ (8 * size) := by omega
        have : (2 ^ (8 * size - 1) ≤ (v + 2 ^ (8 * size)).toNat) := by
          have : ((2 ^ (8 * size - 1) : Nat) : Int) ≤ ((v + 2 ^ (8 * size)).toNat : Int) := by
            rw [Int.toNat_of_nonneg hnn']; push_cast; omega
          exact_mod_cast this
        rw [if_pos this, Int.toNat_of_nonneg hnn']
        push_cast; ring
    · rw [if_neg hr] at h; cases h

end BM.C18
