/- Kernel obligation: `bfChk` (Proofs/C11_NumDefs.lean) on the 16-bit patterns 0x8800..0x8bff. -/
import BitstringModel.Proofs.C11_NumDefs
namespace BM.C11
theorem bfChunk_34 : bfChunkOk 34 = true := by decide +kernel
end BM.C11
