/-
  Proofs/C12.lean — helper lemmas for Props/C12.lean (index mirror of slices and single positions).
-/
import BitstringModel.Model.C12
import BitstringModel.Proofs.C01
import BitstringModel.Props.C01
import Mathlib.Tactic.Ring
import Mathlib.Tactic.Linarith
import Mathlib.Data.List.Basic
import Mathlib.Data.List.Nodup
namespace BM.C12
open BM

/-- clamped bounds of a positive-step slice lie in `[0, n]`. -/
theorem sliceIndices_pos_bounds (s e : Option Int) (st : Int) (hst : 0 < st) (n : Nat) :
    0 ≤ (Py.sliceIndices s e st n).1 ∧ (Py.sliceIndices s e st n).1 ≤ n ∧
    0 ≤ (Py.sliceIndices s e st n).2.1 ∧ (Py.sliceIndices s e st n).2.1 ≤ n := by
  have h : ¬ st < 0 := by omega
  unfold Py.sliceIndices
  cases s <;> cases e <;> simp only [h, if_false] <;> (try split) <;> (try split) <;> omega

/-- re-normalising in-range bounds is the identity (up to the upper clamp of the start). -/
theorem sliceIndices_some_nonneg (a b st : Int) (hst : 0 < st) (n : Nat) (ha : 0 ≤ a) (hb : 0 ≤ b) (hbn : b ≤ n) :
    Py.sliceIndices (some a) (some b) st n = (min a n, b, st) := by
  have h : ¬ st < 0 := by omega
  have h1 : ¬ a < 0 := by omega
  have h2 : ¬ b < 0 := by omega
  simp only [Py.sliceIndices, h, h1, h2, if_false]
  congr 2
  omega

theorem reverse_range_map (m : Nat) : (List.range m).reverse = (List.range m).map (fun k => m - 1 - k) := by
  apply List.ext_getElem?
  intro i
  by_cases h : i < m
  · simp [h]
  · simp [h]

/-- The index arithmetic of `offset_slice_indices_lsb0` for a positive step. -/
theorem rangeList_mirror (s e st : Int) (n : Nat) (hst : 0 < st) (hs0 : 0 ≤ s) (_hsn : s ≤ n) (he0 : 0 ≤ e) (_hen : e ≤ n) :
    Py.rangeList (min ((n : Int) - (s + (e - 1 - s) / st * st) - 1) n) ((n : Int) - s) st
      = (Py.rangeList s e st).reverse.map fun i => (n : Int) - 1 - i := by
  by_cases hse : s < e
  · -- non-empty
    have hq0 : 0 ≤ (e - 1 - s) / st := Int.ediv_nonneg (by omega) (by omega)
    have hqle : (e - 1 - s) / st * st ≤ e - 1 - s := Int.ediv_mul_le _ (by omega)
    set q := (e - 1 - s) / st with hq
    have hmin : min ((n : Int) - (s + q * st) - 1) n = (n : Int) - (s + q * st) - 1 := by
      have : 0 ≤ q * st := Int.mul_nonneg hq0 (by omega)
      omega
    rw [hmin]
    have hcnt : Py.rangeLen s e st = q.toNat + 1 := by
      rw [Py.rangeLen]; simp only [hst, hse, if_true]
      have : e - s - 1 = e - 1 - s := by ring
      rw [this]; omega
    have hcnt' : Py.rangeLen ((n : Int) - (s + q * st) - 1) ((n : Int) - s) st = q.toNat + 1 := by
      rw [Py.rangeLen]; simp only [hst, if_true]
      have h3 : 0 ≤ q * st := Int.mul_nonneg hq0 (by omega)
      have hlt : (n : Int) - (s + q * st) - 1 < (n : Int) - s := by omega
      simp only [hlt, if_true]
      have : (n : Int) - s - ((n : Int) - (s + q * st) - 1) - 1 = q * st := by ring
      rw [this, Int.mul_ediv_cancel _ (by omega : st ≠ 0)]
      omega
    unfold Py.rangeList
    rw [hcnt, hcnt', ← List.map_reverse, reverse_range_map, List.map_map, List.map_map]
    apply List.map_congr_left
    intro k hk
    simp only [List.mem_range] at hk
    simp only [Function.comp]
    have hcast : ((q.toNat + 1 - 1 - k : Nat) : Int) = q - k := by omega
    rw [hcast]
    ring
  · -- empty on both sides
    have h1 : Py.rangeLen s e st = 0 := by
      rw [Py.rangeLen]; simp only [hst, if_true, hse, if_false]
    have hneg : (e - 1 - s) / st < 0 := Int.ediv_neg_of_neg_of_pos (by omega) hst
    have hq : (e - 1 - s) / st * st ≤ -1 := by
      have : (e - 1 - s) / st ≤ -1 := by omega
      nlinarith
    have h2 : Py.rangeLen (min ((n : Int) - (s + (e - 1 - s) / st * st) - 1) n) ((n : Int) - s) st = 0 := by
      rw [Py.rangeLen]; simp only [hst, if_true]
      have : ¬ (min ((n : Int) - (s + (e - 1 - s) / st * st) - 1) n < (n : Int) - s) := by omega
      simp only [this, if_false]
    simp [Py.rangeList, h1, h2]


/-- the step a key stands for (`None` = 1). -/
abbrev stepOf (k : Key) : Int := k.step.getD 1

theorem stepOf_pos (k : Key) (hpos : negStep k = false) (h0 : k.step ≠ some 0) : 0 < stepOf k := by
  unfold stepOf negStep at *
  cases h : k.step with
  | none => simp
  | some c =>
    rw [h] at hpos h0
    simp only [decide_eq_false_iff_not, Int.not_lt] at hpos
    have : c ≠ 0 := fun hc => h0 (by rw [hc])
    simp only [Option.getD_some]
    omega

theorem getSlice_opt {α} (l : List α) (a b c : Option Int) (hc : c.getD 1 ≠ 0) :
    Py.getSlice l a b c = .ok ((Py.rangeList (Py.sliceIndices a b (c.getD 1) l.length).1
        (Py.sliceIndices a b (c.getD 1) l.length).2.1 (c.getD 1)).filterMap fun i => l[i.toNat]?) := by
  simp only [Py.getSlice, hc, if_false]
  rfl

/-- start, stop of the mirrored slice, before clamping. -/
def mirStart (k : Key) (n : Nat) : Int :=
  (n : Int) - ((Py.sliceIndices k.start k.stop (stepOf k) n).1 +
    ((Py.sliceIndices k.start k.stop (stepOf k) n).2.1 - 1 - (Py.sliceIndices k.start k.stop (stepOf k) n).1) / stepOf k * stepOf k) - 1
def mirStop (k : Key) (n : Nat) : Int := (n : Int) - (Py.sliceIndices k.start k.stop (stepOf k) n).1

theorem offsetSliceLsb0_pos (k : Key) (n : Nat) (hpos : negStep k = false) (h0 : k.step ≠ some 0) :
    offsetSliceLsb0 k n = .ok ⟨some (mirStart k n), some (mirStop k n), k.step⟩ := by
  unfold mirStart mirStop
  have hst := stepOf_pos k hpos h0
  unfold stepOf at *
  unfold offsetSliceLsb0 indices
  cases h : k.step with
  | none => simp
  | some c =>
    rw [h] at hst h0
    simp only [Option.getD_some] at hst ⊢
    have h1 : ¬ c < 0 := by omega
    simp only [gt_iff_lt, hst, if_true, h1, if_false]


/-- the last visited element lies below `n` (also for an empty range). -/
theorem mirStart_nonneg (k : Key) (n : Nat) (hst : 0 < stepOf k) : 0 ≤ mirStart k n := by
  have hb := sliceIndices_pos_bounds k.start k.stop (stepOf k) hst n
  unfold mirStart
  generalize (Py.sliceIndices k.start k.stop (stepOf k) n).1 = s at *
  generalize (Py.sliceIndices k.start k.stop (stepOf k) n).2.1 = e at *
  generalize stepOf k = st at *
  have hqle : (e - 1 - s) / st * st ≤ e - 1 - s := Int.ediv_mul_le _ (by omega)
  omega

theorem mirror_renorm (k : Key) (n : Nat) (hst : 0 < stepOf k) :
    Py.sliceIndices (some (mirStart k n)) (some (mirStop k n)) (stepOf k) n
      = (min (mirStart k n) n, mirStop k n, stepOf k) := by
  have hb := sliceIndices_pos_bounds k.start k.stop (stepOf k) hst n
  apply sliceIndices_some_nonneg _ _ _ hst n (mirStart_nonneg k n hst)
  · unfold mirStop; omega
  · unfold mirStop; omega

theorem mirror_rangeList (k : Key) (n : Nat) (hst : 0 < stepOf k) :
    Py.rangeList (min (mirStart k n) n) (mirStop k n) (stepOf k)
      = (Py.rangeList (Py.sliceIndices k.start k.stop (stepOf k) n).1
          (Py.sliceIndices k.start k.stop (stepOf k) n).2.1 (stepOf k)).reverse.map fun i => (n : Int) - 1 - i := by
  have hb := sliceIndices_pos_bounds k.start k.stop (stepOf k) hst n
  exact rangeList_mirror _ _ _ n hst hb.1 hb.2.1 hb.2.2.1 hb.2.2.2

/-- members of a normalised positive-step range are valid positions. -/
theorem mem_rangeList_bounds (k : Key) (n : Nat) (hst : 0 < stepOf k) (i : Int)
    (hi : i ∈ Py.rangeList (Py.sliceIndices k.start k.stop (stepOf k) n).1
          (Py.sliceIndices k.start k.stop (stepOf k) n).2.1 (stepOf k)) : 0 ≤ i ∧ i < n := by
  unfold Py.rangeList at hi
  simp only [List.mem_map, List.mem_range] at hi
  obtain ⟨j, hj, rfl⟩ := hi
  exact C01.sliceIndices_bounds k.start k.stop (stepOf k) (by omega) n j hj

theorem getElem?_reverse_int {α} (l : List α) (i : Int) (h0 : 0 ≤ i) (hn : i < l.length) :
    l.reverse[i.toNat]? = l[((l.length : Int) - 1 - i).toNat]? := by
  rw [List.getElem?_reverse (by omega)]
  congr 1
  omega

theorem getslice_mirror (l : Bits) (k : Key) (hpos : negStep k = false) (h0 : k.step ≠ some 0) :
    getsliceWithstep .lsb0 l k = (getsliceWithstep .msb0 l.reverse k).map List.reverse := by
  have hst := stepOf_pos k hpos h0
  have hne : k.step.getD 1 ≠ 0 := by unfold stepOf at hst; omega
  simp only [getsliceWithstep, offsetSliceLsb0_pos k l.length hpos h0, pyGet]
  rw [getSlice_opt l _ _ _ hne, getSlice_opt l.reverse _ _ _ hne]
  simp only [Except.map, List.length_reverse]
  congr 1
  have hr := mirror_renorm k l.length hst
  unfold stepOf at hr hst
  rw [hr]
  simp only []
  rw [mirror_rangeList k l.length hst, List.filterMap_map, ← List.filterMap_reverse]
  apply List.filterMap_congr
  intro i hi
  rw [List.mem_reverse] at hi
  have hb := mem_rangeList_bounds k l.length hst i hi
  simp only [Function.comp]
  rw [getElem?_reverse_int l i hb.1 hb.2]


theorem reverse_filterMap_range {β} (n : Nat) (f : Nat → Option β) :
    ((List.range n).filterMap f).reverse = (List.range n).filterMap (fun j => f (n - 1 - j)) := by
  rw [← List.filterMap_reverse, reverse_range_map, List.filterMap_map]
  rfl

/-- membership in the mirrored index list. -/
theorem mem_mirror_iff (idx : List Int) (n : Nat) (j : Nat) (hj : j < n) :
    (j : Int) ∈ (idx.reverse.map fun i => (n : Int) - 1 - i) ↔ (((n - 1 - j : Nat) : Int)) ∈ idx := by
  simp only [List.mem_map, List.mem_reverse]
  constructor
  · rintro ⟨i, hi, h⟩
    have : i = ((n - 1 - j : Nat) : Int) := by omega
    rwa [← this]
  · intro h
    exact ⟨_, h, by omega⟩

theorem getElem?_reverse_nat {α} (l : List α) (j : Nat) (hj : j < l.length) :
    l.reverse[l.length - 1 - j]? = l[j]? := by
  rw [List.getElem?_reverse (by omega)]
  congr 1
  omega

theorem delslice_mirror (l : Bits) (k : Key) (hpos : negStep k = false) (h0 : k.step ≠ some 0) :
    delitemSlice .lsb0 l k = (delitemSlice .msb0 l.reverse k).map List.reverse := by
  have hst := stepOf_pos k hpos h0
  have hne : k.step.getD 1 ≠ 0 := by unfold stepOf at hst; omega
  simp only [delitemSlice, offsetSliceLsb0_pos k l.length hpos h0, pyDel, hne, if_false,
    Except.map, List.length_reverse]
  congr 1
  have hr := mirror_renorm k l.length hst
  unfold stepOf at hr hst
  rw [hr]
  simp only []
  rw [mirror_rangeList k l.length hst, reverse_filterMap_range]
  apply List.filterMap_congr
  intro j hj
  simp only [List.mem_range] at hj
  have hm := mem_mirror_iff (Py.rangeList (Py.sliceIndices k.start k.stop (stepOf k) l.length).1
          (Py.sliceIndices k.start k.stop (stepOf k) l.length).2.1 (stepOf k)) l.length j hj
  unfold stepOf at hm
  by_cases hin : ((l.length - 1 - j : Nat) : Int) ∈ Py.rangeList (Py.sliceIndices k.start k.stop (k.step.getD 1) l.length).1
          (Py.sliceIndices k.start k.stop (k.step.getD 1) l.length).2.1 (k.step.getD 1)
  · simp only [hm.mpr hin, hin, if_true]
  · have : ¬ _ := fun h => hin (hm.mp h)
    simp only [this, hin, if_false]
    exact (getElem?_reverse_nat l j hj).symm


/-- lookup through an injective renaming of the keys. -/
theorem lookup_map_key {β} (φ : Int → Int) (hφ : Function.Injective φ) (A : List (Int × β)) (a : Int) :
    (A.map (Prod.map φ id)).lookup (φ a) = A.lookup a := by
  induction A with
  | nil => rfl
  | cons x xs ih =>
    obtain ⟨k, b⟩ := x
    simp only [List.map_cons, Prod.map, id, List.lookup_cons]
    by_cases h : a = k
    · subst h; simp
    · have h1 : (a == k) = false := by simpa using h
      have h2 : (φ a == φ k) = false := by simpa using fun hh => h (hφ hh)
      rw [h1, h2]; exact ih

/-- with pairwise distinct keys the order of an association list is irrelevant for `lookup`. -/
theorem lookup_reverse_of_nodup {β} (A : List (Int × β)) (hA : (A.map Prod.fst).Nodup) (a : Int) :
    A.reverse.lookup a = A.lookup a := by
  induction A with
  | nil => rfl
  | cons x xs ih =>
    obtain ⟨k, b⟩ := x
    simp only [List.map_cons, List.nodup_cons] at hA
    rw [List.reverse_cons, List.lookup_append, ih hA.2]
    simp only [List.lookup_cons, List.lookup_nil]
    by_cases h : a = k
    · subst h
      have hnone : xs.lookup a = none := by
        rw [List.lookup_eq_none_iff]
        intro p hp
        have : p.1 ≠ a := fun hh => hA.1 (hh ▸ List.mem_map_of_mem (f := Prod.fst) hp)
        simpa [bne_iff_ne] using fun hh => this hh.symm
      simp [hnone]
    · have h1 : (a == k) = false := by simpa using h
      simp [h1]

theorem rangeList_nodup (s e st : Int) (hst : st ≠ 0) : (Py.rangeList s e st).Nodup := by
  unfold Py.rangeList
  apply List.Nodup.map_on _ List.nodup_range
  intro a _ b _ h
  have : (a : Int) * st = (b : Int) * st := by omega
  have := Int.eq_of_mul_eq_mul_right hst this
  omega


theorem assignAt_mirror {α} (l : List α) (idx : List Int) (v : List α)
    (hlen : v.length = idx.length) (hnd : idx.Nodup) :
    assignAt l (idx.reverse.map fun i => (l.length : Int) - 1 - i) v
      = (assignAt l.reverse idx v.reverse).reverse := by
  unfold assignAt
  rw [reverse_filterMap_range, List.length_reverse]
  apply List.filterMap_congr
  intro j hj
  simp only [List.mem_range] at hj
  have hφ : Function.Injective (fun i : Int => (l.length : Int) - 1 - i) := by
    intro a b h; simp only at h; omega
  have hj' : (j : Int) = (fun i : Int => (l.length : Int) - 1 - i) (((l.length - 1 - j : Nat) : Int)) := by
    simp only; omega
  have hA : ((idx.reverse.zip v).map Prod.fst).Nodup := by
    rw [List.map_fst_zip (by simp [hlen])]
    exact List.nodup_reverse.mpr hnd
  have hrev : (idx.reverse.zip v).reverse = idx.zip v.reverse := by
    rw [List.zip_eq_zipWith, List.reverse_zipWith (by simp [hlen]), List.reverse_reverse, ← List.zip_eq_zipWith]
  rw [List.zip_map_left, hj', lookup_map_key _ hφ, ← lookup_reverse_of_nodup _ hA, hrev]
  rw [getElem?_reverse_nat l j hj]


theorem mirStart_step1 (k : Key) (n : Nat) (h1 : stepOf k = 1) :
    mirStart k n = (n : Int) - (Py.sliceIndices k.start k.stop 1 n).2.1 := by
  unfold mirStart
  rw [h1, Int.ediv_one, Int.mul_one]
  omega

theorem rangeList_length (s e st : Int) : (Py.rangeList s e st).length = Py.rangeLen s e st := by
  simp [Py.rangeList]

theorem setslice_mirror (l : Bits) (k : Key) (v : Bits) (hpos : negStep k = false) (h0 : k.step ≠ some 0)
    (hinv : invertedAssign k l.length = false) :
    setitemSlice .lsb0 l k v = (setitemSlice .msb0 l.reverse k v.reverse).map List.reverse := by
  have hst := stepOf_pos k hpos h0
  have hne : k.step.getD 1 ≠ 0 := by unfold stepOf at hst; omega
  have hr := mirror_renorm k l.length hst
  have hb := sliceIndices_pos_bounds k.start k.stop (stepOf k) hst l.length
  simp only [setitemSlice, offsetSliceLsb0_pos k l.length hpos h0, pySet, hne, if_false, List.length_reverse]
  unfold stepOf at hr hst hb
  rw [hr]
  simp only []
  by_cases h1 : k.step.getD 1 = 1
  · -- resizing assignment
    simp only [h1, if_true, Except.map]
    congr 1
    have hms := mirStart_step1 k l.length h1
    have hk : k.step = none ∨ k.step = some 1 := by
      cases hks : k.step with
      | none => exact Or.inl rfl
      | some c => rw [hks] at h1; simp only [Option.getD_some] at h1; rw [h1]; exact Or.inr rfl
    have hni : ¬ (Py.sliceIndices k.start k.stop 1 l.length).2.1 < (Py.sliceIndices k.start k.stop 1 l.length).1 := by
      intro hlt
      have : invertedAssign k l.length = true := by
        unfold invertedAssign; simp [hk, hlt]
      rw [this] at hinv; cases hinv
    rw [h1] at hb
    unfold mirStop
    unfold stepOf
    rw [hms, h1]
    generalize (Py.sliceIndices k.start k.stop 1 l.length).1 = s at *
    generalize (Py.sliceIndices k.start k.stop 1 l.length).2.1 = e at *
    have e1 : (min ((l.length : Int) - e) l.length).toNat = l.length - e.toNat := by omega
    have e2 : (max ((l.length : Int) - s) (min ((l.length : Int) - e) l.length)).toNat = l.length - s.toNat := by omega
    have e3 : (max e s).toNat = e.toNat := by omega
    rw [e1, e2, e3, List.reverse_append, List.reverse_append, List.reverse_reverse, List.reverse_drop, List.reverse_take,
      List.reverse_reverse, List.length_reverse, List.append_assoc]
  · -- extended slice
    simp only [h1, if_false]
    rw [mirror_rangeList k l.length hst]
    simp only [List.length_map, List.length_reverse]
    unfold stepOf
    split
    · rfl
    · rename_i hlen
      simp only [Except.map]
      congr 1
      have hlen' : v.length = (Py.rangeList (Py.sliceIndices k.start k.stop (k.step.getD 1) l.length).1
          (Py.sliceIndices k.start k.stop (k.step.getD 1) l.length).2.1 (k.step.getD 1)).length := by
        simpa using hlen
      exact assignAt_mirror l _ v hlen' (rangeList_nodup _ _ _ hne)


theorem reverse_eq_of_getElem? {α} (x y : List α) (hlen : x.length = y.length)
    (h : ∀ i, i < y.length → x[y.length - 1 - i]? = y[i]?) : x.reverse = y := by
  apply List.ext_getElem?
  intro i
  by_cases hi : i < y.length
  · rw [List.getElem?_reverse (by omega), hlen]; exact h i hi
  · rw [List.getElem?_eq_none (by simp; omega), List.getElem?_eq_none (by omega)]

theorem pyIndex_mirror (n : Nat) (i : Int) :
    pyIndex n (-i - 1) = (pyIndex n i).map fun j => n - 1 - j := by
  unfold pyIndex
  by_cases h : i < 0
  · have h1 : ¬ (-i - 1 < 0) := by omega
    simp only [h, h1, if_true, if_false]
    by_cases h2 : i + n < 0
    · have : (n : Int) ≤ -i - 1 := by omega
      simp [h2, this, Except.map]
    · have h3 : ¬ ((n : Int) ≤ -i - 1) := by omega
      have h4 : ¬ ((n : Int) ≤ i + n) := by omega
      simp only [h2, h3, h4, or_self, if_false, Except.map]
      congr 1; omega
  · have h1 : (-i - 1 < 0) := by omega
    simp only [h, h1, if_true, if_false]
    by_cases h2 : (n : Int) ≤ i
    · have : -i - 1 + n < 0 := by omega
      simp [h2, this, Except.map]
    · have h3 : ¬ (-i - 1 + (n : Int) < 0) := by omega
      have h4 : ¬ ((n : Int) ≤ -i - 1 + n) := by omega
      have h5 : ¬ (i < 0) := h
      simp only [h2, h3, h4, or_self, if_false, Except.map]
      congr 1; omega

theorem pyIndex_lt (n : Nat) (i : Int) (j : Nat) (h : pyIndex n i = .ok j) : j < n := by
  simp only [pyIndex] at h
  by_cases hc : (if i < 0 then i + (n : Int) else i) < 0 ∨ (n : Int) ≤ (if i < 0 then i + (n : Int) else i)
  · rw [if_pos hc] at h; cases h
  · rw [if_neg hc] at h
    injection h with h
    split at hc <;> split at h <;> omega

theorem set_mirror (l : Bits) (j : Nat) (hj : j < l.length) (b : Bool) :
    (l.reverse.set j b).reverse = l.set (l.length - 1 - j) b := by
  apply reverse_eq_of_getElem? _ _ (by simp)
  intro i hi
  simp only [List.length_set] at hi ⊢
  rw [List.getElem?_set, List.getElem?_set, List.length_reverse, List.getElem?_reverse (by omega)]
  have e : l.length - 1 - (l.length - 1 - i) = i := by omega
  rw [e]
  by_cases h : j = l.length - 1 - i
  · have h' : l.length - 1 - j = i := by omega
    have h2 : l.length - 1 - j < l.length := by omega
    rw [if_pos h, if_pos h', if_pos hj, if_pos h2]
  · have h' : ¬ (l.length - 1 - j = i) := by omega
    rw [if_neg h, if_neg h']

theorem modify_mirror (l : Bits) (j : Nat) (hj : j < l.length) (f : Bool → Bool) :
    (l.reverse.modify j f).reverse = l.modify (l.length - 1 - j) f := by
  apply reverse_eq_of_getElem? _ _ (by simp)
  intro i hi
  simp only [List.length_modify] at hi ⊢
  rw [List.getElem?_modify, List.getElem?_modify, List.getElem?_reverse (by omega)]
  have e : l.length - 1 - (l.length - 1 - i) = i := by omega
  rw [e]
  by_cases h : j = l.length - 1 - i
  · have h' : l.length - 1 - j = i := by omega
    simp only [h', if_true]
    simp [← h]
  · have h' : ¬ (l.length - 1 - j = i) := by omega
    simp only [h', if_false]
    simp [h]

theorem eraseIdx_mirror (l : Bits) (j : Nat) (hj : j < l.length) :
    (l.reverse.eraseIdx j).reverse = l.eraseIdx (l.length - 1 - j) := by
  apply reverse_eq_of_getElem? _ _ (by simp [List.length_eraseIdx]; split <;> split <;> omega)
  intro i hi
  have hlen : (l.eraseIdx (l.length - 1 - j)).length = l.length - 1 := by
    rw [List.length_eraseIdx]; split <;> omega
  rw [hlen] at hi ⊢
  rw [List.getElem?_eraseIdx, List.getElem?_eraseIdx]
  by_cases h : l.length - 1 - 1 - i < j
  · have h' : ¬ (i < l.length - 1 - j) := by omega
    simp only [h, h', if_true, if_false]
    rw [List.getElem?_reverse (by omega)]
    congr 1; omega
  · have h' : i < l.length - 1 - j := by omega
    simp only [h, h', if_true, if_false]
    rw [List.getElem?_reverse (by omega)]
    congr 1; omega


theorem getIndex_eq_pyIndex (l : Bits) (i : Int) :
    Py.getIndex l i = match pyIndex l.length i with
      | .error e => .error e
      | .ok j => match l[j]? with
        | some x => .ok x
        | none => .error .index := by
  unfold Py.getIndex pyIndex
  simp only []
  by_cases h : (if i < 0 then i + (l.length : Int) else i) < 0
  · simp [h]
  · by_cases h2 : (l.length : Int) ≤ (if i < 0 then i + (l.length : Int) else i)
    · simp only [h, h2, if_false, or_true, if_true]
      rw [List.getElem?_eq_none (by omega)]
    · simp only [h, h2, if_false, or_self]
      cases l[(if i < 0 then i + (l.length : Int) else i).toNat]? <;> rfl

theorem getindex_mirror (l : Bits) (i : Int) : getindex .lsb0 l i = getindex .msb0 l.reverse i := by
  simp only [getindex, pyGetIdx, getIndex_eq_pyIndex, List.length_reverse, pyIndex_mirror]
  cases h : pyIndex l.length i with
  | error e => rfl
  | ok j =>
    have hj := pyIndex_lt _ _ _ h
    simp only [Except.map]
    rw [List.getElem?_reverse (by omega)]

theorem setitemIdx_mirror (l : Bits) (i : Int) (b : Bool) :
    setitemIdx .lsb0 l i b = (setitemIdx .msb0 l.reverse i b).map List.reverse := by
  simp only [setitemIdx, pySetIdx, List.length_reverse, pyIndex_mirror]
  cases h : pyIndex l.length i with
  | error e => rfl
  | ok j =>
    have hj := pyIndex_lt _ _ _ h
    simp only [Except.map, bind, Except.bind, pure, Except.pure]
    rw [set_mirror l j hj]

theorem delitemIdx_mirror (l : Bits) (i : Int) :
    delitemIdx .lsb0 l i = (delitemIdx .msb0 l.reverse i).map List.reverse := by
  simp only [delitemIdx, pyDelIdx, List.length_reverse, pyIndex_mirror]
  cases h : pyIndex l.length i with
  | error e => rfl
  | ok j =>
    have hj := pyIndex_lt _ _ _ h
    simp only [Except.map, bind, Except.bind, pure, Except.pure]
    rw [eraseIdx_mirror l j hj]

theorem invertIdx_mirror (l : Bits) (i : Int) :
    invertIdx .lsb0 l i = (invertIdx .msb0 l.reverse i).map List.reverse := by
  simp only [invertIdx, pyInvertIdx, List.length_reverse, pyIndex_mirror]
  cases h : pyIndex l.length i with
  | error e => rfl
  | ok j =>
    have hj := pyIndex_lt _ _ _ h
    simp only [Except.map, bind, Except.bind, pure, Except.pure]
    rw [modify_mirror l j hj]

theorem setMany_mirror (b : Bool) (ps : List Int) (l : Bits) :
    setMany .lsb0 b l ps = (setMany .msb0 b l.reverse ps).map List.reverse := by
  induction ps generalizing l with
  | nil => simp [setMany, Except.map]
  | cons p ps ih =>
    simp only [setMany, setitemIdx_mirror l p b]
    cases h : setitemIdx .msb0 l.reverse p b with
    | error e => rfl
    | ok l' =>
      simp only [Except.map]
      rw [ih l'.reverse, List.reverse_reverse]
      rfl

theorem invertMany_mirror (ps : List Int) (l : Bits) :
    invertMany .lsb0 l ps = (invertMany .msb0 l.reverse ps).map List.reverse := by
  induction ps generalizing l with
  | nil => simp [invertMany, Except.map]
  | cons p ps ih =>
    simp only [invertMany, List.length_reverse]
    generalize (if p < 0 then p + (l.length : Int) else p) = q
    by_cases hq : q < 0 ∨ (l.length : Int) ≤ q
    · simp only [hq, if_true]; rfl
    · simp only [hq, if_false]
      rw [invertIdx_mirror]
      cases h : invertIdx .msb0 l.reverse q with
      | error e => rfl
      | ok l' =>
        simp only [Except.map]
        rw [ih l'.reverse, List.reverse_reverse]
        rfl

theorem allAt_mirror (b : Bool) (ps : List Int) (l : Bits) : allAt .lsb0 l b ps = allAt .msb0 l.reverse b ps := by
  induction ps with
  | nil => rfl
  | cons p ps ih => simp only [allAt, getindex_mirror, ih]

theorem anyAt_mirror (b : Bool) (ps : List Int) (l : Bits) : anyAt .lsb0 l b ps = anyAt .msb0 l.reverse b ps := by
  induction ps with
  | nil => rfl
  | cons p ps ih => simp only [anyAt, getindex_mirror, ih]


theorem sliceStep1_eq {α} (l : List α) (a b : Option Int) : Py.getSlice l a b none = .ok (sliceStep1 l a b) :=
  C01.getSlice_step1 l a b

theorem getslice_eq_withstep (m : Mode) (l : Bits) (a b : Option Int) :
    getslice m l a b = getsliceWithstep m l ⟨a, b, none⟩ := by
  cases m with
  | msb0 => simp only [getslice, getsliceWithstep, getsliceMsb0, pyGet, sliceStep1_eq]
  | lsb0 =>
    simp only [getslice, getsliceWithstep]
    rw [offsetSliceLsb0_pos ⟨a, b, none⟩ l.length rfl (by simp)]
    simp only [pyGet, sliceStep1_eq]

theorem getslice2_mirror (l : Bits) (a b : Option Int) :
    getslice .lsb0 l a b = (getslice .msb0 l.reverse a b).map List.reverse := by
  rw [getslice_eq_withstep, getslice_eq_withstep]
  exact getslice_mirror l ⟨a, b, none⟩ rfl (by simp)

theorem invertedAssign_false_of_le (a b : Int) (n : Nat) (h0 : 0 ≤ a) (hab : a ≤ b) :
    invertedAssign ⟨some a, some b, none⟩ n = false := by
  unfold invertedAssign
  have h1 : ¬ a < 0 := by omega
  have h2 : ¬ b < 0 := by omega
  have h3 : ¬ ((1 : Int) < 0) := by omega
  simp only [Py.sliceIndices, h1, h2, h3, if_false]
  simp only [true_or, true_and, decide_eq_false_iff_not]
  omega

theorem step_zero_raises (m : Mode) (l v : Bits) (a b : Option Int) :
    (∃ e, getsliceWithstep m l ⟨a, b, some 0⟩ = .error e) ∧ (∃ e, delitemSlice m l ⟨a, b, some 0⟩ = .error e) ∧
    (∃ e, setitemSlice m l ⟨a, b, some 0⟩ v = .error e) := by
  have h : offsetSliceLsb0 ⟨a, b, some 0⟩ l.length = .error (.internal "AssertionError") := by
    simp [offsetSliceLsb0, indices]
  cases m with
  | msb0 => exact ⟨⟨.value, by simp [getsliceWithstep, pyGet, Py.getSlice]⟩, ⟨.value, by simp [delitemSlice, pyDel]⟩,
      ⟨.value, by simp [setitemSlice, pySet]⟩⟩
  | lsb0 => exact ⟨⟨.internal "AssertionError", by simp only [getsliceWithstep, h]⟩,
      ⟨.internal "AssertionError", by simp only [delitemSlice, h]⟩,
      ⟨.internal "AssertionError", by simp only [setitemSlice, h]⟩⟩


theorem setOp_range_mirror (l : Bits) (b : Bool) (a b' c : Int) (h : setRange (.range a b' c) l.length = false) :
    setOp .lsb0 l b (.range a b' c) = (setOp .msb0 l.reverse b (.range a b' c)).map List.reverse := by
  simp only [setOp, List.length_reverse]
  by_cases hc : c = 0
  · simp only [hc, if_true]; rfl
  · simp only [hc, if_false]
    simp only [setRange, hc, ne_eq, not_false_eq_true, decide_true, Bool.true_and] at h
    cases hh : (Py.rangeList a b' c).head? with
    | none => simp only []; exact setMany_mirror b _ l
    | some first =>
      cases hl : (Py.rangeList a b' c).getLast? with
      | none => simp only []; exact setMany_mirror b _ l
      | some last =>
        rw [hh, hl] at h
        simp only [decide_eq_false_iff_not] at h
        simp only [h, if_false]
        exact setMany_mirror b _ l

end BM.C12
