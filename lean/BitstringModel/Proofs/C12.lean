/-
  Proofs/C12.lean — helper lemmas for Props/C12.lean (index mirror of slices and single positions).
-/
import BitstringModel.Model.C12
import BitstringModel.Proofs.C01
import Mathlib.Tactic.Ring
import Mathlib.Tactic.Linarith
import Mathlib.Data.List.Basic
namespace BM.C12
open BM

end BM.C12
