/-
  Proofs/C12.lean — helper lemmas for Props/C12.lean (index mirror of slices and single positions).
-/
import BitstringModel.Model.C12
import BitstringModel.Proofs.C01
import BitstringModel.Props.C01
import Mathlib.Tactic.Ring
import Mathlib.Tactic.Linarith
import Mathlib.Data.List.Basic
import Mathlib.Data.List.Nodup
namespace BM.C12
open BM

theorem reverse_range_map (m : Nat) : (List.range m).reverse = (List.range m).map (fun k => m - 1 - k) := by
  apply List.ext_getElem?
  intro i
  by_cases h : i < m
  · simp [h]
  · simp [h]

/-- the step a key stands for (`None` = 1). -/
abbrev stepOf (k : Key) : Int := k.step.getD 1
/-- clamped start / stop of a key (`slice.indices`). -/
abbrev nStart (k : Key) (n : Nat) : Int := (Py.sliceIndices k.start k.stop (stepOf k) n).1
abbrev nStop (k : Key) (n : Nat) : Int := (Py.sliceIndices k.start k.stop (stepOf k) n).2.1
/-- number of visited positions. -/
abbrev nCount (k : Key) (n : Nat) : Nat := Py.rangeLen (nStart k n) (nStop k n) (stepOf k)

theorem sliceIndices_pos_bounds (s e : Option Int) (st : Int) (hst : 0 < st) (n : Nat) :
    0 ≤ (Py.sliceIndices s e st n).1 ∧ (Py.sliceIndices s e st n).1 ≤ n ∧
    0 ≤ (Py.sliceIndices s e st n).2.1 ∧ (Py.sliceIndices s e st n).2.1 ≤ n := by
  have h : ¬ st < 0 := by omega
  unfold Py.sliceIndices
  cases s <;> cases e <;> simp only [h, if_false] <;> (try split) <;> (try split) <;> omega

/-- the key `offset_slice_indices_lsb0` builds from the clamped start `s`, the count and the step. -/
def mirKeyOf (s : Int) (cnt : Nat) (st : Int) (n : Nat) (step : Option Int) : Key :=
  if cnt = 0 then
    (if st > 0 then ⟨some ((n : Int) - s), some ((n : Int) - s), step⟩ else ⟨some 0, some 0, step⟩)
  else
    (if st > 0 then ⟨some ((n : Int) - (s + ((cnt : Int) - 1) * st) - 1), some ((n : Int) - s), step⟩
     else ⟨some ((n : Int) - (s + ((cnt : Int) - 1) * st) - 1),
           if (n : Int) - s - 2 ≥ 0 then some ((n : Int) - s - 2) else none, step⟩)

theorem offsetSliceLsb0_eq (k : Key) (n : Nat) (hst : stepOf k ≠ 0) :
    offsetSliceLsb0 k n = .ok (mirKeyOf (nStart k n) (nCount k n) (stepOf k) n k.step) := by
  unfold offsetSliceLsb0 mirKeyOf
  simp only [hst, if_false]
  split <;> split <;> rfl

/-- bounds, after the clamping of the slicing that uses the key, of the mirrored slice:
    start `n - 1 - last`, and a stop one step beyond `n - 1 - first`. -/
theorem mirKeyOf_empty (s : Int) (st : Int) (n : Nat) (step : Option Int) (hst : st ≠ 0)
    (hs : st > 0 → 0 ≤ s ∧ s ≤ n) :
    Py.rangeLen (Py.sliceIndices (mirKeyOf s 0 st n step).start (mirKeyOf s 0 st n step).stop st n).1
      (Py.sliceIndices (mirKeyOf s 0 st n step).start (mirKeyOf s 0 st n step).stop st n).2.1 st = 0 := by
  unfold mirKeyOf
  simp only [if_true]
  by_cases hp : st > 0
  · have hn : ¬ st < 0 := by omega
    have := hs hp
    have h1 : ¬ ((n : Int) - s < 0) := by omega
    simp only [hp, if_true, Py.sliceIndices, hn, if_false, h1, Py.rangeLen]
    simp
  · have hneg : st < 0 := by omega
    simp only [hp, if_false, Py.sliceIndices, hneg, if_true, Py.rangeLen]
    simp

theorem mirKeyOf_nonempty (s : Int) (cnt : Nat) (st : Int) (n : Nat) (step : Option Int) (hst : st ≠ 0)
    (hc : cnt ≠ 0) (hf0 : 0 ≤ s) (hfn : s < n)
    (hl0 : 0 ≤ s + ((cnt : Int) - 1) * st) (hln : s + ((cnt : Int) - 1) * st < n) :
    (Py.sliceIndices (mirKeyOf s cnt st n step).start (mirKeyOf s cnt st n step).stop st n).1
      = (n : Int) - 1 - (s + ((cnt : Int) - 1) * st) ∧
    (Py.sliceIndices (mirKeyOf s cnt st n step).start (mirKeyOf s cnt st n step).stop st n).2.1
      = (if st > 0 then (n : Int) - s else (n : Int) - s - 2) := by
  unfold mirKeyOf
  simp only [hc, if_false]
  generalize s + ((cnt : Int) - 1) * st = last at *
  by_cases hp : st > 0
  · have hn : ¬ st < 0 := by omega
    have h1 : ¬ ((n : Int) - last - 1 < 0) := by omega
    have h2 : ¬ ((n : Int) - s < 0) := by omega
    simp only [hp, if_true, Py.sliceIndices, hn, if_false, h1, h2]
    omega
  · have hneg : st < 0 := by omega
    have h1 : ¬ ((n : Int) - last - 1 < 0) := by omega
    simp only [hp, if_false]
    by_cases h3 : (n : Int) - s - 2 ≥ 0
    · have h4 : ¬ ((n : Int) - s - 2 < 0) := by omega
      simp only [h3, if_true, Py.sliceIndices, hneg, h1, h4, if_false]
      omega
    · simp only [h3, if_false, Py.sliceIndices, hneg, if_true, h1]
      omega

/-- THE index lemma: the slice computed by `offset_slice_indices_lsb0` visits the mirror images `n - 1 - i`
    of the positions the original slice visits, in the opposite order — for every non-zero step. -/
theorem mirror_rangeList (k : Key) (n : Nat) (hst : stepOf k ≠ 0) :
    Py.rangeList
        (Py.sliceIndices (mirKeyOf (nStart k n) (nCount k n) (stepOf k) n k.step).start
          (mirKeyOf (nStart k n) (nCount k n) (stepOf k) n k.step).stop (stepOf k) n).1
        (Py.sliceIndices (mirKeyOf (nStart k n) (nCount k n) (stepOf k) n k.step).start
          (mirKeyOf (nStart k n) (nCount k n) (stepOf k) n k.step).stop (stepOf k) n).2.1 (stepOf k)
      = (Py.rangeList (nStart k n) (nStop k n) (stepOf k)).reverse.map fun i => (n : Int) - 1 - i := by
  by_cases hc : nCount k n = 0
  · have hpb : stepOf k > 0 → 0 ≤ nStart k n ∧ nStart k n ≤ n := fun hp =>
      ⟨(sliceIndices_pos_bounds k.start k.stop (stepOf k) hp n).1, (sliceIndices_pos_bounds k.start k.stop (stepOf k) hp n).2.1⟩
    have h1 := mirKeyOf_empty (nStart k n) (stepOf k) n k.step hst hpb
    rw [hc]
    unfold Py.rangeList
    rw [h1]
    have : Py.rangeLen (nStart k n) (nStop k n) (stepOf k) = 0 := hc
    rw [this]
    rfl
  · have hfirst := C01.sliceIndices_bounds k.start k.stop (stepOf k) hst n 0 (by unfold nCount nStart nStop at hc; omega)
    have hlast := C01.sliceIndices_bounds k.start k.stop (stepOf k) hst n (nCount k n - 1) (by unfold nCount nStart nStop at hc ⊢; omega)
    have hcast : (((nCount k n - 1 : Nat)) : Int) = (nCount k n : Int) - 1 := by omega
    rw [hcast] at hlast
    simp only [Nat.cast_zero, Int.zero_mul, Int.add_zero] at hfirst
    obtain ⟨e1, e2⟩ := mirKeyOf_nonempty (nStart k n) (nCount k n) (stepOf k) n k.step hst hc hfirst.1 hfirst.2 hlast.1 hlast.2
    rw [e1, e2]
    generalize hcnt : nCount k n = cnt at *
    have hcnt' : Py.rangeLen (nStart k n) (nStop k n) (stepOf k) = cnt := hcnt
    generalize nStart k n = s at *
    generalize stepOf k = st at *
    -- the mirrored range has the same number of elements
    have hlen : Py.rangeLen ((n : Int) - 1 - (s + ((cnt : Int) - 1) * st)) (if st > 0 then (n : Int) - s else (n : Int) - s - 2) st = cnt := by
      unfold Py.rangeLen
      by_cases hp : st > 0
      · have h3 : 0 ≤ ((cnt : Int) - 1) * st := Int.mul_nonneg (by omega) (by omega)
        have hlt : (n : Int) - 1 - (s + ((cnt : Int) - 1) * st) < (n : Int) - s := by omega
        simp only [hp, if_true, hlt]
        have : (n : Int) - s - ((n : Int) - 1 - (s + ((cnt : Int) - 1) * st)) - 1 = ((cnt : Int) - 1) * st := by ring
        rw [this, Int.mul_ediv_cancel _ hst]
        omega
      · have hneg : st < 0 := by omega
        have h3 : ((cnt : Int) - 1) * st ≤ 0 := Int.mul_nonpos_of_nonneg_of_nonpos (by omega) (by omega)
        have hlt : (n : Int) - s - 2 < (n : Int) - 1 - (s + ((cnt : Int) - 1) * st) := by omega
        simp only [hp, if_false, hlt, if_true]
        have : (n : Int) - 1 - (s + ((cnt : Int) - 1) * st) - ((n : Int) - s - 2) - 1 = ((cnt : Int) - 1) * (-st) := by ring
        rw [this, Int.mul_ediv_cancel _ (by omega : -st ≠ 0)]
        omega
    unfold Py.rangeList
    rw [hlen, hcnt', ← List.map_reverse, reverse_range_map, List.map_map, List.map_map]
    apply List.map_congr_left
    intro j hj
    simp only [List.mem_range] at hj
    simp only [Function.comp]
    have hc2 : ((cnt - 1 - j : Nat) : Int) = (cnt : Int) - 1 - j := by omega
    rw [hc2]
    ring


theorem mirKeyOf_step (s : Int) (cnt : Nat) (st : Int) (n : Nat) (step : Option Int) :
    (mirKeyOf s cnt st n step).step = step := by
  unfold mirKeyOf; split <;> split <;> rfl

theorem getSlice_opt {α} (l : List α) (a b c : Option Int) (hc : c.getD 1 ≠ 0) :
    Py.getSlice l a b c = .ok ((Py.rangeList (Py.sliceIndices a b (c.getD 1) l.length).1
        (Py.sliceIndices a b (c.getD 1) l.length).2.1 (c.getD 1)).filterMap fun i => l[i.toNat]?) := by
  simp only [Py.getSlice, hc, if_false]
  rfl

/-- members of a normalised range are valid positions. -/
theorem mem_rangeList_bounds (k : Key) (n : Nat) (hst : stepOf k ≠ 0) (i : Int)
    (hi : i ∈ Py.rangeList (nStart k n) (nStop k n) (stepOf k)) : 0 ≤ i ∧ i < n := by
  unfold Py.rangeList at hi
  simp only [List.mem_map, List.mem_range] at hi
  obtain ⟨j, hj, rfl⟩ := hi
  exact C01.sliceIndices_bounds k.start k.stop (stepOf k) hst n j hj

theorem getElem?_reverse_int {α} (l : List α) (i : Int) (h0 : 0 ≤ i) (hn : i < l.length) :
    l.reverse[i.toNat]? = l[((l.length : Int) - 1 - i).toNat]? := by
  rw [List.getElem?_reverse (by omega)]
  congr 1
  omega

theorem offsetSliceLsb0_step_zero (k : Key) (n : Nat) (hst : stepOf k = 0) :
    offsetSliceLsb0 k n = .error .value := by
  unfold offsetSliceLsb0
  have : k.step.getD 1 = 0 := hst
  simp [this]

theorem getslice_mirror (l : Bits) (k : Key) :
    getsliceWithstep .lsb0 l k = (getsliceWithstep .msb0 l.reverse k).map List.reverse := by
  by_cases hst : stepOf k = 0
  · have h0 : k.step.getD 1 = 0 := hst
    simp only [getsliceWithstep, offsetSliceLsb0_step_zero k l.length hst, pyGet, Py.getSlice, h0, if_true]
    rfl
  · have hne : k.step.getD 1 ≠ 0 := hst
    simp only [getsliceWithstep, offsetSliceLsb0_eq k l.length hst, pyGet, mirKeyOf_step]
    rw [getSlice_opt l _ _ _ hne, getSlice_opt l.reverse _ _ _ hne]
    simp only [Except.map, List.length_reverse]
    congr 1
    have hm := mirror_rangeList k l.length hst
    unfold stepOf nStart nStop nCount at hm
    rw [hm, List.filterMap_map, ← List.filterMap_reverse]
    apply List.filterMap_congr
    intro i hi
    rw [List.mem_reverse] at hi
    have hb := mem_rangeList_bounds k l.length hst i hi
    simp only [Function.comp]
    rw [getElem?_reverse_int l i hb.1 hb.2]

theorem reverse_filterMap_range {β} (n : Nat) (f : Nat → Option β) :
    ((List.range n).filterMap f).reverse = (List.range n).filterMap (fun j => f (n - 1 - j)) := by
  rw [← List.filterMap_reverse, reverse_range_map, List.filterMap_map]
  rfl

/-- membership in the mirrored index list. -/
theorem mem_mirror_iff (idx : List Int) (n : Nat) (j : Nat) (hj : j < n) :
    (j : Int) ∈ (idx.reverse.map fun i => (n : Int) - 1 - i) ↔ (((n - 1 - j : Nat) : Int)) ∈ idx := by
  simp only [List.mem_map, List.mem_reverse]
  constructor
  · rintro ⟨i, hi, h⟩
    have : i = ((n - 1 - j : Nat) : Int) := by omega
    rwa [← this]
  · intro h
    exact ⟨_, h, by omega⟩

theorem getElem?_reverse_nat {α} (l : List α) (j : Nat) (hj : j < l.length) :
    l.reverse[l.length - 1 - j]? = l[j]? := by
  rw [List.getElem?_reverse (by omega)]
  congr 1
  omega

theorem delslice_mirror (l : Bits) (k : Key) :
    delitemSlice .lsb0 l k = (delitemSlice .msb0 l.reverse k).map List.reverse := by
  by_cases hst : stepOf k = 0
  · have h0 : k.step.getD 1 = 0 := hst
    simp only [delitemSlice, offsetSliceLsb0_step_zero k l.length hst, pyDel, h0, if_true]
    rfl
  · have hne : k.step.getD 1 ≠ 0 := hst
    simp only [delitemSlice, offsetSliceLsb0_eq k l.length hst, pyDel, mirKeyOf_step, hne, if_false,
      Except.map, List.length_reverse]
    congr 1
    have hm := mirror_rangeList k l.length hst
    unfold stepOf nStart nStop nCount at hm
    rw [hm, reverse_filterMap_range]
    apply List.filterMap_congr
    intro j hj
    simp only [List.mem_range] at hj
    have hmem := mem_mirror_iff (Py.rangeList (nStart k l.length) (nStop k l.length) (stepOf k)) l.length j hj
    unfold stepOf nStart nStop at hmem
    by_cases hin : ((l.length - 1 - j : Nat) : Int) ∈ Py.rangeList (Py.sliceIndices k.start k.stop (k.step.getD 1) l.length).1
            (Py.sliceIndices k.start k.stop (k.step.getD 1) l.length).2.1 (k.step.getD 1)
    · simp only [hmem.mpr hin, hin, if_true]
    · have : ¬ _ := fun h => hin (hmem.mp h)
      simp only [this, hin, if_false]
      exact (getElem?_reverse_nat l j hj).symm

/-- lookup through an injective renaming of the keys. -/
theorem lookup_map_key {β} (φ : Int → Int) (hφ : Function.Injective φ) (A : List (Int × β)) (a : Int) :
    (A.map (Prod.map φ id)).lookup (φ a) = A.lookup a := by
  induction A with
  | nil => rfl
  | cons x xs ih =>
    obtain ⟨k, b⟩ := x
    simp only [List.map_cons, Prod.map, id, List.lookup_cons]
    by_cases h : a = k
    · subst h; simp
    · have h1 : (a == k) = false := by simpa using h
      have h2 : (φ a == φ k) = false := by simpa using fun hh => h (hφ hh)
      rw [h1, h2]; exact ih

/-- with pairwise distinct keys the order of an association list is irrelevant for `lookup`. -/
theorem lookup_reverse_of_nodup {β} (A : List (Int × β)) (hA : (A.map Prod.fst).Nodup) (a : Int) :
    A.reverse.lookup a = A.lookup a := by
  induction A with
  | nil => rfl
  | cons x xs ih =>
    obtain ⟨k, b⟩ := x
    simp only [List.map_cons, List.nodup_cons] at hA
    rw [List.reverse_cons, List.lookup_append, ih hA.2]
    simp only [List.lookup_cons, List.lookup_nil]
    by_cases h : a = k
    · subst h
      have hnone : xs.lookup a = none := by
        rw [List.lookup_eq_none_iff]
        intro p hp
        have : p.1 ≠ a := fun hh => hA.1 (hh ▸ List.mem_map_of_mem (f := Prod.fst) hp)
        simpa [bne_iff_ne] using fun hh => this hh.symm
      simp [hnone]
    · have h1 : (a == k) = false := by simpa using h
      simp [h1]

theorem rangeList_nodup (s e st : Int) (hst : st ≠ 0) : (Py.rangeList s e st).Nodup := by
  unfold Py.rangeList
  apply List.Nodup.map_on _ List.nodup_range
  intro a _ b _ h
  have : (a : Int) * st = (b : Int) * st := by omega
  have := Int.eq_of_mul_eq_mul_right hst this
  omega


theorem assignAt_mirror {α} (l : List α) (idx : List Int) (v : List α)
    (hlen : v.length = idx.length) (hnd : idx.Nodup) :
    assignAt l (idx.reverse.map fun i => (l.length : Int) - 1 - i) v
      = (assignAt l.reverse idx v.reverse).reverse := by
  unfold assignAt
  rw [reverse_filterMap_range, List.length_reverse]
  apply List.filterMap_congr
  intro j hj
  simp only [List.mem_range] at hj
  have hφ : Function.Injective (fun i : Int => (l.length : Int) - 1 - i) := by
    intro a b h; simp only at h; omega
  have hj' : (j : Int) = (fun i : Int => (l.length : Int) - 1 - i) (((l.length - 1 - j : Nat) : Int)) := by
    simp only; omega
  have hA : ((idx.reverse.zip v).map Prod.fst).Nodup := by
    rw [List.map_fst_zip (by simp [hlen])]
    exact List.nodup_reverse.mpr hnd
  have hrev : (idx.reverse.zip v).reverse = idx.zip v.reverse := by
    rw [List.zip_eq_zipWith, List.reverse_zipWith (by simp [hlen]), List.reverse_reverse, ← List.zip_eq_zipWith]
  rw [List.zip_map_left, hj', lookup_map_key _ hφ, ← lookup_reverse_of_nodup _ hA, hrev]
  rw [getElem?_reverse_nat l j hj]


theorem rangeList_length (s e st : Int) : (Py.rangeList s e st).length = Py.rangeLen s e st := by
  simp [Py.rangeList]

/-- bounds of the mirrored slice for a step-less / step-1 key: `[n - max stop start, n - start)`. -/
theorem mirKeyOf_step1 (s e : Int) (n : Nat) (step : Option Int) (hs : 0 ≤ s) (hsn : s ≤ n) (he : 0 ≤ e) (hen : e ≤ n) :
    (Py.sliceIndices (mirKeyOf s (e - s).toNat 1 n step).start (mirKeyOf s (e - s).toNat 1 n step).stop 1 n).1
      = (n : Int) - max e s ∧
    (Py.sliceIndices (mirKeyOf s (e - s).toNat 1 n step).start (mirKeyOf s (e - s).toNat 1 n step).stop 1 n).2.1
      = (n : Int) - s := by
  have hp : (1 : Int) > 0 := by omega
  have hn : ¬ ((1 : Int) < 0) := by omega
  unfold mirKeyOf
  by_cases hc : (e - s).toNat = 0
  · have h2 : ¬ ((n : Int) - s < 0) := by omega
    simp only [hc, if_true, hp, Py.sliceIndices, hn, if_false, h2]
    omega
  · have h2 : ¬ ((n : Int) - s < 0) := by omega
    have h3 : ¬ ((n : Int) - (s + (((e - s).toNat : Int) - 1) * 1) - 1 < 0) := by omega
    simp only [hc, if_false, hp, if_true, Py.sliceIndices, hn, h2, h3]
    omega

theorem mirror_step1 (k : Key) (n : Nat) (h1 : stepOf k = 1) :
    (Py.sliceIndices (mirKeyOf (nStart k n) (nCount k n) (stepOf k) n k.step).start
        (mirKeyOf (nStart k n) (nCount k n) (stepOf k) n k.step).stop (stepOf k) n).1
      = (n : Int) - max (nStop k n) (nStart k n) ∧
    (Py.sliceIndices (mirKeyOf (nStart k n) (nCount k n) (stepOf k) n k.step).start
        (mirKeyOf (nStart k n) (nCount k n) (stepOf k) n k.step).stop (stepOf k) n).2.1
      = (n : Int) - nStart k n := by
  have hpb := sliceIndices_pos_bounds k.start k.stop (stepOf k) (by omega) n
  have hcnt : nCount k n = (nStop k n - nStart k n).toNat := by
    unfold nCount; rw [h1]; exact C01.rangeLen_one _ _
  rw [hcnt, h1]
  exact mirKeyOf_step1 (nStart k n) (nStop k n) n k.step hpb.1 hpb.2.1 hpb.2.2.1 hpb.2.2.2

theorem setslice_mirror (l : Bits) (k : Key) (v : Bits) :
    setitemSlice .lsb0 l k v = (setitemSlice .msb0 l.reverse k v.reverse).map List.reverse := by
  by_cases hst : stepOf k = 0
  · have h0 : k.step.getD 1 = 0 := hst
    simp only [setitemSlice, offsetSliceLsb0_step_zero k l.length hst, pySet, h0, if_true]
    rfl
  · have hne : k.step.getD 1 ≠ 0 := hst
    simp only [setitemSlice, offsetSliceLsb0_eq k l.length hst, pySet, mirKeyOf_step, hne, if_false, List.length_reverse]
    by_cases h1 : k.step.getD 1 = 1
    · -- resizing assignment
      simp only [h1, if_true, Except.map]
      congr 1
      obtain ⟨e1, e2⟩ := mirror_step1 k l.length h1
      have hpb := sliceIndices_pos_bounds k.start k.stop (k.step.getD 1) (by omega) l.length
      dsimp only [stepOf, nStart, nStop, nCount] at e1 e2 ⊢
      simp only [h1] at e1 e2 hpb ⊢
      rw [e1, e2]
      generalize (Py.sliceIndices k.start k.stop 1 l.length).1 = s at *
      generalize (Py.sliceIndices k.start k.stop 1 l.length).2.1 = e at *
      have x1 : ((l.length : Int) - max e s).toNat = l.length - (max e s).toNat := by omega
      have x2 : (max ((l.length : Int) - s) ((l.length : Int) - max e s)).toNat = l.length - s.toNat := by omega
      rw [x1, x2, List.reverse_append, List.reverse_append, List.reverse_reverse, List.reverse_drop, List.reverse_take,
        List.reverse_reverse, List.length_reverse, List.append_assoc]
    · -- extended slice
      simp only [h1, if_false]
      have hm := mirror_rangeList k l.length hst
      unfold stepOf nStart nStop nCount at hm
      rw [hm]
      simp only [List.length_map, List.length_reverse]
      split
      · rfl
      · rename_i hlen
        simp only [Except.map]
        congr 1
        have hlen' : v.length = (Py.rangeList (Py.sliceIndices k.start k.stop (k.step.getD 1) l.length).1
            (Py.sliceIndices k.start k.stop (k.step.getD 1) l.length).2.1 (k.step.getD 1)).length := by
          simpa using hlen
        exact assignAt_mirror l _ v hlen' (rangeList_nodup _ _ _ hne)

theorem setbit_mirror (l : Bits) (k : Key) (b : Bool) :
    setitemSliceBit .lsb0 l k b = (setitemSliceBit .msb0 l.reverse k b).map List.reverse := by
  by_cases hst : stepOf k = 0
  · have h0 : k.step.getD 1 = 0 := hst
    simp only [setitemSliceBit, offsetSliceLsb0_step_zero k l.length hst, pySetBit, h0, if_true]
    rfl
  · have hne : k.step.getD 1 ≠ 0 := hst
    simp only [setitemSliceBit, offsetSliceLsb0_eq k l.length hst, pySetBit, mirKeyOf_step, hne, if_false,
      List.length_reverse, Except.map]
    congr 1
    have hm := mirror_rangeList k l.length hst
    unfold stepOf nStart nStop nCount at hm
    rw [hm]
    simp only [List.length_map, List.length_reverse]
    have := assignAt_mirror l (Py.rangeList (Py.sliceIndices k.start k.stop (k.step.getD 1) l.length).1
        (Py.sliceIndices k.start k.stop (k.step.getD 1) l.length).2.1 (k.step.getD 1))
      (List.replicate (Py.rangeList (Py.sliceIndices k.start k.stop (k.step.getD 1) l.length).1
        (Py.sliceIndices k.start k.stop (k.step.getD 1) l.length).2.1 (k.step.getD 1)).length b)
      (by simp) (rangeList_nodup _ _ _ hne)
    rw [List.reverse_replicate] at this
    exact this

theorem reverse_eq_of_getElem? {α} (x y : List α) (hlen : x.length = y.length)
    (h : ∀ i, i < y.length → x[y.length - 1 - i]? = y[i]?) : x.reverse = y := by
  apply List.ext_getElem?
  intro i
  by_cases hi : i < y.length
  · rw [List.getElem?_reverse (by omega), hlen]; exact h i hi
  · rw [List.getElem?_eq_none (by simp; omega), List.getElem?_eq_none (by omega)]

theorem pyIndex_mirror (n : Nat) (i : Int) :
    pyIndex n (-i - 1) = (pyIndex n i).map fun j => n - 1 - j := by
  unfold pyIndex
  by_cases h : i < 0
  · have h1 : ¬ (-i - 1 < 0) := by omega
    simp only [h, h1, if_true, if_false]
    by_cases h2 : i + n < 0
    · have : (n : Int) ≤ -i - 1 := by omega
      simp [h2, this, Except.map]
    · have h3 : ¬ ((n : Int) ≤ -i - 1) := by omega
      have h4 : ¬ ((n : Int) ≤ i + n) := by omega
      simp only [h2, h3, h4, or_self, if_false, Except.map]
      congr 1; omega
  · have h1 : (-i - 1 < 0) := by omega
    simp only [h, h1, if_true, if_false]
    by_cases h2 : (n : Int) ≤ i
    · have : -i - 1 + n < 0 := by omega
      simp [h2, this, Except.map]
    · have h3 : ¬ (-i - 1 + (n : Int) < 0) := by omega
      have h4 : ¬ ((n : Int) ≤ -i - 1 + n) := by omega
      have h5 : ¬ (i < 0) := h
      simp only [h2, h3, h4, or_self, if_false, Except.map]
      congr 1; omega

theorem pyIndex_lt (n : Nat) (i : Int) (j : Nat) (h : pyIndex n i = .ok j) : j < n := by
  simp only [pyIndex] at h
  by_cases hc : (if i < 0 then i + (n : Int) else i) < 0 ∨ (n : Int) ≤ (if i < 0 then i + (n : Int) else i)
  · rw [if_pos hc] at h; cases h
  · rw [if_neg hc] at h
    injection h with h
    split at hc <;> split at h <;> omega

theorem set_mirror (l : Bits) (j : Nat) (hj : j < l.length) (b : Bool) :
    (l.reverse.set j b).reverse = l.set (l.length - 1 - j) b := by
  apply reverse_eq_of_getElem? _ _ (by simp)
  intro i hi
  simp only [List.length_set] at hi ⊢
  rw [List.getElem?_set, List.getElem?_set, List.length_reverse, List.getElem?_reverse (by omega)]
  have e : l.length - 1 - (l.length - 1 - i) = i := by omega
  rw [e]
  by_cases h : j = l.length - 1 - i
  · have h' : l.length - 1 - j = i := by omega
    have h2 : l.length - 1 - j < l.length := by omega
    rw [if_pos h, if_pos h', if_pos hj, if_pos h2]
  · have h' : ¬ (l.length - 1 - j = i) := by omega
    rw [if_neg h, if_neg h']

theorem modify_mirror (l : Bits) (j : Nat) (hj : j < l.length) (f : Bool → Bool) :
    (l.reverse.modify j f).reverse = l.modify (l.length - 1 - j) f := by
  apply reverse_eq_of_getElem? _ _ (by simp)
  intro i hi
  simp only [List.length_modify] at hi ⊢
  rw [List.getElem?_modify, List.getElem?_modify, List.getElem?_reverse (by omega)]
  have e : l.length - 1 - (l.length - 1 - i) = i := by omega
  rw [e]
  by_cases h : j = l.length - 1 - i
  · have h' : l.length - 1 - j = i := by omega
    simp only [h', if_true]
    simp [← h]
  · have h' : ¬ (l.length - 1 - j = i) := by omega
    simp only [h', if_false]
    simp [h]

theorem eraseIdx_mirror (l : Bits) (j : Nat) (hj : j < l.length) :
    (l.reverse.eraseIdx j).reverse = l.eraseIdx (l.length - 1 - j) := by
  apply reverse_eq_of_getElem? _ _ (by simp [List.length_eraseIdx]; split <;> split <;> omega)
  intro i hi
  have hlen : (l.eraseIdx (l.length - 1 - j)).length = l.length - 1 := by
    rw [List.length_eraseIdx]; split <;> omega
  rw [hlen] at hi ⊢
  rw [List.getElem?_eraseIdx, List.getElem?_eraseIdx]
  by_cases h : l.length - 1 - 1 - i < j
  · have h' : ¬ (i < l.length - 1 - j) := by omega
    simp only [h, h', if_true, if_false]
    rw [List.getElem?_reverse (by omega)]
    congr 1; omega
  · have h' : i < l.length - 1 - j := by omega
    simp only [h, h', if_true, if_false]
    rw [List.getElem?_reverse (by omega)]
    congr 1; omega


theorem getIndex_eq_pyIndex (l : Bits) (i : Int) :
    Py.getIndex l i = match pyIndex l.length i with
      | .error e => .error e
      | .ok j => match l[j]? with
        | some x => .ok x
        | none => .error .index := by
  unfold Py.getIndex pyIndex
  simp only []
  by_cases h : (if i < 0 then i + (l.length : Int) else i) < 0
  · simp [h]
  · by_cases h2 : (l.length : Int) ≤ (if i < 0 then i + (l.length : Int) else i)
    · simp only [h, h2, if_false, or_true, if_true]
      rw [List.getElem?_eq_none (by omega)]
    · simp only [h, h2, if_false, or_self]
      cases l[(if i < 0 then i + (l.length : Int) else i).toNat]? <;> rfl

theorem getindex_mirror (l : Bits) (i : Int) : getindex .lsb0 l i = getindex .msb0 l.reverse i := by
  simp only [getindex, pyGetIdx, getIndex_eq_pyIndex, List.length_reverse, pyIndex_mirror]
  cases h : pyIndex l.length i with
  | error e => rfl
  | ok j =>
    have hj := pyIndex_lt _ _ _ h
    simp only [Except.map]
    rw [List.getElem?_reverse (by omega)]

theorem setitemIdx_mirror (l : Bits) (i : Int) (b : Bool) :
    setitemIdx .lsb0 l i b = (setitemIdx .msb0 l.reverse i b).map List.reverse := by
  simp only [setitemIdx, pySetIdx, List.length_reverse, pyIndex_mirror]
  cases h : pyIndex l.length i with
  | error e => rfl
  | ok j =>
    have hj := pyIndex_lt _ _ _ h
    simp only [Except.map, bind, Except.bind, pure, Except.pure]
    rw [set_mirror l j hj]

theorem delitemIdx_mirror (l : Bits) (i : Int) :
    delitemIdx .lsb0 l i = (delitemIdx .msb0 l.reverse i).map List.reverse := by
  simp only [delitemIdx, pyDelIdx, List.length_reverse, pyIndex_mirror]
  cases h : pyIndex l.length i with
  | error e => rfl
  | ok j =>
    have hj := pyIndex_lt _ _ _ h
    simp only [Except.map, bind, Except.bind, pure, Except.pure]
    rw [eraseIdx_mirror l j hj]

theorem invertIdx_mirror (l : Bits) (i : Int) :
    invertIdx .lsb0 l i = (invertIdx .msb0 l.reverse i).map List.reverse := by
  simp only [invertIdx, pyInvertIdx, List.length_reverse, pyIndex_mirror]
  cases h : pyIndex l.length i with
  | error e => rfl
  | ok j =>
    have hj := pyIndex_lt _ _ _ h
    simp only [Except.map, bind, Except.bind, pure, Except.pure]
    rw [modify_mirror l j hj]

theorem setMany_mirror (b : Bool) (ps : List Int) (l : Bits) :
    setMany .lsb0 b l ps = (setMany .msb0 b l.reverse ps).map List.reverse := by
  induction ps generalizing l with
  | nil => simp [setMany, Except.map]
  | cons p ps ih =>
    simp only [setMany, setitemIdx_mirror l p b]
    cases h : setitemIdx .msb0 l.reverse p b with
    | error e => rfl
    | ok l' =>
      simp only [Except.map]
      rw [ih l'.reverse, List.reverse_reverse]
      rfl

theorem invertMany_mirror (ps : List Int) (l : Bits) :
    invertMany .lsb0 l ps = (invertMany .msb0 l.reverse ps).map List.reverse := by
  induction ps generalizing l with
  | nil => simp [invertMany, Except.map]
  | cons p ps ih =>
    simp only [invertMany, List.length_reverse]
    generalize (if p < 0 then p + (l.length : Int) else p) = q
    by_cases hq : q < 0 ∨ (l.length : Int) ≤ q
    · simp only [hq, if_true]; rfl
    · simp only [hq, if_false]
      rw [invertIdx_mirror]
      cases h : invertIdx .msb0 l.reverse q with
      | error e => rfl
      | ok l' =>
        simp only [Except.map]
        rw [ih l'.reverse, List.reverse_reverse]
        rfl

theorem allAt_mirror (b : Bool) (ps : List Int) (l : Bits) : allAt .lsb0 l b ps = allAt .msb0 l.reverse b ps := by
  induction ps with
  | nil => rfl
  | cons p ps ih => simp only [allAt, getindex_mirror, ih]

theorem anyAt_mirror (b : Bool) (ps : List Int) (l : Bits) : anyAt .lsb0 l b ps = anyAt .msb0 l.reverse b ps := by
  induction ps with
  | nil => rfl
  | cons p ps ih => simp only [anyAt, getindex_mirror, ih]


theorem sliceStep1_eq {α} (l : List α) (a b : Option Int) : Py.getSlice l a b none = .ok (sliceStep1 l a b) :=
  C01.getSlice_step1 l a b

theorem getslice_eq_withstep (m : Mode) (l : Bits) (a b : Option Int) :
    getslice m l a b = getsliceWithstep m l ⟨a, b, none⟩ := by
  cases m with
  | msb0 => simp only [getslice, getsliceWithstep, getsliceMsb0, pyGet, sliceStep1_eq]
  | lsb0 =>
    simp only [getslice, getsliceWithstep]
    rw [offsetSliceLsb0_eq ⟨a, b, none⟩ l.length (by simp [stepOf])]
    simp only [pyGet, mirKeyOf_step, sliceStep1_eq]

theorem getslice2_mirror (l : Bits) (a b : Option Int) :
    getslice .lsb0 l a b = (getslice .msb0 l.reverse a b).map List.reverse := by
  rw [getslice_eq_withstep, getslice_eq_withstep]
  exact getslice_mirror l ⟨a, b, none⟩

theorem step_zero_raises (m : Mode) (l v : Bits) (a b : Option Int) :
    getsliceWithstep m l ⟨a, b, some 0⟩ = .error .value ∧ delitemSlice m l ⟨a, b, some 0⟩ = .error .value ∧
    setitemSlice m l ⟨a, b, some 0⟩ v = .error .value := by
  have h : offsetSliceLsb0 ⟨a, b, some 0⟩ l.length = .error .value := offsetSliceLsb0_step_zero _ _ rfl
  cases m with
  | msb0 => exact ⟨by simp [getsliceWithstep, pyGet, Py.getSlice], by simp [delitemSlice, pyDel], by simp [setitemSlice, pySet]⟩
  | lsb0 => exact ⟨by simp only [getsliceWithstep, h], by simp only [delitemSlice, h], by simp only [setitemSlice, h]⟩

theorem setOp_range_mirror (l : Bits) (b : Bool) (a b' c : Int) :
    setOp .lsb0 l b (.range a b' c) = (setOp .msb0 l.reverse b (.range a b' c)).map List.reverse := by
  simp only [setOp, List.length_reverse]
  by_cases hc : c = 0
  · simp only [hc, if_true]; rfl
  · simp only [hc, if_false]
    cases hh : (Py.rangeList a b' c).head? with
    | none => simp only []; exact setMany_mirror b _ l
    | some first =>
      cases hl : (Py.rangeList a b' c).getLast? with
      | none => simp only []; exact setMany_mirror b _ l
      | some last =>
        simp only []
        split
        · exact setbit_mirror l _ b
        · exact setMany_mirror b _ l

end BM.C12
