/-
  Proofs/C03Replace.lean — helper lemmas for the C03 property files.
-/
import BitstringModel.Model.C03
import BitstringModel.Proofs.C03
import Mathlib.Tactic.Ring
import Mathlib.Tactic.Linarith
import Mathlib.Data.List.Basic
namespace BM.C03
open BM

end BM.C03
