/-
  Proofs/C03Replace.lean — helper lemmas for Props/C03_Replace.lean (`occ`, the greedy `select`, the collecting loop
  of `_replace`, the rebuild as a closed form of the successive splices).  Everything lives in the sub-namespace
  `BM.C03.Replace` so that the names cannot collide with the helper files of the other C03 parts.
-/
import BitstringModel.Model.C03
import BitstringModel.Proofs.C03
import Mathlib.Tactic.Ring
import Mathlib.Tactic.Linarith
import Mathlib.Data.List.Basic
namespace BM.C03.Replace
open BM BM.C03

theorem occ_mem_iff' (l old : Bits) (s e : Nat) (al : Bool) (p : Nat) :
    p ∈ occ l old s e al ↔
      (s ≤ p ∧ p + old.length ≤ e ∧ slc l p (p + old.length) = old ∧ (al = true → p % 8 = 0)) := by
  unfold occ matchAt
  simp only [List.mem_filter, List.mem_map, List.mem_range, Bool.and_eq_true, beq_iff_eq, Bool.or_eq_true,
    Bool.not_eq_true']
  constructor
  · rintro ⟨⟨i, hi, rfl⟩, h1, h2⟩
    refine ⟨by omega, by omega, h1, ?_⟩
    intro ha
    rcases h2 with h2 | h2
    · rw [ha] at h2; cases h2
    · exact h2
  · rintro ⟨h1, h2, h3, h4⟩
    refine ⟨⟨p - s, by omega, by omega⟩, h3, ?_⟩
    cases al
    · left; rfl
    · right; exact h4 rfl

theorem occ_sorted' (l old : Bits) (s e : Nat) (al : Bool) : (occ l old s e al).Pairwise (· < ·) := by
  unfold occ
  apply List.Pairwise.filter
  rw [List.pairwise_map]
  exact List.Pairwise.imp (fun h => by omega) List.pairwise_lt_range

theorem select_sublist' (oldLen : Nat) (b : Option Nat) (m : Nat) (xs : List Nat) :
    (Spec.select oldLen b m xs).Sublist xs := by
  fun_induction Spec.select oldLen b m xs with
  | case1 => exact List.Sublist.slnil
  | case2 => exact List.nil_sublist _
  | case3 b m x xs hb hm ih => exact List.Sublist.cons_cons _ ih
  | case4 b m x xs hb hm ih => exact List.Sublist.cons _ ih

theorem select_ge (oldLen : Nat) (b : Option Nat) (m : Nat) (xs : List Nat) :
    ∀ p ∈ Spec.select oldLen b m xs, m ≤ p := by
  fun_induction Spec.select oldLen b m xs with
  | case1 => simp
  | case2 => simp
  | case3 b m x xs hb hm ih =>
    intro p hp
    rw [List.mem_cons] at hp
    rcases hp with rfl | hp
    · exact hm
    · have := ih p hp; omega
  | case4 b m x xs hb hm ih => exact ih

theorem select_pairwise (oldLen : Nat) (b : Option Nat) (m : Nat) (xs : List Nat) :
    (Spec.select oldLen b m xs).Pairwise (fun p q => p + oldLen ≤ q) := by
  fun_induction Spec.select oldLen b m xs with
  | case1 => exact List.Pairwise.nil
  | case2 => exact List.Pairwise.nil
  | case3 b m x xs hb hm ih =>
    rw [List.pairwise_cons]
    exact ⟨select_ge _ _ _ _, ih⟩
  | case4 b m x xs hb hm ih => exact ih

theorem select_le_budget' (oldLen c m : Nat) (xs : List Nat) : (Spec.select oldLen (some c) m xs).length ≤ c := by
  induction xs generalizing c m with
  | nil => simp [Spec.select]
  | cons x xs ih =>
    cases c with
    | zero => simp [Spec.select]
    | succ c =>
      rw [Spec.select]
      · split
        · simp only [Option.map_some, List.length_cons, Nat.add_sub_cancel]
          have := ih c (x + oldLen)
          omega
        · have := ih (c + 1) m
          omega
      · simp


/-! ### equations of `select` -/

theorem select_nil (oldLen : Nat) (b : Option Nat) (m : Nat) : Spec.select oldLen b m [] = [] := by
  simp [Spec.select]

theorem select_zero (oldLen m : Nat) (xs : List Nat) : Spec.select oldLen (some 0) m xs = [] := by
  cases xs <;> simp [Spec.select]

theorem select_cons_none (oldLen m x : Nat) (xs : List Nat) :
    Spec.select oldLen none m (x :: xs) =
      if m ≤ x then x :: Spec.select oldLen none (x + oldLen) xs else Spec.select oldLen none m xs := by
  rw [Spec.select]
  · rfl
  · simp

theorem select_cons_succ (oldLen k m x : Nat) (xs : List Nat) :
    Spec.select oldLen (some (k + 1)) m (x :: xs) =
      if m ≤ x then x :: Spec.select oldLen (some k) (x + oldLen) xs else Spec.select oldLen (some (k + 1)) m xs := by
  rw [Spec.select]
  · rfl
  · simp

theorem select_maximal' (oldLen : Nat) (m : Nat) (xs : List Nat) (hs : xs.Pairwise (· < ·))
    (x : Nat) (hx : x ∈ xs) (hm : m ≤ x) (hnot : x ∉ Spec.select oldLen none m xs) :
    ∃ p ∈ Spec.select oldLen none m xs, p < x ∧ x < p + oldLen := by
  induction xs generalizing m with
  | nil => cases hx
  | cons y ys ih =>
    rw [List.pairwise_cons] at hs
    rw [select_cons_none] at hnot ⊢
    by_cases hmy : m ≤ y
    · rw [if_pos hmy] at hnot ⊢
      rw [List.mem_cons, not_or] at hnot
      rw [List.mem_cons] at hx
      rcases hx with rfl | hx
      · exact absurd rfl hnot.1
      · have hyx := hs.1 x hx
        by_cases hov : x < y + oldLen
        · exact ⟨y, List.mem_cons_self, hyx, hov⟩
        · obtain ⟨p, hp, h1, h2⟩ := ih (y + oldLen) hs.2 hx (by omega) hnot.2
          exact ⟨p, List.mem_cons_of_mem _ hp, h1, h2⟩
    · rw [if_neg hmy] at hnot ⊢
      rw [List.mem_cons] at hx
      rcases hx with rfl | hx
      · omega
      · exact ih m hs.2 hx hm hnot

/-! ### the collecting loop -/

theorem collect_nil (oldLen : Nat) (cnt : Int) (sp : List Nat) : Alg.collect oldLen cnt [] sp = sp := by
  simp [Alg.collect]

theorem collect_cons_some (oldLen : Nat) (cnt : Int) (x : Nat) (xs sp : List Nat) (last : Nat)
    (hl : sp.getLast? = some last) :
    Alg.collect oldLen cnt (x :: xs) sp =
      if last + oldLen ≤ x then
        (if cnt ≠ 0 ∧ ((sp ++ [x]).length : Int) = cnt then sp ++ [x] else Alg.collect oldLen cnt xs (sp ++ [x]))
      else
        (if cnt ≠ 0 ∧ (sp.length : Int) = cnt then sp else Alg.collect oldLen cnt xs sp) := by
  rw [Alg.collect]
  simp only [hl, ge_iff_le]
  split <;> rfl

theorem collect_cons_nil (oldLen : Nat) (cnt : Int) (x : Nat) (xs : List Nat) :
    Alg.collect oldLen cnt (x :: xs) [] =
      if cnt ≠ 0 ∧ (1 : Int) = cnt then [x] else Alg.collect oldLen cnt xs [x] := by
  rw [Alg.collect]
  simp

/-- no limit (`count` is `None`, i.e. 0, or negative). -/
theorem collect_unbounded (oldLen : Nat) (cnt : Int) (hc : cnt ≤ 0) (xs sp : List Nat) (last : Nat)
    (hl : sp.getLast? = some last) :
    Alg.collect oldLen cnt xs sp = sp ++ Spec.select oldLen none (last + oldLen) xs := by
  induction xs generalizing sp last with
  | nil => rw [collect_nil, select_nil, List.append_nil]
  | cons x xs ih =>
    rw [collect_cons_some oldLen cnt x xs sp last hl, select_cons_none]
    have h1 : ¬ (cnt ≠ 0 ∧ ((sp ++ [x]).length : Int) = cnt) := by
      rintro ⟨h0, h1⟩; omega
    have h2 : ¬ (cnt ≠ 0 ∧ (sp.length : Int) = cnt) := by
      rintro ⟨h0, h1⟩; omega
    rw [if_neg h1, if_neg h2]
    by_cases hx : last + oldLen ≤ x
    · rw [if_pos hx, if_pos hx, ih (sp ++ [x]) x (by simp)]
      simp
    · rw [if_neg hx, if_neg hx, ih sp last hl]

/-- a positive limit `c`, not yet reached. -/
theorem collect_bounded (oldLen : Nat) (c : Nat) (xs sp : List Nat) (last : Nat)
    (hl : sp.getLast? = some last) (hlt : sp.length < c) :
    Alg.collect oldLen (c : Int) xs sp = sp ++ Spec.select oldLen (some (c - sp.length)) (last + oldLen) xs := by
  induction xs generalizing sp last with
  | nil => rw [collect_nil, select_nil, List.append_nil]
  | cons x xs ih =>
    obtain ⟨k, hk⟩ : ∃ k, c - sp.length = k + 1 := ⟨c - sp.length - 1, by omega⟩
    rw [collect_cons_some oldLen c x xs sp last hl, hk, select_cons_succ]
    have h2 : ¬ ((c : Int) ≠ 0 ∧ (sp.length : Int) = (c : Int)) := by
      rintro ⟨h0, h1⟩; omega
    rw [if_neg h2]
    by_cases hx : last + oldLen ≤ x
    · rw [if_pos hx, if_pos hx]
      by_cases hfull : sp.length + 1 = c
      · have hk0 : k = 0 := by omega
        rw [if_pos ⟨by omega, by simp; omega⟩, hk0, select_zero]
      · rw [if_neg (by rintro ⟨h0, h1⟩; simp at h1; omega),
          ih (sp ++ [x]) x (by simp) (by simp; omega)]
        have : c - (sp ++ [x]).length = k := by simp; omega
        rw [this]
        simp
    · rw [if_neg hx, if_neg hx, ih sp last hl hlt, hk]

theorem budget_cases (count : Option Int) (hc : count ≠ some 0) :
    (Spec.budget count = none ∧ count.getD 0 ≤ 0) ∨
    (∃ c : Nat, 0 < c ∧ Spec.budget count = some c ∧ count.getD 0 = (c : Int)) := by
  cases count with
  | none => left; simp [Spec.budget]
  | some v =>
    by_cases hv : v < 0
    · left; simp [Spec.budget, hv]; omega
    · right
      refine ⟨v.toNat, ?_, by simp [Spec.budget, hv], by simp; omega⟩
      have : v ≠ 0 := fun h => hc (by rw [h])
      omega

theorem collect_eq_select' (oldLen : Nat) (count : Option Int) (hc : count ≠ some 0) (xs : List Nat) :
    Alg.collect oldLen (count.getD 0) xs [] = Spec.select oldLen (Spec.budget count) 0 xs := by
  cases xs with
  | nil => rw [collect_nil, select_nil]
  | cons x xs =>
    rw [collect_cons_nil]
    rcases budget_cases count hc with ⟨hb, hle⟩ | ⟨c, hpos, hb, hcnt⟩
    · rw [hb, select_cons_none, if_pos (Nat.zero_le _), if_neg (by rintro ⟨h0, h1⟩; omega),
        collect_unbounded oldLen _ hle xs [x] x (by simp)]
      simp
    · rw [hb, hcnt]
      obtain ⟨k, rfl⟩ : ∃ k, c = k + 1 := ⟨c - 1, by omega⟩
      rw [select_cons_succ, if_pos (Nat.zero_le _)]
      by_cases hk : k = 0
      · subst hk
        rw [if_pos ⟨by omega, by simp⟩, select_zero]
      · rw [if_neg (by rintro ⟨h0, h1⟩; omega), collect_bounded oldLen (k + 1) xs [x] x (by simp) (by simp; omega)]
        simp


/-! ### the rebuild -/

theorem spliceAll_nil (l : Bits) (oldLen : Nat) (new : Bits) : Spec.spliceAll l oldLen new [] = l := rfl

theorem spliceAll_cons (l : Bits) (oldLen : Nat) (new : Bits) (p : Nat) (ps : List Nat) :
    Spec.spliceAll l oldLen new (p :: ps) =
      (Spec.spliceAll l oldLen new ps).take p ++ new ++ (Spec.spliceAll l oldLen new ps).drop (p + oldLen) := rfl

/-- closed form of the successive splices at ascending non-overlapping in-range positions. -/
theorem spliceAll_closed (l new : Bits) (oldLen : Nat) (p0 : Nat) (rest : List Nat)
    (hno : (p0 :: rest).Pairwise (fun p q => p + oldLen ≤ q)) (hin : ∀ p ∈ p0 :: rest, p + oldLen ≤ l.length) :
    Spec.spliceAll l oldLen new (p0 :: rest) = l.take p0 ++ Alg.rebuildTail l oldLen new p0 rest := by
  induction rest generalizing p0 with
  | nil => simp [spliceAll_cons, spliceAll_nil, Alg.rebuildTail]
  | cons p1 ps ih =>
    rw [List.pairwise_cons] at hno
    have h01 : p0 + oldLen ≤ p1 := hno.1 p1 List.mem_cons_self
    have h1 : p1 + oldLen ≤ l.length := hin p1 (List.mem_cons_of_mem _ List.mem_cons_self)
    rw [spliceAll_cons, ih p1 hno.2 (fun p hp => hin p (List.mem_cons_of_mem _ hp))]
    have hlen : (l.take p1).length = p1 := by rw [List.length_take]; omega
    rw [List.take_append_of_le_length (by omega), List.drop_append_of_le_length (by omega),
      List.take_take, List.drop_take, Nat.min_eq_left (by omega)]
    simp only [Alg.rebuildTail, slc, List.append_assoc]

/-- length bookkeeping of the rebuilt tail. -/
theorem rebuildTail_length (l new : Bits) (oldLen : Nat) (p0 : Nat) (rest : List Nat)
    (hno : (p0 :: rest).Pairwise (fun p q => p + oldLen ≤ q)) (hin : ∀ p ∈ p0 :: rest, p + oldLen ≤ l.length) :
    (Alg.rebuildTail l oldLen new p0 rest).length + (rest.length + 1) * oldLen + p0 =
      l.length + (rest.length + 1) * new.length := by
  induction rest generalizing p0 with
  | nil =>
    have := hin p0 List.mem_cons_self
    simp [Alg.rebuildTail]; omega
  | cons p1 ps ih =>
    rw [List.pairwise_cons] at hno
    have h01 : p0 + oldLen ≤ p1 := hno.1 p1 List.mem_cons_self
    have h1 : p1 + oldLen ≤ l.length := hin p1 (List.mem_cons_of_mem _ List.mem_cons_self)
    have := ih p1 hno.2 (fun p hp => hin p (List.mem_cons_of_mem _ hp))
    simp only [Alg.rebuildTail, List.length_append, List.length_cons, slc_length_of_le l _ p1 (by omega)]
    rw [Nat.add_mul (ps.length + 1) 1 oldLen, Nat.add_mul (ps.length + 1) 1 new.length]
    omega

/-- the rebuilt tail ends with everything from `z` on, for any `z` at or after the last replaced block. -/
theorem rebuildTail_suffix (l new : Bits) (oldLen : Nat) (z : Nat) (p0 : Nat) (rest : List Nat)
    (hin : ∀ p ∈ p0 :: rest, p + oldLen ≤ z) :
    ∃ pre, Alg.rebuildTail l oldLen new p0 rest = pre ++ l.drop z := by
  induction rest generalizing p0 with
  | nil =>
    have h0 := hin p0 List.mem_cons_self
    refine ⟨new ++ slc l (p0 + oldLen) z, ?_⟩
    have : l.drop z = (l.drop (p0 + oldLen)).drop (z - (p0 + oldLen)) := by
      rw [List.drop_drop]; congr 1; omega
    rw [Alg.rebuildTail, List.append_assoc, this, slc, List.take_append_drop]
  | cons p1 ps ih =>
    obtain ⟨pre, hpre⟩ := ih p1 (fun p hp => hin p (List.mem_cons_of_mem _ hp))
    exact ⟨new ++ slc l (p0 + oldLen) p1 ++ pre, by rw [Alg.rebuildTail, hpre]; simp only [List.append_assoc]⟩

/-! ### facts about the selection made by `replace` -/

theorem sel_facts (l old : Bits) (a z : Nat) (al : Bool) (b : Option Nat) :
    (Spec.select old.length b 0 (occ l old a z al)).Pairwise (fun p q => p + old.length ≤ q) ∧
    ∀ p ∈ Spec.select old.length b 0 (occ l old a z al), a ≤ p ∧ p + old.length ≤ z := by
  refine ⟨select_pairwise _ _ _ _, ?_⟩
  intro p hp
  have := (occ_mem_iff' l old a z al p).mp ((select_sublist' _ _ _ _).subset hp)
  exact ⟨this.1, this.2.1⟩

/-- `Spec.replace`, inverted. -/
theorem replace_ok {l old new r : Bits} {s e : Option Int} {count : Option Int} {al : Bool} {k : Nat}
    (h : Spec.replace l old new s e count al = .ok (k, r)) :
    old.length ≠ 0 ∧ ∃ a z, validateSlice l.length s e = .ok (a, z) ∧
      k = (Spec.select old.length (Spec.budget count) 0 (occ l old a z al)).length ∧
      r = Spec.spliceAll l old.length new (Spec.select old.length (Spec.budget count) 0 (occ l old a z al)) := by
  unfold Spec.replace at h
  split at h
  · cases h
  · rename_i ho
    refine ⟨ho, ?_⟩
    split at h
    · cases h
    · rename_i a z hv
      simp only [Except.ok.injEq, Prod.mk.injEq] at h
      exact ⟨a, z, hv, h.1.symm, h.2.symm⟩

theorem replace_of_ok (l old new : Bits) (s e : Option Int) (count : Option Int) (al : Bool) (a z : Nat)
    (ho : old ≠ []) (hv : validateSlice l.length s e = .ok (a, z)) :
    Spec.replace l old new s e count al =
      .ok ((Spec.select old.length (Spec.budget count) 0 (occ l old a z al)).length,
        Spec.spliceAll l old.length new (Spec.select old.length (Spec.budget count) 0 (occ l old a z al))) := by
  unfold Spec.replace
  have : old.length ≠ 0 := by
    intro h; exact ho (List.length_eq_zero_iff.mp h)
  rw [if_neg this, hv]

end BM.C03.Replace
