/-
  Proofs/C19.lean — helper lemmas for Props/C19.lean (digit strings, literal parser, decimal numbers).
-/
import BitstringModel.Model.C19
import BitstringModel.Proofs.Basic

namespace BM.C19
open BM

end BM.C19
