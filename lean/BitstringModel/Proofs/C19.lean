/-
  Proofs/C19.lean — helper lemmas for Props/C19.lean (digit strings, literal parser, decimal numbers).
-/
import BitstringModel.Model.C19
import BitstringModel.Proofs.Basic
namespace BM.C19
open BM

/-! ### generated graphs -/
theorem graph_of_toList (arr : Array Nat) (f : Nat → Nat) (k : Nat)
    (h : arr.toList = (List.range k).map f) :
    ∀ n, n < k → arr[n]? = some (f n) := by
  intro n hn
  rw [← Array.getElem?_toList, h, List.getElem?_map, List.getElem?_range hn]
  rfl

/-! ### digit characters -/

/-- all characters of `s` are digit characters below `k` -/
def DigStr (k : Nat) (s : Str) : Prop := ∀ c ∈ s, ∃ n, n < k ∧ c = digitChar n

theorem DigStr.mono {k k' : Nat} {s : Str} (hk : k ≤ k') (h : DigStr k s) : DigStr k' s := by
  intro c hc
  obtain ⟨n, hn, rfl⟩ := h c hc
  exact ⟨n, by omega, rfl⟩

theorem DigStr.nil (k : Nat) : DigStr k [] := by intro c hc; cases hc

theorem DigStr.cons {k : Nat} {n : Nat} {s : Str} (hn : n < k) (h : DigStr k s) : DigStr k (digitChar n :: s) := by
  intro c hc
  rcases List.mem_cons.mp hc with rfl | hc
  · exact ⟨n, hn, rfl⟩
  · exact h c hc

theorem DigStr.append {k : Nat} {s t : Str} (hs : DigStr k s) (ht : DigStr k t) : DigStr k (s ++ t) := by
  intro c hc
  rcases List.mem_append.mp hc with hc | hc
  · exact hs c hc
  · exact ht c hc

theorem dig_isWs : ∀ n, n < 16 → isWs (digitChar n) = false := by decide
theorem dig_lower : ∀ n, n < 16 → lowerC (digitChar n) = digitChar n := by decide
theorem dig_ne_us : ∀ n, n < 16 → digitChar n ≠ '_' := by decide
theorem dig_ne_comma : ∀ n, n < 16 → digitChar n ≠ ',' := by decide
theorem dig_ne_x : ∀ n, n < 16 → digitChar n ≠ 'x' := by decide
theorem dig_ne_quote : ∀ n, n < 16 → digitChar n ≠ '\'' := by decide
theorem dig_ne_dot : ∀ n, n < 16 → digitChar n ≠ '.' := by decide
theorem dig_ne_rparen : ∀ n, n < 16 → digitChar n ≠ ')' := by decide
theorem dig_ne_b : ∀ n, n < 2 → digitChar n ≠ 'b' := by decide
theorem dig_decVal : ∀ n, n < 10 → decVal? (digitChar n) = some n := by decide

theorem DigStr.not_mem {k : Nat} {s : Str} {c : Char} (h : DigStr k s) (hc : ∀ n, n < k → digitChar n ≠ c) : c ∉ s := by
  intro hm
  obtain ⟨n, hn, e⟩ := h c hm
  exact hc n hn e.symm

theorem DigStr.removeWs {s : Str} (h : DigStr 16 s) : removeWs s = s := by
  unfold C19.removeWs
  rw [List.filter_eq_self]
  intro c hc
  obtain ⟨n, hn, rfl⟩ := h c hc
  rw [dig_isWs n hn]; rfl

theorem DigStr.map_lower {s : Str} (h : DigStr 16 s) : s.map lowerC = s := by
  induction s with
  | nil => rfl
  | cons c t ih =>
    obtain ⟨n, hn, rfl⟩ := h _ (List.mem_cons_self)
    rw [List.map_cons, dig_lower n hn, ih (fun c hc => h c (List.mem_cons_of_mem _ hc))]

theorem DigStr.filter_us {s : Str} (h : DigStr 16 s) : s.filter (· ≠ '_') = s := by
  rw [List.filter_eq_self]
  intro c hc
  obtain ⟨n, hn, rfl⟩ := h c hc
  exact decide_eq_true (dig_ne_us n hn)

theorem remove2_of_not_mem (a b : Char) (s : Str) (h : b ∉ s) : remove2 a b s = s := by
  fun_induction remove2 a b s with
  | case1 => rfl
  | case2 => rfl
  | case3 x y t hxy ih =>
    exact absurd (hxy.2 ▸ List.mem_cons_of_mem _ List.mem_cons_self) h
  | case4 x y t hxy ih =>
    rw [ih (fun hm => h (List.mem_cons_of_mem _ hm))]

/-! ### `splitComma` -/

theorem splitComma_single (s : Str) (h : ',' ∉ s) : splitComma s = [s] := by
  induction s with
  | nil => rfl
  | cons c t ih =>
    have hc : c ≠ ',' := fun e => h (e ▸ List.mem_cons_self)
    have ht : ',' ∉ t := fun hm => h (List.mem_cons_of_mem _ hm)
    simp only [splitComma, hc, if_false, ih ht]

theorem splitComma_append (s t : Str) (h : ',' ∉ s) : splitComma (s ++ ',' :: t) = s :: splitComma t := by
  induction s with
  | nil => simp only [List.nil_append, splitComma, if_true]
  | cons c u ih =>
    have hc : c ≠ ',' := fun e => h (e ▸ List.mem_cons_self)
    have hu : ',' ∉ u := fun hm => h (List.mem_cons_of_mem _ hm)
    simp only [List.cons_append, splitComma, hc, if_false, ih hu]


/-! ### digit strings -/

theorem hexDigits_length (l : Bits) : (hexDigits l).length = l.length / 4 := by
  fun_induction hexDigits l with
  | case1 a b c d t ih => simp only [List.length_cons, ih]; omega
  | case2 l h =>
    match l, h with
    | [], _ => rfl
    | [_], _ => simp
    | [_, _], _ => simp
    | [_, _, _], _ => simp
    | a :: b :: c :: d :: t, h => exact absurd rfl (h a b c d t)

theorem octDigits_length (l : Bits) : (octDigits l).length = l.length / 3 := by
  fun_induction octDigits l with
  | case1 a b c t ih => simp only [List.length_cons, ih]; omega
  | case2 l h =>
    match l, h with
    | [], _ => rfl
    | [_], _ => simp
    | [_, _], _ => simp
    | a :: b :: c :: t, h => exact absurd rfl (h a b c t)

theorem binDigits_length (l : Bits) : (binDigits l).length = l.length := by
  induction l with
  | nil => rfl
  | cons a t ih => simp only [binDigits, List.length_cons, ih]

theorem hexDigits_short (l : Bits) (h : l.length < 4) : hexDigits l = [] := by
  have := hexDigits_length l
  rw [Nat.div_eq_of_lt h] at this
  exact List.eq_nil_of_length_eq_zero this

theorem octDigits_short (l : Bits) (h : l.length < 3) : octDigits l = [] := by
  have := octDigits_length l
  rw [Nat.div_eq_of_lt h] at this
  exact List.eq_nil_of_length_eq_zero this

theorem hexDigits_append (a b : Bits) (h : a.length % 4 = 0) : hexDigits (a ++ b) = hexDigits a ++ hexDigits b := by
  fun_induction hexDigits a with
  | case1 x y z w t ih =>
    simp only [List.cons_append, hexDigits]
    rw [ih (by simp only [List.length_cons] at h; omega)]
  | case2 l hl =>
    match l, hl, h with
    | [], _, _ => simp only [List.nil_append]
    | [_], _, h => simp at h
    | [_, _], _, h => simp at h
    | [_, _, _], _, h => simp at h
    | a :: b :: c :: d :: t, hl, _ => exact absurd rfl (hl a b c d t)

theorem octDigits_append (a b : Bits) (h : a.length % 3 = 0) : octDigits (a ++ b) = octDigits a ++ octDigits b := by
  fun_induction octDigits a with
  | case1 x y z t ih =>
    simp only [List.cons_append, octDigits]
    rw [ih (by simp only [List.length_cons] at h; omega)]
  | case2 l hl =>
    match l, hl, h with
    | [], _, _ => simp only [List.nil_append]
    | [_], _, h => simp at h
    | [_, _], _, h => simp at h
    | a :: b :: c :: t, hl, _ => exact absurd rfl (hl a b c t)

theorem binDigits_append (a b : Bits) : binDigits (a ++ b) = binDigits a ++ binDigits b := by
  induction a with
  | nil => rfl
  | cons x t ih => simp only [List.cons_append, binDigits, ih]

theorem dig4_inj : ∀ a b c d a' b' c' d' : Bool,
    digitChar (bitsToNat [a, b, c, d]) = digitChar (bitsToNat [a', b', c', d']) →
      a = a' ∧ b = b' ∧ c = c' ∧ d = d' := by decide
theorem dig3_inj : ∀ a b c a' b' c' : Bool,
    digitChar (bitsToNat [a, b, c]) = digitChar (bitsToNat [a', b', c']) →
      a = a' ∧ b = b' ∧ c = c' := by decide
theorem dig1_inj : ∀ a a' : Bool, digitChar (bitsToNat [a]) = digitChar (bitsToNat [a']) → a = a' := by decide

theorem hexDigits_inj (a b : Bits) (ha : a.length % 4 = 0) (hb : b.length % 4 = 0)
    (h : hexDigits a = hexDigits b) : a = b := by
  induction a using hexDigits.induct generalizing b with
  | case1 x y z w t ih =>
    match b, hb, h with
    | x' :: y' :: z' :: w' :: t', hb, h =>
      simp only [hexDigits, List.cons.injEq] at h
      obtain ⟨h1, h2, h3, h4⟩ := dig4_inj _ _ _ _ _ _ _ _ h.1
      rw [ih t' (by simp only [List.length_cons] at ha; omega) (by simp only [List.length_cons] at hb; omega) h.2,
        h1, h2, h3, h4]
    | [], _, h => simp [hexDigits] at h
    | [_], hb, _ => simp at hb
    | [_, _], hb, _ => simp at hb
    | [_, _, _], hb, _ => simp at hb
  | case2 l hl =>
    have hl0 : l = [] := by
      match l, hl, ha with
      | [], _, _ => rfl
      | [_], _, h => simp at h
      | [_, _], _, h => simp at h
      | [_, _, _], _, h => simp at h
      | a :: b :: c :: d :: t, hl, _ => exact absurd rfl (hl a b c d t)
    subst hl0
    have : (hexDigits b).length = 0 := by rw [← h]; rfl
    rw [hexDigits_length] at this
    exact (List.eq_nil_of_length_eq_zero (by omega)).symm


theorem octDigits_inj (a b : Bits) (ha : a.length % 3 = 0) (hb : b.length % 3 = 0)
    (h : octDigits a = octDigits b) : a = b := by
  induction a using octDigits.induct generalizing b with
  | case1 x y z t ih =>
    match b, hb, h with
    | x' :: y' :: z' :: t', hb, h =>
      simp only [octDigits, List.cons.injEq] at h
      obtain ⟨h1, h2, h3⟩ := dig3_inj _ _ _ _ _ _ h.1
      rw [ih t' (by simp only [List.length_cons] at ha; omega) (by simp only [List.length_cons] at hb; omega) h.2,
        h1, h2, h3]
    | [], _, h => simp [octDigits] at h
    | [_], hb, _ => simp at hb
    | [_, _], hb, _ => simp at hb
  | case2 l hl =>
    have hl0 : l = [] := by
      match l, hl, ha with
      | [], _, _ => rfl
      | [_], _, h => simp at h
      | [_, _], _, h => simp at h
      | a :: b :: c :: t, hl, _ => exact absurd rfl (hl a b c t)
    subst hl0
    have : (octDigits b).length = 0 := by rw [← h]; rfl
    rw [octDigits_length] at this
    exact (List.eq_nil_of_length_eq_zero (by omega)).symm

theorem binDigits_inj (a b : Bits) (h : binDigits a = binDigits b) : a = b := by
  induction a generalizing b with
  | nil =>
    cases b with
    | nil => rfl
    | cons y t => simp [binDigits] at h
  | cons x t ih =>
    cases b with
    | nil => simp [binDigits] at h
    | cons y u =>
      simp only [binDigits, List.cons.injEq] at h
      rw [dig1_inj _ _ h.1, ih u h.2]

/-! ### digit strings are made of digit characters -/

theorem bits4_lt : ∀ a b c d : Bool, bitsToNat [a, b, c, d] < 16 := by decide
theorem bits1_lt : ∀ a : Bool, bitsToNat [a] < 2 := by decide

theorem hexDigits_digStr (l : Bits) : DigStr 16 (hexDigits l) := by
  fun_induction hexDigits l with
  | case1 a b c d t ih => exact DigStr.cons (bits4_lt a b c d) ih
  | case2 l h => exact DigStr.nil 16

theorem binDigits_digStr (l : Bits) : DigStr 2 (binDigits l) := by
  induction l with
  | nil => exact DigStr.nil 2
  | cons a t ih => exact DigStr.cons (bits1_lt a) ih

/-! ### reading digits back -/

theorem digitBits4 : ∀ a b c d : Bool, digitBits 4 (digitChar (bitsToNat [a, b, c, d])) = some [a, b, c, d] := by decide
theorem digitBits1 : ∀ a : Bool, digitBits 1 (digitChar (bitsToNat [a])) = some [a] := by decide

theorem digitsToBits_hexDigits (l : Bits) (h : l.length % 4 = 0) : digitsToBits 4 (hexDigits l) = some l := by
  fun_induction hexDigits l with
  | case1 a b c d t ih =>
    simp only [digitsToBits, digitBits4, ih (by simp only [List.length_cons] at h; omega)]
    rfl
  | case2 l hl =>
    match l, hl, h with
    | [], _, _ => rfl
    | [_], _, h => simp at h
    | [_, _], _, h => simp at h
    | [_, _, _], _, h => simp at h
    | a :: b :: c :: d :: t, hl, _ => exact absurd rfl (hl a b c d t)

theorem digitsToBits_binDigits (l : Bits) : digitsToBits 1 (binDigits l) = some l := by
  induction l with
  | nil => rfl
  | cons a t ih =>
    simp only [binDigits, digitsToBits, digitBits1, ih]
    rfl

/-! ### tokens -/

theorem parseToken_hex (s : Str) (bits : Bits) (hne : 0 < s.length) (hs : DigStr 16 s)
    (hb : digitsToBits 4 s = some bits) : parseToken ('0' :: 'x' :: s) = .ok bits := by
  match s, hne with
  | v :: rest, _ =>
    have hx : 'x' ∉ v :: rest := hs.not_mem dig_ne_x
    simp only [parseToken, hs.map_lower, hs.filter_us, remove2_of_not_mem _ _ _ hx, hb]
    simp

theorem parseToken_bin (s : Str) (bits : Bits) (hne : 0 < s.length) (hs : DigStr 2 s)
    (hb : digitsToBits 1 s = some bits) : parseToken ('0' :: 'b' :: s) = .ok bits := by
  match s, hne with
  | v :: rest, _ =>
    have hs16 : DigStr 16 (v :: rest) := hs.mono (by omega)
    have hx : 'b' ∉ v :: rest := hs.not_mem dig_ne_b
    simp only [parseToken, hs16.map_lower, hs16.filter_us, remove2_of_not_mem _ _ _ hx, hb]
    simp

theorem parseTokens_one (t : Str) (b : Bits) (hne : t ≠ []) (h : parseToken t = .ok b) :
    parseTokens [t] = .ok b := by
  simp only [parseTokens, hne, if_false, h, List.append_nil]

theorem parseTokens_two (t u : Str) (b c : Bits) (hne : t ≠ []) (hne' : u ≠ [])
    (h : parseToken t = .ok b) (h' : parseToken u = .ok c) :
    parseTokens [t, u] = .ok (b ++ c) := by
  simp only [parseTokens, hne, hne', if_false, h, h', List.append_nil]

/-! ### whitespace removal and whole literals -/

theorem removeWs_cons_keep (c : Char) (s : Str) (h : isWs c = false) : removeWs (c :: s) = c :: removeWs s := by
  simp only [removeWs, List.filter_cons, h, Bool.not_false, if_true]

theorem removeWs_cons_drop (c : Char) (s : Str) (h : isWs c = true) : removeWs (c :: s) = removeWs s := by
  simp only [removeWs, List.filter_cons, h, Bool.not_true, Bool.false_eq_true, if_false]

theorem removeWs_append (s t : Str) : removeWs (s ++ t) = removeWs s ++ removeWs t :=
  List.filter_append ..

theorem removeWs_tok (p : Char) (hp : isWs p = false) (s : Str) (hs : DigStr 16 s) :
    removeWs ('0' :: p :: s) = '0' :: p :: s := by
  rw [removeWs_cons_keep _ _ (by decide), removeWs_cons_keep _ _ hp, hs.removeWs]

theorem comma_not_mem_tok (p : Char) (hp : p ≠ ',') (s : Str) (hs : DigStr 16 s) : ',' ∉ '0' :: p :: s := by
  intro hm
  rcases List.mem_cons.mp hm with e | hm
  · exact absurd e (by decide)
  · rcases List.mem_cons.mp hm with e | hm
    · exact hp e.symm
    · exact hs.not_mem dig_ne_comma hm

theorem parseAuto_hexLit (l : Bits) (h4 : l.length % 4 = 0) (hne : 4 ≤ l.length) :
    parseAuto (pre0x ++ hexDigits l) = .ok l := by
  have hs := hexDigits_digStr l
  have hlen : 0 < (hexDigits l).length := by rw [hexDigits_length]; omega
  show parseTokens (splitComma (removeWs ('0' :: 'x' :: hexDigits l))) = .ok l
  rw [removeWs_tok _ (by decide) _ hs, splitComma_single _ (comma_not_mem_tok _ (by decide) _ hs)]
  exact parseTokens_one _ _ (List.cons_ne_nil _ _) (parseToken_hex _ _ hlen hs (digitsToBits_hexDigits l h4))

theorem parseAuto_binLit (l : Bits) (hne : 0 < l.length) :
    parseAuto (pre0b ++ binDigits l) = .ok l := by
  have hs := binDigits_digStr l
  have hs16 : DigStr 16 (binDigits l) := hs.mono (by omega)
  have hlen : 0 < (binDigits l).length := by rw [binDigits_length]; omega
  show parseTokens (splitComma (removeWs ('0' :: 'b' :: binDigits l))) = .ok l
  rw [removeWs_tok _ (by decide) _ hs16, splitComma_single _ (comma_not_mem_tok _ (by decide) _ hs16)]
  exact parseTokens_one _ _ (List.cons_ne_nil _ _) (parseToken_bin _ _ hlen hs (digitsToBits_binDigits l))

theorem parseAuto_mixedLit (a b : Bits) (h4 : a.length % 4 = 0) (ha : 4 ≤ a.length) (hb : 0 < b.length) :
    parseAuto (pre0x ++ hexDigits a ++ commaSp ++ pre0b ++ binDigits b) = .ok (a ++ b) := by
  have hsa := hexDigits_digStr a
  have hsb := binDigits_digStr b
  have hsb16 : DigStr 16 (binDigits b) := hsb.mono (by omega)
  have hla : 0 < (hexDigits a).length := by rw [hexDigits_length]; omega
  have hlb : 0 < (binDigits b).length := by rw [binDigits_length]; omega
  have e : pre0x ++ hexDigits a ++ commaSp ++ pre0b ++ binDigits b
      = ('0' :: 'x' :: hexDigits a) ++ ',' :: ' ' :: ('0' :: 'b' :: binDigits b) := by
    simp only [pre0x, pre0b, commaSp, List.cons_append, List.nil_append, List.append_assoc]
  rw [e]
  unfold parseAuto
  rw [removeWs_append, removeWs_tok _ (by decide) _ hsa, removeWs_cons_keep _ _ (by decide),
    removeWs_cons_drop _ _ (by decide), removeWs_tok _ (by decide) _ hsb16,
    splitComma_append _ _ (comma_not_mem_tok _ (by decide) _ hsa),
    splitComma_single _ (comma_not_mem_tok _ (by decide) _ hsb16)]
  exact parseTokens_two _ _ _ _ (List.cons_ne_nil _ _) (List.cons_ne_nil _ _)
    (parseToken_hex _ _ hla hsa (digitsToBits_hexDigits a h4))
    (parseToken_bin _ _ hlb hsb (digitsToBits_binDigits b))

theorem parseAuto_nil : parseAuto [] = .ok [] := rfl

/-! ### `str` with the truncation limit as a parameter -/

/-- `strForm` with `MAX_CHARS` as a parameter (`strForm l = strFormG Gen.maxChars l` by `rfl`). -/
def strFormG (M : Nat) (l : Bits) : Str :=
  let length := l.length
  if length = 0 then [] else
  if length > M * 4 then pre0x ++ hexDigits (l.take (M * 4)) ++ dots else
  if length < 32 ∧ length % 4 ≠ 0 then pre0b ++ binDigits l else
  if length % 4 = 0 then pre0x ++ hexDigits l else
  let e := length % 4
  pre0x ++ hexDigits (l.take (length - e)) ++ commaSp ++ pre0b ++ binDigits (l.drop (length - e))

def strFormAlgG (M : Nat) (_lsb0 : Bool) (l : Bits) : Str :=
  let length := l.length
  if length = 0 then [] else
  if length > M * 4 then
    pre0x ++ hexDigits (sliceAB false l 0 (M * 4)) ++ dots else
  if length < 32 ∧ length % 4 ≠ 0 then pre0b ++ binDigits l else
  if length % 4 = 0 then pre0x ++ hexDigits l else
  let e := length % 4
  pre0x ++ hexDigits (sliceAB false l 0 (length - e)) ++ commaSp ++ pre0b ++ binDigits (sliceAB false l (length - e) length)

theorem strForm_eq_G (l : Bits) : strForm l = strFormG Gen.maxChars l := rfl
theorem strFormAlg_eq_G (lsb0 : Bool) (l : Bits) : strFormAlg lsb0 l = strFormAlgG Gen.maxChars lsb0 l := rfl

theorem sliceAB_msb0_zero (l : Bits) (n : Nat) : sliceAB false l 0 n = l.take n := by
  simp only [sliceAB, Bool.false_eq_true, if_false, List.drop_zero, Nat.sub_zero]

theorem sliceAB_msb0_tail (l : Bits) (n : Nat) : sliceAB false l n l.length = l.drop n := by
  simp only [sliceAB, Bool.false_eq_true, if_false]
  exact List.take_of_length_le (by simp only [List.length_drop]; omega)

theorem strFormAlgG_eq (M : Nat) (lsb0 : Bool) (l : Bits) : strFormAlgG M lsb0 l = strFormG M l := by
  simp only [strFormAlgG, strFormG, sliceAB_msb0_zero, sliceAB_msb0_tail]

theorem strFormAlgG_msb0 (M : Nat) (l : Bits) : strFormAlgG M false l = strFormG M l := strFormAlgG_eq M false l

theorem parse_strFormG (M : Nat) (l : Bits) (h : l.length ≤ 4 * M) : parseAuto (strFormG M l) = .ok l := by
  unfold strFormG
  simp only
  split
  · next h0 => rw [List.eq_nil_of_length_eq_zero h0]; rfl
  · next h0 =>
    split
    · next h1 => omega
    · split
      · exact parseAuto_binLit l (by omega)
      · next h2 =>
        split
        · next h3 => exact parseAuto_hexLit l h3 (by omega)
        · next h3 =>
          have := parseAuto_mixedLit (l.take (l.length - l.length % 4)) (l.drop (l.length - l.length % 4))
            (by simp only [List.length_take]; omega) (by simp only [List.length_take]; omega)
            (by simp only [List.length_drop]; omega)
          rw [List.take_append_drop] at this
          exact this

/-! ### the `...` mark -/

theorem endsWithDots_cons4 (x y z w : Char) (t : Str) :
    endsWithDots (x :: y :: z :: w :: t) = endsWithDots (y :: z :: w :: t) := by
  simp only [endsWithDots]

theorem endsWithDots_append_dots (s : Str) : endsWithDots (s ++ dots) = true := by
  induction s with
  | nil => decide
  | cons x t ih =>
    match t, ih with
    | [], _ => exact (endsWithDots_cons4 x '.' '.' '.' []).trans (by decide)
    | [a], ih => exact (endsWithDots_cons4 x a '.' '.' ['.']).trans ih
    | [a, b], ih => exact (endsWithDots_cons4 x a b '.' ['.', '.']).trans ih
    | a :: b :: c :: u, ih => exact (endsWithDots_cons4 x a b c (u ++ dots)).trans ih

theorem endsWithDots_getLast (s : Str) (h : endsWithDots s = true) : s.getLast? = some '.' := by
  fun_induction endsWithDots s with
  | case1 => cases h
  | case2 => cases h
  | case3 => cases h
  | case4 a b c =>
    simp only [Bool.and_eq_true, decide_eq_true_eq] at h
    simp only [List.getLast?_cons_cons, List.getLast?_singleton, h.2]
  | case5 x t h1 h2 h3 ih =>
    match t, h1 with
    | [], h1 => exact absurd rfl h1
    | y :: u, _ => rw [List.getLast?_cons_cons]; exact ih h

theorem endsWithDots_digits (x d : Str) (hd : DigStr 16 d) (hne : 0 < d.length) : endsWithDots (x ++ d) = false := by
  cases hE : endsWithDots (x ++ d) with
  | false => rfl
  | true =>
    exfalso
    have h1 := endsWithDots_getLast _ hE
    have hdne : d ≠ [] := fun e => by rw [e] at hne; exact Nat.lt_irrefl 0 hne
    rw [List.getLast?_append] at h1
    cases hl : d.getLast? with
    | none => exact hdne (List.getLast?_eq_none_iff.mp hl)
    | some c =>
      rw [hl, Option.some_or] at h1
      rw [h1] at hl
      exact hd.not_mem dig_ne_dot (List.mem_of_getLast? hl)

theorem strFormG_truncated (M : Nat) (l : Bits) (h : l.length > 4 * M) :
    strFormG M l = pre0x ++ hexDigits (l.take (4 * M)) ++ dots := by
  unfold strFormG
  simp only
  rw [if_neg (by omega), if_pos (by omega), Nat.mul_comm M 4]

theorem strFormG_marks_iff (M : Nat) (l : Bits) : endsWithDots (strFormG M l) = true ↔ l.length > 4 * M := by
  constructor
  · intro hE
    by_contra hlen
    have hlen : ¬ l.length > M * 4 := by omega
    unfold strFormG at hE
    simp only [hlen, if_false] at hE
    split at hE
    · cases hE
    · split at hE
      · rw [endsWithDots_digits _ _ ((binDigits_digStr l).mono (by omega)) (by rw [binDigits_length]; omega)] at hE
        cases hE
      · split at hE
        · rw [endsWithDots_digits _ _ (hexDigits_digStr l) (by rw [hexDigits_length]; omega)] at hE
          cases hE
        · rw [endsWithDots_digits _ _ ((binDigits_digStr _).mono (by omega))
            (by rw [binDigits_length, List.length_drop]; omega)] at hE
          cases hE
  · intro h
    rw [strFormG_truncated M l h]
    exact endsWithDots_append_dots _

theorem quote_not_mem_strFormG (M : Nat) (l : Bits) : '\'' ∉ strFormG M l := by
  have hh : ∀ b, '\'' ∉ hexDigits b := fun b => (hexDigits_digStr b).not_mem dig_ne_quote
  have hb : ∀ b, '\'' ∉ binDigits b := fun b => ((binDigits_digStr b).mono (by omega : 2 ≤ 16)).not_mem dig_ne_quote
  have h1 : '\'' ∉ pre0x := by decide
  have h2 : '\'' ∉ pre0b := by decide
  have h3 : '\'' ∉ commaSp := by decide
  have h4 : '\'' ∉ dots := by decide
  unfold strFormG
  simp only
  split
  · exact List.not_mem_nil
  · split
    · simp only [List.mem_append, not_or]; exact ⟨⟨h1, hh _⟩, h4⟩
    · split
      · simp only [List.mem_append, not_or]; exact ⟨h2, hb _⟩
      · split
        · simp only [List.mem_append, not_or]; exact ⟨h1, hh _⟩
        · simp only [List.mem_append, not_or]; exact ⟨⟨⟨⟨h1, hh _⟩, h3⟩, h2⟩, hb _⟩

/-! ### decimal numbers -/

theorem natDecAux_acc (fuel n : Nat) (acc : Str) : natDecAux fuel n acc = natDecAux fuel n [] ++ acc := by
  induction fuel generalizing n acc with
  | zero => rfl
  | succ f ih =>
    simp only [natDecAux]
    split
    · rfl
    · rw [ih (n / 10) (digitChar (n % 10) :: acc), ih (n / 10) [digitChar (n % 10)], List.append_assoc]
      rfl

theorem natDecAux_succ (fuel n : Nat) :
    natDecAux (fuel + 1) n [] =
      if n < 10 then [digitChar n] else natDecAux fuel (n / 10) [] ++ [digitChar (n % 10)] := by
  simp only [natDecAux]
  split
  · next h => rw [Nat.mod_eq_of_lt h]
  · exact natDecAux_acc _ _ _

theorem parseNatAux_append (acc : Nat) (s t : Str) :
    parseNatAux acc (s ++ t) = (parseNatAux acc s).bind fun v => parseNatAux v t := by
  induction s generalizing acc with
  | nil => rfl
  | cons c u ih =>
    simp only [List.cons_append, parseNatAux]
    cases decVal? c with
    | none => rfl
    | some d => exact ih _

theorem parseNatAux_natDecAux (fuel n : Nat) (h : n < fuel) : parseNatAux 0 (natDecAux fuel n []) = some n := by
  induction fuel generalizing n with
  | zero => omega
  | succ f ih =>
    rw [natDecAux_succ]
    split
    · next h10 =>
      simp only [parseNatAux, dig_decVal n h10]
      congr 1; omega
    · next h10 =>
      rw [parseNatAux_append, ih (n / 10) (by omega)]
      simp only [Option.bind_some, parseNatAux, dig_decVal (n % 10) (Nat.mod_lt _ (by omega))]
      congr 1; omega

theorem natDecAux_pos (fuel n : Nat) : 0 < (natDecAux (fuel + 1) n []).length := by
  rw [natDecAux_succ]
  split
  · exact Nat.zero_lt_one
  · rw [List.length_append]; exact Nat.lt_of_lt_of_le Nat.zero_lt_one (Nat.le_add_left _ _)

theorem natDecAux_digStr (fuel n : Nat) : DigStr 10 (natDecAux fuel n []) := by
  induction fuel generalizing n with
  | zero => exact DigStr.nil 10
  | succ f ih =>
    rw [natDecAux_succ]
    split
    · next h => exact DigStr.cons h (DigStr.nil 10)
    · exact (ih _).append (DigStr.cons (Nat.mod_lt _ (by omega)) (DigStr.nil 10))

theorem natDec_digStr (n : Nat) : DigStr 10 (natDec n) := natDecAux_digStr _ _

theorem parseNat_natDec (n : Nat) : parseNat? (natDec n) = some n := by
  unfold parseNat? natDec
  have hne : natDecAux (n + 1) n [] ≠ [] := by
    intro e
    have := natDecAux_pos n n
    rw [e] at this
    exact Nat.lt_irrefl 0 this
  rw [if_neg hne]
  exact parseNatAux_natDecAux _ _ (Nat.lt_succ_self n)

/-! ### `repr` -/

theorem splitAtChar_append (c : Char) (s t : Str) (h : c ∉ s) : splitAtChar c (s ++ c :: t) = some (s, t) := by
  induction s with
  | nil => simp only [List.nil_append, splitAtChar, if_true]
  | cons x u ih =>
    have hx : x ≠ c := fun e => h (e ▸ List.mem_cons_self)
    have hu : c ∉ u := fun hm => h (List.mem_cons_of_mem _ hm)
    simp only [List.cons_append, splitAtChar, hx, if_false, ih hu, Option.map_some]

theorem isPrefixStr_append (p r : Str) : isPrefixStr p (p ++ r) = some r := by
  induction p with
  | nil => cases r <;> rfl
  | cons a u ih => simp only [List.cons_append, isPrefixStr, if_true, ih]

theorem clsOfName_nameStr (c : Cls) : clsOfName? (Cls.nameStr c) = some c := by cases c <;> decide
theorem lparen_not_mem_nameStr (c : Cls) : '(' ∉ Cls.nameStr c := by cases c <;> decide

theorem parseRepr_text (cls : Cls) (s : Str) (l : Bits) (pos : Nat) (hq : '\'' ∉ s)
    (hparse : parseAuto s = .ok l) (hp : pos ≤ l.length) (hc : cls.hasPos = false → pos = 0) :
    parseRepr (Cls.nameStr cls ++ ['(', '\''] ++ s ++ ['\''] ++ (if pos ≠ 0 then posEq ++ natDec pos else [])
        ++ [')'] ++ []) = .ok (cls, l, pos) := by
  have e : ∀ ps : Str, Cls.nameStr cls ++ ['(', '\''] ++ s ++ ['\''] ++ ps ++ [')'] ++ []
      = Cls.nameStr cls ++ '(' :: ('\'' :: (s ++ '\'' :: (ps ++ [')']))) := by
    intro ps
    simp only [List.append_assoc, List.cons_append, List.nil_append, List.append_nil]
  rw [e]
  unfold parseRepr
  simp only [splitAtChar_append _ _ _ (lparen_not_mem_nameStr cls), clsOfName_nameStr,
    splitAtChar_append _ _ _ hq, hparse]
  by_cases h0 : pos = 0
  · subst h0
    simp only [ne_eq, not_true_eq_false, if_false, List.nil_append]
    rfl
  · have hcp : cls.hasPos = true := by
      cases hh : cls.hasPos with
      | true => rfl
      | false => exact absurd (hc hh) h0
    have hr : ')' ∉ natDec pos := ((natDec_digStr pos).mono (by omega : 10 ≤ 16)).not_mem dig_ne_rparen
    simp only [ne_eq, h0, not_false_eq_true, if_true]
    rw [List.append_assoc, isPrefixStr_append]
    simp only [splitAtChar_append _ _ _ hr, parseNat_natDec, hcp, not_true_eq_false, if_false,
      Nat.not_lt.mpr hp]
    split
    · next r hh =>
      exact absurd (List.cons.inj hh).1 (by decide)
    · rfl

theorem parse_truncated_prefixG (M : Nat) (hM : 0 < M) (l : Bits) (h : l.length > 4 * M) :
    parseAuto (pre0x ++ hexDigits (l.take (4 * M))) = .ok (l.take (4 * M)) :=
  parseAuto_hexLit _ (by simp only [List.length_take]; omega) (by simp only [List.length_take]; omega)

end BM.C19
