/- Kernel obligation: entries 0xc000..0xcfff of the live float16->code table `Gen.encE4M3O` pass `encChk`
   (one sixteenth of the table per file so that lake checks them in parallel; assembled in Proofs/C11_Tables.lean). -/
import BitstringModel.Model.C11
namespace BM.C11
theorem encChunk_E4M3O_12 : encChunkOk .e4m3o 12 = true := by decide +kernel
end BM.C11
