/- Kernel obligation: entries 0x7000..0x7fff of the live float16->code table `Gen.encE2M3` pass `encChk`
   (one sixteenth of the table per file so that lake checks them in parallel; assembled in Proofs/C11_Tables.lean). -/
import BitstringModel.Model.C11
namespace BM.C11
theorem encChunk_E2M3_07 : encChunkOk .e2m3 7 = true := by decide +kernel
end BM.C11
