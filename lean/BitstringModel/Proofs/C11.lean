/-
  Proofs/C11.lean — helper lemmas for C11: the neighbour checker `localNE`/`encChk` is sound for the declarative
  `IsNearestEven`/`EncodeSpec` on a strictly increasing grid; block/chunk checkers give statements about every index.
-/
import BitstringModel.Model.C11

namespace BM.C11
open BM

/-! ### bounded Boolean quantifier -/

theorem allBelow_spec {n : Nat} {p : Nat → Bool} (h : allBelow n p = true) : ∀ i, i < n → p i = true := by
  induction n with
  | zero => intro i hi; omega
  | succ n ih =>
    simp only [allBelow, Bool.and_eq_true] at h
    intro i hi
    by_cases e : i = n
    · subst e; exact h.1
    · exact ih h.2 i (by omega)

/-! ### the code grid is strictly increasing -/

/-- Adjacent magnitude codes up to `lim` have strictly increasing values. -/
def StrictMonoTo (f : Fmt) : Prop := ∀ i, i < f.lim → f.mag i < f.mag (i + 1)

instance (f : Fmt) : Decidable (StrictMonoTo f) := by unfold StrictMonoTo; exact inferInstance

theorem mag_lt_of_lt {f : Fmt} (hm : StrictMonoTo f) : ∀ j i, i < j → j ≤ f.lim → f.mag i < f.mag j := by
  intro j
  induction j with
  | zero => intro i hi; omega
  | succ j ih =>
    intro i hi hj
    have hstep := hm j (by omega)
    by_cases e : i = j
    · subst e; exact hstep
    · exact Nat.lt_trans (ih i (by omega) (by omega)) hstep

theorem mag_le_of_le {f : Fmt} (hm : StrictMonoTo f) (i j : Nat) (hij : i ≤ j) (hj : j ≤ f.lim) :
    f.mag i ≤ f.mag j := by
  by_cases e : i = j
  · subst e; exact Nat.le_refl _
  · exact Nat.le_of_lt (mag_lt_of_lt hm j i (by omega) hj)

theorem dist_def (a b : Nat) : (a ≤ b ∧ dist a b = b - a) ∨ (b < a ∧ dist a b = a - b) := by
  unfold dist; split <;> omega

/-! ### nearest-of-local: the neighbour test decides nearest-even among all codes -/

theorem nearest_of_local {f : Fmt} (hm : StrictMonoTo f) (x c : Nat) (hc : c ≤ f.lim)
    (h : localNE f x c = true) : IsNearestEven f x c := by
  simp only [localNE, Bool.and_eq_true, Bool.or_eq_true, beq_iff_eq, decide_eq_true_eq] at h
  obtain ⟨hL, hU⟩ := h
  refine ⟨hc, fun c' hc' hne => ?_⟩
  rcases Nat.lt_or_gt_of_ne hne with hlt | hgt
  · -- c' below c: compare through the lower neighbour c-1
    have hc0 : c ≠ 0 := by omega
    have h1 : f.mag c' ≤ f.mag (c - 1) := mag_le_of_le hm c' (c - 1) (by omega) (by omega)
    have h2 : f.mag (c - 1) < f.mag c := by
      have := hm (c - 1) (by omega)
      rwa [show c - 1 + 1 = c by omega] at this
    have h3 : c' ≠ c - 1 → f.mag c' < f.mag (c - 1) := fun hh => mag_lt_of_lt hm _ _ (by omega) (by omega)
    rcases hL with h0 | hL
    · omega
    · generalize f.mag c' = a at *
      generalize f.mag (c - 1) = u at *
      generalize f.mag c = v at *
      by_cases e : c' = c - 1
      · simp only [dist]; split <;> split <;> omega
      · have := h3 e
        simp only [dist]; split <;> split <;> omega
  · -- c' above c: compare through the upper neighbour c+1
    have hcl : c ≠ f.lim := by omega
    have h1 : f.mag (c + 1) ≤ f.mag c' := mag_le_of_le hm (c + 1) c' (by omega) hc'
    have h2 : f.mag c < f.mag (c + 1) := hm c (by omega)
    have h3 : c' ≠ c + 1 → f.mag (c + 1) < f.mag c' := fun hh => mag_lt_of_lt hm _ _ (by omega) hc'
    rcases hU with h0 | hU
    · omega
    · generalize f.mag c' = a at *
      generalize f.mag (c + 1) = w at *
      generalize f.mag c = v at *
      by_cases e : c' = c + 1
      · simp only [dist]; split <;> split <;> omega
      · have := h3 e
        simp only [dist]; split <;> split <;> omega

/-- The nearest-even code is unique, so `EncodeSpec` determines the table entry. -/
theorem nearestEven_unique {f : Fmt} (hm : StrictMonoTo f) (x c d : Nat)
    (hc : IsNearestEven f x c) (hd : IsNearestEven f x d) : c = d := by
  by_cases hne : c = d
  · exact hne
  exfalso
  obtain ⟨hcl, hc⟩ := hc
  obtain ⟨hdl, hd⟩ := hd
  have h1 := hc d hdl (fun e => hne e.symm)
  have h2 := hd c hcl hne
  -- equal distances and both even: the code between them would be strictly nearer
  have hev : dist x (f.mag c) = dist x (f.mag d) ∧ c % 2 = 0 ∧ d % 2 = 0 := by omega
  obtain ⟨hdist, hce, hde⟩ := hev
  rcases Nat.lt_or_gt_of_ne hne with hlt | hgt
  · have hmid : c + 1 < d := by omega
    have a1 := mag_lt_of_lt hm (c + 1) c (by omega) (by omega)
    have a2 := mag_lt_of_lt hm d (c + 1) hmid hdl
    have h3 := hc (c + 1) (by omega) (by omega)
    generalize f.mag c = v at *
    generalize f.mag d = w at *
    generalize f.mag (c + 1) = m at *
    rcases dist_def x v with ⟨_, e1⟩ | ⟨_, e1⟩ <;> rcases dist_def x w with ⟨_, e2⟩ | ⟨_, e2⟩ <;>
      rcases dist_def x m with ⟨_, e3⟩ | ⟨_, e3⟩ <;> omega
  · have hmid : d + 1 < c := by omega
    have a1 := mag_lt_of_lt hm (d + 1) d (by omega) (by omega)
    have a2 := mag_lt_of_lt hm c (d + 1) hmid hcl
    have h3 := hd (d + 1) (by omega) (by omega)
    generalize f.mag c = v at *
    generalize f.mag d = w at *
    generalize f.mag (d + 1) = m at *
    rcases dist_def x v with ⟨_, e1⟩ | ⟨_, e1⟩ <;> rcases dist_def x w with ⟨_, e2⟩ | ⟨_, e2⟩ <;>
      rcases dist_def x m with ⟨_, e3⟩ | ⟨_, e3⟩ <;> omega

/-- Soundness of the Boolean table-entry checker. -/
theorem encChk_sound {f : Fmt} (hm : StrictMonoTo f) (mode : Mode) (h code : Nat)
    (hk : encChk f mode h code = true) : EncodeSpec f mode h code := by
  unfold encChk at hk
  unfold EncodeSpec
  cases hh : halfClass h with
  | nan =>
    simp only [hh, Bool.or_eq_true, beq_iff_eq] at hk
    exact hk
  | inf s =>
    simp only [hh, beq_iff_eq] at hk
    exact hk
  | fin s x =>
    simp only [hh, Bool.or_eq_true, Bool.and_eq_true, beq_iff_eq, decide_eq_true_eq] at hk
    rcases hk with ⟨hl, he⟩ | ⟨⟨hle, hl⟩, he⟩
    · exact ⟨f.lim, nearest_of_local hm x f.lim (Nat.le_refl _) hl, he⟩
    · exact ⟨_, nearest_of_local hm x _ hle hl, he⟩

/-! ### from chunk obligations to every table index -/

theorem encBlockOkT_spec {enc : Array Nat} {f : Fmt} {mode : Mode} {b : Nat} (hb : encBlockOkT enc f mode b = true)
    (j : Nat) (hj : j < 256) :
    ∃ code, encLookup enc (256 * b + j) = some code ∧ encChk f mode (256 * b + j) code = true := by
  unfold encBlockOkT at hb
  cases hblk : enc[b]? with
  | none => simp [hblk] at hb
  | some blk =>
    simp only [hblk] at hb
    have := allBelow_spec hb j hj
    refine ⟨blk / 2 ^ (8 * j) % 256, ?_, this⟩
    unfold encLookup
    have e1 : (256 * b + j) / 256 = b := by omega
    have e2 : (256 * b + j) % 256 = j := by omega
    rw [e1, e2, hblk]; rfl

theorem encChunkOkT_spec {enc : Array Nat} {f : Fmt} {mode : Mode} {k : Nat} (hk : encChunkOkT enc f mode k = true)
    (h : Nat) (hlo : 4096 * k ≤ h) (hhi : h < 4096 * (k + 1)) :
    ∃ code, encLookup enc h = some code ∧ encChk f mode h code = true := by
  unfold encChunkOkT at hk
  have hb := allBelow_spec hk (h / 256 - 16 * k) (by omega)
  have e : 16 * k + (h / 256 - 16 * k) = h / 256 := by omega
  rw [e] at hb
  have := encBlockOkT_spec hb (h % 256) (by omega)
  have e2 : 256 * (h / 256) + h % 256 = h := by omega
  rwa [e2] at this

theorem encChunkOk_spec {t : Tbl} {k : Nat} (hk : encChunkOk t k = true) (h : Nat)
    (hlo : 4096 * k ≤ h) (hhi : h < 4096 * (k + 1)) :
    ∃ code, encLookup t.enc h = some code ∧ encChk t.fmt t.mode h code = true :=
  encChunkOkT_spec (enc := t.enc) (f := t.fmt) (mode := t.mode) hk h hlo hhi

/-! ### `struct.pack` versus IEEE conversion: the OverflowError branch -/

theorem roundBits_ovf {eb mb : Nat} {s : Bool} {num den : Nat} (h : (roundBits eb mb s num den).2 = true) :
    num ≠ 0 ∧ (roundBits eb mb s num den).1 = (if s then 2 ^ (eb + mb) else 0) + (2 ^ eb - 1) * 2 ^ mb := by
  unfold roundBits at *
  by_cases h0 : num = 0
  · simp [h0] at h
  · by_cases h1 : (2 ^ eb - 1) * 2 ^ mb ≤ roundMag eb mb num den
    · simp [h0, h1]
    · simp [h0, h1] at h

theorem roundBits_lt {eb mb : Nat} {s : Bool} {num den : Nat} (h : (roundBits eb mb s num den).2 = false) :
    ∃ mag, (roundBits eb mb s num den).1 = (if s then 2 ^ (eb + mb) else 0) + mag ∧
      (mag < (2 ^ eb - 1) * 2 ^ mb ∨ mag = 0) := by
  unfold roundBits at *
  by_cases h0 : num = 0
  · exact ⟨0, by simp [h0], Or.inr rfl⟩
  · by_cases h1 : (2 ^ eb - 1) * 2 ^ mb ≤ roundMag eb mb num den
    · simp [h0, h1] at h
    · exact ⟨roundMag eb mb num den, by simp [h0, h1], Or.inl (by omega)⟩

theorem pack_some {eb mb f h : Nat} (hp : packIEEE eb mb f = some h) : ieeeNarrow eb mb f = h := by
  unfold packIEEE at hp; unfold ieeeNarrow
  cases hv : f64Val f with
  | nan => rw [hv] at hp; simpa using hp
  | inf s => rw [hv] at hp; simpa using hp
  | fin s m e =>
    rw [hv] at hp
    simp only at hp ⊢
    split at hp
    · cases hp
    · simpa using hp

/-- OverflowError: the value is finite and non-zero and IEEE rounding gives ±inf. -/
theorem pack_none {eb mb f : Nat} (hp : packIEEE eb mb f = none) :
    ∃ s m e, f64Val f = .fin s m e ∧ m ≠ 0 ∧
      ieeeNarrow eb mb f = (if s then 2 ^ (eb + mb) else 0) + (2 ^ eb - 1) * 2 ^ mb := by
  unfold packIEEE at hp; unfold ieeeNarrow
  cases hv : f64Val f with
  | nan => rw [hv] at hp; simp at hp
  | inf s => rw [hv] at hp; simp at hp
  | fin s m e =>
    rw [hv] at hp
    simp only at hp ⊢
    split at hp
    · rename_i hov
      obtain ⟨hn, hb⟩ := roundBits_ovf hov
      refine ⟨s, m, e, rfl, ?_, hb⟩
      intro hm; subst hm; simp [dyadicNum] at hn
    · cases hp

theorem f64Val_zero : f64Val 0 = .fin false 0 0 := by decide

theorem f64Gt_zero_of_fin {f : Nat} {s : Bool} {m : Nat} {e : Int} (hv : f64Val f = .fin s m e) (hm : m ≠ 0) :
    f64Gt f 0 = !s := by
  unfold f64Gt
  rw [hv, f64Val_zero]
  simp only [FVal.cmp]
  generalize (e - if e ≤ 0 then e else 0).toNat = k
  generalize ((0:Int) - if e ≤ 0 then e else 0).toNat = k2
  have hpos : 0 < m * 2 ^ k := Nat.mul_pos (Nat.pos_of_ne_zero hm) (Nat.two_pow_pos k)
  generalize m * 2 ^ k = x at hpos
  cases s <;> simp [sgnMant]
  · have h1 : ¬ ((x : Int) < 0) := by omega
    have h2 : x ≠ 0 := by omega
    simp [h1, h2]
  · simp [hpos]

end BM.C11
