/- Kernel obligation: entries 0xf000..0xffff of the live float16->code table `Gen.encE4M3S` pass `encChk`
   (one sixteenth of the table per file so that lake checks them in parallel; depends only on the specification and on
   this table; assembled in Proofs/C11_Tables.lean). -/
import BitstringModel.Model.C11_Spec
import BitstringModel.Gen.LutEncE4M3S
namespace BM.C11
theorem encChunk_E4M3S_15 : encChunkOkT Gen.encE4M3S Fmt.e4m3 .saturate 15 = true := by decide +kernel
end BM.C11
