/-
  Proofs/C12Ops.lean — helper lemmas for Props/C12_Ops.lean (operations written with the mode-dependent primitives).
-/
import BitstringModel.Model.C12
import BitstringModel.Proofs.C12
import BitstringModel.Proofs.C12Search
import Mathlib.Tactic.Ring
import Mathlib.Tactic.Linarith
import Mathlib.Data.List.Basic
namespace BM.C12
open BM

theorem slice_mirror (l : Bits) (a b : Int) :
    slice_ .lsb0 l a b = (slice_ .msb0 l.reverse a b).map List.reverse := getslice2_mirror l _ _

theorem insert_mirror (l v : Bits) (pos : Int) :
    insert_ .lsb0 l v pos = (insert_ .msb0 l.reverse v.reverse pos).map List.reverse :=
  setslice_mirror l _ v

theorem overwrite_mirror (l v : Bits) (pos : Int) :
    overwrite_ .lsb0 l v pos = (overwrite_ .msb0 l.reverse v.reverse pos).map List.reverse := by
  unfold overwrite_
  rw [List.length_reverse]
  exact setslice_mirror l _ v

theorem delete_mirror (l : Bits) (k pos : Int) :
    delete_ .lsb0 l k pos = (delete_ .msb0 l.reverse k pos).map List.reverse :=
  delslice_mirror l _

theorem setvalid_mirror (l v : Bits) (a b : Int) :
    setitemSlice .lsb0 l ⟨some a, some b, none⟩ v
      = (setitemSlice .msb0 l.reverse ⟨some a, some b, none⟩ v.reverse).map List.reverse :=
  setslice_mirror l _ v

theorem beq_reverse_left (s t : Bits) : (s.reverse == t) = (s == t.reverse) := by
  rw [Bool.eq_iff_iff]
  simp only [beq_iff_eq]
  constructor
  · intro h; rw [← h, List.reverse_reverse]
  · intro h; rw [h, List.reverse_reverse]

/-- `validateSlice` results are ordered and in range. -/
theorem ite_ok_inv {α ε} {c : Prop} [Decidable c] {x y : α} {e : ε}
    (h : (if c then Except.ok x else Except.error e) = Except.ok y) : c ∧ x = y := by
  by_cases hc : c
  · rw [if_pos hc] at h; injection h with h; exact ⟨hc, h⟩
  · rw [if_neg hc] at h; cases h

theorem validateSlice_bounds (n : Nat) (s e : Option Int) (a b : Nat) (h : validateSlice n s e = .ok (a, b)) :
    a ≤ b ∧ b ≤ n := by
  unfold validateSlice at h
  obtain ⟨⟨h1, h2, h3⟩, h4⟩ := ite_ok_inv h
  injection h4 with ha hb
  omega

theorem startswith_mirror (l t : Bits) (start stop : Option Int) :
    startswithOp .lsb0 l t start stop = startswithOp .msb0 l.reverse t.reverse start stop := by
  unfold startswithOp
  simp only [List.length_reverse]
  cases validateSlice l.length start stop with
  | error e => rfl
  | ok ab =>
    obtain ⟨a, b⟩ := ab
    simp only []
    split
    · rw [slice_mirror]
      cases slice_ .msb0 l.reverse a (a + t.length) with
      | error e => rfl
      | ok s => simp only [Except.map, beq_reverse_left]
    · rfl

theorem endswith_mirror (l t : Bits) (start stop : Option Int) :
    endswithOp .lsb0 l t start stop = endswithOp .msb0 l.reverse t.reverse start stop := by
  unfold endswithOp
  simp only [List.length_reverse]
  cases validateSlice l.length start stop with
  | error e => rfl
  | ok ab =>
    obtain ⟨a, b⟩ := ab
    simp only []
    split
    · rw [slice_mirror]
      cases slice_ .msb0 l.reverse ((b : Int) - t.length) b with
      | error e => rfl
      | ok s => simp only [Except.map, beq_reverse_left]
    · rfl


theorem cutLoop_mirror (l : Bits) (bits e : Nat) (count : Option Nat) (fuel a c : Nat) :
    cutLoop .lsb0 l bits e count fuel a c
      = (cutLoop .msb0 l.reverse bits e count fuel a c).map (List.map List.reverse) := by
  induction fuel generalizing a c with
  | zero => rfl
  | succ fuel ih =>
    have body : ∀ (stop : Bool),
        (if stop = true then (Except.ok [] : Except Err (List Bits)) else
          match slice_ .lsb0 l (a : Int) (min ((a : Int) + (bits : Int)) (e : Int)) with
          | .error err => .error err
          | .ok chunk =>
            if chunk.length = 0 then .ok [] else
            if chunk.length ≠ bits then .ok [chunk] else
            match cutLoop .lsb0 l bits e count fuel (a + bits) (c + 1) with
            | .error err => .error err
            | .ok rest => .ok (chunk :: rest))
        = (if stop = true then (Except.ok [] : Except Err (List Bits)) else
          match slice_ .msb0 l.reverse (a : Int) (min ((a : Int) + (bits : Int)) (e : Int)) with
          | .error err => .error err
          | .ok chunk =>
            if chunk.length = 0 then .ok [] else
            if chunk.length ≠ bits then .ok [chunk] else
            match cutLoop .msb0 l.reverse bits e count fuel (a + bits) (c + 1) with
            | .error err => .error err
            | .ok rest => .ok (chunk :: rest)).map (List.map List.reverse) := by
      intro stop
      cases stop with
      | true => rfl
      | false =>
        (try simp only [Bool.false_eq_true, ↓reduceIte])
        rw [slice_mirror]
        cases slice_ .msb0 l.reverse (a : Int) (min ((a : Int) + (bits : Int)) (e : Int)) with
        | error err => rfl
        | ok chunk =>
          simp only [Except.map, List.length_reverse]
          by_cases h1 : chunk.length = 0
          · simp only [h1, if_true]; rfl
          · simp only [h1, if_false]
            by_cases h2 : chunk.length ≠ bits
            · simp only [if_pos h2]; rfl
            · simp only [if_neg h2]
              rw [ih]
              cases cutLoop .msb0 l.reverse bits e count fuel (a + bits) (c + 1) with
              | error err => rfl
              | ok rest => rfl
    simp only [cutLoop]
    cases count with
    | none => exact body false
    | some k => exact body (decide (c ≥ k))

theorem cut_mirror (l : Bits) (bits : Int) (start stop : Option Int) (count : Option Int) :
    cutOp .lsb0 l bits start stop count = (cutOp .msb0 l.reverse bits start stop count).map (List.map List.reverse) := by
  unfold cutOp
  simp only [List.length_reverse]
  cases validateSlice l.length start stop with
  | error e => rfl
  | ok ab =>
    obtain ⟨a, b⟩ := ab
    simp only []
    split
    · rfl
    · split
      · rfl
      · exact cutLoop_mirror l _ _ _ _ _ _

theorem insertOp_mirror (l v : Bits) (pos : Int) :
    insertOp .lsb0 l v pos = (insertOp .msb0 l.reverse v.reverse pos).map List.reverse := by
  unfold insertOp
  simp only [List.length_reverse]
  generalize (if pos < 0 then pos + (l.length : Int) else pos) = p
  by_cases hp : ¬ (0 ≤ p ∧ p ≤ (l.length : Int))
  · simp only [hp, if_true]; rfl
  · simp only [hp, if_false]
    by_cases hv : v.length = 0
    · simp [hv, Except.map]
    · simp only [hv, if_false]
      exact insert_mirror l v p

theorem overwriteOp_mirror (l v : Bits) (pos : Int) :
    overwriteOp .lsb0 l v pos = (overwriteOp .msb0 l.reverse v.reverse pos).map List.reverse := by
  unfold overwriteOp
  simp only [List.length_reverse]
  generalize (if pos < 0 then pos + (l.length : Int) else pos) = p
  by_cases hp : p < 0 ∨ p > (l.length : Int)
  · simp only [hp, if_true]; rfl
  · simp only [hp, if_false]
    by_cases hv : v.length = 0
    · simp [hv, Except.map]
    · simp only [hv, if_false]
      exact overwrite_mirror l v p

theorem reverseOp_mirror (l : Bits) (start stop : Option Int) :
    reverseOp .lsb0 l start stop = (reverseOp .msb0 l.reverse start stop).map List.reverse := by
  unfold reverseOp
  simp only [List.length_reverse]
  cases h : validateSlice l.length start stop with
  | error e => rfl
  | ok ab =>
    obtain ⟨a, b⟩ := ab
    have hb := validateSlice_bounds _ _ _ _ _ h
    simp only []
    split
    · simp [Except.map]
    · rw [slice_mirror]
      cases slice_ .msb0 l.reverse a b with
      | error e => rfl
      | ok s =>
        simp only [Except.map]
        rw [setvalid_mirror l _ a b, List.reverse_reverse]
        rfl


theorem rorBody_mirror (l : Bits) (bits : Nat) (start stop : Option Int) :
    rorBody .lsb0 l bits start stop = (rorBody .msb0 l.reverse bits start stop).map List.reverse := by
  unfold rorBody
  simp only [List.length_reverse]
  cases h : validateSlice l.length start stop with
  | error e => rfl
  | ok ab =>
    obtain ⟨a, b⟩ := ab
    have hb := validateSlice_bounds _ _ _ _ _ h
    simp only []
    split
    · simp [Except.map]
    · rename_i hne
      have hk : bits % (b - a) < b - a := Nat.mod_lt _ (by omega)
      split
      · simp [Except.map]
      · rw [slice_mirror]
        cases slice_ .msb0 l.reverse ((b : Int) - (bits % (b - a) : Nat)) b with
        | error e => rfl
        | ok rhs =>
          simp only [Except.map]
          rw [delete_mirror]
          cases delete_ .msb0 l.reverse (bits % (b - a) : Nat) ((b : Int) - (bits % (b - a) : Nat)) with
          | error e => rfl
          | ok l1 =>
            simp only [Except.map]
            rw [insert_mirror l1.reverse rhs.reverse a, List.reverse_reverse, List.reverse_reverse]
            rfl

theorem rolBody_mirror (l : Bits) (bits : Nat) (start stop : Option Int) :
    rolBody .lsb0 l bits start stop = (rolBody .msb0 l.reverse bits start stop).map List.reverse := by
  unfold rolBody
  simp only [List.length_reverse]
  cases h : validateSlice l.length start stop with
  | error e => rfl
  | ok ab =>
    obtain ⟨a, b⟩ := ab
    have hb := validateSlice_bounds _ _ _ _ _ h
    simp only []
    split
    · simp [Except.map]
    · rename_i hne
      have hk : bits % (b - a) < b - a := Nat.mod_lt _ (by omega)
      split
      · simp [Except.map]
      · rw [slice_mirror]
        cases slice_ .msb0 l.reverse a ((a : Int) + (bits % (b - a) : Nat)) with
        | error e => rfl
        | ok lhs =>
          simp only [Except.map]
          rw [delete_mirror]
          cases delete_ .msb0 l.reverse (bits % (b - a) : Nat) a with
          | error e => rfl
          | ok l1 =>
            simp only [Except.map]
            rw [insert_mirror l1.reverse lhs.reverse ((b : Int) - (bits % (b - a) : Nat)),
              List.reverse_reverse, List.reverse_reverse]
            rfl

theorem rol_ror_mirror (l : Bits) (bits : Int) (start stop : Option Int) :
    rolOp .lsb0 l bits start stop = (rorOp .msb0 l.reverse bits start stop).map List.reverse ∧
    rorOp .lsb0 l bits start stop = (rolOp .msb0 l.reverse bits start stop).map List.reverse := by
  unfold rolOp rorOp
  simp only [List.length_reverse]
  constructor
  · split
    · rfl
    · split
      · rfl
      · exact rorBody_mirror l _ _ _
  · split
    · rfl
    · split
      · rfl
      · exact rolBody_mirror l _ _ _

theorem readFn_mirror (l : Bits) (pos k : Nat) :
    readFn .lsb0 l pos k = (readFn .msb0 l.reverse pos k).map List.reverse := by
  unfold readFn
  simp only [List.length_reverse]
  split
  · rfl
  · exact getslice_mirror l _

theorem readOp_mirror (l : Bits) (pos : Nat) (tk : Tok) (k : Nat) :
    readOp .lsb0 l pos tk k = (readOp .msb0 l.reverse pos tk k).map fun r => (r.1.reverse, r.2) := by
  cases tk <;> simp only [readOp, List.length_reverse]
  · split
    · rfl
    · rw [slice_mirror]
      cases slice_ .msb0 l.reverse pos ((pos : Int) + k) <;> rfl
  all_goals
    split
    · rfl
    · rw [readFn_mirror]
      cases readFn .msb0 l.reverse pos k with
      | error e => rfl
      | ok s =>
        simp only [Except.map]
        split <;> rfl

theorem readList_mirror (l : Bits) (toks : List (Tok × Nat)) (pos : Nat) :
    readList .lsb0 l pos toks
      = (readList .msb0 l.reverse pos toks).map fun r => (r.1.map (fun x => (x.1, x.2.reverse)), r.2) := by
  induction toks generalizing pos with
  | nil => rfl
  | cons t ts ih =>
    obtain ⟨tk, k⟩ := t
    simp only [readList]
    split
    · rfl
    · rw [readFn_mirror]
      cases readFn .msb0 l.reverse pos k with
      | error e => rfl
      | ok s =>
        simp only [Except.map]
        rw [ih]
        cases readList .msb0 l.reverse (pos + k) ts with
        | error e => rfl
        | ok r => rfl

theorem pack_mirror (toks : List Bits) :
    packOp .lsb0 toks = (packOp .msb0 (toks.map List.reverse)).reverse := by
  simp only [packOp]
  rw [List.reverse_flatten, List.map_map]
  have : (List.reverse ∘ List.reverse : Bits → Bits) = id := by funext x; simp
  rw [this, List.map_id]


theorem sliceStep1_some_some {α} (l : List α) (a b : Nat) (hab : a ≤ b) (hb : b ≤ l.length) :
    sliceStep1 l (some (a : Int)) (some (b : Int)) = (l.drop a).take (b - a) := by
  have h1 := sliceStep1_eq l (some (a : Int)) (some (b : Int))
  rw [C01.getSlice_take_drop l a b hab hb] at h1
  injection h1 with h1
  exact h1.symm

theorem sliceStep1_none_none {α} (l : List α) : sliceStep1 l none none = l := by
  have h1 := sliceStep1_eq l none none
  rw [C01.getSlice_all l] at h1
  injection h1 with h1
  exact h1.symm

theorem sliceStep1_some_none {α} (l : List α) (a : Nat) (ha : a ≤ l.length) :
    sliceStep1 l (some (a : Int)) none = l.drop a := by
  unfold sliceStep1
  have h1 : ¬ ((1 : Int) < 0) := by omega
  have h2 : ¬ ((a : Int) < 0) := by omega
  simp only [Py.sliceIndices, h1, h2, if_false]
  have e1 : (min (a : Int) (l.length : Int)).toNat = a := by omega
  have e2 : ((l.length : Int) - min (a : Int) (l.length : Int)).toNat = l.length - a := by omega
  rw [e1, e2, List.take_of_length_le (by simp)]

theorem sliceStep1_none_neg {α} (l : List α) (k : Nat) (hk : 1 ≤ k) (hkn : k ≤ l.length) :
    sliceStep1 l none (some (-(k : Int))) = l.take (l.length - k) := by
  unfold sliceStep1
  have h1 : ¬ ((1 : Int) < 0) := by omega
  have h2 : (-(k : Int) < 0) := by omega
  simp only [Py.sliceIndices, h1, h2, if_false, if_true]
  have e2 : (max (-(k : Int) + (l.length : Int)) 0 - 0).toNat = l.length - k := by omega
  rw [e2]
  simp

theorem shift_closed (m : Mode) (l : Bits) (n : Int) (hn : 0 ≤ n) (hl : l ≠ []) :
    shlOp m l n = .ok (l.drop (min n.toNat l.length) ++ List.replicate (min n.toNat l.length) false) ∧
    shrOp m l n = .ok (List.replicate (min n.toNat l.length) false ++ l.take (l.length - min n.toNat l.length)) ∧
    ishlOp m l n = shlOp m l n ∧ ishrOp m l n = shrOp m l n := by
  have hlen : l.length ≠ 0 := by
    intro h; exact hl (List.length_eq_zero_iff.mp h)
  have hn' : ¬ n < 0 := by omega
  have hshl : shlOp m l n = .ok (l.drop (min n.toNat l.length) ++ List.replicate (min n.toNat l.length) false) := by
    simp only [shlOp, hn', hlen, if_false, absoluteSlice, getsliceMsb0]
    congr 2
    split
    · rename_i h; rw [← h]; simp
    · rw [sliceStep1_some_some l _ _ (by omega) (by omega), List.take_of_length_le (by simp)]
  have hshr : shrOp m l n = .ok (List.replicate (min n.toNat l.length) false ++ l.take (l.length - min n.toNat l.length)) := by
    simp only [shrOp, hn', hlen, if_false, absoluteSlice, getsliceMsb0]
    split
    · rename_i h0; subst h0; simp
    · congr 2
      split
      · rename_i h; rw [h]; simp
      · rw [sliceStep1_some_some l 0 _ (by omega) (by omega)]; simp
  refine ⟨hshl, hshr, ?_, ?_⟩
  · rw [hshl]
    simp only [ishlOp, hn', hlen, if_false, getsliceMsb0]
    split
    · rename_i h0; subst h0; simp
    · congr 1
      rw [sliceStep1_some_none _ _ (by simp), List.drop_append_of_le_length (by omega)]
  · rw [hshr]
    simp only [ishrOp, hn', hlen, if_false, getsliceMsb0]
    split
    · rename_i h0; subst h0; simp
    · rename_i h0
      congr 1
      have hk : 1 ≤ min n.toNat l.length := by omega
      rw [sliceStep1_none_neg _ _ hk (by simp)]
      simp only [List.length_append, List.length_replicate]
      rw [List.take_append]
      simp


theorem shift_opposite (l : Bits) (n : Int) :
    shlOp .lsb0 l n = (shrOp .msb0 l.reverse n).map List.reverse ∧
    shrOp .lsb0 l n = (shlOp .msb0 l.reverse n).map List.reverse := by
  by_cases hn : n < 0
  · simp [shlOp, shrOp, hn, Except.map]
  · by_cases hl : l = []
    · subst hl; simp [shlOp, shrOp, hn, Except.map]
    · have hr : l.reverse ≠ [] := by simpa using hl
      have c1 := shift_closed .lsb0 l n (by omega) hl
      have c2 := shift_closed .msb0 l.reverse n (by omega) hr
      rw [c1.1, c1.2.1, c2.1, c2.2.1]
      simp only [Except.map, List.length_reverse, List.reverse_append, List.reverse_replicate]
      constructor
      · congr 2
        rw [List.reverse_take, List.reverse_reverse, List.length_reverse]
        congr 1; omega
      · congr 2
        rw [List.reverse_drop, List.reverse_reverse, List.length_reverse]

theorem whole_value (m : Mode) (l : Bits) :
    wholeBits m l = .ok l ∧ uintOf m l = .ok (bitsToNat l) ∧ intOf m l = .ok (bitsToInt l) := by
  have h : wholeBits m l = .ok l := by
    unfold wholeBits
    cases m with
    | msb0 => simp only [getslice, getsliceMsb0, sliceStep1_none_none]
    | lsb0 =>
      rw [getslice2_mirror]
      simp only [getslice, getsliceMsb0, sliceStep1_none_none, Except.map, List.reverse_reverse]
  exact ⟨h, by simp only [uintOf, h, Except.map], by simp only [intOf, h, Except.map]⟩

/-! method tables -/

theorem lookup_filter_ne {κ β} [DecidableEq κ] [BEq κ] [LawfulBEq κ] (env : List (κ × β)) (k k0 : κ) (h : k ≠ k0) :
    (env.filter (fun e => e.1 ≠ k0)).lookup k = env.lookup k := by
  induction env with
  | nil => rfl
  | cons x xs ih =>
    obtain ⟨kx, bx⟩ := x
    by_cases hx : kx = k0
    · subst hx
      have h1 : (k == kx) = false := by simpa using h
      have hd : decide (kx ≠ kx) = false := by simp
      rw [List.filter_cons]
      simp only [hd, Bool.false_eq_true, if_false, List.lookup_cons, h1]
      exact ih
    · have hd : decide (kx ≠ k0) = true := by simpa using hx
      rw [List.filter_cons]
      simp only [hd, if_true, List.lookup_cons, ih]

theorem lookupAttr_setAttr (env : Attrs) (b : Binding) (c a : String) :
    lookupAttr (setAttr env b) c a =
      if (c, a) = (b.1, b.2.1) then some (b.2.2.1, b.2.2.2) else lookupAttr env c a := by
  unfold lookupAttr setAttr
  by_cases h : (c, a) = (b.1, b.2.1)
  · rw [if_pos h, List.lookup_cons]
    have : ((c, a) == (b.1, b.2.1)) = true := by simpa using h
    rw [this]
  · rw [if_neg h, List.lookup_cons]
    have : ((c, a) == (b.1, b.2.1)) = false := by simpa using h
    rw [this]
    simp only []
    exact lookup_filter_ne env (c, a) (b.1, b.2.1) h

def kv (b : Binding) : (String × String) × (String × String) := ((b.1, b.2.1), (b.2.2.1, b.2.2.2))

theorem lookupAttr_foldl (tb : List Binding) (env : Attrs) (c a : String) :
    lookupAttr (tb.foldl setAttr env) c a =
      match (tb.reverse.map kv).lookup (c, a) with
      | some f => some f
      | none => lookupAttr env c a := by
  induction tb generalizing env with
  | nil => rfl
  | cons b bs ih =>
    rw [List.foldl_cons, ih, List.reverse_cons, List.map_append, List.lookup_append]
    cases hl : (bs.reverse.map kv).lookup (c, a) with
    | some f => simp
    | none =>
      simp only [Option.none_or, List.map_cons, List.map_nil, kv, List.lookup_cons, List.lookup_nil]
      rw [lookupAttr_setAttr]
      by_cases h : (c, a) = (b.1, b.2.1)
      · have : ((c, a) == (b.1, b.2.1)) = true := by simpa using h
        rw [this, if_pos h]
      · have : ((c, a) == (b.1, b.2.1)) = false := by simpa using h
        rw [this, if_neg h]

theorem lookup_reverse_of_nodup' {κ β} [BEq κ] [LawfulBEq κ] (A : List (κ × β)) (hA : (A.map Prod.fst).Nodup) (a : κ) :
    A.reverse.lookup a = A.lookup a := by
  induction A with
  | nil => rfl
  | cons x xs ih =>
    obtain ⟨k, b⟩ := x
    simp only [List.map_cons, List.nodup_cons] at hA
    rw [List.reverse_cons, List.lookup_append, ih hA.2]
    simp only [List.lookup_cons, List.lookup_nil]
    by_cases h : a = k
    · subst h
      have hnone : xs.lookup a = none := by
        rw [List.lookup_eq_none_iff]
        intro p hp
        have : p.1 ≠ a := fun hh => hA.1 (hh ▸ List.mem_map_of_mem (f := Prod.fst) hp)
        simpa [bne_iff_ne] using fun hh => this hh.symm
      simp [hnone]
    · have h1 : (a == k) = false := by simpa using h
      simp [h1]

theorem table_keys_nodup (v : Bool) : (((if v then lsb0Table else msb0Table).map kv).map Prod.fst).Nodup := by
  cases v <;> decide

theorem setLsb0_lookup' (env : Attrs) (v : Bool) (c a : String) :
    lookupAttr (setLsb0 env v) c a =
      match ((if v then lsb0Table else msb0Table).map kv).lookup (c, a) with
      | some f => some f
      | none => lookupAttr env c a := by
  unfold setLsb0
  rw [lookupAttr_foldl, List.map_reverse, lookup_reverse_of_nodup' _ (table_keys_nodup v)]

theorem table_lookup_none_iff (v w : Bool) (k : String × String) :
    ((if v then lsb0Table else msb0Table).map kv).lookup k = none ↔
    ((if w then lsb0Table else msb0Table).map kv).lookup k = none := by
  have hkeys : ∀ u : Bool, ((if u then lsb0Table else msb0Table).map kv).map Prod.fst = (msb0Table.map kv).map Prod.fst := by
    intro u; cases u <;> decide
  have key : ∀ u : Bool, ((if u then lsb0Table else msb0Table).map kv).lookup k = none ↔ k ∉ (msb0Table.map kv).map Prod.fst := by
    intro u
    rw [List.lookup_eq_none_iff, ← hkeys u]
    simp only [List.mem_map, not_exists, not_and, bne_iff_ne, ne_eq]
    constructor
    · intro h p hp hk; exact h p hp hk.symm
    · intro h p hp hk; exact h p hp hk.symm
  rw [key v, key w]

theorem toggle_restores' (env : Attrs) (hist : List Bool) (v : Bool) (c a : String) :
    lookupAttr (setLsb0 (hist.foldl setLsb0 env) v) c a = lookupAttr (setLsb0 env v) c a := by
  rw [setLsb0_lookup', setLsb0_lookup']
  cases hl : ((if v then lsb0Table else msb0Table).map kv).lookup (c, a) with
  | some f => rfl
  | none =>
    simp only []
    induction hist generalizing env with
    | nil => rfl
    | cons h hs ih =>
      rw [List.foldl_cons, ih, setLsb0_lookup']
      have := (table_lookup_none_iff v h (c, a)).mp hl
      rw [this]


end BM.C12
