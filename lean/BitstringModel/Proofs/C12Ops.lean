/-
  Proofs/C12Ops.lean — helper lemmas for Props/C12_Ops.lean (operations written with the mode-dependent primitives).
-/
import BitstringModel.Model.C12
import BitstringModel.Proofs.C12
import BitstringModel.Proofs.C12Search
import Mathlib.Tactic.Ring
import Mathlib.Tactic.Linarith
import Mathlib.Data.List.Basic
namespace BM.C12
open BM

theorem slice_mirror (l : Bits) (a b : Int) :
    slice_ .lsb0 l a b = (slice_ .msb0 l.reverse a b).map List.reverse := getslice2_mirror l _ _

theorem insert_mirror (l v : Bits) (pos : Int) (h0 : 0 ≤ pos) :
    insert_ .lsb0 l v pos = (insert_ .msb0 l.reverse v.reverse pos).map List.reverse :=
  setslice_mirror l _ v rfl (by simp) (invertedAssign_false_of_le pos pos l.length h0 (by omega))

theorem overwrite_mirror (l v : Bits) (pos : Int) (h0 : 0 ≤ pos) :
    overwrite_ .lsb0 l v pos = (overwrite_ .msb0 l.reverse v.reverse pos).map List.reverse := by
  unfold overwrite_
  rw [List.length_reverse]
  exact setslice_mirror l _ v rfl (by simp) (invertedAssign_false_of_le pos _ l.length h0 (by omega))

theorem delete_mirror (l : Bits) (k pos : Int) :
    delete_ .lsb0 l k pos = (delete_ .msb0 l.reverse k pos).map List.reverse :=
  delslice_mirror l _ rfl (by simp)

theorem setvalid_mirror (l v : Bits) (a b : Int) (h0 : 0 ≤ a) (hab : a ≤ b) :
    setitemSlice .lsb0 l ⟨some a, some b, none⟩ v
      = (setitemSlice .msb0 l.reverse ⟨some a, some b, none⟩ v.reverse).map List.reverse :=
  setslice_mirror l _ v rfl (by simp) (invertedAssign_false_of_le a b l.length h0 hab)

theorem beq_reverse_left (s t : Bits) : (s.reverse == t) = (s == t.reverse) := by
  rw [Bool.eq_iff_iff]
  simp only [beq_iff_eq]
  constructor
  · intro h; rw [← h, List.reverse_reverse]
  · intro h; rw [h, List.reverse_reverse]

/-- `validateSlice` results are ordered and in range. -/
theorem ite_ok_inv {α ε} {c : Prop} [Decidable c] {x y : α} {e : ε}
    (h : (if c then Except.ok x else Except.error e) = Except.ok y) : c ∧ x = y := by
  by_cases hc : c
  · rw [if_pos hc] at h; injection h with h; exact ⟨hc, h⟩
  · rw [if_neg hc] at h; cases h

theorem validateSlice_bounds (n : Nat) (s e : Option Int) (a b : Nat) (h : validateSlice n s e = .ok (a, b)) :
    a ≤ b ∧ b ≤ n := by
  unfold validateSlice at h
  obtain ⟨⟨h1, h2, h3⟩, h4⟩ := ite_ok_inv h
  injection h4 with ha hb
  omega

theorem startswith_mirror (l t : Bits) (start stop : Option Int) :
    startswithOp .lsb0 l t start stop = startswithOp .msb0 l.reverse t.reverse start stop := by
  unfold startswithOp
  simp only [List.length_reverse]
  cases validateSlice l.length start stop with
  | error e => rfl
  | ok ab =>
    obtain ⟨a, b⟩ := ab
    simp only []
    split
    · rw [slice_mirror]
      cases slice_ .msb0 l.reverse a (a + t.length) with
      | error e => rfl
      | ok s => simp only [Except.map, beq_reverse_left]
    · rfl

theorem endswith_mirror (l t : Bits) (start stop : Option Int) :
    endswithOp .lsb0 l t start stop = endswithOp .msb0 l.reverse t.reverse start stop := by
  unfold endswithOp
  simp only [List.length_reverse]
  cases validateSlice l.length start stop with
  | error e => rfl
  | ok ab =>
    obtain ⟨a, b⟩ := ab
    simp only []
    split
    · rw [slice_mirror]
      cases slice_ .msb0 l.reverse ((b : Int) - t.length) b with
      | error e => rfl
      | ok s => simp only [Except.map, beq_reverse_left]
    · rfl


end BM.C12
