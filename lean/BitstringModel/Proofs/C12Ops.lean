/-
  Proofs/C12Ops.lean — helper lemmas for Props/C12_Ops.lean (operations written with the mode-dependent primitives).
-/
import BitstringModel.Model.C12
import BitstringModel.Proofs.C12
import BitstringModel.Proofs.C12Search
import Mathlib.Tactic.Ring
import Mathlib.Tactic.Linarith
import Mathlib.Data.List.Basic
namespace BM.C12
open BM

end BM.C12
