/- Kernel obligation: `bfChk` (Proofs/C11_NumDefs.lean) on the 16-bit patterns 0x4000..0x43ff. -/
import BitstringModel.Proofs.C11_NumDefs
namespace BM.C11
theorem bfChunk_16 : bfChunkOk 16 = true := by decide +kernel
end BM.C11
