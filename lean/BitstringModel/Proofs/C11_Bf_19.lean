/- Kernel obligation: `bfChk` (Proofs/C11_NumDefs.lean) on the 16-bit patterns 0x4c00..0x4fff. -/
import BitstringModel.Proofs.C11_NumDefs
namespace BM.C11
theorem bfChunk_19 : bfChunkOk 19 = true := by decide +kernel
end BM.C11
