/- Kernel obligation: entries 0xe000..0xefff of the live float16->code table `Gen.encE5M2O` pass `encChk`
   (one sixteenth of the table per file so that lake checks them in parallel; depends only on the specification and on
   this table; assembled in Proofs/C11_Tables.lean). -/
import BitstringModel.Model.C11_Spec
import BitstringModel.Gen.LutEncE5M2O
namespace BM.C11
theorem encChunk_E5M2O_14 : encChunkOkT Gen.encE5M2O Fmt.e5m2 .overflow 14 = true := by decide +kernel
end BM.C11
