/-
  Proofs/C11_Tables.lean — assembles the 9 x 16 kernel obligations `encChunk_<T>_<kk>` (Proofs/C11_Enc_<T>_<kk>.lean)
  into one statement per table: every one of the 65 536 entries passes the checker `encChk`.
-/
import BitstringModel.Proofs.C11
import BitstringModel.Proofs.C11_Enc_P3_00
import BitstringModel.Proofs.C11_Enc_P3_01
import BitstringModel.Proofs.C11_Enc_P3_02
import BitstringModel.Proofs.C11_Enc_P3_03
import BitstringModel.Proofs.C11_Enc_P3_04
import BitstringModel.Proofs.C11_Enc_P3_05
import BitstringModel.Proofs.C11_Enc_P3_06
import BitstringModel.Proofs.C11_Enc_P3_07
import BitstringModel.Proofs.C11_Enc_P3_08
import BitstringModel.Proofs.C11_Enc_P3_09
import BitstringModel.Proofs.C11_Enc_P3_10
import BitstringModel.Proofs.C11_Enc_P3_11
import BitstringModel.Proofs.C11_Enc_P3_12
import BitstringModel.Proofs.C11_Enc_P3_13
import BitstringModel.Proofs.C11_Enc_P3_14
import BitstringModel.Proofs.C11_Enc_P3_15
import BitstringModel.Proofs.C11_Enc_P4_00
import BitstringModel.Proofs.C11_Enc_P4_01
import BitstringModel.Proofs.C11_Enc_P4_02
import BitstringModel.Proofs.C11_Enc_P4_03
import BitstringModel.Proofs.C11_Enc_P4_04
import BitstringModel.Proofs.C11_Enc_P4_05
import BitstringModel.Proofs.C11_Enc_P4_06
import BitstringModel.Proofs.C11_Enc_P4_07
import BitstringModel.Proofs.C11_Enc_P4_08
import BitstringModel.Proofs.C11_Enc_P4_09
import BitstringModel.Proofs.C11_Enc_P4_10
import BitstringModel.Proofs.C11_Enc_P4_11
import BitstringModel.Proofs.C11_Enc_P4_12
import BitstringModel.Proofs.C11_Enc_P4_13
import BitstringModel.Proofs.C11_Enc_P4_14
import BitstringModel.Proofs.C11_Enc_P4_15
import BitstringModel.Proofs.C11_Enc_E5M2S_00
import BitstringModel.Proofs.C11_Enc_E5M2S_01
import BitstringModel.Proofs.C11_Enc_E5M2S_02
import BitstringModel.Proofs.C11_Enc_E5M2S_03
import BitstringModel.Proofs.C11_Enc_E5M2S_04
import BitstringModel.Proofs.C11_Enc_E5M2S_05
import BitstringModel.Proofs.C11_Enc_E5M2S_06
import BitstringModel.Proofs.C11_Enc_E5M2S_07
import BitstringModel.Proofs.C11_Enc_E5M2S_08
import BitstringModel.Proofs.C11_Enc_E5M2S_09
import BitstringModel.Proofs.C11_Enc_E5M2S_10
import BitstringModel.Proofs.C11_Enc_E5M2S_11
import BitstringModel.Proofs.C11_Enc_E5M2S_12
import BitstringModel.Proofs.C11_Enc_E5M2S_13
import BitstringModel.Proofs.C11_Enc_E5M2S_14
import BitstringModel.Proofs.C11_Enc_E5M2S_15
import BitstringModel.Proofs.C11_Enc_E5M2O_00
import BitstringModel.Proofs.C11_Enc_E5M2O_01
import BitstringModel.Proofs.C11_Enc_E5M2O_02
import BitstringModel.Proofs.C11_Enc_E5M2O_03
import BitstringModel.Proofs.C11_Enc_E5M2O_04
import BitstringModel.Proofs.C11_Enc_E5M2O_05
import BitstringModel.Proofs.C11_Enc_E5M2O_06
import BitstringModel.Proofs.C11_Enc_E5M2O_07
import BitstringModel.Proofs.C11_Enc_E5M2O_08
import BitstringModel.Proofs.C11_Enc_E5M2O_09
import BitstringModel.Proofs.C11_Enc_E5M2O_10
import BitstringModel.Proofs.C11_Enc_E5M2O_11
import BitstringModel.Proofs.C11_Enc_E5M2O_12
import BitstringModel.Proofs.C11_Enc_E5M2O_13
import BitstringModel.Proofs.C11_Enc_E5M2O_14
import BitstringModel.Proofs.C11_Enc_E5M2O_15
import BitstringModel.Proofs.C11_Enc_E4M3S_00
import BitstringModel.Proofs.C11_Enc_E4M3S_01
import BitstringModel.Proofs.C11_Enc_E4M3S_02
import BitstringModel.Proofs.C11_Enc_E4M3S_03
import BitstringModel.Proofs.C11_Enc_E4M3S_04
import BitstringModel.Proofs.C11_Enc_E4M3S_05
import BitstringModel.Proofs.C11_Enc_E4M3S_06
import BitstringModel.Proofs.C11_Enc_E4M3S_07
import BitstringModel.Proofs.C11_Enc_E4M3S_08
import BitstringModel.Proofs.C11_Enc_E4M3S_09
import BitstringModel.Proofs.C11_Enc_E4M3S_10
import BitstringModel.Proofs.C11_Enc_E4M3S_11
import BitstringModel.Proofs.C11_Enc_E4M3S_12
import BitstringModel.Proofs.C11_Enc_E4M3S_13
import BitstringModel.Proofs.C11_Enc_E4M3S_14
import BitstringModel.Proofs.C11_Enc_E4M3S_15
import BitstringModel.Proofs.C11_Enc_E4M3O_00
import BitstringModel.Proofs.C11_Enc_E4M3O_01
import BitstringModel.Proofs.C11_Enc_E4M3O_02
import BitstringModel.Proofs.C11_Enc_E4M3O_03
import BitstringModel.Proofs.C11_Enc_E4M3O_04
import BitstringModel.Proofs.C11_Enc_E4M3O_05
import BitstringModel.Proofs.C11_Enc_E4M3O_06
import BitstringModel.Proofs.C11_Enc_E4M3O_07
import BitstringModel.Proofs.C11_Enc_E4M3O_08
import BitstringModel.Proofs.C11_Enc_E4M3O_09
import BitstringModel.Proofs.C11_Enc_E4M3O_10
import BitstringModel.Proofs.C11_Enc_E4M3O_11
import BitstringModel.Proofs.C11_Enc_E4M3O_12
import BitstringModel.Proofs.C11_Enc_E4M3O_13
import BitstringModel.Proofs.C11_Enc_E4M3O_14
import BitstringModel.Proofs.C11_Enc_E4M3O_15
import BitstringModel.Proofs.C11_Enc_E3M2_00
import BitstringModel.Proofs.C11_Enc_E3M2_01
import BitstringModel.Proofs.C11_Enc_E3M2_02
import BitstringModel.Proofs.C11_Enc_E3M2_03
import BitstringModel.Proofs.C11_Enc_E3M2_04
import BitstringModel.Proofs.C11_Enc_E3M2_05
import BitstringModel.Proofs.C11_Enc_E3M2_06
import BitstringModel.Proofs.C11_Enc_E3M2_07
import BitstringModel.Proofs.C11_Enc_E3M2_08
import BitstringModel.Proofs.C11_Enc_E3M2_09
import BitstringModel.Proofs.C11_Enc_E3M2_10
import BitstringModel.Proofs.C11_Enc_E3M2_11
import BitstringModel.Proofs.C11_Enc_E3M2_12
import BitstringModel.Proofs.C11_Enc_E3M2_13
import BitstringModel.Proofs.C11_Enc_E3M2_14
import BitstringModel.Proofs.C11_Enc_E3M2_15
import BitstringModel.Proofs.C11_Enc_E2M3_00
import BitstringModel.Proofs.C11_Enc_E2M3_01
import BitstringModel.Proofs.C11_Enc_E2M3_02
import BitstringModel.Proofs.C11_Enc_E2M3_03
import BitstringModel.Proofs.C11_Enc_E2M3_04
import BitstringModel.Proofs.C11_Enc_E2M3_05
import BitstringModel.Proofs.C11_Enc_E2M3_06
import BitstringModel.Proofs.C11_Enc_E2M3_07
import BitstringModel.Proofs.C11_Enc_E2M3_08
import BitstringModel.Proofs.C11_Enc_E2M3_09
import BitstringModel.Proofs.C11_Enc_E2M3_10
import BitstringModel.Proofs.C11_Enc_E2M3_11
import BitstringModel.Proofs.C11_Enc_E2M3_12
import BitstringModel.Proofs.C11_Enc_E2M3_13
import BitstringModel.Proofs.C11_Enc_E2M3_14
import BitstringModel.Proofs.C11_Enc_E2M3_15
import BitstringModel.Proofs.C11_Enc_E2M1_00
import BitstringModel.Proofs.C11_Enc_E2M1_01
import BitstringModel.Proofs.C11_Enc_E2M1_02
import BitstringModel.Proofs.C11_Enc_E2M1_03
import BitstringModel.Proofs.C11_Enc_E2M1_04
import BitstringModel.Proofs.C11_Enc_E2M1_05
import BitstringModel.Proofs.C11_Enc_E2M1_06
import BitstringModel.Proofs.C11_Enc_E2M1_07
import BitstringModel.Proofs.C11_Enc_E2M1_08
import BitstringModel.Proofs.C11_Enc_E2M1_09
import BitstringModel.Proofs.C11_Enc_E2M1_10
import BitstringModel.Proofs.C11_Enc_E2M1_11
import BitstringModel.Proofs.C11_Enc_E2M1_12
import BitstringModel.Proofs.C11_Enc_E2M1_13
import BitstringModel.Proofs.C11_Enc_E2M1_14
import BitstringModel.Proofs.C11_Enc_E2M1_15

namespace BM.C11
open BM

theorem encTable_P3 (h : Nat) (hh : h < 65536) :
    ∃ code, encLookup Gen.encP3 h = some code ∧ encChk (Tbl.fmt .p3) (Tbl.mode .p3) h code = true := by
  have key : ∀ k, k < 16 → encChunkOk .p3 k = true := fun k hk =>
    match k, hk with
    | 0, _ => encChunk_P3_00
    | 1, _ => encChunk_P3_01
    | 2, _ => encChunk_P3_02
    | 3, _ => encChunk_P3_03
    | 4, _ => encChunk_P3_04
    | 5, _ => encChunk_P3_05
    | 6, _ => encChunk_P3_06
    | 7, _ => encChunk_P3_07
    | 8, _ => encChunk_P3_08
    | 9, _ => encChunk_P3_09
    | 10, _ => encChunk_P3_10
    | 11, _ => encChunk_P3_11
    | 12, _ => encChunk_P3_12
    | 13, _ => encChunk_P3_13
    | 14, _ => encChunk_P3_14
    | 15, _ => encChunk_P3_15
    | k + 16, hk => absurd hk (by omega)
  exact encChunkOk_spec (t := .p3) (key (h / 4096) (by omega)) h (by omega) (by omega)

theorem encTable_P4 (h : Nat) (hh : h < 65536) :
    ∃ code, encLookup Gen.encP4 h = some code ∧ encChk (Tbl.fmt .p4) (Tbl.mode .p4) h code = true := by
  have key : ∀ k, k < 16 → encChunkOk .p4 k = true := fun k hk =>
    match k, hk with
    | 0, _ => encChunk_P4_00
    | 1, _ => encChunk_P4_01
    | 2, _ => encChunk_P4_02
    | 3, _ => encChunk_P4_03
    | 4, _ => encChunk_P4_04
    | 5, _ => encChunk_P4_05
    | 6, _ => encChunk_P4_06
    | 7, _ => encChunk_P4_07
    | 8, _ => encChunk_P4_08
    | 9, _ => encChunk_P4_09
    | 10, _ => encChunk_P4_10
    | 11, _ => encChunk_P4_11
    | 12, _ => encChunk_P4_12
    | 13, _ => encChunk_P4_13
    | 14, _ => encChunk_P4_14
    | 15, _ => encChunk_P4_15
    | k + 16, hk => absurd hk (by omega)
  exact encChunkOk_spec (t := .p4) (key (h / 4096) (by omega)) h (by omega) (by omega)

theorem encTable_E5M2S (h : Nat) (hh : h < 65536) :
    ∃ code, encLookup Gen.encE5M2S h = some code ∧ encChk (Tbl.fmt .e5m2s) (Tbl.mode .e5m2s) h code = true := by
  have key : ∀ k, k < 16 → encChunkOk .e5m2s k = true := fun k hk =>
    match k, hk with
    | 0, _ => encChunk_E5M2S_00
    | 1, _ => encChunk_E5M2S_01
    | 2, _ => encChunk_E5M2S_02
    | 3, _ => encChunk_E5M2S_03
    | 4, _ => encChunk_E5M2S_04
    | 5, _ => encChunk_E5M2S_05
    | 6, _ => encChunk_E5M2S_06
    | 7, _ => encChunk_E5M2S_07
    | 8, _ => encChunk_E5M2S_08
    | 9, _ => encChunk_E5M2S_09
    | 10, _ => encChunk_E5M2S_10
    | 11, _ => encChunk_E5M2S_11
    | 12, _ => encChunk_E5M2S_12
    | 13, _ => encChunk_E5M2S_13
    | 14, _ => encChunk_E5M2S_14
    | 15, _ => encChunk_E5M2S_15
    | k + 16, hk => absurd hk (by omega)
  exact encChunkOk_spec (t := .e5m2s) (key (h / 4096) (by omega)) h (by omega) (by omega)

theorem encTable_E5M2O (h : Nat) (hh : h < 65536) :
    ∃ code, encLookup Gen.encE5M2O h = some code ∧ encChk (Tbl.fmt .e5m2o) (Tbl.mode .e5m2o) h code = true := by
  have key : ∀ k, k < 16 → encChunkOk .e5m2o k = true := fun k hk =>
    match k, hk with
    | 0, _ => encChunk_E5M2O_00
    | 1, _ => encChunk_E5M2O_01
    | 2, _ => encChunk_E5M2O_02
    | 3, _ => encChunk_E5M2O_03
    | 4, _ => encChunk_E5M2O_04
    | 5, _ => encChunk_E5M2O_05
    | 6, _ => encChunk_E5M2O_06
    | 7, _ => encChunk_E5M2O_07
    | 8, _ => encChunk_E5M2O_08
    | 9, _ => encChunk_E5M2O_09
    | 10, _ => encChunk_E5M2O_10
    | 11, _ => encChunk_E5M2O_11
    | 12, _ => encChunk_E5M2O_12
    | 13, _ => encChunk_E5M2O_13
    | 14, _ => encChunk_E5M2O_14
    | 15, _ => encChunk_E5M2O_15
    | k + 16, hk => absurd hk (by omega)
  exact encChunkOk_spec (t := .e5m2o) (key (h / 4096) (by omega)) h (by omega) (by omega)

theorem encTable_E4M3S (h : Nat) (hh : h < 65536) :
    ∃ code, encLookup Gen.encE4M3S h = some code ∧ encChk (Tbl.fmt .e4m3s) (Tbl.mode .e4m3s) h code = true := by
  have key : ∀ k, k < 16 → encChunkOk .e4m3s k = true := fun k hk =>
    match k, hk with
    | 0, _ => encChunk_E4M3S_00
    | 1, _ => encChunk_E4M3S_01
    | 2, _ => encChunk_E4M3S_02
    | 3, _ => encChunk_E4M3S_03
    | 4, _ => encChunk_E4M3S_04
    | 5, _ => encChunk_E4M3S_05
    | 6, _ => encChunk_E4M3S_06
    | 7, _ => encChunk_E4M3S_07
    | 8, _ => encChunk_E4M3S_08
    | 9, _ => encChunk_E4M3S_09
    | 10, _ => encChunk_E4M3S_10
    | 11, _ => encChunk_E4M3S_11
    | 12, _ => encChunk_E4M3S_12
    | 13, _ => encChunk_E4M3S_13
    | 14, _ => encChunk_E4M3S_14
    | 15, _ => encChunk_E4M3S_15
    | k + 16, hk => absurd hk (by omega)
  exact encChunkOk_spec (t := .e4m3s) (key (h / 4096) (by omega)) h (by omega) (by omega)

theorem encTable_E4M3O (h : Nat) (hh : h < 65536) :
    ∃ code, encLookup Gen.encE4M3O h = some code ∧ encChk (Tbl.fmt .e4m3o) (Tbl.mode .e4m3o) h code = true := by
  have key : ∀ k, k < 16 → encChunkOk .e4m3o k = true := fun k hk =>
    match k, hk with
    | 0, _ => encChunk_E4M3O_00
    | 1, _ => encChunk_E4M3O_01
    | 2, _ => encChunk_E4M3O_02
    | 3, _ => encChunk_E4M3O_03
    | 4, _ => encChunk_E4M3O_04
    | 5, _ => encChunk_E4M3O_05
    | 6, _ => encChunk_E4M3O_06
    | 7, _ => encChunk_E4M3O_07
    | 8, _ => encChunk_E4M3O_08
    | 9, _ => encChunk_E4M3O_09
    | 10, _ => encChunk_E4M3O_10
    | 11, _ => encChunk_E4M3O_11
    | 12, _ => encChunk_E4M3O_12
    | 13, _ => encChunk_E4M3O_13
    | 14, _ => encChunk_E4M3O_14
    | 15, _ => encChunk_E4M3O_15
    | k + 16, hk => absurd hk (by omega)
  exact encChunkOk_spec (t := .e4m3o) (key (h / 4096) (by omega)) h (by omega) (by omega)

theorem encTable_E3M2 (h : Nat) (hh : h < 65536) :
    ∃ code, encLookup Gen.encE3M2 h = some code ∧ encChk (Tbl.fmt .e3m2) (Tbl.mode .e3m2) h code = true := by
  have key : ∀ k, k < 16 → encChunkOk .e3m2 k = true := fun k hk =>
    match k, hk with
    | 0, _ => encChunk_E3M2_00
    | 1, _ => encChunk_E3M2_01
    | 2, _ => encChunk_E3M2_02
    | 3, _ => encChunk_E3M2_03
    | 4, _ => encChunk_E3M2_04
    | 5, _ => encChunk_E3M2_05
    | 6, _ => encChunk_E3M2_06
    | 7, _ => encChunk_E3M2_07
    | 8, _ => encChunk_E3M2_08
    | 9, _ => encChunk_E3M2_09
    | 10, _ => encChunk_E3M2_10
    | 11, _ => encChunk_E3M2_11
    | 12, _ => encChunk_E3M2_12
    | 13, _ => encChunk_E3M2_13
    | 14, _ => encChunk_E3M2_14
    | 15, _ => encChunk_E3M2_15
    | k + 16, hk => absurd hk (by omega)
  exact encChunkOk_spec (t := .e3m2) (key (h / 4096) (by omega)) h (by omega) (by omega)

theorem encTable_E2M3 (h : Nat) (hh : h < 65536) :
    ∃ code, encLookup Gen.encE2M3 h = some code ∧ encChk (Tbl.fmt .e2m3) (Tbl.mode .e2m3) h code = true := by
  have key : ∀ k, k < 16 → encChunkOk .e2m3 k = true := fun k hk =>
    match k, hk with
    | 0, _ => encChunk_E2M3_00
    | 1, _ => encChunk_E2M3_01
    | 2, _ => encChunk_E2M3_02
    | 3, _ => encChunk_E2M3_03
    | 4, _ => encChunk_E2M3_04
    | 5, _ => encChunk_E2M3_05
    | 6, _ => encChunk_E2M3_06
    | 7, _ => encChunk_E2M3_07
    | 8, _ => encChunk_E2M3_08
    | 9, _ => encChunk_E2M3_09
    | 10, _ => encChunk_E2M3_10
    | 11, _ => encChunk_E2M3_11
    | 12, _ => encChunk_E2M3_12
    | 13, _ => encChunk_E2M3_13
    | 14, _ => encChunk_E2M3_14
    | 15, _ => encChunk_E2M3_15
    | k + 16, hk => absurd hk (by omega)
  exact encChunkOk_spec (t := .e2m3) (key (h / 4096) (by omega)) h (by omega) (by omega)

theorem encTable_E2M1 (h : Nat) (hh : h < 65536) :
    ∃ code, encLookup Gen.encE2M1 h = some code ∧ encChk (Tbl.fmt .e2m1) (Tbl.mode .e2m1) h code = true := by
  have key : ∀ k, k < 16 → encChunkOk .e2m1 k = true := fun k hk =>
    match k, hk with
    | 0, _ => encChunk_E2M1_00
    | 1, _ => encChunk_E2M1_01
    | 2, _ => encChunk_E2M1_02
    | 3, _ => encChunk_E2M1_03
    | 4, _ => encChunk_E2M1_04
    | 5, _ => encChunk_E2M1_05
    | 6, _ => encChunk_E2M1_06
    | 7, _ => encChunk_E2M1_07
    | 8, _ => encChunk_E2M1_08
    | 9, _ => encChunk_E2M1_09
    | 10, _ => encChunk_E2M1_10
    | 11, _ => encChunk_E2M1_11
    | 12, _ => encChunk_E2M1_12
    | 13, _ => encChunk_E2M1_13
    | 14, _ => encChunk_E2M1_14
    | 15, _ => encChunk_E2M1_15
    | k + 16, hk => absurd hk (by omega)
  exact encChunkOk_spec (t := .e2m1) (key (h / 4096) (by omega)) h (by omega) (by omega)

end BM.C11
