/-
  Proofs/C15Window.lean — helper lemmas for Props/C15_Window.lean: Python slicing with in-range indices,
  bytes ↔ bits slicing, and each source setter against `windowSpec`.
-/
import BitstringModel.Proofs.C15
import Mathlib.Data.List.Basic
set_option linter.unusedSimpArgs false
set_option linter.unusedTactic false
set_option linter.unreachableTactic false
namespace BM.C15
open BM

theorem pySlice_nn {α} (l : List α) (a b : Nat) (hab : a ≤ b) (hb : b ≤ l.length) :
    pySlice l (some (a : Int)) (some (b : Int)) = (l.drop a).take (b - a) := by
  unfold pySlice Py.sliceIndices
  simp only [show ¬ ((1 : Int) < 0) by omega, if_false]
  have h1 : ¬ ((a : Int) < 0) := by omega
  have h2 : ¬ ((b : Int) < 0) := by omega
  simp only [h1, h2, if_false]
  have e1 : min (a : Int) (l.length : Int) = a := by omega
  have e2 : min (b : Int) (l.length : Int) = b := by omega
  rw [e1, e2]
  have e3 : ((b : Int) - (a : Int)).toNat = b - a := by omega
  simp only [Int.toNat_natCast, e3]

theorem pySlice_end {α} (l : List α) (a : Nat) (ha : a ≤ l.length) :
    pySlice l (some (a : Int)) none = l.drop a := by
  unfold pySlice Py.sliceIndices
  simp only [show ¬ ((1 : Int) < 0) by omega, if_false]
  have h1 : ¬ ((a : Int) < 0) := by omega
  simp only [h1, if_false]
  have e1 : min (a : Int) (l.length : Int) = a := by omega
  rw [e1]
  simp only [Int.toNat_natCast]
  apply List.take_of_length_le
  simp

/-- An offset past the end gives an empty slice. -/
theorem pySlice_beyond {α} (l : List α) (a : Nat) (b : Int) (ha : l.length ≤ a) :
    pySlice l (some (a : Int)) (some b) = [] := by
  unfold pySlice Py.sliceIndices
  simp only [show ¬ ((1 : Int) < 0) by omega, if_false]
  have h1 : ¬ ((a : Int) < 0) := by omega
  simp only [h1, if_false]
  have e1 : min (a : Int) (l.length : Int) = l.length := by omega
  rw [e1]
  simp

theorem pySlice_length_le {α} (l : List α) (a b : Option Int) : (pySlice l a b).length ≤ l.length := by
  unfold pySlice; simp

theorem window_ok_iff_aux (src : Bits) (off len : Option Int) (b : Bits) :
    windowSpec src off len = .ok b ↔
      (0 ≤ off.getD 0 ∧ 0 ≤ len.getD ((src.length : Int) - off.getD 0) ∧
        off.getD 0 + len.getD ((src.length : Int) - off.getD 0) ≤ src.length ∧
        b = (src.drop (off.getD 0).toNat).take (len.getD ((src.length : Int) - off.getD 0)).toNat) := by
  unfold windowSpec
  simp only
  by_cases h : 0 ≤ off.getD 0 ∧ 0 ≤ len.getD ((src.length : Int) - off.getD 0) ∧
      off.getD 0 + len.getD ((src.length : Int) - off.getD 0) ≤ src.length
  · rw [if_pos h]
    exact ⟨fun e => ⟨h.1, h.2.1, h.2.2, by injection e with e; exact e.symm⟩, fun e => by rw [e.2.2.2]⟩
  · rw [if_neg h]
    exact ⟨fun e => (by cases e), fun e => absurd ⟨e.1, e.2.1, e.2.2.1⟩ h⟩

theorem window_length_aux (src : Bits) (off len : Option Int) (b : Bits) (h : windowSpec src off len = .ok b) :
    (b.length : Int) = len.getD ((src.length : Int) - off.getD 0) := by
  obtain ⟨h1, h2, h3, rfl⟩ := (window_ok_iff_aux src off len b).1 h
  simp only [List.length_take, List.length_drop]
  omega

/-- The specification for natural `off`, `len` that fit. -/
theorem windowSpec_fit (src : Bits) (off len : Option Int) (o l : Nat)
    (ho : off.getD 0 = (o : Int)) (hl : len.getD ((src.length : Int) - (o : Int)) = (l : Int)) (hfit : o + l ≤ src.length) :
    windowSpec src off len = .ok ((src.drop o).take l) := by
  unfold windowSpec
  simp only [ho, hl]
  rw [if_pos ⟨by omega, by omega, by omega⟩]
  simp

theorem windowSpec_bad (src : Bits) (off len : Option Int)
    (h : ¬ (0 ≤ off.getD 0 ∧ 0 ≤ len.getD ((src.length : Int) - off.getD 0) ∧
      off.getD 0 + len.getD ((src.length : Int) - off.getD 0) ≤ src.length)) :
    windowSpec src off len = .error .value := by
  unfold windowSpec; simp only; rw [if_neg h]

theorem pySlice_ge {α} (l : List α) (a b : Nat) (hab : a ≤ b) (ha : a ≤ l.length) :
    pySlice l (some (a : Int)) (some (b : Int)) = (l.drop a).take (b - a) := by
  by_cases hb : b ≤ l.length
  · exact pySlice_nn l a b hab hb
  · unfold pySlice Py.sliceIndices
    simp only [show ¬ ((1 : Int) < 0) by omega, if_false]
    have h1 : ¬ ((a : Int) < 0) := by omega
    have h2 : ¬ ((b : Int) < 0) := by omega
    simp only [h1, h2, if_false]
    have e1 : min (a : Int) (l.length : Int) = a := by omega
    have e2 : min (b : Int) (l.length : Int) = l.length := by omega
    rw [e1, e2]
    have e3 : ((l.length : Int) - (a : Int)).toNat = l.length - a := by omega
    simp only [Int.toNat_natCast, e3]
    rw [List.take_of_length_le (by simp), List.take_of_length_le (by simp; omega)]

theorem fromBytes_cons (x : Nat) (t : List Nat) : fromBytes (x :: t) = natToBits 8 x ++ fromBytes t := by
  simp [fromBytes]

theorem fromBytes_drop (d : List Nat) (a : Nat) : fromBytes (d.drop a) = (fromBytes d).drop (8 * a) := by
  induction d generalizing a with
  | nil => simp [fromBytes]
  | cons x t ih =>
    cases a with
    | zero => simp
    | succ a =>
      rw [List.drop_succ_cons, ih, fromBytes_cons]
      have : 8 * (a + 1) = (natToBits 8 x).length + 8 * a := by simp; omega
      rw [this, List.drop_append]
      simp

theorem fromBytes_take (d : List Nat) (k : Nat) : fromBytes (d.take k) = (fromBytes d).take (8 * k) := by
  induction d generalizing k with
  | nil => simp [fromBytes]
  | cons x t ih =>
    cases k with
    | zero => simp [fromBytes]
    | succ k =>
      rw [List.take_succ_cons, fromBytes_cons, fromBytes_cons, ih]
      have : 8 * (k + 1) = (natToBits 8 x).length + 8 * k := by simp; omega
      rw [this, List.take_append]
      simp
      exact (List.take_of_length_le (by simp)).symm

theorem windowSpec_all (src : Bits) : windowSpec src none none = .ok src := by
  rw [windowSpec_fit src none none 0 src.length (by simp) (by simp) (by omega)]
  simp


theorem negLen_false (len : Option Int) (h : negLen len = false) : ∀ l, len = some l → 0 ≤ l := by
  intro l hl; subst hl
  simp only [negLen, decide_eq_false_iff_not] at h
  omega

theorem negLen_true (len : Option Int) (h : negLen len = true) : ∃ l, len = some l ∧ l < 0 := by
  cases len with
  | none => simp [negLen] at h
  | some l => exact ⟨l, rfl, by simpa [negLen] using h⟩

/-- A negative length never satisfies the specification. -/
theorem windowSpec_negLen (src : Bits) (off len : Option Int) (h : negLen len = true) :
    windowSpec src off len = .error .value := by
  obtain ⟨l, rfl, hl⟩ := negLen_true len h
  apply windowSpec_bad
  simp only [Option.getD_some]
  omega

theorem windowSpec_negOff (src : Bits) (off len : Option Int) (h : off.getD 0 < 0) :
    windowSpec src off len = .error .value := by
  apply windowSpec_bad; omega

theorem windowSpec_beyond (src : Bits) (off len : Option Int) (h0 : 0 ≤ off.getD 0) (hl : negLen len = false)
    (h : off.getD 0 > src.length) : windowSpec src off len = .error .value := by
  apply windowSpec_bad
  cases len with
  | none => simp only [Option.getD_none]; omega
  | some l => have := negLen_false _ hl l rfl; simp only [Option.getD_some]; omega

/-! ### bitarray= -/

theorem bitarrayWin_eq_aux (ba : Bits) (off len : Option Int) :
    bitarrayWin ba off len = windowSpec ba off len := by
  unfold bitarrayWin
  simp only
  by_cases h0 : off.getD 0 < 0
  · rw [if_pos h0, windowSpec_negOff _ _ _ h0]
  · rw [if_neg h0]
    cases hnl : negLen len with
    | true => simp only [if_true]; rw [windowSpec_negLen _ _ _ hnl]
    | false =>
      simp only [Bool.false_eq_true, if_false]
      by_cases hgt : off.getD 0 > (ba.length : Int)
      · rw [if_pos hgt, windowSpec_beyond _ _ _ (by omega) hnl hgt]
      · rw [if_neg hgt]
        obtain ⟨o, ho⟩ := Int.eq_ofNat_of_zero_le (by omega : 0 ≤ off.getD 0)
        rw [ho] at hgt ⊢
        have hole : o ≤ ba.length := by omega
        cases len with
        | none =>
          simp only
          rw [pySlice_end _ _ hole]
          rw [windowSpec_fit ba off none o (ba.length - o) ho (by simp; omega) (by omega)]
          congr 1
          symm; apply List.take_of_length_le; simp
        | some l =>
          have hl0 := negLen_false _ hnl l rfl
          obtain ⟨k, rfl⟩ := Int.eq_ofNat_of_zero_le hl0
          simp only
          by_cases hfit : (o : Int) + (k : Int) > ba.length
          · rw [if_pos hfit, windowSpec_bad]
            rw [ho]; simp; omega
          · rw [if_neg hfit]
            have : ((o : Int) + (k : Int)) = ((o + k : Nat) : Int) := by push_cast; rfl
            rw [this, pySlice_nn _ _ _ (by omega) (by omega)]
            rw [windowSpec_fit ba off (some (k : Int)) o k ho (by simp) (by omega)]
            congr 2; omega

/-! ### bytes= -/

theorem bytesWin_unfold (data : List Nat) (off len : Option Int) (h : ¬ (off = none ∧ len = none)) :
    bytesWin data off len = bytesGeneral data (off.getD 0) len := by
  cases off <;> cases len <;> simp at h <;> rfl

theorem bytesGeneral_eq (data : List Nat) (off len : Option Int) :
    bytesGeneral data (off.getD 0) len = windowSpec (fromBytes data) off len := by
  have hn : (fromBytes data).length = 8 * data.length := fromBytes_length data
  have hnI : ((data.length : Int) * 8) = ((fromBytes data).length : Int) := by rw [hn]; push_cast; ring
  unfold bytesGeneral
  simp only
  rw [hnI]
  by_cases h0 : off.getD 0 < 0
  · rw [if_pos h0, windowSpec_negOff _ _ _ h0]
  · rw [if_neg h0]
    cases hnl : negLen len with
    | true => simp only [if_true]; rw [windowSpec_negLen _ _ _ hnl]
    | false =>
      simp only [Bool.false_eq_true, if_false]
      by_cases hgt : off.getD 0 > ((fromBytes data).length : Int)
      · rw [if_pos hgt, windowSpec_beyond _ _ _ (by omega) hnl hgt]
      · rw [if_neg hgt]
        obtain ⟨o, ho⟩ := Int.eq_ofNat_of_zero_le (by omega : 0 ≤ off.getD 0)
        rw [ho] at hgt ⊢
        have hole : o ≤ (fromBytes data).length := by omega
        cases len with
        | none =>
          simp only
          have : ((o : Int) + (((fromBytes data).length : Int) - (o : Int))) = (((fromBytes data).length : Nat) : Int) := by omega
          rw [this, pySlice_nn _ _ _ hole (le_refl _)]
          rw [windowSpec_fit _ off none o ((fromBytes data).length - o) ho (by simp; omega) (by omega)]
        | some l =>
          have hl0 := negLen_false _ hnl l rfl
          obtain ⟨k, rfl⟩ := Int.eq_ofNat_of_zero_le hl0
          simp only
          by_cases hfit : (k : Int) + (o : Int) > ((fromBytes data).length : Int)
          · rw [if_pos hfit, windowSpec_bad]
            rw [ho]; simp; omega
          · rw [if_neg hfit]
            have : ((o : Int) + (k : Int)) = ((o + k : Nat) : Int) := by push_cast; rfl
            rw [this, pySlice_nn _ _ _ (by omega) (by omega)]
            rw [windowSpec_fit _ off (some (k : Int)) o k ho (by simp) (by omega)]
            congr 2; omega

theorem bytesWin_eq_aux (data : List Nat) (off len : Option Int) :
    bytesWin data off len = windowSpec (fromBytes data) off len := by
  by_cases hnn : off = none ∧ len = none
  · obtain ⟨rfl, rfl⟩ := hnn
    rw [windowSpec_all]; rfl
  · rw [bytesWin_unfold data off len hnn]
    exact bytesGeneral_eq data off len

/-! ### BytesIO -/

/-- The arithmetic part of the BytesIO branch, with `length` already defaulted. -/
def bytesioBody (data : List Nat) (offset0 length : Int) : Except Err Bits :=
  let n : Int := data.length * 8
  let byteoffset := offset0 / 8
  let offset := offset0 % 8
  let bytelength := (length + byteoffset * 8 + offset + 7) / 8 - byteoffset
  if length + byteoffset * 8 + offset > n then .error .value
  else
    let chunk := pySlice data (some byteoffset) (some (byteoffset + bytelength))
    .ok (pySlice (fromBytes chunk) (some offset) (some (offset + length)))

/-- The byte-offset / bit-offset arithmetic: for `o + L ≤ 8·|data|` the chunk of bytes that is read and the
    bit slice taken from it are exactly bits `o … o+L` of the data. -/
theorem bytesioBody_fit (data : List Nat) (o L : Nat) (hfit : o + L ≤ 8 * data.length) :
    bytesioBody data (o : Int) (L : Int) = .ok (((fromBytes data).drop o).take L) := by
  unfold bytesioBody
  simp only
  have hbo : ((o : Int) / 8) = ((o / 8 : Nat) : Int) := by norm_cast
  have hof : ((o : Int) % 8) = ((o % 8 : Nat) : Int) := by norm_cast
  rw [hbo, hof]
  have hsum : ((L : Int) + ((o / 8 : Nat) : Int) * 8 + ((o % 8 : Nat) : Int)) = ((L + o : Nat) : Int) := by
    push_cast; omega
  rw [hsum]
  rw [if_neg (by push_cast; omega)]
  have he : ((((L + o : Nat) : Int) + 7) / 8) = (((L + o + 7) / 8 : Nat) : Int) := by norm_cast
  rw [he]
  have hbl : (((o / 8 : Nat) : Int) + ((((L + o + 7) / 8 : Nat) : Int) - ((o / 8 : Nat) : Int)))
      = (((L + o + 7) / 8 : Nat) : Int) := by omega
  rw [hbl]
  have h1 : o / 8 ≤ (L + o + 7) / 8 := by omega
  have h2 : (L + o + 7) / 8 ≤ data.length := by omega
  rw [pySlice_nn data _ _ h1 h2]
  have h3 : (((o % 8 : Nat) : Int) + (L : Int)) = ((o % 8 + L : Nat) : Int) := by push_cast; rfl
  rw [h3]
  have hlenB := fromBytes_length data
  have hchunk : (fromBytes ((data.drop (o / 8)).take ((L + o + 7) / 8 - o / 8))).length
      = 8 * ((L + o + 7) / 8 - o / 8) := by
    rw [fromBytes_length]; simp; omega
  rw [pySlice_nn _ _ _ (by omega) (by rw [hchunk]; omega)]
  rw [fromBytes_take, fromBytes_drop]
  rw [List.drop_take, List.drop_drop, List.take_take]
  have e1 : 8 * (o / 8) + o % 8 = o := by omega
  have e2 : min (o % 8 + L - o % 8) (8 * ((L + o + 7) / 8 - o / 8) - o % 8) = L := by omega
  rw [e1, e2]

theorem bytesioBody_bad (data : List Nat) (o : Nat) (L : Int) (h : (o : Int) + L > 8 * data.length) :
    bytesioBody data (o : Int) L = .error .value := by
  unfold bytesioBody
  simp only
  have : L + (o : Int) / 8 * 8 + (o : Int) % 8 = L + o := by omega
  rw [this, if_pos (by omega)]

theorem bytesioWin_unfold (data : List Nat) (off len : Option Int) (h : ¬ (off = none ∧ len = none)) :
    bytesioWin data off len = bytesioGeneral data (off.getD 0) len := by
  cases off <;> cases len <;> simp at h <;> rfl

theorem bytesioGeneral_eq (data : List Nat) (off len : Option Int) :
    bytesioGeneral data (off.getD 0) len = windowSpec (fromBytes data) off len := by
  have hn : (fromBytes data).length = 8 * data.length := fromBytes_length data
  have hnI : ((data.length : Int) * 8) = ((fromBytes data).length : Int) := by rw [hn]; push_cast; ring
  have hbody : ∀ o L : Int, bytesioGeneral data o len =
      if o < 0 then .error .value else if negLen len = true then .error .value
      else if o > (data.length : Int) * 8 then .error .value
      else bytesioBody data o (match len with | none => (data.length : Int) * 8 - o | some l => l) := by
    intro o _; rfl
  rw [hbody _ 0, hnI]
  by_cases h0 : off.getD 0 < 0
  · rw [if_pos h0, windowSpec_negOff _ _ _ h0]
  · rw [if_neg h0]
    cases hnl : negLen len with
    | true => simp only [if_true]; rw [windowSpec_negLen _ _ _ hnl]
    | false =>
      simp only [Bool.false_eq_true, if_false]
      by_cases hgt : off.getD 0 > ((fromBytes data).length : Int)
      · rw [if_pos hgt, windowSpec_beyond _ _ _ (by omega) hnl hgt]
      · rw [if_neg hgt]
        obtain ⟨o, ho⟩ := Int.eq_ofNat_of_zero_le (by omega : 0 ≤ off.getD 0)
        rw [ho] at hgt ⊢
        have hole : o ≤ (fromBytes data).length := by omega
        cases len with
        | none =>
          simp only
          have : (((fromBytes data).length : Int) - (o : Int)) = ((8 * data.length - o : Nat) : Int) := by omega
          rw [this, bytesioBody_fit data o _ (by omega)]
          rw [windowSpec_fit _ off none o (8 * data.length - o) ho (by simp; omega) (by omega)]
        | some l =>
          have hl0 := negLen_false _ hnl l rfl
          obtain ⟨k, rfl⟩ := Int.eq_ofNat_of_zero_le hl0
          simp only
          by_cases hfit : o + k ≤ 8 * data.length
          · rw [bytesioBody_fit data o k hfit]
            rw [windowSpec_fit _ off (some (k : Int)) o k ho (by simp) (by omega)]
          · rw [bytesioBody_bad data o k (by omega), windowSpec_bad]
            rw [ho]; simp; omega

theorem bytesioWin_eq_aux (data : List Nat) (off len : Option Int) :
    bytesioWin data off len = windowSpec (fromBytes data) off len := by
  by_cases hnn : off = none ∧ len = none
  · obtain ⟨rfl, rfl⟩ := hnn
    rw [windowSpec_all]; rfl
  · rw [bytesioWin_unfold data off len hnn]
    exact bytesioGeneral_eq data off len

/-! ### files -/

theorem fileWin_eq_aux (data : List Nat) (off len : Option Int) :
    fileWin data off len = windowSpec (fromBytes data) off len := by
  unfold fileWin
  simp only
  by_cases h0 : off.getD 0 < 0
  · rw [if_pos h0, windowSpec_negOff _ _ _ h0]
  · rw [if_neg h0]
    obtain ⟨o, ho⟩ := Int.eq_ofNat_of_zero_le (by omega : 0 ≤ off.getD 0)
    simp only [ho]
    by_cases ho0 : (o : Int) = 0
    · have ho0' : o = 0 := by omega
      subst ho0'
      simp only [Nat.cast_zero, if_true]
      cases len with
      | none =>
        simp only
        rw [windowSpec_fit _ off none 0 (fromBytes data).length ho (by simp) (by omega)]
        simp
      | some l =>
        simp only
        by_cases hl : l < 0
        · rw [if_pos hl, windowSpec_bad]; rw [ho]; simp; omega
        · rw [if_neg hl]
          by_cases hl2 : l > ((fromBytes data).length : Int)
          · rw [if_pos hl2, windowSpec_bad]; rw [ho]; simp; omega
          · rw [if_neg hl2]
            obtain ⟨k, rfl⟩ := Int.eq_ofNat_of_zero_le (by omega : 0 ≤ l)
            rw [windowSpec_fit _ off (some (k : Int)) 0 k ho (by simp) (by omega)]
            simp
    · simp only [ho0, if_false]
      by_cases hgt : (o : Int) > ((fromBytes data).length : Int)
      · rw [if_pos hgt, windowSpec_bad]
        rw [ho]
        cases len with
        | none => simp; omega
        | some l =>
          simp only [Option.getD_some]
          omega
      · rw [if_neg hgt]
        have hole : o ≤ (fromBytes data).length := by omega
        cases len with
        | none =>
          simp only
          rw [pySlice_end _ _ hole]
          rw [windowSpec_fit _ off none o ((fromBytes data).length - o) ho (by simp; omega) (by omega)]
          congr 1; symm; apply List.take_of_length_le; simp
        | some l =>
          simp only
          by_cases hl : l < 0
          · have : ((pySlice (fromBytes data) (some (o : Int)) (some ((o : Int) + l))).length : Int) ≠ l := by
              have := Int.natCast_nonneg (pySlice (fromBytes data) (some (o : Int)) (some ((o : Int) + l))).length
              omega
            rw [if_pos this, windowSpec_bad]; rw [ho]; simp; omega
          · obtain ⟨k, rfl⟩ := Int.eq_ofNat_of_zero_le (by omega : 0 ≤ l)
            have hcast : ((o : Int) + (k : Int)) = ((o + k : Nat) : Int) := by push_cast; rfl
            rw [hcast, pySlice_ge _ _ _ (by omega) hole]
            by_cases hfit : o + k ≤ (fromBytes data).length
            · have hlen : ((((fromBytes data).drop o).take (o + k - o)).length : Int) = (k : Int) := by
                simp; omega
              rw [if_neg (by rw [hlen]; simp)]
              rw [windowSpec_fit _ off (some (k : Int)) o k ho (by simp) (by omega)]
              congr 2; omega
            · have hlen : ((((fromBytes data).drop o).take (o + k - o)).length : Int) ≠ (k : Int) := by
                simp; omega
              rw [if_pos hlen, windowSpec_bad]; rw [ho]; simp; omega

end BM.C15
