/-
  Proofs/C15Window.lean — helper lemmas for Props/C15_Window.lean.
-/
import BitstringModel.Model.C15
import BitstringModel.Proofs.Basic
import Mathlib.Data.List.Basic

namespace BM.C15
open BM

theorem window_ok_iff_aux (src : Bits) (off len : Option Int) (b : Bits) :
    windowSpec src off len = .ok b ↔
      (0 ≤ off.getD 0 ∧ 0 ≤ len.getD ((src.length : Int) - off.getD 0) ∧
        off.getD 0 + len.getD ((src.length : Int) - off.getD 0) ≤ src.length ∧
        b = (src.drop (off.getD 0).toNat).take (len.getD ((src.length : Int) - off.getD 0)).toNat) := by
  sorry

theorem window_length_aux (src : Bits) (off len : Option Int) (b : Bits) (h : windowSpec src off len = .ok b) :
    (b.length : Int) = len.getD ((src.length : Int) - off.getD 0) := by
  sorry

theorem bitarrayWin_eq_partial_aux (ba : Bits) (off len : Option Int) (hneg : winNegative off len = false) :
    bitarrayWin ba off len = windowSpec ba off len := by
  sorry

theorem bytesWin_eq_partial_aux (data : List Nat) (off len : Option Int) (hneg : winNegative off len = false)
    (hbey : len = none → winBeyond (fromBytes data).length off = false) :
    bytesWin data off len = windowSpec (fromBytes data) off len := by
  sorry

theorem bytesioWin_eq_partial_aux (data : List Nat) (off len : Option Int) (hneg : winNegative off len = false)
    (hbey : len = none → winBeyond (fromBytes data).length off = false) :
    bytesioWin data off len = windowSpec (fromBytes data) off len := by
  sorry

theorem fileWin_eq_partial_aux (data : List Nat) (off len : Option Int) (hne : data ≠ [])
    (hoff : 0 ≤ off.getD 0) (hbey : winBeyond (fromBytes data).length off = false ∨ len ≠ some 0) :
    fileWin data off len = windowSpec (fromBytes data) off len := by
  sorry

end BM.C15
