/- Kernel obligation: entries 0x1000..0x1fff of the live float16->code table `Gen.encP3` pass `encChk`
   (one sixteenth of the table per file so that lake checks them in parallel; depends only on the specification and on
   this table; assembled in Proofs/C11_Tables.lean). -/
import BitstringModel.Model.C11_Spec
import BitstringModel.Gen.LutEncP3
namespace BM.C11
theorem encChunk_P3_01 : encChunkOkT Gen.encP3 Fmt.p3 .saturate 1 = true := by decide +kernel
end BM.C11
