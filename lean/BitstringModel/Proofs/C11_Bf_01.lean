/- Kernel obligation: `bfChk` (Proofs/C11_NumDefs.lean) on the 16-bit patterns 0x0400..0x07ff. -/
import BitstringModel.Proofs.C11_NumDefs
namespace BM.C11
theorem bfChunk_01 : bfChunkOk 1 = true := by decide +kernel
end BM.C11
