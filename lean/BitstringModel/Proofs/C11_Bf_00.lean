/- Kernel obligation: `bfChk` (Proofs/C11_NumDefs.lean) on the 16-bit patterns 0x0000..0x03ff. -/
import BitstringModel.Proofs.C11_NumDefs
namespace BM.C11
theorem bfChunk_00 : bfChunkOk 0 = true := by decide +kernel
end BM.C11
