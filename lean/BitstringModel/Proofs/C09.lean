/-
  Proofs/C09.lean — helper lemmas for Props/C09.lean (LRU list machine, option invariants, eight-cache system,
  method tables).
-/
import BitstringModel.Model.C09
import Mathlib.Data.List.Basic
namespace BM.C09
open BM

section lru
variable {κ ν : Type} [DecidableEq κ]

theorem lruFind_mem {c : Cache κ ν} {k : κ} {v : ν} (h : lruFind c k = some v) : (k, v) ∈ c := by
  induction c with
  | nil => simp [lruFind] at h
  | cons e t ih =>
    obtain ⟨k', v'⟩ := e
    simp only [lruFind] at h
    split at h
    · rename_i hk; cases h; subst hk; exact List.mem_cons_self
    · exact List.mem_cons_of_mem _ (ih h)

theorem lruFind_none {c : Cache κ ν} {k : κ} (h : lruFind c k = none) : k ∉ c.map Prod.fst := by
  induction c with
  | nil => simp
  | cons e t ih =>
    obtain ⟨k', v'⟩ := e
    simp only [lruFind] at h
    split at h
    · cases h
    · rename_i hk
      simp only [List.map_cons, List.mem_cons, not_or]
      exact ⟨fun e => hk e.symm, ih h⟩

theorem lruRemove_mem {c : Cache κ ν} {k : κ} {e : κ × ν} (h : e ∈ lruRemove c k) : e ∈ c :=
  (List.mem_filter.1 h).1

/-- Where the entries of the cache after a call come from. -/
theorem cachedCall_mem {cap : Nat} {c : Cache κ ν} {k : κ} {r : Except Err ν} {e : κ × ν}
    (h : e ∈ (cachedCall cap c k r).1) : e ∈ c ∨ ∃ v, r = .ok v ∧ e = (k, v) := by
  unfold cachedCall at h
  split at h
  · rename_i v hv
    simp only [List.mem_cons] at h
    rcases h with rfl | h
    · exact Or.inl (lruFind_mem hv)
    · exact Or.inl (lruRemove_mem h)
  · split at h
    · rename_i v
      have := List.mem_of_mem_take h
      simp only [List.mem_cons] at this
      rcases this with rfl | h'
      · exact Or.inr ⟨v, rfl, rfl⟩
      · exact Or.inl h'
    · exact Or.inl h

/-- What a call returns: what the function computes now, or a stored value. -/
theorem cachedCall_result (cap : Nat) (c : Cache κ ν) (k : κ) (r : Except Err ν) :
    (cachedCall cap c k r).2 = r ∨ ∃ v, (k, v) ∈ c ∧ (cachedCall cap c k r).2 = .ok v := by
  unfold cachedCall
  split
  · rename_i v hv; exact Or.inr ⟨v, lruFind_mem hv, rfl⟩
  · split <;> exact Or.inl rfl

theorem cachedCall_bounded {cap : Nat} {c : Cache κ ν} (k : κ) (r : Except Err ν) (h : Bounded cap c) :
    Bounded cap (cachedCall cap c k r).1 := by
  obtain ⟨hl, hn⟩ := h
  unfold cachedCall
  split
  · rename_i v hv
    have hmem : (k, v) ∈ c := lruFind_mem hv
    have hsub : (lruRemove c k).Sublist c := List.filter_sublist
    have hk : k ∉ (lruRemove c k).map Prod.fst := by
      intro hm
      obtain ⟨e, he, hek⟩ := List.mem_map.1 hm
      have := (List.mem_filter.1 he).2
      simp only [ne_eq, decide_eq_true_eq] at this
      exact this hek
    have hlen : (lruRemove c k).length < c.length := by
      apply List.length_filter_lt_length_iff_exists.2
      exact ⟨(k, v), hmem, by simp⟩
    refine ⟨?_, ?_⟩
    · simp only [List.length_cons]; omega
    · simp only [List.map_cons, List.nodup_cons]
      exact ⟨hk, hn.sublist (hsub.map _)⟩
  · rename_i hnone
    split
    · rename_i v
      refine ⟨?_, ?_⟩
      · simp only [List.length_take]; omega
      · have h1 : (((k, v) :: c).map Prod.fst).Nodup := by
          simp only [List.map_cons, List.nodup_cons]
          exact ⟨lruFind_none hnone, hn⟩
        exact h1.sublist ((List.take_sublist _ _).map _)
    · exact ⟨hl, hn⟩

end lru
end BM.C09
