/-
  Proofs/C09.lean — helper lemmas for Props/C09.lean (LRU list machine, option invariants, eight-cache system,
  method tables).
-/
import BitstringModel.Model.C09
import Mathlib.Data.List.Basic
namespace BM.C09
open BM

section lru
variable {κ ν : Type} [DecidableEq κ]

theorem lruFind_mem {c : Cache κ ν} {k : κ} {v : ν} (h : lruFind c k = some v) : (k, v) ∈ c := by
  induction c with
  | nil => simp [lruFind] at h
  | cons e t ih =>
    obtain ⟨k', v'⟩ := e
    simp only [lruFind] at h
    split at h
    · rename_i hk; cases h; subst hk; exact List.mem_cons_self
    · exact List.mem_cons_of_mem _ (ih h)

theorem lruFind_none {c : Cache κ ν} {k : κ} (h : lruFind c k = none) : k ∉ c.map Prod.fst := by
  induction c with
  | nil => simp
  | cons e t ih =>
    obtain ⟨k', v'⟩ := e
    simp only [lruFind] at h
    split at h
    · cases h
    · rename_i hk
      simp only [List.map_cons, List.mem_cons, not_or]
      exact ⟨fun e => hk e.symm, ih h⟩

theorem lruRemove_mem {c : Cache κ ν} {k : κ} {e : κ × ν} (h : e ∈ lruRemove c k) : e ∈ c :=
  (List.mem_filter.1 h).1

/-- Where the entries of the cache after a call come from. -/
theorem cachedCall_mem {cap : Nat} {c : Cache κ ν} {k : κ} {r : Except Err ν} {e : κ × ν}
    (h : e ∈ (cachedCall cap c k r).1) : e ∈ c ∨ ∃ v, r = .ok v ∧ e = (k, v) := by
  unfold cachedCall at h
  split at h
  · rename_i v hv
    simp only [List.mem_cons] at h
    rcases h with rfl | h
    · exact Or.inl (lruFind_mem hv)
    · exact Or.inl (lruRemove_mem h)
  · split at h
    · rename_i v
      have := List.mem_of_mem_take h
      simp only [List.mem_cons] at this
      rcases this with rfl | h'
      · exact Or.inr ⟨v, rfl, rfl⟩
      · exact Or.inl h'
    · exact Or.inl h

/-- What a call returns: what the function computes now, or a stored value. -/
theorem cachedCall_result (cap : Nat) (c : Cache κ ν) (k : κ) (r : Except Err ν) :
    (cachedCall cap c k r).2 = r ∨ ∃ v, (k, v) ∈ c ∧ (cachedCall cap c k r).2 = .ok v := by
  unfold cachedCall
  split
  · rename_i v hv; exact Or.inr ⟨v, lruFind_mem hv, rfl⟩
  · split <;> exact Or.inl rfl

theorem cachedCall_bounded {cap : Nat} {c : Cache κ ν} (k : κ) (r : Except Err ν) (h : Bounded cap c) :
    Bounded cap (cachedCall cap c k r).1 := by
  obtain ⟨hl, hn⟩ := h
  unfold cachedCall
  split
  · rename_i v hv
    have hmem : (k, v) ∈ c := lruFind_mem hv
    have hsub : (lruRemove c k).Sublist c := List.filter_sublist
    have hk : k ∉ (lruRemove c k).map Prod.fst := by
      intro hm
      obtain ⟨e, he, hek⟩ := List.mem_map.1 hm
      have := (List.mem_filter.1 he).2
      simp only [ne_eq, decide_eq_true_eq] at this
      exact this hek
    have hlen : (lruRemove c k).length < c.length := by
      apply List.length_filter_lt_length_iff_exists.2
      exact ⟨(k, v), hmem, by simp⟩
    refine ⟨?_, ?_⟩
    · simp only [List.length_cons]; omega
    · simp only [List.map_cons, List.nodup_cons]
      exact ⟨hk, hn.sublist (hsub.map _)⟩
  · rename_i hnone
    split
    · rename_i v
      refine ⟨?_, ?_⟩
      · simp only [List.length_take]; omega
      · have h1 : (((k, v) :: c).map Prod.fst).Nodup := by
          simp only [List.map_cons, List.nodup_cons]
          exact ⟨lruFind_none hnone, hn⟩
        exact h1.sublist ((List.take_sublist _ _).map _)
    · exact ⟨hl, hn⟩

end lru

section machine
variable {α κ ν : Type} [DecidableEq κ]

omit [DecidableEq κ] in
theorem bounded_nil (cap : Nat) : Bounded cap ([] : Cache κ ν) := ⟨Nat.zero_le _, List.nodup_nil⟩

theorem bounded_step (m : Cfg α κ ν) (s : St κ ν) (op : Op α) (h : Bounded m.cap s.cache) :
    Bounded m.cap (step m s op).1.cache := by
  cases op with
  | call a => exact cachedCall_bounded _ _ h
  | setOpt n v =>
    simp only [step]
    split
    · exact bounded_nil _
    · exact h
  | clear => exact bounded_nil _

theorem bounded_run (m : Cfg α κ ν) (ops : List (Op α)) :
    ∀ s : St κ ν, Bounded m.cap s.cache → Bounded m.cap (run m s ops).1.cache := by
  induction ops with
  | nil => intro s h; exact h
  | cons op ops ih => intro s h; exact ih _ (bounded_step m s op h)

theorem computed_step (m : Cfg α κ ν) (s : St κ ν) (op : Op α) (h : Computed m s.cache) :
    Computed m (step m s op).1.cache := by
  cases op with
  | call a =>
    intro e he
    rcases cachedCall_mem he with he | ⟨v, hv, rfl⟩
    · exact h e he
    · exact ⟨s.opts, a, rfl, hv⟩
  | setOpt n v =>
    simp only [step]
    split
    · intro e he; cases he
    · exact h
  | clear => intro e he; cases he

theorem computed_run (m : Cfg α κ ν) (ops : List (Op α)) :
    ∀ s : St κ ν, Computed m s.cache → Computed m (run m s ops).1.cache := by
  induction ops with
  | nil => intro s h; exact h
  | cons op ops ih => intro s h; exact ih _ (computed_step m s op h)

theorem correct_upto (m : Cfg α κ ν) (R : ν → ν → Prop) (a : α)
    (hcol : ∀ o o' a' v', m.key a' = m.key a → m.f o' a' = .ok v' → ∃ v, m.f o a = .ok v ∧ R v v')
    (s : St κ ν) (hc : Computed m s.cache) :
    match (step m s (.call a)).2 with
    | some (.ok v') => ∃ v, m.f s.opts a = .ok v ∧ R v v'
    | some (.error e) => m.f s.opts a = .error e
    | none => False := by
  simp only [step]
  rcases cachedCall_result m.cap s.cache (m.key a) (m.f s.opts a) with h | ⟨v, hm, h⟩
  · rw [h]
    cases hf : m.f s.opts a with
    | ok v' =>
      obtain ⟨v, hv, hR⟩ := hcol s.opts s.opts a v' rfl hf
      rw [hf] at hv
      exact ⟨v, hv, hR⟩
    | error e => rfl
  · rw [h]
    obtain ⟨o', a', hk, hv⟩ := hc _ hm
    exact hcol s.opts o' a' v hk hv

theorem correct_exact (m : Cfg α κ ν) (a : α)
    (hopt : ∀ o₁ o₂, m.f o₁ a = m.f o₂ a)
    (hkey : ∀ a', m.key a' = m.key a → a' = a)
    (s : St κ ν) (hc : Computed m s.cache) :
    (step m s (.call a)).2 = some (m.f s.opts a) := by
  simp only [step]
  rcases cachedCall_result m.cap s.cache (m.key a) (m.f s.opts a) with h | ⟨v, hm, h⟩
  · rw [h]
  · rw [h]
    obtain ⟨o', a', hk, hv⟩ := hc _ hm
    have := hkey a' hk
    subst this
    rw [hopt s.opts o', hv]

/-! ### option-dependent functions -/

theorem fresh_call (m : Cfg α κ ν) (hk : KeyDetermines m) (s : St κ ν) (hf : Fresh m s.opts s.cache) (a : α) :
    (step m s (.call a)).2 = some (m.f s.opts a) ∧
    Fresh m (step m s (.call a)).1.opts (step m s (.call a)).1.cache := by
  refine ⟨?_, ?_⟩
  · simp only [step]
    rcases cachedCall_result m.cap s.cache (m.key a) (m.f s.opts a) with h | ⟨v, hm, h⟩
    · rw [h]
    · rw [h]
      obtain ⟨a', hka, hv⟩ := hf _ hm
      rw [← hk s.opts a' a hka, hv]
  · intro e he
    rcases cachedCall_mem he with he | ⟨v, hv, rfl⟩
    · exact hf e he
    · exact ⟨a, rfl, hv⟩

theorem fresh_step (m : Cfg α κ ν) (hk : KeyDetermines m) (hr : ReadsOnlyInvalidating m) (s : St κ ν)
    (hf : Fresh m s.opts s.cache) (op : Op α) :
    (step m s op).2 = pureOut m.f s.opts op ∧ (step m s op).1.opts = optsStep s.opts op ∧
    Fresh m (step m s op).1.opts (step m s op).1.cache := by
  cases op with
  | call a => exact ⟨(fresh_call m hk s hf a).1, rfl, (fresh_call m hk s hf a).2⟩
  | setOpt n v =>
    refine ⟨rfl, rfl, ?_⟩
    simp only [step]
    cases hi : m.inval n with
    | true => intro e he; simp at he
    | false =>
      intro e he
      simp only [Bool.false_eq_true, if_false] at he
      obtain ⟨a, hka, hv⟩ := hf e he
      exact ⟨a, hka, by rw [hr n hi]; exact hv⟩
  | clear => exact ⟨rfl, rfl, by intro e he; cases he⟩

theorem run_pure (m : Cfg α κ ν) (hk : KeyDetermines m) (hr : ReadsOnlyInvalidating m) (ops : List (Op α)) :
    ∀ s : St κ ν, Fresh m s.opts s.cache → (run m s ops).2 = pureRun m.f s.opts ops := by
  induction ops with
  | nil => intro s _; rfl
  | cons op ops ih =>
    intro s hf
    obtain ⟨h1, h2, h3⟩ := fresh_step m hk hr s hf op
    simp only [run, pureRun]
    rw [h1, ih _ h3, h2]

theorem run_opts (m : Cfg α κ ν) (ops : List (Op α)) :
    ∀ s : St κ ν, (run m s ops).1.opts = optsAfter s.opts ops := by
  induction ops with
  | nil => intro s; rfl
  | cons op ops ih =>
    intro s
    simp only [run, optsAfter, List.foldl_cons]
    rw [ih]
    cases op <;> rfl

theorem fresh_run (m : Cfg α κ ν) (hk : KeyDetermines m) (hr : ReadsOnlyInvalidating m) (ops : List (Op α)) :
    ∀ s : St κ ν, Fresh m s.opts s.cache → Fresh m (run m s ops).1.opts (run m s ops).1.cache := by
  induction ops with
  | nil => intro s h; exact h
  | cons op ops ih => intro s hf; exact ih _ (fresh_step m hk hr s hf op).2.2

omit [DecidableEq κ] in
theorem fresh_init (m : Cfg α κ ν) : Fresh m (St.init : St κ ν).opts (St.init : St κ ν).cache := by
  intro e he; cases he

theorem restore (m : Cfg α κ ν) (hk : KeyDetermines m) (hr : ReadsOnlyInvalidating m)
    (ops₁ ops₂ : List (Op α)) (a : α) (h : optsAfter Opts.init ops₁ = optsAfter Opts.init ops₂) :
    (step m (run m St.init ops₁).1 (.call a)).2 = (step m (run m St.init ops₂).1 (.call a)).2 := by
  rw [(fresh_call m hk _ (fresh_run m hk hr ops₁ St.init (fresh_init m)) a).1,
      (fresh_call m hk _ (fresh_run m hk hr ops₂ St.init (fresh_init m)) a).1,
      run_opts, run_opts]
  show some (m.f (optsAfter Opts.init ops₁) a) = some (m.f (optsAfter Opts.init ops₂) a)
  rw [h]

end machine
end BM.C09
