/-
  Proofs/C09.lean — helper lemmas for Props/C09.lean (LRU list machine, option invariants, eight-cache system,
  method tables).
-/
import BitstringModel.Model.C09
import Mathlib.Data.List.Basic
namespace BM.C09
open BM

section lru
variable {κ ν : Type} [DecidableEq κ]

theorem lruFind_mem {c : Cache κ ν} {k : κ} {v : ν} (h : lruFind c k = some v) : (k, v) ∈ c := by
  induction c with
  | nil => simp [lruFind] at h
  | cons e t ih =>
    obtain ⟨k', v'⟩ := e
    simp only [lruFind] at h
    split at h
    · rename_i hk; cases h; subst hk; exact List.mem_cons_self
    · exact List.mem_cons_of_mem _ (ih h)

theorem lruFind_none {c : Cache κ ν} {k : κ} (h : lruFind c k = none) : k ∉ c.map Prod.fst := by
  induction c with
  | nil => simp
  | cons e t ih =>
    obtain ⟨k', v'⟩ := e
    simp only [lruFind] at h
    split at h
    · cases h
    · rename_i hk
      simp only [List.map_cons, List.mem_cons, not_or]
      exact ⟨fun e => hk e.symm, ih h⟩

theorem lruRemove_mem {c : Cache κ ν} {k : κ} {e : κ × ν} (h : e ∈ lruRemove c k) : e ∈ c :=
  (List.mem_filter.1 h).1

/-- Where the entries of the cache after a call come from. -/
theorem cachedCall_mem {cap : Nat} {c : Cache κ ν} {k : κ} {r : Except Err ν} {e : κ × ν}
    (h : e ∈ (cachedCall cap c k r).1) : e ∈ c ∨ ∃ v, r = .ok v ∧ e = (k, v) := by
  unfold cachedCall at h
  split at h
  · rename_i v hv
    simp only [List.mem_cons] at h
    rcases h with rfl | h
    · exact Or.inl (lruFind_mem hv)
    · exact Or.inl (lruRemove_mem h)
  · split at h
    · rename_i v
      have := List.mem_of_mem_take h
      simp only [List.mem_cons] at this
      rcases this with rfl | h'
      · exact Or.inr ⟨v, rfl, rfl⟩
      · exact Or.inl h'
    · exact Or.inl h

/-- What a call returns: what the function computes now, or a stored value. -/
theorem cachedCall_result (cap : Nat) (c : Cache κ ν) (k : κ) (r : Except Err ν) :
    (cachedCall cap c k r).2 = r ∨ ∃ v, (k, v) ∈ c ∧ (cachedCall cap c k r).2 = .ok v := by
  unfold cachedCall
  split
  · rename_i v hv; exact Or.inr ⟨v, lruFind_mem hv, rfl⟩
  · split <;> exact Or.inl rfl

theorem cachedCall_bounded {cap : Nat} {c : Cache κ ν} (k : κ) (r : Except Err ν) (h : Bounded cap c) :
    Bounded cap (cachedCall cap c k r).1 := by
  obtain ⟨hl, hn⟩ := h
  unfold cachedCall
  split
  · rename_i v hv
    have hmem : (k, v) ∈ c := lruFind_mem hv
    have hsub : (lruRemove c k).Sublist c := List.filter_sublist
    have hk : k ∉ (lruRemove c k).map Prod.fst := by
      intro hm
      obtain ⟨e, he, hek⟩ := List.mem_map.1 hm
      have := (List.mem_filter.1 he).2
      simp only [ne_eq, decide_eq_true_eq] at this
      exact this hek
    have hlen : (lruRemove c k).length < c.length := by
      apply List.length_filter_lt_length_iff_exists.2
      exact ⟨(k, v), hmem, by simp⟩
    refine ⟨?_, ?_⟩
    · simp only [List.length_cons]; omega
    · simp only [List.map_cons, List.nodup_cons]
      exact ⟨hk, hn.sublist (hsub.map _)⟩
  · rename_i hnone
    split
    · rename_i v
      refine ⟨?_, ?_⟩
      · simp only [List.length_take]; omega
      · have h1 : (((k, v) :: c).map Prod.fst).Nodup := by
          simp only [List.map_cons, List.nodup_cons]
          exact ⟨lruFind_none hnone, hn⟩
        exact h1.sublist ((List.take_sublist _ _).map _)
    · exact ⟨hl, hn⟩

end lru

section machine
variable {α κ ν : Type} [DecidableEq κ]

omit [DecidableEq κ] in
theorem bounded_nil (cap : Nat) : Bounded cap ([] : Cache κ ν) := ⟨Nat.zero_le _, List.nodup_nil⟩

theorem bounded_step (m : Cfg α κ ν) (s : St κ ν) (op : Op α) (h : Bounded m.cap s.cache) :
    Bounded m.cap (step m s op).1.cache := by
  cases op with
  | call a => exact cachedCall_bounded _ _ h
  | setOpt n v =>
    simp only [step]
    split
    · exact bounded_nil _
    · exact h
  | clear => exact bounded_nil _

theorem bounded_run (m : Cfg α κ ν) (ops : List (Op α)) :
    ∀ s : St κ ν, Bounded m.cap s.cache → Bounded m.cap (run m s ops).1.cache := by
  induction ops with
  | nil => intro s h; exact h
  | cons op ops ih => intro s h; exact ih _ (bounded_step m s op h)

theorem computed_step (m : Cfg α κ ν) (s : St κ ν) (op : Op α) (h : Computed m s.cache) :
    Computed m (step m s op).1.cache := by
  cases op with
  | call a =>
    intro e he
    rcases cachedCall_mem he with he | ⟨v, hv, rfl⟩
    · exact h e he
    · exact ⟨s.opts, a, rfl, hv⟩
  | setOpt n v =>
    simp only [step]
    split
    · intro e he; cases he
    · exact h
  | clear => intro e he; cases he

theorem computed_run (m : Cfg α κ ν) (ops : List (Op α)) :
    ∀ s : St κ ν, Computed m s.cache → Computed m (run m s ops).1.cache := by
  induction ops with
  | nil => intro s h; exact h
  | cons op ops ih => intro s h; exact ih _ (computed_step m s op h)

theorem correct_upto (m : Cfg α κ ν) (R : ν → ν → Prop) (a : α)
    (hcol : ∀ o o' a' v', m.key a' = m.key a → m.f o' a' = .ok v' → ∃ v, m.f o a = .ok v ∧ R v v')
    (s : St κ ν) (hc : Computed m s.cache) :
    match (step m s (.call a)).2 with
    | some (.ok v') => ∃ v, m.f s.opts a = .ok v ∧ R v v'
    | some (.error e) => m.f s.opts a = .error e
    | none => False := by
  simp only [step]
  rcases cachedCall_result m.cap s.cache (m.key a) (m.f s.opts a) with h | ⟨v, hm, h⟩
  · rw [h]
    cases hf : m.f s.opts a with
    | ok v' =>
      obtain ⟨v, hv, hR⟩ := hcol s.opts s.opts a v' rfl hf
      rw [hf] at hv
      exact ⟨v, hv, hR⟩
    | error e => rfl
  · rw [h]
    obtain ⟨o', a', hk, hv⟩ := hc _ hm
    exact hcol s.opts o' a' v hk hv

theorem correct_exact (m : Cfg α κ ν) (a : α)
    (hopt : ∀ o₁ o₂, m.f o₁ a = m.f o₂ a)
    (hkey : ∀ a', m.key a' = m.key a → a' = a)
    (s : St κ ν) (hc : Computed m s.cache) :
    (step m s (.call a)).2 = some (m.f s.opts a) := by
  simp only [step]
  rcases cachedCall_result m.cap s.cache (m.key a) (m.f s.opts a) with h | ⟨v, hm, h⟩
  · rw [h]
  · rw [h]
    obtain ⟨o', a', hk, hv⟩ := hc _ hm
    have := hkey a' hk
    subst this
    rw [hopt s.opts o', hv]

/-! ### option-dependent functions -/

theorem fresh_call (m : Cfg α κ ν) (hk : KeyDetermines m) (s : St κ ν) (hf : Fresh m s.opts s.cache) (a : α) :
    (step m s (.call a)).2 = some (m.f s.opts a) ∧
    Fresh m (step m s (.call a)).1.opts (step m s (.call a)).1.cache := by
  refine ⟨?_, ?_⟩
  · simp only [step]
    rcases cachedCall_result m.cap s.cache (m.key a) (m.f s.opts a) with h | ⟨v, hm, h⟩
    · rw [h]
    · rw [h]
      obtain ⟨a', hka, hv⟩ := hf _ hm
      rw [← hk s.opts a' a hka, hv]
  · intro e he
    rcases cachedCall_mem he with he | ⟨v, hv, rfl⟩
    · exact hf e he
    · exact ⟨a, rfl, hv⟩

theorem fresh_step (m : Cfg α κ ν) (hk : KeyDetermines m) (hr : ReadsOnlyInvalidating m) (s : St κ ν)
    (hf : Fresh m s.opts s.cache) (op : Op α) :
    (step m s op).2 = pureOut m.f s.opts op ∧ (step m s op).1.opts = optsStep s.opts op ∧
    Fresh m (step m s op).1.opts (step m s op).1.cache := by
  cases op with
  | call a => exact ⟨(fresh_call m hk s hf a).1, rfl, (fresh_call m hk s hf a).2⟩
  | setOpt n v =>
    refine ⟨rfl, rfl, ?_⟩
    simp only [step]
    cases hi : m.inval n with
    | true => intro e he; simp at he
    | false =>
      intro e he
      simp only [Bool.false_eq_true, if_false] at he
      obtain ⟨a, hka, hv⟩ := hf e he
      exact ⟨a, hka, by rw [hr n hi]; exact hv⟩
  | clear => exact ⟨rfl, rfl, by intro e he; cases he⟩

theorem run_pure (m : Cfg α κ ν) (hk : KeyDetermines m) (hr : ReadsOnlyInvalidating m) (ops : List (Op α)) :
    ∀ s : St κ ν, Fresh m s.opts s.cache → (run m s ops).2 = pureRun m.f s.opts ops := by
  induction ops with
  | nil => intro s _; rfl
  | cons op ops ih =>
    intro s hf
    obtain ⟨h1, h2, h3⟩ := fresh_step m hk hr s hf op
    simp only [run, pureRun]
    rw [h1, ih _ h3, h2]

theorem run_opts (m : Cfg α κ ν) (ops : List (Op α)) :
    ∀ s : St κ ν, (run m s ops).1.opts = optsAfter s.opts ops := by
  induction ops with
  | nil => intro s; rfl
  | cons op ops ih =>
    intro s
    simp only [run, optsAfter, List.foldl_cons]
    rw [ih]
    cases op <;> rfl

theorem fresh_run (m : Cfg α κ ν) (hk : KeyDetermines m) (hr : ReadsOnlyInvalidating m) (ops : List (Op α)) :
    ∀ s : St κ ν, Fresh m s.opts s.cache → Fresh m (run m s ops).1.opts (run m s ops).1.cache := by
  induction ops with
  | nil => intro s h; exact h
  | cons op ops ih => intro s hf; exact ih _ (fresh_step m hk hr s hf op).2.2

omit [DecidableEq κ] in
theorem fresh_init (m : Cfg α κ ν) : Fresh m (St.init : St κ ν).opts (St.init : St κ ν).cache := by
  intro e he; cases he

theorem restore (m : Cfg α κ ν) (hk : KeyDetermines m) (hr : ReadsOnlyInvalidating m)
    (ops₁ ops₂ : List (Op α)) (a : α) (h : optsAfter Opts.init ops₁ = optsAfter Opts.init ops₂) :
    (step m (run m St.init ops₁).1 (.call a)).2 = (step m (run m St.init ops₂).1 (.call a)).2 := by
  rw [(fresh_call m hk _ (fresh_run m hk hr ops₁ St.init (fresh_init m)) a).1,
      (fresh_call m hk _ (fresh_run m hk hr ops₂ St.init (fresh_init m)) a).1,
      run_opts, run_opts]
  show some (m.f (optsAfter Opts.init ops₁) a) = some (m.f (optsAfter Opts.init ops₂) a)
  rw [h]

/-! ### without invalidation: outside the region -/

/-- Every entry was stored by a call recorded in `past`. -/
def Traced (m : Cfg α κ ν) (past : List (Opts × α)) (c : Cache κ ν) : Prop :=
  ∀ e ∈ c, ∃ p ∈ past, m.key p.2 = e.1 ∧ m.f p.1 p.2 = .ok e.2

def Consistent (m : Cfg α κ ν) (t : List (Opts × α)) : Prop :=
  ∀ p ∈ t, ∀ q ∈ t, m.key p.2 = m.key q.2 → m.f p.1 p.2 = m.f q.1 q.2

theorem consistent_of_region [DecidableEq ν] (m : Cfg α κ ν) (o : Opts) (ops : List (Op α))
    (h : reuse_after_option_change m o ops = false) : Consistent m (callTrace o ops) := by
  intro p hp q hq hk
  unfold reuse_after_option_change at h
  by_contra hne
  have : ((callTrace o ops).any fun p => (callTrace o ops).any fun q =>
      decide (m.key p.2 = m.key q.2) && !decide (m.f p.1 p.2 = m.f q.1 q.2)) = true := by
    rw [List.any_eq_true]
    refine ⟨p, hp, ?_⟩
    rw [List.any_eq_true]
    refine ⟨q, hq, ?_⟩
    simp [hk, hne]
  rw [this] at h
  cases h

theorem run_traced (m : Cfg α κ ν) (ops : List (Op α)) :
    ∀ (s : St κ ν) (past : List (Opts × α)), Traced m past s.cache →
      Consistent m (past ++ callTrace s.opts ops) → (run m s ops).2 = pureRun m.f s.opts ops := by
  induction ops with
  | nil => intro s past _ _; rfl
  | cons op ops ih =>
    intro s past ht hc
    cases op with
    | call a =>
      have hc' : Consistent m ((past ++ [(s.opts, a)]) ++ callTrace s.opts ops) := by
        rw [List.append_assoc]; exact hc
      have hres : (step m s (.call a)).2 = some (m.f s.opts a) := by
        simp only [step]
        rcases cachedCall_result m.cap s.cache (m.key a) (m.f s.opts a) with h | ⟨v, hm, h⟩
        · rw [h]
        · rw [h]
          obtain ⟨p, hp, hpk, hpv⟩ := ht _ hm
          have := hc p (List.mem_append_left _ hp) (s.opts, a)
            (List.mem_append_right _ (by simp [callTrace])) hpk
          rw [← this, hpv]
      have htr : Traced m (past ++ [(s.opts, a)]) (step m s (.call a)).1.cache := by
        intro e he
        rcases cachedCall_mem he with he | ⟨v, hv, rfl⟩
        · obtain ⟨p, hp, h1, h2⟩ := ht e he
          exact ⟨p, List.mem_append_left _ hp, h1, h2⟩
        · exact ⟨(s.opts, a), by simp, rfl, hv⟩
      simp only [run, pureRun]
      rw [hres]
      have := ih (step m s (.call a)).1 (past ++ [(s.opts, a)]) htr hc'
      rw [this]
      rfl
    | setOpt n v =>
      have htr : Traced m past (step m s (.setOpt n v)).1.cache := by
        simp only [step]
        split
        · intro e he; cases he
        · exact ht
      simp only [run, pureRun]
      have := ih (step m s (.setOpt n v)).1 past htr hc
      rw [this]
      rfl
    | clear =>
      have htr : Traced m past (step m s .clear).1.cache := by intro e he; cases he
      simp only [run, pureRun]
      have := ih (step m s .clear).1 past htr hc
      rw [this]
      rfl

theorem run_pure_partial [DecidableEq ν] (m : Cfg α κ ν) (_hk : KeyDetermines m) (o : Opts) (ops : List (Op α))
    (h : reuse_after_option_change m o ops = false) :
    (run m ⟨o, []⟩ ops).2 = pureRun m.f o ops :=
  run_traced m ops ⟨o, []⟩ [] (by intro e he; cases he) (by simpa using consistent_of_region m o ops h)

omit [DecidableEq κ] in
theorem pureRun_append_call (f : Opts → α → Except Err ν) (ops : List (Op α)) (a : α) :
    ∀ o, (pureRun f o (ops ++ [.call a])).getLast? = some (some (f (optsAfter o ops) a)) := by
  induction ops with
  | nil => intro o; rfl
  | cons op ops ih =>
    intro o
    simp only [List.cons_append, pureRun]
    rw [List.getLast?_cons_of_ne_nil]
    · rw [ih]; rfl
    · cases ops <;> simp [pureRun]

theorem restore_partial [DecidableEq ν] (m : Cfg α κ ν) (hk : KeyDetermines m)
    (ops₁ ops₂ : List (Op α)) (a : α)
    (h₁ : reuse_after_option_change m Opts.init (ops₁ ++ [.call a]) = false)
    (h₂ : reuse_after_option_change m Opts.init (ops₂ ++ [.call a]) = false)
    (h : optsAfter Opts.init ops₁ = optsAfter Opts.init ops₂) :
    (run m St.init (ops₁ ++ [.call a])).2.getLast? = (run m St.init (ops₂ ++ [.call a])).2.getLast? := by
  have e1 := run_pure_partial m hk Opts.init _ h₁
  have e2 := run_pure_partial m hk Opts.init _ h₂
  show (run m ⟨Opts.init, []⟩ _).2.getLast? = (run m ⟨Opts.init, []⟩ _).2.getLast?
  rw [e1, e2, pureRun_append_call, pureRun_append_call, h]

theorem strCfg_roi (cap : Nat) : ReadsOnlyInvalidating (strCfg cap true) := by
  intro n hn o v a
  cases n with
  | bytealigned => simp [strCfg, sem, Opts.set]
  | lsb0 => simp [strCfg] at hn
  | mxfp => simp [strCfg] at hn

end machine

/-! ## tables and bindings -/

theorem tableFind_append (l₁ l₂ : Table) (k : String × String) :
    tableFind (l₁ ++ l₂) k = match tableFind l₁ k with
      | some x => some x
      | none => tableFind l₂ k := by
  induction l₁ with
  | nil => rfl
  | cons e t ih =>
    obtain ⟨k', v⟩ := e
    simp only [List.cons_append, tableFind]
    split
    · rfl
    · exact ih

theorem tableFind_isSome_iff (t : Table) (k : String × String) :
    (tableFind t k).isSome = true ↔ k ∈ t.map (·.1) := by
  induction t with
  | nil => simp [tableFind]
  | cons e t ih =>
    obtain ⟨k', v⟩ := e
    simp only [tableFind, List.map_cons, List.mem_cons]
    split
    · rename_i h; simp [h]
    · rename_i h
      rw [ih]
      constructor
      · exact Or.inr
      · rintro (h' | h')
        · exact absurd h'.symm h
        · exact h'

theorem tableLast_isSome_iff (t : Table) (k : String × String) :
    (tableLast t k).isSome = true ↔ k ∈ t.map (·.1) := by
  unfold tableLast
  rw [tableFind_isSome_iff, List.map_reverse, List.mem_reverse]

theorem keys_iff_of_subsets (t t' : Table) (h₁ : tableKeysSubset t t' = true) (h₂ : tableKeysSubset t' t = true) :
    ∀ k, k ∈ t.map (·.1) ↔ k ∈ t'.map (·.1) := by
  have key : ∀ (a b : Table), tableKeysSubset a b = true → ∀ k, k ∈ a.map (·.1) → k ∈ b.map (·.1) := by
    intro a b h k hk
    unfold tableKeysSubset at h
    rw [List.all_eq_true] at h
    obtain ⟨e, he, rfl⟩ := List.mem_map.1 hk
    have := h e he
    simpa using this
  intro k
  exact ⟨key t t' h₁ k, key t' t h₂ k⟩

theorem sameKeys_of_keys_iff (cfg : SysCfg)
    (h : ∀ k, k ∈ cfg.tblLsb0.map (·.1) ↔ k ∈ cfg.tblMsb0.map (·.1)) : SameKeys cfg := by
  intro k
  have h1 := tableLast_isSome_iff cfg.tblLsb0 k
  have h2 := tableLast_isSome_iff cfg.tblMsb0 k
  have := h k
  cases ha : (tableLast cfg.tblLsb0 k).isSome <;> cases hb : (tableLast cfg.tblMsb0 k).isSome <;> simp_all

theorem sameKeys_table (cfg : SysCfg) (hs : SameKeys cfg) (b b' : Bool) (k : String × String) :
    (tableLast (cfg.table b) k).isSome = (tableLast (cfg.table b') k).isSome := by
  cases b <;> cases b' <;> simp [SysCfg.table, hs k]

/-- Applying the table of mode `v` to bindings that follow mode `b` gives bindings that follow mode `v`. -/
theorem applyTable_follow (cfg : SysCfg) (hs : SameKeys cfg) (bd : Table) (b v : Bool)
    (h : ∀ k, tableFind bd k = tableLast (cfg.table b) k) (k : String × String) :
    tableFind (applyTable bd (cfg.table v)) k = tableLast (cfg.table v) k := by
  unfold applyTable
  rw [tableFind_append]
  cases hl : tableFind (cfg.table v).reverse k with
  | some x => simp [tableLast, hl]
  | none =>
    have h1 : (tableLast (cfg.table v) k).isSome = false := by simp [tableLast, hl]
    have h2 := sameKeys_table cfg hs b v k
    rw [h1] at h2
    simp only []
    rw [h k]
    cases hb : tableLast (cfg.table b) k with
    | none => simp [tableLast, hl]
    | some y => rw [hb] at h2; cases h2

/-! ## the eight-cache system -/

theorem get_put_same (s : Sys) (cid : CacheId) (c : Cache Call Val) : (s.put cid c).get cid = c := by
  cases cid <;> rfl

theorem get_put_ne (s : Sys) (cid cid' : CacheId) (c : Cache Call Val) (h : cid ≠ cid') :
    (s.put cid c).get cid' = s.get cid' := by
  cases cid <;> cases cid' <;> first | rfl | exact absurd rfl h

theorem put_opts (s : Sys) (cid : CacheId) (c : Cache Call Val) : (s.put cid c).opts = s.opts := by
  cases cid <;> rfl

theorem put_bindings (s : Sys) (cid : CacheId) (c : Cache Call Val) : (s.put cid c).bindings = s.bindings := by
  cases cid <;> rfl

theorem mem_allCaches (cid : CacheId) : cid ∈ allCaches := by
  cases cid <;> simp [allCaches]

def clearList (cfg : SysCfg) (n : OptName) (l : List CacheId) (s : Sys) : Sys :=
  l.foldl (fun acc cid => if cfg.inval cid n then acc.put cid [] else acc) s

theorem clearList_opts (cfg : SysCfg) (n : OptName) (l : List CacheId) :
    ∀ s, (clearList cfg n l s).opts = s.opts ∧ (clearList cfg n l s).bindings = s.bindings := by
  induction l with
  | nil => intro s; exact ⟨rfl, rfl⟩
  | cons c t ih =>
    intro s
    simp only [clearList, List.foldl_cons]
    have := ih (if cfg.inval c n then s.put c [] else s)
    simp only [clearList] at this
    rw [this.1, this.2]
    split
    · exact ⟨put_opts _ _ _, put_bindings _ _ _⟩
    · exact ⟨rfl, rfl⟩

theorem clearList_get (cfg : SysCfg) (n : OptName) (l : List CacheId) (cid : CacheId) :
    ∀ s, (clearList cfg n l s).get cid = [] ∨ (clearList cfg n l s).get cid = s.get cid := by
  induction l with
  | nil => intro s; exact Or.inr rfl
  | cons c t ih =>
    intro s
    simp only [clearList, List.foldl_cons]
    have := ih (if cfg.inval c n then s.put c [] else s)
    simp only [clearList] at this
    rcases this with h | h
    · exact Or.inl h
    · rw [h]
      split
      · by_cases hc : c = cid
        · subst hc; exact Or.inl (get_put_same _ _ _)
        · exact Or.inr (get_put_ne _ _ _ _ hc)
      · exact Or.inr rfl

theorem clearList_get_inval (cfg : SysCfg) (n : OptName) (l : List CacheId) (cid : CacheId)
    (hm : cid ∈ l) (hi : cfg.inval cid n = true) : ∀ s, (clearList cfg n l s).get cid = [] := by
  induction l with
  | nil => cases hm
  | cons c t ih =>
    intro s
    simp only [clearList, List.foldl_cons]
    by_cases hc : c = cid
    · subst hc
      rw [hi]
      simp only [if_true]
      rcases clearList_get cfg n t c (s.put c []) with h | h
      · exact h
      · simp only [clearList] at h; rw [h]; exact get_put_same _ _ _
    · have hm' : cid ∈ t := by
        rcases List.mem_cons.1 hm with h | h
        · exact absurd h.symm hc
        · exact h
      exact ih hm' _

/-- The state after `options.<n> = v`. -/
theorem sysStep_setOpt (cfg : SysCfg) (s : Sys) (n : OptName) (v : Bool) :
    (sysStep cfg s (.setOpt n v)).2 = .none ∧
    (sysStep cfg s (.setOpt n v)).1.opts = s.opts.set n v ∧
    (sysStep cfg s (.setOpt n v)).1.bindings
      = (match n with | .lsb0 => applyTable s.bindings (cfg.table v) | _ => s.bindings) ∧
    (∀ cid, (sysStep cfg s (.setOpt n v)).1.get cid = [] ∨ (sysStep cfg s (.setOpt n v)).1.get cid = s.get cid) ∧
    (∀ cid, cfg.inval cid n = true → (sysStep cfg s (.setOpt n v)).1.get cid = []) := by
  cases n with
  | lsb0 =>
    let s2 : Sys := { s with opts := s.opts.set .lsb0 v, bindings := applyTable s.bindings (cfg.table v) }
    have e : (sysStep cfg s (.setOpt .lsb0 v)).1 = clearList cfg .lsb0 allCaches s2 := rfl
    refine ⟨rfl, ?_, ?_, ?_, ?_⟩
    · rw [e, (clearList_opts cfg .lsb0 allCaches s2).1]
    · rw [e, (clearList_opts cfg .lsb0 allCaches s2).2]
    · intro cid; rw [e]; exact clearList_get cfg .lsb0 allCaches cid s2
    · intro cid hi; rw [e]; exact clearList_get_inval cfg .lsb0 allCaches cid (mem_allCaches cid) hi s2
  | bytealigned =>
    let s2 : Sys := { s with opts := s.opts.set .bytealigned v }
    have e : (sysStep cfg s (.setOpt .bytealigned v)).1 = clearList cfg .bytealigned allCaches s2 := rfl
    refine ⟨rfl, ?_, ?_, ?_, ?_⟩
    · rw [e, (clearList_opts cfg .bytealigned allCaches s2).1]
    · rw [e, (clearList_opts cfg .bytealigned allCaches s2).2]
    · intro cid; rw [e]; exact clearList_get cfg .bytealigned allCaches cid s2
    · intro cid hi; rw [e]; exact clearList_get_inval cfg .bytealigned allCaches cid (mem_allCaches cid) hi s2
  | mxfp =>
    let s2 : Sys := { s with opts := s.opts.set .mxfp v }
    have e : (sysStep cfg s (.setOpt .mxfp v)).1 = clearList cfg .mxfp allCaches s2 := rfl
    refine ⟨rfl, ?_, ?_, ?_, ?_⟩
    · rw [e, (clearList_opts cfg .mxfp allCaches s2).1]
    · rw [e, (clearList_opts cfg .mxfp allCaches s2).2]
    · intro cid; rw [e]; exact clearList_get cfg .mxfp allCaches cid s2
    · intro cid hi; rw [e]; exact clearList_get_inval cfg .mxfp allCaches cid (mem_allCaches cid) hi s2

/-- The state after a call of cache `cid`. -/
theorem sysStep_call (cfg : SysCfg) (s : Sys) (cid : CacheId) (a : Call) :
    (sysStep cfg s (.call cid a)).2
      = .called cid s.opts a (cachedCall (cfg.cap cid) (s.get cid) a (sem cid s.opts a)).2 ∧
    (sysStep cfg s (.call cid a)).1.opts = s.opts ∧
    (sysStep cfg s (.call cid a)).1.bindings = s.bindings ∧
    (sysStep cfg s (.call cid a)).1.get cid = (cachedCall (cfg.cap cid) (s.get cid) a (sem cid s.opts a)).1 ∧
    (∀ cid', cid ≠ cid' → (sysStep cfg s (.call cid a)).1.get cid' = s.get cid') :=
  ⟨rfl, put_opts _ _ _, put_bindings _ _ _, get_put_same _ _ _, fun _ h => get_put_ne _ _ _ _ h⟩

theorem sysRun_forall (cfg : SysCfg) (Inv : Sys → Prop) (P : SysOut → Prop)
    (hstep : ∀ s op, Inv s → Inv (sysStep cfg s op).1 ∧ P (sysStep cfg s op).2) (ops : List SysOp) :
    ∀ s, Inv s → Inv (sysRun cfg s ops).1 ∧ ∀ out ∈ (sysRun cfg s ops).2, P out := by
  induction ops with
  | nil => intro s h; exact ⟨h, by intro out ho; cases ho⟩
  | cons op ops ih =>
    intro s h
    obtain ⟨h1, h2⟩ := hstep s op h
    obtain ⟨h3, h4⟩ := ih _ h1
    refine ⟨h3, ?_⟩
    intro out ho
    simp only [sysRun, List.mem_cons] at ho
    rcases ho with rfl | ho
    · exact h2
    · exact h4 out ho

/-! ### capacity -/

theorem sysBounded_init (cfg : SysCfg) : SysBounded cfg (Sys.init cfg) := by
  intro cid; cases cid <;> exact bounded_nil _

theorem sysBounded_step (cfg : SysCfg) (s : Sys) (op : SysOp) (h : SysBounded cfg s) :
    SysBounded cfg (sysStep cfg s op).1 := by
  cases op with
  | call cid a =>
    obtain ⟨_, _, _, h4, h5⟩ := sysStep_call cfg s cid a
    intro cid'
    by_cases hc : cid = cid'
    · subst hc; rw [h4]; exact cachedCall_bounded _ _ (h cid)
    · rw [h5 cid' hc]; exact h cid'
  | setOpt n v =>
    obtain ⟨_, _, _, h4, _⟩ := sysStep_setOpt cfg s n v
    intro cid
    rcases h4 cid with e | e
    · rw [e]; exact bounded_nil _
    · rw [e]; exact h cid
  | clear cid =>
    intro cid'
    by_cases hc : cid = cid'
    · subst hc; show Bounded _ ((s.put cid []).get cid); rw [get_put_same]; exact bounded_nil _
    · show Bounded _ ((s.put cid []).get cid'); rw [get_put_ne _ _ _ _ hc]; exact h cid'
  | useMethod k => exact h
  | other => exact h

theorem sysBounded_run (cfg : SysCfg) (ops : List SysOp) (s : Sys) (h : SysBounded cfg s) :
    SysBounded cfg (sysRun cfg s ops).1 :=
  (sysRun_forall cfg (SysBounded cfg) (fun _ => True)
    (fun s op hs => ⟨sysBounded_step cfg s op hs, trivial⟩) ops s h).1

/-! ### the seven option-independent caches -/

def SysComputed (s : Sys) : Prop := ∀ cid, ∀ e ∈ s.get cid, ∃ o, sem cid o e.1 = .ok e.2

theorem sysComputed_init (cfg : SysCfg) : SysComputed (Sys.init cfg) := by
  intro cid e he; cases cid <;> cases he

theorem sem_other_indep (cid : CacheId) (hc : cid ≠ .strToBitstore) (o o' : Opts) (a : Call) :
    sem cid o a = sem cid o' a := by
  cases cid <;> first | exact absurd rfl hc | rfl

theorem sysComputed_step (cfg : SysCfg) (s : Sys) (op : SysOp) (h : SysComputed s) :
    SysComputed (sysStep cfg s op).1 := by
  cases op with
  | call cid a =>
    obtain ⟨_, _, _, h4, h5⟩ := sysStep_call cfg s cid a
    intro cid' e he
    by_cases hc : cid = cid'
    · subst hc
      rw [h4] at he
      rcases cachedCall_mem he with he | ⟨v, hv, rfl⟩
      · exact h cid e he
      · exact ⟨s.opts, hv⟩
    · rw [h5 cid' hc] at he; exact h cid' e he
  | setOpt n v =>
    obtain ⟨_, _, _, h4, _⟩ := sysStep_setOpt cfg s n v
    intro cid e he
    rcases h4 cid with e' | e'
    · rw [e'] at he; cases he
    · rw [e'] at he; exact h cid e he
  | clear cid =>
    intro cid' e he
    by_cases hc : cid = cid'
    · subst hc
      have : (sysStep cfg s (.clear cid)).1.get cid = [] := get_put_same _ _ _
      rw [this] at he; cases he
    · have : (sysStep cfg s (.clear cid)).1.get cid' = s.get cid' := get_put_ne _ _ _ _ hc
      rw [this] at he; exact h cid' e he
  | useMethod k => exact h
  | other => exact h

theorem sys_other_pure (cfg : SysCfg) (ops : List SysOp) (s : Sys) (hs : SysComputed s) (cid : CacheId) (o : Opts)
    (a : Call) (r : Except Err Val) (hc : cid ≠ .strToBitstore)
    (h : SysOut.called cid o a r ∈ (sysRun cfg s ops).2) : r = sem cid o a := by
  have := (sysRun_forall cfg SysComputed
    (fun out => ∀ cid o a r, out = SysOut.called cid o a r → cid ≠ .strToBitstore → r = sem cid o a)
    (fun s op hs => ⟨sysComputed_step cfg s op hs, by
      intro cid o a r he hc
      cases op with
      | call cid' a' =>
        rw [(sysStep_call cfg s cid' a').1] at he
        injection he with e1 e2 e3 e4
        subst e1 e2 e3
        rcases cachedCall_result (cfg.cap cid') (s.get cid') a' (sem cid' s.opts a') with h | ⟨v, hm, h⟩
        · rw [← e4, h]
        · rw [← e4, h]
          obtain ⟨o', ho'⟩ := hs cid' _ hm
          rw [sem_other_indep cid' hc s.opts o', ho']
      | setOpt n v => rw [(sysStep_setOpt cfg s n v).1] at he; cases he
      | clear c => cases he
      | useMethod k => cases he
      | other => cases he⟩) ops s hs).2 _ h
  exact this cid o a r rfl hc

/-! ### bindings -/

def BindOK (cfg : SysCfg) (s : Sys) : Prop :=
  ∀ k, tableFind s.bindings k = tableLast (cfg.table s.opts.lsb0) k

theorem bindings_init (cfg : SysCfg) : BindOK cfg (Sys.init cfg) := by
  intro k
  show tableFind (applyTable [] cfg.tblMsb0) k = tableLast (cfg.table false) k
  simp [applyTable, tableLast, SysCfg.table]

theorem bindOK_step (cfg : SysCfg) (hs : SameKeys cfg) (s : Sys) (op : SysOp) (h : BindOK cfg s) :
    BindOK cfg (sysStep cfg s op).1 := by
  cases op with
  | call cid a =>
    obtain ⟨_, h2, h3, _, _⟩ := sysStep_call cfg s cid a
    intro k; rw [h3, h2]; exact h k
  | setOpt n v =>
    obtain ⟨_, h2, h3, _, _⟩ := sysStep_setOpt cfg s n v
    intro k
    rw [h3, h2]
    cases n with
    | lsb0 => exact applyTable_follow cfg hs s.bindings s.opts.lsb0 v h k
    | bytealigned => exact h k
    | mxfp => exact h k
  | clear cid =>
    intro k
    show tableFind (s.put cid []).bindings k = tableLast (cfg.table (s.put cid []).opts.lsb0) k
    rw [put_bindings, put_opts]; exact h k
  | useMethod k => exact h
  | other => exact h

theorem bindings_run (cfg : SysCfg) (hs : SameKeys cfg) (ops : List SysOp) (s : Sys) (h : BindOK cfg s) :
    BindOK cfg (sysRun cfg s ops).1 :=
  (sysRun_forall cfg (BindOK cfg) (fun _ => True)
    (fun s op hb => ⟨bindOK_step cfg hs s op hb, trivial⟩) ops s h).1

theorem sys_method_pure (cfg : SysCfg) (hs : SameKeys cfg) (ops : List SysOp) (s : Sys) (h : BindOK cfg s)
    (bound : Option String) (o : Opts) (k : String × String)
    (hm : SysOut.method bound o k ∈ (sysRun cfg s ops).2) : bound = tableLast (cfg.table o.lsb0) k := by
  have := (sysRun_forall cfg (BindOK cfg)
    (fun out => ∀ bound o k, out = SysOut.method bound o k → bound = tableLast (cfg.table o.lsb0) k)
    (fun s op hb => ⟨bindOK_step cfg hs s op hb, by
      intro bound o k he
      cases op with
      | call cid a => rw [(sysStep_call cfg s cid a).1] at he; cases he
      | setOpt n v => rw [(sysStep_setOpt cfg s n v).1] at he; cases he
      | clear c => cases he
      | useMethod k' =>
        injection he with e1 e2 e3
        subst e1 e2 e3
        exact hb k'
      | other => cases he⟩) ops s h).2 _ hm
  exact this bound o k rfl

/-! ### the repaired shape: every observation pure -/

def SysFresh (s : Sys) : Prop := ∀ cid, ∀ e ∈ s.get cid, sem cid s.opts e.1 = .ok e.2

theorem sem_str_bytealigned (o : Opts) (v : Bool) (a : Call) :
    sem .strToBitstore (o.set .bytealigned v) a = sem .strToBitstore o a := by
  simp [sem, Opts.set]

theorem called_pure_of_fresh (cfg : SysCfg) (s : Sys) (cid : CacheId) (a : Call)
    (h : ∀ v, (a, v) ∈ s.get cid → sem cid s.opts a = .ok v) :
    (SysOut.called cid s.opts a (cachedCall (cfg.cap cid) (s.get cid) a (sem cid s.opts a)).2).pure cfg = true := by
  simp only [SysOut.pure, decide_eq_true_eq]
  rcases cachedCall_result (cfg.cap cid) (s.get cid) a (sem cid s.opts a) with h' | ⟨v, hm, h'⟩
  · exact h'
  · rw [h', h v hm]

theorem sys_pure_inval (cfg : SysCfg) (hs : SameKeys cfg)
    (hl : cfg.inval .strToBitstore .lsb0 = true) (hm : cfg.inval .strToBitstore .mxfp = true)
    (ops : List SysOp) : ∀ out ∈ (sysRun cfg (Sys.init cfg) ops).2, out.pure cfg = true := by
  refine (sysRun_forall cfg (fun s => SysFresh s ∧ BindOK cfg s) (fun out => out.pure cfg = true) ?_ ops
    (Sys.init cfg) ⟨?_, bindings_init cfg⟩).2
  · intro s op ⟨hf, hb⟩
    refine ⟨⟨?_, bindOK_step cfg hs s op hb⟩, ?_⟩
    · -- freshness is preserved
      cases op with
      | call cid a =>
        obtain ⟨_, h2, _, h4, h5⟩ := sysStep_call cfg s cid a
        intro cid' e he
        rw [h2]
        by_cases hc : cid = cid'
        · subst hc
          rw [h4] at he
          rcases cachedCall_mem he with he | ⟨v, hv, rfl⟩
          · exact hf cid e he
          · exact hv
        · rw [h5 cid' hc] at he; exact hf cid' e he
      | setOpt n v =>
        obtain ⟨_, h2, _, h4, h5⟩ := sysStep_setOpt cfg s n v
        intro cid e he
        rw [h2]
        rcases h4 cid with e' | e'
        · rw [e'] at he; cases he
        · rw [e'] at he
          by_cases hc : cid = .strToBitstore
          · subst hc
            cases n with
            | lsb0 => rw [h5 _ hl] at e'; rw [← e'] at he; cases he
            | mxfp => rw [h5 _ hm] at e'; rw [← e'] at he; cases he
            | bytealigned => rw [sem_str_bytealigned]; exact hf _ e he
          · rw [sem_other_indep cid hc _ s.opts]; exact hf cid e he
      | clear cid =>
        intro cid' e he
        by_cases hc : cid = cid'
        · subst hc
          have : (sysStep cfg s (.clear cid)).1.get cid = [] := get_put_same _ _ _
          rw [this] at he; cases he
        · have h1 : (sysStep cfg s (.clear cid)).1.get cid' = s.get cid' := get_put_ne _ _ _ _ hc
          have h2 : (sysStep cfg s (.clear cid)).1.opts = s.opts := put_opts _ _ _
          rw [h1] at he; rw [h2]; exact hf cid' e he
      | useMethod k => exact hf
      | other => exact hf
    · -- the observation is pure
      cases op with
      | call cid a =>
        rw [(sysStep_call cfg s cid a).1]
        exact called_pure_of_fresh cfg s cid a (fun v hv => hf cid _ hv)
      | setOpt n v => rw [(sysStep_setOpt cfg s n v).1]; rfl
      | clear cid => rfl
      | useMethod k =>
        show decide (tableFind s.bindings k = tableLast (cfg.table s.opts.lsb0) k) = true
        simp [hb k]
      | other => rfl
  · intro cid e he; cases cid <;> cases he

theorem sysFresh_init (cfg : SysCfg) : SysFresh (Sys.init cfg) := by
  intro cid e he; cases cid <;> cases he

theorem sysFresh_step (cfg : SysCfg)
    (hl : cfg.inval .strToBitstore .lsb0 = true) (hm : cfg.inval .strToBitstore .mxfp = true)
    (s : Sys) (op : SysOp) (hf : SysFresh s) : SysFresh (sysStep cfg s op).1 := by
  cases op with
  | call cid a =>
    obtain ⟨_, h2, _, h4, h5⟩ := sysStep_call cfg s cid a
    intro cid' e he
    rw [h2]
    by_cases hc : cid = cid'
    · subst hc
      rw [h4] at he
      rcases cachedCall_mem he with he | ⟨v, hv, rfl⟩
      · exact hf cid e he
      · exact hv
    · rw [h5 cid' hc] at he; exact hf cid' e he
  | setOpt n v =>
    obtain ⟨_, h2, _, h4, h5⟩ := sysStep_setOpt cfg s n v
    intro cid e he
    rw [h2]
    rcases h4 cid with e' | e'
    · rw [e'] at he; cases he
    · rw [e'] at he
      by_cases hc : cid = .strToBitstore
      · subst hc
        cases n with
        | lsb0 => rw [h5 _ hl] at e'; rw [← e'] at he; cases he
        | mxfp => rw [h5 _ hm] at e'; rw [← e'] at he; cases he
        | bytealigned => rw [sem_str_bytealigned]; exact hf _ e he
      · rw [sem_other_indep cid hc _ s.opts]; exact hf cid e he
  | clear cid =>
    intro cid' e he
    by_cases hc : cid = cid'
    · subst hc
      have : (sysStep cfg s (.clear cid)).1.get cid = [] := get_put_same _ _ _
      rw [this] at he; cases he
    · have h1 : (sysStep cfg s (.clear cid)).1.get cid' = s.get cid' := get_put_ne _ _ _ _ hc
      have h2 : (sysStep cfg s (.clear cid)).1.opts = s.opts := put_opts _ _ _
      rw [h1] at he; rw [h2]; exact hf cid' e he
  | useMethod k => exact hf
  | other => exact hf

theorem sysFresh_run (cfg : SysCfg)
    (hl : cfg.inval .strToBitstore .lsb0 = true) (hm : cfg.inval .strToBitstore .mxfp = true)
    (ops : List SysOp) (s : Sys) (hf : SysFresh s) : SysFresh (sysRun cfg s ops).1 :=
  (sysRun_forall cfg SysFresh (fun _ => True) (fun s op h => ⟨sysFresh_step cfg hl hm s op h, trivial⟩) ops s hf).1

/-- With invalidating setters a call returns what its function computes under the options in force — in any
    reachable state. -/
theorem sys_call_fresh (cfg : SysCfg)
    (hl : cfg.inval .strToBitstore .lsb0 = true) (hm : cfg.inval .strToBitstore .mxfp = true)
    (ops : List SysOp) (cid : CacheId) (a : Call) :
    (sysStep cfg (sysRun cfg (Sys.init cfg) ops).1 (.call cid a)).2
      = .called cid (sysRun cfg (Sys.init cfg) ops).1.opts a (sem cid (sysRun cfg (Sys.init cfg) ops).1.opts a) := by
  have hf := sysFresh_run cfg hl hm ops (Sys.init cfg) (sysFresh_init cfg)
  rw [(sysStep_call cfg _ cid a).1]
  congr 1
  rcases cachedCall_result (cfg.cap cid) ((sysRun cfg (Sys.init cfg) ops).1.get cid) a
      (sem cid (sysRun cfg (Sys.init cfg) ops).1.opts a) with h | ⟨v, hmem, h⟩
  · exact h
  · rw [h, hf cid _ hmem]

/-- The option state after a history is the result of its assignments alone. -/
def sysOptsAfter (o : Opts) (ops : List SysOp) : Opts :=
  ops.foldl (fun o op => match op with | .setOpt n v => o.set n v | _ => o) o

theorem sysRun_opts (cfg : SysCfg) (ops : List SysOp) :
    ∀ s : Sys, (sysRun cfg s ops).1.opts = sysOptsAfter s.opts ops := by
  induction ops with
  | nil => intro s; rfl
  | cons op ops ih =>
    intro s
    simp only [sysRun, sysOptsAfter, List.foldl_cons]
    rw [ih]
    cases op with
    | call cid a => rw [(sysStep_call cfg s cid a).2.1]; rfl
    | setOpt n v => rw [(sysStep_setOpt cfg s n v).2.1]; rfl
    | clear cid => show sysOptsAfter (s.put cid []).opts ops = _; rw [put_opts]; rfl
    | useMethod k => rfl
    | other => rfl

/-! ### without invalidation: outside the regions -/

def STraced (past : List (Opts × CacheId × Call)) (s : Sys) : Prop :=
  ∀ e ∈ s.get .strToBitstore, ∃ p ∈ past, p.2.1 = .strToBitstore ∧ p.2.2 = e.1 ∧
    sem .strToBitstore p.1 e.1 = .ok e.2

def SConsistent (t : List (Opts × CacheId × Call)) : Prop :=
  ∀ p ∈ t, ∀ q ∈ t, p.2.1 = .strToBitstore → q.2.1 = .strToBitstore → p.2.2 = q.2.2 →
    sem .strToBitstore p.1 p.2.2 = sem .strToBitstore q.1 q.2.2

theorem sys_traced (cfg : SysCfg) (hs : SameKeys cfg) (ops : List SysOp) :
    ∀ (s : Sys) (past : List (Opts × CacheId × Call)), SysComputed s → BindOK cfg s → STraced past s →
      SConsistent (past ++ sysCallTrace s.opts ops) → ∀ out ∈ (sysRun cfg s ops).2, out.pure cfg = true := by
  induction ops with
  | nil => intro s past _ _ _ _ out ho; cases ho
  | cons op ops ih =>
    intro s past hc hb ht hcons out ho
    simp only [sysRun, List.mem_cons] at ho
    have hc' := sysComputed_step cfg s op hc
    have hb' := bindOK_step cfg hs s op hb
    cases op with
    | call cid a =>
      obtain ⟨h1, h2, _, h4, h5⟩ := sysStep_call cfg s cid a
      have hcons' : SConsistent ((past ++ [(s.opts, cid, a)]) ++ sysCallTrace (sysStep cfg s (.call cid a)).1.opts ops) := by
        rw [h2, List.append_assoc]; exact hcons
      have ht' : STraced (past ++ [(s.opts, cid, a)]) (sysStep cfg s (.call cid a)).1 := by
        intro e he
        by_cases hcid : cid = .strToBitstore
        · subst hcid
          rw [h4] at he
          rcases cachedCall_mem he with he | ⟨v, hv, rfl⟩
          · obtain ⟨p, hp, q1, q2, q3⟩ := ht e he
            exact ⟨p, List.mem_append_left _ hp, q1, q2, q3⟩
          · exact ⟨(s.opts, .strToBitstore, a), by simp, rfl, rfl, hv⟩
        · rw [h5 _ hcid] at he
          obtain ⟨p, hp, q1, q2, q3⟩ := ht e he
          exact ⟨p, List.mem_append_left _ hp, q1, q2, q3⟩
      rcases ho with rfl | ho
      · rw [h1]
        apply called_pure_of_fresh
        intro v hv
        by_cases hcid : cid = .strToBitstore
        · subst hcid
          obtain ⟨p, hp, q1, q2, q3⟩ := ht _ hv
          have := hcons p (List.mem_append_left _ hp) (s.opts, .strToBitstore, a)
            (List.mem_append_right _ (by simp [sysCallTrace])) q1 rfl q2
          simp only at this q2 q3
          rw [← this, q2, q3]
        · obtain ⟨o', ho'⟩ := hc cid _ hv
          rw [sem_other_indep cid hcid s.opts o']; exact ho'
      · exact ih _ _ hc' hb' ht' hcons' out ho
    | setOpt n v =>
      obtain ⟨h1, h2, _, h4, _⟩ := sysStep_setOpt cfg s n v
      have hcons' : SConsistent (past ++ sysCallTrace (sysStep cfg s (.setOpt n v)).1.opts ops) := by
        rw [h2]; exact hcons
      have ht' : STraced past (sysStep cfg s (.setOpt n v)).1 := by
        intro e he
        rcases h4 .strToBitstore with e' | e'
        · rw [e'] at he; cases he
        · rw [e'] at he; exact ht e he
      rcases ho with rfl | ho
      · rw [h1]; rfl
      · exact ih _ _ hc' hb' ht' hcons' out ho
    | clear cid =>
      have h2 : (sysStep cfg s (.clear cid)).1.opts = s.opts := put_opts _ _ _
      have hcons' : SConsistent (past ++ sysCallTrace (sysStep cfg s (.clear cid)).1.opts ops) := by
        rw [h2]; exact hcons
      have ht' : STraced past (sysStep cfg s (.clear cid)).1 := by
        intro e he
        by_cases hcid : cid = .strToBitstore
        · subst hcid
          have : (sysStep cfg s (.clear .strToBitstore)).1.get .strToBitstore = [] :=
            get_put_same s .strToBitstore []
          rw [this] at he; cases he
        · have : (sysStep cfg s (.clear cid)).1.get .strToBitstore = s.get .strToBitstore := get_put_ne _ _ _ _ hcid
          rw [this] at he; exact ht e he
      rcases ho with rfl | ho
      · rfl
      · exact ih _ _ hc' hb' ht' hcons' out ho
    | useMethod k =>
      rcases ho with rfl | ho
      · show decide (tableFind s.bindings k = tableLast (cfg.table s.opts.lsb0) k) = true
        simp [hb k]
      · exact ih _ _ hc' hb' ht hcons out ho
    | other =>
      rcases ho with rfl | ho
      · rfl
      · exact ih _ _ hc' hb' ht hcons out ho

theorem sem_eq_of_not_regions (p q : Opts × CacheId × Call) (hsame : p.2.2 = q.2.2)
    (hL : (decide (p.2.2 = q.2.2) && p.2.2.readsLsb0 && !p.2.2.raises && (p.1.lsb0 != q.1.lsb0)) = false)
    (hM : (decide (p.2.2 = q.2.2) && p.2.2.readsMxfp && !p.2.2.raises && (p.1.mxfpOverflow != q.1.mxfpOverflow)
            && !(p.2.2.readsLsb0 && p.1.lsb0) && !(q.2.2.readsLsb0 && q.1.lsb0)) = false) :
    sem .strToBitstore p.1 p.2.2 = sem .strToBitstore q.1 q.2.2 := by
  obtain ⟨⟨l1, b1, m1⟩, pc, pa⟩ := p
  obtain ⟨⟨l2, b2, m2⟩, qc, qa⟩ := q
  simp only at hsame
  subst hsame
  obtain ⟨text, rl, rm, re⟩ := pa
  simp only [decide_true, Bool.true_and] at hL hM
  cases rl <;> cases rm <;> cases re <;> cases l1 <;> cases l2 <;> cases m1 <;> cases m2 <;>
    simp_all [sem]

theorem sconsistent_of_regions (ops : List SysOp)
    (h₁ : reuse_after_lsb0_change ops = false) (h₂ : reuse_after_mxfp_overflow_change ops = false) :
    SConsistent (sysCallTrace Opts.init ops) := by
  intro p hp q hq hpc hqc hsame
  have hp' : p ∈ strCalls ops := by
    unfold strCalls; rw [List.mem_filter]; exact ⟨hp, by simp [hpc]⟩
  have hq' : q ∈ strCalls ops := by
    unfold strCalls; rw [List.mem_filter]; exact ⟨hq, by simp [hqc]⟩
  apply sem_eq_of_not_regions p q hsame
  · by_contra hne
    have hne' := (Bool.not_eq_false _).mp hne
    have : reuse_after_lsb0_change ops = true := by
      unfold reuse_after_lsb0_change
      simp only [List.any_eq_true]
      exact ⟨p, hp', q, hq', hne'⟩
    rw [this] at h₁; cases h₁
  · by_contra hne
    have hne' := (Bool.not_eq_false _).mp hne
    have : reuse_after_mxfp_overflow_change ops = true := by
      unfold reuse_after_mxfp_overflow_change
      simp only [List.any_eq_true]
      exact ⟨p, hp', q, hq', hne'⟩
    rw [this] at h₂; cases h₂

theorem sys_pure_partial (cfg : SysCfg) (hs : SameKeys cfg) (ops : List SysOp)
    (h₁ : reuse_after_lsb0_change ops = false) (h₂ : reuse_after_mxfp_overflow_change ops = false) :
    ∀ out ∈ (sysRun cfg (Sys.init cfg) ops).2, out.pure cfg = true :=
  sys_traced cfg hs ops (Sys.init cfg) [] (sysComputed_init cfg) (bindings_init cfg)
    (by intro e he; cases he) (by
      have h := sconsistent_of_regions ops h₁ h₂
      show SConsistent ([] ++ sysCallTrace Opts.init ops)
      simpa using h)

theorem genCfg_spec (cfg : SysCfg) (h : genCfg = some cfg) :
    cfg.tblLsb0 = Gen.lsb0Table ∧ cfg.tblMsb0 = Gen.msb0Table ∧
    cfg.inval .strToBitstore .lsb0 = !Gen.staleAfterLsb0 ∧ cfg.inval .strToBitstore .mxfp = !Gen.staleAfterMxfp := by
  unfold genCfg at h
  split at h
  · injection h with h
    subst h
    exact ⟨rfl, rfl, rfl, rfl⟩
  · cases h

/-! ### `Dtype._create` -/

theorem dtype_value_pure (cap : Nat) (typed : Bool) (ops : List (Op DtypeArg)) (a : DtypeArg) :
    match (step (dtypeCfg cap typed) (run (dtypeCfg cap typed) St.init ops).1 (.call a)).2 with
    | some (.ok d) => dtypeCreate Opts.init a = .ok a ∧ d.valueEq a
    | some (.error e) => dtypeCreate Opts.init a = .error e
    | none => False := by
  have hcol : ∀ o o' a' v', (dtypeCfg cap typed).key a' = (dtypeCfg cap typed).key a →
      (dtypeCfg cap typed).f o' a' = .ok v' →
      ∃ v, (dtypeCfg cap typed).f o a = .ok v ∧ (v = a ∧ v'.valueEq a) := by
    intro o o' a' v' hk hv
    simp only [dtypeCfg, DtypeArg.tkey, Prod.mk.injEq] at hk hv ⊢
    replace hk := hk.1
    have hv'a' : v' = a' := by
      unfold dtypeCreate at hv
      split at hv
      · split at hv
        · cases hv
        · cases hv; rfl
      · cases hv; rfl
    subst hv'a'
    refine ⟨a, ?_, rfl, hk⟩
    unfold dtypeCreate at hv ⊢
    obtain ⟨n1, l1, s1⟩ := v'
    obtain ⟨n2, l2, s2⟩ := a
    simp only [DtypeArg.key, Prod.mk.injEq] at hk
    obtain ⟨_, _, hsc⟩ := hk
    cases s1 with
    | none => cases s2 with
      | none => rfl
      | some y => simp at hsc
    | some x => cases s2 with
      | none => simp at hsc
      | some y =>
        simp only [Option.map_some, Option.some.injEq, Prod.mk.injEq] at hsc
        simp only at hv ⊢
        split at hv
        · cases hv
        · rename_i hx
          rw [if_neg (by rw [← hsc.1]; exact hx)]
  have := correct_upto (dtypeCfg cap typed) (fun v v' => v = a ∧ v'.valueEq a) a hcol
    (run (dtypeCfg cap typed) St.init ops).1
    (computed_run (dtypeCfg cap typed) ops St.init (by intro e he; cases he))
  revert this
  cases (step (dtypeCfg cap typed) (run (dtypeCfg cap typed) St.init ops).1 (.call a)).2 with
  | none => exact id
  | some r =>
    cases r with
    | error e => exact id
    | ok d =>
      rintro ⟨v, hv, rfl, hd⟩
      exact ⟨hv, hd⟩

/-- With typed keys nothing collides: the key determines the argument. -/
theorem tkey_typed_inj (a a' : DtypeArg) (h : DtypeArg.tkey true a' = DtypeArg.tkey true a) : a' = a := by
  obtain ⟨n1, l1, s1⟩ := a'
  obtain ⟨n2, l2, s2⟩ := a
  simp only [DtypeArg.tkey, DtypeArg.key, if_true, Prod.mk.injEq] at h
  obtain ⟨⟨hn, hl, hs⟩, hk⟩ := h
  subst hn hl
  cases s1 with
  | none => cases s2 with
    | none => rfl
    | some y => simp at hs
  | some x => cases s2 with
    | none => simp at hs
    | some y =>
      obtain ⟨xn, xd, xk⟩ := x
      obtain ⟨yn, yd, yk⟩ := y
      simp only [Option.map_some, Option.some.injEq, Prod.mk.injEq] at hs hk
      obtain ⟨h1, h2⟩ := hs
      subst h1 h2 hk
      rfl

theorem dtype_exact_typed (cap : Nat) (ops : List (Op DtypeArg)) (a : DtypeArg) :
    (step (dtypeCfg cap true) (run (dtypeCfg cap true) St.init ops).1 (.call a)).2
      = some (dtypeCreate Opts.init a) :=
  correct_exact (dtypeCfg cap true) a (fun _ _ => rfl) (fun a' h => tkey_typed_inj a a' h)
    (run (dtypeCfg cap true) St.init ops).1
    (computed_run (dtypeCfg cap true) ops St.init (by intro e he; cases he))

end BM.C09
