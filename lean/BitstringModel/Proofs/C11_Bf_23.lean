/- Kernel obligation: `bfChk` (Proofs/C11_NumDefs.lean) on the 16-bit patterns 0x5c00..0x5fff. -/
import BitstringModel.Proofs.C11_NumDefs
namespace BM.C11
theorem bfChunk_23 : bfChunkOk 23 = true := by decide +kernel
end BM.C11
