/- Kernel obligation: `bfChk` (Proofs/C11_NumDefs.lean) on the 16-bit patterns 0x8000..0x83ff. -/
import BitstringModel.Proofs.C11_NumDefs
namespace BM.C11
theorem bfChunk_32 : bfChunkOk 32 = true := by decide +kernel
end BM.C11
