/- Kernel obligation: `bfChk` (Proofs/C11_NumDefs.lean) on the 16-bit patterns 0x2400..0x27ff. -/
import BitstringModel.Proofs.C11_NumDefs
namespace BM.C11
theorem bfChunk_09 : bfChunkOk 9 = true := by decide +kernel
end BM.C11
