/- Kernel obligation: `bfChk` (Proofs/C11_NumDefs.lean) on the 16-bit patterns 0x6000..0x63ff. -/
import BitstringModel.Proofs.C11_NumDefs
namespace BM.C11
theorem bfChunk_24 : bfChunkOk 24 = true := by decide +kernel
end BM.C11
