/- Kernel obligation: `bfChk` (Proofs/C11_NumDefs.lean) on the 16-bit patterns 0x2000..0x23ff. -/
import BitstringModel.Proofs.C11_NumDefs
namespace BM.C11
theorem bfChunk_08 : bfChunkOk 8 = true := by decide +kernel
end BM.C11
