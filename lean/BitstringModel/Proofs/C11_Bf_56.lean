/- Kernel obligation: `bfChk` (Proofs/C11_NumDefs.lean) on the 16-bit patterns 0xe000..0xe3ff. -/
import BitstringModel.Proofs.C11_NumDefs
namespace BM.C11
theorem bfChunk_56 : bfChunkOk 56 = true := by decide +kernel
end BM.C11
