/- Kernel obligation: `bfChk` (Proofs/C11_NumDefs.lean) on the 16-bit patterns 0xa800..0xabff. -/
import BitstringModel.Proofs.C11_NumDefs
namespace BM.C11
theorem bfChunk_42 : bfChunkOk 42 = true := by decide +kernel
end BM.C11
