/- Kernel obligation: `bfChk` (Proofs/C11_NumDefs.lean) on the 16-bit patterns 0xc000..0xc3ff. -/
import BitstringModel.Proofs.C11_NumDefs
namespace BM.C11
theorem bfChunk_48 : bfChunkOk 48 = true := by decide +kernel
end BM.C11
