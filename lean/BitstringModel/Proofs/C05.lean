/-
  Proofs/C05.lean — helper lemmas for the token-list level of pack (ALG = SPEC, arity, append, lengths).
-/
import BitstringModel.Model.C05
import BitstringModel.Proofs.Basic

namespace BM.C05
open BM

end BM.C05
