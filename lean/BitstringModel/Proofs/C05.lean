/-
  Proofs/C05.lean — helper lemmas for the token-list level of pack (ALG = SPEC, arity, append, lengths).
-/
import BitstringModel.Model.C05
import BitstringModel.Proofs.Basic

namespace BM.C05
open BM

theorem foldl_append_flatten (bsl : List Bits) (acc : Bits) :
    bsl.foldl (· ++ ·) acc = acc ++ bsl.flatten := by
  induction bsl generalizing acc with
  | nil => simp
  | cons x xs ih => simp [ih, List.append_assoc]

/-- loop invariant of the token loop -/
theorem packLoop_spec (kw : Kw) (ts : List Tok) (vs : List Val) (bsl : List Bits) :
    (match packLoop kw ts vs bsl with
     | .error e => (Except.error e : Except Err Bits)
     | .ok (bsl', rest) => if !rest.isEmpty then .error .value else .ok (bsl'.foldl (· ++ ·) []))
    = (packT kw ts vs).map (fun b => bsl.flatten ++ b) := by
  induction ts generalizing vs bsl with
  | nil =>
    cases vs with
    | nil => simp [packLoop, packT, foldl_append_flatten, Except.map]
    | cons v vs => simp [packLoop, packT, Except.map]
  | cons t ts ih =>
    unfold packLoop packT
    cases hn : t.needsValue kw with
    | true =>
      simp only [if_true]
      cases hr : resolveLen kw t.len with
      | error e => simp [Except.map]
      | ok l =>
        cases vs with
        | nil => simp [Except.map]
        | cons v vs' =>
          simp only
          cases hb : tokBits kw t (some v) with
          | error e => simp [Except.map]
          | ok b =>
            simp only
            rw [ih]
            cases packT kw ts vs' <;> simp [Except.map, List.append_assoc]
    | false =>
      simp only [Bool.false_eq_true, if_false]
      cases hb : tokBits kw t none with
      | error e => simp [Except.map]
      | ok b =>
        simp only
        rw [ih]
        cases packT kw ts vs <;> simp [Except.map, List.append_assoc]

theorem packT_eq_parts' (kw : Kw) (ts : List Tok) (vs : List Val) :
    packT kw ts vs = (packParts kw ts vs).map List.flatten := by
  induction ts generalizing vs with
  | nil => cases vs <;> simp [packT, packParts, Except.map]
  | cons t ts ih =>
    unfold packT packParts
    cases hn : t.needsValue kw with
    | true =>
      simp only [if_true]
      cases hr : resolveLen kw t.len with
      | error e => simp [Except.map]
      | ok l =>
        cases vs with
        | nil => simp [Except.map]
        | cons v vs' =>
          simp only
          cases hb : tokBits kw t (some v) with
          | error e => simp [Except.map]
          | ok b =>
            simp only [ih]
            cases packParts kw ts vs' <;> simp [Except.map]
    | false =>
      simp only [Bool.false_eq_true, if_false]
      cases hb : tokBits kw t none with
      | error e => simp [Except.map]
      | ok b =>
        simp only [ih]
        cases packParts kw ts vs <;> simp [Except.map]


theorem arity_cons (kw : Kw) (t : Tok) (ts : List Tok) :
    arity kw (t :: ts) = (if t.needsValue kw then 1 else 0) + arity kw ts := by
  unfold arity
  cases h : t.needsValue kw <;> simp [List.filter_cons, h] <;> omega

theorem arity_append (kw : Kw) (a b : List Tok) : arity kw (a ++ b) = arity kw a + arity kw b := by
  simp [arity, List.filter_append]

/-- unfolding of `packT` on a value-taking token that goes through -/
theorem packT_ok_cons (kw : Kw) (t : Tok) (ts : List Tok) (vs : List Val) (b : Bits)
    (h : packT kw (t :: ts) vs = .ok b) :
    (t.needsValue kw = true ∧ ∃ v vs' l tb r, vs = v :: vs' ∧ resolveLen kw t.len = .ok l ∧ tokBits kw t (some v) = .ok tb ∧
        packT kw ts vs' = .ok r ∧ b = tb ++ r) ∨
    (t.needsValue kw = false ∧ ∃ tb r, tokBits kw t none = .ok tb ∧ packT kw ts vs = .ok r ∧ b = tb ++ r) := by
  unfold packT at h
  cases hn : t.needsValue kw with
  | true =>
    left
    simp only [hn, if_true] at h
    cases hr : resolveLen kw t.len with
    | error e => simp [hr] at h
    | ok l =>
      simp only [hr] at h
      cases vs with
      | nil => simp at h
      | cons v vs' =>
        simp only at h
        cases hb : tokBits kw t (some v) with
        | error e => simp [hb] at h
        | ok tb =>
          simp only [hb] at h
          cases hp : packT kw ts vs' with
          | error e => simp [hp, Except.map] at h
          | ok r =>
            simp only [hp, Except.map, Except.ok.injEq] at h
            exact ⟨rfl, v, vs', l, tb, r, rfl, by first | rfl | assumption, by first | rfl | assumption, by first | rfl | assumption, h.symm⟩
  | false =>
    right
    simp only [hn, Bool.false_eq_true, if_false] at h
    cases hb : tokBits kw t none with
    | error e => simp [hb] at h
    | ok tb =>
      simp only [hb] at h
      cases hp : packT kw ts vs with
      | error e => simp [hp, Except.map] at h
      | ok r =>
        simp only [hp, Except.map, Except.ok.injEq] at h
        exact ⟨rfl, tb, r, by first | rfl | assumption, by first | rfl | assumption, h.symm⟩

theorem packT_cons_needs (kw : Kw) (t : Tok) (ts : List Tok) (v : Val) (vs : List Val) (l : Option Int) (tb : Bits)
    (hn : t.needsValue kw = true) (hr : resolveLen kw t.len = .ok l) (hb : tokBits kw t (some v) = .ok tb) :
    packT kw (t :: ts) (v :: vs) = (packT kw ts vs).map (tb ++ ·) := by
  rw [packT.eq_def]; simp only [hn, if_true, hr, hb]

theorem packT_cons_noneed (kw : Kw) (t : Tok) (ts : List Tok) (vs : List Val) (tb : Bits)
    (hn : t.needsValue kw = false) (hb : tokBits kw t none = .ok tb) :
    packT kw (t :: ts) vs = (packT kw ts vs).map (tb ++ ·) := by
  rw [packT.eq_def]; simp only [hn, Bool.false_eq_true, if_false, hb]

theorem pack_ok_arity' (kw : Kw) (ts : List Tok) (vs : List Val) (b : Bits) (h : packT kw ts vs = .ok b) :
    vs.length = arity kw ts := by
  induction ts generalizing vs b with
  | nil => cases vs <;> simp_all [packT, arity]
  | cons t ts ih =>
    rw [arity_cons]
    rcases packT_ok_cons kw t ts vs b h with ⟨hn, v, vs', l, tb, r, rfl, -, -, hp, -⟩ | ⟨hn, tb, r, -, hp, -⟩
    · simp [hn, ih vs' r hp]; omega
    · simp [hn, ih vs r hp]

theorem pack_too_few' (kw : Kw) (ts : List Tok) (vs : List Val) (b : Bits) (h : packT kw ts vs = .ok b)
    (k : Nat) (hk : k < vs.length) : packT kw ts (vs.take k) = .error .value := by
  induction ts generalizing vs b k with
  | nil => cases vs <;> simp_all [packT]
  | cons t ts ih =>
    rcases packT_ok_cons kw t ts vs b h with ⟨hn, v, vs', l, tb, r, rfl, hr, hb, hp, -⟩ | ⟨hn, tb, r, hb, hp, -⟩
    · cases k with
      | zero => rw [packT.eq_def]; simp [hn, hr]
      | succ k =>
        rw [List.take_succ_cons, packT_cons_needs kw t ts v _ l tb hn hr hb,
          ih vs' r hp k (by simpa using hk)]
        rfl
    · rw [packT_cons_noneed kw t ts _ tb hn hb, ih vs r hp k hk]; rfl

theorem pack_too_many' (kw : Kw) (ts : List Tok) (vs : List Val) (b : Bits) (h : packT kw ts vs = .ok b)
    (w : Val) (ws : List Val) : packT kw ts (vs ++ w :: ws) = .error .value := by
  induction ts generalizing vs b with
  | nil => cases vs <;> simp_all [packT]
  | cons t ts ih =>
    rcases packT_ok_cons kw t ts vs b h with ⟨hn, v, vs', l, tb, r, rfl, hr, hb, hp, -⟩ | ⟨hn, tb, r, hb, hp, -⟩
    · rw [List.cons_append, packT_cons_needs kw t ts v _ l tb hn hr hb, ih vs' r hp]; rfl
    · rw [packT_cons_noneed kw t ts _ tb hn hb, ih vs r hp]; rfl

theorem pack_append' (kw : Kw) (f1 f2 : List Tok) (v1 v2 : List Val) (h : v1.length = arity kw f1) :
    packT kw (f1 ++ f2) (v1 ++ v2) =
      (packT kw f1 v1).bind fun b1 => (packT kw f2 v2).map fun b2 => b1 ++ b2 := by
  induction f1 generalizing v1 with
  | nil =>
    have : v1 = [] := by simpa [arity] using h
    subst this
    have e0 : packT kw [] [] = .ok [] := by simp [packT]
    rw [e0]
    cases h2 : packT kw f2 v2 <;> simp [Except.bind, Except.map, h2]
  | cons t ts ih =>
    rw [arity_cons] at h
    rw [List.cons_append]
    cases hn : t.needsValue kw with
    | true =>
      simp only [hn, if_true] at h
      cases v1 with
      | nil => simp at h; omega
      | cons v v1' =>
        have h' : v1'.length = arity kw ts := by simp at h; omega
        rw [List.cons_append]
        conv => lhs; rw [packT.eq_def]
        conv => rhs; rw [packT.eq_def]
        simp only [hn, if_true]
        cases hr : resolveLen kw t.len with
        | error e => simp [Except.bind]
        | ok l =>
          simp only
          cases hb : tokBits kw t (some v) with
          | error e => simp [Except.bind]
          | ok tb =>
            simp only [ih v1' h']
            cases packT kw ts v1' <;> cases packT kw f2 v2 <;> simp [Except.bind, Except.map, List.append_assoc]
    | false =>
      simp only [hn, Bool.false_eq_true, if_false, Nat.zero_add] at h
      conv => lhs; rw [packT.eq_def]
      conv => rhs; rw [packT.eq_def]
      simp only [hn, Bool.false_eq_true, if_false]
      cases hb : tokBits kw t none with
      | error e => simp [Except.bind]
      | ok tb =>
        simp only [ih v1 h]
        cases packT kw ts v1 <;> cases packT kw f2 v2 <;> simp [Except.bind, Except.map, List.append_assoc]

theorem pack_append_ok' (kw : Kw) (f1 f2 : List Tok) (v1 v2 : List Val) (b1 b2 : Bits)
    (h1 : packT kw f1 v1 = .ok b1) (h2 : packT kw f2 v2 = .ok b2) :
    packT kw (f1 ++ f2) (v1 ++ v2) = .ok (b1 ++ b2) := by
  rw [pack_append' kw f1 f2 v1 v2 (pack_ok_arity' kw f1 v1 b1 h1), h1, h2]; rfl

theorem pack_split' (kw : Kw) (f1 f2 : List Tok) (vs : List Val) (b : Bits)
    (h : packT kw (f1 ++ f2) vs = .ok b) :
    ∃ b1 b2, packT kw f1 (vs.take (arity kw f1)) = .ok b1 ∧ packT kw f2 (vs.drop (arity kw f1)) = .ok b2 ∧ b = b1 ++ b2 := by
  have hl := pack_ok_arity' kw _ vs b h
  rw [arity_append] at hl
  have hlen : (vs.take (arity kw f1)).length = arity kw f1 := by simp; omega
  have := pack_append' kw f1 f2 (vs.take (arity kw f1)) (vs.drop (arity kw f1)) hlen
  rw [List.take_append_drop, h] at this
  cases h1 : packT kw f1 (vs.take (arity kw f1)) with
  | error e => simp [h1, Except.bind] at this
  | ok b1 =>
    cases h2 : packT kw f2 (vs.drop (arity kw f1)) with
    | error e => simp [h1, h2, Except.bind, Except.map] at this
    | ok b2 =>
      simp only [h1, h2, Except.bind, Except.map, Except.ok.injEq] at this
      exact ⟨b1, b2, rfl, rfl, this⟩

theorem pack_rep_values' (kw : Kw) (ts : List Tok) (vss : List (List Val)) (bs : List Bits)
    (h : List.Forall₂ (fun vs b => packT kw ts vs = .ok b) vss bs) :
    packT kw (List.replicate vss.length ts).flatten vss.flatten = .ok bs.flatten := by
  induction h with
  | nil => simp [packT]
  | cons hab _ ih =>
    simp only [List.length_cons, List.replicate_succ, List.flatten_cons]
    exact pack_append_ok' kw _ _ _ _ _ _ hab ih

theorem pack_rep' (kw : Kw) (ts : List Tok) (vs : List Val) (b : Bits) (h : packT kw ts vs = .ok b) (n : Nat) :
    packT kw (List.replicate n ts).flatten (List.replicate n vs).flatten = .ok (List.replicate n b).flatten := by
  induction n with
  | zero => simp [packT]
  | succ n ih =>
    simp only [List.replicate_succ, List.flatten_cons]
    exact pack_append_ok' kw _ _ _ _ _ _ h ih

theorem getDtypeK_some (k : Kind) (l : Int) (d : DT) (h : getDtypeK k (some l) = .ok d) : d = ⟨k, some l⟩ := by
  unfold getDtypeK at h
  simp only at h
  split at h
  · cases h
  · split at h
    · cases h
    · split at h
      · cases h
      · cases h; rfl

theorem bitstoreFromToken_len (rec : Str → Except Err Bits) (name : Str) (l : Int) (v : Option Val) (b : Bits) (k : Kind)
    (hlit : literalNames.contains name = false) (hk : kindOfName (String.ofList name) = .ok k)
    (h : bitstoreFromToken rec name (some l) v = .ok b) : (b.length : Int) = l * k.mult := by
  unfold bitstoreFromToken at h
  simp only [hlit, Bool.false_eq_true, if_false, mkDtype, getDtype, hk] at h
  cases hd : getDtypeK k (some l) with
  | error e => simp [hd] at h
  | ok d =>
    have := getDtypeK_some k l d hd
    subst this
    simp only [hd] at h
    split at h
    · cases h
    · cases hb : buildDT rec ⟨k, some l⟩ v with
      | error e => simp [hb] at h
      | ok b' =>
        simp only [hb, DT.bitlen, Option.map] at h
        split at h
        · cases h
        · cases h
          rename_i hne
          simpa using hne

theorem tokBits_declared_length' (kw : Kw) (t : Tok) (v : Option Val) (b : Bits) (n : Int)
    (h : tokBits kw t v = .ok b) (hn : declLen kw t = some n) : (b.length : Int) = n := by
  unfold declLen at hn
  split at hn
  · cases hn
  · rename_i hnd
    have hnd' : ¬ (t.isDict kw = true) ∧ literalNames.contains t.name = false := by
      constructor
      · intro h; exact hnd (Or.inl h)
      · cases hc : literalNames.contains t.name
        · rfl
        · exact absurd (Or.inr hc) hnd
    split at hn
    · rename_i l k hr hk
      cases hn
      unfold tokBits at h
      have hdict : ¬ (kw.has t.name = true ∧ t.len.isNone = true ∧ t.val.isNone = true) := by
        intro ⟨a, b, c⟩; apply hnd'.1; simp [Tok.isDict, a, b, c]
      simp only [hdict, if_false, hr] at h
      split at h
      · rename_i hbits
        have : k = .bits := by
          rw [hbits] at hk
          have : kindOfName (String.ofList "bits".toList) = .ok .bits := by decide
          rw [this] at hk; cases hk; rfl
        subst this
        split at h
        · cases h
        · split at h
          · cases h
          · rename_i bb hb
            split at h
            · cases h
            · cases h; rename_i hne; simp only [Kind.mult]; simp at hne; omega
      · exact bitstoreFromToken_len _ _ _ _ _ _ hnd'.2 hk h
    · cases hn

theorem tokBits_plain_fixed (kw : Kw) (name : Str) (n : Int) (v : Val) (k : Kind)
    (hb : (name = "bits".toList) = False) (hlit : literalNames.contains name = false)
    (hk : kindOfName (String.ofList name) = .ok k) (hal : k.allows n = true) (hvar : k.variable = false) (hn0 : ¬ n < 0) :
    tokBits kw ⟨name, some (.int n), none⟩ (some v) =
      match buildDT strToBits ⟨k, some n⟩ (some v) with
      | .error e => .error e
      | .ok b => if (b.length : Int) ≠ n * k.mult then .error .value else .ok b := by
  unfold tokBits
  simp only [Option.isNone_some, Bool.false_eq_true, and_false, false_and, if_false, resolveLen, resolveVal, hb,
    bitstoreFromToken, hlit, mkDtype, getDtype, hk, getDtypeK, hal, hvar, hn0, Bool.not_true, Option.isNone_some]
  cases buildDT strToBits ⟨k, some n⟩ (some v) <;> simp [DT.bitlen]

theorem uint_out_of_range' (kw : Kw) (n : Nat) (i : Int) (h : i < 0 ∨ (2 : Int) ^ n ≤ i) :
    tokBits kw ⟨"uint".toList, some (.int n), none⟩ (some (.int i)) = .error .value := by
  rw [tokBits_plain_fixed kw _ _ _ .uint (by decide) (by decide) (by decide) (by simp [Kind.allows]) (by rfl) (by omega)]
  have hm : Kind.uint.mult = 1 := rfl
  have h2 : (i < 0 ∨ i ≥ 2 ^ n) := by omega
  by_cases hn : n = 0
  · simp [buildDT, setFn, DT.bitlen, buildInt, hm, hn]
  · simp [buildDT, setFn, DT.bitlen, buildInt, valToInt, hm, int2bits, hn, h2]

theorem int_out_of_range' (kw : Kw) (n : Nat) (i : Int) (h : i < -((2 : Int) ^ (n - 1)) ∨ (2 : Int) ^ (n - 1) ≤ i) :
    tokBits kw ⟨"int".toList, some (.int n), none⟩ (some (.int i)) = .error .value := by
  rw [tokBits_plain_fixed kw _ _ _ .int (by decide) (by decide) (by decide) (by simp [Kind.allows]) (by rfl) (by omega)]
  have hm : Kind.int.mult = 1 := rfl
  have h2 : (i ≥ 2 ^ (n - 1) ∨ i < -(2 ^ (n - 1) : Int)) := by omega
  by_cases hn : n = 0
  · simp [buildDT, setFn, DT.bitlen, buildInt, hm, hn]
  · simp [buildDT, setFn, DT.bitlen, buildInt, valToInt, hm, int2bits, hn, h2]

theorem bits_wrong_size' (kw : Kw) (n : Nat) (x : Bits) (h : x.length ≠ n) :
    tokBits kw ⟨"bits".toList, some (.int n), none⟩ (some (.bits x)) = .error .value := by
  unfold tokBits
  simp [resolveLen, resolveVal, bitsCtor]
  omega

theorem bytes_wrong_size' (kw : Kw) (n : Nat) (x : Bits) (h : x.length ≠ 8 * n) :
    tokBits kw ⟨"bytes".toList, some (.int n), none⟩ (some (.bytes x)) = .error .value := by
  rw [tokBits_plain_fixed kw _ _ _ .bytes (by decide) (by decide) (by decide) (by simp [Kind.allows]) (by rfl) (by omega)]
  have hm : Kind.bytes.mult = 8 := rfl
  have : ¬ ((x.length : Int) = n * 8) := by omega
  simp [buildDT, setFn, DT.bitlen, buildBytes, hm, this]


theorem tokBits_value_eq (kw : Kw) (name : Str) (len : Option LenV) (s : Str) (x : Val) (p : Option Val)
    (hx : resolveVal kw (some s) = some x) (hdict : ¬ (kw.has name = true ∧ len = none)) :
    tokBits kw ⟨name, len, some s⟩ p = tokBits kw ⟨name, len, none⟩ (some x) := by
  unfold tokBits
  have h1 : ¬ (kw.has name = true ∧ len.isNone = true ∧ (none : Option Str).isNone = true) :=
    fun ⟨a, b, _⟩ => hdict ⟨a, by simpa using b⟩
  have h2 : ¬ (kw.has name = true ∧ len.isNone = true ∧ (some s).isNone = true) := fun ⟨_, _, c⟩ => by simp at c
  simp only [h1, h2, if_false, hx]
  simp [resolveVal]

theorem needsValue_none (kw : Kw) (name : Str) (len : Option LenV)
    (hpad : name ≠ "pad".toList) (hdict : ¬ (kw.has name = true ∧ len = none)) :
    Tok.needsValue kw ⟨name, len, none⟩ = true := by
  have h1 : ¬ (kw.has name = true ∧ len.isNone = true ∧ (none : Option Str).isNone = true) :=
    fun ⟨a, b, _⟩ => hdict ⟨a, by simpa using b⟩
  have hp' : "pad".toList = ['p', 'a', 'd'] := by decide
  rw [hp'] at hpad
  simp only [Tok.needsValue, h1, if_false]
  simp [hpad]

theorem value_eq_separate (kw : Kw) (name : Str) (len : Option LenV) (s : Str) (x : Val) (ts : List Tok) (vs : List Val)
    (hpad : name ≠ "pad".toList) (hx : resolveVal kw (some s) = some x) (hdict : ¬ (kw.has name = true ∧ len = none)) :
    packT kw (⟨name, len, some s⟩ :: ts) vs = packT kw (⟨name, len, none⟩ :: ts) (x :: vs) := by
  have hn1 : Tok.needsValue kw ⟨name, len, some s⟩ = false := by simp [Tok.needsValue]
  have hn2 := needsValue_none kw name len hpad hdict
  conv => lhs; rw [packT.eq_def]
  conv => rhs; rw [packT.eq_def]
  simp only [hn1, hn2, Bool.false_eq_true, if_false, if_true, tokBits_value_eq kw name len s x none hx hdict]
  cases hr : resolveLen kw len with
  | error e =>
    simp only
    unfold tokBits
    have h1 : ¬ (kw.has name = true ∧ len.isNone = true ∧ (none : Option Str).isNone = true) :=
      fun ⟨a, b, _⟩ => hdict ⟨a, by simpa using b⟩
    simp only [h1, if_false, hr]
  | ok l => rfl

theorem int_text_eq_int' (s : Str) (i : Int) (h : pyInt? s = some i) : valToInt (.str s) = valToInt (.int i) := by
  simp [valToInt, h]

theorem packParts_index (kw : Kw) (ts : List Tok) (vs : List Val) (ps : List Bits) (h : packParts kw ts vs = .ok ps) :
    ps.length = ts.length ∧ ∀ (i : Nat) (t : Tok) (p : Bits), ts[i]? = some t → ps[i]? = some p → ∃ v, tokBits kw t v = .ok p := by
  induction ts generalizing vs ps with
  | nil =>
    cases vs <;> simp [packParts] at h
    subst h; simp
  | cons t ts ih =>
    rw [packParts.eq_def] at h
    simp only at h
    cases hn : t.needsValue kw with
    | true =>
      simp only [hn, if_true] at h
      cases hr : resolveLen kw t.len with
      | error e => simp [hr] at h
      | ok l =>
        simp only [hr] at h
        cases vs with
        | nil => simp at h
        | cons v vs' =>
          simp only at h
          cases hb : tokBits kw t (some v) with
          | error e => simp [hb] at h
          | ok tb =>
            simp only [hb] at h
            cases hp : packParts kw ts vs' with
            | error e => simp [hp, Except.map] at h
            | ok r =>
              simp only [hp, Except.map, Except.ok.injEq] at h
              subst h
              obtain ⟨hl, hi⟩ := ih vs' r hp
              refine ⟨by simp [hl], ?_⟩
              intro i t' p ht hp'
              cases i with
              | zero => simp at ht hp'; subst ht; subst hp'; exact ⟨_, hb⟩
              | succ i => simp at ht hp'; exact hi i t' p ht hp'
    | false =>
      simp only [hn, Bool.false_eq_true, if_false] at h
      cases hb : tokBits kw t none with
      | error e => simp [hb] at h
      | ok tb =>
        simp only [hb] at h
        cases hp : packParts kw ts vs with
        | error e => simp [hp, Except.map] at h
        | ok r =>
          simp only [hp, Except.map, Except.ok.injEq] at h
          subst h
          obtain ⟨hl, hi⟩ := ih vs r hp
          refine ⟨by simp [hl], ?_⟩
          intro i t' p ht hp'
          cases i with
          | zero => simp at ht hp'; subst ht; subst hp'; exact ⟨_, hb⟩
          | succ i => simp at ht hp'; exact hi i t' p ht hp'

theorem pack_length' (kw : Kw) (ts : List Tok) (vs : List Val) (b : Bits) (h : packT kw ts vs = .ok b) :
    ∃ ps : List Bits, packParts kw ts vs = .ok ps ∧ b = ps.flatten ∧ ps.length = ts.length ∧
      b.length = (ps.map List.length).sum ∧
      ∀ (i : Nat) (t : Tok) (p : Bits) (n : Int), ts[i]? = some t → ps[i]? = some p → declLen kw t = some n →
        (p.length : Int) = n := by
  rw [packT_eq_parts'] at h
  cases hp : packParts kw ts vs with
  | error e => simp [hp, Except.map] at h
  | ok ps =>
    simp only [hp, Except.map, Except.ok.injEq] at h
    obtain ⟨hl, hi⟩ := packParts_index kw ts vs ps hp
    refine ⟨ps, rfl, h.symm, hl, by rw [← h, List.length_flatten], ?_⟩
    intro i t p n ht hpp hd
    obtain ⟨v, hv⟩ := hi i t p ht hpp
    exact tokBits_declared_length' kw t v p n hv hd

theorem pack_length_fixed' (kw : Kw) (ts : List Tok) (vs : List Val) (b : Bits) (h : packT kw ts vs = .ok b)
    (hfix : ∀ t ∈ ts, (declLen kw t).isSome) :
    (b.length : Int) = (ts.map fun t => (declLen kw t).getD 0).sum := by
  induction ts generalizing vs b with
  | nil => cases vs <;> simp [packT] at h; subst h; simp
  | cons t ts ih =>
    have ht := hfix t (by simp)
    obtain ⟨n, hn⟩ := Option.isSome_iff_exists.mp ht
    have hrest : ∀ t ∈ ts, (declLen kw t).isSome := fun t' h' => hfix t' (by simp [h'])
    rcases packT_ok_cons kw t ts vs b h with ⟨-, v, vs', l, tb, r, rfl, -, hb, hp, rfl⟩ | ⟨-, tb, r, hb, hp, rfl⟩
    · have := tokBits_declared_length' kw t _ tb n hb hn
      simp [hn, ih vs' r hp hrest, ← this]
    · have := tokBits_declared_length' kw t _ tb n hb hn
      simp [hn, ih vs r hp hrest, ← this]

theorem pass1_has (ds : List DT) (a : Int) (h : ∀ d ∈ ds, d.stretchy = false ∧ d.kind.variable = false) :
    pass1 ds true a = .ok (true, a + (ds.map fun d => d.bitlen.getD 0).sum) := by
  induction ds generalizing a with
  | nil => simp [pass1]
  | cons d ds ih =>
    obtain ⟨h1, h2⟩ := h d (by simp)
    rw [pass1.eq_def]
    simp only [h1, h2, Bool.false_eq_true, if_false, if_true]
    rw [ih _ (fun d' hd' => h d' (by simp [hd']))]
    simp [Int.add_assoc]

theorem pass1_nohas (ds : List DT) (a : Int) (h : ∀ d ∈ ds, d.stretchy = false) :
    pass1 ds false a = .ok (false, a) := by
  induction ds generalizing a with
  | nil => simp [pass1]
  | cons d ds ih =>
    rw [pass1.eq_def]
    simp only [h d (by simp), Bool.false_eq_true, if_false]
    exact ih _ (fun d' hd' => h d' (by simp [hd']))

theorem pass1_two_stretchy' (l1 l2 l3 : List DT) (d1 d2 : DT) (h1 : d1.stretchy = true) (h2 : d2.stretchy = true)
    (hl1 : ∀ d ∈ l1, d.stretchy = false) (hl2 : ∀ d ∈ l2, d.stretchy = false ∧ d.kind.variable = false) :
    pass1 (l1 ++ d1 :: l2 ++ d2 :: l3) false 0 = .error .bitstring := by
  have hA : ∀ (l : List DT) (a : Int), (∀ d ∈ l, d.stretchy = false ∧ d.kind.variable = false) →
      pass1 (l ++ d2 :: l3) true a = .error .bitstring := by
    intro l
    induction l with
    | nil => intro a _; rw [List.nil_append, pass1.eq_def]; simp [h2]
    | cons d l ih =>
      intro a hl
      obtain ⟨x, y⟩ := hl d (by simp)
      rw [List.cons_append, pass1.eq_def]
      simp only [x, y, Bool.false_eq_true, if_false, if_true]
      exact ih _ (fun d' hd' => hl d' (by simp [hd']))
  have hB : ∀ (l : List DT) (a : Int), (∀ d ∈ l, d.stretchy = false) →
      pass1 (l ++ d1 :: l2 ++ d2 :: l3) false a = .error .bitstring := by
    intro l
    induction l with
    | nil =>
      intro a _
      rw [List.nil_append, List.cons_append, pass1.eq_def]
      simp only [h1, if_true, Bool.false_eq_true, if_false]
      exact hA l2 a hl2
    | cons d l ih =>
      intro a hl
      rw [List.cons_append, List.cons_append, pass1.eq_def]
      simp only [hl d (by simp), Bool.false_eq_true, if_false]
      have := ih a (fun d' hd' => hl d' (by simp [hd']))
      simpa using this
  exact hB l1 0 hl1


end BM.C05
