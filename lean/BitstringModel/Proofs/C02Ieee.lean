/-
  Proofs/C02Ieee.lean — helper lemmas about the exact-dyadic IEEE 754 model (`Ieee.decode`, `Ieee.encode`, `rne`).
-/
import BitstringModel.Model.C02
import BitstringModel.Proofs.Basic
import Mathlib.Tactic.Ring
import Mathlib.Tactic.Linarith

namespace BM.C02.Ieee
open BM

end BM.C02.Ieee
