/-
  Proofs/C02Ieee.lean — helper lemmas about the exact-dyadic IEEE 754 model (`Ieee.decode`, `Ieee.encode`, `rne`).
-/
import BitstringModel.Model.C02
import BitstringModel.Proofs.Basic
import Mathlib.Tactic.Ring
import Mathlib.Tactic.Linarith

namespace BM.C02.Ieee
open BM

theorem log2_mul_pow (n k : Nat) (h : n ≠ 0) : Nat.log2 (n * 2 ^ k) = Nat.log2 n + k := by
  induction k with
  | zero => simp
  | succ k ih =>
    have hne : n * 2 ^ k ≠ 0 := Nat.mul_ne_zero h (by simp)
    rw [Nat.pow_succ, ← Nat.mul_assoc, Nat.mul_comm _ 2, Nat.log2_two_mul hne, ih]; omega

theorem log2_of_range (x m : Nat) (h1 : 2 ^ m ≤ x) (h2 : x < 2 ^ (m + 1)) : Nat.log2 x = m := by
  have hx : x ≠ 0 := by have : 0 < 2 ^ m := Nat.pos_of_ne_zero (by simp); omega
  exact (Nat.log2_eq_iff hx).mpr ⟨h1, h2⟩

theorem log2_lt_of_lt (x m : Nat) (hx : x ≠ 0) (h : x < 2 ^ m) : Nat.log2 x < m :=
  (Nat.log2_lt hx).mpr h

theorem rne_mul_pow (a q : Nat) : rne (a * 2 ^ q) q = a := by
  unfold rne
  have hp : 0 < 2 ^ q := Nat.pos_of_ne_zero (by simp)
  simp only [Nat.mul_div_cancel _ hp, Nat.mul_mod_left]
  rw [if_neg]
  omega

theorem rne_exact' (n q : Nat) (h : 2 ^ q ∣ n) : rne n q = n / 2 ^ q := by
  obtain ⟨c, rfl⟩ := h
  have hp : 0 < 2 ^ q := Nat.pos_of_ne_zero (by simp)
  rw [Nat.mul_comm, rne_mul_pow, Nat.mul_div_cancel _ hp]

theorem rne_nearest' (n q : Nat) :
    2 * ((rne n q * 2 ^ q : Nat) - (n : Int)).natAbs ≤ 2 ^ q ∧
    (2 * ((rne n q * 2 ^ q : Nat) - (n : Int)).natAbs = 2 ^ q → rne n q % 2 = 0) := by
  obtain ⟨Q, hQ⟩ : ∃ Q, Q = 2 ^ q := ⟨_, rfl⟩
  have hp : 0 < Q := by rw [hQ]; exact Nat.pos_of_ne_zero (by simp)
  have hdm := Nat.div_add_mod n Q
  have hr := Nat.mod_lt n hp
  unfold rne
  simp only [← hQ]
  obtain ⟨d, hd⟩ : ∃ d, d = n / Q := ⟨_, rfl⟩
  obtain ⟨r, hr'⟩ : ∃ r, r = n % Q := ⟨_, rfl⟩
  rw [← hd, ← hr'] at hdm ⊢
  rw [← hr'] at hr
  obtain ⟨t, ht⟩ : ∃ t, t = Q * d := ⟨_, rfl⟩
  rw [← ht] at hdm
  split
  · rename_i hc
    have e1 : (d + 1) * Q = t + Q := by rw [ht]; ring
    rw [e1]
    constructor
    · omega
    · intro he
      rcases hc with hc | hc
      · omega
      · omega
  · rename_i hc
    have e1 : d * Q = t := by rw [ht]; ring
    rw [e1]
    constructor
    · omega
    · intro he
      have : 2 * r = Q := by omega
      by_contra hodd
      exact hc (Or.inr ⟨this, by omega⟩)







/-- Splitting a pattern into its three fields. -/
theorem fields (E M p : Nat) (hp : p < 2 ^ (1 + E + M)) :
    p = (p / 2 ^ (E + M)) * 2 ^ (E + M) + (p / 2 ^ M % 2 ^ E) * 2 ^ M + p % 2 ^ M ∧
    p / 2 ^ (E + M) < 2 ∧ p / 2 ^ M % 2 ^ E < 2 ^ E ∧ p % 2 ^ M < 2 ^ M := by
  have hA : 0 < 2 ^ M := Nat.pos_of_ne_zero (by simp)
  have hB : 0 < 2 ^ E := Nat.pos_of_ne_zero (by simp)
  have h1 := Nat.div_add_mod p (2 ^ M)
  have h2 := Nat.div_add_mod (p / 2 ^ M) (2 ^ E)
  have h3 : p / 2 ^ M / 2 ^ E = p / 2 ^ (E + M) := by
    rw [Nat.div_div_eq_div_mul, ← Nat.pow_add, Nat.add_comm]
  rw [h3] at h2
  refine ⟨?_, ?_, Nat.mod_lt _ hB, Nat.mod_lt _ hA⟩
  · have : 2 ^ (E + M) = 2 ^ E * 2 ^ M := Nat.pow_add 2 E M
    rw [this]
    calc p = 2 ^ M * (p / 2 ^ M) + p % 2 ^ M := h1.symm
      _ = 2 ^ M * (2 ^ E * (p / 2 ^ (E + M)) + p / 2 ^ M % 2 ^ E) + p % 2 ^ M := by rw [h2]
      _ = _ := by ring_nf
  · rw [Nat.div_lt_iff_lt_mul (Nat.pos_of_ne_zero (by simp))]
    calc p < 2 ^ (1 + E + M) := hp
      _ = 2 * 2 ^ (E + M) := by rw [Nat.add_assoc, Nat.pow_add]

/-- The magnitude bits of a finite value read from fields `(ex, man)` re-encode to `ex·2^M + man`. -/
theorem encodeMag_fields (f : Fmt) (hf : f.ok) (ex man : Nat) (hex : ex < 2 ^ f.E - 1) (hman : man < 2 ^ f.M) :
    encodeMag f (if ex = 0 then man * 2 ^ f.q0 else (2 ^ f.M + man) * 2 ^ (f.q0 + ex - 1)) = ex * 2 ^ f.M + man := by
  obtain ⟨hE1, hE2, hM1, hM2⟩ := hf
  have hA : 0 < 2 ^ f.M := Nat.pos_of_ne_zero (by simp)
  have hB : 2 ≤ 2 ^ f.E := by
    calc 2 = 2 ^ 1 := rfl
      _ ≤ 2 ^ f.E := Nat.pow_le_pow_right (by omega) hE1
  unfold encodeMag Fmt.infMag
  have hinf : ex * 2 ^ f.M + man < (2 ^ f.E - 1) * 2 ^ f.M := by
    calc ex * 2 ^ f.M + man < ex * 2 ^ f.M + 2 ^ f.M := by omega
      _ = (ex + 1) * 2 ^ f.M := by ring
      _ ≤ (2 ^ f.E - 1) * 2 ^ f.M := Nat.mul_le_mul_right _ (by omega)
  by_cases h0 : ex = 0
  · subst h0
    simp only [if_true]
    have hq : max f.q0 (Nat.log2 (man * 2 ^ f.q0) - f.M) = f.q0 := by
      by_cases hm : man = 0
      · subst hm; simp
      · rw [log2_mul_pow _ _ hm]
        have := log2_lt_of_lt man f.M hm hman
        omega
    simp only [hq, Nat.sub_self, Nat.zero_mul, Nat.zero_add, rne_mul_pow]
    exact Nat.min_eq_left (by omega)
  · simp only [if_neg h0]
    have hlog : Nat.log2 ((2 ^ f.M + man) * 2 ^ (f.q0 + ex - 1)) = f.M + (f.q0 + ex - 1) := by
      rw [log2_mul_pow _ _ (by omega), log2_of_range (2 ^ f.M + man) f.M (by omega) (by rw [Nat.pow_succ]; omega)]
    have hq : max f.q0 (Nat.log2 ((2 ^ f.M + man) * 2 ^ (f.q0 + ex - 1)) - f.M) = f.q0 + ex - 1 := by
      rw [hlog]; omega
    simp only [hq, rne_mul_pow]
    have he : (f.q0 + ex - 1 - f.q0) * 2 ^ f.M + (2 ^ f.M + man) = ex * 2 ^ f.M + man := by
      have : f.q0 + ex - 1 - f.q0 = ex - 1 := by omega
      rw [this]
      obtain ⟨e', rfl⟩ : ∃ e', ex = e' + 1 := ⟨ex - 1, by omega⟩
      simp only [Nat.add_sub_cancel]; ring
    rw [he]
    exact Nat.min_eq_left (by omega)

theorem encode_decode' (f : Fmt) (hf : f.ok) (p : Nat) (hp : p < 2 ^ f.width) (hn : decode f p ≠ .nan) :
    encode f (decode f p) = p := by
  obtain ⟨hsplit, hs, hex, hman⟩ := fields f.E f.M p hp
  obtain ⟨s, hs'⟩ : ∃ s, s = p / 2 ^ (f.E + f.M) := ⟨_, rfl⟩
  obtain ⟨ex, hex'⟩ : ∃ ex, ex = p / 2 ^ f.M % 2 ^ f.E := ⟨_, rfl⟩
  obtain ⟨man, hman'⟩ : ∃ man, man = p % 2 ^ f.M := ⟨_, rfl⟩
  have hsign : (if decide (s % 2 = 1) = true then f.signBit else 0) = s * 2 ^ (f.E + f.M) := by
    unfold Fmt.signBit
    rw [← hs'] at hs
    have : s = 0 ∨ s = 1 := by omega
    rcases this with rfl | rfl <;> simp
  unfold decode at hn ⊢
  simp only [← hs', ← hex', ← hman'] at hn hsplit hs hex hman ⊢
  by_cases hinf : ex = 2 ^ f.E - 1
  · rw [if_pos hinf] at hn ⊢
    by_cases hm0 : man = 0
    · rw [if_pos hm0]
      simp only [encode, hsign, Fmt.infMag]
      rw [hsplit, hinf, hm0]; ring
    · rw [if_neg hm0] at hn; exact absurd rfl hn
  · rw [if_neg hinf]
    have hlt : ex < 2 ^ f.E - 1 := by omega
    have hmag := encodeMag_fields f hf ex man hlt hman
    by_cases h0 : ex = 0
    · rw [if_pos h0]
      rw [if_pos h0] at hmag
      simp only [encode, hsign, hmag]
      rw [hsplit]; ring
    · rw [if_neg h0]
      rw [if_neg h0] at hmag
      simp only [encode, hsign, hmag]
      rw [hsplit]; ring







/-- Reading the three fields back from a pattern assembled from them. -/
theorem fields_of (E M s ex man : Nat) (hex : ex < 2 ^ E) (hman : man < 2 ^ M) :
    (s * 2 ^ (E + M) + ex * 2 ^ M + man) / 2 ^ (E + M) = s ∧
    (s * 2 ^ (E + M) + ex * 2 ^ M + man) / 2 ^ M % 2 ^ E = ex ∧
    (s * 2 ^ (E + M) + ex * 2 ^ M + man) % 2 ^ M = man := by
  have hA : 0 < 2 ^ M := Nat.pos_of_ne_zero (by simp)
  have hB : 0 < 2 ^ E := Nat.pos_of_ne_zero (by simp)
  have hS : 2 ^ (E + M) = 2 ^ E * 2 ^ M := Nat.pow_add 2 E M
  have e1 : s * 2 ^ (E + M) + ex * 2 ^ M + man = man + 2 ^ M * (s * 2 ^ E + ex) := by rw [hS]; ring
  have hdiv : (s * 2 ^ (E + M) + ex * 2 ^ M + man) / 2 ^ M = s * 2 ^ E + ex := by
    rw [e1, Nat.add_mul_div_left _ _ hA, Nat.div_eq_of_lt hman, Nat.zero_add]
  refine ⟨?_, ?_, ?_⟩
  · have hS' : 2 ^ (E + M) = 2 ^ M * 2 ^ E := by rw [hS, Nat.mul_comm]
    conv => lhs; rw [hS']
    rw [← Nat.div_div_eq_div_mul, ← hS', hdiv]
    rw [Nat.add_comm, Nat.add_mul_div_right _ _ hB, Nat.div_eq_of_lt hex, Nat.zero_add]
  · rw [hdiv, Nat.add_comm, Nat.add_mul_mod_self_right, Nat.mod_eq_of_lt hex]
  · rw [e1, Nat.add_mul_mod_self_left, Nat.mod_eq_of_lt hman]

/-- `n` units of 2^-1074 are a binary64 value: at most 53 significant bits, not too large. -/
def Rep64 (n : Nat) : Prop := n = 0 ∨ ∃ a j, n = a * 2 ^ j ∧ 0 < a ∧ a < 2 ^ 53 ∧ Nat.log2 a + j ≤ 2097

theorem f64_consts : f64.E = 11 ∧ f64.M = 52 ∧ f64.q0 = 0 ∧ f64.infMag = 2047 * 2 ^ 52 ∧ f64.signBit = 2 ^ 63 := by
  decide

theorem encodeMag_eq (f : Fmt) (n : Nat) :
    encodeMag f n = min ((max f.q0 (Nat.log2 n - f.M) - f.q0) * 2 ^ f.M + rne n (max f.q0 (Nat.log2 n - f.M))) f.infMag := rfl

theorem decode_encodeMag64 (n : Nat) (hrep : Rep64 n) (neg : Bool) :
    decode f64 ((if neg then f64.signBit else 0) + encodeMag f64 n) = .fin neg n := by
  obtain ⟨hE, hM, hq0, hinf, hsb⟩ := f64_consts
  obtain ⟨s, hs⟩ : ∃ s : Nat, s = if neg then 1 else 0 := ⟨_, rfl⟩
  have hsign : (if neg = true then f64.signBit else 0) = s * 2 ^ (11 + 52) := by
    rw [hsb, hs]; cases neg <;> simp
  have hnegs : decide (s % 2 = 1) = neg := by rw [hs]; cases neg <;> simp
  -- the magnitude as (ex, man) fields
  have key : ∃ ex man, ex < 2 ^ 11 - 1 ∧ man < 2 ^ 52 ∧ encodeMag f64 n = ex * 2 ^ 52 + man ∧
      n = if ex = 0 then man * 2 ^ 0 else (2 ^ 52 + man) * 2 ^ (0 + ex - 1) := by
    rw [encodeMag_eq, hq0, hM, hinf]
    by_cases hk : Nat.log2 n < 52
    · have hn : n < 2 ^ 52 := by
        calc n < 2 ^ (Nat.log2 n + 1) := Nat.lt_log2_self
          _ ≤ 2 ^ 52 := Nat.pow_le_pow_right (by omega) (by omega)
      refine ⟨0, n, by norm_num, hn, ?_, by simp⟩
      have hq : max 0 (Nat.log2 n - 52) = 0 := by omega
      rw [hq]
      have : rne n 0 = n := by have := rne_mul_pow n 0; simpa using this
      rw [this]
      simp only [Nat.sub_self, Nat.zero_mul, Nat.zero_add]
      exact Nat.min_eq_left (by norm_num at hn ⊢; omega)
    · have hn0 : n ≠ 0 := by rintro rfl; simp at hk
      rcases hrep with rfl | ⟨a, j, rfl, ha0, ha, hlog⟩
      · exact absurd rfl hn0
      · have hla : Nat.log2 a ≤ 52 := by
          have := log2_lt_of_lt a 53 (by omega) ha; omega
        rw [log2_mul_pow a j (by omega)] at hk ⊢
        obtain ⟨q, hq⟩ : ∃ q, q = Nat.log2 a + j - 52 := ⟨_, rfl⟩
        have hqj : q ≤ j := by omega
        have hmax : max 0 (Nat.log2 a + j - 52) = q := by omega
        rw [hmax]
        -- n = d * 2^q with d = a * 2^(j - q) in [2^52, 2^53)
        obtain ⟨d, hd⟩ : ∃ d, d = a * 2 ^ (j - q) := ⟨_, rfl⟩
        have hnd : a * 2 ^ j = d * 2 ^ q := by
          rw [hd, Nat.mul_assoc, ← Nat.pow_add]; congr 2; omega
        have hdlog : Nat.log2 d = 52 := by
          rw [hd, log2_mul_pow a _ (by omega)]; omega
        have hd0 : d ≠ 0 := by rw [hd]; exact Nat.mul_ne_zero (by omega) (by simp)
        have hd1 : 2 ^ 52 ≤ d := by have := Nat.log2_self_le hd0; rwa [hdlog] at this
        have hd2 : d < 2 ^ 53 := by have := @Nat.lt_log2_self d; rwa [hdlog] at this
        rw [hnd, rne_mul_pow]
        refine ⟨q + 1, d - 2 ^ 52, by norm_num; omega, by norm_num at hd1 hd2 ⊢; omega, ?_, ?_⟩
        · have : (q - 0) * 2 ^ 52 + d = (q + 1) * 2 ^ 52 + (d - 2 ^ 52) := by
            rw [Nat.sub_zero, Nat.add_mul]; omega
          rw [this]
          apply Nat.min_eq_left
          have hq1 : q + 1 ≤ 2046 := by omega
          calc (q + 1) * 2 ^ 52 + (d - 2 ^ 52) ≤ 2046 * 2 ^ 52 + (d - 2 ^ 52) :=
                Nat.add_le_add_right (Nat.mul_le_mul_right _ hq1) _
            _ ≤ 2047 * 2 ^ 52 := by norm_num at hd1 hd2 ⊢; omega
        · rw [if_neg (by omega)]
          have : 2 ^ 52 + (d - 2 ^ 52) = d := by omega
          rw [this]; simp
  obtain ⟨ex, man, hex, hman, hmag, hn⟩ := key
  rw [hsign, hmag, ← Nat.add_assoc]
  obtain ⟨h1, h2, h3⟩ := fields_of 11 52 s ex man (by omega) hman
  unfold decode
  simp only [hE, hM, hq0, h1, h2, h3, hnegs]
  rw [if_neg (by omega)]
  by_cases h0 : ex = 0
  · rw [if_pos h0]; rw [if_pos h0] at hn; rw [← hn]
  · rw [if_neg h0]; rw [if_neg h0] at hn; rw [← hn]








theorem rep_of_decode (f : Fmt) (hf : f.ok) (p : Nat) (neg : Bool) (n : Nat) (h : decode f p = .fin neg n) :
    Rep64 n := by
  obtain ⟨hE1, hE2, hM1, hM2⟩ := hf
  have hA : 0 < 2 ^ f.M := Nat.pos_of_ne_zero (by simp)
  have hB : 0 < 2 ^ f.E := Nat.pos_of_ne_zero (by simp)
  obtain ⟨ex, hex'⟩ : ∃ ex, ex = p / 2 ^ f.M % 2 ^ f.E := ⟨_, rfl⟩
  obtain ⟨man, hman'⟩ : ∃ man, man = p % 2 ^ f.M := ⟨_, rfl⟩
  have hex : ex < 2 ^ f.E := by rw [hex']; exact Nat.mod_lt _ hB
  have hman : man < 2 ^ f.M := by rw [hman']; exact Nat.mod_lt _ hA
  -- the constants of the format
  obtain ⟨T, hT⟩ : ∃ T, T = 2 ^ (f.E - 1) := ⟨_, rfl⟩
  have hT2 : 2 ^ f.E = 2 * T := by
    rw [hT, ← Nat.pow_succ']; congr 1; omega
  have hT3 : T ≤ 1024 := by
    rw [hT]; calc 2 ^ (f.E - 1) ≤ 2 ^ 10 := Nat.pow_le_pow_right (by omega) (by omega)
      _ = 1024 := by norm_num
  have hT1 : 1 ≤ T := by rw [hT]; exact Nat.pos_of_ne_zero (by simp)
  have hbias : f.bias = T - 1 := by rw [hT]; rfl
  have hq0 : f.q0 = 1075 - (T - 1) - f.M := by unfold Fmt.q0; rw [hbias]
  have hM53 : 2 ^ (f.M + 1) ≤ 2 ^ 53 := Nat.pow_le_pow_right (by omega) (by omega)
  unfold decode at h
  simp only [← hex', ← hman'] at h
  split at h
  · split at h <;> cases h
  · split at h
    · cases h
      by_cases hm : man = 0
      · left; rw [hm]; simp
      · right
        refine ⟨man, f.q0, rfl, by omega, ?_, ?_⟩
        · calc man < 2 ^ f.M := hman
            _ ≤ 2 ^ (f.M + 1) := Nat.pow_le_pow_right (by omega) (by omega)
            _ ≤ 2 ^ 53 := hM53
        · have := log2_lt_of_lt man f.M hm hman
          omega
    · cases h
      right
      rename_i hinf h0
      refine ⟨2 ^ f.M + man, f.q0 + ex - 1, rfl, by omega, ?_, ?_⟩
      · calc 2 ^ f.M + man < 2 ^ (f.M + 1) := by rw [Nat.pow_succ]; omega
          _ ≤ 2 ^ 53 := hM53
      · rw [log2_of_range (2 ^ f.M + man) f.M (by omega) (by rw [Nat.pow_succ]; omega)]
        omega

theorem decode64_qnan : decode f64 (qnan f64) = .nan := by decide +kernel
theorem decode64_inf : ∀ neg : Bool, decode f64 ((if neg then f64.signBit else 0) + f64.infMag) = .inf neg := by
  decide +kernel

theorem widen_exact' (f : Fmt) (hf : f.ok) (p : Nat) :
    decode f64 (encode f64 (decode f p)) = decode f p := by
  cases h : decode f p with
  | nan => exact decode64_qnan
  | inf neg => exact decode64_inf neg
  | fin neg n => exact decode_encodeMag64 n (rep_of_decode f hf p neg n h) neg


/-! ### the float dtypes -/

def stdFmt (f : Fmt) : Prop := f = f16 ∨ f = f32 ∨ f = f64

theorem stdFmt_ok (f : Fmt) (h : stdFmt f) : f.ok := by
  rcases h with rfl | rfl | rfl <;> (unfold Fmt.ok; decide)

theorem bf16_ok : bf16.ok := by unfold Fmt.ok; decide

theorem packFloat_unpackFloat' (f : Fmt) (hf : f.ok) (b : Bits) (hb : b.length = f.width) (p : Nat)
    (h : unpackFloat f b = some p) : packFloat f p = b := by
  unfold unpackFloat at h
  have hlt : bitsToNat b < 2 ^ f.width := by rw [← hb]; exact bitsToNat_lt b
  unfold packFloat
  cases hv : decode f (bitsToNat b) with
  | nan => rw [hv] at h; cases h
  | inf neg =>
    rw [hv] at h; simp only [Option.some.injEq] at h
    rw [← h, ← hv, widen_exact' f hf, encode_decode' f hf _ hlt (by rw [hv]; simp), ← hb]
    exact natToBits_bitsToNat b
  | fin neg n =>
    rw [hv] at h; simp only [Option.some.injEq] at h
    rw [← h, ← hv, widen_exact' f hf, encode_decode' f hf _ hlt (by rw [hv]; simp), ← hb]
    exact natToBits_bitsToNat b

theorem f64_ok : f64.ok := by unfold Fmt.ok; decide

theorem unpackFloat_packFloat_f64' (p : Nat) (hp : p < 2 ^ 64) (hn : decode f64 p ≠ .nan) :
    unpackFloat f64 (packFloat f64 p) = some p := by
  have hw : f64.width = 64 := by decide
  unfold unpackFloat packFloat
  rw [encode_decode' f64 f64_ok p (by rw [hw]; exact hp) hn, hw, bitsToNat_natToBits 64 p hp]
  cases hv : decode f64 p with
  | nan => exact absurd hv hn
  | inf neg => simp only; rw [← hv, encode_decode' f64 f64_ok p (by rw [hw]; exact hp) hn]
  | fin neg n => simp only; rw [← hv, encode_decode' f64 f64_ok p (by rw [hw]; exact hp) hn]


/-- bfloat16 is the top half of binary32: padding a 16-bit pattern with 16 zero bits gives a binary32 pattern
    that denotes the same value. -/
theorem decode_bf16_top' (p : Nat) (hp : p < 2 ^ 16) : decode f32 (p * 2 ^ 16) = decode bf16 p := by
  obtain ⟨hsplit, hs, hex, hman⟩ := fields 8 7 p (by simpa using hp)
  obtain ⟨s, hs'⟩ : ∃ s, s = p / 2 ^ (8 + 7) := ⟨_, rfl⟩
  obtain ⟨ex, hex'⟩ : ∃ ex, ex = p / 2 ^ 7 % 2 ^ 8 := ⟨_, rfl⟩
  obtain ⟨man, hman'⟩ : ∃ man, man = p % 2 ^ 7 := ⟨_, rfl⟩
  simp only [← hs', ← hex', ← hman'] at hsplit hs hex hman
  have h32 : p * 2 ^ 16 = s * 2 ^ (8 + 23) + ex * 2 ^ 23 + man * 2 ^ 16 := by
    rw [hsplit]; ring
  obtain ⟨a1, a2, a3⟩ := fields_of 8 23 s ex (man * 2 ^ 16) hex (by
    calc man * 2 ^ 16 < 2 ^ 7 * 2 ^ 16 := Nat.mul_lt_mul_of_pos_right hman (by norm_num)
      _ = 2 ^ 23 := by norm_num)
  have e32 : f32.E = 8 ∧ f32.M = 23 := by decide
  have ebf : bf16.E = 8 ∧ bf16.M = 7 ∧ bf16.q0 = 16 + f32.q0 := by decide
  obtain ⟨Q, hQ⟩ : ∃ Q, Q = f32.q0 := ⟨_, rfl⟩
  unfold decode
  simp only [e32.1, e32.2, ebf.1, ebf.2.1, ebf.2.2, ← hQ]
  rw [h32, a1, a2, a3, ← hs', ← hex', ← hman']
  have hz : man * 2 ^ 16 = 0 ↔ man = 0 := by
    constructor
    · intro h; rcases Nat.mul_eq_zero.mp h with h | h
      · exact h
      · simp at h
    · rintro rfl; simp
  by_cases hinf : ex = 2 ^ 8 - 1
  · simp only [hinf, if_true]
    by_cases hm : man = 0
    · rw [if_pos (hz.mpr hm), if_pos hm]
    · rw [if_neg (fun h => hm (hz.mp h)), if_neg hm]
  · rw [if_neg hinf, if_neg hinf]
    by_cases h0 : ex = 0
    · rw [if_pos h0, if_pos h0]
      rw [Nat.mul_assoc, ← Nat.pow_add]
    · rw [if_neg h0, if_neg h0]
      have : (2 ^ 23 + man * 2 ^ 16) = (2 ^ 7 + man) * 2 ^ 16 := by ring
      rw [this, Nat.mul_assoc, ← Nat.pow_add]
      have he : 16 + (Q + ex - 1) = 16 + Q + ex - 1 := by omega
      rw [he]

end BM.C02.Ieee
