/- Kernel obligation: `bfChk` (Proofs/C11_NumDefs.lean) on the 16-bit patterns 0x3c00..0x3fff. -/
import BitstringModel.Proofs.C11_NumDefs
namespace BM.C11
theorem bfChunk_15 : bfChunkOk 15 = true := by decide +kernel
end BM.C11
