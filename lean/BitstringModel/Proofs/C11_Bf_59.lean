/- Kernel obligation: `bfChk` (Proofs/C11_NumDefs.lean) on the 16-bit patterns 0xec00..0xefff. -/
import BitstringModel.Proofs.C11_NumDefs
namespace BM.C11
theorem bfChunk_59 : bfChunkOk 59 = true := by decide +kernel
end BM.C11
