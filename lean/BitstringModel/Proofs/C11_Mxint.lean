/-
  Proofs/C11_Mxint.lean — `mxint2bitstore` = nearest-even of 64·x with saturation, for EVERY float64 (no enumeration):
  the product `f * 64` is exact in the float model or overflows to ±inf (Proofs/C11_Ieee.lean), `round()` is `rneDiv`
  on the exact value, and the saturation tests are comparisons of the exact value with 127 and −128.
-/
import BitstringModel.Proofs.C11_Ieee

namespace BM.C11
open BM

theorem clip_arith (num : Int) (den : Nat) (hd : 0 < den) (i : Int) (hi : IsNearestEvenInt num den i) :
    (if num > 127 * (den : Int) then (Except.ok 0x7f : Except Err Nat)
     else if num ≤ -128 * (den : Int) then .ok 0x80
     else if -128 ≤ i ∧ i ≤ 127 then .ok (i % 256).toNat else .error .value)
    = .ok (if 127 < i then 0x7f else if i < -128 then 0x80 else (i % 256).toNat) := by
  obtain ⟨hn, _⟩ := hi
  obtain ⟨D, hDd⟩ : ∃ D : Int, D = (den : Int) := ⟨_, rfl⟩
  rw [← hDd] at hn ⊢
  have hD : (0 : Int) < D := by omega
  have up : ∀ c : Int, i ≤ c → i * D ≤ c * D := fun c h => Int.mul_le_mul_of_nonneg_right h (by omega)
  have dn : ∀ c : Int, c ≤ i → c * D ≤ i * D := fun c h => Int.mul_le_mul_of_nonneg_right h (by omega)
  by_cases h1 : num > 127 * D
  · rw [if_pos h1]
    have hi127 : 127 ≤ i := by
      by_cases hc : 127 ≤ i
      · exact hc
      · exfalso; have := up 126 (by omega); omega
    by_cases h2 : 127 < i
    · rw [if_pos h2]
    · have : i = 127 := by omega
      subst this; rfl
  · rw [if_neg h1]
    by_cases h2 : num ≤ -128 * D
    · rw [if_pos h2]
      have hi128 : i ≤ -128 := by
        by_cases hc : i ≤ -128
        · exact hc
        · exfalso; have := dn (-127) (by omega); omega
      have h3 : ¬ (127 < i) := by omega
      rw [if_neg h3]
      by_cases h4 : i < -128
      · rw [if_pos h4]
      · have : i = -128 := by omega
        subst this; rfl
    · rw [if_neg h2]
      have hlo : -128 ≤ i := by
        by_cases hc : -128 ≤ i
        · exact hc
        · exfalso; have := up (-129) (by omega); omega
      have hhi : i ≤ 127 := by
        by_cases hc : i ≤ 127
        · exact hc
        · exfalso; have := dn 128 (by omega); omega
      rw [if_pos ⟨hlo, hhi⟩, if_neg (by omega), if_neg (by omega)]

theorem f64Val_c127 : f64Val (f64OfInt 127) = .fin false 127 0 := by decide +kernel
theorem f64Val_cm128 : f64Val (f64OfInt (-128)) = .fin true 1 7 := by decide +kernel
theorem f64Val_c64 : f64Val (f64OfInt 64) = .fin false 1 6 := by decide +kernel

theorem ord_gt (a b : Int) : ((if a < b then Ordering.lt else if a = b then Ordering.eq else Ordering.gt) = Ordering.gt) ↔ b < a := by
  split
  · constructor <;> intro h <;> first | cases h | omega
  · split
    · constructor <;> intro h <;> first | cases h | omega
    · constructor <;> intro _ <;> first | rfl | omega

theorem ord_le (a b : Int) : ((if a < b then Ordering.lt else if a = b then Ordering.eq else Ordering.gt) = Ordering.lt ∨
    (if a < b then Ordering.lt else if a = b then Ordering.eq else Ordering.gt) = Ordering.eq) ↔ a ≤ b := by
  split
  · constructor <;> intro _ <;> first | (left; rfl) | omega
  · split
    · constructor <;> intro _ <;> first | (right; rfl) | omega
    · constructor
      · intro h; rcases h with h | h <;> cases h
      · intro h; omega

/-- `g > 127` on the exact value `num/den` of `g`. -/
theorem f64Gt_127 (g : Nat) (s : Bool) (m : Nat) (E : Int) (hg : f64Val g = .fin s m E) :
    f64Gt g (f64OfInt 127) = decide (sgnMant s (dyadicNum m E) > 127 * (dyadicDen E : Int)) := by
  unfold f64Gt
  rw [hg, f64Val_c127]
  simp only [FVal.cmp]
  unfold dyadicNum dyadicDen
  rw [Bool.eq_iff_iff]
  simp only [beq_iff_eq, Option.some.injEq, decide_eq_true_eq, ord_gt]
  by_cases hE : E ≤ 0
  · by_cases h0 : E = 0
    · subst h0; simp [sgnMant]
    · have hneg : ¬ (E ≥ 0) := by omega
      simp only [hE, if_true, hneg, if_false, Int.sub_self, Int.toNat_zero, Nat.pow_zero, Nat.mul_one, sgnMant,
        Bool.false_eq_true]
      have : (0 - E).toNat = (-E).toNat := by omega
      rw [this]
      simp only [Int.natCast_mul, Int.natCast_pow]
      constructor <;> intro h <;> exact h
  · have hpos : E ≥ 0 := by omega
    simp only [hE, if_false, hpos, if_true, Int.sub_zero, sgnMant, Bool.false_eq_true]
    simp

theorem sgnMant_mul (s : Bool) (p c : Nat) : sgnMant s (p * c) = sgnMant s p * (c : Int) := by
  cases s <;> simp [sgnMant, Int.neg_mul]

/-- `g <= -128` on the exact value `num/den` of `g`. -/
theorem f64Le_m128 (g : Nat) (s : Bool) (m : Nat) (E : Int) (hg : f64Val g = .fin s m E) :
    f64Le g (f64OfInt (-128)) = decide (sgnMant s (dyadicNum m E) ≤ -128 * (dyadicDen E : Int)) := by
  unfold f64Le
  rw [hg, f64Val_cm128]
  simp only [FVal.cmp]
  rw [Bool.eq_iff_iff]
  simp only [Bool.or_eq_true, beq_iff_eq, Option.some.injEq, decide_eq_true_eq, ord_le]
  -- x = min E 7 is the exponent the code compares at, y = min E 0 the one the statement uses
  obtain ⟨x, hx⟩ : ∃ x : Int, x = if E ≤ 7 then E else 7 := ⟨_, rfl⟩
  rw [← hx]
  obtain ⟨y, hy⟩ : ∃ y : Int, y = if E ≤ 0 then E else 0 := ⟨_, rfl⟩
  have hxy : y ≤ x := by rw [hx, hy]; split <;> split <;> omega
  have hyE : y ≤ E := by rw [hy]; split <;> omega
  have hxE : x ≤ E := by rw [hx]; split <;> omega
  have hx7 : x ≤ 7 := by rw [hx]; split <;> omega
  have cpos : (0 : Int) < ((2 ^ (x - y).toNat : Nat) : Int) := by
    have := Nat.two_pow_pos (x - y).toNat; omega
  have ea : sgnMant s (m * 2 ^ (E - y).toNat) = sgnMant s (m * 2 ^ (E - x).toNat) * ((2 ^ (x - y).toNat : Nat) : Int) := by
    rw [← sgnMant_mul, Nat.mul_assoc, ← Nat.pow_add]
    congr 3; omega
  have eb : sgnMant true (1 * 2 ^ (7 - y).toNat) = sgnMant true (1 * 2 ^ (7 - x).toNat) * ((2 ^ (x - y).toNat : Nat) : Int) := by
    rw [← sgnMant_mul, Nat.mul_assoc, ← Nat.pow_add]
    congr 3; omega
  have hiff : sgnMant s (m * 2 ^ (E - x).toNat) ≤ sgnMant true (1 * 2 ^ (7 - x).toNat) ↔
      sgnMant s (m * 2 ^ (E - y).toNat) ≤ sgnMant true (1 * 2 ^ (7 - y).toNat) := by
    rw [ea, eb]
    constructor
    · intro h; exact Int.mul_le_mul_of_nonneg_right h (by omega)
    · intro h; exact Int.le_of_mul_le_mul_right h cpos
  rw [hiff]
  unfold dyadicNum dyadicDen
  by_cases hE : E ≥ 0
  · have hy0 : y = 0 := by rw [hy]; split <;> omega
    rw [hy0]
    simp only [hE, if_true, Int.sub_zero]
    simp [sgnMant]
  · have hyE' : y = E := by rw [hy]; split <;> omega
    rw [hyE']
    simp only [hE, if_false, Int.sub_self, Int.toNat_zero, Nat.pow_zero, Nat.mul_one]
    have : (7 - E).toNat = 7 + (-E).toNat := by omega
    rw [this, Nat.pow_add]
    simp [sgnMant]
    rw [Int.neg_mul]

theorem rneDiv_nearest (num : Int) (den : Nat) (hd : 0 < den) : IsNearestEvenInt num den (rneDiv num den) := by
  unfold IsNearestEvenInt rneDiv
  have hdi : (0 : Int) < den := by omega
  have h1 := Int.mul_ediv_add_emod num den
  have h2 := Int.emod_nonneg num (by omega : (den : Int) ≠ 0)
  have h3 := Int.emod_lt_of_pos num hdi
  generalize num / (den : Int) = q at *
  generalize num % (den : Int) = r at *
  have hm : (den : Int) * q = q * den := Int.mul_comm _ _
  have hs : (q + 1) * (den : Int) = q * den + den := by rw [Int.add_mul, Int.one_mul]
  simp only []
  split
  · constructor <;> omega
  · split
    · constructor <;> omega
    · rcases Int.emod_two_eq q with hq | hq
      · rw [hq]; simp only [Int.add_zero]
        constructor <;> omega
      · rw [hq]
        constructor <;> omega

theorem dyadicDen_pos (E : Int) : 0 < dyadicDen E := by
  unfold dyadicDen; split
  · decide
  · exact Nat.two_pow_pos _

/-- What the property demands of `mxint2bitstore` for a float with exact value `v`. -/
def mxintSpecOf (v : FVal) : Except Err Nat :=
  match v with
  | .nan => .error .value
  | .inf s => .ok (if s then 0x80 else 0x7f)
  | .fin s m e => .ok (mxintCodeSpec s m e)

/-- The specification written as the code's saturation tests on the exact value `num/den = 64·x`. -/
theorem mxintCodeSpec_clip (s : Bool) (m : Nat) (e : Int) :
    (Except.ok (mxintCodeSpec s m e) : Except Err Nat) =
      (if sgnMant s (dyadicNum m (e + 6)) > 127 * (dyadicDen (e + 6) : Int) then .ok 0x7f
       else if sgnMant s (dyadicNum m (e + 6)) ≤ -128 * (dyadicDen (e + 6) : Int) then .ok 0x80
       else if -128 ≤ rneDiv (sgnMant s (dyadicNum m (e + 6))) (dyadicDen (e + 6)) ∧
               rneDiv (sgnMant s (dyadicNum m (e + 6))) (dyadicDen (e + 6)) ≤ 127
            then .ok (rneDiv (sgnMant s (dyadicNum m (e + 6))) (dyadicDen (e + 6)) % 256).toNat else .error .value) := by
  rw [clip_arith _ _ (dyadicDen_pos _) _ (rneDiv_nearest _ _ (dyadicDen_pos _))]
  rfl

theorem f64Val_inf (s : Bool) : f64Val (f64Inf s) = .inf s := by cases s <;> decide +kernel

/-- The tail of `mxint2bitstore` once `f * 64` has overflowed to ±inf. -/
theorem mxint_tail_inf (s : Bool) :
    (if f64Gt (f64Inf s) (f64OfInt 127) = true then (Except.ok 0x7f : Except Err Nat)
     else if f64Le (f64Inf s) (f64OfInt (-128)) = true then .ok 0x80
     else if -128 ≤ f64Round (f64Inf s) ∧ f64Round (f64Inf s) ≤ 127 then .ok (f64Round (f64Inf s) % 256).toNat
     else .error .value) = .ok (if s then 0x80 else 0x7f) := by
  cases s <;> decide +kernel


/-- `mxint_rne`: for EVERY float64 pattern `f`, `mxint2bitstore` returns the nearest-even code of `64·x` (x the exact
    value of `f`) saturated to [−128, 127]; ±inf saturate, NaN → ValueError.  No enumeration: the product `f * 64` is
    exact in the float model (`f64Mul_pow2_exact`) or overflows to ±inf, and `round()` is `rneDiv` on the exact value. -/
theorem mxintEnc_spec (f : Nat) : mxintEnc f = mxintSpecOf (f64Val f) := by
  unfold mxintEnc
  cases hv : f64Val f with
  | nan =>
    have : isNaN64 f = true := (isNaN64_iff' f).2 hv
    rw [this]; rfl
  | inf s =>
    have hn : isNaN64 f = false := by
      cases h : isNaN64 f
      · rfl
      · rw [(isNaN64_iff' f).1 h] at hv; cases hv
    have hg : f64Mul f (f64OfInt 64) = f64Inf s := by
      unfold f64Mul; rw [hv, f64Val_c64]; simp
    simp only [hn, Bool.false_eq_true, if_false, hg]
    exact mxint_tail_inf s
  | fin s m e =>
    have hn : isNaN64 f = false := by
      cases h : isNaN64 f
      · rfl
      · rw [(isNaN64_iff' f).1 h] at hv; cases hv
    simp only [hn, Bool.false_eq_true, if_false, mxintSpecOf]
    by_cases hm : m = 0
    · subst hm
      have hg := f64Mul_zero f (f64OfInt 64) s e 6 hv f64Val_c64
      rw [f64Gt_127 _ s 0 0 hg, f64Le_m128 _ s 0 0 hg]
      unfold f64Round
      rw [hg, mxintCodeSpec_clip]
      have z1 : ∀ E : Int, sgnMant s (dyadicNum 0 E) = 0 := by
        intro E; unfold dyadicNum sgnMant; cases s <;> split <;> simp
      have dpos := dyadicDen_pos (e + 6)
      have d0 : dyadicDen 0 = 1 := rfl
      have r0 : ∀ d : Nat, 0 < d → rneDiv 0 d = 0 := by
        intro d hd; unfold rneDiv; simp
      simp only [z1, d0]
      rw [r0 1 (by decide), r0 _ dpos]
      have c1 : ¬ ((0 : Int) > 127 * ((dyadicDen (e + 6) : Nat) : Int)) := by omega
      have c2 : ¬ ((0 : Int) ≤ -128 * ((dyadicDen (e + 6) : Nat) : Int)) := by omega
      simp [c1, c2]
    · obtain ⟨hodd, h53, he, hr⟩ := f64Val_fin_bounds f s m e hv hm
      by_cases hov : (ilog2 m : Int) + (e + 6) ≤ 1023
      · have hg := f64Mul_pow2_exact f (f64OfInt 64) s m e 6 hv hm f64Val_c64 (by omega) hov
        rw [f64Gt_127 _ s m (e + 6) hg, f64Le_m128 _ s m (e + 6) hg]
        unfold f64Round
        rw [hg, mxintCodeSpec_clip]
        simp only [decide_eq_true_eq]
      · have hg := f64Mul_pow2_overflow f (f64OfInt 64) s m e 6 hv hm f64Val_c64 (by omega) (by omega)
        rw [hg, mxint_tail_inf s, mxintCodeSpec_clip]
        -- the exact value is at least 2^1024, in particular at least 128
        have hL : ilog2 m < 53 := ilog2_lt_of_lt_pow m 53 (by omega) h53
        obtain ⟨a, b⟩ := ilog2_spec m (by omega)
        have hE : e + 6 ≥ 0 := by omega
        have hbig : 2 ^ 7 ≤ dyadicNum m (e + 6) := by
          unfold dyadicNum; rw [if_pos hE]
          obtain ⟨q1, _⟩ := mul_pow_bounds m (ilog2 m) (e + 6).toNat a b
          exact Nat.le_trans (Nat.pow_le_pow_right (by decide) (by omega)) q1
        have hden : dyadicDen (e + 6) = 1 := by unfold dyadicDen; rw [if_pos hE]
        rw [hden]
        have h128 : (2 : Nat) ^ 7 = 128 := by decide
        rw [h128] at hbig
        generalize dyadicNum m (e + 6) = N at *
        clear a b hr hov he hg
        cases s
        · have : sgnMant false N > 127 * ((1 : Nat) : Int) := by simp [sgnMant]; omega
          rw [if_pos this]; rfl
        · have h1 : ¬ (sgnMant true N > 127 * ((1 : Nat) : Int)) := by simp [sgnMant]
          have h2 : sgnMant true N ≤ -128 * ((1 : Nat) : Int) := by simp [sgnMant]; omega
          rw [if_neg h1, if_pos h2]; rfl

end BM.C11
