/- Kernel obligation: `bfChk` (Proofs/C11_NumDefs.lean) on the 16-bit patterns 0x8c00..0x8fff. -/
import BitstringModel.Proofs.C11_NumDefs
namespace BM.C11
theorem bfChunk_35 : bfChunkOk 35 = true := by decide +kernel
end BM.C11
