import BitstringModel.Model.C08
import BitstringModel.Proofs.Basic
import BitstringModel.Proofs.C01
namespace BM.C08
end BM.C08
