import BitstringModel.Model.C08
import BitstringModel.Proofs.Basic
import BitstringModel.Proofs.C01
namespace BM.C08
open BM

/-- Clamped bounds of a step-1 slice with natural-number start/stop. -/
theorem sliceIndices_nat (a b n : Nat) :
    Py.sliceIndices (some (a : Int)) (some (b : Int)) 1 n =
      (((min a n : Nat) : Int), ((min b n : Nat) : Int), 1) := by
  have h1 : ¬ ((a : Int) < 0) := by omega
  have h2 : ¬ ((b : Int) < 0) := by omega
  have h3 : ¬ ((1 : Int) < 0) := by omega
  simp only [Py.sliceIndices, h1, h2, h3, if_false]
  congr 1
  · omega
  · congr 1; omega

/-- A step-1 slice with non-negative bounds is `drop`/`take`, whatever the bounds (Python clamps). -/
theorem getSlice_nat {α} (l : List α) (a b : Nat) :
    Py.getSlice l (some (a : Int)) (some (b : Int)) none = .ok ((l.drop a).take (b - a)) := by
  rw [C01.getSlice_step1, sliceIndices_nat]
  simp only [Int.toNat_natCast]
  congr 1
  by_cases ha : a ≤ l.length
  · rw [Nat.min_eq_left ha]
    rw [List.take_eq_take_iff]
    simp only [List.length_drop]
    omega
  · rw [List.drop_eq_nil_of_le (by omega), List.drop_eq_nil_of_le (by omega)]
    simp

/-- `l[a:]` for a natural-number start. -/
theorem getSlice_nat_none {α} (l : List α) (a : Nat) :
    Py.getSlice l (some (a : Int)) none none = .ok (l.drop a) := by
  rw [C01.getSlice_step1]
  have h1 : ¬ ((a : Int) < 0) := by omega
  have h3 : ¬ ((1 : Int) < 0) := by omega
  have h : Py.sliceIndices (some (a : Int)) none 1 l.length =
      (((min a l.length : Nat) : Int), (l.length : Int), 1) := by
    simp only [Py.sliceIndices, h1, h3, if_false]
    congr 1
    omega
  rw [h]
  congr 1
  by_cases ha : a ≤ l.length
  · rw [Nat.min_eq_left ha]
    simp only [Int.toNat_natCast]
    rw [List.take_of_length_le (by simp only [List.length_drop]; omega)]
  · rw [List.drop_eq_nil_of_le (by simp; omega), List.drop_eq_nil_of_le (by omega)]
    simp

theorem sliceIndices_bounds4 (s e : Option Int) (n : Nat) :
    0 ≤ (Py.sliceIndices s e 1 n).1 ∧ (Py.sliceIndices s e 1 n).1 ≤ n ∧
    0 ≤ (Py.sliceIndices s e 1 n).2.1 ∧ (Py.sliceIndices s e 1 n).2.1 ≤ n := by
  have h3 : ¬ ((1 : Int) < 0) := by omega
  unfold Py.sliceIndices
  cases s <;> cases e <;> simp only [h3, if_false] <;> (try split) <;> (try split) <;> omega

theorem sliceIndices_inrange (p q : Int) (n : Nat) (hp0 : 0 ≤ p) (hp : p ≤ n) (hq0 : 0 ≤ q) (hq : q ≤ n) :
    Py.sliceIndices (some p) (some q) 1 n = (p, q, 1) := by
  have h1 : ¬ (p < 0) := by omega
  have h2 : ¬ (q < 0) := by omega
  have h3 : ¬ ((1 : Int) < 0) := by omega
  simp only [Py.sliceIndices, h1, h2, h3, if_false]
  congr 1
  · omega
  · congr 1; omega

/-- Normalising a step-1 key against the length is idempotent. -/
theorem sliceIndices_idem (s e : Option Int) (n : Nat) :
    Py.sliceIndices (some (Py.sliceIndices s e 1 n).1) (some (Py.sliceIndices s e 1 n).2.1) 1 n =
      ((Py.sliceIndices s e 1 n).1, (Py.sliceIndices s e 1 n).2.1, 1) := by
  obtain ⟨h1, h2, h3, h4⟩ := sliceIndices_bounds4 s e n
  exact sliceIndices_inrange _ _ n h1 h2 h3 h4

theorem getSlice_normalised {α} (l : List α) (s e : Option Int) :
    Py.getSlice l (some (Py.sliceIndices s e 1 l.length).1) (some (Py.sliceIndices s e 1 l.length).2.1) none =
      Py.getSlice l s e none := by
  rw [C01.getSlice_step1, C01.getSlice_step1, sliceIndices_idem]

theorem window_eq (data : List Bool) (off len : Nat) : window data off len = (data.drop off).take len := rfl

/-- The BytesIO byte-window-then-bit-slice computation, in list form. -/
theorem bytesIO_collapse {α} (data : List α) (off len : Nat) (B : Nat) (hB : off + len ≤ B) :
    (((data.drop (off / 8 * 8)).take (B - off / 8 * 8)).drop (off % 8)).take (off % 8 + len - off % 8) =
      (data.drop off).take len := by
  rw [List.drop_take, List.drop_drop, List.take_take]
  have h1 : off / 8 * 8 + off % 8 = off := by omega
  rw [h1]
  congr 1
  omega

end BM.C08
