/-
  Proofs/C11_NumAll.lean — assembles the 16 kernel obligations `bfChunk_<kk>` into statements about every 16-bit pattern.
-/
import BitstringModel.Proofs.C11
import BitstringModel.Proofs.C11_Bf_00
import BitstringModel.Proofs.C11_Bf_01
import BitstringModel.Proofs.C11_Bf_02
import BitstringModel.Proofs.C11_Bf_03
import BitstringModel.Proofs.C11_Bf_04
import BitstringModel.Proofs.C11_Bf_05
import BitstringModel.Proofs.C11_Bf_06
import BitstringModel.Proofs.C11_Bf_07
import BitstringModel.Proofs.C11_Bf_08
import BitstringModel.Proofs.C11_Bf_09
import BitstringModel.Proofs.C11_Bf_10
import BitstringModel.Proofs.C11_Bf_11
import BitstringModel.Proofs.C11_Bf_12
import BitstringModel.Proofs.C11_Bf_13
import BitstringModel.Proofs.C11_Bf_14
import BitstringModel.Proofs.C11_Bf_15

namespace BM.C11
open BM

theorem bfChk_all (c : Nat) (hc : c < 65536) : bfChk c = true := by
  have key : ∀ k, k < 16 → bfChunkOk k = true := fun k hk =>
    match k, hk with
    | 0, _ => bfChunk_00
    | 1, _ => bfChunk_01
    | 2, _ => bfChunk_02
    | 3, _ => bfChunk_03
    | 4, _ => bfChunk_04
    | 5, _ => bfChunk_05
    | 6, _ => bfChunk_06
    | 7, _ => bfChunk_07
    | 8, _ => bfChunk_08
    | 9, _ => bfChunk_09
    | 10, _ => bfChunk_10
    | 11, _ => bfChunk_11
    | 12, _ => bfChunk_12
    | 13, _ => bfChunk_13
    | 14, _ => bfChunk_14
    | 15, _ => bfChunk_15
    | k + 16, hk => absurd hk (by omega)
  have := allBelow_spec (key (c / 4096) (by omega)) (c % 4096) (by omega)
  have e : 4096 * (c / 4096) + c % 4096 = c := by omega
  rwa [e] at this

theorem bfChk_spec {c : Nat} (h : bfChk c = true) :
    f64Val (bfloatDec true c) = f32Val (c * 65536) ∧ halfVal c = (halfClass c).toFVal ∧
    f64Val (unpackIEEE 5 10 c) = halfVal c := by
  unfold bfChk at h
  simp only [Bool.and_eq_true, beq_iff_eq] at h
  exact ⟨h.1.1, h.1.2, h.2⟩

end BM.C11
