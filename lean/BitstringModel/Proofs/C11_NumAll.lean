/-
  Proofs/C11_NumAll.lean — assembles the 64 kernel obligations `bfChunk_<kk>` into statements about every 16-bit pattern.
-/
import BitstringModel.Proofs.C11
import BitstringModel.Proofs.C11_Bf_00
import BitstringModel.Proofs.C11_Bf_01
import BitstringModel.Proofs.C11_Bf_02
import BitstringModel.Proofs.C11_Bf_03
import BitstringModel.Proofs.C11_Bf_04
import BitstringModel.Proofs.C11_Bf_05
import BitstringModel.Proofs.C11_Bf_06
import BitstringModel.Proofs.C11_Bf_07
import BitstringModel.Proofs.C11_Bf_08
import BitstringModel.Proofs.C11_Bf_09
import BitstringModel.Proofs.C11_Bf_10
import BitstringModel.Proofs.C11_Bf_11
import BitstringModel.Proofs.C11_Bf_12
import BitstringModel.Proofs.C11_Bf_13
import BitstringModel.Proofs.C11_Bf_14
import BitstringModel.Proofs.C11_Bf_15
import BitstringModel.Proofs.C11_Bf_16
import BitstringModel.Proofs.C11_Bf_17
import BitstringModel.Proofs.C11_Bf_18
import BitstringModel.Proofs.C11_Bf_19
import BitstringModel.Proofs.C11_Bf_20
import BitstringModel.Proofs.C11_Bf_21
import BitstringModel.Proofs.C11_Bf_22
import BitstringModel.Proofs.C11_Bf_23
import BitstringModel.Proofs.C11_Bf_24
import BitstringModel.Proofs.C11_Bf_25
import BitstringModel.Proofs.C11_Bf_26
import BitstringModel.Proofs.C11_Bf_27
import BitstringModel.Proofs.C11_Bf_28
import BitstringModel.Proofs.C11_Bf_29
import BitstringModel.Proofs.C11_Bf_30
import BitstringModel.Proofs.C11_Bf_31
import BitstringModel.Proofs.C11_Bf_32
import BitstringModel.Proofs.C11_Bf_33
import BitstringModel.Proofs.C11_Bf_34
import BitstringModel.Proofs.C11_Bf_35
import BitstringModel.Proofs.C11_Bf_36
import BitstringModel.Proofs.C11_Bf_37
import BitstringModel.Proofs.C11_Bf_38
import BitstringModel.Proofs.C11_Bf_39
import BitstringModel.Proofs.C11_Bf_40
import BitstringModel.Proofs.C11_Bf_41
import BitstringModel.Proofs.C11_Bf_42
import BitstringModel.Proofs.C11_Bf_43
import BitstringModel.Proofs.C11_Bf_44
import BitstringModel.Proofs.C11_Bf_45
import BitstringModel.Proofs.C11_Bf_46
import BitstringModel.Proofs.C11_Bf_47
import BitstringModel.Proofs.C11_Bf_48
import BitstringModel.Proofs.C11_Bf_49
import BitstringModel.Proofs.C11_Bf_50
import BitstringModel.Proofs.C11_Bf_51
import BitstringModel.Proofs.C11_Bf_52
import BitstringModel.Proofs.C11_Bf_53
import BitstringModel.Proofs.C11_Bf_54
import BitstringModel.Proofs.C11_Bf_55
import BitstringModel.Proofs.C11_Bf_56
import BitstringModel.Proofs.C11_Bf_57
import BitstringModel.Proofs.C11_Bf_58
import BitstringModel.Proofs.C11_Bf_59
import BitstringModel.Proofs.C11_Bf_60
import BitstringModel.Proofs.C11_Bf_61
import BitstringModel.Proofs.C11_Bf_62
import BitstringModel.Proofs.C11_Bf_63

namespace BM.C11
open BM

theorem bfChk_all (c : Nat) (hc : c < 65536) : bfChk c = true := by
  have key : ∀ k, k < 64 → bfChunkOk k = true := fun k hk =>
    match k, hk with
    | 0, _ => bfChunk_00
    | 1, _ => bfChunk_01
    | 2, _ => bfChunk_02
    | 3, _ => bfChunk_03
    | 4, _ => bfChunk_04
    | 5, _ => bfChunk_05
    | 6, _ => bfChunk_06
    | 7, _ => bfChunk_07
    | 8, _ => bfChunk_08
    | 9, _ => bfChunk_09
    | 10, _ => bfChunk_10
    | 11, _ => bfChunk_11
    | 12, _ => bfChunk_12
    | 13, _ => bfChunk_13
    | 14, _ => bfChunk_14
    | 15, _ => bfChunk_15
    | 16, _ => bfChunk_16
    | 17, _ => bfChunk_17
    | 18, _ => bfChunk_18
    | 19, _ => bfChunk_19
    | 20, _ => bfChunk_20
    | 21, _ => bfChunk_21
    | 22, _ => bfChunk_22
    | 23, _ => bfChunk_23
    | 24, _ => bfChunk_24
    | 25, _ => bfChunk_25
    | 26, _ => bfChunk_26
    | 27, _ => bfChunk_27
    | 28, _ => bfChunk_28
    | 29, _ => bfChunk_29
    | 30, _ => bfChunk_30
    | 31, _ => bfChunk_31
    | 32, _ => bfChunk_32
    | 33, _ => bfChunk_33
    | 34, _ => bfChunk_34
    | 35, _ => bfChunk_35
    | 36, _ => bfChunk_36
    | 37, _ => bfChunk_37
    | 38, _ => bfChunk_38
    | 39, _ => bfChunk_39
    | 40, _ => bfChunk_40
    | 41, _ => bfChunk_41
    | 42, _ => bfChunk_42
    | 43, _ => bfChunk_43
    | 44, _ => bfChunk_44
    | 45, _ => bfChunk_45
    | 46, _ => bfChunk_46
    | 47, _ => bfChunk_47
    | 48, _ => bfChunk_48
    | 49, _ => bfChunk_49
    | 50, _ => bfChunk_50
    | 51, _ => bfChunk_51
    | 52, _ => bfChunk_52
    | 53, _ => bfChunk_53
    | 54, _ => bfChunk_54
    | 55, _ => bfChunk_55
    | 56, _ => bfChunk_56
    | 57, _ => bfChunk_57
    | 58, _ => bfChunk_58
    | 59, _ => bfChunk_59
    | 60, _ => bfChunk_60
    | 61, _ => bfChunk_61
    | 62, _ => bfChunk_62
    | 63, _ => bfChunk_63
    | k + 64, hk => absurd hk (by omega)
  have := allBelow_spec (key (c / 1024) (by omega)) (c % 1024) (by omega)
  have e : 1024 * (c / 1024) + c % 1024 = c := by omega
  rwa [e] at this

theorem bfChk_spec {c : Nat} (h : bfChk c = true) :
    f64Val (bfloatDec true c) = f32Val (c * 65536) ∧ halfVal c = (halfClass c).toFVal ∧
    f64Val (unpackIEEE 5 10 c) = halfVal c := by
  unfold bfChk at h
  simp only [Bool.and_eq_true, beq_iff_eq] at h
  exact ⟨h.1.1, h.1.2, h.2⟩

end BM.C11
