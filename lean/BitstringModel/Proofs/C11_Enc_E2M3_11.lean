/- Kernel obligation: entries 0xb000..0xbfff of the live float16->code table `Gen.encE2M3` pass `encChk`
   (one sixteenth of the table per file so that lake checks them in parallel; assembled in Proofs/C11_Tables.lean). -/
import BitstringModel.Model.C11
namespace BM.C11
theorem encChunk_E2M3_11 : encChunkOk .e2m3 11 = true := by decide +kernel
end BM.C11
