/- Kernel obligation: `bfChk` (Proofs/C11_NumDefs.lean) on the 16-bit patterns 0x2800..0x2bff. -/
import BitstringModel.Proofs.C11_NumDefs
namespace BM.C11
theorem bfChunk_10 : bfChunkOk 10 = true := by decide +kernel
end BM.C11
