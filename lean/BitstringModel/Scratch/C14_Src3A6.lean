/-
  Props/C14_Src3.lean — tie between C14's hand-written ALG transcription of `Array.reverse` (the swap loop) and the
  CURRENT source text (a translated `for` loop).

  `Gen.SrcA6.array_reverse itemsize len_data` is regenerated on every run by harness/translate.py from `Array.reverse`
  (bitstring/array_.py): `itemsize` is `self._dtype.bitlength`, `len_data` is `len(self.data)` (read several times by the
  source; the translator treats it as one value — the theorem below JUSTIFIES that: under the meaning, every recorded
  swap keeps the length, and the model, which re-reads `acc.length` in every iteration, agrees).  The trailing-bits
  test (`%` is the raising `Py.fmodE`), the `range` and the index arithmetic are translated, the three slice effects of
  each iteration (`L1 = self.data[_:_]`, `self.data[_:_] = self.data[_:_]`, `self.data[_:_] = L1`) are recorded.
  `revPre` FOLDS a recorded trace over the data bits with C14's own `bslice` / `bsetSlice`; `array_reverse_eq` states
  that, for every codec with `0 < c.w` and EVERY data buffer, the result IS `C14.reverse c d`.

  `0 < c.w` is a hypothesis because `Codec` does not carry it, and it is needed: for `w = 0` the source raises
  ZeroDivisionError where the model's `d.length % 0 ≠ 0` reads as ValueError.  An Array's dtype never has bit length 0
  (`_set_dtype` refuses it: `Codec.valid`), so `C14.reverse` is only ever used under it.
-/
import BitstringModel.Model.C14
import BitstringModel.Proofs.C14
import BitstringModel.Variants.SrcA6
namespace BM.C14.SrcA63
open BM BM.C14

/-! ### shape-agnostic proof vocabulary -/

/-- Bool guards → propositions (goal and hypotheses), then decide every `if` from the context by `omega`. -/
macro "run_guards" : tactic => `(tactic| (
  try simp only [Bool.not_eq_true', Bool.not_eq_true, Bool.and_eq_true, Bool.or_eq_true, decide_eq_true_eq,
    decide_eq_false_iff_not, Bool.not_eq_false', Bool.not_eq_false, Bool.and_eq_false_iff, Bool.or_eq_false_iff,
    ne_eq, Bool.not_not, ge_iff_le, gt_iff_lt] at *
  try (simp (disch := omega) only [if_pos, if_neg] at *)))

/-- Peel one `bind` off an equation `x.bind f = r` without naming `x`. -/
theorem bind_eq_elim {ε α β : Type} {x : Except ε α} {f : α → Except ε β} {r : Except ε β} {P : Prop}
    (h : x.bind f = r) (herr : ∀ e, x = .error e → r = .error e → P) (hok : ∀ a, x = .ok a → f a = r → P) : P := by
  cases x with
  | error e => exact herr e rfl h.symm
  | ok a => exact hok a rfl h

/-! ### the model side -/

/-- One iteration of the swap loop of `C14.reverse` (its `foldl` body) for item width `w`. -/
def revStep (w : Nat) (acc : Bits) (sb : Int) : Bits :=
  let sw : Int := (acc.length : Int) - sb - w
  let temp := bslice acc (some sb) (some (sb + w))
  let acc1 := bsetSlice acc sb (sb + w) (bslice acc (some sw) (some (sw + w)))
  bsetSlice acc1 sw (sw + w) temp

theorem reverse_eq {V : Type} (c : Codec V) (d : Bits) :
    reverse c d = if d.length % c.w ≠ 0 then ⟨d, .error .value⟩ else
      ⟨(Py.rangeList 0 ((d.length / 2 : Nat) : Int) c.w).foldl (revStep c.w) d, .ok ()⟩ := rfl

/-- A swap of two in-range `w`-bit items keeps the length. -/
theorem revStep_length (w n sb : Nat) (acc : Bits) (hlen : acc.length = n) (h : sb + w ≤ n) :
    (revStep w acc (sb : Int)).length = n := by
  unfold revStep
  simp only [hlen]
  have e1 : ((sb : Int) + (w : Int)) = ((sb + w : Nat) : Int) := by omega
  have e2 : ((n : Int) - (sb : Int) - (w : Int)) = ((n - sb - w : Nat) : Int) := by omega
  have e3 : (((n - sb - w : Nat) : Int) + (w : Int)) = ((n - sb - w + w : Nat) : Int) := by omega
  rw [e1, e2, e3]
  rw [bslice_nat acc sb (sb + w) (by omega) (by omega), bslice_nat acc (n - sb - w) (n - sb - w + w) (by omega) (by omega)]
  rw [bsetSlice_nat acc _ sb (sb + w) (by omega) (by omega) (by omega)]
  have hl1 : (acc.take sb ++ (acc.drop (n - sb - w)).take (n - sb - w + w - (n - sb - w)) ++ acc.drop (sb + w)).length = n := by
    simp only [List.length_append, List.length_take, List.length_drop]; omega
  rw [bsetSlice_nat _ _ (n - sb - w) (n - sb - w + w) (by omega) (by omega) (by omega)]
  simp only [List.length_append, List.length_take, List.length_drop, hl1]
  omega

/-! ### the meaning -/

/-- One recorded effect on the state (the data bits, the local `L1`), with C14's slice primitives (Python slice
    semantics on the CURRENT data):
    `L1 = self.data[a:b]`, `self.data[a:b] = self.data[c:d]`, `self.data[a:b] = L1`. -/
def revAct : Bits × Option Bits → Py.Act → Option (Bits × Option Bits)
  | (data, _), ⟨"L1 = self.data[_:_]", [some a, some b]⟩ => some (data, some (bslice data (some a) (some b)))
  | (data, t), ⟨"self.data[_:_] = self.data[_:_]", [some a, some b, some c, some d]⟩ =>
      some (bsetSlice data a b (bslice data (some c) (some d)), t)
  | (data, some t), ⟨"self.data[_:_] = L1", [some a, some b]⟩ => some (bsetSlice data a b t, some t)
  | _, _ => none

/-- The recorded effects, folded over the state. -/
def revPre : Bits × Option Bits → List Py.Act → Option (Bits × Option Bits)
  | s, [] => some s
  | s, a :: rest => (revAct s a).bind fun s' => revPre s' rest

/-- Outcome of the translated method on the data `d`: an exception leaves the data alone; otherwise the data after all
    recorded effects (the model's `Step`). -/
def revMeaning (d : Bits) : Except Err (List Py.Act) → Option (Step Unit)
  | .error e => some ⟨d, .error e⟩
  | .ok tr => (revPre (d, none) tr).map fun s => ⟨s.1, .ok ()⟩

theorem revPre_append (s0 : Bits × Option Bits) (p q : List Py.Act) :
    revPre s0 (p ++ q) = (revPre s0 p).bind fun s => revPre s q := by
  induction p generalizing s0 with
  | nil => simp [revPre]
  | cons a p ih =>
    simp only [List.cons_append, revPre]
    cases revAct s0 a with
    | none => simp
    | some s => simp [ih]

theorem revAct_get (data : Bits) (t : Option Bits) (a b : Int) :
    revAct (data, t) ⟨"L1 = self.data[_:_]", [some a, some b]⟩ = some (data, some (bslice data (some a) (some b))) := by
  simp [revAct]

theorem revAct_copy (data : Bits) (t : Option Bits) (a b c d : Int) :
    revAct (data, t) ⟨"self.data[_:_] = self.data[_:_]", [some a, some b, some c, some d]⟩
      = some (bsetSlice data a b (bslice data (some c) (some d)), t) := by
  simp [revAct]

theorem revAct_put (data t : Bits) (a b : Int) :
    revAct (data, some t) ⟨"self.data[_:_] = L1", [some a, some b]⟩ = some (bsetSlice data a b t, some t) := by
  simp [revAct]

/-- The three effects of one iteration, appended to a trace that folds to `(acc, t)`: the recorded bounds are related
    to the model's (`sb`, `sb + w`, `sw = n - sb - w`, `sw + w`) by hypotheses. -/
theorem revPre_snoc3 (s0 : Bits × Option Bits) (tr : List Py.Act) (acc : Bits) (t : Option Bits)
    (x1 x2 x3 x4 x5 x6 x7 x8 sbi : Int) (w n : Nat)
    (hrun : revPre s0 tr = some (acc, t)) (hlen : acc.length = n)
    (h1 : x1 = sbi) (h2 : x2 = sbi + w) (h3 : x3 = sbi) (h4 : x4 = sbi + w)
    (h5 : x5 = (n : Int) - sbi - w) (h6 : x6 = (n : Int) - sbi - w + w)
    (h7 : x7 = (n : Int) - sbi - w) (h8 : x8 = (n : Int) - sbi - w + w) :
    revPre s0 (tr ++ [⟨"L1 = self.data[_:_]", [some x1, some x2]⟩,
        ⟨"self.data[_:_] = self.data[_:_]", [some x3, some x4, some x5, some x6]⟩,
        ⟨"self.data[_:_] = L1", [some x7, some x8]⟩])
      = some (revStep w acc sbi, some (bslice acc (some sbi) (some (sbi + w)))) := by
  subst h1 h2 h3 h4 h5 h6 h7 h8
  rw [revPre_append, hrun]
  simp only [Option.bind_some, revPre, revAct_get, revAct_copy, revAct_put, revStep, hlen]

/-! ### the loop -/

/-- The translated `for start_bit in range(…)` against the model's `foldl`, by induction on the remaining start bits,
    all of which are in range (`sb + w ≤ n`); invariant: the data reached has length `n`. -/
theorem loop_inv (s0 : Bits × Option Bits) (wi ni p3 : Int) (w n : Nat) (hw : wi = (w : Int)) (hn : ni = (n : Int))
    (it : List Int) :
    ∀ (acc : Bits) (t : Option Bits) (tr : List Py.Act) (r : Except Err (List Py.Act)),
      (∀ x ∈ it, ∃ sb : Nat, x = (sb : Int) ∧ sb + w ≤ n) → acc.length = n → revPre s0 tr = some (acc, t) →
      Gen.SrcA6.array_reverse.loop1 wi ni p3 it tr = r →
      ∃ (tr' : List Py.Act) (t' : Option Bits), r = .ok tr' ∧ revPre s0 tr' = some (it.foldl (revStep w) acc, t') := by
  induction it with
  | nil =>
    intro acc t tr r _ _ hrun hr
    rw [Gen.SrcA6.array_reverse.loop1] at hr
    exact ⟨tr, t, hr.symm, hrun⟩
  | cons x xs ih =>
    intro acc t tr r hmem hlen hrun hr
    rw [Gen.SrcA6.array_reverse.loop1] at hr
    obtain ⟨sb, hx, hsb⟩ := hmem x (by simp)
    simp only [List.append_assoc, List.cons_append, List.nil_append] at hr
    simp only [List.foldl_cons]
    refine ih _ (some (bslice acc (some x) (some (x + (w : Int))))) _ r (fun y hy => hmem y (by simp [hy])) ?_ ?_ hr
    · rw [hx]; exact revStep_length w n sb acc hlen hsb
    · exact revPre_snoc3 s0 tr acc t _ _ _ _ _ _ _ _ x w n hrun hlen
        (by omega) (by omega) (by omega) (by omega) (by omega) (by omega) (by omega) (by omega)

/-- Every start bit of `range(0, n // 2, w)` is a natural number `sb` with `sb + w ≤ n`, when `w` divides `n`. -/
theorem range_mem (n w : Nat) (hw : 0 < w) (hdiv : n % w = 0) :
    ∀ x ∈ Py.rangeList 0 ((n / 2 : Nat) : Int) (w : Int), ∃ sb : Nat, x = (sb : Int) ∧ sb + w ≤ n := by
  intro x hx
  unfold Py.rangeList at hx
  simp only [List.mem_map, List.mem_range] at hx
  obtain ⟨k, hk, rfl⟩ := hx
  have hb := C01.rangeLen_pos_bounds 0 ((n / 2 : Nat) : Int) (w : Int) (by omega) k hk
  refine ⟨k * w, by push_cast; omega, ?_⟩
  have h2 : k * w < n := by
    have : ((k * w : Nat) : Int) < ((n / 2 : Nat) : Int) := by push_cast; omega
    omega
  have hd1 : w ∣ n := Nat.dvd_of_mod_eq_zero hdiv
  have hd2 : w ∣ n - k * w := Nat.dvd_sub hd1 (Nat.dvd_mul_left w k)
  have := Nat.le_of_dvd (by omega) hd2
  omega

theorem fmodE_cast (A B q : Int) (n w : Nat) (hw : 0 < w) (h : Py.fmodE A B = .ok q) (hA : A = (n : Int))
    (hB : B = (w : Int)) : q = ((n % w : Nat) : Int) := by
  subst hA hB
  unfold Py.fmodE at h
  rw [if_neg (by omega)] at h
  rw [Int.fmod_eq_emod_of_nonneg _ (by omega)] at h
  cases h
  rfl

theorem fmodE_ne_error (A B : Int) (w : Nat) (hw : 0 < w) (e : Err) (h : Py.fmodE A B = .error e) (hB : B = (w : Int)) :
    False := by
  subst hB
  unfold Py.fmodE at h
  rw [if_neg (by omega)] at h
  cases h

theorem rangeE_cast (A B T A' B' T' : Int) (it : List Int) (h : Py.rangeE A B T = .ok it) (hA : A = A') (hB : B = B')
    (hT : T = T') : it = Py.rangeList A' B' T' := by
  subst hA hB hT
  unfold Py.rangeE at h
  split at h <;> cases h
  rfl

/-- `Array.reverse()` as the source has it now, its recorded slice swaps folded over the data, = `C14.reverse c d`: for
    every codec with a non-zero item width (see the header) and every data buffer — ValueError, data untouched, when
    the data is not a whole number of items; otherwise the swap loop. -/
theorem array_reverse_eq {V : Type} (c : Codec V) (hw : 0 < c.w) (d : Bits) :
    revMeaning d (Gen.SrcA6.array_reverse ((c.w : Nat) : Int) ((d.length : Nat) : Int)) = some (reverse c d) := by
  rw [reverse_eq]
  generalize hmain : Gen.SrcA6.array_reverse _ _ = r0
  unfold Gen.SrcA6.array_reverse at hmain
  simp only [] at hmain
  generalize c.w = w at hw hmain ⊢
  refine bind_eq_elim hmain ?_ ?_
  · intro e hx _
    exact (fmodE_ne_error _ _ w hw e hx (by omega)).elim
  · intro q hx hmain1
    have hq := fmodE_cast _ _ q d.length w hw hx (by omega) (by omega)
    subst hq
    by_cases hdiv : d.length % w = 0
    · run_guards
      simp (disch := omega) only [Int.fdiv_eq_ediv_of_nonneg] at hmain1
      refine bind_eq_elim hmain1 ?_ ?_
      · intro e hx2 _
        unfold Py.rangeE at hx2
        run_guards
        cases hx2
      · intro it hx2 hmain2
        have hit := rangeE_cast _ _ _ 0 ((d.length / 2 : Nat) : Int) (w : Int) it hx2 (by omega) (by omega) (by omega)
        subst hit
        refine bind_eq_elim hmain2 ?_ ?_
        · intro e hx3 _
          obtain ⟨_, _, h1, _⟩ := loop_inv (d, none) _ _ _ w d.length (by omega) (by omega) _ d none _ _
            (range_mem d.length w hw hdiv) rfl (by simp [revPre]) hx3
          cases h1
        · intro tr hx3 hr
          obtain ⟨tr', t', h1, h2⟩ := loop_inv (d, none) _ _ _ w d.length (by omega) (by omega) _ d none _ _
            (range_mem d.length w hw hdiv) rfl (by simp [revPre]) hx3
          cases h1
          subst hr
          simp [revMeaning, h2]
    · run_guards
      subst hmain1
      simp [revMeaning]

/-! ### non-vacuity -/

/-- Reversing the `uint2` Array `[0, 1, 2, 3]` (data `00 01 10 11`): two iterations, six effects, data `11 10 01 00`. -/
example :
    (revMeaning [false, false, false, true, true, false, true, true] (Gen.SrcA6.array_reverse 2 8)).map
      (fun s => (s.data, s.res))
      = some ([true, true, true, false, false, true, false, false], .ok ()) := by
  rfl

/-- Trailing bits: ValueError, data unchanged. -/
example : (revMeaning [true, false, true] (Gen.SrcA6.array_reverse 2 3)).map (fun s => (s.data, s.res))
    = some ([true, false, true], .error .value) := by
  rfl

end BM.C14.SrcA63
