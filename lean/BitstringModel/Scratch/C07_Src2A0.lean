/-
  Props/C07_Src2.lean — tie between C07's hand-written ALG transcriptions of `Bits.find` / `Bits.rfind` and the CURRENT
  source text (second batch; `_validate_slice` itself is tied in Props/C07_Src.lean).

  `Gen.SrcA0.find` / `Gen.SrcA0.rfind` are regenerated from /repo on every run by harness/translate.py (trace mode): the
  guards, the range validation (the translated `_validate_slice` is called) and the `bytealigned` default are translated;
  the call of the search primitive is recorded as the effect `L1 = self._find(bs, _, _, _b)` (resp. `_rfind`) with the
  values of the two bounds and of the Boolean hole (1 / 0).  `findMeaning` / `rfindMeaning` give that effect the meaning
  the C07 model gives it — `storeFind data pat a b aligned` (resp. `storeRfind`), the functions `C07.find` / `C07.rfind`
  call — and the theorems state that for EVERY data, pattern, pair of Optional bounds, Optional `bytealigned` and value of
  `bitstring.options.bytealigned` the translated function under that meaning IS `C07.find` / `C07.rfind`, error cases
  included.  About the ORDER of the checks: `find` refuses an empty pattern before it validates the range, `rfind`
  validates first, and the translation and the model agree on that order function by function (visible in
  Gen/Src.lean and Model/C07.lean); but both checks raise ValueError, so as `Except` values either order gives the same
  result — the theorems hold whatever the order is, and a swap of the two checks in the source is (rightly) not a
  difference they could or should detect.
  Parameters of the translation: `self_len = data.length`, `len_bs = pat.length`, `opt_bytealigned = optBA`.
-/
import BitstringModel.Model.C07
import BitstringModel.Variants.SrcA0
namespace BM.C07.SrcA02
open BM BM.C07

/-- A recorded Boolean hole `_b`: 1 = True, 0 = False, anything else is not a Boolean. -/
def holeBool : Int → Option Bool
  | 1 => some true
  | 0 => some false
  | _ => none

/-- Meaning of the effects recorded for `Bits.find`: the conversion of the argument (the pattern is already a bit list
    here), `self._find(bs, start, end, bytealigned)` = `storeFind` as `C07.find` uses it, the result returned. -/
def findMeaning (data pat : Bits) : List Py.Act → Option (Option Nat)
  | [⟨"bs = Bits._create_from_bitstype(bs)", []⟩, ⟨"L1 = self._find(bs, _, _, _b)", [some a, some b, some ba]⟩,
     ⟨"return L1", []⟩] => (holeBool ba).map fun al => storeFind data pat a.toNat b.toNat al
  | _ => none

/-- Meaning of the effects recorded for `Bits.rfind`: `self._rfind(bs, start, end, bytealigned)` = `storeRfind`. -/
def rfindMeaning (data pat : Bits) : List Py.Act → Option (Option Nat)
  | [⟨"bs = Bits._create_from_bitstype(bs)", []⟩, ⟨"L1 = self._rfind(bs, _, _, _b)", [some a, some b, some ba]⟩,
     ⟨"return L1", []⟩] => (holeBool ba).map fun al => storeRfind data pat a.toNat b.toNat al
  | _ => none

/-- Shape-agnostic closing tactic (the same script must survive harmless rewrites of the Python source, see
    harness/src_regress.sh): turn the Boolean tests into propositions, split every `if` / `match` on both sides, then on
    every leaf evaluate the meaning function on the now concrete trace and close by linear arithmetic, by simplification
    with the case hypotheses, or by `grind`. -/
macro "src_auto" : tactic => `(tactic| (
  try simp only [Int.min_def, Nat.min_def, Int.max_def, Nat.max_def]
  try simp only [decide_eq_true_eq, decide_eq_false_iff_not, Bool.not_eq_true', Bool.not_eq_false', Bool.and_eq_true,
    Bool.or_eq_true, Bool.and_eq_false_imp, Bool.or_eq_false_iff, ne_eq, Decidable.not_not]
  repeat' split
  all_goals (first
    | omega
    | (simp_all [Except.map, Except.bind, findMeaning, rfindMeaning, holeBool, defaultBA] <;> first | omega | grind)
    | grind [Except.map, Except.bind, findMeaning, rfindMeaning, holeBool, defaultBA])))

/-- `Bits.find` as the source has it now = `C07.find`, for every data, pattern, Optional bounds, Optional `bytealigned`
    and option value. -/
theorem find_eq (data pat : Bits) (start stop : Option Int) (ba : Option Bool) (optBA : Bool) :
    (Gen.SrcA0.find (data.length : Int) start stop ba optBA (pat.length : Int)).map (findMeaning data pat)
      = (find data pat start stop ba optBA).map some := by
  unfold Gen.SrcA0.find Gen.SrcA0.validate_slice find validateSlice
  cases start <;> cases stop <;> cases ba <;> src_auto

/-- `Bits.rfind` as the source has it now = `C07.rfind`. -/
theorem rfind_eq (data pat : Bits) (start stop : Option Int) (ba : Option Bool) (optBA : Bool) :
    (Gen.SrcA0.rfind (data.length : Int) start stop ba optBA (pat.length : Int)).map (rfindMeaning data pat)
      = (rfind data pat start stop ba optBA).map some := by
  unfold Gen.SrcA0.rfind Gen.SrcA0.validate_slice rfind validateSlice
  cases start <;> cases stop <;> cases ba <;> src_auto

/-- Non-vacuity: a byte-aligned search of `0b1` in a 16-bit value from bit 3 really reaches the primitive … -/
example : (Gen.SrcA0.find 16 (some 3) none (some true) false 1).map
      (findMeaning (List.replicate 8 false ++ List.replicate 8 true) [true]) = .ok (some (some 8)) := by
  rfl

/-- … as does a backward search with the `bytealigned` default taken from the option; an empty pattern is the
    ValueError. -/
example : (Gen.SrcA0.rfind 16 none (some (-2)) none false 1).map
      (rfindMeaning (List.replicate 8 false ++ List.replicate 8 true) [true]) = .ok (some (some 13)) := by
  rfl
example : Gen.SrcA0.find 16 none none none false 0 = .error .value := by rfl

end BM.C07.SrcA02
