/-
  Props/C06_Src2.lean — tie between C06's hand-written ALG transcriptions of the BitStream mutators `insert`,
  `overwrite`, `append`, `prepend` and the CURRENT source text (second batch).

  `Gen.SrcV5.bs_insert` / `bs_overwrite` / `bs_append` / `bs_prepend` are regenerated from /repo on every run by
  harness/translate.py (trace mode): guards and position arithmetic are translated, every effect on an object is
  recorded as a `Py.Act`; the write `self._pos = …` is recorded as the effect "self._pos = _" with the value written.
  Below, `act` gives each recorded effect the meaning the C06 model gives to the primitive it names, as a step on the
  pair (stream, current value of the local `bs`):
      bs = Bits._create_from_bitstype(bs)   the argument becomes a bitstring: it already is a bit list here
      bs = self._copy()                      `bs is self`: a copy of the receiver, `bs := self.bits`
      self._insert(bs, p)                    bits := bits[:p] ++ bs ++ bits[p:]                    (C06.insertAt)
      self._overwrite(bs, p)                 bits := bits[:p] ++ bs ++ bits[p + len(bs):]          (C06.overwriteAt)
      self._append(bs)                       bits := bits ++ bs                                    (stepCore .append)
      super().prepend(bs)                    bits := bs ++ bits                                    (stepCore .prepend)
      self._pos = v                          pos := v
  and `outcome` runs a whole trace (an exception leaves the stream as it was and is the result).  The theorems state
  that for EVERY stream, every operand and every position argument — an integer or `None` (= the current position
  `self._pos`, which is how the model's `Op.insert b p` / `Op.overwrite b p` carry it: `p : Option Int`) — the translated
  method under that meaning does exactly what `C06.stepCore` does for the operation: same new bits, same new position,
  same result / error.  No invariant on `s.pos` is assumed.
  Parameters of the translation: `self_len = s.len`, `self_pos = s.pos`, `len_bs = b.length`, `bs_is_self = false` for
  `Op.insert b p` / `Op.overwrite b p`; for the `…Self` operations `bs_is_self = true`, the operand is the receiver
  (`b = s.bits`, `len_bs = s.bits.length`).

  NOTE on `append`: in `BitStream.append` the source reads `len(self)` only AFTER `self._append(bs)` (`self._pos =
  len(self)`).  `self_len` always means the length at entry; a read of `len(self)` after a statement that may have
  changed `self` is translated to the separately declared parameter `self_len_after` (or leaves the subset), which
  `append_eq` instantiates with the length after the append.
-/
import BitstringModel.Model.C06
import BitstringModel.Variants.SrcV5
namespace BM.C06.SrcV52
open BM BM.C06

/-- State of the interpretation: the stream and the current value of the local `bs`. -/
structure St where
  s : Stream
  bs : Bits

/-- Meaning of one recorded effect (unknown effect ↦ `none`). -/
def act (σ : St) : Py.Act → Option St
  | ⟨"bs = Bits._create_from_bitstype(bs)", []⟩ => some σ
  | ⟨"bs = self._copy()", []⟩ => some { σ with bs := σ.s.bits }
  | ⟨"self._insert(bs, _)", [some p]⟩ =>
      some { σ with s := { σ.s with bits := σ.s.bits.take p.toNat ++ σ.bs ++ σ.s.bits.drop p.toNat } }
  | ⟨"self._overwrite(bs, _)", [some p]⟩ =>
      some { σ with s := { σ.s with bits := σ.s.bits.take p.toNat ++ σ.bs ++ σ.s.bits.drop (p.toNat + σ.bs.length) } }
  | ⟨"self._append(bs)", []⟩ => some { σ with s := { σ.s with bits := σ.s.bits ++ σ.bs } }
  | ⟨"super().prepend(bs)", []⟩ => some { σ with s := { σ.s with bits := σ.bs ++ σ.s.bits } }
  | ⟨"self._pos = _", [some v]⟩ => some { σ with s := { σ.s with pos := v } }
  | _ => none

/-- Meaning of a trace: the effects in order. -/
def run : St → List Py.Act → Option St
  | σ, [] => some σ
  | σ, a :: rest => match act σ a with
    | some σ' => run σ' rest
    | none => none

/-- What a call did: the new stream and `None` returned, or the stream unchanged and the exception. -/
def outcome (s : Stream) (b : Bits) : Except Err (List Py.Act) → Option (Stream × Res)
  | .ok tr => (run ⟨s, b⟩ tr).map fun σ => (σ.s, .unit)
  | .error e => some (s, .err e)

/-- Shape-agnostic closing tactic (the same script must survive harmless rewrites of the Python source, see
    harness/src_regress.sh): turn the Boolean tests into propositions, split every `if` / `match` on both sides, then on
    every leaf run the meaning on the now concrete trace and close by linear arithmetic, by simplification with the case
    hypotheses, or by `grind`. -/
macro "src_auto" : tactic => `(tactic| (
  try simp only [Int.min_def, Nat.min_def, Int.max_def, Nat.max_def]
  try simp only [decide_eq_true_eq, decide_eq_false_iff_not, Bool.not_eq_true', Bool.not_eq_false', Bool.and_eq_true,
    Bool.or_eq_true, Bool.and_eq_false_imp, Bool.or_eq_false_iff, ne_eq, Decidable.not_not,
    List.isEmpty_iff_length_eq_zero, Option.getD_some, Option.getD_none, Stream.len]
  repeat' split
  all_goals (first
    | omega
    | (simp_all [outcome, run, act, Stream.len] <;> first | omega | grind)
    | grind [outcome, run, act, Stream.len])))

/-- `BitStream.insert(bs, pos)` as the source has it now = `stepCore s (.insert b p)`, for every stream, operand and
    position (`none` = the current position). -/
theorem insert_eq (s : Stream) (b : Bits) (p : Option Int) :
    outcome s b (Gen.SrcV5.bs_insert s.len p s.pos (b.length : Int) false) = some (stepCore s (.insert b p)) := by
  simp only [stepCore, insertAt, Gen.SrcV5.bs_insert]
  cases p <;> src_auto

/-- `s.insert(s, pos)`: `bs is self`, the operand is a copy of the receiver. -/
theorem insertSelf_eq (s : Stream) (p : Option Int) :
    outcome s s.bits (Gen.SrcV5.bs_insert s.len p s.pos (s.bits.length : Int) true) = some (stepCore s (.insertSelf p)) := by
  simp only [stepCore, insertAt, Gen.SrcV5.bs_insert]
  cases p <;> src_auto

/-- `BitStream.overwrite(bs, pos)` as the source has it now = `stepCore s (.overwrite b p)`. -/
theorem overwrite_eq (s : Stream) (b : Bits) (p : Option Int) :
    outcome s b (Gen.SrcV5.bs_overwrite s.len p s.pos (b.length : Int) false) = some (stepCore s (.overwrite b p)) := by
  simp only [stepCore, overwriteAt, Gen.SrcV5.bs_overwrite]
  cases p <;> src_auto

/-- `s.overwrite(s, pos)`. -/
theorem overwriteSelf_eq (s : Stream) (p : Option Int) :
    outcome s s.bits (Gen.SrcV5.bs_overwrite s.len p s.pos (s.bits.length : Int) true)
      = some (stepCore s (.overwriteSelf p)) := by
  simp only [stepCore, overwriteAt, Gen.SrcV5.bs_overwrite]
  cases p <;> src_auto

/-- `BitStream.append(bs)` as the source has it now = `stepCore s (.append b)`; `len(self)` is read after `_append`:
    the translator gives that read its own parameter `self_len_after`, instantiated with the length after the append. -/
theorem append_eq (s : Stream) (b : Bits) :
    outcome s b (Gen.SrcV5.bs_append s.len ((s.bits ++ b).length : Int)) = some (stepCore s (.append b)) := by
  simp only [stepCore, Gen.SrcV5.bs_append]
  src_auto

/-- `s.append(s)`: the operand is the receiver itself. -/
theorem appendSelf_eq (s : Stream) :
    outcome s s.bits (Gen.SrcV5.bs_append s.len ((s.bits ++ s.bits).length : Int)) = some (stepCore s .appendSelf) := by
  simp only [stepCore, Gen.SrcV5.bs_append]
  src_auto

/-- `BitStream.prepend(bs)` as the source has it now = `stepCore s (.prepend b)`. -/
theorem prepend_eq (s : Stream) (b : Bits) :
    outcome s b (Gen.SrcV5.bs_prepend s.len) = some (stepCore s (.prepend b)) := by
  simp only [stepCore, Gen.SrcV5.bs_prepend]
  src_auto

/-- `s.prepend(s)`. -/
theorem prependSelf_eq (s : Stream) :
    outcome s s.bits (Gen.SrcV5.bs_prepend s.len) = some (stepCore s .prependSelf) := by
  simp only [stepCore, Gen.SrcV5.bs_prepend]
  src_auto

/-- Non-vacuity: inserting two bits at the current position 1 of a 3-bit stream; overwriting from the end (-1). -/
example : outcome ⟨true, [true, false, true], 1⟩ [false, false] (Gen.SrcV5.bs_insert 3 none 1 2 false)
    = some (⟨true, [true, false, false, false, true], 3⟩, .unit) := by rfl
example : outcome ⟨true, [true, false, true], 1⟩ [false, false] (Gen.SrcV5.bs_overwrite 3 (some (-1)) 1 2 false)
    = some (⟨true, [true, false, false, false], 4⟩, .unit) := by rfl
example : outcome ⟨true, [true, false, true], 1⟩ [false] (Gen.SrcV5.bs_insert 3 (some 4) 1 1 false)
    = some (⟨true, [true, false, true], 1⟩, .err .value) := by rfl

end BM.C06.SrcV52
