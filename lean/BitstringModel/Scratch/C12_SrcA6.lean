/-
  Props/C12_Src.lean — tie between C12's hand-written ALG transcriptions and the CURRENT source text: the functions
  below are regenerated from /repo on every run by harness/translate.py (Gen/Src.lean); the theorems state that, for
  EVERY input, they compute what the ALG functions of Model/C12.lean (which Props/C12.lean reasons about) compute.
-/
import BitstringModel.Model.C12
import BitstringModel.Variants.SrcA6
namespace BM.C12.SrcA6
open BM BM.C12

def toSlice (k : Key) : Py.Slice := ⟨k.start, k.stop, k.step⟩
def ofSlice (k : Py.Slice) : Key := ⟨k.start, k.stop, k.step⟩

/-- Shape-agnostic closing tactic for the ties below (the same script must survive harmless rewrites of the Python
    source — renamed locals, re-associated / commuted sums and products, conditional expressions ↔ if-statements,
    `a <= b` ↔ `not a > b`, merged / swapped guards …): split every `if` / `match` on both sides, then close every leaf
    by linear arithmetic (after putting products into a canonical order), by simplification with the case hypotheses,
    or by `grind`. -/
macro "src_auto" : tactic => `(tactic| (
  try simp only [Int.min_def, Nat.min_def, Int.max_def, Nat.max_def]
  try simp only [decide_eq_true_eq, decide_eq_false_iff_not, Bool.not_eq_true', Bool.not_eq_false', Bool.and_eq_true,
    Bool.or_eq_true, Bool.and_eq_false_imp, Bool.or_eq_false_iff, ne_eq, Decidable.not_not]
  repeat' split
  all_goals (first
    | omega
    | (simp_all [Except.map, Except.bind, ofSlice] <;>
        first | omega | (simp only [Int.mul_comm] <;> omega) | grind)
    | grind [Except.map, Except.bind, ofSlice])))

/-- `offset_slice_indices_lsb0` (bitstore.py) as translated from the source = `C12.offsetSliceLsb0`, for every slice
    and every length. -/
theorem offset_slice_indices_lsb0_eq (k : Key) (n : Nat) :
    (Gen.SrcA6.offset_slice_indices_lsb0 (toSlice k) (n : Int)).map ofSlice = offsetSliceLsb0 k n := by
  unfold Gen.SrcA6.offset_slice_indices_lsb0 offsetSliceLsb0 Py.Slice.indices toSlice
  simp only [Int.toNat_natCast]
  -- `key.indices(length)`: ValueError for a zero step (whatever the translated body is) …
  by_cases hst : k.step.getD 1 = 0
  · simp [hst, Except.bind, Except.map]
  simp only [hst, if_false, Except.bind]
  -- … else name the triple start, stop, step (the third component is the step handed in).  Up to here the script is
  -- about the prelude `Py.Slice.indices` and the model, not about the shape of the translated body.
  rcases hr : Py.sliceIndices k.start k.stop (k.step.getD 1) n with ⟨s, e, st'⟩
  have h3 : st' = k.step.getD 1 := by
    have : (Py.sliceIndices k.start k.stop (k.step.getD 1) n).2.2 = k.step.getD 1 := rfl
    rw [hr] at this; exact this
  subst h3
  simp only [Py.rangeLenI]
  src_auto

/-- The final guard of `_validate_slice` (`if not 0 <= start <= end <= len(self): raise ValueError`) for bounds that
    are already normalised: the Boolean test in the form the translator emits for the chained comparison against the
    model's propositional one.  A standalone fact (it mentions no translated function, so it cannot be affected by a
    rewrite of the source); the tie below no longer goes through it. -/
theorem validate_core (n s e : Int) :
    (if (!(decide ((0 : Int) ≤ s) && decide (s ≤ e) && decide (e ≤ n))) then (.error .value : Except Err (Int × Int))
      else .ok (s, e)).map (fun p => (p.1.toNat, p.2.toNat))
      = if 0 ≤ s ∧ s ≤ e ∧ e ≤ n then .ok (s.toNat, e.toNat) else .error .value := by
  by_cases h : 0 ≤ s ∧ s ≤ e ∧ e ≤ n
  · simp [h, Except.map]
  · rw [if_neg h]
    have : (!(decide ((0 : Int) ≤ s) && decide (s ≤ e) && decide (e ≤ n))) = true := by
      simp only [Bool.not_eq_true', Bool.and_eq_false_iff, decide_eq_false_iff_not]
      omega
    simp [this, Except.map]

/-- `Bits._validate_slice` (bits.py) as translated from the source = `C12.validateSlice`. -/
theorem validate_slice_eq (n : Nat) (a b : Option Int) :
    (Gen.SrcA6.validate_slice (n : Int) a b).map (fun p => (p.1.toNat, p.2.toNat)) = validateSlice n a b := by
  unfold Gen.SrcA6.validate_slice validateSlice
  cases a <;> cases b <;> src_auto

/-- Non-vacuity: a negative-step slice of a 10-bit value. -/
example : (Gen.SrcA6.offset_slice_indices_lsb0 ⟨some 7, some 2, some (-2)⟩ 10).map ofSlice = .ok ⟨some 6, some 1, some (-2)⟩ := by
  rfl

end BM.C12.SrcA6
