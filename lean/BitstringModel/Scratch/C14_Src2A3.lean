/-
  Props/C14_Src2.lean — tie between C14's hand-written ALG transcription of `Array.pop` and the CURRENT source text
  (second batch; the first is Props/C14_Src.lean).

  `Gen.SrcA3.array_pop self_len i` is regenerated on every run by harness/translate.py from `Array.pop`
  (bitstring/array_.py): `self_len` is `len(self)` (the number of items); the emptiness guard is translated, the effects
  `L1 = self[i]`, `del self[i]`, `return L1` are recorded with the index values.  `popMeaning` gives them the meaning the
  C14 model gives them (`getItem`, `delItem` — with their IndexError for an index out of range), and `array_pop_eq`
  states that, for EVERY dtype codec, EVERY data buffer and EVERY index, the translated method under that meaning IS
  `C14.pop`, the function the theorems of Props/C14*.lean are about.
-/
import BitstringModel.Model.C14
import BitstringModel.Variants.SrcA3
namespace BM.C14.SrcA32
open BM BM.C14

/-- Result of a translated mutating method on the data `d`: an exception raised by the translated guards leaves the
    data alone (`⟨d, error⟩`, the model's `Step`); otherwise the trace is handed to its meaning (`none` = unknown). -/
def interp {α : Type} (d : Bits) (r : Except Err (List Py.Act)) (m : List Py.Act → Option (Step α)) : Option (Step α) :=
  match r with
  | .error e => some ⟨d, .error e⟩
  | .ok tr => m tr

/-- Meaning of the effects recorded for `Array.pop` on the data `d` of an Array with dtype codec `c`:
    `L1 = self[i]` is `C14.getItem c d i` (IndexError / ReadError leave the data alone and end the method),
    `del self[j]` is `C14.delItem c d j` (its data, and its exception if it raises), `return L1` returns the item read. -/
def popMeaning {V : Type} (c : Codec V) (d : Bits) : List Py.Act → Option (Step V)
  | [⟨"L1 = self[_]", [some i]⟩, ⟨"del self[_]", [some j]⟩, ⟨"return L1", []⟩] =>
      some (match getItem c d i with
            | .error e => ⟨d, .error e⟩
            | .ok x =>
              let s := delItem c d j
              ⟨s.data, match s.res with | .ok _ => .ok x | .error e => .error e⟩)
  | _ => none

/-- The three-effect trace on a non-empty Array is the model's `pop`; the recorded indices are related to the model's
    by hypotheses (so the caller never depends on how the source spells them). -/
theorem popMeaning_three {V : Type} (c : Codec V) (d : Bits) (i j k : Int) (hne : len c d ≠ 0)
    (hi : i = k) (hj : j = k) :
    popMeaning c d [⟨"L1 = self[_]", [some i]⟩, ⟨"del self[_]", [some j]⟩, ⟨"return L1", []⟩] = some (pop c d k) := by
  subst hi hj
  unfold pop
  simp only [hne, if_false]
  simp [popMeaning]
  try (cases getItem c d j <;> rfl)

/-! ### shape-agnostic proof vocabulary -/

/-- Decide every `if` whose condition (or its negation) follows from the context by linear arithmetic. -/
macro "eval_guards" : tactic => `(tactic| simp (disch := omega) only [if_pos, if_neg])

/-- Bool guards → propositions, decide them from the context, flatten the trace. -/
macro "run_guards" : tactic => `(tactic| (
  try simp only [Bool.not_eq_true', Bool.not_eq_true, Bool.and_eq_true, Bool.or_eq_true, decide_eq_true_eq,
    decide_eq_false_iff_not, Bool.not_eq_false', Bool.not_eq_false, Bool.and_eq_false_iff, Bool.or_eq_false_iff,
    ne_eq, Bool.not_not, Except.bind]
  try eval_guards
  try simp only [interp, Except.map, List.nil_append, List.cons_append, List.append_assoc, List.singleton_append]))

/-- `Array.pop(i)` as the source has it now = `C14.pop`, for every codec, every data buffer (every item count, the
    empty Array included: IndexError, data unchanged) and every index (out of range: the IndexError of `self[i]`).
    No hypothesis. -/
theorem array_pop_eq {V : Type} (c : Codec V) (d : Bits) (i : Int) :
    interp d (Gen.SrcA3.array_pop ((len c d : Nat) : Int) i) (popMeaning c d) = some (pop c d i) := by
  by_cases h : len c d = 0
  · unfold Gen.SrcA3.array_pop pop
    run_guards
  · unfold Gen.SrcA3.array_pop
    run_guards
    exact popMeaning_three c d _ _ i h (by omega) (by omega)

/-! ### non-vacuity -/

/-- `pop(-1)` on the `uint2` Array `[1, 3]` (data `0111`) returns 3 and leaves data `01`. -/
example :
    (interp [false, true, true, true] (Gen.SrcA3.array_pop 2 (-1))
      (popMeaning (mkCodec .u "uint" 2 1 .int false) [false, true, true, true])).map
        (fun s => (s.data, s.res))
      = some ([false, true], .ok (.int 3)) := by
  rfl

/-- An index out of range: the IndexError of `self[i]`, data unchanged. -/
example :
    (interp [false, true, true, true] (Gen.SrcA3.array_pop 2 2)
      (popMeaning (mkCodec .u "uint" 2 1 .int false) [false, true, true, true])).map
        (fun s => (s.data, s.res))
      = some ([false, true, true, true], .error .index) := by
  rfl

end BM.C14.SrcA32
