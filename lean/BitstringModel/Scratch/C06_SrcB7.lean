/-
  Props/C06_Src.lean — tie between C06's hand-written ALG transcriptions of the position arithmetic of
  `ConstBitStream` and the CURRENT source text.  `Gen.SrcB7.validate_slice`, `setbitpos`, `getbytepos` and `bytealign`
  are regenerated from /repo on every run by harness/translate.py (Gen/Src.lean, "pure" mode: functions over
  Int / Option Int returning `Except Err τ`, the stream being represented by `len(self)` and `self._pos`).  The
  theorems state that, for EVERY stream `s` (no invariant on `s.pos` is assumed: any Python int) and every argument,
  the branch of `C06.stepCore` / `C06.setBitPos` / `C06.validateSlice` that Props/C06.lean reasons about does exactly
  what the translated source does: same new position, same returned value, same error class.  These are pure
  functions, so there is no meaning function; the right-hand sides only wrap the translated result into the model's
  `Stream × Res` shape (`pos := q`, `Res.unit` / `Res.val (.int v)` / `Res.err e`).

  Python's `%` and `//` are translated as `Int.fmod` / `Int.fdiv`; the model writes Lean's `%` and `/` on `Int`
  (`Int.emod` / `Int.ediv`).  They agree for the positive literal divisor 8 on every dividend, negative ones included
  (`Int.fmod_eq_emod_of_nonneg`, `Int.fdiv_eq_ediv_of_nonneg`), which is what the proofs use.
-/
import BitstringModel.Model.C06
import BitstringModel.Variants.SrcB7
namespace BM.C06.SrcB7
open BM BM.C06

/-- Shape-agnostic closing tactic for the ties below (the same script must survive harmless rewrites of the Python
    source — renamed locals, re-associated / commuted sums, conditional expressions ↔ if-statements, `not n` ↔ `n == 0`,
    `a <= b` ↔ `not a > b`, guards merged with `or` / swapped with the condition negated …): turn the Boolean tests into
    propositions, split every `if` / `match` on both sides, then close every leaf by linear arithmetic, by
    simplification with the case hypotheses, or by `grind`. -/
macro "src_auto" : tactic => `(tactic| (
  try simp only [Int.min_def, Nat.min_def, Int.max_def, Nat.max_def]
  try simp only [Int.fmod_eq_emod_of_nonneg, Int.fdiv_eq_ediv_of_nonneg, decide_eq_true_eq, decide_eq_false_iff_not, Bool.not_eq_true', Bool.not_eq_false', Bool.and_eq_true,
    Bool.or_eq_true, Bool.and_eq_false_imp, Bool.or_eq_false_iff, ne_eq, Decidable.not_not]
  repeat' split
  all_goals (first
    | omega
    | (simp_all [Except.map, Except.bind] <;> first | omega | grind)
    | grind [Except.map, Except.bind])))

/-- The final guard of `_validate_slice` (`if not 0 <= start <= end <= len(self): raise ValueError`) for bounds that
    are already normalised: the Boolean test in the form the translator emits for the chained comparison against the
    model's propositional one.  A standalone fact (it mentions no translated function, so it cannot be affected by a
    rewrite of the source); the tie below no longer goes through it. -/
theorem validate_core (n s e : Int) :
    (if (!(decide ((0 : Int) ≤ s) && decide (s ≤ e) && decide (e ≤ n))) then (.error .value : Except Err (Int × Int))
      else .ok (s, e)).map (fun p => (p.1.toNat, p.2.toNat))
      = if 0 ≤ s ∧ s ≤ e ∧ e ≤ n then .ok (s.toNat, e.toNat) else .error .value := by
  by_cases h : 0 ≤ s ∧ s ≤ e ∧ e ≤ n
  · simp [h, Except.map]
  · rw [if_neg h]
    have : (!(decide ((0 : Int) ≤ s) && decide (s ≤ e) && decide (e ≤ n))) = true := by
      simp only [Bool.not_eq_true', Bool.and_eq_false_iff, decide_eq_false_iff_not]
      omega
    simp [this, Except.map]

/-- `Bits._validate_slice` (bits.py) as translated from the source = `C06.validateSlice` (used by `find`, `rfind`,
    `readto`, `replace`), for every length and every pair of Optional bounds.  The returned bounds are cast
    Int → Nat; the success branch is guarded by `0 ≤ start ≤ end`, so nothing is lost. -/
theorem validate_slice_eq (n : Nat) (a b : Option Int) :
    (Gen.SrcB7.validate_slice (n : Int) a b).map (fun p => (p.1.toNat, p.2.toNat)) = validateSlice n a b := by
  unfold Gen.SrcB7.validate_slice validateSlice
  cases a <;> cases b <;> src_auto

/-- `ConstBitStream._setbitpos` (bitstream.py) as translated from the source = `C06.setBitPos` (the `pos` /
    `bitpos` setter; `stepCore s (.setPos n)` and `stepCore s (.setBytePos n) = setBitPos s (n * 8)` are this
    function by definition), for every stream and every integer. -/
theorem setbitpos_eq (s : Stream) (p : Int) :
    setBitPos s p = match Gen.SrcB7.setbitpos s.len s.pos p with
      | .ok q => ({ s with pos := q }, .unit)
      | .error e => (s, .err e) := by
  unfold setBitPos Gen.SrcB7.setbitpos
  src_auto

/-- The two seek operations of `stepCore` are `setBitPos` (definitional; restated so that the tie above visibly covers
    them). -/
theorem stepCore_setPos (s : Stream) (n : Int) : stepCore s (.setPos n) = setBitPos s n := rfl
theorem stepCore_setBytePos (s : Stream) (n : Int) : stepCore s (.setBytePos n) = setBitPos s (n * 8) := rfl

/-- `ConstBitStream._getbytepos` (bitstream.py) as translated from the source = the `.getBytePos` branch of
    `C06.stepCore`: ByteAlignError when the position is not a multiple of 8, else `pos // 8`; the stream is unchanged.
    For every stream, also one whose `pos` is negative (Python's floor `%`, `//` against Lean's `%`, `/`: equal for the
    divisor 8). -/
theorem getbytepos_eq (s : Stream) :
    stepCore s .getBytePos = match Gen.SrcB7.getbytepos s.len s.pos with
      | .ok v => (s, .val (.int v))
      | .error e => (s, .err e) := by
  simp only [stepCore, Gen.SrcB7.getbytepos]
  src_auto

/-- `ConstBitStream.bytealign` (bitstream.py) as translated from the source = the `.bytealign` branch of
    `C06.stepCore`: `skipped = (8 - pos % 8) % 8`, the new position goes through `_setbitpos` (ValueError when it
    would pass the end; the stream is then unchanged), the number of skipped bits is returned.  For every stream. -/
theorem bytealign_eq (s : Stream) :
    stepCore s .bytealign = match Gen.SrcB7.bytealign s.len s.pos with
      | .ok (k, q) => ({ s with pos := q }, .val (.int k))
      | .error e => (s, .err e) := by
  simp only [stepCore, Gen.SrcB7.bytealign, Gen.SrcB7.setbitpos]
  src_auto

/-- Non-vacuity: 13 bits into a 20-bit stream `bytealign` skips 3 bits and lands on 16; at 16 the byte position is
    2; past the end `_setbitpos` refuses. -/
example : Gen.SrcB7.bytealign 20 13 = .ok (3, 16) := by rfl
example : Gen.SrcB7.getbytepos 20 16 = .ok 2 := by rfl
example : Gen.SrcB7.getbytepos 20 13 = .error .byteAlign := by rfl
example : Gen.SrcB7.setbitpos 20 0 21 = .error .value := by rfl
example : stepCore ⟨false, List.replicate 20 true, 13⟩ .bytealign
    = (⟨false, List.replicate 20 true, 16⟩, .val (.int 3)) := by decide

end BM.C06.SrcB7
