/-
  Props/C15_Src.lean — tie between C15's hand-written ALG transcriptions of the two window constructors
  (`bytesWin` = `Bits._setbytes_with_truncation`, `bitarrayWin` = `Bits._setbitarray`) and the CURRENT source text.

  `Gen/Src.lean` is regenerated on every run by harness/translate.py from /repo's working tree: the guards and the
  index arithmetic of each listed Python function are translated statement by statement, and every effect on an
  object is recorded as a `Py.Act` (source text with the integer sub-expressions replaced by `_`, plus their
  values).  Below, `…Meaning` gives each recorded effect the meaning the C15 model gives to the primitive it names
  (`BitStore.frombytes` = `C15.fromBytes`, `getslice_msb0(a, b)` / `ba[a:b]` = `C15.pySlice`), and the theorems state
  that, for EVERY input (every data, every offset, every length, `None` included), the translated function under
  that meaning IS the ALG function the window theorems of Props/C15.lean are about — rejected inputs included: both
  sides are `Except` values.  A change of the source changes `Gen/Src.lean`; the theorem then no longer checks.
-/
import BitstringModel.Model.C15
import BitstringModel.Variants.SrcB7
import Mathlib.Tactic.SplitIfs
namespace BM.C15.SrcB7
open BM BM.C15

/-- Meaning of the effects recorded for `Bits._setbytes_with_truncation(data, length, offset)`; the result is the
    content of `self._bitstore` afterwards.
    * `return self._setbytes(data)` : `self._bitstore = BitStore.frombytes(bytes(data))` — the bits of the bytes,
      `C15.fromBytes data` (what `bytesWin` returns on its `none, none` line);
    * `data = bytearray(data)` : a copy, the byte values are unchanged — no effect on the value;
    * `self._bitstore = BitStore.frombytes(data).getslice_msb0(a, b)` : `pySlice (fromBytes data) (some a) (some b)`,
      exactly the expression `bytesGeneral` uses. -/
def bytesMeaning (data : List Nat) : List Py.Act → Option Bits
  | [⟨"return self._setbytes(data)", []⟩] => some (fromBytes data)
  | [⟨"data = bytearray(data)", []⟩,
     ⟨"self._bitstore = BitStore.frombytes(data).getslice_msb0(_, _)", [some a, some b]⟩] =>
      some (pySlice (fromBytes data) (some a) (some b))
  | _ => none

/-- Meaning of the effects recorded for `Bits._setbitarray(ba, length, offset)`: `BitStore(ba[a:])` /
    `BitStore(ba[a:b])` hold the Python slice of the bitarray's bits (`BitStore.__init__` keeps the bits by index),
    `pySlice ba (some a) none` / `pySlice ba (some a) (some b)` as in `bitarrayWin`. -/
def bitarrayMeaning (ba : Bits) : List Py.Act → Option Bits
  | [⟨"self._bitstore = BitStore(ba[_:])", [some a]⟩] => some (pySlice ba (some a) none)
  | [⟨"self._bitstore = BitStore(ba[_:_])", [some a, some b]⟩] => some (pySlice ba (some a) (some b))
  | _ => none

/-- Closes the leaves left after ALL guards of both sides have been split with `split_ifs` (whatever their order,
    nesting or polarity in the source): contradictory guards (`omega`, or a literal `False`), syntactically identical
    results (`with_reducible rfl`), or results that agree after unfolding the meaning (`simp`) up to the way the
    index arithmetic is written (`omega` / congruence + linear arithmetic by `grind`). -/
local macro "leaf" : tactic =>
  `(tactic| first
    | omega
    | (exfalso; assumption)
    | with_reducible rfl
    | (simp [Except.map, bytesMeaning, bitarrayMeaning]; first | done | omega | grind))

/-- `Bits._setbytes_with_truncation` as the source has it now = `C15.bytesWin`, for every byte string, offset and
    length.  NB the argument order: Python `(data, length, offset)`, translated function `(length, offset, len(data))`,
    model `(data, off, len)`.  `len_data` is `len(data)`, the number of BYTES. -/
theorem setbytes_with_truncation_eq (data : List Nat) (off len : Option Int) :
    (Gen.SrcB7.setbytes_with_truncation len off (data.length : Int)).map (bytesMeaning data)
      = (bytesWin data off len).map some := by
  unfold Gen.SrcB7.setbytes_with_truncation bytesWin bytesGeneral
  rcases off with _ | o <;> rcases len with _ | l <;>
    simp [Except.map, negLen, bytesMeaning]
  all_goals (split_ifs <;> leaf)

/-- `Bits._setbitarray` as the source has it now = `C15.bitarrayWin`, for every bitarray content, offset and length
    (`len_ba` is `len(ba)`, the number of bits). -/
theorem setbitarray_eq (ba : Bits) (off len : Option Int) :
    (Gen.SrcB7.setbitarray len off (ba.length : Int)).map (bitarrayMeaning ba)
      = (bitarrayWin ba off len).map some := by
  unfold Gen.SrcB7.setbitarray bitarrayWin
  rcases off with _ | o <;> rcases len with _ | l <;>
    simp [Except.map, negLen, bitarrayMeaning]
  all_goals (split_ifs <;> leaf)

/-- Non-vacuity: `Bits(bytes=b'\xa5\x0f', offset=4, length=8)` — the two-effect trace, meaning `0x50`. -/
example : (Gen.SrcB7.setbytes_with_truncation (some 8) (some 4) 2).map (bytesMeaning [0xa5, 0x0f])
    = .ok (some [false, true, false, true, false, false, false, false]) := by
  rfl

/-- Non-vacuity: both traces of `_setbitarray`. -/
example : (Gen.SrcB7.setbitarray none (some 1) 4).map (bitarrayMeaning [true, false, true, true])
    = .ok (some [false, true, true]) := by
  rfl

example : (Gen.SrcB7.setbitarray (some 2) (some 1) 4).map (bitarrayMeaning [true, false, true, true])
    = .ok (some [false, true]) := by
  rfl

/-- A rejected window stays rejected: offset + length beyond the data. -/
example : (Gen.SrcB7.setbytes_with_truncation (some 13) (some 4) 2).map (bytesMeaning [0xa5, 0x0f])
    = .error .value := by
  rfl

end BM.C15.SrcB7
