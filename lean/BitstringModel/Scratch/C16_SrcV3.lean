/-
  Props/C16_Src.lean — tie between C16's hand-written ALG transcriptions and the CURRENT source text.

  `Gen/Src.lean` is regenerated on every run by harness/translate.py from /repo's working tree: the guards and the
  index arithmetic of each listed Python function are translated statement by statement, and every effect on an
  object (a call, an assignment of an object) is recorded as a `Py.Act` (source text with the integer
  sub-expressions replaced by `_`, plus their values).  Below, `…Meaning` gives each recorded effect the meaning the
  C16 model gives to the primitive it names (`_absolute_slice`, `Bits(n)`, `_addright`, `_ilshift`, …), and the
  theorems state that, for EVERY input, the translated function under that meaning IS the ALG function the
  property theorems of Props/C16.lean are about.  A change of the source changes `Gen/Src.lean`; the theorem then
  no longer checks.
-/
import BitstringModel.Model.C16
import BitstringModel.Variants.SrcV3
namespace BM.C16.SrcV3
open BM BM.C16

/-- `self._absolute_slice(p, q)` on the bits `a` (bits.py: empty when `p = q`, else `bits[p:q]`). -/
def absSlice (a : Bits) (p q : Int) : Bits :=
  if p = q then [] else (a.drop p.toNat).take (q.toNat - p.toNat)

/-- Meaning of the effects recorded for `Bits.__lshift__`. -/
def shlMeaning (a : Bits) : List Py.Act → Option Bits
  | [⟨"L1 = self._absolute_slice(_, _)", [some p, some q]⟩, ⟨"L1._addright(Bits(_))", [some k]⟩, ⟨"return L1", []⟩] =>
      some (absSlice a p q ++ List.replicate k.toNat false)
  | _ => none

/-- Meaning of the effects recorded for `Bits.__rshift__`. -/
def shrMeaning (a : Bits) : List Py.Act → Option Bits
  | [⟨"return self._copy()", []⟩] => some a
  | [⟨"L1 = self.__class__(length=_)", [some k]⟩, ⟨"L1._addright(self._absolute_slice(_, _))", [some p, some q]⟩,
     ⟨"return L1", []⟩] => some (List.replicate k.toNat false ++ absSlice a p q)
  | _ => none

/-- Meaning of the effects recorded for `BitArray.__ilshift__`: `_ilshift(k)` = `_addright(Bits(k))` then
    `_truncateleft(k)`. -/
def ishlMeaning (a : Bits) : List Py.Act → Option Bits
  | [⟨"return self", []⟩] => some a
  | [⟨"return self._ilshift(_)", [some k]⟩] => some ((a ++ List.replicate k.toNat false).drop k.toNat)
  | _ => none

/-- Meaning of the effects recorded for `BitArray.__irshift__`: `_irshift(k)` = `_addleft(Bits(k))` then
    `_truncateright(k)`. -/
def ishrMeaning (a : Bits) : List Py.Act → Option Bits
  | [⟨"return self", []⟩] => some a
  | [⟨"return self._irshift(_)", [some k]⟩] =>
      some ((List.replicate k.toNat false ++ a).take ((List.replicate k.toNat false ++ a).length - k.toNat))
  | _ => none

/-- Meaning of the effects recorded for `Bits.__invert__`. -/
def invertMeaning (a : Bits) : List Py.Act → Option Bits
  | [⟨"L1 = self._copy()", []⟩, ⟨"L1._invert_all()", []⟩, ⟨"return L1", []⟩] => some (a.map (!·))
  | _ => none

/-- Shape-agnostic closing tactic for the ties below (the same script must survive harmless rewrites of the Python
    source — renamed locals, `not n` ↔ `n == 0`, `min(a, b)` ↔ `min(b, a)` ↔ a conditional, merged / swapped guards,
    commuted sums …): unfold `min` into its two cases, turn the Boolean tests into propositions, split every `if` /
    `match` on both sides, then on every leaf evaluate the meaning function on the now concrete trace and close by
    linear arithmetic, by simplification with the case hypotheses, or by `grind`. -/
macro "src_auto" : tactic => `(tactic| (
  try simp only [Int.min_def, Nat.min_def, Int.max_def, Nat.max_def]
  try simp only [decide_eq_true_eq, decide_eq_false_iff_not, Bool.not_eq_true', Bool.not_eq_false', Bool.and_eq_true,
    Bool.or_eq_true, Bool.and_eq_false_imp, Bool.or_eq_false_iff, ne_eq, Decidable.not_not]
  repeat' split
  all_goals (first
    | omega
    | (simp_all [Except.map, Except.bind, shlMeaning, shrMeaning, ishlMeaning, ishrMeaning, invertMeaning, absSlice] <;>
        first | omega | grind)
    | grind [Except.map, Except.bind, shlMeaning, shrMeaning, ishlMeaning, ishrMeaning, invertMeaning, absSlice])))

/-- `Bits.__lshift__` as the source has it now = `C16.shl`, for every content and every shift count. -/
theorem lshift_eq (a : Bits) (n : Int) :
    (Gen.SrcV3.lshift (a.length : Int) n).map (shlMeaning a) = (shl a n).map some := by
  unfold Gen.SrcV3.lshift shl
  src_auto

/-- `Bits.__rshift__` as the source has it now = `C16.shr`. -/
theorem rshift_eq (a : Bits) (n : Int) :
    (Gen.SrcV3.rshift (a.length : Int) n).map (shrMeaning a) = (shr a n).map some := by
  unfold Gen.SrcV3.rshift shr
  src_auto

/-- `BitArray.__ilshift__` as the source has it now = `C16.ishl`. -/
theorem ilshift_eq (a : Bits) (n : Int) :
    (Gen.SrcV3.ilshift (a.length : Int) n).map (ishlMeaning a) = (ishl a n).map some := by
  unfold Gen.SrcV3.ilshift ishl
  src_auto

/-- `BitArray.__irshift__` as the source has it now = `C16.ishr`. -/
theorem irshift_eq (a : Bits) (n : Int) :
    (Gen.SrcV3.irshift (a.length : Int) n).map (ishrMeaning a) = (ishr a n).map some := by
  unfold Gen.SrcV3.irshift ishr
  src_auto

/-- `Bits.__invert__` as the source has it now = `C16.bnot` (`bitstring.Error` for the empty bitstring). -/
theorem invert_eq (a : Bits) :
    (Gen.SrcV3.invert (a.length : Int)).map (invertMeaning a) = (bnot a).map some := by
  unfold Gen.SrcV3.invert bnot
  src_auto

/-- Non-vacuity: on a concrete input the translated function really produces the three-effect trace. -/
example : (Gen.SrcV3.lshift 4 1).map (shlMeaning [true, false, true, true]) = .ok (some [false, true, true, false]) := by
  rfl

end BM.C16.SrcV3
