/-
  Props/C10_Src.lean — tie between C10's hand-written ALG transcriptions of the exponential-Golomb readers and the
  CURRENT source text.

  `Gen.SrcC8.readue` / `readse` / `readuie` / `readsie` (+ the auxiliary `readue.loop1`, `readuie.loop1`) are regenerated
  from /repo on every run by harness/translate.py from `Bits._readue/_readse/_readuie/_readsie`: the `while` loops become
  recursive definitions with a fuel counter (exhaustion = `.error (.internal "fuel")`, declared fuel `2*len+2`, +1),
  `try … except IndexError: raise ReadError` becomes `Py.remapErr`, `self[i]` is `Py.bitAt`, `1 << k` is `Py.shlE`,
  `self[a:b]._getuint()` is `Py.uintOfSlice` (Model/PySrc.lean).  The theorems state that for EVERY bit list `b` and
  EVERY position `p : Nat` (the callers pass a stream position, 0 ≤ p; positions at or beyond the end included) the
  translated reader with `bitstring.options.lsb0 = False` computes exactly what `C10.readUE / readSE / readUIE /
  readSIE` (the functions Props/C10*.lean reason about) compute — value, new position, ReadError — the only adaptation
  being the cast Nat → Int of the returned numbers; and that with `lsb0 = True` each of the four is the ReadError, for
  every `b` and every integer position (Model/C10.lean has no separate function for that refusal, so it is stated
  directly).  No hypothesis: in particular the fuel never runs out and the `assert codenum == 0` never fails.

  Structure (kept shape-agnostic where the translated text enters, see harness/src_regress.sh):
   * facts about the prelude only: `bitAt_nat`, `uintOfSlice_nat`, `two_pow_toNat`, `drop_cases`;
   * `zerosLoop` / `uieLoop`: ANY function satisfying the recursion equation of the respective `while` loop computes
     `countZeros` / `readUIEAux` (induction on the fuel; the bound `len - pos < fuel` suffices);
   * `ue_loop` / `uie_loop`: the translated loops satisfy those equations (the only place where the loop bodies are
     unfolded; closed by case analysis on the bits read + `simp` / `omega` / `grind`);
   * the four theorems: rewrite the loop by its closed form (the extra parameters and the fuel expression are left to
     unification, the fuel bound to `omega`), split every `if`, close the leaves by `omega` / `rfl` / the prelude facts.
-/
import BitstringModel.Model.C10
import BitstringModel.Variants.SrcC8
import BitstringModel.Proofs.C08
import Mathlib.Tactic.SplitIfs
-- fallback alternatives in the closing tactics fire only for some variants of the translation
set_option linter.unusedSimpArgs false
set_option linter.unusedTactic false
set_option linter.unreachableTactic false
set_option linter.unnecessarySeqFocus false
namespace BM.C10.SrcC8
open BM BM.C10

/-- `self[n]` for a non-negative index: the bit, or IndexError at or beyond the end. -/
theorem bitAt_nat (b : Bits) (n : Nat) :
    Py.bitAt b (n : Int) = match b[n]? with | some x => .ok x | none => .error .index := by
  unfold Py.bitAt Py.getIndex
  have h1 : ¬ ((n : Int) < 0) := by omega
  simp only [h1, if_false, Int.toNat_natCast]
  cases b[n]? <;> rfl

/-- `self[lo:hi]._getuint()` for a non-empty slice inside the data (the bounds are given as equations so that the lemma
    applies to whatever shape the translated index expressions have; `omega` discharges them). -/
theorem uintOfSlice_nat (b : Bits) (lo hi : Int) (a n : Nat) (h1 : lo = a) (h2 : hi = a + n) (hn : 0 < n)
    (hl : a + n ≤ b.length) : Py.uintOfSlice b lo hi = .ok ((bitsToNat ((b.drop a).take n) : Nat) : Int) := by
  subst h1
  have h2' : hi = ((a + n : Nat) : Int) := by omega
  subst h2'
  unfold Py.uintOfSlice
  rw [C08.getSlice_nat]
  have e : a + n - a = n := by omega
  rw [e]
  have hlen : ((b.drop a).take n).length = n := by simp; omega
  have hne : ((b.drop a).take n).isEmpty = false := by
    cases h : (b.drop a).take n with
    | nil => rw [h] at hlen; simp at hlen; omega
    | cons _ _ => rfl
  simp only [hne]
  rfl

/-- `2 ^ k` for a non-negative Python int `k` given as an equation. -/
theorem two_pow_toNat (k : Int) (n : Nat) (h : k = n) : (2 : Int) ^ k.toNat = ((2 ^ n : Nat) : Int) := by
  subst h; simp

/-- `b[q]?` against `b.drop q`. -/
theorem drop_cases (b : Bits) (q : Nat) :
    (b[q]? = none ∧ b.drop q = []) ∨ ∃ x, b[q]? = some x ∧ b.drop q = x :: b.drop (q + 1) := by
  cases h : b[q]? with
  | none => left; exact ⟨rfl, List.drop_eq_nil_of_le (by simpa using h)⟩
  | some x =>
    right
    refine ⟨x, rfl, ?_⟩
    have hq : q < b.length := by
      rcases Nat.lt_or_ge q b.length with h' | h'
      · exact h'
      · rw [List.getElem?_eq_none h'] at h; cases h
    rw [List.drop_eq_getElem_cons hq]
    rw [List.getElem?_eq_getElem hq] at h
    cases h; rfl

/-- Any function with the recursion of `while not self[pos]: pos += 1` computes `countZeros`. -/
theorem zerosLoop (b : Bits) (f : Nat → Int → Except Err Int)
    (hs : ∀ n (q : Nat), f (n + 1) (q : Int) = match b[q]? with
      | none => .error .index
      | some true => .ok (q : Int)
      | some false => f n ((q + 1 : Nat) : Int)) :
    ∀ fuel (q : Nat), b.length - q < fuel → f fuel (q : Int) = match countZeros (b.drop q) with
      | none => .error .index
      | some lz => .ok ((q + lz : Nat) : Int) := by
  intro fuel
  induction fuel with
  | zero => intro q h; omega
  | succ n ih =>
    intro q h
    rw [hs]
    rcases drop_cases b q with ⟨h1, h2⟩ | ⟨x, h1, h2⟩
    · rw [h1, h2]; rfl
    · rw [h1, h2]
      cases x with
      | true => simp [countZeros]
      | false =>
        have hq : q < b.length := by
          rcases Nat.lt_or_ge q b.length with h' | h'
          · exact h'
          · rw [List.getElem?_eq_none h'] at h1; cases h1
        simp only [countZeros]
        rw [ih (q + 1) (by omega)]
        cases countZeros (b.drop (q + 1)) with
        | none => rfl
        | some lz => simp only [Option.map_some]; congr 2; omega

/-- The translated loop of `_readue` (whatever its extra parameters are bound to) walks over the zeros: closed form. -/
theorem ue_loop (b : Bits) (P : Int) (L : Bool) (O : Int) (fuel : Nat) (q : Nat) (h : b.length - q < fuel) :
    Gen.SrcC8.readue.loop1 b P L O fuel (q : Int) = match countZeros (b.drop q) with
      | none => .error .index
      | some lz => .ok ((q + lz : Nat) : Int) := by
  apply zerosLoop b (Gen.SrcC8.readue.loop1 b P L O) _ fuel q h
  intro n q
  rw [Gen.SrcC8.readue.loop1, bitAt_nat]
  cases b[q]? with
  | none => rfl
  | some x => cases x <;> simp [Except.bind] <;> first | rfl | grind

/-- `Bits._readue` as the source has it now = `C10.readUE`, for every bit list and every position. -/
theorem readue_eq (b : Bits) (p : Nat) :
    Gen.SrcC8.readue b (p : Int) false = (readUE b p).map (fun r => ((r.1 : Int), (r.2 : Int))) := by
  unfold Gen.SrcC8.readue readUE
  simp only [Bool.false_eq_true, if_false]
  rw [ue_loop b _ _ _ _ p (by omega)]
  cases hz : countZeros (b.drop p) with
  | none => simp [Py.remapErr, Except.bind, Except.map]
  | some lz =>
    have hpow := Nat.one_le_two_pow (n := lz)
    simp only [Py.remapErr, Except.bind, Py.shlE]
    rw [two_pow_toNat (n := lz)]
    · rcases Nat.eq_zero_or_pos lz with rfl | hlz
      · simp only [Nat.pow_zero, Nat.cast_one, decide_eq_true_eq, Except.map]
        split_ifs
        all_goals (first | omega | rfl | (simp only [Except.ok.injEq, Prod.mk.injEq]; omega) | (simp; done) | (simp <;> omega))
      · simp only [decide_eq_true_eq, Except.map]
        split_ifs
        all_goals (first
          | omega
          | rfl
          | (rw [uintOfSlice_nat (a := p + lz + 1) (n := lz)] <;>
              first | omega | rfl | (simp only [Except.ok.injEq, Prod.mk.injEq]; omega))
          | (simp only [Except.ok.injEq, Prod.mk.injEq]; omega)
          | (simp; done) | (simp <;> omega))
    · omega

/-- `Bits._readse` as the source has it now = `C10.readSE`. -/
theorem readse_eq (b : Bits) (p : Nat) :
    Gen.SrcC8.readse b (p : Int) false = (readSE b p).map (fun r => (r.1, (r.2 : Int))) := by
  unfold Gen.SrcC8.readse readSE
  rw [readue_eq]
  cases readUE b p with
  | error e => rfl
  | ok r =>
    obtain ⟨c, q⟩ := r
    simp only [Except.map, Except.bind, decide_eq_true_eq, ne_eq, Decidable.not_not,
      Int.fmod_eq_emod_of_nonneg _ (show (0 : Int) ≤ 2 by decide), Int.fdiv_eq_ediv_of_nonneg _ (show (0 : Int) ≤ 2 by decide)]
    split_ifs
    all_goals (first | omega | rfl | (simp only [Except.ok.injEq, Prod.mk.injEq]; omega) | (simp <;> omega))

/-- The interleaved loop keeps `codenum ≥ 1` and consumes at least the terminating bit. -/
theorem readUIEAux_pos : ∀ (l : Bits) (c k : Nat), 1 ≤ c → ∀ c' k', readUIEAux l c k = some (c', k') → 1 ≤ c' ∧ k + 1 ≤ k' := by
  intro l c k
  fun_induction readUIEAux l c k with
  | case1 => intro _ _ _ h; cases h
  | case2 _ c k => intro h c' k' e; cases e; exact ⟨h, Nat.le_refl _⟩
  | case3 => intro _ _ _ h; cases h
  | case4 d rest c k ih =>
    intro h c' k' e
    have := ih (by omega) c' k' e
    omega

/-- Any function with the recursion of the `_readuie` loop computes `readUIEAux`. -/
theorem uieLoop (b : Bits) (p : Nat) (f : Nat → Int × Int → Except Err (Int × Int))
    (hs : ∀ n (q c : Nat), f (n + 1) ((q : Int), (c : Int)) = match b[q]? with
      | none => .error .index
      | some true => .ok ((q : Int), (c : Int))
      | some false => match b[q + 1]? with
        | none => .error .index
        | some d => f n (((q + 2 : Nat) : Int), ((2 * c + (if d then 1 else 0) : Nat) : Int))) :
    ∀ fuel (k c : Nat), b.length - (p + k) < fuel → f fuel (((p + k : Nat) : Int), (c : Int)) =
      match readUIEAux (b.drop (p + k)) c k with
      | none => .error .index
      | some (c', k') => .ok (((p + k' : Nat) : Int) - 1, (c' : Int)) := by
  intro fuel
  induction fuel with
  | zero => intro k c h; omega
  | succ n ih =>
    intro k c h
    rw [hs]
    rcases drop_cases b (p + k) with ⟨h1, h2⟩ | ⟨x, h1, h2⟩
    · rw [h1, h2]; rfl
    · rw [h1, h2]
      cases x with
      | true => simp only [readUIEAux]; congr 2; omega
      | false =>
        have hq : p + k < b.length := by
          rcases Nat.lt_or_ge (p + k) b.length with h' | h'
          · exact h'
          · rw [List.getElem?_eq_none h'] at h1; cases h1
        rcases drop_cases b (p + k + 1) with ⟨g1, g2⟩ | ⟨d, g1, g2⟩
        · rw [g1, g2]; rfl
        · rw [g1, g2]
          simp only [readUIEAux]
          have := ih (k + 2) (2 * c + (if d then 1 else 0)) (by omega)
          rw [show p + (k + 2) = p + k + 2 by omega] at this
          rw [show p + k + 1 + 1 = p + k + 2 by omega]
          exact this

/-- The translated loop of `_readuie` computes `readUIEAux` (returned position = the terminating 1). -/
theorem uie_loop (b : Bits) (P : Int) (L : Bool) (p : Nat) (fuel : Nat) (k c : Nat) (h : b.length - (p + k) < fuel) :
    Gen.SrcC8.readuie.loop1 b P L fuel (((p + k : Nat) : Int), (c : Int)) =
      match readUIEAux (b.drop (p + k)) c k with
      | none => .error .index
      | some (c', k') => .ok (((p + k' : Nat) : Int) - 1, (c' : Int)) := by
  apply uieLoop b p (Gen.SrcC8.readuie.loop1 b P L) _ fuel k c h
  intro n q c
  rw [Gen.SrcC8.readuie.loop1, bitAt_nat]
  cases b[q]? with
  | none => rfl
  | some x =>
    cases x
    · have e : ((q : Int) + 1) = ((q + 1 : Nat) : Int) := by omega
      simp only [Except.bind, Py.shlE, Bool.not_false, if_true, e, bitAt_nat]
      cases b[q + 1]? with
      | none => simp
      | some d => cases d <;> simp <;> first | rfl | (congr 2 <;> omega) | grind
    · simp [Except.bind]

/-- … from the initial state `(pos, 1)`. -/
theorem uie_loop0 (b : Bits) (P : Int) (L : Bool) (p : Nat) (fuel : Nat) (h : b.length - p < fuel) :
    Gen.SrcC8.readuie.loop1 b P L fuel ((p : Int), (1 : Int)) =
      match readUIEAux (b.drop p) 1 0 with
      | none => .error .index
      | some (c', k') => .ok (((p + k' : Nat) : Int) - 1, (c' : Int)) :=
  uie_loop b P L p fuel 0 1 (by omega)

/-- `Bits._readuie` as the source has it now = `C10.readUIE`. -/
theorem readuie_eq (b : Bits) (p : Nat) :
    Gen.SrcC8.readuie b (p : Int) false = (readUIE b p).map (fun r => ((r.1 : Int), (r.2 : Int))) := by
  unfold Gen.SrcC8.readuie readUIE
  simp only [Bool.false_eq_true, if_false]
  rw [uie_loop0 b _ _ p _ (by omega)]
  cases hz : readUIEAux (b.drop p) 1 0 with
  | none => simp [Py.remapErr, Except.bind, Except.map]
  | some r =>
    obtain ⟨c', k'⟩ := r
    have := readUIEAux_pos _ _ _ (Nat.le_refl 1) _ _ hz
    simp only [Py.remapErr, Except.bind, Except.map, Except.ok.injEq, Prod.mk.injEq]
    omega

/-- `Bits._readsie` as the source has it now = `C10.readSIE`. -/
theorem readsie_eq (b : Bits) (p : Nat) :
    Gen.SrcC8.readsie b (p : Int) false = (readSIE b p).map (fun r => (r.1, (r.2 : Int))) := by
  unfold Gen.SrcC8.readsie readSIE
  rw [readuie_eq]
  cases readUIE b p with
  | error e => rfl
  | ok r =>
    obtain ⟨c, q⟩ := r
    simp only [Except.map, Except.bind, bitAt_nat]
    rcases b[q]? with _ | d
    all_goals (try cases d)
    all_goals simp only [Except.map, Except.bind, Py.remapErr, bitAt_nat, decide_eq_true_eq, ne_eq, Bool.not_eq_true',
      decide_eq_false_iff_not, Decidable.not_not]
    all_goals split_ifs
    all_goals (first | omega | rfl | (simp only [Except.ok.injEq, Prod.mk.injEq]; omega) | (simp <;> omega))

/-- With `bitstring.options.lsb0` set every reader refuses (ReadError), whatever the data and the position. -/
theorem readue_lsb0 (b : Bits) (p : Int) : Gen.SrcC8.readue b p true = .error .read := by
  unfold Gen.SrcC8.readue; simp
theorem readse_lsb0 (b : Bits) (p : Int) : Gen.SrcC8.readse b p true = .error .read := by
  unfold Gen.SrcC8.readse; rw [readue_lsb0]; rfl
theorem readuie_lsb0 (b : Bits) (p : Int) : Gen.SrcC8.readuie b p true = .error .read := by
  unfold Gen.SrcC8.readuie; simp
theorem readsie_lsb0 (b : Bits) (p : Int) : Gen.SrcC8.readsie b p true = .error .read := by
  unfold Gen.SrcC8.readsie; rw [readuie_lsb0]; rfl

/-- Non-vacuity: `00101` is ue 4 / se -2 (5 bits); `01001` is uie 5, with a sign bit sie -5; truncated codes are the
    ReadError. -/
example : Gen.SrcC8.readue [false, false, true, false, true] 0 false = .ok (4, 5) := by rfl
example : Gen.SrcC8.readse [false, false, true, false, true] 0 false = .ok (-2, 5) := by rfl
example : Gen.SrcC8.readuie [false, true, false, false, true] 0 false = .ok (5, 5) := by rfl
example : Gen.SrcC8.readsie [false, true, false, false, true, true] 0 false = .ok (-5, 6) := by rfl
example : Gen.SrcC8.readue [false, false, true, false] 0 false = .error .read := by rfl
example : Gen.SrcC8.readuie [true, false, false] 1 false = .error .read := by rfl
end BM.C10.SrcC8
