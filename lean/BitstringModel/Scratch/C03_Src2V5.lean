/-
  Props/C03_Src2.lean — tie between C03's hand-written ALG transcriptions of `BitArray.insert` / `BitArray.overwrite`
  and the CURRENT source text (second batch; the first is Props/C03_Src.lean).

  `Gen.SrcV5.ba_insert self_len pos len_bs bs_is_self` / `Gen.SrcV5.ba_overwrite …` are regenerated on every run by
  harness/translate.py from bitstring/bitarray_.py: `self_len = len(self)`, `len_bs = len(bs)` (after the conversion),
  `bs_is_self = (bs is self)`; the position arithmetic and the guards are translated, the effects
  (`bs = self._create_from_bitstype(bs)`, `bs = self._copy()`, `self._insert(bs, _)`, `self._overwrite(bs, _)`) are
  recorded.  `opMeaning` runs a recorded trace effect by effect, carrying the operand as the model's `Operand`, with
  the model's own primitives `Alg._insert` / `Alg._overwrite`; the theorems state that, for EVERY content, EVERY
  operand (the object itself included) and EVERY integer position, the translated method IS `Alg.insert` /
  `Alg.overwrite` of Model/C03.lean.

  The proofs are shape-agnostic (checked against harmlessly rewritten sources as well, Variants/Src*.lean): case
  distinctions are made on semantic conditions only, every `if` is decided from them by `omega`, recorded positions are
  compared with the model's by `omega`.
-/
import BitstringModel.Model.C03
import BitstringModel.Variants.SrcV5
namespace BM.C03.SrcV52
open BM BM.C03

/-- Result of a translated method whose recorded effects are themselves fallible: an exception raised by the
    translated guards is the outcome; otherwise the trace is handed to its meaning (`none` = unknown trace). -/
def interp (r : Except Err (List Py.Act)) (m : List Py.Act → Option (Except Err Bits)) : Option (Except Err Bits) :=
  match r with
  | .error e => some (.error e)
  | .ok tr => m tr

/-- Meaning of a trace of `BitArray.insert` / `overwrite` on the content `l`, effect by effect; the first argument is
    what the local `bs` currently denotes, as the model's `Operand` (a value, or the object itself):
    * `bs = self._create_from_bitstype(bs)` — the caller's operand is a bitstring already: `bs` is unchanged (and still
      the object itself if it was);
    * `bs = self._copy()` — `bs` is now a value: the current bits of `self` (this is the model's `b.val l` for
      `b = .self`; `Alg.overwrite` hands `.lit (b.val l)` to `_overwrite` for the same reason);
    * `self._insert(bs, p)` = `Alg._insert l (bs.val l) p`, `self._overwrite(bs, p)` = `Alg._overwrite l bs p` (with its
      `bs is self` branch, reached only if no copy was made) — the mutation ends the method; the model's primitives take
      a `Nat` position, a negative recorded position has no meaning (`none`);
    * the empty remainder = the method returned, content unchanged. -/
def opMeaning (l : Bits) : Operand → List Py.Act → Option (Except Err Bits)
  | _, [] => some (.ok l)
  | b, ⟨"bs = self._create_from_bitstype(bs)", []⟩ :: rest => opMeaning l b rest
  | _, ⟨"bs = self._copy()", []⟩ :: rest => opMeaning l (.lit l) rest
  | b, [⟨"self._insert(bs, _)", [some p]⟩] => if 0 ≤ p then some (Alg._insert l (b.val l) p.toNat) else none
  | b, [⟨"self._overwrite(bs, _)", [some p]⟩] => if 0 ≤ p then some (Alg._overwrite l b p.toNat) else none
  | _, _ => none

/-! ### the meaning, one effect at a time -/

theorem opMeaning_nil (l : Bits) (b : Operand) : opMeaning l b [] = some (.ok l) := by
  simp [opMeaning]

theorem opMeaning_create (l : Bits) (b : Operand) (rest : List Py.Act) :
    opMeaning l b (⟨"bs = self._create_from_bitstype(bs)", []⟩ :: rest) = opMeaning l b rest := by
  simp [opMeaning]

theorem opMeaning_copy (l : Bits) (b : Operand) (rest : List Py.Act) :
    opMeaning l b (⟨"bs = self._copy()", []⟩ :: rest) = opMeaning l (.lit l) rest := by
  simp [opMeaning]

/-- The recorded position `p` and the model's `q`, the operand's value and the model's `v` are related by hypotheses
    (so the caller never depends on how the source spells them). -/
theorem opMeaning_insert (l : Bits) (b : Operand) (p : Int) (q : Nat) (v : Bits) (hp : p = (q : Int))
    (hv : b.val l = v) : opMeaning l b [⟨"self._insert(bs, _)", [some p]⟩] = some (Alg._insert l v q) := by
  subst hp hv; simp [opMeaning]

theorem opMeaning_overwrite (l : Bits) (b b' : Operand) (p : Int) (q : Nat) (hp : p = (q : Int)) (hb : b = b') :
    opMeaning l b [⟨"self._overwrite(bs, _)", [some p]⟩] = some (Alg._overwrite l b' q) := by
  subst hp hb; simp [opMeaning]

/-! ### shape-agnostic proof vocabulary -/

/-- Decide every `if` whose condition (or its negation) follows from the context by linear arithmetic. -/
macro "eval_guards" : tactic => `(tactic| simp (disch := omega) only [if_pos, if_neg])

/-- Bool guards → propositions, decide them from the context, flatten the trace, run the operand bookkeeping. -/
macro "run_guards" : tactic => `(tactic| (
  try simp only [Operand.isSelf, Bool.false_eq_true, if_true, if_false,
    Bool.not_eq_true', Bool.not_eq_true, Bool.and_eq_true, Bool.or_eq_true, decide_eq_true_eq,
    decide_eq_false_iff_not, Bool.not_eq_false', Bool.not_eq_false, Bool.and_eq_false_iff, Bool.or_eq_false_iff,
    ne_eq, Bool.not_not, Except.bind]
  try eval_guards
  try simp only [interp, Except.map, List.nil_append, List.cons_append, List.append_assoc, List.singleton_append,
    opMeaning_create, opMeaning_copy, opMeaning_nil]))

set_option hygiene false in
/-- The semantic case distinction shared by both methods: the operand's value is named `v` (`hv`), then: empty operand,
    which operand, sign of `pos`, the two bounds. -/
macro "pos_cases" l:ident b:ident pos:ident : tactic => `(tactic| (
  simp only []
  generalize hv : Operand.val $l:ident $b:ident = v
  by_cases hemp : v.length = 0 <;>
  cases $b:ident <;>
  by_cases hneg : $pos:ident < 0 <;>
  by_cases hlo : 0 ≤ $pos:ident + (($l:ident).length : Int) <;>
  by_cases hhi : $pos:ident ≤ (($l:ident).length : Int)))

/-- `BitArray.insert(bs, pos)` as the source has it now = `Alg.insert`, for every content `l`, every operand `b`
    (`bs is self` included) and every integer `pos` (out of range: ValueError on both sides; empty operand: nothing
    happens, but only after the position check).  No hypothesis. -/
theorem ba_insert_eq (l : Bits) (b : Operand) (pos : Int) :
    interp (Gen.SrcV5.ba_insert (l.length : Int) pos ((b.val l).length : Int) b.isSelf) (opMeaning l b)
      = some (Alg.insert l b pos) := by
  unfold Gen.SrcV5.ba_insert Alg.insert
  pos_cases l b pos <;> run_guards <;>
    first
      | done
      | (refine opMeaning_insert l _ _ _ _ ?_ ?_ <;> first | omega | exact hv)

/-- `BitArray.overwrite(bs, pos)` as the source has it now = `Alg.overwrite`.  After `bs = self._copy()` the operand is
    a value, so `_overwrite`'s `bs is self` branch is not reached from the public method — the model passes
    `.lit (b.val l)`, the meaning passes `.lit l` after the recorded copy: the same operand.  No hypothesis. -/
theorem ba_overwrite_eq (l : Bits) (b : Operand) (pos : Int) :
    interp (Gen.SrcV5.ba_overwrite (l.length : Int) pos ((b.val l).length : Int) b.isSelf) (opMeaning l b)
      = some (Alg.overwrite l b pos) := by
  unfold Gen.SrcV5.ba_overwrite Alg.overwrite
  pos_cases l b pos <;> run_guards <;>
    first
      | done
      | (refine opMeaning_overwrite l _ _ _ _ ?_ ?_ <;> first | omega | exact congrArg Operand.lit hv)

/-! ### non-vacuity -/

/-- `a.insert(a, -1)` on `101`: create, copy, `_insert` really run and give `10 101 1`. -/
example : interp (Gen.SrcV5.ba_insert 3 (-1) 3 true) (opMeaning [true, false, true] .self)
    = some (.ok [true, false, true, false, true, true]) := by
  decide

/-- `a.overwrite('0b00', 2)` on `111`: overwriting past the end extends. -/
example : interp (Gen.SrcV5.ba_overwrite 3 2 2 false) (opMeaning [true, true, true] (.lit [false, false]))
    = some (.ok [true, true, false, false]) := by
  decide

example : interp (Gen.SrcV5.ba_overwrite 3 4 2 false) (opMeaning [true, true, true] (.lit [false, false]))
    = some (.error .value) := by
  decide

end BM.C03.SrcV52
