/-
  Props/C17_Src.lean — tie between C17's hand-written ALG transcriptions of the byte-source constructors
  (`setBytes` = `Bits._setbytes_with_truncation`, `Store.frombuffer` = `BitStore.frombuffer`) and the CURRENT source
  text.

  `Gen/Src.lean` is regenerated on every run by harness/translate.py from /repo's working tree: the guards and the
  index arithmetic of each listed Python function are translated statement by statement, and every effect on an
  object is recorded as a `Py.Act` (source text with the integer sub-expressions replaced by `_`, plus their
  values).  Below, `…Meaning` gives each recorded effect the meaning the C17 model gives to the primitive it names
  (`BitStore.frombytes` = `Store.frombytes`, `getslice_msb0` = `Store.getslice`, `bitarray(buffer=…)` = `bytesToBits`,
  a bitarray slice = `C17.pySlice`), and the theorems state that, for EVERY input, the translated function under
  that meaning IS the ALG function the theorems of Props/C17.lean are about — rejected inputs included (both sides
  are `Except` values).  A change of the source changes `Gen/Src.lean`; the theorem then no longer checks.
-/
import BitstringModel.Model.C17
import BitstringModel.Variants.SrcA6
import Mathlib.Tactic.SplitIfs
namespace BM.C17.SrcA6
open BM BM.C17

/-- `modified_length` as `Store.modLen` keeps it (a length, never negative). -/
def modLenOf (ml : Option Int) : Option Nat := ml.map Int.toNat

/-- Meaning of the effects recorded for `Bits._setbytes_with_truncation(data, length, offset)`; the result is
    `self._bitstore` afterwards.
    * `return self._setbytes(data)` : `self._bitstore = BitStore.frombytes(bytes(data))` = `Store.frombytes data`;
    * `data = bytearray(data)` : a copy — no change of value;
    * `self._bitstore = BitStore.frombytes(data).getslice_msb0(a, b)` :
      `(Store.frombytes data).getslice (some a) (some b)`, the expression `setBytes` uses. -/
def setBytesMeaning (data : Bytes) : List Py.Act → Option Store
  | [⟨"return self._setbytes(data)", []⟩] => some (Store.frombytes data)
  | [⟨"data = bytearray(data)", []⟩,
     ⟨"self._bitstore = BitStore.frombytes(data).getslice_msb0(_, _)", [some a, some b]⟩] =>
      some ((Store.frombytes data).getslice (some a) (some b))
  | _ => none

/-- Meaning of the effects recorded for `BitStore.frombuffer(buffer, length)` on a buffer holding the bytes `data`;
    the three fields of C17's `Store` are exactly the three attributes the function sets:
    * `L1 = super().__new__(cls)`, `L1._bitarray = bitarray.bitarray(buffer=buffer)` : `buf = bytesToBits data`;
    * `L1.immutable = True` : `immutable = true`;
    * `L1._bitarray = L1._bitarray[:l]` (optional) : `buf` becomes `pySlice buf none (some l)`;
    * `return L1` with the recorded final value `final x.modified_length = ml` : `modLen = ml`. -/
def frombufferMeaning (data : Bytes) : List Py.Act → Option Store
  | [⟨"L1 = super().__new__(cls)", []⟩, ⟨"L1._bitarray = bitarray.bitarray(buffer=buffer)", []⟩,
     ⟨"L1.immutable = True", []⟩, ⟨"return L1", []⟩, ⟨"final x.modified_length = _", [ml]⟩] =>
      some ⟨bytesToBits data, modLenOf ml, true⟩
  | [⟨"L1 = super().__new__(cls)", []⟩, ⟨"L1._bitarray = bitarray.bitarray(buffer=buffer)", []⟩,
     ⟨"L1.immutable = True", []⟩, ⟨"L1._bitarray = L1._bitarray[:_]", [some l]⟩, ⟨"return L1", []⟩,
     ⟨"final x.modified_length = _", [ml]⟩] =>
      some ⟨pySlice (bytesToBits data) none (some l), modLenOf ml, true⟩
  | _ => none

/-- Closes the leaves left after ALL guards of both sides have been split with `split_ifs` (whatever their order,
    nesting or polarity in the source): contradictory guards (`omega`, or a literal `False`), syntactically identical
    results (`with_reducible rfl`), or results that agree after unfolding the meaning (`simp`) up to the way the
    index arithmetic is written (`omega` / congruence + linear arithmetic by `grind`). -/
local macro "leaf" : tactic =>
  `(tactic| first
    | omega
    | (exfalso; assumption)
    | with_reducible rfl
    | (simp [Except.map, setBytesMeaning, frombufferMeaning, modLenOf]; first | done | omega | grind))

/-- `Bits._setbytes_with_truncation` as the source has it now = `C17.setBytes`, for every byte string, length and
    offset (`len_data` is `len(data)`, the number of bytes).  Same argument order as the translated function:
    `(length, offset)`. -/
theorem setbytes_with_truncation_eq (data : Bytes) (length offset : Option Int) :
    (Gen.SrcA6.setbytes_with_truncation length offset (data.length : Int)).map (setBytesMeaning data)
      = (setBytes data length offset).map some := by
  unfold Gen.SrcA6.setbytes_with_truncation setBytes
  rcases offset with _ | o <;> rcases length with _ | l <;>
    simp [Except.map, negLen, setBytesMeaning]
  all_goals (split_ifs <;> leaf)

/-- `BitStore.frombuffer` as the source has it now = `C17.Store.frombuffer`, for every buffer content and every
    `length` (`len_buffer_bits` is `len(x._bitarray)` = the number of bits of the buffer): the store is immutable,
    holds the buffer bits — cut to `[:length]` exactly when the source cuts them — and its `modLen` is the final
    `modified_length` the translation recorded (`None` on every path). -/
theorem frombuffer_eq (data : Bytes) (length : Option Int) :
    (Gen.SrcA6.frombuffer length ((bytesToBits data).length : Int)).map (frombufferMeaning data)
      = (Store.frombuffer data length).map some := by
  unfold Gen.SrcA6.frombuffer Store.frombuffer
  rcases length with _ | l <;>
    simp [Except.map, frombufferMeaning, modLenOf]
  all_goals (split_ifs <;> leaf)

/-- Non-vacuity: `Bits(bytes=b'\xa5\x0f', offset=4, length=8)`. -/
example : (Gen.SrcA6.setbytes_with_truncation (some 8) (some 4) 2).map (setBytesMeaning [0xa5, 0x0f])
    = .ok (some ⟨[false, true, false, true, false, false, false, false], none, false⟩) := by
  rfl

/-- Non-vacuity: a two-byte buffer read with `length=5` — the six-effect trace. -/
example : (Gen.SrcA6.frombuffer (some 5) 16).map (frombufferMeaning [0xa5, 0x0f])
    = .ok (some ⟨[true, false, true, false, false], none, true⟩) := by
  rfl

end BM.C17.SrcA6
