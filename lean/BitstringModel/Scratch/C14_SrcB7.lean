/-
  Props/C14_Src.lean — tie between C14's hand-written ALG transcription of `Array.insert` and the CURRENT source text.

  `Gen.SrcB7.array_insert self_len i itemsize` is regenerated on every run by harness/translate.py from `Array.insert`
  (bitstring/array_.py): `self_len` is `len(self)` (the number of items), `itemsize` is `self._dtype.bitlength`; the
  clamping of `i` is translated, the one effect `self.data.insert(self._create_element(x), i * bitlength)` is recorded
  with the value of the bit offset.  `insertMeaning` gives that effect the meaning the C14 model gives it
  (`createElement`, then `bInsert` = `BitArray.insert` at that bit offset, the data left alone when either raises), and
  `array_insert_eq` states that, for EVERY dtype codec (every item size, 0 included), EVERY data buffer (every item
  count, trailing bits included), EVERY index (negative included) and EVERY value, the translated function under that
  meaning IS `C14.insert`, the function the theorems of Props/C14*.lean are about.
-/
import BitstringModel.Model.C14
import BitstringModel.Variants.SrcB7
namespace BM.C14.SrcB7
open BM BM.C14

/-- Meaning of the effect recorded for `Array.insert` on the data `d` of an Array with dtype codec `c`, inserting the
    value `v`: Python evaluates the arguments first — `self._create_element(x)` is `C14.createElement c v` and may
    raise — then `self.data.insert(element, off)` is `C14.bInsert d element off`. -/
def insertMeaning {V : Type} (c : Codec V) (d : Bits) (v : V) : List Py.Act → Option (Step Unit)
  | [⟨"self.data.insert(self._create_element(x), _)", [some off]⟩] =>
      some (match createElement c v with
            | .error e => ⟨d, .error e⟩
            | .ok b =>
              match bInsert d b off with
              | .error e => ⟨d, .error e⟩
              | .ok d' => ⟨d', .ok ()⟩)
  | _ => none

/-! The proof must not depend on how the source spells the clamping (`if` statement vs conditional expression,
    `min(a, b)` vs `min(b, a)`, `i * L` vs `L * i` …): it is also checked against harmlessly rewritten sources
    (Scratch/C14_SrcV*.lean). -/

/-- Decide every `if` whose condition (or its negation) follows from the context by linear arithmetic. -/
macro "eval_guards" : tactic => `(tactic| simp (disch := omega) only [if_pos, if_neg])

/-- Bool guards → propositions, decide them, flatten the trace. -/
macro "run_guards" : tactic => `(tactic| (
  try simp only [Bool.not_eq_true', Bool.not_eq_true, Bool.and_eq_true, Bool.or_eq_true, decide_eq_true_eq,
    decide_eq_false_iff_not, Bool.not_eq_false', Bool.not_eq_false, Bool.and_eq_false_iff, Bool.or_eq_false_iff,
    ne_eq, Bool.not_not, Except.bind]
  try eval_guards
  try simp only [Except.map, List.nil_append, List.cons_append, List.append_assoc, List.singleton_append]))

theorem insertMeaning_one {V : Type} (c : Codec V) (d : Bits) (v : V) (off : Int) :
    insertMeaning c d v [⟨"self.data.insert(self._create_element(x), _)", [some off]⟩] =
      some (match createElement c v with
            | .error e => ⟨d, .error e⟩
            | .ok b =>
              match bInsert d b off with
              | .error e => ⟨d, .error e⟩
              | .ok d' => ⟨d', .ok ()⟩) := by
  simp [insertMeaning]

/-- `Array.insert` as the source has it now = `C14.insert`, for every codec / data / index / value.  The translated
    function never raises by itself (`.ok`); exceptions of `_create_element` / `BitArray.insert` are part of the
    `Step` on both sides. -/
theorem array_insert_eq {V : Type} (c : Codec V) (d : Bits) (i : Int) (v : V) :
    (Gen.SrcB7.array_insert ((len c d : Nat) : Int) i ((c.w : Nat) : Int)).map (insertMeaning c d v)
      = .ok (some (insert c d i v)) := by
  unfold Gen.SrcB7.array_insert insert
  generalize len c d = n
  generalize c.w = w
  by_cases hi : i < 0 <;> run_guards <;> simp only [insertMeaning_one]
  all_goals grind

/-- Non-vacuity: inserting 2 at index −1 of the `uint2` Array `[1, 3]` (data `0111`) gives data `011011`. -/
example :
    ((Gen.SrcB7.array_insert 2 (-1) 2).map
      (insertMeaning (mkCodec .u "uint" 2 1 .int false) [false, true, true, true] (.int 2))).map
        (fun o => o.map Step.data)
      = .ok (some [false, true, true, false, true, true]) := by
  rfl

/-- … and an index far past the end is clamped to the end. -/
example :
    ((Gen.SrcB7.array_insert 2 99 2).map
      (insertMeaning (mkCodec .u "uint" 2 1 .int false) [false, true, true, true] (.int 2))).map
        (fun o => o.map Step.data)
      = .ok (some [false, true, true, true, true, false]) := by
  rfl

end BM.C14.SrcB7
