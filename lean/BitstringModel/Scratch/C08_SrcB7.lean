/-
  Props/C08_Src.lean — tie between C08's hand-written ALG transcriptions of the construction routes
  (`fromBuffer` = `BitStore.frombuffer`, `fromBytes` = `Bits._setbytes_with_truncation`,
  `fromBitarray` = `Bits._setbitarray`) and the CURRENT source text.

  `Gen/Src.lean` is regenerated on every run by harness/translate.py from /repo's working tree: the guards and the
  index arithmetic of each listed Python function are translated statement by statement, and every effect on an
  object is recorded as a `Py.Act` (source text with the integer sub-expressions replaced by `_`, plus their
  values).  Below, `…Meaning` gives each recorded effect the meaning the C08 model gives to the primitive it names
  (`BitStore(bits)` / `BitStore.frombytes` = `C08.ofBits`, `getslice_msb0` = `C08.getSlice`, a bitarray slice
  `x[a:b]` = `Py.getSlice x a b none`, the model's Python slicing), and the theorems state that, for EVERY input, the
  translated function under that meaning IS the ALG function the theorems of Props/C08.lean are about — rejected
  inputs included.  A change of the source changes `Gen/Src.lean`; the theorem then no longer checks.

  Shape of the statements.  The C08 primitives (`getSlice`, `Py.getSlice`) are `Except`-valued, so a meaning is an
  `Option (Except Err Store)`: `none` = "not a trace this file knows", `some (.error e)` = the primitive raised.
  `run m r` joins that with the translated function's own result `r : Except Err (List Py.Act)` (an exception raised
  by a translated guard is the result; otherwise the meaning of the trace), and every theorem reads
  `run meaning (translated …) = some (ALG …)`: the trace is always a known one and its meaning is the ALG result.
-/
import BitstringModel.Model.C08
import BitstringModel.Variants.SrcB7
import BitstringModel.Proofs.C01
import Mathlib.Tactic.SplitIfs
namespace BM.C08.SrcB7
open BM BM.C08

/-- The outcome of a trace-mode function under a meaning: its own exception, or the meaning of its trace. -/
def run {α} (m : List Py.Act → Option (Except Err α)) : Except Err (List Py.Act) → Option (Except Err α)
  | .error e => some (.error e)
  | .ok tr => m tr

/-- `modified_length` as the model's `Store.modLen` keeps it (a length, never negative). -/
def modLenOf (ml : Option Int) : Option Nat := ml.map Int.toNat

/-- Meaning of the effects recorded for `BitStore.frombuffer(buffer, length)` where the buffer holds `data`:
    * `L1 = super().__new__(cls)`, `L1._bitarray = bitarray.bitarray(buffer=buffer)` : a store whose raw bitarray is
      the buffer's bits, `raw = data`;
    * `L1.immutable = True` : C08's `Store` does not carry the flag (no C08 observation depends on it) — no effect;
    * `L1._bitarray = L1._bitarray[:l]` (optional) : `raw` becomes the Python slice `Py.getSlice data none (some l) none`;
    * `return L1` with the recorded final value `final x.modified_length = ml` : the resulting `Store` has
      `modLen = ml` (the translator tracks the attribute `x.modified_length` through the body and records what it
      is when the function returns). -/
def frombufferMeaning (data : Bits) : List Py.Act → Option (Except Err Store)
  | [⟨"L1 = super().__new__(cls)", []⟩, ⟨"L1._bitarray = bitarray.bitarray(buffer=buffer)", []⟩,
     ⟨"L1.immutable = True", []⟩, ⟨"return L1", []⟩, ⟨"final x.modified_length = _", [ml]⟩] =>
      some (.ok ⟨data, modLenOf ml⟩)
  | [⟨"L1 = super().__new__(cls)", []⟩, ⟨"L1._bitarray = bitarray.bitarray(buffer=buffer)", []⟩,
     ⟨"L1.immutable = True", []⟩, ⟨"L1._bitarray = L1._bitarray[:_]", [some l]⟩, ⟨"return L1", []⟩,
     ⟨"final x.modified_length = _", [ml]⟩] =>
      some ((Py.getSlice data none (some l) none).map fun b => ⟨b, modLenOf ml⟩)
  | _ => none

/-- Meaning of the effects recorded for `Bits._setbytes_with_truncation(data, length, offset)`, `data` being the
    bits of the bytes object (C08 keeps sources as bits):
    * `return self._setbytes(data)` : `self._bitstore = BitStore.frombytes(bytes(data))` = `ofBits data`;
    * `data = bytearray(data)` : a copy — no change of value;
    * `self._bitstore = BitStore.frombytes(data).getslice_msb0(a, b)` : `getSlice (ofBits data) (some a) (some b)`. -/
def bytesMeaning (data : Bits) : List Py.Act → Option (Except Err Store)
  | [⟨"return self._setbytes(data)", []⟩] => some (.ok (ofBits data))
  | [⟨"data = bytearray(data)", []⟩,
     ⟨"self._bitstore = BitStore.frombytes(data).getslice_msb0(_, _)", [some a, some b]⟩] =>
      some (getSlice (ofBits data) (some a) (some b))
  | _ => none

/-- Meaning of the effects recorded for `Bits._setbitarray(ba, length, offset)`: `BitStore(ba[a:])` /
    `BitStore(ba[a:b])` = `ofBits` of the Python slice of the bitarray's bits. -/
def bitarrayMeaning (ba : Bits) : List Py.Act → Option (Except Err Store)
  | [⟨"self._bitstore = BitStore(ba[_:])", [some a]⟩] => some ((Py.getSlice ba (some a) none none).map ofBits)
  | [⟨"self._bitstore = BitStore(ba[_:_])", [some a, some b]⟩] =>
      some ((Py.getSlice ba (some a) (some b) none).map ofBits)
  | _ => none

/-- `x[:l]` for `0 ≤ l ≤ len(x)` is the first `l` elements. -/
theorem getSlice_prefix {α} (x : List α) (l : Int) (h0 : 0 ≤ l) (h1 : l ≤ x.length) :
    Py.getSlice x none (some l) none = .ok (x.take l.toNat) := by
  rw [C01.getSlice_step1]
  have h : Py.sliceIndices none (some l) 1 x.length = (0, l, 1) := by
    simp only [Py.sliceIndices]
    have a1 : ¬ ((1 : Int) < 0) := by omega
    have a2 : ¬ (l < 0) := by omega
    simp only [a1, a2, if_false]
    congr 2
    omega
  rw [h]
  simp

/-- Closes the leaves left after ALL guards of both sides have been split with `split_ifs` (whatever their order,
    nesting or polarity in the source): contradictory guards (`omega`, or a literal `False`), syntactically identical
    results (`with_reducible rfl`), or results that agree after unfolding the meaning (`simp`; a prefix slice is
    rewritten by `getSlice_prefix`, its side conditions discharged by `omega` from the guards) up to the way the
    index arithmetic is written (`omega` / congruence + linear arithmetic by `grind`). -/
local macro "leaf" : tactic =>
  `(tactic| first
    | omega
    | (exfalso; assumption)
    | with_reducible rfl
    | (simp (disch := omega) [run, Except.map, frombufferMeaning, bytesMeaning, bitarrayMeaning, modLenOf, getSlice,
        ofBits, getSlice_prefix]
       first | done | omega | grind))

/-- `BitStore.frombuffer` as the source has it now = `C08.fromBuffer`, for every buffer content and every
    `length` (`len_buffer_bits` is `len(x._bitarray)`, the number of bits of the buffer).  In particular the
    resulting store's `modLen` is the final `modified_length` the translation recorded, and its `raw` is the buffer,
    cut to `[:length]` exactly when the source cuts it. -/
theorem frombuffer_eq (data : Bits) (length : Option Int) :
    run (frombufferMeaning data) (Gen.SrcB7.frombuffer length (data.length : Int)) = some (fromBuffer data length) := by
  unfold Gen.SrcB7.frombuffer fromBuffer
  rcases length with _ | l <;>
    simp [run, frombufferMeaning, modLenOf]
  all_goals (split_ifs <;> leaf)

/-- `Bits._setbytes_with_truncation` as the source has it now = `C08.fromBytes`, for every offset and length.
    C08 keeps the data as bits; the Python function sees a bytes object of `len(data) = m` bytes and computes with
    `len(data) * 8`.  The statement is therefore about data whose bit length is `8 * m` — which is what the bits of
    a bytes object always are; `fromBytes` is only ever applied to such data (the `bytes` route of the harness).
    NB argument order: Python `(data, length, offset)`, translated `(length, offset, len(data))`, model
    `(data, offset, length)`. -/
theorem setbytes_with_truncation_eq (data : Bits) (m : Nat) (hm : data.length = 8 * m) (offset length : Option Int) :
    run (bytesMeaning data) (Gen.SrcB7.setbytes_with_truncation length offset (m : Int))
      = some (fromBytes data offset length) := by
  have hlen : (data.length : Int) = (m : Int) * 8 := by omega
  unfold Gen.SrcB7.setbytes_with_truncation fromBytes
  rcases offset with _ | o <;> rcases length with _ | l <;>
    simp [run, bytesMeaning]
  all_goals (split_ifs <;> leaf)

/-- `Bits._setbitarray` as the source has it now = `C08.fromBitarray`, for every bitarray content, offset and
    length. -/
theorem setbitarray_eq (data : Bits) (offset length : Option Int) :
    run (bitarrayMeaning data) (Gen.SrcB7.setbitarray length offset (data.length : Int))
      = some (fromBitarray data offset length) := by
  unfold Gen.SrcB7.setbitarray fromBitarray
  rcases offset with _ | o <;> rcases length with _ | l <;>
    simp [run, bitarrayMeaning]
  all_goals (split_ifs <;> leaf)

/-- Non-vacuity: a 16-bit buffer read with `length=5` — the six-effect trace (with the `[:5]` cut). -/
example : run (frombufferMeaning [true, false, true, false, false, true, false, true,
                                  false, false, false, false, true, true, true, true])
    (Gen.SrcB7.frombuffer (some 5) 16) = some (.ok ⟨[true, false, true, false, false], none⟩) := by
  rfl

/-- Non-vacuity: one byte `0xa5`, `offset=2, length=4`. -/
example : run (bytesMeaning [true, false, true, false, false, true, false, true])
    (Gen.SrcB7.setbytes_with_truncation (some 4) (some 2) 1) = some (.ok (ofBits [true, false, false, true])) := by
  rfl

example : run (bitarrayMeaning [true, false, true, true]) (Gen.SrcB7.setbitarray (some 2) (some 1) 4)
    = some (.ok (ofBits [false, true])) := by
  rfl

end BM.C08.SrcB7
