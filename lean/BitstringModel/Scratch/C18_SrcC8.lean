/-
  Props/C18_Src.lean — tie between C18's own hand-written transcription of the loops of `BitArray.byteswap` and the
  CURRENT source text.

  `Gen.SrcC8.byteswap_core self_len start_v end_v bytesizes repeat` is regenerated on every run by harness/translate.py
  from `BitArray.byteswap` (bitstring/bitarray_.py), from `repeats = 0` on (range validated, format already a list of
  byte sizes): the two `for` loops are auxiliary structurally recursive functions over the lists iterated, the effects
  `self._reversebytes(_, _)` and `return _` are recorded.  `bsFold` FOLDS a recorded trace over the current bits with
  C18's own `reversebytes`; `byteswap_core_eq` states, for EVERY content, range, list of byte sizes and repeat flag,
  equality with the arithmetic core of `C18.byteswap` (`coreAlg`, shown to be literally that part of it).

  C18 models the outer `for patternend in range(…)` as a `while patternend < finalbit + 1` with fuel `finalbit + 1`;
  the translated source iterates over `range(start + total, finalbit + 1, total)`.  `swapLoop_count` bridges the two:
  the fuel always suffices and the loop runs exactly `len(range(…))` times.
-/
import BitstringModel.Model.C18
import BitstringModel.Variants.SrcC8
namespace BM.C18.SrcC8
open BM BM.C18

/-! ### shape-agnostic proof vocabulary -/

/-- Bool guards → propositions (goal and hypotheses), then decide every `if` from the context by `omega`. -/
macro "run_guards" : tactic => `(tactic| (
  try simp only [Bool.not_eq_true', Bool.not_eq_true, Bool.and_eq_true, Bool.or_eq_true, decide_eq_true_eq,
    decide_eq_false_iff_not, Bool.not_eq_false', Bool.not_eq_false, Bool.and_eq_false_iff, Bool.or_eq_false_iff,
    ne_eq, Bool.not_not, ge_iff_le, gt_iff_lt] at *
  try (simp (disch := omega) only [if_pos, if_neg] at *)))

/-- Peel one `bind` off an equation `x.bind f = r` without naming `x` (its arity may differ between variants). -/
theorem bind_eq_elim {ε α β : Type} {x : Except ε α} {f : α → Except ε β} {r : Except ε β} {P : Prop}
    (h : x.bind f = r) (herr : ∀ e, x = .error e → r = .error e → P) (hok : ∀ a, x = .ok a → f a = r → P) : P := by
  cases x with
  | error e => exact herr e rfl h.symm
  | ok a => exact hok a rfl h

/-! ### the model side -/

/-- The arithmetic core of `C18.byteswap`: what it does once the range `[a, z)` is validated and the format has become
    the list `sizes` of byte sizes. -/
def coreAlg (l : Bits) (a z : Nat) (sizes : List Nat) (rep : Bool) : Nat × Bits :=
  let total := 8 * sizes.sum
  if total = 0 then (0, l) else
  let finalbit := if rep then z else min (a + total) z
  swapLoop (finalbit + 1) l sizes total (a + total) finalbit 0

/-- `coreAlg` IS that part of `C18.byteswap`. -/
theorem byteswap_eq_coreAlg (l : Bits) (f : Fmt) (s e : Option Int) (rep : Bool) :
    byteswap l f s e rep =
      match validateSlice l.length s e with
      | .error err => .error err
      | .ok (a, z) =>
        match fmtSizes f a z with
        | .error err => .error err
        | .ok sizes => .ok (coreAlg l a z sizes rep) := by
  unfold byteswap coreAlg
  cases validateSlice l.length s e with
  | error err => rfl
  | ok p =>
    obtain ⟨a, z⟩ := p
    simp only []
    cases fmtSizes f a z with
    | error err => rfl
    | ok sizes => simp only []; split <;> rfl

/-- The outer loop run a given number of times (no test, no fuel). -/
def swapLoopN : Nat → Bits → List Nat → Nat → Nat → Bits
  | 0, l, _, _, _ => l
  | c + 1, l, sizes, total, pe => swapLoopN c (swapOnce l sizes (pe - total)) sizes total (pe + total)

theorem rangeLen_zero (A B T : Int) (hT : 0 < T) (h : ¬ A < B) : Py.rangeLen A B T = 0 := by
  unfold Py.rangeLen; simp [hT, h]

theorem rangeLen_step (A B T : Int) (hT : 0 < T) (h : A < B) :
    Py.rangeLen A B T = Py.rangeLen (A + T) B T + 1 := by
  unfold Py.rangeLen
  simp only [gt_iff_lt, hT, if_true, h]
  by_cases h2 : A + T < B
  · simp only [h2, if_true]
    have e : B - A - 1 = (B - (A + T) - 1) + 1 * T := by omega
    rw [e, Int.add_mul_ediv_right _ _ (by omega : T ≠ 0)]
    have : 0 ≤ (B - (A + T) - 1) / T := Int.ediv_nonneg (by omega) (by omega)
    omega
  · simp only [h2, if_false]
    have : (B - A - 1) / T = 0 := Int.ediv_eq_zero_of_lt (by omega) (by omega)
    rw [this]; rfl

/-- C18's fuelled `while` runs exactly `len(range(pe, finalbit + 1, total))` times when the fuel covers the distance to
    `finalbit + 1` (it does: the fuel is `finalbit + 1`). -/
theorem swapLoop_count (sizes : List Nat) (total fb : Nat) (ht : 0 < total) (fuel : Nat) :
    ∀ (l : Bits) (pe reps : Nat), fb + 1 ≤ pe + fuel →
      swapLoop fuel l sizes total pe fb reps =
        (reps + Py.rangeLen (pe : Int) ((fb + 1 : Nat) : Int) (total : Int),
         swapLoopN (Py.rangeLen (pe : Int) ((fb + 1 : Nat) : Int) (total : Int)) l sizes total pe) := by
  induction fuel with
  | zero =>
    intro l pe reps h
    rw [rangeLen_zero _ _ _ (by omega) (by omega)]
    simp [swapLoop, swapLoopN]
  | succ fuel ih =>
    intro l pe reps h
    simp only [swapLoop]
    by_cases hlt : pe < fb + 1
    · simp only [hlt, if_true]
      rw [ih _ _ _ (by omega)]
      rw [rangeLen_step (pe : Int) _ (total : Int) (by omega) (by omega)]
      have e : ((pe : Int) + (total : Int)) = ((pe + total : Nat) : Int) := by omega
      rw [e]
      simp only [swapLoopN]
      congr 1
      omega
    · simp only [hlt, if_false]
      rw [rangeLen_zero _ _ _ (by omega) (by omega)]
      simp [swapLoopN]

/-! ### the meaning -/

/-- One recorded effect on the current bits: `self._reversebytes(a, b)` is C18's `reversebytes cur a b`. -/
def bsStep (cur : Bits) : Py.Act → Option Bits
  | ⟨"self._reversebytes(_, _)", [some a, some b]⟩ =>
      if 0 ≤ a ∧ 0 ≤ b then some (reversebytes cur a.toNat b.toNat) else none
  | _ => none

/-- The effects of a prefix, folded. -/
def bsPre : Bits → List Py.Act → Option Bits
  | s, [] => some s
  | s, a :: rest => (bsStep s a).bind fun c => bsPre c rest

/-- Meaning of a whole trace: the effects folded, then `return k` yields `(k, bits)`. -/
def bsFold : Bits → List Py.Act → Option (Nat × Bits)
  | s, [⟨"return _", [some k]⟩] => if 0 ≤ k then some (k.toNat, s) else none
  | s, a :: rest => (bsStep s a).bind fun c => bsFold c rest
  | _, [] => none

theorem bsPre_append (c0 : Bits) (p q : List Py.Act) :
    bsPre c0 (p ++ q) = (bsPre c0 p).bind fun c => bsPre c q := by
  induction p generalizing c0 with
  | nil => simp [bsPre]
  | cons a p ih =>
    simp only [List.cons_append, bsPre]
    cases bsStep c0 a with
    | none => simp
    | some c => simp [ih]

theorem bsFold_cons (s : Bits) (a x : Py.Act) (rest : List Py.Act) :
    bsFold s (a :: x :: rest) = (bsStep s a).bind fun c => bsFold c (x :: rest) := by
  simp [bsFold]

theorem bsFold_append (c0 : Bits) (p : List Py.Act) (x : Py.Act) (rest : List Py.Act) :
    bsFold c0 (p ++ x :: rest) = (bsPre c0 p).bind fun c => bsFold c (x :: rest) := by
  induction p generalizing c0 with
  | nil => simp [bsPre]
  | cons a p ih =>
    cases p with
    | nil =>
      simp only [List.cons_append, List.nil_append, bsFold_cons, bsPre]
      cases bsStep c0 a <;> simp
    | cons b p =>
      simp only [List.cons_append] at ih ⊢
      rw [bsFold_cons]
      simp only [bsPre]
      cases bsStep c0 a with
      | none => simp
      | some c => simpa [bsPre] using ih c

theorem bsFold_return (s : Bits) (k : Int) (c : Nat) (h : k = (c : Int)) :
    bsFold s [⟨"return _", [some k]⟩] = some (c, s) := by
  subst h; simp [bsFold]

theorem bsPre_snoc (c0 st : Bits) (tr : List Py.Act) (x y : Int) (a b : Nat)
    (hrun : bsPre c0 tr = some st) (hx : x = (a : Int)) (hy : y = (b : Int)) :
    bsPre c0 (tr ++ [⟨"self._reversebytes(_, _)", [some x, some y]⟩]) = some (reversebytes st a b) := by
  subst hx hy
  rw [bsPre_append, hrun]
  simp [bsPre, bsStep]

theorem sumI_cast (sizes : List Nat) : Py.sumI (sizes.map fun (k : Nat) => (k : Int)) = ((sizes.sum : Nat) : Int) := by
  have h : ∀ (acc : Int) (xs : List Nat),
      (xs.map fun (k : Nat) => (k : Int)).foldl (· + ·) acc = acc + ((xs.sum : Nat) : Int) := by
    intro acc xs
    induction xs generalizing acc with
    | nil => simp
    | cons x xs ih => simp only [List.map_cons, List.foldl_cons, List.sum_cons, ih]; omega
  simpa [Py.sumI] using h 0 sizes

theorem rangeList_eq (A B T A' B' T' : Int) (pe total cnt : Nat) (hc : Py.rangeLen A' B' T' = cnt)
    (hA : A = A') (hB : B = B') (hT : T = T') (hpe : A = (pe : Int)) (htot : T = (total : Int)) :
    Py.rangeList A B T = (List.range cnt).map (fun (k : Nat) => ((pe : Nat) : Int) + (k : Int) * (total : Int)) := by
  subst hA hB hT hc
  unfold Py.rangeList
  rw [hpe, htot]

/-! ### the loops -/

/-- Inner loop (`for bytesize in bytesizes`) against `C18.swapOnce`, by induction on the remaining sizes. -/
theorem inner_inv (c0 : Bits) (p1 p2 p3 : Int) (p4 : List Int) (p5 : Bool) (p6 p7 p8 p9 : Int) (sizes : List Nat) :
    ∀ (bi : Int) (bs : Nat) (tr : List Py.Act) (st : Bits) (r : Except Err (Int × List Py.Act)),
      bi = (bs : Int) → bsPre c0 tr = some st →
      Gen.SrcC8.byteswap_core.loop2 p1 p2 p3 p4 p5 p6 p7 p8 p9 (sizes.map fun (k : Nat) => (k : Int)) (bi, tr) = r →
      ∃ (bi' : Int) (tr' : List Py.Act), r = .ok (bi', tr') ∧ bsPre c0 tr' = some (swapOnce st sizes bs) := by
  induction sizes with
  | nil =>
    intro bi bs tr st r hbi hrun hr
    simp only [List.map_nil] at hr
    rw [Gen.SrcC8.byteswap_core.loop2] at hr
    exact ⟨bi, tr, hr.symm, by simpa [swapOnce] using hrun⟩
  | cons k ks ih =>
    intro bi bs tr st r hbi hrun hr
    simp only [List.map_cons] at hr
    rw [Gen.SrcC8.byteswap_core.loop2] at hr
    obtain ⟨bi', tr', h1, h2⟩ := ih _ (bs + k * 8) _ (reversebytes st bs (bs + k * 8)) r
      (by omega) (bsPre_snoc c0 st tr _ _ bs (bs + k * 8) hrun (by omega) (by omega)) hr
    exact ⟨bi', tr', h1, by simpa [swapOnce] using h2⟩

/-- Outer loop (`for patternend in range(…)`) against the counted loop `swapLoopN`, by induction on the count. -/
theorem outer_inv (c0 : Bits) (p1 p2 p3 : Int) (p5 : Bool) (tb p7 : Int)
    (sizes : List Nat) (total : Nat) (htb : tb = (total : Int)) (c : Nat) :
    ∀ (it : List Int) (pe : Nat) (ri : Int) (tr : List Py.Act) (st : Bits) (r : Except Err (Int × List Py.Act)),
      it = (List.range c).map (fun (k : Nat) => ((pe : Nat) : Int) + (k : Int) * (total : Int)) → total ≤ pe →
      bsPre c0 tr = some st →
      Gen.SrcC8.byteswap_core.loop1 p1 p2 p3 (sizes.map fun (k : Nat) => (k : Int)) p5 tb p7 it (ri, tr) = r →
      ∃ (ri' : Int) (tr' : List Py.Act), r = .ok (ri', tr') ∧ ri' = ri + (c : Int) ∧
        bsPre c0 tr' = some (swapLoopN c st sizes total pe) := by
  induction c with
  | zero =>
    intro it pe ri tr st r hit hpe hrun hr
    simp only [List.range_zero, List.map_nil] at hit
    subst hit
    rw [Gen.SrcC8.byteswap_core.loop1] at hr
    exact ⟨ri, tr, hr.symm, by simp, by simpa [swapLoopN] using hrun⟩
  | succ c ih =>
    intro it pe ri tr st r hit hpe hrun hr
    have hit' : it = ((pe : Nat) : Int) ::
        (List.range c).map (fun (k : Nat) => ((pe + total : Nat) : Int) + (k : Int) * (total : Int)) := by
      rw [hit, List.range_succ_eq_map, List.map_cons, List.map_map]
      congr 1
      · simp
      · apply List.map_congr_left
        intro k _
        simp only [Function.comp, Nat.succ_eq_add_one]
        push_cast
        rw [Int.add_mul]; omega
    subst hit'
    rw [Gen.SrcC8.byteswap_core.loop1] at hr
    refine bind_eq_elim hr ?_ ?_
    · intro e hx _
      obtain ⟨_, _, h1, _⟩ := inner_inv c0 _ _ _ _ _ _ _ _ _ sizes _ (pe - total) _ st _ (by omega) hrun hx
      cases h1
    · intro a hx hr2
      obtain ⟨bi', tr', h1, h2⟩ := inner_inv c0 _ _ _ _ _ _ _ _ _ sizes _ (pe - total) _ st _ (by omega) hrun hx
      cases h1
      obtain ⟨ri', tr'', h3, h4, h5⟩ := ih _ (pe + total) _ _ _ r rfl (by omega) h2 hr2
      exact ⟨ri', tr'', h3, by omega, by simpa [swapLoopN] using h5⟩

/-- `BitArray.byteswap` from `repeats = 0` on, as the source has it now, its recorded effects folded over the content
    with C18's `reversebytes`, = the arithmetic core of `C18.byteswap`: for every content, every range `[a, z)`, every
    list of byte sizes and both values of `repeat`.  The translated function never raises.  No hypothesis. -/
theorem byteswap_core_eq (l : Bits) (a z : Nat) (sizes : List Nat) (rep : Bool) :
    (Gen.SrcC8.byteswap_core (l.length : Int) (a : Int) (z : Int) (sizes.map fun (k : Nat) => (k : Int)) rep).map
      (bsFold l) = .ok (some (coreAlg l a z sizes rep)) := by
  generalize hmain : Gen.SrcC8.byteswap_core _ _ _ _ _ = r0
  unfold Gen.SrcC8.byteswap_core at hmain
  unfold coreAlg
  simp only [sumI_cast] at hmain
  simp only []
  generalize sizes.sum = sm at hmain ⊢
  by_cases h0 : 8 * sm = 0
  · run_guards
    subst hmain
    simp only [Except.map, List.nil_append]
    rw [bsFold_return _ _ 0 (by omega)]
  · cases rep <;> run_guards <;> simp only [Bool.false_eq_true, if_false, if_true] at hmain ⊢
    all_goals
      rw [swapLoop_count sizes (8 * sm) _ (by omega) _ l (a + 8 * sm) 0 (by omega)]
      generalize hc : Py.rangeLen _ _ _ = cnt
      refine bind_eq_elim hmain ?_ ?_
      · intro e hx _
        simp only [Py.rangeE] at hx
        run_guards
        cases hx
      · intro it hx hmain2
        simp only [Py.rangeE] at hx
        run_guards
        cases hx
        refine bind_eq_elim hmain2 ?_ ?_
        · intro e hx2 _
          obtain ⟨_, _, h1, _⟩ := outer_inv l _ _ _ _ _ _ sizes (8 * sm) (by omega) cnt _ (a + 8 * sm) _ _ l _
            (rangeList_eq _ _ _ _ _ _ (a + 8 * sm) (8 * sm) cnt hc (by omega) (by omega) (by omega)
              (by omega) (by omega)) (by omega) (by simp [bsPre]) hx2
          cases h1
        · intro st2 hx2 hr
          obtain ⟨ri', tr', h1, h2, h3⟩ := outer_inv l _ _ _ _ _ _ sizes (8 * sm) (by omega) cnt _ (a + 8 * sm) _ _ l _
            (rangeList_eq _ _ _ _ _ _ (a + 8 * sm) (8 * sm) cnt hc (by omega) (by omega) (by omega)
              (by omega) (by omega)) (by omega) (by simp [bsPre]) hx2
          cases h1
          subst hr
          simp only [Except.map]
          rw [bsFold_append, h3]
          simp only [Option.bind_some]
          rw [bsFold_return _ _ cnt (by omega)]
          simp

/-! ### non-vacuity -/

/-- `byteswap(2)` on the 16 bits `00000001 10000000`: `_reversebytes(0, 16)` recorded and run → bytes exchanged, 1 repeat. -/
example : (Gen.SrcC8.byteswap_core 16 0 16 [2] false).map
      (bsFold [false, false, false, false, false, false, false, true, true, false, false, false, false, false, false, false])
    = .ok (some (1, [true, false, false, false, false, false, false, false, false, false, false, false, false, false, false, true])) := by
  rfl

end BM.C18.SrcC8
