/-
  Props/C02_Src.lean — tie between C02's hand-written ALG transcriptions of the integer / float setters (`setInt k`,
  `setFlt .floatbe/.floatle`) and of the six integer getters (`getRaw .uint … .intle`) and the CURRENT source text.

  `Gen/Src.lean` is regenerated on every run by harness/translate.py from /repo's working tree: the guards (length
  defaulting, zero / missing length, the whole-byte rule, the 16/32/64 rule, the empty-bitstring rule of the getters)
  are translated statement by statement and the effects — `self._bitstore = bitstore_helpers.int2bitstore(v, n, signed)`,
  `return self._bitstore.slice_to_uint()`, `L1 = BitStore.frombytes(self._bitstore.tobytes()[::-1])` … — are recorded as
  `Py.Act`s.  Below, `…Meaning` gives each recorded effect the meaning the C02 model gives to the primitive it names
  (`C02.int2bitstore`, `C02.intle2bitstore`, `C02.float2bitstore`, `C02.bytesRev`, the model's `_getuint` / `_getint` =
  `getRaw .uint` / `getRaw .int`), and the theorems state that, for EVERY value, length, current length resp. EVERY bit
  content, the translated function under that meaning IS the ALG function.  A change of the source changes
  `Gen/Src.lean`; the theorem then no longer checks.

  Domain: C02's line protocol has lengths `None` or natural (negative `length=` is C15's business — Props/C15_Src2
  covers the same setters over all of `Option Int`); accordingly the setter theorems quantify over `length : Option Nat`
  and hand the translated function `length.map Int.ofNat`.  `cur : Option Nat` is the model's "current length"
  (`none` = no `_bitstore` yet): `has_len = cur.isSome`, `self_len = cur.getD 0`.
-/
import BitstringModel.Model.C02
import BitstringModel.Variants.SrcA6
import BitstringModel.Proofs.C02
import Mathlib.Tactic.SplitIfs
namespace BM.C02.SrcA6
open BM BM.C02

/-- The outcome of a trace-mode function under a meaning whose primitives may raise: the function's own exception,
    or the meaning of its trace (`none` = a trace this file does not know). -/
def run {α} (m : List Py.Act → Option (Except Err α)) : Except Err (List Py.Act) → Option (Except Err α)
  | .error e => some (.error e)
  | .ok tr => m tr

/-! ### setters -/

/-- Meaning of the single effect each of the six integer setters records (the result is `self._bitstore` afterwards):
    the model's `int2bitstore` / `intle2bitstore` with the recorded length and the signedness written in the text;
    their range error (CreationError) is part of the result.  The length reaches the helper only after the setter's
    zero / None checks; C02's helpers take it as a natural number. -/
def intMeaning (v : Int) : List Py.Act → Option (Except Err Bits)
  | [⟨"self._bitstore = bitstore_helpers.int2bitstore(uint, _, False)", [some n]⟩] => some (int2bitstore v n.toNat false)
  | [⟨"self._bitstore = bitstore_helpers.int2bitstore(int_, _, True)", [some n]⟩] => some (int2bitstore v n.toNat true)
  | [⟨"self._bitstore = bitstore_helpers.int2bitstore(uintbe, _, False)", [some n]⟩] => some (int2bitstore v n.toNat false)
  | [⟨"self._bitstore = bitstore_helpers.int2bitstore(intbe, _, True)", [some n]⟩] => some (int2bitstore v n.toNat true)
  | [⟨"self._bitstore = bitstore_helpers.intle2bitstore(uintle, _, False)", [some n]⟩] =>
      some (intle2bitstore v n.toNat false)
  | [⟨"self._bitstore = bitstore_helpers.intle2bitstore(intle, _, True)", [some n]⟩] =>
      some (intle2bitstore v n.toNat true)
  | _ => none

/-- Meaning of the effect `_setfloat` records: the model's `float2bitstore` on the float (by its binary64 pattern);
    the Boolean argument `big_endian` is recorded as 1 / 0 (`_b`). -/
def floatMeaning (p64 : Nat) : List Py.Act → Option (Except Err Bits)
  | [⟨"self._bitstore = bitstore_helpers.float2bitstore(f, _, _b)", [some n, some b]⟩] =>
      some (.ok (float2bitstore p64 n.toNat (decide (b ≠ 0))))
  | _ => none

/-! ### getters -/

/-- `x.slice_to_uint()` = `bitarray.util.ba2int(x, signed=False)`: ValueError for an empty bitarray, else the
    unsigned value.  C02 has no separate definition for it; its transcription of exactly this behaviour is the body
    of the model's `_getuint`, `getRaw .uint` (`if len = 0 then ValueError else bitsToNat`), which is used here. -/
def sliceToUint (x : Bits) : Except Err RVal := getRaw .uint x

/-- `x.slice_to_int()` = `ba2int(x, signed=True)`, likewise `getRaw .int`. -/
def sliceToInt (x : Bits) : Except Err RVal := getRaw .int x

/-- Meaning of the effects recorded for the six integer getters on an object holding the bits `b`:
    * `return self._bitstore.slice_to_uint()` / `slice_to_int()` : `sliceToUint b` / `sliceToInt b`;
    * `return self._getuint()` / `self._getint()` : the model's `_getuint` / `_getint`, `getRaw .uint b` / `getRaw .int b`;
    * `L1 = BitStore.frombytes(self._bitstore.tobytes()[::-1])` then `return L1.slice_to_uint()` / `slice_to_int()` :
      the model's `bytesRev b` (defined as exactly that expression), then as above.  The recorded step must be `-1`. -/
def getMeaning (b : Bits) : List Py.Act → Option (Except Err RVal)
  | [⟨"return self._bitstore.slice_to_uint()", []⟩] => some (sliceToUint b)
  | [⟨"return self._bitstore.slice_to_int()", []⟩] => some (sliceToInt b)
  | [⟨"return self._getuint()", []⟩] => some (getRaw .uint b)
  | [⟨"return self._getint()", []⟩] => some (getRaw .int b)
  | [⟨"L1 = BitStore.frombytes(self._bitstore.tobytes()[::_])", [some s]⟩, ⟨"return L1.slice_to_uint()", []⟩] =>
      if s = -1 then some (sliceToUint (bytesRev b)) else none
  | [⟨"L1 = BitStore.frombytes(self._bitstore.tobytes()[::_])", [some s]⟩, ⟨"return L1.slice_to_int()", []⟩] =>
      if s = -1 then some (sliceToInt (bytesRev b)) else none
  | _ => none

/-- Closes the leaves left after ALL guards of both sides have been split with `split_ifs` (whatever their order,
    nesting or polarity in the source): contradictory guards (`omega`, or a literal `False`), syntactically identical
    results (`with_reducible rfl`), or results that agree after unfolding the meaning (`simp`) up to the way the
    arithmetic is written (`omega` / congruence + linear arithmetic by `grind`). -/
local macro "leaf" : tactic =>
  `(tactic| first
    | omega
    | (exfalso; assumption)
    | with_reducible rfl
    | (simp [run, intMeaning, floatMeaning, getMeaning, sliceToUint, sliceToInt, getRaw]
       first | done | omega | grind))

/-- Python `%` by the positive literal 8 (`Int.fmod`) on a length is the model's `%` on naturals. -/
theorem fmod8 (a : Nat) : Int.fmod (a : Int) 8 = ((a % 8 : Nat) : Int) := by
  rw [Int.fmod_eq_emod_of_nonneg _ (by decide)]; omega

/-- The common proof of the setter theorems: unfold, case-split the Optional arguments (and zero / non-zero for the
    `some 0` line of `setInt`), normalise every guard, split all of them. -/
local macro "setter" f:ident length:ident cur:ident : tactic =>
  `(tactic| (
    unfold $f setInt
    rcases $length:ident with _ | _ | l <;> rcases $cur:ident with _ | _ | c <;>
      simp [lengthOrCur, fmod8, run, intMeaning, IntKind.wholeByte, IntKind.little, IntKind.signed]
    all_goals (split_ifs <;> leaf)))

/-- `Bits._setuint` as the source has it now = `C02.setInt .uint`. -/
theorem setuint_eq (v : Int) (length cur : Option Nat) :
    run (intMeaning v) (Gen.SrcA6.setuint ((cur.getD 0 : Nat) : Int) (length.map Int.ofNat) cur.isSome)
      = some (setInt .uint v length cur) := by
  setter Gen.SrcA6.setuint length cur

/-- `Bits._setint` as the source has it now = `C02.setInt .int`. -/
theorem setint_eq (v : Int) (length cur : Option Nat) :
    run (intMeaning v) (Gen.SrcA6.setint ((cur.getD 0 : Nat) : Int) (length.map Int.ofNat) cur.isSome)
      = some (setInt .int v length cur) := by
  setter Gen.SrcA6.setint length cur

/-- `Bits._setuintbe` as the source has it now = `C02.setInt .uintbe` (whole-byte rule included). -/
theorem setuintbe_eq (v : Int) (length cur : Option Nat) :
    run (intMeaning v) (Gen.SrcA6.setuintbe ((cur.getD 0 : Nat) : Int) (length.map Int.ofNat) cur.isSome)
      = some (setInt .uintbe v length cur) := by
  setter Gen.SrcA6.setuintbe length cur

/-- `Bits._setintbe` as the source has it now = `C02.setInt .intbe`. -/
theorem setintbe_eq (v : Int) (length cur : Option Nat) :
    run (intMeaning v) (Gen.SrcA6.setintbe ((cur.getD 0 : Nat) : Int) (length.map Int.ofNat) cur.isSome)
      = some (setInt .intbe v length cur) := by
  setter Gen.SrcA6.setintbe length cur

/-- `Bits._setuintle` as the source has it now = `C02.setInt .uintle`. -/
theorem setuintle_eq (v : Int) (length cur : Option Nat) :
    run (intMeaning v) (Gen.SrcA6.setuintle ((cur.getD 0 : Nat) : Int) (length.map Int.ofNat) cur.isSome)
      = some (setInt .uintle v length cur) := by
  setter Gen.SrcA6.setuintle length cur

/-- `Bits._setintle` as the source has it now = `C02.setInt .intle`. -/
theorem setintle_eq (v : Int) (length cur : Option Nat) :
    run (intMeaning v) (Gen.SrcA6.setintle ((cur.getD 0 : Nat) : Int) (length.map Int.ofNat) cur.isSome)
      = some (setInt .intle v length cur) := by
  setter Gen.SrcA6.setintle length cur

/-- `Bits._setfloat(f, length, True)` (= `_setfloatbe`) as the source has it now = `C02.setFlt .floatbe`. -/
theorem setfloatbe_eq (p64 : Nat) (length cur : Option Nat) :
    run (floatMeaning p64) (Gen.SrcA6.setfloat ((cur.getD 0 : Nat) : Int) (length.map Int.ofNat) true cur.isSome)
      = some (setFlt .floatbe p64 length cur) := by
  unfold Gen.SrcA6.setfloat setFlt
  rcases length with _ | l <;> rcases cur with _ | c <;>
    simp [lengthOrCur, run, floatMeaning, FltKind.big]
  all_goals (split_ifs <;> leaf)

/-- `Bits._setfloat(f, length, False)` (= `_setfloatle`) as the source has it now = `C02.setFlt .floatle`. -/
theorem setfloatle_eq (p64 : Nat) (length cur : Option Nat) :
    run (floatMeaning p64) (Gen.SrcA6.setfloat ((cur.getD 0 : Nat) : Int) (length.map Int.ofNat) false cur.isSome)
      = some (setFlt .floatle p64 length cur) := by
  unfold Gen.SrcA6.setfloat setFlt
  rcases length with _ | l <;> rcases cur with _ | c <;>
    simp [lengthOrCur, run, floatMeaning, FltKind.big]
  all_goals (split_ifs <;> leaf)

/-- Python `%` by the positive literal 8 (`Int.fmod`) is `%` (`Int.emod`). -/
theorem fmod8i (a : Int) : Int.fmod a 8 = a % 8 := Int.fmod_eq_emod_of_nonneg a (by decide)

/-- Leaves of the getter proofs: as `leaf`, with the emptiness tests kept as arithmetic (`len = 0`; the simp lemma
    turning them into `= []` is switched off); where the byte-reversed store is tested for emptiness, the whole-byte
    guard on the path (`omega` turns it into `8 ∣ len`) gives `(bytesRev b).length = b.length` (Proofs/C02). -/
local macro "gleaf" b:ident : tactic =>
  `(tactic| first
    | omega
    | (exfalso; assumption)
    | with_reducible rfl
    | (simp [-List.length_eq_zero_iff, run, getMeaning, sliceToUint, sliceToInt, getRaw]; first | done | omega)
    | (have hb := bytesRev_length' $b (by omega)
       first
        | omega
        | (simp_all [-List.length_eq_zero_iff, run, getMeaning, sliceToUint, sliceToInt, getRaw]; first | done | omega)))

/-- The common proof of the getter theorems: unfold, normalise every guard, split all of them. -/
local macro "getter" f:ident b:ident : tactic =>
  `(tactic| (
    unfold $f
    simp [-List.length_eq_zero_iff, fmod8i, run, getMeaning, sliceToUint, sliceToInt, getRaw]
    all_goals (first | (split_ifs <;> gleaf $b) | gleaf $b)))

/-- `Bits._getuint` as the source has it now = `C02.getRaw .uint`, for every bit content. -/
theorem getuint_eq (b : Bits) : run (getMeaning b) (Gen.SrcA6.getuint (b.length : Int)) = some (getRaw .uint b) := by
  getter Gen.SrcA6.getuint b

/-- `Bits._getint` as the source has it now = `C02.getRaw .int`. -/
theorem getint_eq (b : Bits) : run (getMeaning b) (Gen.SrcA6.getint (b.length : Int)) = some (getRaw .int b) := by
  getter Gen.SrcA6.getint b

/-- `Bits._getuintbe` as the source has it now = `C02.getRaw .uintbe` (whole-byte rule, then `_getuint`). -/
theorem getuintbe_eq (b : Bits) : run (getMeaning b) (Gen.SrcA6.getuintbe (b.length : Int)) = some (getRaw .uintbe b) := by
  getter Gen.SrcA6.getuintbe b

/-- `Bits._getintbe` as the source has it now = `C02.getRaw .intbe`. -/
theorem getintbe_eq (b : Bits) : run (getMeaning b) (Gen.SrcA6.getintbe (b.length : Int)) = some (getRaw .intbe b) := by
  getter Gen.SrcA6.getintbe b

/-- `Bits._getuintle` as the source has it now = `C02.getRaw .uintle` (whole-byte rule, byte reversal, `ba2int`). -/
theorem getuintle_eq (b : Bits) : run (getMeaning b) (Gen.SrcA6.getuintle (b.length : Int)) = some (getRaw .uintle b) := by
  getter Gen.SrcA6.getuintle b

/-- `Bits._getintle` as the source has it now = `C02.getRaw .intle`. -/
theorem getintle_eq (b : Bits) : run (getMeaning b) (Gen.SrcA6.getintle (b.length : Int)) = some (getRaw .intle b) := by
  getter Gen.SrcA6.getintle b

/-- Non-vacuity: `BitArray(uintle=258, length=16)` — `0x0201`. -/
example : run (intMeaning 258) (Gen.SrcA6.setuintle 0 (some 16) false)
    = some (.ok [false, false, false, false, false, false, true, false,
                 false, false, false, false, false, false, false, true]) := by
  rfl

/-- Non-vacuity: `Bits('0x0201').intle` — the two-effect trace — is 258; `Bits('0b101').uintbe` is refused. -/
example : run (getMeaning [false, false, false, false, false, false, true, false,
                           false, false, false, false, false, false, false, true]) (Gen.SrcA6.getintle 16)
    = some (.ok (.int 258)) := by
  rfl

example : run (getMeaning [true, false, true]) (Gen.SrcA6.getuintbe 3) = some (.error .value) := by
  rfl

end BM.C02.SrcA6
