/-
  Props/C03_Src3.lean — tie between C03's hand-written ALG transcriptions of the LOOPS of `BitArray.invert` and
  `BitArray.byteswap` and the CURRENT source text (third batch: translated `for` loops).

  `Gen.SrcC8.invert_positions self_len pos` (bitarray_.py: def invert, once `pos` is an iterable of ints) and
  `Gen.SrcC8.byteswap_core self_len start_v end_v bytesizes repeat` (def byteswap, from `repeats = 0` on: the range is
  validated and the format has become a list of byte sizes) are regenerated on every run by harness/translate.py.  Each
  `for` is an auxiliary structurally recursive function over the list iterated; the state is the integer variables the
  body assigns plus the trace of recorded effects (`self._invert(_)`, `self._reversebytes(_, _)`, `return _`).  With
  `err_trace` (invert) an exception carries the effects recorded before it.

  The meanings FOLD a recorded trace over the current bits with the model's own primitives (`List.modify … (!·)` as in
  `Alg.invertLoop`, `Alg._reversebytes`); the theorems state, for EVERY input, equality with `Alg.invertLoop` resp. with
  the arithmetic core of `Alg.byteswap` (`coreAlg` below, shown to be literally that part of `Alg.byteswap`), by
  induction on the lists / the repeat count.
-/
import BitstringModel.Model.C03
import BitstringModel.Variants.SrcC8
namespace BM.C03.SrcC83
open BM BM.C03

/-! ### shape-agnostic proof vocabulary -/

/-- Bool guards → propositions (goal and hypotheses), then decide every `if` from the context by `omega`. -/
macro "run_guards" : tactic => `(tactic| (
  try simp only [Bool.not_eq_true', Bool.not_eq_true, Bool.and_eq_true, Bool.or_eq_true, decide_eq_true_eq,
    decide_eq_false_iff_not, Bool.not_eq_false', Bool.not_eq_false, Bool.and_eq_false_iff, Bool.or_eq_false_iff,
    ne_eq, Bool.not_not, ge_iff_le, gt_iff_lt] at *
  try (simp (disch := omega) only [if_pos, if_neg] at *)))

/-- Peel one `bind` off an equation `x.bind f = r` without naming `x` (its arity may differ between variants). -/
theorem bind_eq_elim {ε α β : Type} {x : Except ε α} {f : α → Except ε β} {r : Except ε β} {P : Prop}
    (h : x.bind f = r) (herr : ∀ e, x = .error e → r = .error e → P) (hok : ∀ a, x = .ok a → f a = r → P) : P := by
  cases x with
  | error e => exact herr e rfl h.symm
  | ok a => exact hok a rfl h

/-! ## `invert` over an iterable -/

/-- One recorded effect of the loop of `invert` on the current bits: `self._invert(p)` flips bit `p` — the model's
    `cur.modify p (!·)` (what `Alg.invertLoop` does); a negative recorded position has no meaning. -/
def invStep (cur : Bits) : Py.Act → Option Bits
  | ⟨"self._invert(_)", [some p]⟩ => if 0 ≤ p then some (cur.modify p.toNat (!·)) else none
  | _ => none

/-- The recorded effects, folded over the bits. -/
def invFold : Bits → List Py.Act → Option Bits
  | cur, [] => some cur
  | cur, a :: rest => (invStep cur a).bind fun c => invFold c rest

/-- Outcome of the translated loop on the content `l`: normal end — `None` and the bits after all recorded effects;
    exception — the exception and the bits after the effects recorded BEFORE it (the model's `Outcome`). -/
def invMeaning (l : Bits) : Except (Err × List Py.Act) (List Py.Act) → Option Outcome
  | .ok tr => (invFold l tr).map fun b => ⟨.ok .none, b⟩
  | .error (e, tr) => (invFold l tr).map fun b => ⟨.error e, b⟩

theorem invFold_append (c0 : Bits) (p q : List Py.Act) :
    invFold c0 (p ++ q) = (invFold c0 p).bind fun c => invFold c q := by
  induction p generalizing c0 with
  | nil => simp [invFold]
  | cons a p ih =>
    simp only [List.cons_append, invFold]
    cases invStep c0 a with
    | none => simp
    | some c => simp [ih]

theorem invStep_invert (cur : Bits) (e : Int) (k : Nat) (h : e = (k : Int)) :
    invStep cur ⟨"self._invert(_)", [some e]⟩ = some (cur.modify k (!·)) := by
  subst h; simp [invStep]

theorem invFold_snoc (l : Bits) (tr : List Py.Act) (cur : Bits) (e : Int) (k : Nat)
    (hrun : invFold l tr = some cur) (h : e = (k : Int)) :
    invFold l (tr ++ [⟨"self._invert(_)", [some e]⟩]) = some (cur.modify k (!·)) := by
  rw [invFold_append, hrun]
  simp only [Option.bind_some, invFold, invStep_invert _ _ _ h]

/-- The translated loop against `Alg.invertLoop`, by induction on the remaining positions: `tr` folds to `cur`. -/
theorem invert_loop_inv (l : Bits) (sl : Int) (pos : List Int) (li : Int) (n : Nat) (hli : li = (n : Int))
    (rest : List Int) :
    ∀ (cur : Bits) (tr : List Py.Act) (r : Except (Err × List Py.Act) (List Py.Act)),
      invFold l tr = some cur → Gen.SrcC8.invert_positions.loop1 sl pos li rest tr = r →
      invMeaning l r = some (Alg.invertLoop n cur rest) := by
  induction rest with
  | nil =>
    intro cur tr r hrun hr
    rw [Gen.SrcC8.invert_positions.loop1] at hr
    subst hr
    simp [invMeaning, hrun, Alg.invertLoop]
  | cons p ps ih =>
    intro cur tr r hrun hr
    rw [Gen.SrcC8.invert_positions.loop1] at hr
    simp only [Alg.invertLoop]
    by_cases hp : p < 0 <;> by_cases hlo : 0 ≤ p + (n : Int) <;> by_cases hhi : p < (n : Int) <;>
      by_cases hlo' : 0 ≤ p <;> (try (exfalso; omega)) <;> run_guards <;>
      first
        | (subst hr; simp [invMeaning, hrun]; done)
        | (refine ih _ _ r ?_ hr
           exact invFold_snoc l _ _ _ _ hrun (by omega))

/-- `BitArray.invert(pos)` for an iterable of ints, as the source has it now, = `Alg.invertLoop`: for every content and
    every list of positions — IndexError at the first invalid position, with exactly the earlier positions flipped. -/
theorem invert_positions_eq (l : Bits) (ps : List Int) :
    invMeaning l (Gen.SrcC8.invert_positions (l.length : Int) ps) = some (Alg.invertLoop l.length l ps) := by
  generalize hmain : Gen.SrcC8.invert_positions _ _ = r0
  unfold Gen.SrcC8.invert_positions at hmain
  simp only [] at hmain
  refine bind_eq_elim hmain ?_ ?_
  · intro e hx hr
    rw [hr, ← hx]
    exact invert_loop_inv l _ _ _ l.length rfl ps l _ _ (by simp [invFold]) rfl
  · intro tr hx hr
    rw [← hr, ← hx]
    exact invert_loop_inv l _ _ _ l.length rfl ps l _ _ (by simp [invFold]) rfl

/-- The same as a statement about the public model function for a list argument. -/
theorem invert_positions_eq_invert (l : Bits) (ps : List Int) :
    invMeaning l (Gen.SrcC8.invert_positions (l.length : Int) ps) = some (Alg.invert l (.many ps)) :=
  invert_positions_eq l ps

/-! ## `byteswap`: the loops -/

/-- The arithmetic core of `Alg.byteswap`: what it does once the range `[a, z)` is validated and the format has become
    the list `sizes` of byte sizes (bitarray_.py: def byteswap, from `repeats = 0` on). -/
def coreAlg (l : Bits) (a z : Nat) (sizes : List Nat) (rep : Bool) : Except Err (Nat × Bits) :=
  let total := 8 * sizes.sum
  if total = 0 then .ok (0, l) else
  let finalbit := if rep then z else min (a + total) z
  let cnt := Py.rangeLen ((a + total : Nat) : Int) ((finalbit + 1 : Nat) : Int) (total : Int)
  match Alg.swapLoop cnt l sizes total (a + total) with
  | .error err => .error err
  | .ok l' => .ok (cnt, l')

/-- `coreAlg` IS that part of `Alg.byteswap` (definitional). -/
theorem byteswap_eq_coreAlg (l : Bits) (f : Fmt) (s e : Option Int) (rep : Bool) :
    Alg.byteswap l f s e rep =
      match validateSlice l.length s e with
      | .error err => .error err
      | .ok (a, z) =>
        match fmtSizes f a z with
        | .error err => .error err
        | .ok sizes => coreAlg l a z sizes rep := by
  rfl

/-- Result of the translated function: an exception of the translated arithmetic is the outcome; otherwise the trace
    is handed to its meaning (`none` = unknown trace). -/
def interp {α : Type} (r : Except Err (List Py.Act)) (m : List Py.Act → Option (Except Err α)) : Option (Except Err α) :=
  match r with
  | .error e => some (.error e)
  | .ok tr => m tr

/-- One recorded effect on the current state (the bits, or the exception a previous effect raised — then nothing more
    happens): `self._reversebytes(a, b)` is the model's `Alg._reversebytes cur a b`. -/
def bsStep (s : Except Err Bits) : Py.Act → Option (Except Err Bits)
  | ⟨"self._reversebytes(_, _)", [some a, some b]⟩ =>
      if 0 ≤ a ∧ 0 ≤ b then some (s.bind fun cur => Alg._reversebytes cur a.toNat b.toNat) else none
  | _ => none

/-- The effects of a prefix, folded. -/
def bsPre : Except Err Bits → List Py.Act → Option (Except Err Bits)
  | s, [] => some s
  | s, a :: rest => (bsStep s a).bind fun c => bsPre c rest

/-- Meaning of a whole trace: the effects folded, then `return k` yields `(k, bits)` (or the exception). -/
def bsFold : Except Err Bits → List Py.Act → Option (Except Err (Nat × Bits))
  | s, [⟨"return _", [some k]⟩] => if 0 ≤ k then some (s.map fun cur => (k.toNat, cur)) else none
  | s, a :: rest => (bsStep s a).bind fun c => bsFold c rest
  | _, [] => none

theorem bsPre_append (c0 : Except Err Bits) (p q : List Py.Act) :
    bsPre c0 (p ++ q) = (bsPre c0 p).bind fun c => bsPre c q := by
  induction p generalizing c0 with
  | nil => simp [bsPre]
  | cons a p ih =>
    simp only [List.cons_append, bsPre]
    cases bsStep c0 a with
    | none => simp
    | some c => simp [ih]

theorem bsStep_return (s : Except Err Bits) (k : Option Int) : bsStep s ⟨"return _", [k]⟩ = none := by
  simp [bsStep]

theorem bsFold_cons (s : Except Err Bits) (a x : Py.Act) (rest : List Py.Act) :
    bsFold s (a :: x :: rest) = (bsStep s a).bind fun c => bsFold c (x :: rest) := by
  simp [bsFold]

theorem bsFold_append (c0 : Except Err Bits) (p : List Py.Act) (x : Py.Act) (rest : List Py.Act) :
    bsFold c0 (p ++ x :: rest) = (bsPre c0 p).bind fun c => bsFold c (x :: rest) := by
  induction p generalizing c0 with
  | nil => simp [bsPre]
  | cons a p ih =>
    cases p with
    | nil =>
      simp only [List.cons_append, List.nil_append, bsFold_cons, bsPre]
      cases bsStep c0 a <;> simp
    | cons b p =>
      simp only [List.cons_append] at ih ⊢
      rw [bsFold_cons]
      simp only [bsPre]
      cases bsStep c0 a with
      | none => simp
      | some c => simpa [bsPre] using ih c

theorem bsFold_return (s : Except Err Bits) (k : Int) (c : Nat) (h : k = (c : Int)) :
    bsFold s [⟨"return _", [some k]⟩] = some (s.map fun cur => (c, cur)) := by
  subst h; simp [bsFold]

/-- Appending one `_reversebytes` effect whose recorded arguments are the model's `a`, `b` (however spelled). -/
theorem bsPre_snoc (c0 st : Except Err Bits) (tr : List Py.Act) (x y : Int) (a b : Nat)
    (hrun : bsPre c0 tr = some st) (hx : x = (a : Int)) (hy : y = (b : Int)) :
    bsPre c0 (tr ++ [⟨"self._reversebytes(_, _)", [some x, some y]⟩])
      = some (st.bind fun cur => Alg._reversebytes cur a b) := by
  subst hx hy
  rw [bsPre_append, hrun]
  simp [bsPre, bsStep]

theorem sumI_cast (sizes : List Nat) : Py.sumI (sizes.map fun (k : Nat) => (k : Int)) = ((sizes.sum : Nat) : Int) := by
  have h : ∀ (acc : Int) (xs : List Nat),
      (xs.map fun (k : Nat) => (k : Int)).foldl (· + ·) acc = acc + ((xs.sum : Nat) : Int) := by
    intro acc xs
    induction xs generalizing acc with
    | nil => simp
    | cons x xs ih => simp only [List.map_cons, List.foldl_cons, List.sum_cons, ih]; omega
  simpa [Py.sumI] using h 0 sizes

/-- `swapOnce` / `swapLoop` with `bind` instead of `match`. -/
theorem swapOnce_cons (l : Bits) (k : Nat) (ks : List Nat) (bs : Nat) :
    Alg.swapOnce l (k :: ks) bs = (Alg._reversebytes l bs (bs + k * 8)).bind fun l' => Alg.swapOnce l' ks (bs + k * 8) := by
  simp only [Alg.swapOnce]; cases Alg._reversebytes l bs (bs + k * 8) <;> rfl

theorem swapLoop_succ (c : Nat) (l : Bits) (sizes : List Nat) (total pe : Nat) :
    Alg.swapLoop (c + 1) l sizes total pe
      = (Alg.swapOnce l sizes (pe - total)).bind fun l' => Alg.swapLoop c l' sizes total (pe + total) := by
  simp only [Alg.swapLoop]; cases Alg.swapOnce l sizes (pe - total) <;> rfl

/-- `range(A, B, T)` as the list the outer loop runs over, with the count named and every argument related to the
    model's by hypotheses. -/
theorem rangeList_eq (A B T A' B' T' : Int) (pe total cnt : Nat) (hc : Py.rangeLen A' B' T' = cnt)
    (hA : A = A') (hB : B = B') (hT : T = T') (hpe : A = (pe : Int)) (htot : T = (total : Int)) :
    Py.rangeList A B T = (List.range cnt).map (fun (k : Nat) => ((pe : Nat) : Int) + (k : Int) * (total : Int)) := by
  subst hA hB hT hc
  unfold Py.rangeList
  rw [hpe, htot]

theorem except_bind_assoc {ε α β γ : Type} (x : Except ε α) (f : α → Except ε β) (g : β → Except ε γ) :
    (x.bind f).bind g = x.bind fun a => (f a).bind g := by
  cases x <;> rfl

/-- Inner loop (`for bytesize in bytesizes`) against `Alg.swapOnce`, by induction on the remaining sizes.  The nine
    captured variables are irrelevant to it. -/
theorem inner_inv (c0 : Except Err Bits) (p1 p2 p3 : Int) (p4 : List Int) (p5 : Bool) (p6 p7 p8 p9 : Int)
    (sizes : List Nat) :
    ∀ (bi : Int) (bs : Nat) (tr : List Py.Act) (st : Except Err Bits) (r : Except Err (Int × List Py.Act)),
      bi = (bs : Int) → bsPre c0 tr = some st →
      Gen.SrcC8.byteswap_core.loop2 p1 p2 p3 p4 p5 p6 p7 p8 p9 (sizes.map fun (k : Nat) => (k : Int)) (bi, tr) = r →
      ∃ (bi' : Int) (tr' : List Py.Act), r = .ok (bi', tr') ∧
        bsPre c0 tr' = some (st.bind fun cur => Alg.swapOnce cur sizes bs) := by
  induction sizes with
  | nil =>
    intro bi bs tr st r hbi hrun hr
    simp only [List.map_nil] at hr
    rw [Gen.SrcC8.byteswap_core.loop2] at hr
    refine ⟨bi, tr, hr.symm, ?_⟩
    rw [hrun]; cases st <;> rfl
  | cons k ks ih =>
    intro bi bs tr st r hbi hrun hr
    simp only [List.map_cons] at hr
    rw [Gen.SrcC8.byteswap_core.loop2] at hr
    obtain ⟨bi', tr', h1, h2⟩ := ih _ (bs + k * 8) _ (st.bind fun cur => Alg._reversebytes cur bs (bs + k * 8)) r
      (by omega) (bsPre_snoc c0 st tr _ _ bs (bs + k * 8) hrun (by omega) (by omega)) hr
    refine ⟨bi', tr', h1, ?_⟩
    rw [h2]
    simp only [except_bind_assoc, swapOnce_cons]

/-- Outer loop (`for patternend in range(…)`) against `Alg.swapLoop`, by induction on the number of patterns. -/
theorem outer_inv (c0 : Except Err Bits) (p1 p2 p3 : Int) (p5 : Bool) (tb p7 : Int)
    (sizes : List Nat) (total : Nat) (htb : tb = (total : Int)) (c : Nat) :
    ∀ (it : List Int) (pe : Nat) (ri : Int) (tr : List Py.Act) (st : Except Err Bits)
      (r : Except Err (Int × List Py.Act)),
      it = (List.range c).map (fun (k : Nat) => ((pe : Nat) : Int) + (k : Int) * (total : Int)) → total ≤ pe →
      bsPre c0 tr = some st →
      Gen.SrcC8.byteswap_core.loop1 p1 p2 p3 (sizes.map fun (k : Nat) => (k : Int)) p5 tb p7 it (ri, tr) = r →
      ∃ (ri' : Int) (tr' : List Py.Act), r = .ok (ri', tr') ∧ ri' = ri + (c : Int) ∧
        bsPre c0 tr' = some (st.bind fun cur => Alg.swapLoop c cur sizes total pe) := by
  induction c with
  | zero =>
    intro it pe ri tr st r hit hpe hrun hr
    simp only [List.range_zero, List.map_nil] at hit
    subst hit
    rw [Gen.SrcC8.byteswap_core.loop1] at hr
    refine ⟨ri, tr, hr.symm, by simp, ?_⟩
    rw [hrun]; cases st <;> rfl
  | succ c ih =>
    intro it pe ri tr st r hit hpe hrun hr
    have hit' : it = ((pe : Nat) : Int) ::
        (List.range c).map (fun (k : Nat) => ((pe + total : Nat) : Int) + (k : Int) * (total : Int)) := by
      rw [hit, List.range_succ_eq_map, List.map_cons, List.map_map]
      congr 1
      · simp
      · apply List.map_congr_left
        intro k _
        simp only [Function.comp, Nat.succ_eq_add_one]
        push_cast
        rw [Int.add_mul]; omega
    subst hit'
    rw [Gen.SrcC8.byteswap_core.loop1] at hr
    refine bind_eq_elim hr ?_ ?_
    · intro e hx _
      obtain ⟨_, _, h1, _⟩ := inner_inv c0 _ _ _ _ _ _ _ _ _ sizes _ (pe - total) _ st _ (by omega) hrun hx
      cases h1
    · intro a hx hr2
      obtain ⟨bi', tr', h1, h2⟩ := inner_inv c0 _ _ _ _ _ _ _ _ _ sizes _ (pe - total) _ st _ (by omega) hrun hx
      cases h1
      obtain ⟨ri', tr'', h3, h4, h5⟩ := ih _ (pe + total) _ _ _ r rfl (by omega) h2 hr2
      refine ⟨ri', tr'', h3, by omega, ?_⟩
      rw [h5]
      simp only [except_bind_assoc, swapLoop_succ]

/-- `BitArray.byteswap` from `repeats = 0` on, as the source has it now, its recorded effects folded over the content,
    = the arithmetic core of `Alg.byteswap` (`byteswap_eq_coreAlg`): for every content `l`, every range `[a, z)`, every
    list of byte sizes and both values of `repeat`.  No hypothesis (not even `a ≤ z ≤ len`). -/
theorem byteswap_core_eq (l : Bits) (a z : Nat) (sizes : List Nat) (rep : Bool) :
    interp (Gen.SrcC8.byteswap_core (l.length : Int) (a : Int) (z : Int) (sizes.map fun (k : Nat) => (k : Int)) rep)
      (bsFold (.ok l)) = some (coreAlg l a z sizes rep) := by
  generalize hmain : Gen.SrcC8.byteswap_core _ _ _ _ _ = r0
  unfold Gen.SrcC8.byteswap_core at hmain
  unfold coreAlg
  simp only [sumI_cast] at hmain
  simp only []
  generalize sizes.sum = sm at hmain ⊢
  by_cases h0 : 8 * sm = 0
  · run_guards
    subst hmain
    simp only [interp, List.nil_append]
    rw [bsFold_return _ _ 0 (by omega)]
    rfl
  · cases rep <;> run_guards <;> simp only [Bool.false_eq_true, if_false, if_true] at hmain ⊢
    all_goals
      generalize hc : Py.rangeLen _ _ _ = cnt
      refine bind_eq_elim hmain ?_ ?_
      · intro e hx _
        simp only [Py.rangeE] at hx
        run_guards
        cases hx
      · intro it hx hmain2
        simp only [Py.rangeE] at hx
        run_guards
        cases hx
        refine bind_eq_elim hmain2 ?_ ?_
        · intro e hx2 _
          obtain ⟨_, _, h1, _⟩ := outer_inv (.ok l) _ _ _ _ _ _ sizes (8 * sm) (by omega) cnt _ (a + 8 * sm) _ _
            (.ok l) _ (rangeList_eq _ _ _ _ _ _ (a + 8 * sm) (8 * sm) cnt hc (by omega) (by omega) (by omega)
              (by omega) (by omega)) (by omega) (by simp [bsPre]) hx2
          cases h1
        · intro st2 hx2 hr
          obtain ⟨ri', tr', h1, h2, h3⟩ := outer_inv (.ok l) _ _ _ _ _ _ sizes (8 * sm) (by omega) cnt _ (a + 8 * sm)
            _ _ (.ok l) _ (rangeList_eq _ _ _ _ _ _ (a + 8 * sm) (8 * sm) cnt hc (by omega) (by omega) (by omega)
              (by omega) (by omega)) (by omega) (by simp [bsPre]) hx2
          cases h1
          subst hr
          simp only [interp]
          rw [bsFold_append, h3]
          simp only [Option.bind_some]
          rw [bsFold_return _ _ cnt (by omega)]
          simp only [Except.bind, Except.map]
          cases Alg.swapLoop cnt l sizes (8 * sm) (a + 8 * sm) <;> rfl

/-! ### non-vacuity -/

/-- `invert([0, -1, 7])` on `1010`: two flips recorded, then IndexError — the outcome keeps the two flips. -/
example : invMeaning [true, false, true, false] (Gen.SrcC8.invert_positions 4 [0, -1, 7])
    = some ⟨.error .index, [false, false, true, true]⟩ := by
  decide

/-- `byteswap(2)` on the 16 bits `00000001 10000000`: one pattern, `_reversebytes(0, 16)` recorded and run → the two
    bytes are exchanged, 1 repeat. -/
example : interp (Gen.SrcC8.byteswap_core 16 0 16 [2] false)
      (bsFold (.ok [false, false, false, false, false, false, false, true, true, false, false, false, false, false, false, false]))
    = some (.ok (1, [true, false, false, false, false, false, false, false, false, false, false, false, false, false, false, true])) := by
  decide

/-- `byteswap([1, 1], repeat=True)` over 32 bits: two patterns of two one-byte groups, four effects + `return 2`. -/
example : (Gen.SrcC8.byteswap_core 32 0 32 [1, 1] true).map List.length = .ok 5 := by
  rfl

end BM.C03.SrcC83
