/-
  Props/C15_Src2.lean — tie between C15's hand-written ALG transcriptions of the integer and float setters
  (`setInt signed le endian` = `Bits._setuint … _setintle`, `setFloat le` = `Bits._setfloat`) and the CURRENT source text.

  `Gen/Src.lean` is regenerated on every run by harness/translate.py from /repo's working tree: the guards (length
  defaulting from the current length, zero / missing length, the whole-byte rule, the 16/32/64 rule) are translated
  statement by statement and the one effect of each setter — `self._bitstore = bitstore_helpers.int2bitstore(v, n, signed)`
  / `intle2bitstore(…)` / `float2bitstore(f, n, big_endian)` — is recorded as a `Py.Act`.  Below, `…Meaning` gives each
  recorded effect the meaning the C15 model gives to the helper it names (exactly the expressions `setInt` / `setFloat`
  end with: `asInt` then `int2bits` / `intle2bits`; the `Val` match then `floatBits`), range errors included, and the
  theorems state that, for EVERY value, every Optional length (negative ones included) and every current length, the
  translated setter under that meaning IS the ALG function.  A change of the source changes `Gen/Src.lean`; the theorem
  then no longer checks.

  `cur : Option Nat` is the model's "current length": `none` = the object has no `_bitstore` yet (`hasattr(self, 'len')`
  is False), `some c` = it has one of `c` bits.  The translated functions take this as `has_len = cur.isSome` and
  `self_len = len(self) = cur.getD 0` (`len(self)` is only evaluated behind `hasattr`).
-/
import BitstringModel.Model.C15
import BitstringModel.Variants.SrcC8
import Mathlib.Tactic.SplitIfs
namespace BM.C15.SrcC82
open BM BM.C15

/-- The outcome of a trace-mode function under a meaning whose primitives may raise: the function's own exception,
    or the meaning of its trace (`none` = a trace this file does not know). -/
def run {α} (m : List Py.Act → Option (Except Err α)) : Except Err (List Py.Act) → Option (Except Err α)
  | .error e => some (.error e)
  | .ok tr => m tr

/-- `bitstore_helpers.int2bitstore(v, n, signed)` (`le = false`) / `intle2bitstore(v, n, signed)` (`le = true`) as the
    C15 model has them — the last three lines of `setInt`: `int(v)` at the head of `int2bitstore` (`asInt`), then
    `int2bits` / `intle2bits`, whose range diagnosis is part of the result. -/
def encInt (le : Bool) (v : Val) (n : Int) (signed : Bool) : Except Err Bits :=
  match asInt v with
  | .error e => .error e
  | .ok i => if le then intle2bits i n signed else int2bits i n signed

/-- Meaning of the single effect each of the six integer setters records; the result is `self._bitstore` afterwards.
    The value argument appears under the parameter name of its setter, the signedness as the literal in the text. -/
def intMeaning (v : Val) : List Py.Act → Option (Except Err Bits)
  | [⟨"self._bitstore = bitstore_helpers.int2bitstore(uint, _, False)", [some n]⟩] => some (encInt false v n false)
  | [⟨"self._bitstore = bitstore_helpers.int2bitstore(int_, _, True)", [some n]⟩] => some (encInt false v n true)
  | [⟨"self._bitstore = bitstore_helpers.int2bitstore(uintbe, _, False)", [some n]⟩] => some (encInt false v n false)
  | [⟨"self._bitstore = bitstore_helpers.int2bitstore(intbe, _, True)", [some n]⟩] => some (encInt false v n true)
  | [⟨"self._bitstore = bitstore_helpers.intle2bitstore(uintle, _, False)", [some n]⟩] => some (encInt true v n false)
  | [⟨"self._bitstore = bitstore_helpers.intle2bitstore(intle, _, True)", [some n]⟩] => some (encInt true v n true)
  | _ => none

/-- `bitstore_helpers.float2bitstore(f, n, big_endian)` as the C15 model has it — the inner `match` of `setFloat`:
    `float(f)` (a malformed numeral is a ValueError, another type a TypeError), then the IEEE pattern of width `n`,
    byte-reversed for little-endian. -/
def encFloat (le : Bool) (v : Val) (n : Int) : Except Err Bits :=
  match v with
  | .float c16 c32 c64 => .ok (floatBits le n.toNat (if n = 16 then c16 else if n = 32 then c32 else c64))
  | .str _ => .error .value
  | _ => .error .type

/-- Meaning of the effect `_setfloat` records; the Boolean argument `big_endian` is recorded as 1 / 0 (`_b`). -/
def floatMeaning (v : Val) : List Py.Act → Option (Except Err Bits)
  | [⟨"self._bitstore = bitstore_helpers.float2bitstore(f, _, _b)", [some n, some b]⟩] =>
      some (encFloat (decide (b = 0)) v n)
  | _ => none

/-- Closes the leaves left after ALL guards of both sides have been split with `split_ifs` (whatever their order,
    nesting or polarity in the source): contradictory guards (`omega`, or a literal `False`), syntactically identical
    results (`with_reducible rfl`), or results that agree after unfolding the meaning (`simp`) up to the way the
    arithmetic is written (`omega` / congruence + linear arithmetic by `grind`). -/
local macro "leaf" : tactic =>
  `(tactic| first
    | omega
    | (exfalso; assumption)
    | with_reducible rfl
    | (simp [run, intMeaning, floatMeaning, encInt, encFloat]; first | done | omega | grind))

/-- Python `%` by the positive literal 8 (`Int.fmod`) is the model's `%` (`Int.emod`). -/
theorem fmod8 (a : Int) : Int.fmod a 8 = a % 8 := Int.fmod_eq_emod_of_nonneg a (by decide)

/-- The common proof: unfold, case-split the two Optional arguments, normalise every guard, split all of them. -/
local macro "setter" f:ident len:ident cur:ident : tactic =>
  `(tactic| (
    unfold $f setInt
    rcases $len:ident with _ | l <;> rcases $cur:ident with _ | c <;>
      simp [lenOrCur, fmod8, run, intMeaning, encInt]
    all_goals (split_ifs <;> leaf)))

/-- `Bits._setuint` as the source has it now = `C15.setInt false false false`. -/
theorem setuint_eq (v : Val) (len : Option Int) (cur : Option Nat) :
    run (intMeaning v) (Gen.SrcC8.setuint ((cur.getD 0 : Nat) : Int) len cur.isSome)
      = some (setInt false false false v len cur) := by
  setter Gen.SrcC8.setuint len cur

/-- `Bits._setint` as the source has it now = `C15.setInt true false false`. -/
theorem setint_eq (v : Val) (len : Option Int) (cur : Option Nat) :
    run (intMeaning v) (Gen.SrcC8.setint ((cur.getD 0 : Nat) : Int) len cur.isSome)
      = some (setInt true false false v len cur) := by
  setter Gen.SrcC8.setint len cur

/-- `Bits._setuintbe` as the source has it now = `C15.setInt false false true` (whole-byte rule included). -/
theorem setuintbe_eq (v : Val) (len : Option Int) (cur : Option Nat) :
    run (intMeaning v) (Gen.SrcC8.setuintbe ((cur.getD 0 : Nat) : Int) len cur.isSome)
      = some (setInt false false true v len cur) := by
  setter Gen.SrcC8.setuintbe len cur

/-- `Bits._setintbe` as the source has it now = `C15.setInt true false true`. -/
theorem setintbe_eq (v : Val) (len : Option Int) (cur : Option Nat) :
    run (intMeaning v) (Gen.SrcC8.setintbe ((cur.getD 0 : Nat) : Int) len cur.isSome)
      = some (setInt true false true v len cur) := by
  setter Gen.SrcC8.setintbe len cur

/-- `Bits._setuintle` as the source has it now = `C15.setInt false true true`. -/
theorem setuintle_eq (v : Val) (len : Option Int) (cur : Option Nat) :
    run (intMeaning v) (Gen.SrcC8.setuintle ((cur.getD 0 : Nat) : Int) len cur.isSome)
      = some (setInt false true true v len cur) := by
  setter Gen.SrcC8.setuintle len cur

/-- `Bits._setintle` as the source has it now = `C15.setInt true true true`. -/
theorem setintle_eq (v : Val) (len : Option Int) (cur : Option Nat) :
    run (intMeaning v) (Gen.SrcC8.setintle ((cur.getD 0 : Nat) : Int) len cur.isSome)
      = some (setInt true true true v len cur) := by
  setter Gen.SrcC8.setintle len cur

/-- `Bits._setfloat(f, length, big_endian)` as the source has it now = `C15.setFloat le` with `big_endian = !le`
    (`_setfloatbe` / `_setfloatle` pass `True` / `False`), for every value, Optional length and current length. -/
theorem setfloat_eq (le : Bool) (v : Val) (len : Option Int) (cur : Option Nat) :
    run (floatMeaning v) (Gen.SrcC8.setfloat ((cur.getD 0 : Nat) : Int) len (!le) cur.isSome)
      = some (setFloat le v len cur) := by
  unfold Gen.SrcC8.setfloat setFloat
  rcases len with _ | l <;> rcases cur with _ | c <;> cases le <;>
    simp [lenOrCur, run, floatMeaning, encFloat]
  all_goals (split_ifs <;> leaf)

/-- Non-vacuity: `BitArray(uintbe=258, length=16)` — the one-effect trace, meaning `0x0102`. -/
example : run (intMeaning (.int 258)) (Gen.SrcC8.setuintbe 0 (some 16) false)
    = some (.ok [false, false, false, false, false, false, false, true,
                 false, false, false, false, false, false, true, false]) := by
  rfl

/-- Non-vacuity: `a.intle = -2` on a 16-bit object (length defaulted from the current length): `0xfeff`. -/
example : run (intMeaning (.int (-2))) (Gen.SrcC8.setintle 16 none true)
    = some (.ok [true, true, true, true, true, true, true, false,
                 true, true, true, true, true, true, true, true]) := by
  rfl

/-- A value outside the range is rejected by the helper, inside the meaning. -/
example : run (intMeaning (.int 256)) (Gen.SrcC8.setuint 0 (some 8) false) = some (.error .value) := by
  rfl

/-- Non-vacuity for `_setfloat`: a little-endian binary16. -/
example : (run (floatMeaning (.float 0x3c00 0x3f800000 0x3ff0000000000000)) (Gen.SrcC8.setfloat 0 (some 16) false false))
    = some (.ok [false, false, false, false, false, false, false, false,
                 false, false, true, true, true, true, false, false]) := by
  rfl

end BM.C15.SrcC82
