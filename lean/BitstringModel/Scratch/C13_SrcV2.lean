/-
  Props/C13_Src.lean — tie between C13's hand-written ALG transcriptions of `Bits.__hash__` (`hashAlg`) and
  `Bits._absolute_slice` (`absoluteSlice`) and the CURRENT source text.

  `Gen/Src.lean` is regenerated on every run by harness/translate.py from /repo's working tree: the guards and the
  index arithmetic of each listed Python function are translated statement by statement, and every effect on an
  object is recorded as a `Py.Act` (source text with the integer sub-expressions replaced by `_`, plus their
  values).  Below, `…Meaning` gives each recorded effect the meaning the C13 model gives to the primitive it names
  (`tobytes` = `Store.tobytes`, `_absolute_slice` = `absoluteSlice`, `+` = `Store.add`, `getslice_msb0` =
  `Store.getsliceMsb0`), and the theorems state that, for EVERY object, the translated function under that meaning
  IS the ALG function the theorems of Props/C13.lean are about.  `hashAlg` takes the threshold and the two sample
  sizes as PARAMETERS; `hash_eq` is what pins them: the source text, as translated now, is `hashAlg 2000 800 800`.
  A change of the source (a different constant included) changes `Gen/Src.lean`; the theorem then no longer checks.
-/
import BitstringModel.Model.C13
import BitstringModel.Variants.SrcV2
import Mathlib.Tactic.SplitIfs
namespace BM.C13.SrcV2
open BM BM.C13

/-- The outcome of a trace-mode function under a meaning whose primitives may raise: the function's own exception,
    or the meaning of its trace (`none` = a trace this file does not know). -/
def run {α} (m : List Py.Act → Option (Except Err α)) : Except Err (List Py.Act) → Option (Except Err α)
  | .error e => some (.error e)
  | .ok tr => m tr

/-- Meaning of the effects recorded for `Bits.__hash__` on the object `o`: the key the built-in `hash` is applied to
    (`C13.Key` = (bytes, length); the Python hash of such a tuple is a function of its value).
    * `return hash((self.tobytes(), n))` : `(o.store.tobytes, n)`;
    * `L1 = self._absolute_slice(a, b) + self._absolute_slice(c, d)` then `return hash((L1.tobytes(), n))` :
      `absoluteSlice o.store a b` and `absoluteSlice o.store c d` (an AssertionError of either propagates, left
      operand first), joined by `Store.add`, then `Store.tobytes` — exactly as `hashAlg` composes them.
    `n` is `len(self)`, a length: the key keeps it as a natural number (`Int.toNat`). -/
def hashMeaning (o : Obj) : List Py.Act → Option (Except Err Key)
  | [⟨"return hash((self.tobytes(), _))", [some n]⟩] => some (.ok (o.store.tobytes, n.toNat))
  | [⟨"L1 = self._absolute_slice(_, _) + self._absolute_slice(_, _)", [some a, some b, some c, some d]⟩,
     ⟨"return hash((L1.tobytes(), _))", [some n]⟩] =>
      some (match absoluteSlice o.store a b, absoluteSlice o.store c d with
            | .ok x, .ok y => .ok ((x.add y).tobytes, n.toNat)
            | .error e, _ => .error e
            | _, .error e => .error e)
  | _ => none

/-- Meaning of the effects recorded for `Bits._absolute_slice(start, end)` on an object whose store is `s`; the
    result is the store of the returned object.
    * `return self.__class__()` : a fresh empty object, `{ raw := [] }`;
    * `L1 = self.__class__()`, `L1._bitstore = self._bitstore.getslice_msb0(a, b)`, `return L1` :
      `s.getsliceMsb0 (some a) (some b)`. -/
def absoluteSliceMeaning (s : Store) : List Py.Act → Option Store
  | [⟨"return self.__class__()", []⟩] => some { raw := [] }
  | [⟨"L1 = self.__class__()", []⟩, ⟨"L1._bitstore = self._bitstore.getslice_msb0(_, _)", [some a, some b]⟩,
     ⟨"return L1", []⟩] => some (s.getsliceMsb0 (some a) (some b))
  | _ => none

/-- Closes the leaves left after ALL guards of both sides have been split with `split_ifs` (whatever their order,
    nesting or polarity in the source): contradictory guards (`omega`, or a literal `False`), syntactically identical
    results (`with_reducible rfl`), or results that agree after unfolding the meaning (`simp`) up to the way the
    index arithmetic and the numeral casts are written (`omega` / congruence + linear arithmetic by `grind`). -/
local macro "leaf" : tactic =>
  `(tactic| first
    | omega
    | (exfalso; assumption)
    | with_reducible rfl
    | (simp [run, Except.map, hashMeaning, absoluteSliceMeaning]; first | done | omega | grind))

/-- `Bits.__hash__` as the source has it now = `C13.hashAlg 2000 800 800`, for every object of an immutable class
    (`Bits`, `ConstBitStream`), whatever its store, and for either value of `options.lsb0`.
    The hypothesis `o.cls.isMutable = false`: `hashAlg`'s first line answers TypeError for the mutable classes; that
    is `BitArray.__hash__ = None` (bitarray_.py, a class attribute, inherited by `BitStream`), which makes `hash()`
    fail before any function is called — it is not part of the body of `Bits.__hash__`, the function translated
    here, which is only ever entered for the immutable classes.  `self_len` is `len(self)` = `o.store.len`. -/
theorem hash_eq (lsb0 : Bool) (o : Obj) (hcls : o.cls.isMutable = false) :
    run (hashMeaning o) (Gen.SrcV2.hash (o.store.len : Int)) = some (hashAlg 2000 800 800 lsb0 o) := by
  unfold Gen.SrcV2.hash hashAlg
  simp [hcls]
  split_ifs <;> leaf

/-- `Bits._absolute_slice` as the source has it now = `C13.absoluteSlice`, for every store and every pair of
    integers (the `assert start < end` included: both sides answer AssertionError when `end < start`).
    `self_len` is not read by the function. -/
theorem absolute_slice_eq (s : Store) (start stop : Int) :
    (Gen.SrcV2.absolute_slice (s.len : Int) start stop).map (absoluteSliceMeaning s)
      = (absoluteSlice s start stop).map some := by
  unfold Gen.SrcV2.absolute_slice absoluteSlice
  simp [Except.map]
  split_ifs <;> leaf

/-- Non-vacuity: a short object takes the whole-value trace … -/
example : run (hashMeaning ⟨.bits, { raw := [true, false, true] }, 0⟩) (Gen.SrcV2.hash 3)
    = some (.ok ([0xa0], 3)) := by
  rfl

/-- … a 2001-bit object the sampling trace (the meaning is defined; its value is `hashAlg`'s by `hash_eq`). -/
example : (run (hashMeaning ⟨.bits, { raw := List.replicate 2001 true }, 0⟩) (Gen.SrcV2.hash 2001)).isSome = true := by
  rfl

/-- Non-vacuity for `_absolute_slice`: the three-effect trace. -/
example : (Gen.SrcV2.absolute_slice 4 1 3).map (absoluteSliceMeaning { raw := [true, false, true, true] })
    = .ok (some { raw := [false, true] }) := by
  rfl

end BM.C13.SrcV2
