/-
  Props/C01_Src3.lean — tie between C01's hand-written ALG transcription of `Bits._imul` (the doubling loop) and the
  CURRENT source text (third batch: a translated `while` loop).

  `Gen.SrcB6.imul_loop self_len n` is regenerated on every run by harness/translate.py from `Bits._imul`
  (bitstring/bits.py): the `assert`, the `n == 0` test and the arithmetic of the doubling loop (`m`, the loop condition,
  the slice bound `(n - m) * old_len`) are translated — the `while` as a structurally recursive function over a fuel
  counter, `.error (.internal "fuel")` if it ran out — and the effects (`self._clear()`, `self._addright(self)`,
  `self._addright(self[_:_])`, `return self`) are recorded.  `imulFold` FOLDS a recorded trace over the current bits
  (every effect acts on what the previous ones left), and `imul_loop_eq` states that, for EVERY content and EVERY integer
  `n`, the result is what C01's transcription gives: AssertionError for `n < 0`, the empty bitstring for `n = 0`,
  `C01.imul l n` otherwise — in particular the declared fuel always suffices.
-/
import BitstringModel.Model.C01
import BitstringModel.Model.C03
import BitstringModel.Proofs.C01
import BitstringModel.Variants.SrcB6
namespace BM.C01.SrcB63
open BM BM.C01

/-- One recorded effect of `_imul` on the current bits `cur`:
    `self._clear()` → empty; `self._addright(self)` → `cur ++ cur`;
    `self._addright(self[a:b])` → `cur ++ cur[a:b]`, the slice taken from the CURRENT bits with Python slice semantics
    (`Py.getSlice`, the definition C01's `s[a:b]` is modelled with). -/
def imulStep (cur : Bits) : Py.Act → Option Bits
  | ⟨"self._clear()", []⟩ => some []
  | ⟨"self._addright(self)", []⟩ => some (cur ++ cur)
  | ⟨"self._addright(self[_:_])", [some a, some b]⟩ =>
      match Py.getSlice cur (some a) (some b) none with
      | .ok s => some (cur ++ s)
      | .error _ => none
  | _ => none

/-- Meaning of a trace of `_imul`: the effects are folded over the current bits; `return self` must end the trace and
    yields the bits reached. -/
def imulFold : Bits → List Py.Act → Option Bits
  | cur, [⟨"return self", []⟩] => some cur
  | cur, a :: rest => (imulStep cur a).bind fun c => imulFold c rest
  | _, [] => none

/-! ### folding a prefix -/

/-- The effects of a prefix, folded. -/
def runPre : Bits → List Py.Act → Option Bits
  | cur, [] => some cur
  | cur, a :: rest => (imulStep cur a).bind fun c => runPre c rest

theorem runPre_append (c0 : Bits) (p q : List Py.Act) :
    runPre c0 (p ++ q) = (runPre c0 p).bind fun c => runPre c q := by
  induction p generalizing c0 with
  | nil => simp [runPre]
  | cons a p ih =>
    simp only [List.cons_append, runPre]
    cases imulStep c0 a with
    | none => simp
    | some c => simp [ih]

theorem imulStep_return (cur : Bits) : imulStep cur ⟨"return self", []⟩ = none := by
  simp [imulStep]

theorem imulFold_cons (cur : Bits) (a : Py.Act) (x : Py.Act) (rest : List Py.Act) :
    imulFold cur (a :: x :: rest) = (imulStep cur a).bind fun c => imulFold c (x :: rest) := by
  simp [imulFold]

/-- A trace = a prefix (folded by `runPre`) followed by a non-empty rest. -/
theorem imulFold_append (c0 : Bits) (p : List Py.Act) (x : Py.Act) (rest : List Py.Act) :
    imulFold c0 (p ++ x :: rest) = (runPre c0 p).bind fun c => imulFold c (x :: rest) := by
  induction p generalizing c0 with
  | nil => simp [runPre]
  | cons a p ih =>
    cases p with
    | nil =>
      simp only [List.cons_append, List.nil_append, imulFold_cons, runPre]
      cases imulStep c0 a <;> simp
    | cons b p =>
      simp only [List.cons_append] at ih ⊢
      rw [imulFold_cons]
      simp only [runPre]
      cases imulStep c0 a with
      | none => simp
      | some c => simpa [runPre] using ih c

theorem imulStep_clear (cur : Bits) : imulStep cur ⟨"self._clear()", []⟩ = some [] := by
  simp [imulStep]

theorem imulStep_double (cur : Bits) : imulStep cur ⟨"self._addright(self)", []⟩ = some (cur ++ cur) := by
  simp [imulStep]

/-- `self._addright(self[a:b])` with `a = 0`, `b = k ≥ 0` (however the source spells them) appends `cur.take k`. -/
theorem imulStep_slice (cur : Bits) (a b : Int) (k : Nat) (ha : a = 0) (hb : b = (k : Int)) :
    imulStep cur ⟨"self._addright(self[_:_])", [some a, some b]⟩ = some (cur ++ cur.take k) := by
  subst ha hb
  have h : Py.getSlice cur (some 0) (some (k : Int)) none = .ok (cur.take k) := by
    rw [getSlice_step1]
    simp only [Py.sliceIndices]
    have h1 : ¬ ((1 : Int) < 0) := by omega
    have h2 : ¬ ((0 : Int) < 0) := by omega
    have h3 : ¬ ((k : Int) < 0) := by omega
    simp only [h1, h2, h3, if_false]
    have h4 : (min (0 : Int) (cur.length : Int)).toNat = 0 := by omega
    have h5 : (min (k : Int) (cur.length : Int) - min (0 : Int) (cur.length : Int)).toNat = min k cur.length := by omega
    rw [h4, h5, List.drop_zero, ← List.take_eq_take_min]
  simp [imulStep, h]

/-! ### shape-agnostic proof vocabulary -/

/-- Decide every `if` whose condition (or its negation) follows from the context by linear arithmetic. -/
macro "eval_guards" : tactic => `(tactic| simp (disch := omega) only [if_pos, if_neg])

/-- Bool guards → propositions (goal and hypotheses), then decide them from the context. -/
macro "run_guards" : tactic => `(tactic| (
  try simp only [Bool.not_eq_true', Bool.not_eq_true, Bool.and_eq_true, Bool.or_eq_true, decide_eq_true_eq,
    decide_eq_false_iff_not, Bool.not_eq_false', Bool.not_eq_false, Bool.and_eq_false_iff, Bool.or_eq_false_iff,
    ne_eq, Bool.not_not, ge_iff_le, gt_iff_lt] at *
  try (simp (disch := omega) only [if_pos, if_neg] at *)))

/-! ### the loop -/

/-- Loop invariant of the translated `while m * 2 < n` against the model's `imulLoop`, by induction on the fuel.
    The state is `(mi, tr)` with `mi = m`; the effects recorded so far, folded from `c0`, give `cur`.  If the fuel is
    enough (`n ≤ m * 2 ^ f`, fuel `f + 1`), the translated loop returns normally with the state the model's loop
    computes: same multiplier, and a trace that folds to the model's bits. -/
theorem loop_inv (sl ol ni : Int) (n : Nat) (hn : ni = (n : Int)) (c0 : Bits) (f : Nat) :
    ∀ (mi : Int) (m : Nat) (cur : Bits) (tr : List Py.Act) (r : Except Err (Int × List Py.Act)),
      mi = (m : Int) → 1 ≤ m → m ≤ n → n ≤ m * 2 ^ f → runPre c0 tr = some cur →
      Gen.SrcB6.imul_loop.loop1 sl ni ol (f + 1) (mi, tr) = r →
      ∃ (m' : Nat) (tr' : List Py.Act), r = .ok ((m' : Int), tr') ∧ m' ≤ n ∧
        runPre c0 tr' = some (imulLoop f cur m n).1 ∧ m' = (imulLoop f cur m n).2 := by
  induction f with
  | zero =>
    intro mi m cur tr r hmi h1 hmn hf hrun hr
    rw [Gen.SrcB6.imul_loop.loop1] at hr
    simp only [Nat.pow_zero, Nat.mul_one] at hf
    run_guards
    exact ⟨m, tr, by rw [← hr, hmi], hmn, by simpa [imulLoop] using hrun, by simp [imulLoop]⟩
  | succ f ih =>
    intro mi m cur tr r hmi h1 hmn hf hrun hr
    rw [Gen.SrcB6.imul_loop.loop1] at hr
    by_cases hlt : m * 2 < n
    · run_guards
      have hmod : imulLoop (f + 1) cur m n = imulLoop f (cur ++ cur) (m * 2) n := by
        simp only [imulLoop, if_pos hlt]
      rw [hmod]
      refine ih _ (m * 2) (cur ++ cur) _ r (by omega) (by omega) (by omega) ?_ ?_ hr
      · rw [Nat.pow_succ] at hf; rw [Nat.mul_assoc, Nat.mul_comm 2]; exact hf
      · rw [runPre_append, hrun]; simp [runPre, imulStep_double]
    · run_guards
      have hmod : imulLoop (f + 1) cur m n = (cur, m) := by
        simp only [imulLoop, if_neg hlt]
      rw [hmod]
      exact ⟨m, tr, by rw [← hr, hmi], hmn, hrun, rfl⟩

/-- `Bits._imul(n)` as the source has it now, its recorded effects folded over the content `l`, = C01's transcription:
    `n < 0` — the `assert` fails; `n = 0` — `_clear()`; otherwise `C01.imul l n` (doubling loop, then the remainder).
    For every content and every integer; the fuel `n + 1` the translator declares for the `while` always suffices. -/
theorem imul_loop_eq (l : Bits) (n : Int) :
    (Gen.SrcB6.imul_loop (l.length : Int) n).map (imulFold l) =
      if n < 0 then .error (.internal "AssertionError")
      else if n = 0 then .ok (some []) else .ok (some (imul l n.toNat)) := by
  unfold Gen.SrcB6.imul_loop
  by_cases hneg : n < 0
  · run_guards; rfl
  · by_cases h0 : n = 0
    · run_guards
      simp only [Except.map, List.nil_append, List.cons_append]
      simp [imulFold_cons, imulStep_clear, imulFold]
    · obtain ⟨k, rfl⟩ := Int.eq_ofNat_of_zero_le (by omega : 0 ≤ n)
      run_guards
      simp only [Int.toNat_natCast]
      generalize hL : Gen.SrcB6.imul_loop.loop1 _ _ _ _ _ = r
      have hfuel : k ≤ 1 * 2 ^ k := by
        have := @Nat.lt_two_pow_self k; omega
      obtain ⟨m', tr', hr, hm'n, hrun, hm'⟩ :=
        loop_inv _ _ _ k rfl l k _ 1 l _ r (by omega) (by omega) (by omega) hfuel (by simp [runPre]) hL
      subst hr
      simp only [Except.bind, Except.map, List.append_assoc, List.cons_append, List.nil_append]
      have hmodel : imulLoop k l 1 k = ((imulLoop k l 1 k).1, m') := by rw [hm']
      rw [imulFold_append, hrun]
      simp only [Option.bind_some, imulFold_cons]
      rw [imulStep_slice _ _ _ ((k - m') * l.length) (by omega) (by push_cast [Nat.cast_sub hm'n]; ring)]
      simp only [Option.bind_some, imulFold, imul]
      rw [hmodel]

/-- The same for C03's transcription of `*=` (`Alg.imul` = guard + `_clear` + `C01.imul`) below its ValueError guard:
    `_imul(n)` for `n ≥ 0`. -/
theorem imul_loop_eq_C03 (l : Bits) (n : Int) (hn : 0 ≤ n) :
    (Gen.SrcB6.imul_loop (l.length : Int) n).map (imulFold l) = (C03.Alg.imul l n).map some := by
  rw [imul_loop_eq]
  unfold C03.Alg.imul
  have : ¬ n < 0 := by omega
  simp only [this, if_false]
  split <;> rfl

/-! ### non-vacuity -/

/-- `_imul(5)` on `10`: two doublings, then the remainder slice `[0:2]`. -/
example : (Gen.SrcB6.imul_loop 2 5).map (imulFold [true, false])
    = .ok (some [true, false, true, false, true, false, true, false, true, false]) := by
  rfl

example : (Gen.SrcB6.imul_loop 2 5) = .ok [⟨"self._addright(self)", []⟩, ⟨"self._addright(self)", []⟩,
    ⟨"self._addright(self[_:_])", [some 0, some 2]⟩, ⟨"return self", []⟩] := by
  rfl

end BM.C01.SrcB63
