/-
  Props/C01_Src.lean — tie between C01's hand-written ALG transcription of `s * n` and the CURRENT source text.

  `Gen.SrcC8.mul` is regenerated on every run by harness/translate.py from `Bits.__mul__` (bitstring/bits.py): the
  guards are translated, the effects on objects (`self.__class__()`, `self._copy()`, `L1._imul(n)`, `return L1`) are
  recorded as `Py.Act`s.  `mulMeaning` gives them the meaning the C01 model gives them (an object = class + bits;
  `_imul` = `C01.imul`, the transcribed doubling loop), and `mul_eq` states that, for EVERY object and EVERY integer,
  the translated function under that meaning IS `C01.mul`, the function the theorems of Props/C01.lean are about.
-/
import BitstringModel.Model.C01
import BitstringModel.Variants.SrcC8
namespace BM.C01.SrcC8
open BM BM.C01

/-- `x._imul(n)` on the bits `l` (bits.py: def _imul): `assert n >= 0` — no meaning for a negative `n`;
    `n == 0 → _clear()`; otherwise the doubling loop, for which the model's own transcription `C01.imul` is used
    (`C01.imul` is the `else` branch only, i.e. `n ≥ 1`). -/
def imulPrim (l : Bits) (n : Int) : Option Bits :=
  if n < 0 then none else if n = 0 then some [] else some (imul l n.toNat)

/-- Meaning of the effects recorded for `Bits.__mul__` on the object `s`:
    `return self.__class__()` = an empty object of the class of `s`;
    `L1 = self._copy()` = same class, same bits; `L1._imul(n)`; `return L1`. -/
def mulMeaning (s : Obj) : List Py.Act → Option Obj
  | [⟨"return self.__class__()", []⟩] => some ⟨s.cls, []⟩
  | [⟨"L1 = self._copy()", []⟩, ⟨"L1._imul(_)", [some n]⟩, ⟨"return L1", []⟩] =>
      (imulPrim s.bits n).map fun b => ⟨s.cls, b⟩
  | _ => none

/-! The proof must not depend on how the source spells its guards (`not n` / `n == 0`, order of the guards, …): it is
    also checked against harmlessly rewritten sources (Scratch/C01_SrcV*.lean).  Guards are turned into propositions
    and decided by `omega` from the case hypotheses. -/

/-- Decide every `if` whose condition (or its negation) follows from the context by linear arithmetic. -/
macro "eval_guards" : tactic => `(tactic| simp (disch := omega) only [if_pos, if_neg])

/-- Bool guards → propositions, decide them, flatten the trace. -/
macro "run_guards" : tactic => `(tactic| (
  try simp only [Bool.not_eq_true', Bool.not_eq_true, Bool.and_eq_true, Bool.or_eq_true, decide_eq_true_eq,
    decide_eq_false_iff_not, Bool.not_eq_false', Bool.not_eq_false, Bool.and_eq_false_iff, Bool.or_eq_false_iff,
    ne_eq, Bool.not_not, Except.bind]
  try eval_guards
  try simp only [Except.map, List.nil_append, List.cons_append, List.append_assoc, List.singleton_append]))

theorem mulMeaning_empty (s : Obj) : mulMeaning s [⟨"return self.__class__()", []⟩] = some ⟨s.cls, []⟩ := by
  simp [mulMeaning]

theorem mulMeaning_three (s : Obj) (n : Int) :
    mulMeaning s [⟨"L1 = self._copy()", []⟩, ⟨"L1._imul(_)", [some n]⟩, ⟨"return L1", []⟩]
      = (imulPrim s.bits n).map fun b => ⟨s.cls, b⟩ := by
  simp [mulMeaning]

/-- `Bits.__mul__` as the source has it now = `C01.mul`, for every class, every content and every integer `n`
    (`n < 0`: ValueError on both sides; `n = 0`: the empty object of the class). -/
theorem mul_eq (s : Obj) (n : Int) :
    (Gen.SrcC8.mul (s.bits.length : Int) n).map (mulMeaning s) = (mul s n).map some := by
  unfold Gen.SrcC8.mul mul
  by_cases hn : n < 0 <;> by_cases h0 : n = 0 <;> (try (exfalso; omega)) <;> run_guards <;>
    (try simp only [mulMeaning_empty, mulMeaning_three, imulPrim]) <;> (try eval_guards) <;>
    (try simp only [Option.map_some])

/-- Non-vacuity: `BitStream('0b10') * 3` really goes through copy / `_imul` / return. -/
example : (Gen.SrcC8.mul 2 3).map (mulMeaning ⟨.bitStream, [true, false]⟩)
    = .ok (some ⟨.bitStream, [true, false, true, false, true, false]⟩) := by
  rfl

example : (Gen.SrcC8.mul 2 0).map (mulMeaning ⟨.bitArray, [true, false]⟩) = .ok (some ⟨.bitArray, []⟩) := by
  rfl

end BM.C01.SrcC8
