/-
  Props/C07_Src.lean — tie between C07's hand-written ALG transcription of `Bits._validate_slice` and the CURRENT
  source text.  `Gen.SrcB7.validate_slice` is regenerated from /repo on every run by harness/translate.py
  (Gen/Src.lean); the theorem states that, for EVERY length and EVERY pair of Optional bounds, it computes what
  `C07.validateSlice` (the function every C07 entry point — find, rfind, findall, startswith, endswith, cut, split,
  replace — validates its range with) computes.  `_validate_slice` is a pure function of three integers, so there is
  no meaning function here; the only adaptation is the cast of the two returned bounds Int → Nat (`Int.toNat`), which
  loses nothing because the success branch is guarded by `0 ≤ start ≤ end`.
-/
import BitstringModel.Model.C07
import BitstringModel.Variants.SrcB7
namespace BM.C07.SrcB7
open BM BM.C07

/-- Shape-agnostic closing tactic for the ties below (the same script must survive harmless rewrites of the Python
    source — renamed locals, re-associated / commuted sums, conditional expressions ↔ if-statements, `not n` ↔ `n == 0`,
    `a <= b` ↔ `not a > b`, guards merged with `or` / swapped with the condition negated …): turn the Boolean tests into
    propositions, split every `if` / `match` on both sides, then close every leaf by linear arithmetic, by
    simplification with the case hypotheses, or by `grind`. -/
macro "src_auto" : tactic => `(tactic| (
  try simp only [Int.min_def, Nat.min_def, Int.max_def, Nat.max_def]
  try simp only [decide_eq_true_eq, decide_eq_false_iff_not, Bool.not_eq_true', Bool.not_eq_false', Bool.and_eq_true,
    Bool.or_eq_true, Bool.and_eq_false_imp, Bool.or_eq_false_iff, ne_eq, Decidable.not_not]
  repeat' split
  all_goals (first
    | omega
    | (simp_all [Except.map, Except.bind] <;> first | omega | grind)
    | grind [Except.map, Except.bind])))

/-- The final guard of `_validate_slice` (`if not 0 <= start <= end <= len(self): raise ValueError`) for bounds that
    are already normalised: the Boolean test in the form the translator emits for the chained comparison against the
    model's propositional one.  A standalone fact (it mentions no translated function, so it cannot be affected by a
    rewrite of the source); the tie below no longer goes through it. -/
theorem validate_core (n s e : Int) :
    (if (!(decide ((0 : Int) ≤ s) && decide (s ≤ e) && decide (e ≤ n))) then (.error .value : Except Err (Int × Int))
      else .ok (s, e)).map (fun p => (p.1.toNat, p.2.toNat))
      = if 0 ≤ s ∧ s ≤ e ∧ e ≤ n then .ok (s.toNat, e.toNat) else .error .value := by
  by_cases h : 0 ≤ s ∧ s ≤ e ∧ e ≤ n
  · simp [h, Except.map]
  · rw [if_neg h]
    have : (!(decide ((0 : Int) ≤ s) && decide (s ≤ e) && decide (e ≤ n))) = true := by
      simp only [Bool.not_eq_true', Bool.and_eq_false_iff, decide_eq_false_iff_not]
      omega
    simp [this, Except.map]

/-- `Bits._validate_slice` (bits.py) as translated from the source = `C07.validateSlice`, for every length and every
    pair of Optional bounds (error case included: both sides are `Except` values). -/
theorem validate_slice_eq (n : Nat) (a b : Option Int) :
    (Gen.SrcB7.validate_slice (n : Int) a b).map (fun p => (p.1.toNat, p.2.toNat)) = validateSlice n a b := by
  unfold Gen.SrcB7.validate_slice validateSlice
  cases a <;> cases b <;> src_auto

/-- Non-vacuity: negative bounds are taken from the end, … -/
example : (Gen.SrcB7.validate_slice 10 (some (-7)) (some (-2))).map (fun p => (p.1.toNat, p.2.toNat)) = .ok (3, 8) := by
  rfl

/-- … and a reversed range is the ValueError. -/
example : (Gen.SrcB7.validate_slice 10 (some 8) (some 3)).map (fun p => (p.1.toNat, p.2.toNat)) = .error .value := by
  rfl

end BM.C07.SrcB7
