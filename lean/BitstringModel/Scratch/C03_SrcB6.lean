/-
  Props/C03_Src.lean — tie between C03's hand-written ALG transcriptions and the CURRENT source text.

  `Gen/Src.lean` is regenerated on every run by harness/translate.py from /repo's working tree: guards and index
  arithmetic are translated statement by statement, every effect on an object is recorded as a `Py.Act` (source text
  with the integer sub-expressions replaced by `_`, plus their values).  Below, `…Meaning` gives each recorded effect
  the meaning the C03 model gives to the primitive it names (`slc`, `Alg._delete`, `Alg._insert`, C01's doubling loop
  for `_imul`), and the theorems state that, for EVERY input, the translated function under that meaning IS the ALG
  function of Model/C03.lean that Props/C03*.lean reason about.  A change of the source changes `Gen/Src.lean`; the
  theorem then no longer checks.

  Covered: `Bits._validate_slice`, `BitArray.ror` ∘ `_ror_msb0`, `BitArray.rol` ∘ `_rol_msb0`, `BitArray.__imul__`.
  Not covered: `Bits._truncateleft` / `_truncateright` — Model/C03.lean has no separate transcription of them
  (`Alg.ishl` / `Alg.ishr` are `C16.ishl` / `C16.ishr`, where the truncation is inlined as `drop` / `take`).
-/
import BitstringModel.Model.C03
import BitstringModel.Variants.SrcB6
namespace BM.C03.SrcB6
open BM BM.C03

/-! ## shape-agnostic proof vocabulary

  The proofs below must not depend on HOW the source spells a guard or an index expression (conditional expression
  vs `if` statement, `not n` vs `n == 0`, `a + b` vs `b + a`, merged guards, swapped branches …): they are checked
  against harmlessly rewritten sources as well (Scratch/C03_SrcV*.lean).  So: every `if` / `match` is split, Bool
  guards are turned into propositions, and all arithmetic goes to `omega`. -/

/-- Bool-valued guards (`decide`, `!`, `&&`, `||`) → propositions, everywhere. -/
macro "guards_to_prop" : tactic => `(tactic|
  simp only [Bool.not_eq_true', Bool.not_eq_true, Bool.and_eq_true, Bool.or_eq_true, decide_eq_true_eq,
    decide_eq_false_iff_not, Bool.not_eq_false', Bool.not_eq_false, Bool.and_eq_false_iff, Bool.or_eq_false_iff,
    ne_eq, Bool.not_not] at *)

/-- Decide every `if` whose condition follows (or whose negation follows) from the context by linear arithmetic. -/
macro "eval_guards" : tactic => `(tactic| simp (disch := omega) only [if_pos, if_neg])

/-- Split every `if` / `match`, then close each leaf: contradictory guards and index equalities by `omega`. -/
macro "src_close" : tactic => `(tactic| (
  (repeat' split) <;>
  (try guards_to_prop) <;>
  (try eval_guards) <;>
  (try simp only [Except.ok.injEq, Except.error.injEq, Prod.mk.injEq, Option.some.injEq, reduceCtorEq,
        true_and, and_true, and_self]) <;>
  (try omega)))

/-! ## `_validate_slice` -/

theorem src_validate_slice_ok (n : Nat) (a b : Option Int)
    (h : 0 ≤ boundOr n 0 a ∧ boundOr n 0 a ≤ boundOr n n b ∧ boundOr n n b ≤ n) :
    Gen.SrcB6.validate_slice (n : Int) a b = .ok (boundOr n 0 a, boundOr n n b) := by
  rcases a with _ | a <;> rcases b with _ | b <;>
    simp only [Gen.SrcB6.validate_slice, boundOr] at h ⊢ <;> src_close

theorem src_validate_slice_err (n : Nat) (a b : Option Int)
    (h : ¬ (0 ≤ boundOr n 0 a ∧ boundOr n 0 a ≤ boundOr n n b ∧ boundOr n n b ≤ n)) :
    Gen.SrcB6.validate_slice (n : Int) a b = .error .value := by
  rcases a with _ | a <;> rcases b with _ | b <;>
    simp only [Gen.SrcB6.validate_slice, boundOr] at h ⊢ <;> src_close

/-- The translated `_validate_slice` in closed form over the model's `boundOr` (integer-valued result). -/
theorem src_validate_slice (n : Nat) (a b : Option Int) :
    Gen.SrcB6.validate_slice (n : Int) a b =
      if 0 ≤ boundOr n 0 a ∧ boundOr n 0 a ≤ boundOr n n b ∧ boundOr n n b ≤ n then
        .ok (boundOr n 0 a, boundOr n n b) else .error .value := by
  by_cases h : 0 ≤ boundOr n 0 a ∧ boundOr n 0 a ≤ boundOr n n b ∧ boundOr n n b ≤ n
  · rw [if_pos h]; exact src_validate_slice_ok n a b h
  · rw [if_neg h]; exact src_validate_slice_err n a b h

/-- `Bits._validate_slice` (bits.py) as the source has it now = `C03.validateSlice`, for every length and every pair
    of Optional bounds.  The source computes Python ints, the model returns the (then non-negative) bounds as `Nat`:
    both components are cast with `Int.toNat`; the error case is an equality of `Except` values. -/
theorem validate_slice_eq (n : Nat) (a b : Option Int) :
    (Gen.SrcB6.validate_slice (n : Int) a b).map (fun p => (p.1.toNat, p.2.toNat)) = validateSlice n a b := by
  unfold validateSlice
  by_cases h : 0 ≤ boundOr n 0 a ∧ boundOr n 0 a ≤ boundOr n n b ∧ boundOr n n b ≤ n
  · rw [src_validate_slice_ok n a b h]; simp only [h, and_self, if_true, Except.map]
  · rw [src_validate_slice_err n a b h]; simp only [h, if_false, Except.map]

/-! ## rotation -/

/-- Result of a translated function whose recorded effects are themselves fallible: an exception raised by the
    translated guards is the outcome; otherwise the trace is handed to its meaning (`none` = unknown trace). -/
def interp (r : Except Err (List Py.Act)) (m : List Py.Act → Option (Except Err Bits)) : Option (Except Err Bits) :=
  match r with
  | .error e => some (.error e)
  | .ok tr => m tr

/-- Meaning of the effects recorded for `_ror_msb0` / `_rol_msb0` on the current bits `l`:
    no effect (the early `return`s) = unchanged; otherwise `L1 = self._slice(p, q)` is `slc l p q`,
    `self._delete(n, pos)` is `Alg._delete l n pos`, `self._insert(L1, at)` is `Alg._insert · L1 at` —
    the model's own primitives, which take `Nat` arguments: a negative recorded value has no meaning here (`none`). -/
def rotMeaning (l : Bits) : List Py.Act → Option (Except Err Bits)
  | [] => some (.ok l)
  | [⟨"L1 = self._slice(_, _)", [some p, some q]⟩, ⟨"self._delete(_, _)", [some n, some pos]⟩,
     ⟨"self._insert(L1, _)", [some at_]⟩] =>
      if 0 ≤ p ∧ 0 ≤ q ∧ 0 ≤ n ∧ 0 ≤ pos ∧ 0 ≤ at_ then
        some (match Alg._delete l n.toNat pos.toNat with
              | .error err => .error err
              | .ok l' => Alg._insert l' (slc l p.toNat q.toNat) at_.toNat)
      else none
  | _ => none

/-- Meaning of the single effect recorded for `BitArray.ror`: `self._ror(k, s, e)` runs the function `_ror` is bound
    to in msb0 mode — the translated `_ror_msb0` — on the recorded arguments, under `rotMeaning`. -/
def rorMeaning (l : Bits) : List Py.Act → Option (Except Err Bits)
  | [⟨"self._ror(_, _, _)", [some k, s, e]⟩] => interp (Gen.SrcB6.ror_msb0 (l.length : Int) k s e) (rotMeaning l)
  | _ => none

/-- The same for `BitArray.rol` / `_rol_msb0`. -/
def rolMeaning (l : Bits) : List Py.Act → Option (Except Err Bits)
  | [⟨"self._rol(_, _, _)", [some k, s, e]⟩] => interp (Gen.SrcB6.rol_msb0 (l.length : Int) k s e) (rotMeaning l)
  | _ => none

/-- The three-effect trace under `rotMeaning`, with the recorded (integer) arguments related to the model's `Nat`
    arguments by hypotheses — so that the caller never has to know how the source spells them. -/
theorem rot_three_eq (l : Bits) (p q n pos at_ : Int) (p' q' n' pos' at' : Nat) (R : Except Err Bits)
    (hp : p = p') (hq : q = q') (hn : n = n') (hpos : pos = pos') (hat : at_ = at')
    (hR : R = match Alg._delete l n' pos' with
              | .error err => .error err
              | .ok l' => Alg._insert l' (slc l p' q') at') :
    rotMeaning l [⟨"L1 = self._slice(_, _)", [some p, some q]⟩, ⟨"self._delete(_, _)", [some n, some pos]⟩,
     ⟨"self._insert(L1, _)", [some at_]⟩] = some R := by
  subst hp hq hn hpos hat hR
  simp [rotMeaning]
  try (cases Alg._delete l n' pos' <;> rfl)

theorem rorMeaning_one (l : Bits) (k : Int) (s e : Option Int) :
    rorMeaning l [⟨"self._ror(_, _, _)", [some k, s, e]⟩]
      = interp (Gen.SrcB6.ror_msb0 (l.length : Int) k s e) (rotMeaning l) := by
  simp [rorMeaning]

theorem rolMeaning_one (l : Bits) (k : Int) (s e : Option Int) :
    rolMeaning l [⟨"self._rol(_, _, _)", [some k, s, e]⟩]
      = interp (Gen.SrcB6.rol_msb0 (l.length : Int) k s e) (rotMeaning l) := by
  simp [rolMeaning]

/-- Python's `k % m` for `k ≥ 0` and `m = z - a > 0` (however `m` is spelled) is the model's `k.toNat % (z - a)`. -/
theorem fmod_nat (k : Int) (hk : 0 ≤ k) (a z : Nat) (haz : a < z) (m : Int) (hm : m = (z : Int) - (a : Int)) :
    Int.fmod k m = ((k.toNat % (z - a) : Nat) : Int) := by
  subst hm
  rw [Int.fmod_eq_emod_of_nonneg k (by omega)]
  have h1 : k = (k.toNat : Int) := by omega
  have h2 : (z : Int) - (a : Int) = ((z - a : Nat) : Int) := by omega
  rw [h2, h1, Int.toNat_natCast]; rfl

/-- The same for the RAISING `%` the translator emits for a divisor that is not a non-zero literal (`Py.fmodE`:
    ZeroDivisionError for 0): on this path the divisor is `end - start > 0`, so it returns normally. -/
theorem fmodE_nat (k : Int) (hk : 0 ≤ k) (a z : Nat) (haz : a < z) (m : Int) (hm : m = (z : Int) - (a : Int)) :
    Py.fmodE k m = .ok ((k.toNat % (z - a) : Nat) : Int) := by
  unfold Py.fmodE
  rw [if_neg (by omega), fmod_nat k hk a z haz m hm]

/-- Normalise the guards of the goal, decide them from the arithmetic facts in the context, flatten the trace. -/
macro "run_guards" : tactic => `(tactic| (
  try simp only [Bool.not_eq_true', Bool.not_eq_true, Bool.and_eq_true, Bool.or_eq_true, decide_eq_true_eq,
    decide_eq_false_iff_not, Bool.not_eq_false', Bool.not_eq_false, Bool.and_eq_false_iff, Bool.or_eq_false_iff,
    ne_eq, Bool.not_not, Except.bind]
  try eval_guards
  try simp only [interp, Except.map, List.nil_append, List.cons_append, List.append_assoc, List.singleton_append]))

set_option hygiene false in
/-- Shared proof of `ror_msb0_eq` / `rol_msb0_eq`, after both sides are unfolded: validate, then the two early
    returns, then the three effects with their arguments compared by `omega`. -/
macro "rot_msb0_proof" l:ident k:ident hk:ident s:ident e:ident : tactic => `(tactic| (
  by_cases h : 0 ≤ boundOr ($l).length 0 $s ∧ boundOr ($l).length 0 $s ≤ boundOr ($l).length (($l).length : Int) $e
      ∧ boundOr ($l).length (($l).length : Int) $e ≤ (($l).length : Int)
  · rw [src_validate_slice_ok _ _ _ h]
    simp only [h, and_self, if_true]
    generalize boundOr ($l).length 0 $s = a at h ⊢
    generalize boundOr ($l).length (($l).length : Int) $e = z at h ⊢
    obtain ⟨a, rfl⟩ := Int.eq_ofNat_of_zero_le h.1
    obtain ⟨z, rfl⟩ := Int.eq_ofNat_of_zero_le (by omega : 0 ≤ z)
    simp only [Except.bind, Int.toNat_natCast]
    by_cases haz : a = z
    · run_guards
      simp [rotMeaning]
    · have hfm := fmod_nat $k $hk a z (by omega)
      have hfmE := fmodE_nat $k $hk a z (by omega)
      simp (disch := omega) only [hfm, hfmE, Except.bind]
      have hr : ($k).toNat % (z - a) < z - a := Nat.mod_lt _ (by omega)
      generalize ($k).toNat % (z - a) = r at hr ⊢
      by_cases hr0 : r = 0
      · run_guards
        simp [rotMeaning]
      · run_guards
        first
          | (refine rot_three_eq $l _ _ _ _ _ (z - r) z r (z - r) a _ ?_ ?_ ?_ ?_ ?_ ?_ <;>
              first | omega | (cases Alg._delete $l r (z - r) <;> rfl))
          | (refine rot_three_eq $l _ _ _ _ _ a (a + r) r a (z - r) _ ?_ ?_ ?_ ?_ ?_ ?_ <;>
              first | omega | (cases Alg._delete $l r a <;> rfl))
  · rw [src_validate_slice_err _ _ _ h]
    simp only [h, if_false, Except.bind, interp]))

/-- `BitArray._ror_msb0` as the source has it now = `Alg._ror`.  `0 ≤ k` is the condition under which `_ror` is
    called (`ror` rejects `bits < 0` first); the public statement `ror_eq` needs no hypothesis. -/
theorem ror_msb0_eq (l : Bits) (k : Int) (hk : 0 ≤ k) (s e : Option Int) :
    interp (Gen.SrcB6.ror_msb0 (l.length : Int) k s e) (rotMeaning l) = some (Alg._ror l k s e) := by
  unfold Gen.SrcB6.ror_msb0 Alg._ror validateSlice
  rot_msb0_proof l k hk s e

/-- `BitArray._rol_msb0` as the source has it now = `Alg._rol` (called only with `0 ≤ k`, see `rol_eq`). -/
theorem rol_msb0_eq (l : Bits) (k : Int) (hk : 0 ≤ k) (s e : Option Int) :
    interp (Gen.SrcB6.rol_msb0 (l.length : Int) k s e) (rotMeaning l) = some (Alg._rol l k s e) := by
  unfold Gen.SrcB6.rol_msb0 Alg._rol validateSlice
  rot_msb0_proof l k hk s e

/-- `BitArray.ror` as the source has it now (guards, then `_ror` = `_ror_msb0`, then `_slice` / `_delete` / `_insert`)
    = `Alg.ror`, for every content, every integer amount (negative included: both sides are ValueError) and all
    Optional bounds.  No hypothesis. -/
theorem ror_eq (l : Bits) (k : Int) (s e : Option Int) :
    interp (Gen.SrcB6.ror (l.length : Int) k s e) (rorMeaning l) = some (Alg.ror l k s e) := by
  unfold Gen.SrcB6.ror Alg.ror
  by_cases h0 : l.length = 0 <;> by_cases hk : k < 0 <;> run_guards
  exact (rorMeaning_one l k s e).trans (ror_msb0_eq l k (by omega) s e)

/-- `BitArray.rol` as the source has it now = `Alg.rol`.  No hypothesis. -/
theorem rol_eq (l : Bits) (k : Int) (s e : Option Int) :
    interp (Gen.SrcB6.rol (l.length : Int) k s e) (rolMeaning l) = some (Alg.rol l k s e) := by
  unfold Gen.SrcB6.rol Alg.rol
  by_cases h0 : l.length = 0 <;> by_cases hk : k < 0 <;> run_guards
  exact (rolMeaning_one l k s e).trans (rol_msb0_eq l k (by omega) s e)

/-! ## `*=` -/

/-- `self._imul(n)` (bits.py: def _imul) as C03 models it inside `Alg.imul`: `n == 0 → _clear()`, otherwise the
    doubling loop transcribed in C01 (`C01.imul`); `assert n >= 0` — no meaning for a negative `n`. -/
def imulPrim (l : Bits) (n : Int) : Option Bits :=
  if n < 0 then none else if n = 0 then some [] else some (C01.imul l n.toNat)

/-- Meaning of the effect recorded for `BitArray.__imul__`. -/
def imulMeaning (l : Bits) : List Py.Act → Option Bits
  | [⟨"return self._imul(_)", [some n]⟩] => imulPrim l n
  | _ => none

theorem imulMeaning_one (l : Bits) (n : Int) :
    imulMeaning l [⟨"return self._imul(_)", [some n]⟩] = imulPrim l n := by
  simp [imulMeaning]

/-- `BitArray.__imul__` as the source has it now = `Alg.imul`, for every content and every integer. -/
theorem imul_eq (l : Bits) (n : Int) :
    (Gen.SrcB6.imul (l.length : Int) n).map (imulMeaning l) = (Alg.imul l n).map some := by
  unfold Gen.SrcB6.imul Alg.imul
  by_cases hn : n < 0 <;> by_cases h0 : n = 0 <;> (try (exfalso; omega)) <;> run_guards <;>
    (try simp only [imulMeaning_one, imulPrim]) <;> (try eval_guards)

/-! ## non-vacuity -/

/-- `ror(2, 1)` on `10011`: the translated public method, the translated `_ror_msb0` and the three primitives really
    run and give `11100`. -/
example : interp (Gen.SrcB6.ror 5 2 (some 1) none) (rorMeaning [true, false, false, true, true])
    = some (.ok [true, true, true, false, false]) := by
  decide

example : interp (Gen.SrcB6.rol 5 1 none (some (-1))) (rolMeaning [true, false, false, true, true])
    = some (.ok [false, false, true, true, true]) := by
  decide

example : (Gen.SrcB6.imul 2 3).map (imulMeaning [true, false]) = .ok (some [true, false, true, false, true, false]) := by
  decide

end BM.C03.SrcB6
